(* C09 - towards the proposal-side wait (c): a proposal that waits for Committed.Index = PrevIndex (Validate / Abort).
   PROVED here (single-delivery version, for every reachable queued world and every delivery):
     mover_requeues            the proposal reconcile that can move Committed.Index (Commit IN_PROGRESS or Abort
                               IN_PROGRESS, apply phase not started) returns requeue_next, or writes nothing, or it is
                               the abort branch that moves ONLY Committed.Index (Committed = PrevIndex, Applied <>
                               PrevIndex: the model returns RDone there).
     committed_opens_wakes     if the delivery of a pending id moves Committed.Index of target t to the PrevIndex of a
                               stored proposal (t, i) (so the validate / abort guard of (t, i) opens), then after the
                               delivery CtlProp (t, i) is pending - by the mover's requeue_next and the chain invariant
                               ci_prev (NextIndex of the predecessor = i) - OR the mover is the predecessor in Abort
                               IN_PROGRESS whose Applied.Index lags (it moved only Committed.Index and returned RDone).
   NOT proved: the invariant over all qreach states.  What is missing:
     - the exception above is real in the model: "an enabled proposal in Validate is pending" is not inductive as it
       stands; the statement needs a guardian disjunct (predecessor in Abort IN_PROGRESS, Applied.Index behind its
       PrevIndex, woken later by ITS predecessor's requeue_next) and the proof that only CtlProp (t, prev) takes the
       predecessor out of that state;
     - the record-local part (the proposal record itself is written: delivery_wakes_owners) and the environment
       steps (env_frame: they do not touch props / Committed.Index) are routine and were not assembled for lack of time. *)
From stdpp Require Import gmap.
From RecordUpdate Require Import RecordUpdate.
From Coq Require Import NArith Lia.
From OC Require Import Model.Proto2 Model.Proto2Queue Proofs.P2Base Proofs.P2Phases Proofs.P2_Order Proofs.P2_Cursor
     Proofs.P2_CursorInv Proofs.P2_CursorLink Proofs.P2_CursorChainInv Proofs.P2_Queue Proofs.P2_QueueWaitA.
Open Scope N_scope.

Section WaitC.
  Context {V Ch Req D : Type}.
  Context (candidate : V -> Ch -> V) (candidate_rb : V -> Ch -> V) (rollback_of : V -> Ch -> Ch)
          (overlay : V -> V -> V) (commit_merge : N -> N -> V -> V -> Ch -> V)
          (payload : N -> V -> Ch -> option Req) (record_applied : N -> N -> V -> V -> V -> Ch -> V)
          (touched : N -> V -> Ch -> V) (restore : V -> V -> V)
          (resync_payload : V -> list (option Req)) (doc_ok : V -> bool)
          (dev_apply : D -> Req -> D) (stamp : N -> Ch -> Ch) (v_empty : V) (d_empty : D) (ch_empty : Ch).

  Notation world := (@world V Ch Req D).
  Notation eff := (@eff V Ch Req).
  Notation prop := (@prop Ch).
  Notation config := (@config V).
  Notation qworld := (@qworld V Ch Req D).
  Notation apply_eff := (@apply_eff V Ch Req D dev_apply d_empty).
  Notation rec_prop := (@rec_prop V Ch Req D candidate candidate_rb rollback_of overlay commit_merge payload record_applied
                                  touched restore doc_ok v_empty d_empty ch_empty).
  Notation reconcile := (@reconcile V Ch Req D candidate candidate_rb rollback_of overlay commit_merge payload record_applied
                                    touched restore resync_payload doc_ok stamp v_empty d_empty ch_empty).
  Notation step := (@step V Ch Req D candidate candidate_rb rollback_of overlay commit_merge payload record_applied
                          touched restore resync_payload doc_ok dev_apply stamp v_empty d_empty ch_empty).
  Notation qstep := (@qstep V Ch Req D candidate candidate_rb rollback_of overlay commit_merge payload record_applied
                            touched restore resync_payload doc_ok dev_apply stamp v_empty d_empty ch_empty).
  Notation qreach := (@qreach V Ch Req D candidate candidate_rb rollback_of overlay commit_merge payload record_applied
                              touched restore resync_payload doc_ok dev_apply stamp v_empty d_empty ch_empty).
  Notation T_reach := (T_inv_reach candidate candidate_rb rollback_of overlay commit_merge payload record_applied touched restore
                                   resync_payload doc_ok dev_apply stamp v_empty d_empty ch_empty).
  Notation C_reach := (C_inv_reach candidate candidate_rb rollback_of overlay commit_merge payload record_applied touched restore
                                   resync_payload doc_ok dev_apply stamp v_empty d_empty ch_empty).
  Notation q_reach := (qreach_reach candidate candidate_rb rollback_of overlay commit_merge payload record_applied touched restore
                                    resync_payload doc_ok dev_apply stamp v_empty d_empty ch_empty).
  Notation committed_of := (@committed_of V Ch Req D).
  Notation applied_of := (@applied_of V Ch Req D).
  Notation requeue_next := (@requeue_next Ch).

  (* the reconcile of a proposal that may move Committed.Index *)
  Lemma mover_requeues (o : oracle) (w : world) t j (Pj : prop) (C : config) :
    props w !! (t, j) = Some Pj -> cfgs w !! t = Some C -> p_apply Pj = None ->
    (p_abort Pj = None /\ p_commit Pj = Some Doing) \/ p_abort Pj = Some Doing ->
    snd (rec_prop o w (t, j)) = requeue_next t Pj \/
    fst (rec_prop o w (t, j)) = [] \/
    (p_abort Pj = Some Doing /\ c_committed C = p_prev Pj /\ c_applied C <> p_prev Pj).
  Proof.
    intros HP HC Hap Hph. unfold Proto2.rec_prop. rewrite HP, Hap, HC.
    destruct Hph as [[Hab Hco]|Hab].
    - rewrite Hab, Hco. left. reflexivity.
    - rewrite Hab.
      destruct (c_committed C =? p_prev Pj) eqn:E1; destruct (c_applied C =? p_prev Pj) eqn:E2; cbn [andb].
      + left. reflexivity.
      + right. right. apply N.eqb_eq in E1. apply N.eqb_neq in E2. split; [reflexivity|]. split; assumption.
      + destruct (j <=? c_committed C); cbn [andb]; [left; reflexivity|]. right. left. reflexivity.
      + destruct ((j <=? c_committed C) && (j <=? c_applied C)); [left; reflexivity|]. right. left. reflexivity.
  Qed.

  (* a delivery is a full step of the protocol model *)
  Lemma deliver_is_step (s : qworld) n o c :
    nth_error (queue s) n = Some c ->
    qw (qstep s (QDeliver n o)) = step (qw s) (LRec c (length (fst (reconcile o (qw s) c))) o).
  Proof.
    intros Hn.
    destruct (deliver_shape candidate candidate_rb rollback_of overlay commit_merge payload record_applied touched restore
                resync_payload doc_ok dev_apply stamp v_empty d_empty ch_empty s n o c Hn) as (Hw & _ & _).
    rewrite Hw. cbn [Proto2.step]. rewrite firstn_all. reflexivity.
  Qed.

  (* wait (c), single delivery: the write that makes Committed.Index = PrevIndex of (t, i) wakes (t, i) *)
  Theorem committed_opens_wakes (s : qworld) n o c t i (P : prop) :
    qreach s -> nth_error (queue s) n = Some c ->
    props (qw s) !! (t, i) = Some P -> p_prev P <> 0 ->
    committed_of (qw s) t <> p_prev P ->
    committed_of (qw (qstep s (QDeliver n o))) t = p_prev P ->
    In (CtlProp (t, i)) (queue (qstep s (QDeliver n o))) \/
    exists (Q : prop), props (qw s) !! (t, p_prev P) = Some Q /\ c = CtlProp (t, p_prev P) /\ p_next Q = i /\
      p_apply Q = None /\ p_abort Q = Some Doing /\
      committed_of (qw s) t = p_prev Q /\ applied_of (qw s) t <> p_prev Q.
  Proof.
    intros Hq Hn HP Hprev Hbefore Hafter.
    pose proof (q_reach _ Hq) as Hr. pose proof (C_reach _ Hr) as HC. pose proof (T_reach _ Hr) as HT.
    destruct (deliver_shape candidate candidate_rb rollback_of overlay commit_merge payload record_applied touched restore
                resync_payload doc_ok dev_apply stamp v_empty d_empty ch_empty s n o c Hn) as (_ & _ & Hrq).
    pose proof (deliver_is_step s n o c Hn) as Hst.
    assert (Hmv : committed_of (step (qw s) (LRec c (length (fst (reconcile o (qw s) c))) o)) t <> committed_of (qw s) t).
    { rewrite <- Hst. rewrite Hafter. intros E. apply Hbefore. symmetry. exact E. }
    apply (committed_moves_by_successor candidate candidate_rb rollback_of overlay commit_merge payload record_applied touched
             restore resync_payload doc_ok dev_apply stamp v_empty d_empty ch_empty) in Hmv.
    destruct Hmv as (j & k & o' & Pj & Hl & HPj & Hj & Hcp & Hap & Hph).
    injection Hl as -> _ <-. rewrite <- Hst, Hafter in Hj. subst j.
    destruct (ci_prev _ HC _ _ _ HP Hprev) as (Q & HQ & Hnext).
    assert (EQ : Some Q = Some Pj) by (rewrite <- HQ; exact HPj). injection EQ as <-.
    assert (Hi0 : i <> 0).
    { intros ->. destruct (ti_created _ HT _ _ _ HP) as (T & HTi & _). rewrite (ti_zero _ HT) in HTi. discriminate. }
    destruct (cfgs (qw s) !! t) as [C0|] eqn:HC0.
    2:{ exfalso. apply Hbefore. rewrite <- Hafter, Hst. cbn [Proto2.step Proto2.reconcile]. unfold Proto2.rec_prop.
        rewrite HQ, Hap, HC0. destruct Hph as [[Hab Hco]|Hab]; [rewrite Hab, Hco|rewrite Hab]; reflexivity. }
    destruct (mover_requeues o (qw s) t (p_prev P) Q C0 HQ HC0 Hap Hph) as [Hsnd|[Hnil|(Hab & Hc1 & Hc2)]].
    - left. apply Hrq. cbn [Proto2.reconcile]. rewrite Hsnd. unfold Proto2.requeue_next. rewrite Hnext.
      destruct (i =? 0) eqn:E; [apply N.eqb_eq in E; destruct (Hi0 E)|]. left. reflexivity.
    - exfalso. apply Hbefore. rewrite <- Hafter, Hst. cbn [Proto2.step Proto2.reconcile]. rewrite Hnil. reflexivity.
    - right. exists Q. split; [exact HQ|]. split; [reflexivity|]. split; [exact Hnext|]. split; [exact Hap|]. split; [exact Hab|].
      unfold P2_Cursor.committed_of, P2_Cursor.applied_of. rewrite HC0. split; assumption.
  Qed.
End WaitC.

(* Proofs about the merge layer (Model/Merge.v): what reconcileCommit's in-memory merge does to the live leaves,
   for EVERY stored map, change map and iteration order (list order). *)
From Coq Require Import List NArith Bool Lia.
From OC Require Import Base.Bytes Model.Merge.
Import ListNotations.
Open Scope N_scope.

Ltac deq a b :=
  let E := fresh "E" in
  destruct (eqb_str a b) eqn:E; [apply eqb_str_eq in E; try (rewrite E in * ) | apply eqb_str_neq in E].

(* ------------------------------------------------------------------ association lists *)
Definition keys_ok (m : cfgmap) : Prop := forall k v, In (k, v) m -> k = pv_path v.
Definition nodup (m : cfgmap) : Prop := NoDup (map fst m).

Lemma map_get_set k k' v m :
  map_get k (map_set k' v m) = if eqb_str k k' then Some v else map_get k m.
Proof.
  induction m as [|[k0 v0] m IH]; cbn.
  - reflexivity.
  - deq k' k0; cbn.
    + deq k k0; reflexivity.
    + rewrite IH. deq k k0; [|reflexivity].
      deq k0 k'; [congruence | reflexivity].
Qed.

Lemma map_get_del k k' m :
  map_get k (map_del k' m) = if eqb_str k k' then None else map_get k m.
Proof.
  induction m as [|[k0 v0] m IH]; cbn.
  - destruct (eqb_str k k'); reflexivity.
  - deq k' k0; cbn.
    + rewrite IH. deq k k0; reflexivity.
    + rewrite IH. deq k k0; [|reflexivity].
      deq k0 k'; [congruence | reflexivity].
Qed.

Lemma map_get_notin k m : ~ In k (map fst m) -> map_get k m = None.
Proof.
  induction m as [|[k0 v0] m IH]; cbn; intros H; [reflexivity|].
  deq k k0; [exfalso; apply H; left; reflexivity | apply IH; intros H'; apply H; right; exact H'].
Qed.

Lemma map_get_in k v m : nodup m -> In (k, v) m -> map_get k m = Some v.
Proof.
  unfold nodup. induction m as [|[k0 v0] m IH]; cbn; intros ND HI; [contradiction|].
  inversion ND as [|? ? Hn ND']; subst.
  destruct HI as [HI|HI].
  - injection HI as -> ->. rewrite eqb_str_refl. reflexivity.
  - deq k k0.
    + exfalso. apply Hn. apply (in_map fst) in HI. exact HI.
    + apply IH; assumption.
Qed.

Lemma map_get_some_in k v m : map_get k m = Some v -> In (k, v) m.
Proof.
  induction m as [|[k0 v0] m IH]; cbn; intros H; [discriminate|].
  deq k k0; [injection H as ->; left; reflexivity | right; apply IH; exact H].
Qed.

Lemma map_set_keys x k v m : In x (map fst (map_set k v m)) -> x = k \/ In x (map fst m).
Proof.
  induction m as [|[k0 v0] m IH]; cbn.
  - intros [H|[]]; left; congruence.
  - deq k k0; cbn.
    + intros [H|H]; [right; left; exact H | right; right; exact H].
    + intros [H|H]; [right; left; exact H|]. destruct (IH H) as [H'|H']; [left; exact H' | right; right; exact H'].
Qed.

Lemma nodup_map_set k v m : nodup m -> nodup (map_set k v m).
Proof.
  unfold nodup. induction m as [|[k0 v0] m IH]; cbn; intros ND.
  - constructor; [intros []|constructor].
  - inversion ND as [|? ? Hn ND']; subst.
    deq k k0; cbn.
    + constructor; assumption.
    + constructor; [|apply IH; exact ND'].
      intros H. apply map_set_keys in H. destruct H as [H|H]; [congruence | contradiction].
Qed.

Lemma keys_ok_map_set k v m : keys_ok m -> k = pv_path v -> keys_ok (map_set k v m).
Proof.
  unfold keys_ok. induction m as [|[k0 v0] m IH]; cbn; intros KO E k1 v1 HI.
  - destruct HI as [HI|[]]. injection HI as <- <-. exact E.
  - deq k k0; cbn in HI.
    + destruct HI as [HI|HI]; [injection HI as <- <-; exact E | apply KO; right; exact HI].
    + destruct HI as [HI|HI]; [apply KO; left; exact HI|].
      apply IH; [intros k2 v2 H2; apply KO; right; exact H2 | exact E | exact HI].
Qed.

(* ------------------------------------------------------------------ live leaves *)
Definition live_of (v : path_value) : option str := if pv_deleted v then None else Some (pv_val v).
Definition live (m : cfgmap) (p : str) : option str :=
  match map_get p m with Some v => live_of v | None => None end.

Lemma drop_ancestors_live anc : forall acc p,
  live (fst (fold_left drop_deleted_ancestor anc acc)) p = live (fst acc) p.
Proof.
  induction anc as [|a anc IH]; intros acc p; cbn [fold_left]; [reflexivity|].
  rewrite IH. unfold drop_deleted_ancestor.
  destruct (map_get a (fst acc)) as [v|] eqn:G; [|reflexivity].
  destruct (pv_deleted v) eqn:D; [|reflexivity].
  cbn [fst]. unfold live. rewrite map_get_del.
  deq p a; [|reflexivity].
  rewrite G. unfold live_of. rewrite D. reflexivity.
Qed.

Lemma apply_change_live vals path v p :
  live (fst (apply_change_to_config vals path v)) p = if eqb_str p path then live_of v else live vals p.
Proof.
  unfold apply_change_to_config. destruct (pv_deleted v); [|rewrite drop_ancestors_live]; cbn [fst]; unfold live;
    rewrite map_get_set; destruct (eqb_str p path); reflexivity.
Qed.

Lemma apply_all_live upd : forall vals p, nodup upd ->
  live (apply_all vals upd) p = match map_get p upd with Some v => live_of v | None => live vals p end.
Proof.
  unfold apply_all, nodup. induction upd as [|[k v] upd IH]; intros vals p ND; [reflexivity|].
  cbn [fold_left fst snd map] in *.
  inversion ND as [|? ? Hn ND']; subst.
  rewrite IH by exact ND'. rewrite apply_change_live. cbn [map_get].
  deq p k.
  - rewrite (map_get_notin _ _ Hn). reflexivity.
  - reflexivity.
Qed.

(* ------------------------------------------------------------------ AddDeleteChildren *)
Lemma cascade_upd idx d : forall st upd p, keys_ok st -> nodup st ->
  map_get p (fst (cascade idx d st upd)) =
  match map_get p st with
  | Some v => if is_path_below p d then Some (mark_deleted idx v) else map_get p upd
  | None => map_get p upd
  end.
Proof.
  unfold cascade, nodup. cbn [fst].
  induction st as [|[k v] st IH]; intros upd p KO ND; cbn; [reflexivity|].
  inversion ND as [|? ? Hn ND']; subst.
  assert (Ek : k = pv_path v) by (apply KO; left; reflexivity).
  assert (KO' : keys_ok st) by (intros k1 v1 H1; apply KO; right; exact H1).
  rewrite IH by assumption. rewrite <- Ek.
  deq p k.
  - rewrite (map_get_notin _ _ Hn).
    destruct (is_path_below k d); [rewrite map_get_set, eqb_str_refl|]; reflexivity.
  - destruct (map_get p st) as [v1|]; destruct (is_path_below k d); try reflexivity;
      rewrite map_get_set; apply eqb_str_neq in E; rewrite E; reflexivity.
Qed.

Lemma cascade_store idx d st upd p : keys_ok st ->
  map_get p (snd (cascade idx d st upd)) =
  match map_get p st with
  | Some v => Some (if is_path_below p d then mark_deleted idx v else v)
  | None => None
  end.
Proof.
  unfold cascade. cbn [snd]. intros KO.
  induction st as [|[k v] st IH]; cbn; [reflexivity|].
  assert (Ek : k = pv_path v) by (apply KO; left; reflexivity).
  assert (KO' : keys_ok st) by (intros k1 v1 H1; apply KO; right; exact H1).
  rewrite <- Ek.
  destruct (is_path_below k d) eqn:Bk; cbn.
  - deq p k; [rewrite Bk; reflexivity | apply IH; exact KO'].
  - deq p k; [rewrite Bk; reflexivity | apply IH; exact KO'].
Qed.

Lemma cascade_store_fst idx d st upd : map fst (snd (cascade idx d st upd)) = map fst st.
Proof.
  unfold cascade. cbn [snd]. induction st as [|[k v] st IH]; cbn; [reflexivity|].
  destruct (is_path_below (pv_path v) d); cbn; f_equal; exact IH.
Qed.

Lemma cascade_store_keys_ok idx d st upd : keys_ok st -> keys_ok (snd (cascade idx d st upd)).
Proof.
  unfold cascade, keys_ok. cbn [snd]. intros KO k v HI.
  apply in_map_iff in HI. destruct HI as [[k0 v0] [E HI]].
  cbn in E. destruct (is_path_below (pv_path v0) d); injection E as <- <-; cbn; apply (KO _ _ HI).
Qed.

Lemma cascade_upd_nodup idx d : forall st upd, nodup upd -> nodup (fst (cascade idx d st upd)).
Proof.
  unfold cascade. cbn [fst]. induction st as [|[k v] st IH]; intros upd ND; cbn; [exact ND|].
  apply IH. destruct (is_path_below (pv_path v) d); [apply nodup_map_set|]; exact ND.
Qed.

(* the guard: no live change value lies below a deleted change value of the same request *)
Definition no_overlap (ch : cfgmap) : Prop :=
  forall k c kd d, In (k, c) ch -> In (kd, d) ch -> pv_deleted c = false -> pv_deleted d = true ->
                   is_path_below (pv_path c) (pv_path d) = false.

(* p is hit by the cascade of some delete of the request *)
Definition cascaded (V ch : cfgmap) (p : str) : Prop :=
  exists kd d, In (kd, d) ch /\ pv_deleted d = true /\ is_path_below p (pv_path d) = true /\ map_get p V <> None.

Record adc_inv (idx : N) (V l : cfgmap) (acc : cfgmap * cfgmap) : Prop := {
  ai_nodup : nodup (fst acc);
  ai_st_ok : keys_ok (snd acc);
  ai_st_nd : nodup (snd acc);
  ai_st_dom : forall p, map_get p (snd acc) = None <-> map_get p V = None;
  (* a live result is one of the request's own live values *)
  ai_live : forall p u, map_get p (fst acc) = Some u -> pv_deleted u = false -> In (p, u) l;
  (* own live values are there *)
  ai_own : forall p c, In (p, c) l -> pv_deleted c = false -> map_get p (fst acc) = Some c;
  (* everything the request names or cascades to is there *)
  ai_hit : forall p, In p (map fst l) \/ cascaded V l p -> map_get p (fst acc) <> None;
  ai_miss : forall p, map_get p (fst acc) = None -> map_get p (snd acc) = map_get p V;
  (* nothing else is there *)
  ai_dom : forall p, map_get p (fst acc) <> None -> In p (map fst l) \/ cascaded V l p;
  (* provenance: an entry is the request's own value or a stored value marked deleted at this index *)
  ai_prov : forall p u, map_get p (fst acc) = Some u -> In (p, u) l \/ (pv_deleted u = true /\ pv_index u = idx);
  ai_st_prov : forall p v, map_get p (snd acc) = Some v ->
                           map_get p V = Some v \/ (pv_deleted v = true /\ pv_index v = idx);
  ai_upd_ok : keys_ok (fst acc)
}.

Lemma cascade_upd_keys_ok idx d : forall st upd, keys_ok upd -> keys_ok (fst (cascade idx d st upd)).
Proof.
  unfold cascade. cbn [fst]. induction st as [|[k v] st IH]; intros upd KO; cbn; [exact KO|].
  apply IH. destruct (is_path_below (pv_path v) d); [apply keys_ok_map_set; [exact KO | reflexivity]|exact KO].
Qed.

Lemma cascaded_weaken V l x p : cascaded V l p -> cascaded V (l ++ [x]) p.
Proof.
  intros [kd [d [HI H]]]. exists kd, d. split; [apply in_or_app; left; exact HI | exact H].
Qed.

Lemma in_keys_weaken (l : cfgmap) x p : In p (map fst l) -> In p (map fst (l ++ [x])).
Proof. intros H. rewrite map_app. apply in_or_app. left. exact H. Qed.

Lemma map_get_in_keys p m : In p (map fst m) -> map_get p m <> None.
Proof.
  induction m as [|[k0 v0] m IH]; cbn; intros H; [contradiction|].
  deq p k0; [discriminate|]. apply IH. destruct H as [H|H]; [congruence | exact H].
Qed.

Definition adc_step (index : N) (acc : cfgmap * cfgmap) (kv : str * path_value) : cfgmap * cfgmap :=
  let cv := snd kv in
  if pv_deleted cv then
    let r := cascade index (pv_path cv) (snd acc) (fst acc) in
    (map_set (pv_path cv) cv (fst r), snd r)
  else (map_set (pv_path cv) cv (fst acc), snd acc).

Lemma adc_unfold index change store :
  add_delete_children index change store = fold_left (adc_step index) change ([], store).
Proof. reflexivity. Qed.

Lemma adc_invariant idx V : keys_ok V -> nodup V ->
  forall l, keys_ok l -> nodup l -> no_overlap l ->
  adc_inv idx V l (fold_left (adc_step idx) l ([], V)).
Proof.
  intros KV NV l. induction l as [|[k c] l IH] using rev_ind; intros KL NL GL.
  - cbn. constructor; cbn; try assumption.
    + intros p; split; intros H; exact H.
    + intros p u H; discriminate.
    + intros p c [].
    + intros p [[]|[kd [d [[] _]]]].
    + reflexivity.
    + intros p H. congruence.
    + intros p u H; discriminate.
    + intros p v H; left; exact H.
  - rewrite fold_left_app. cbn [fold_left].
    assert (KL' : keys_ok l) by (intros k1 v1 H1; apply KL; apply in_or_app; left; exact H1).
    assert (NL' : nodup l).
    { unfold nodup in *. rewrite map_app in NL. cbn in NL. apply NoDup_remove_1 in NL.
      rewrite app_nil_r in NL. exact NL. }
    assert (Hk : ~ In k (map fst l)).
    { unfold nodup in NL. rewrite map_app in NL. cbn in NL. apply NoDup_remove_2 in NL.
      rewrite app_nil_r in NL. exact NL. }
    assert (GL' : no_overlap l).
    { intros k1 c1 kd d H1 H2 D1 D2.
      apply (GL k1 c1 kd d); [apply in_or_app; left; exact H1 | apply in_or_app; left; exact H2 | exact D1 | exact D2]. }
    assert (Ek : k = pv_path c) by (apply KL; apply in_or_app; right; left; reflexivity).
    specialize (IH KL' NL' GL').
    set (acc := fold_left (adc_step idx) l ([], V)) in *.
    destruct IH as [I1 I2 I3 I4 I5 I6 I7 I8 I9 I10 I11 I12].
    unfold adc_step. cbn [snd fst]. rewrite <- Ek.
    destruct (pv_deleted c) eqn:Dc.
    + (* a delete: cascade, then the delete itself *)
      constructor; cbn [fst snd].
      * apply nodup_map_set. apply cascade_upd_nodup. exact I1.
      * apply cascade_store_keys_ok. exact I2.
      * unfold nodup. rewrite cascade_store_fst. exact I3.
      * intros p. rewrite cascade_store by exact I2. rewrite <- I4.
        destruct (map_get p (snd acc)); split; intros H; congruence.
      * intros p u H Du. rewrite map_get_set in H.
        deq p k; [injection H as <-; congruence|].
        rewrite cascade_upd in H by assumption.
        apply in_or_app; left.
        destruct (map_get p (snd acc)) as [v|]; [destruct (is_path_below p k)|];
          try (apply I5; assumption).
        injection H as <-. cbn in Du. discriminate.
      * intros p c1 HI D1. rewrite map_get_set.
        apply in_app_or in HI. destruct HI as [HI|[HI|[]]]; [|injection HI as -> ->; congruence].
        deq p k; [exfalso; apply Hk; apply (in_map fst) in HI; exact HI|].
        rewrite cascade_upd by assumption.
        destruct (map_get p (snd acc)) as [v|] eqn:Gp; [|apply I6; assumption].
        destruct (is_path_below p k) eqn:Bp; [|apply I6; assumption].
        exfalso.
        assert (Ep : p = pv_path c1) by (apply KL'; exact HI).
        assert (F : is_path_below (pv_path c1) (pv_path c) = false).
        { apply (GL p c1 k c); [apply in_or_app; left; exact HI | apply in_or_app; right; left; reflexivity | exact D1 | exact Dc]. }
        rewrite <- Ep, <- Ek in F. congruence.
      * intros p H. rewrite map_get_set.
        deq p k; [discriminate|].
        rewrite cascade_upd by assumption.
        destruct (map_get p (snd acc)) as [v|] eqn:Gp.
        -- destruct (is_path_below p k) eqn:Bp; [discriminate|].
           apply I7. destruct H as [H|H].
           ++ rewrite map_app in H. apply in_app_or in H. destruct H as [H|[H|[]]]; [left; exact H | cbn in H; congruence].
           ++ destruct H as [kd [d [HI [Dd [Bd Gd]]]]].
              apply in_app_or in HI. destruct HI as [HI|[HI|[]]].
              ** right. exists kd, d. repeat split; assumption.
              ** injection HI as <- <-. rewrite <- Ek in Bd. congruence.
        -- apply I7. destruct H as [H|H].
           ++ rewrite map_app in H. apply in_app_or in H. destruct H as [H|[H|[]]]; [left; exact H | cbn in H; congruence].
           ++ destruct H as [kd [d [HI [Dd [Bd Gd]]]]].
              exfalso. apply Gd. apply I4. exact Gp.
      * intros p H. rewrite map_get_set in H.
        deq p k; [discriminate|].
        rewrite cascade_upd in H by assumption.
        rewrite cascade_store by exact I2.
        destruct (map_get p (snd acc)) as [v|] eqn:Gp.
        -- destruct (is_path_below p k) eqn:Bp; [discriminate|].
           rewrite <- Gp. apply I8. exact H.
        -- rewrite <- Gp. apply I8. exact H.
      * intros p H. rewrite map_get_set in H.
        deq p k; [left; rewrite map_app; apply in_or_app; right; left; reflexivity|].
        rewrite cascade_upd in H by assumption.
        destruct (map_get p (snd acc)) as [v|] eqn:Gp.
        -- destruct (is_path_below p k) eqn:Bp.
           ++ right. exists k, c. split; [apply in_or_app; right; left; reflexivity|].
              split; [exact Dc|]. split; [rewrite <- Ek; exact Bp|].
              intros HV. apply I4 in HV. congruence.
           ++ destruct (I9 p H) as [H'|H']; [left; apply in_keys_weaken; exact H' | right; apply cascaded_weaken; exact H'].
        -- destruct (I9 p H) as [H'|H']; [left; apply in_keys_weaken; exact H' | right; apply cascaded_weaken; exact H'].
      * intros p u H. rewrite map_get_set in H.
        deq p k; [injection H as <-; left; apply in_or_app; right; left; reflexivity|].
        rewrite cascade_upd in H by assumption.
        destruct (map_get p (snd acc)) as [v|] eqn:Gp.
        -- destruct (is_path_below p k) eqn:Bp.
           ++ injection H as <-. right. cbn. split; reflexivity.
           ++ destruct (I10 p u H) as [H'|H']; [left; apply in_or_app; left; exact H' | right; exact H'].
        -- destruct (I10 p u H) as [H'|H']; [left; apply in_or_app; left; exact H' | right; exact H'].
      * intros p v H. rewrite cascade_store in H by exact I2.
        destruct (map_get p (snd acc)) as [v0|] eqn:Gp; [|discriminate].
        injection H as <-. destruct (is_path_below p k); [right; cbn; split; reflexivity | apply I11; exact Gp].
      * apply keys_ok_map_set; [apply cascade_upd_keys_ok; exact I12 | exact Ek].
    + (* an update *)
      constructor; cbn [fst snd]; try assumption.
      * apply nodup_map_set. exact I1.
      * intros p u H Du. rewrite map_get_set in H.
        deq p k; [injection H as <-; apply in_or_app; right; left; reflexivity|].
        apply in_or_app; left. apply I5; assumption.
      * intros p c1 HI D1. rewrite map_get_set.
        apply in_app_or in HI. destruct HI as [HI|[HI|[]]].
        -- deq p k; [exfalso; apply Hk; apply (in_map fst) in HI; exact HI | apply I6; assumption].
        -- injection HI as -> ->. rewrite eqb_str_refl. reflexivity.
      * intros p H. rewrite map_get_set.
        deq p k; [discriminate|].
        apply I7. destruct H as [H|H].
        -- rewrite map_app in H. apply in_app_or in H. destruct H as [H|[H|[]]]; [left; exact H | cbn in H; congruence].
        -- destruct H as [kd [d [HI [Dd [Bd Gd]]]]].
           apply in_app_or in HI. destruct HI as [HI|[HI|[]]].
           ++ right. exists kd, d. repeat split; assumption.
           ++ injection HI as <- <-. congruence.
      * intros p H. rewrite map_get_set in H.
        deq p k; [discriminate|]. apply I8. exact H.
      * intros p H. rewrite map_get_set in H.
        deq p k; [left; rewrite map_app; apply in_or_app; right; left; reflexivity|].
        destruct (I9 p H) as [H'|H']; [left; apply in_keys_weaken; exact H' | right; apply cascaded_weaken; exact H'].
      * intros p u H. rewrite map_get_set in H.
        deq p k; [injection H as <-; left; apply in_or_app; right; left; reflexivity|].
        destruct (I10 p u H) as [H'|H']; [left; apply in_or_app; left; exact H' | right; exact H'].
      * apply keys_ok_map_set; [exact I12 | exact Ek].
Qed.

(* ------------------------------------------------------------------ the merge refines sequential gNMI (text level) *)

(* reference effect of one change map on the live leaves, stated on the textual paths:
   own update -> that value; own delete or a delete of an ancestor (IsPathBelow = strictly beneath at a path
   element boundary) -> gone; everything else unchanged *)
Definition spec_live (V ch : cfgmap) (p : str) (r : option str) : Prop :=
  match map_get p ch with
  | Some c => r = live_of c
  | None =>
    (cascaded V ch p -> r = None) /\ (~ cascaded V ch p -> r = live V p)
  end.

Theorem merge_refines idx V ch :
  keys_ok V -> nodup V -> keys_ok ch -> nodup ch -> no_overlap ch ->
  forall p, spec_live V ch p (live (commit_merge idx ch V) p).
Proof.
  intros KV NV KC NC G p.
  unfold commit_merge. rewrite adc_unfold.
  destruct (adc_invariant idx V KV NV ch KC NC G) as [I1 I2 I3 I4 I5 I6 I7 I8 I9 I10 I11 I12].
  set (acc := fold_left (adc_step idx) ch ([], V)) in *.
  rewrite apply_all_live by exact I1.
  unfold spec_live.
  destruct (map_get p ch) as [c|] eqn:Gc.
  - apply map_get_some_in in Gc.
    destruct (pv_deleted c) eqn:Dc.
    + (* own delete: whatever is in the updated map for p is not live *)
      assert (H : map_get p (fst acc) <> None) by (apply I7; left; apply (in_map fst) in Gc; exact Gc).
      destruct (map_get p (fst acc)) as [u|] eqn:Gu; [|congruence].
      unfold live_of at 2. rewrite Dc.
      destruct (pv_deleted u) eqn:Du; [unfold live_of; rewrite Du; reflexivity|].
      exfalso. pose proof (I5 p u Gu Du) as HI.
      assert (E : u = c).
      { pose proof (map_get_in _ _ _ NC HI) as A. pose proof (map_get_in _ _ _ NC Gc) as B. congruence. }
      congruence.
    + rewrite (I6 p c Gc Dc). reflexivity.
  - split.
    + intros HC.
      assert (H : map_get p (fst acc) <> None) by (apply I7; right; exact HC).
      destruct (map_get p (fst acc)) as [u|] eqn:Gu; [|congruence].
      destruct (pv_deleted u) eqn:Du; [unfold live_of; rewrite Du; reflexivity|].
      exfalso. pose proof (I5 p u Gu Du) as HI.
      rewrite (map_get_in _ _ _ NC HI) in Gc. discriminate.
    + intros HN.
      destruct (map_get p (fst acc)) as [u|] eqn:Gu.
      * exfalso.
        assert (H : map_get p (fst acc) <> None) by congruence.
        destruct (I9 p H) as [H'|H']; [|exact (HN H')].
        apply map_get_in_keys in H'. congruence.
      * unfold live. rewrite (I8 p Gu). reflexivity.
Qed.

(* ------------------------------------------------------------------ the same as an equation; order independence *)
From Coq Require Import Permutation.

Definition cascadedb (V ch : cfgmap) (p : str) : bool :=
  existsb (fun kv => pv_deleted (snd kv) && is_path_below p (pv_path (snd kv))) ch && map_has p V.

Lemma cascadedb_spec V ch p : cascadedb V ch p = true <-> cascaded V ch p.
Proof.
  unfold cascadedb, cascaded, map_has. rewrite andb_true_iff, existsb_exists. split.
  - intros [[[kd d] [HI H]] HV]. cbn in H. apply andb_true_iff in H. destruct H as [H1 H2].
    exists kd, d. repeat split; try assumption. destruct (map_get p V); [discriminate | discriminate].
  - intros [kd [d [HI [H1 [H2 HV]]]]]. split.
    + exists (kd, d). split; [exact HI|]. cbn. rewrite H1, H2. reflexivity.
    + destruct (map_get p V); [reflexivity | congruence].
Qed.

(* effect of one change map on the live leaves, on textual paths: own update -> that value; own delete or a
   delete of an ancestor (strictly beneath, at a path element boundary) -> gone; everything else unchanged *)
Definition spec_live_fun (V ch : cfgmap) (p : str) : option str :=
  match map_get p ch with
  | Some c => live_of c
  | None => if cascadedb V ch p then None else live V p
  end.

Theorem merge_refines_eq idx V ch :
  keys_ok V -> nodup V -> keys_ok ch -> nodup ch -> no_overlap ch ->
  forall p, live (commit_merge idx ch V) p = spec_live_fun V ch p.
Proof.
  intros KV NV KC NC G p. pose proof (merge_refines idx V ch KV NV KC NC G p) as H.
  unfold spec_live in H. unfold spec_live_fun.
  destruct (map_get p ch); [exact H|]. destruct H as [H1 H2].
  destruct (cascadedb V ch p) eqn:C.
  - apply H1. apply cascadedb_spec. exact C.
  - apply H2. intros HC. apply cascadedb_spec in HC. congruence.
Qed.

Lemma map_get_none_notin p m : map_get p m = None -> ~ In p (map fst m).
Proof. intros H HI. apply map_get_in_keys in HI. congruence. Qed.

Lemma map_get_perm p m m' : nodup m -> Permutation m m' -> map_get p m = map_get p m'.
Proof.
  intros ND HP.
  assert (ND' : nodup m') by (unfold nodup in *; eapply Permutation_NoDup; [apply Permutation_map; exact HP | exact ND]).
  destruct (map_get p m) as [v|] eqn:G.
  - apply map_get_some_in in G. symmetry. apply map_get_in; [exact ND'|]. eapply Permutation_in; eassumption.
  - symmetry. apply map_get_notin. intros HI. apply map_get_none_notin in G. apply G.
    eapply Permutation_in; [apply Permutation_map; apply Permutation_sym; exact HP | exact HI].
Qed.

Lemma cascadedb_perm V ch ch' p : Permutation ch ch' -> cascadedb V ch p = cascadedb V ch' p.
Proof.
  intros HP.
  destruct (cascadedb V ch p) eqn:A; destruct (cascadedb V ch' p) eqn:A'; try reflexivity; exfalso.
  - apply cascadedb_spec in A. destruct A as [kd [d [HI H]]].
    assert (C : cascaded V ch' p) by (exists kd, d; split; [eapply Permutation_in; eassumption | exact H]).
    apply cascadedb_spec in C. congruence.
  - apply cascadedb_spec in A'. destruct A' as [kd [d [HI H]]].
    assert (C : cascaded V ch p) by (exists kd, d; split; [eapply Permutation_in; [apply Permutation_sym; eassumption | exact HI] | exact H]).
    apply cascadedb_spec in C. congruence.
Qed.

Lemma no_overlap_perm ch ch' : Permutation ch ch' -> no_overlap ch -> no_overlap ch'.
Proof.
  intros HP G k c kd d H1 H2. apply (G k c kd d); eapply Permutation_in; try (apply Permutation_sym; exact HP); assumption.
Qed.

Lemma keys_ok_perm ch ch' : Permutation ch ch' -> keys_ok ch -> keys_ok ch'.
Proof. intros HP K k v HI. apply K. eapply Permutation_in; [apply Permutation_sym; exact HP | exact HI]. Qed.

(* neither the iteration order of the change map nor that of the stored map matters *)
Theorem merge_order_independent idx V V' ch ch' :
  keys_ok V -> nodup V -> keys_ok ch -> nodup ch -> no_overlap ch ->
  Permutation V V' -> Permutation ch ch' ->
  forall p, live (commit_merge idx ch' V') p = live (commit_merge idx ch V) p.
Proof.
  intros KV NV KC NC G PV PC p.
  assert (NV' : nodup V') by (unfold nodup in *; eapply Permutation_NoDup; [apply Permutation_map; exact PV | exact NV]).
  assert (NC' : nodup ch') by (unfold nodup in *; eapply Permutation_NoDup; [apply Permutation_map; exact PC | exact NC]).
  rewrite (merge_refines_eq idx V ch KV NV KC NC G).
  rewrite (merge_refines_eq idx V' ch' (keys_ok_perm _ _ PV KV) NV' (keys_ok_perm _ _ PC KC) NC' (no_overlap_perm _ _ PC G)).
  unfold spec_live_fun. rewrite <- (map_get_perm p ch ch' NC PC).
  destruct (map_get p ch); [reflexivity|].
  rewrite <- (cascadedb_perm V' ch ch' p PC).
  assert (EV : forall q, map_get q V' = map_get q V) by (intros q; symmetry; apply map_get_perm; assumption).
  unfold cascadedb, map_has, live. rewrite !EV. reflexivity.
Qed.

(* Proto3OrderBase: the frontier invariant of the v3 transaction protocol (Model/Proto3.v) that relates the
   Committed / Applied cursors of the configuration to the phase states of ALL transactions, and the small
   theory it is proved with.  Statuses are read through their numeric codes (st_code: PENDING 0, IN_PROGRESS 1,
   COMPLETE 2, ABORTED 3, CANCELED 4, FAILED 5; an absent rollback record: 9) so that every state conjunct is
   linear arithmetic over the record fields.
   The invariant is stated over an abstract view of a world: g = get_tx w (index -> transaction), n = number of
   transactions, cm / ap = the Committed / Applied cursors (cur0 while the configuration does not exist) and
   h = the ghost history. *)
From Coq Require Import List NArith Bool Arith Lia.
From OC Require Import Model.Proto3 Spec.Tla3 Proofs.Proto3Proofs.
Import ListNotations.
Open Scope N_scope.

Arguments st_code : simpl nomatch.

Definition oc (o : option st) : N := match o with None => 9 | Some s => st_code s end.
Arguments oc : simpl nomatch.

Notation cc t := (st_code (t_cc t)).
Notation ca t := (st_code (t_ca t)).
Notation rc t := (oc (t_rc t)).
Notation ra t := (oc (t_ra t)).

Definition cmc (w : world) : cursor := match w_cfg w with Some c => c_cm c | None => cur0 end.
Definition apc (w : world) : cursor := match w_cfg w with Some c => c_ap c | None => cur0 end.
Definition nlen (w : world) : N := N.of_nat (length (w_txs w)).

Definition updf (g : N -> option txn) (i : N) (t : txn) : N -> option txn := fun j => if j =? i then Some t else g j.

(* the fields of a transaction record the invariant reads *)
Definition flds (t : txn) := (t_rb t, t_cc t, t_ca t, t_cord t, t_rc t, t_ra t, t_rord t, t_ridx t).

(* ------------------------------------------------------------------ the state part of the invariant *)
Record SInv (g : N -> option txn) (n : N) (cm ap : cursor) : Prop := {
  s_dom : forall j t, g j = Some t -> 1 <= j <= n;
  (* commit frontier *)
  s1  : k_index cm = k_change cm;
  s2  : k_change cm <= n /\ k_revision cm <= k_change cm;
  s3a : forall j t, g j = Some t -> k_change cm + 1 < j -> cc t = 0;
  s3b : forall j t, g j = Some t -> j = k_change cm + 1 -> cc t = 0 \/ ((cc t = 1 \/ cc t = 5) /\ k_target cm = j);
  s3c : forall j t, g j = Some t -> j <= k_change cm ->
          cc t = 2 \/ cc t = 5 \/ (j = k_change cm /\ cc t = 1 /\ k_revision cm = j /\ k_target cm = j);
  s4  : forall j t, g j = Some t -> cc t <> 0 -> t_ridx t < j;
  s5  : forall j t, g j = Some t -> rc t = 1 \/ rc t = 2 -> k_index cm = j /\ k_target cm = t_ridx t /\ cc t = 2;
  s7a : k_target cm < k_index cm -> k_revision cm = k_index cm \/ k_revision cm = k_target cm;
  s7c : forall j t, g j = Some t -> j = k_index cm /\ k_target cm < k_index cm -> cc t = 2 /\ k_target cm = t_ridx t;
  (* ordinals *)
  o1a : forall j t, g j = Some t -> cc t = 2 -> 1 <= t_cord t <= k_ordinal cm;
  o1b : forall j t k u, g j = Some t -> g k = Some u -> cc t = 2 -> cc u = 2 -> j < k -> t_cord t < t_cord u;
  o2a : forall j t, g j = Some t -> cc t = 1 -> k_change cm = j -> 1 <= k_ordinal cm;
  o2b : forall j t k u, g j = Some t -> g k = Some u -> cc t = 1 -> cc u = 2 -> k_change cm = j -> t_cord u < k_ordinal cm;
  o3a : forall j t, g j = Some t -> rc t = 2 -> t_rord t = k_ordinal cm;
  o3b : forall j t k u, g j = Some t -> g k = Some u -> rc t = 2 -> cc u = 2 -> t_cord u < t_rord t;
  o4  : forall j t k u, g j = Some t -> g k = Some u -> rc t = 1 -> cc u = 2 -> k_revision cm <> j -> t_cord u < k_ordinal cm;
  (* apply frontier *)
  a0  : forall j t, g j = Some t -> ca t <> 0 -> ca t <> 4 -> cc t = 2;
  a0b : forall j t, g j = Some t -> ca t = 4 -> cc t = 5;
  a1  : forall j t, g j = Some t -> ca t = 1 ->
          (k_ordinal ap + 1 = t_cord t /\ k_target ap = j) \/
          (k_ordinal ap = t_cord t /\ k_revision ap = j /\ k_index ap = j /\ k_target ap = j);
  a2  : forall j t, g j = Some t -> ca t = 3 \/ ca t = 5 -> t_cord t <= k_ordinal ap + 1;
  a3  : forall j t, g j = Some t -> ca t = 2 -> t_cord t <= k_ordinal ap;
  a7  : forall k u j t, g k = Some u -> g j = Some t -> ca u = 1 -> cc t = 2 ->
          k_ordinal ap = t_cord u /\ k_ordinal ap < t_cord t -> ca t = 0;
  b1  : forall j t, g j = Some t -> ra t = 1 ->
          rc t = 2 /\ k_target ap = t_ridx t /\ (k_ordinal ap + 1 = t_rord t \/ k_ordinal ap = t_rord t)
}.

(* ------------------------------------------------------------------ the history part *)
Definition bCC (x : event) : bool := phase_eqb (e_phase x) PhChange && stage_eqb (e_stage x) StCommit && is_complete x.
Definition bCA (x : event) : bool := phase_eqb (e_phase x) PhChange && stage_eqb (e_stage x) StApply && is_complete x.

Record HInv (g : N -> option txn) (cm ap : cursor) (h : list event) : Prop := {
  h1 : forall e, In e h -> bCC e = true -> e_index e <= k_change cm;
  h2 : forall j t, g j = Some t -> cc t = 2 \/ (cc t = 1 /\ k_change cm = j) -> In (ev PhChange StCommit j Complete) h;
  h3 : forall e, In e h -> bCA e = true -> exists t, g (e_index e) = Some t /\ cc t = 2 /\ t_cord t <= k_ordinal ap;
  h_ord : order_ok h = true
}.

Definition IA g n cm ap h : Prop := SInv g n cm ap /\ HInv g cm ap h.
Definition Inv (w : world) : Prop := IA (get_tx w) (nlen w) (cmc w) (apc w) (w_hist w).

(* ------------------------------------------------------------------ extensionality in g *)
Lemma SInv_ext g g' n cm ap : (forall j, g j = g' j) -> SInv g n cm ap -> SInv g' n cm ap.
Proof.
  intros E [].
  constructor; intros; repeat match goal with H : g' _ = Some _ |- _ => rewrite <- E in H end; eauto.
Qed.

Lemma HInv_ext g g' cm ap h : (forall j, g j = g' j) -> HInv g cm ap h -> HInv g' cm ap h.
Proof.
  intros E [X1 X2 X3 X4].
  constructor; intros; repeat match goal with H : g' _ = Some _ |- _ => rewrite <- E in H end; eauto.
  destruct (X3 e) as [t Ht]; auto. exists t. rewrite <- E. exact Ht.
Qed.

Lemma IA_ext g g' n cm ap h : (forall j, g j = g' j) -> IA g n cm ap h -> IA g' n cm ap h.
Proof. intros E [A B]. split; [eapply SInv_ext | eapply HInv_ext]; eauto. Qed.

(* ------------------------------------------------------------------ get_tx over list updates *)
Lemma nth_error_set_nth_same {A} (l : list A) n x y : nth_error l n = Some y -> nth_error (set_nth n x l) n = Some x.
Proof. revert n; induction l as [|a l IH]; intros [|n] H; cbn in *; try discriminate; auto. Qed.

Lemma nth_error_set_nth_other {A} (l : list A) n m x : n <> m -> nth_error (set_nth n x l) m = nth_error l m.
Proof.
  revert n m; induction l as [|a l IH]; intros [|n] [|m] H; cbn; auto; try congruence.
Qed.

Definition with_txs (w : world) (txs : list txn) (h : list event) : world :=
  {| w_txs := txs; w_cfg := w_cfg w; w_cmap := w_cmap w; w_pmap := w_pmap w; w_target := w_target w;
     w_rels := w_rels w; w_conns := w_conns w; w_dev := w_dev w; w_elect := w_elect w; w_hist := h; w_panicked := w_panicked w |}.

Lemma get_tx_range w j t : get_tx w j = Some t -> 1 <= j <= nlen w.
Proof.
  unfold get_tx, nlen. destruct (j =? 0) eqn:E; [discriminate|]. apply N.eqb_neq in E.
  intros H. assert (L : (N.to_nat (j - 1) < length (w_txs w))%nat) by (apply nth_error_Some; congruence).
  lia.
Qed.

Lemma get_tx_set w i t t' h j : get_tx w i = Some t ->
  get_tx (with_txs w (set_nth (N.to_nat (i - 1)) t' (w_txs w)) h) j = updf (get_tx w) i t' j.
Proof.
  intros Hi. unfold updf. pose proof (get_tx_range _ _ _ Hi) as R.
  unfold get_tx in *; cbn. destruct (i =? 0) eqn:Ei; [discriminate|].
  destruct (j =? i) eqn:E.
  - apply N.eqb_eq in E; subst j. rewrite Ei. eapply nth_error_set_nth_same; eauto.
  - apply N.eqb_neq in E. apply N.eqb_neq in Ei. destruct (j =? 0) eqn:Ej; [reflexivity|]. apply N.eqb_neq in Ej.
    apply nth_error_set_nth_other. lia.
Qed.

Lemma get_tx_app w x h j :
  get_tx (with_txs w (w_txs w ++ [x]) h) j = if j =? nlen w + 1 then Some x else get_tx w j.
Proof.
  unfold get_tx, nlen; cbn. destruct (j =? 0) eqn:Ej.
  - apply N.eqb_eq in Ej; subst. destruct (0 =? N.of_nat (length (w_txs w)) + 1) eqn:E; [apply N.eqb_eq in E; lia | reflexivity].
  - apply N.eqb_neq in Ej. destruct (j =? N.of_nat (length (w_txs w)) + 1) eqn:E.
    + apply N.eqb_eq in E. replace (N.to_nat (j - 1)) with (length (w_txs w)) by lia.
      rewrite nth_error_app2 by lia. rewrite Nat.sub_diag. reflexivity.
    + apply N.eqb_neq in E. destruct (Nat.ltb (N.to_nat (j - 1)) (length (w_txs w))) eqn:L.
      * apply Nat.ltb_lt in L. rewrite nth_error_app1 by exact L. reflexivity.
      * apply Nat.ltb_ge in L. rewrite (proj2 (nth_error_None (w_txs w) _)) by exact L.
        apply nth_error_None. rewrite app_length; cbn. lia.
Qed.

(* ------------------------------------------------------------------ order_ok under appending one event *)
Lemma order_from_app b r e : order_from b (r ++ [e]) = order_from b r && event_ordered (b ++ r) e.
Proof.
  revert b; induction r as [|x r IH]; intros b; cbn.
  - rewrite app_nil_r, andb_true_r. reflexivity.
  - rewrite IH. rewrite <- app_assoc. cbn. rewrite andb_assoc. reflexivity.
Qed.

Lemma order_ok_app h e : order_ok (h ++ [e]) = order_ok h && event_ordered h e.
Proof. unfold order_ok. rewrite order_from_app. reflexivity. Qed.

Lemma order_ok_app_incomplete h e : order_ok h = true -> is_complete e = false -> order_ok (h ++ [e]) = true.
Proof. intros H E. rewrite order_ok_app, H. unfold event_ordered. rewrite E. reflexivity. Qed.

Lemma existsb_false_all {A} (f : A -> bool) l : (forall x, In x l -> f x = false) -> existsb f l = false.
Proof. induction l as [|a l IH]; intros H; cbn; [reflexivity|]. rewrite H by (left; reflexivity). apply IH. intros; apply H; right; assumption. Qed.

(* a completed change commit / apply with an index above every earlier one of its stage is ordered *)
Lemma eo_change p h i :
  (forall x, In x h -> phase_eqb (e_phase x) PhChange && stage_eqb (e_stage x) p && is_complete x = true -> e_index x < i) ->
  ordered_change p h (ev PhChange p i Complete) = true.
Proof.
  intros H. unfold ordered_change. cbn [e_phase e_stage e_index ev phase_eqb].
  replace (stage_eqb p p) with true by (destruct p; reflexivity).
  replace (is_complete {| e_phase := PhChange; e_stage := p; e_index := i; e_status := Complete |}) with true by reflexivity.
  cbn [andb]. rewrite existsb_false_all; [reflexivity|].
  intros x Hx. destruct (phase_eqb (e_phase x) PhChange && stage_eqb (e_stage x) p && is_complete x) eqn:E; [|reflexivity].
  cbn. apply N.leb_gt. apply H; assumption.
Qed.

Lemma unrolled_later_false p idx l :
  (forall x, In x l -> phase_eqb (e_phase x) PhChange && stage_eqb (e_stage x) p && is_complete x = true -> e_index x <= idx) ->
  unrolled_later p idx l = false.
Proof.
  induction l as [|x r IH]; intros H; cbn; [reflexivity|].
  rewrite IH by (intros; apply H; [right|]; assumption).
  rewrite orb_false_r.
  destruct (phase_eqb (e_phase x) PhChange && stage_eqb (e_stage x) p && is_complete x) eqn:E; [|reflexivity].
  assert (L : e_index x <= idx) by (apply H; [left; reflexivity | exact E]).
  apply N.ltb_ge in L. rewrite L. reflexivity.
Qed.

Lemma eo_rollback p h i :
  In (ev PhChange StCommit i Complete) h ->
  (forall x, In x h -> phase_eqb (e_phase x) PhChange && stage_eqb (e_stage x) p && is_complete x = true -> e_index x <= i) ->
  ordered_rollback p h (ev PhRollback p i Complete) = true.
Proof.
  intros Hin H. unfold ordered_rollback. cbn [e_phase e_stage e_index ev phase_eqb].
  replace (stage_eqb p p) with true by (destruct p; reflexivity).
  replace (is_complete {| e_phase := PhRollback; e_stage := p; e_index := i; e_status := Complete |}) with true by reflexivity.
  rewrite unrolled_later_false by exact H. cbn [andb negb]. rewrite andb_true_r.
  apply existsb_exists. exists (ev PhChange StCommit i Complete). split; [exact Hin|].
  cbn. rewrite N.eqb_refl. reflexivity.
Qed.

Lemma order_app_cc h i : order_ok h = true -> (forall x, In x h -> bCC x = true -> e_index x < i) ->
  order_ok (h ++ [ev PhChange StCommit i Complete]) = true.
Proof.
  intros H1 H2. rewrite order_ok_app, H1. unfold event_ordered. rewrite (eo_change StCommit) by exact H2.
  cbn. rewrite ?orb_true_r. reflexivity.
Qed.
Lemma order_app_ca h i : order_ok h = true -> (forall x, In x h -> bCA x = true -> e_index x < i) ->
  order_ok (h ++ [ev PhChange StApply i Complete]) = true.
Proof.
  intros H1 H2. rewrite order_ok_app, H1. unfold event_ordered. rewrite (eo_change StApply) by exact H2.
  cbn. rewrite ?orb_true_r. reflexivity.
Qed.
Lemma order_app_rc h i : order_ok h = true -> In (ev PhChange StCommit i Complete) h ->
  (forall x, In x h -> bCC x = true -> e_index x <= i) ->
  order_ok (h ++ [ev PhRollback StCommit i Complete]) = true.
Proof.
  intros H1 H2 H3. rewrite order_ok_app, H1. unfold event_ordered. rewrite (eo_rollback StCommit) by assumption.
  cbn. rewrite ?orb_true_r. reflexivity.
Qed.
Lemma order_app_ra h i : order_ok h = true -> In (ev PhChange StCommit i Complete) h ->
  (forall x, In x h -> bCA x = true -> e_index x <= i) ->
  order_ok (h ++ [ev PhRollback StApply i Complete]) = true.
Proof.
  intros H1 H2 H3. rewrite order_ok_app, H1. unfold event_ordered. rewrite (eo_rollback StApply) by assumption.
  cbn. rewrite ?orb_true_r. reflexivity.
Qed.

(* ------------------------------------------------------------------ tactics *)
Lemma st_code_le s : st_code s <= 5.
Proof. destruct s; cbn; lia. Qed.

Lemma updf_inv g i t' j u : updf g i t' j = Some u -> (j = i /\ u = t') \/ (j <> i /\ g j = Some u).
Proof.
  unfold updf. destruct (j =? i) eqn:E.
  - apply N.eqb_eq in E. intros H; inversion H. left; auto.
  - apply N.eqb_neq in E. intros H; right; auto.
Qed.

(* ---- forward chaining over instantiated invariant facts.
   lia is exponential in the number of disjunctive hypotheses, so the instantiated conjuncts are kept boxed (opaque to
   lia); a boxed implication is fired when its premise follows from the atomic facts and dropped when it is refuted. *)
Definition box (P : Prop) : Prop := P.
Lemma box_use (P : Prop) : box P -> P. Proof. exact (fun x => x). Qed.

Ltac norm_neg H :=
  lazymatch type of H with
  | ~ (_ \/ _) => let H1 := fresh "ng" in let H2 := fresh "ng" in
                   apply Decidable.not_or in H; destruct H as [H1 H2]; norm_neg H1; norm_neg H2
  | ~ (?A /\ ?B) => let H' := fresh "N" in assert (H' : box (~ A \/ ~ B)) by (unfold box; lia); clear H
  | ~ (?x <> ?y) => let H' := fresh "N" in assert (H' : x = y) by lia; clear H
  | _ => idtac
  end.

Ltac norm_fact H :=
  lazymatch type of H with
  | True => clear H
  | _ /\ _ => let H1 := fresh "N" in let H2 := fresh "N" in destruct H as [H1 H2]; norm_fact H1; norm_fact H2
  | ~ (_ /\ _) => norm_neg H
  | ~ (_ \/ _) => norm_neg H
  | _ <> _ => idtac
  | ?A \/ ?B => change (box (A \/ B)) in H
  | ?A -> ?B => change (box (A -> B)) in H
  | ?T => try match goal with H2 : T |- _ => assert_fails (constr_eq H2 H); clear H end
  end.

Definition fired := True.
Ltac mark_fired := lazymatch goal with _ : fired |- _ => idtac | _ => assert fired by exact I end.

(* status premises (a status code compared with a numeral) are decided by looking the code up among the atoms, not by lia *)
Ltac is_num c := lazymatch c with N0 => idtac | Npos _ => idtac end.
Ltac is_code X := lazymatch X with st_code _ => idtac | oc _ => idtac end.

(* sv X k: run (k v) when an atom  X = v  with a numeral v is present *)
Ltac status_known X :=
  lazymatch goal with
  | E : X = ?v |- _ => is_num v
  end.

(* decide the status literal L: tac_true pf / tac_false tt / tac_unknown tt (continuations take a dummy argument so that
   Ltac does not run them when they are passed) *)
Ltac decide_lit L tac_true tac_false tac_unknown :=
  lazymatch L with
  | ?X = ?c =>
      lazymatch goal with
      | E : X = c |- _ => tac_true E
      | E : X <> c |- _ => tac_false tt
      | E : X = N0 |- _ => tac_false tt
      | E : X = Npos _ |- _ => tac_false tt
      | _ => tac_unknown tt
      end
  | ?X <> ?c =>
      lazymatch goal with
      | E : X <> c |- _ => tac_true E
      | E : X = c |- _ => tac_false tt
      | E : X = N0 |- _ =>
          let a := fresh "a" in assert (a : X <> c) by (rewrite E; discriminate); tac_true a
      | E : X = Npos _ |- _ =>
          let a := fresh "a" in assert (a : X <> c) by (rewrite E; discriminate); tac_true a
      | _ => tac_unknown tt
      end
  end.

Ltac is_lit L :=
  lazymatch L with
  | ?X = ?c => is_code X; is_num c
  | ?X <> ?c => is_code X; is_num c
  end.

Ltac is_sprem A :=
  lazymatch A with
  | ?L1 \/ ?L2 => is_sprem L1; is_sprem L2
  | _ => is_lit A
  end.

Ltac decide_prem A k_true k_false k_unknown :=
  lazymatch A with
  | ?L1 \/ ?L2 =>
      decide_prem L1 ltac:(fun a => k_true constr:(@or_introl L1 L2 a))
        ltac:(fun _ => decide_prem L2 ltac:(fun b => k_true constr:(@or_intror L1 L2 b)) k_false k_unknown)
        ltac:(fun _ => decide_prem L2 ltac:(fun b => k_true constr:(@or_intror L1 L2 b)) k_unknown k_unknown)
  | _ => decide_lit A k_true k_false k_unknown
  end.

Ltac fire_with H a :=
  let H' := fresh "N" in pose proof (H a) as H'; clear H; norm_fact H'; mark_fired.

(* status-guarded facts: decided by lookup only (cheap) *)
Ltac try_fire_s H :=
  lazymatch type of H with
  | box (?A -> ?B) =>
      lazymatch goal with
      | E : A |- _ => fire_with H E
      | E : box A |- _ => fire_with H (box_use A E)
      | _ =>
      tryif is_sprem A
      then decide_prem A ltac:(fun a => fire_with H a) ltac:(fun _ => clear H)
             ltac:(fun _ =>
                   tryif is_lit B
                   then decide_lit B ltac:(fun _ => clear H)
                          ltac:(fun _ =>
                                let na := fresh "N" in
                                assert (na : ~ A) by (let x := fresh in intro x; apply H in x; revert x; lia);
                                clear H; norm_neg na; mark_fired)
                          ltac:(fun _ => idtac)
                   else idtac)
      else idtac
      end
  | _ => idtac
  end.

(* facts guarded by a comparison of indices / ordinals, and disjunctive facts: decided by lia over the atoms;
   `full` also tries to refute the premise (pruning) *)
Ltac try_fire_i full H :=
  lazymatch type of H with
  | box (?A -> ?B) =>
      tryif is_sprem A then idtac else
      first [ let a := fresh "a" in
              assert (a : A) by (first [assumption | lia]);
              fire_with H a
            | lazymatch full with true => assert (~ A) by lia; clear H end
            | let nb := fresh "nb" in
              assert (nb : ~ B) by lia;
              let na := fresh "N" in assert (na : ~ A) by (intro; apply nb; apply H; assumption); clear H nb; norm_neg na; mark_fired
            | idtac ]
  | box (?A \/ ?B) =>
      first [ let a := fresh "a" in
              assert (a : ~ A) by lia;
              let H' := fresh "N" in assert (H' : B) by (destruct H as [H|H]; [exfalso; exact (a H) | exact H]); clear H a; norm_fact H'; mark_fired
            | let a := fresh "a" in
              assert (a : ~ B) by lia;
              let H' := fresh "N" in assert (H' : A) by (destruct H as [H|H]; [exact H | exfalso; exact (a H)]); clear H a; norm_fact H'; mark_fired
            | assert A by lia; clear H
            | assert B by lia; clear H
            | idtac ]
  | _ => idtac
  end.

Ltac pass_gen tac :=
  repeat match goal with H : box _ |- _ => revert H end;
  repeat (let H := fresh "B" in intro H; lazymatch type of H with box _ => first [ tac H | idtac ] end).

Ltac unbox_all := repeat match goal with H : box _ |- _ => apply box_use in H end.

(* status propagation to a fixpoint *)
Ltac sat_s n :=
  pass_gen try_fire_s;
  lazymatch goal with
  | X : fired |- _ => clear X; lazymatch n with O => idtac | S ?n' => sat_s n' end
  | _ => idtac
  end.

Ltac fwd_loop n full :=
  sat_s 10%nat;
  pass_gen ltac:(try_fire_i full);
  lazymatch goal with
  | X : fired |- _ => clear X; lazymatch n with O => idtac | S ?n' => fwd_loop n' false end
  | _ => idtac
  end.
Ltac fwd := fwd_loop 6%nat true.

(* case analysis when propagation is stuck: first on a disjunctive fact, then on a premise that compares indices /
   ordinals (not a status code), last on a status premise; depth-limited *)
Ltac is_status A :=
  lazymatch A with
  | st_code _ = _ => idtac
  | oc _ = _ => idtac
  | st_code _ <> _ => idtac
  | oc _ <> _ => idtac
  | ?X \/ ?Y => is_status X; is_status Y
  end.

Ltac split_on H A k :=
  let a := fresh "a" in
  assert (A \/ ~ A) as [a|a] by lia;
  [ let H' := fresh "N" in pose proof (H a) as H'; clear H; norm_fact H'; k | clear H; k ].

Ltac closed := first [ lia | exfalso; lia ].

Ltac dpll n :=
  fwd;
  first [ closed
        | lazymatch n with
          | O => fail
          | S ?n' =>
              first [ match goal with
                      | H : box (_ \/ _) |- _ => destruct H as [H|H]; norm_fact H; dpll n'
                      end
                    | match goal with
                      | H : box (?A -> _) |- _ => tryif is_sprem A then fail else (split_on H A ltac:(dpll n'))
                      end
                    | match goal with
                      | H : box (?A -> _) |- _ => split_on H A ltac:(dpll n')
                      end ]
          end ].

(* refutation form: the negated goal joins the atoms *)
Ltac refute :=
  lazymatch goal with
  | |- False => idtac
  | |- ?G => let ng := fresh "ng" in assert (G \/ ~ G) as [ng|ng] by lia; [exact ng | exfalso; norm_neg ng]
  end.

Ltac finish := dpll 6%nat.

Ltac pf H := let N := fresh "N" in pose proof H as N; norm_fact N.

(* markers used to instantiate the invariant once per known transaction (pair) *)
Definition seen (j : N) (t : txn) := True.
Definition seen2 (j : N) (t : txn) (k : N) (u : txn) := True.
Definition seen3 (j : N) (t : txn) := True.

Ltac clear_marks :=
  repeat match goal with
         | X : seen _ _ |- _ => clear X
         | X : seen2 _ _ _ _ |- _ => clear X
         | X : seen3 _ _ |- _ => clear X
         end.

Ltac for_each_tx g tac :=
  repeat match goal with
  | Hg : g ?j = Some ?t |- _ =>
      lazymatch goal with
      | _ : seen j t |- _ => fail
      | _ => idtac
      end;
      assert (seen j t) by exact I;
      tac j t Hg
  end;
  clear_marks.

Ltac for_each_pair g tac :=
  repeat match goal with
  | Hg : g ?j = Some ?t, Hk : g ?k = Some ?u |- _ =>
      lazymatch goal with
      | _ : seen2 j t k u |- _ => fail
      | _ => idtac
      end;
      assert (seen2 j t k u) by exact I;
      tac j t Hg k u Hk
  end;
  clear_marks.

Ltac inst0 HS :=
  pf (s1 _ _ _ _ HS); pf (s2 _ _ _ _ HS); pf (s7a _ _ _ _ HS).

(* g is a function: two names of one index name one transaction *)
Lemma same_tx (g : N -> option txn) j t k u : g j = Some t -> g k = Some u -> j = k ->
  cc t = cc u /\ ca t = ca u /\ rc t = rc u /\ ra t = ra u /\
  t_cord t = t_cord u /\ t_rord t = t_rord u /\ t_ridx t = t_ridx u.
Proof. intros H1 H2 E. subst k. rewrite H1 in H2. inversion H2; subst. repeat split; reflexivity. Qed.

Ltac inst_same g :=
  for_each_pair g ltac:(fun j t Hg k u Hk =>
    lazymatch j with
    | k => idtac
    | _ => lazymatch goal with
           | _ : seen2 k u j t |- _ => idtac
           | _ => pf (same_tx g j t k u Hg Hk)
           end
    end).

(* the order of two distinct indices is the case analysis most binary conjuncts need: a disjunctive fact, split first *)
Ltac inst_tricho g :=
  for_each_pair g ltac:(fun j t Hg k u Hk =>
    lazymatch j with
    | k => idtac
    | _ => lazymatch goal with
           | _ : seen2 k u j t |- _ => idtac
           | _ => let T := fresh "N" in assert (T : box (j < k \/ (j = k \/ k < j))) by (unfold box; lia)
           end
    end).

(* commit-frontier conjuncts *)
Ltac instC HS g :=
  inst_same g;
  inst0 HS;
  for_each_tx g ltac:(fun j t Hg =>
      pf (s_dom _ _ _ _ HS j t Hg);
      pf (s3a _ _ _ _ HS j t Hg); pf (s3b _ _ _ _ HS j t Hg); pf (s3c _ _ _ _ HS j t Hg);
      pf (s4 _ _ _ _ HS j t Hg); pf (s5 _ _ _ _ HS j t Hg); pf (s7c _ _ _ _ HS j t Hg);
      pf (st_code_le (t_cc t))).

(* + ordinal conjuncts *)
Ltac instO HS g :=
  instC HS g;
  inst_tricho g;
  for_each_tx g ltac:(fun j t Hg =>
      pf (o1a _ _ _ _ HS j t Hg); pf (o2a _ _ _ _ HS j t Hg); pf (o3a _ _ _ _ HS j t Hg));
  for_each_pair g ltac:(fun j t Hg k u Hk =>
      pf (o1b _ _ _ _ HS j t k u Hg Hk); pf (o2b _ _ _ _ HS j t k u Hg Hk);
      pf (o3b _ _ _ _ HS j t k u Hg Hk); pf (o4 _ _ _ _ HS j t k u Hg Hk)).

(* + apply-frontier conjuncts *)
Ltac instA HS g :=
  instO HS g;
  for_each_tx g ltac:(fun j t Hg =>
      pf (a0 _ _ _ _ HS j t Hg); pf (a0b _ _ _ _ HS j t Hg); pf (a1 _ _ _ _ HS j t Hg);
      pf (a2 _ _ _ _ HS j t Hg); pf (a3 _ _ _ _ HS j t Hg); pf (b1 _ _ _ _ HS j t Hg);
      pf (st_code_le (t_ca t)));
  for_each_pair g ltac:(fun j t Hg k u Hk => pf (a7 _ _ _ _ HS j t k u Hg Hk)).

(* a gate fact  Gt : forall j p, g j = Some p -> ...  is instantiated with every known transaction *)
Ltac inst_gate Gt g := for_each_tx g ltac:(fun j t Hg => pf (Gt j t Hg)).

(* split every "updf g i t' j = Some u" into the updated and the untouched case *)
Ltac split_upd :=
  repeat match goal with
  | H : updf _ _ _ _ = Some _ |- _ => apply updf_inv in H; destruct H as [[? ?] | [? H]]; subst
  end.

Ltac getflds F :=
  unfold flds in F; injection F as Frb Fcc Fca Fcord Frc Fra Frord Fridx.

Ltac rwt t' :=
  try match goal with F : t_rb t' = _ |- _ => rewrite ?F in * end;
  try match goal with F : t_cc t' = _ |- _ => rewrite ?F in * end;
  try match goal with F : t_ca t' = _ |- _ => rewrite ?F in * end;
  try match goal with F : t_cord t' = _ |- _ => rewrite ?F in * end;
  try match goal with F : t_rc t' = _ |- _ => rewrite ?F in * end;
  try match goal with F : t_ra t' = _ |- _ => rewrite ?F in * end;
  try match goal with F : t_rord t' = _ |- _ => rewrite ?F in * end;
  try match goal with F : t_ridx t' = _ |- _ => rewrite ?F in * end;
  cbn [st_code oc] in *.

Ltac splits := repeat match goal with |- _ /\ _ => split end.

Ltac frame_eauto :=
  solve [eauto using s_dom, s1, s2, s3a, s3b, s3c, s4, s5, s7a, s7c, o1a, o1b, o2a, o2b, o3a, o3b, o4, a0, a0b, a1, a2, a3, a7, b1].

(* one conjunct of SInv after a write: `prep` normalises the goal (field rewriting / projections), `inst` brings in the
   instantiated old conjuncts of the right group *)
Ltac norm_ctx :=
  repeat match goal with
         | H : _ \/ _ |- _ => norm_fact H
         | H : _ /\ _ |- _ => norm_fact H
         end.

Ltac conj_with prep inst extra :=
  intros; prep;
  first [ frame_eauto | solve [intros; lia] | (splits; refute; norm_ctx; inst; extra; finish) ].

Ltac sinv_by prep HS g extra :=
  constructor;
  [ conj_with prep ltac:(instC HS g) extra | conj_with prep ltac:(instC HS g) extra | conj_with prep ltac:(instC HS g) extra
  | conj_with prep ltac:(instC HS g) extra | conj_with prep ltac:(instC HS g) extra | conj_with prep ltac:(instC HS g) extra
  | conj_with prep ltac:(instC HS g) extra | conj_with prep ltac:(instC HS g) extra | conj_with prep ltac:(instC HS g) extra
  | conj_with prep ltac:(instC HS g) extra
  | conj_with prep ltac:(instO HS g) extra | conj_with prep ltac:(instO HS g) extra | conj_with prep ltac:(instO HS g) extra
  | conj_with prep ltac:(instO HS g) extra | conj_with prep ltac:(instO HS g) extra | conj_with prep ltac:(instO HS g) extra
  | conj_with prep ltac:(instO HS g) extra
  | conj_with prep ltac:(instA HS g) extra | conj_with prep ltac:(instA HS g) extra | conj_with prep ltac:(instA HS g) extra
  | conj_with prep ltac:(instA HS g) extra | conj_with prep ltac:(instA HS g) extra | conj_with prep ltac:(instA HS g) extra
  | conj_with prep ltac:(instA HS g) extra ].

(* ------------------------------------------------------------------ the history part under the two kinds of writes *)
Lemma order_ok_app_incompletes evs : forall h, order_ok h = true -> Forall (fun e => is_complete e = false) evs ->
  order_ok (h ++ evs) = true.
Proof.
  induction evs as [|e r IH]; intros h H F; [rewrite app_nil_r; exact H|].
  inversion F; subst. replace (h ++ e :: r) with ((h ++ [e]) ++ r) by (rewrite <- app_assoc; reflexivity).
  apply IH; [apply order_ok_app_incomplete; assumption | assumption].
Qed.

Lemma incomplete_not_bCC e : is_complete e = false -> bCC e = false.
Proof. intros H. unfold bCC. rewrite H. apply andb_false_r. Qed.
Lemma incomplete_not_bCA e : is_complete e = false -> bCA e = false.
Proof. intros H. unfold bCA. rewrite H. apply andb_false_r. Qed.

Lemma HInv_tx g cm ap h i t t' evs :
  HInv g cm ap h -> g i = Some t ->
  (cc t = 2 -> cc t' = 2 /\ t_cord t' = t_cord t) ->
  (cc t' = 2 \/ (cc t' = 1 /\ k_change cm = i) -> cc t = 2 \/ (cc t = 1 /\ k_change cm = i)) ->
  Forall (fun e => is_complete e = false) evs ->
  HInv (updf g i t') cm ap (h ++ evs).
Proof.
  intros [X1 X2 X3 X4] Hi K1 K2 F. constructor.
  - intros e He Hb. apply in_app_or in He. destruct He as [He|He]; [eauto|].
    rewrite Forall_forall in F. rewrite incomplete_not_bCC in Hb by (apply F; exact He). discriminate.
  - intros j u Hj Hc. apply in_or_app; left. apply updf_inv in Hj. destruct Hj as [[-> ->] | [Hne Hj]].
    + apply (X2 i t Hi). apply K2. exact Hc.
    + apply (X2 j u Hj Hc).
  - intros e He Hb. apply in_app_or in He. destruct He as [He|He].
    + destruct (X3 e He Hb) as [t0 [Ht0 [Hc Ho]]]. unfold updf. destruct (e_index e =? i) eqn:E.
      * apply N.eqb_eq in E. rewrite E in Ht0. rewrite Hi in Ht0. inversion Ht0; subst t0.
        exists t'. destruct (K1 Hc) as [Y1 Y2]. split; [reflexivity|]. split; [exact Y1 | rewrite Y2; exact Ho].
      * exists t0. auto.
    + rewrite Forall_forall in F. rewrite incomplete_not_bCA in Hb by (apply F; exact He). discriminate.
  - apply order_ok_app_incompletes; assumption.
Qed.

Lemma HInv_cfg g cm ap cm' ap' h evs :
  HInv g cm ap h ->
  k_change cm <= k_change cm' ->
  (forall j t, g j = Some t -> cc t = 1 -> k_change cm' = j -> k_change cm = j) ->
  k_ordinal ap <= k_ordinal ap' ->
  Forall (fun e => is_complete e = false) evs ->
  HInv g cm' ap' (h ++ evs).
Proof.
  intros [X1 X2 X3 X4] K1 K2 K3 F. constructor.
  - intros e He Hb. apply in_app_or in He. destruct He as [He|He]; [specialize (X1 e He Hb); lia|].
    rewrite Forall_forall in F. rewrite incomplete_not_bCC in Hb by (apply F; exact He). discriminate.
  - intros j u Hj Hc. apply in_or_app; left. apply (X2 j u Hj).
    destruct Hc as [Hc | [Hc1 Hc2]]; [left; exact Hc | right; split; [exact Hc1 | eapply K2; eauto]].
  - intros e He Hb. apply in_app_or in He. destruct He as [He|He].
    + destruct (X3 e He Hb) as [t0 [Ht0 [Hc Ho]]]. exists t0. split; [exact Ht0 | split; [exact Hc | lia]].
    + rewrite Forall_forall in F. rewrite incomplete_not_bCA in Hb by (apply F; exact He). discriminate.
  - apply order_ok_app_incompletes; assumption.
Qed.

(* ------------------------------------------------------------------ two consequences of SInv used as hints *)
(* while a rollback apply is in progress no change apply is *)
Lemma no_change_apply_during_rollback_apply g n cm ap i t j t0 :
  SInv g n cm ap -> g i = Some t -> rc t = 2 -> ra t = 1 -> g j = Some t0 -> ca t0 = 1 -> False.
Proof.
  intros HS Hi G1 G2 Hj G3.
  pose proof (b1 _ _ _ _ HS i t Hi G2) as B1.
  pose proof (s5 _ _ _ _ HS i t Hi (or_intror G1)) as S5.
  assert (C0 : cc t0 = 2) by (apply (a0 _ _ _ _ HS j t0 Hj); lia).
  assert (R : t_ridx t < i) by (apply (s4 _ _ _ _ HS i t Hi); lia).
  pose proof (o3b _ _ _ _ HS i t j t0 Hi Hj G1 C0) as O1.
  pose proof (o3b _ _ _ _ HS i t i t Hi Hi G1 (proj2 (proj2 S5))) as O2.
  pose proof (a1 _ _ _ _ HS j t0 Hj G3) as A1.
  destruct A1 as [[D1 D2] | [D1 [D2 [D3 D4]]]]; [lia|].
  assert (L : j < i) by lia.
  pose proof (o1b _ _ _ _ HS j t0 i t Hj Hi C0 (proj2 (proj2 S5)) L) as O3.
  lia.
Qed.

(* when a change apply is in progress with the applied ordinal just below its ordinal, every committed change with a larger
   ordinal is still PENDING *)
Lemma later_applies_pending g n cm ap i t j t0 :
  SInv g n cm ap -> g i = Some t -> ca t = 1 -> ~ (k_ordinal ap = t_cord t /\ k_revision ap = i) ->
  g j = Some t0 -> cc t0 = 2 -> t_cord t < t_cord t0 -> ca t0 = 0.
Proof.
  intros HS Hi G1 G2 Hj C0 L.
  pose proof (a1 _ _ _ _ HS i t Hi G1) as A1.
  pose proof (a1 _ _ _ _ HS j t0 Hj) as A1'.
  pose proof (a2 _ _ _ _ HS j t0 Hj) as A2.
  pose proof (a3 _ _ _ _ HS j t0 Hj) as A3.
  pose proof (a0b _ _ _ _ HS j t0 Hj) as A0.
  pose proof (st_code_le (t_ca t0)) as R.
  assert (E : k_ordinal ap + 1 = t_cord t) by lia.
  assert (X : ca t0 = 0 \/ ca t0 = 1 \/ ca t0 = 2 \/ ca t0 = 3 \/ ca t0 = 4 \/ ca t0 = 5) by lia.
  destruct X as [X | [X | [X | [X | [X | X]]]]]; [exact X | | | | |]; exfalso.
  - specialize (A1' X). lia.
  - specialize (A3 X). lia.
  - specialize (A2 (or_introl X)). lia.
  - specialize (A0 X). lia.
  - specialize (A2 (or_intror X)). lia.
Qed.

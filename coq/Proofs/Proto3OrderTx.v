(* Proto3OrderTx: every kind of transaction-record write of the v3 reconcilers (Model/Proto3.v) preserves the frontier
   invariant IA of Proto3OrderBase.  One lemma per kind; the guards are the conditions under which the reconciler
   issues the write, evaluated on the state the write is applied to (so a write that follows a configuration write
   of the same Reconcile call, or that is replayed after a crash, is the same kind). *)
From Coq Require Import List NArith Bool Arith Lia.
From OC Require Import Model.Proto3 Spec.Tla3 Proofs.Proto3Proofs Proofs.Proto3OrderBase.
Import ListNotations.
Open Scope N_scope.

Ltac tx_sinv HS g t' extra := sinv_by ltac:(split_upd; rwt t') HS g extra.

Ltac tx_hinv HH Hi t' :=
  eapply HInv_tx; [exact HH | exact Hi | rwt t'; try lia; auto
                  | rwt t'; try lia; auto
                  | repeat constructor ].

(* commitChange PENDING -> IN_PROGRESS (Committed.Target already names the transaction) *)
Lemma tx_C1' g n cm ap h i t t' :
  IA g n cm ap h -> g i = Some t ->
  cc t = 0 -> k_change cm + 1 = i -> k_target cm = i ->
  flds t' = (t_rb t, InProgress, t_ca t, t_cord t, t_rc t, t_ra t, t_rord t, k_revision cm) ->
  IA (updf g i t') n cm ap (h ++ []).
Proof.
  intros [HS HH] Hi G1 G2 G3 F. getflds F. split; [tx_sinv HS g t' idtac | tx_hinv HH Hi t'].
Qed.

(* commitChange IN_PROGRESS -> COMPLETE once Committed.Change names the transaction *)
Lemma tx_C2 g n cm ap h i t t' :
  IA g n cm ap h -> g i = Some t ->
  cc t = 1 -> k_change cm = i ->
  flds t' = (t_rb t, Complete, t_ca t, k_ordinal cm, t_rc t, t_ra t, t_rord t, t_ridx t) ->
  IA (updf g i t') n cm ap (h ++ []).
Proof.
  intros [HS HH] Hi G1 G2 F. getflds F. split; [tx_sinv HS g t' idtac | tx_hinv HH Hi t'].
Qed.

(* commitChange IN_PROGRESS -> FAILED (validation) *)
Lemma tx_C3 g n cm ap h i t t' :
  IA g n cm ap h -> g i = Some t ->
  cc t = 1 -> k_change cm <> i ->
  flds t' = (t_rb t, Failed, Canceled, t_cord t, t_rc t, t_ra t, t_rord t, t_ridx t) ->
  IA (updf g i t') n cm ap (h ++ [ev PhChange StCommit i Failed]).
Proof.
  intros [HS HH] Hi G1 G2 F. getflds F. split; [tx_sinv HS g t' idtac | tx_hinv HH Hi t'].
Qed.

(* commitRollback PENDING -> IN_PROGRESS (Committed.Target already names the rollback index) *)
Lemma tx_R1' g n cm ap h i t t' :
  IA g n cm ap h -> g i = Some t ->
  rc t = 0 -> k_revision cm = i -> k_target cm = t_ridx t ->
  flds t' = (t_rb t, t_cc t, t_ca t, t_cord t, Some InProgress, t_ra t, t_rord t, t_ridx t) ->
  IA (updf g i t') n cm ap (h ++ []).
Proof.
  intros [HS HH] Hi G1 G2 G3 F. getflds F. split; [tx_sinv HS g t' idtac | tx_hinv HH Hi t'].
Qed.

(* commitRollback IN_PROGRESS -> COMPLETE once the committed revision has moved off the transaction *)
Lemma tx_R3 g n cm ap h i t t' :
  IA g n cm ap h -> g i = Some t ->
  rc t = 1 -> k_revision cm <> i ->
  flds t' = (t_rb t, t_cc t, t_ca t, t_cord t, Some Complete, t_ra t, k_ordinal cm, t_ridx t) ->
  IA (updf g i t') n cm ap (h ++ []).
Proof.
  intros [HS HH] Hi G1 G2 F. getflds F. split; [tx_sinv HS g t' idtac | tx_hinv HH Hi t'].
Qed.

(* RollbackChange request: phase := ROLLBACK, both rollback phases PENDING *)
Lemma tx_Rb g n cm ap h i t t' :
  IA g n cm ap h -> g i = Some t ->
  flds t' = (true, t_cc t, t_ca t, t_cord t, Some Pending, Some Pending, t_rord t, t_ridx t) ->
  IA (updf g i t') n cm ap h.
Proof.
  intros [HS HH] Hi F. getflds F. split; [tx_sinv HS g t' idtac |].
  rewrite <- (app_nil_r h). tx_hinv HH Hi t'.
Qed.

(* AppendChange: a new transaction with every phase PENDING at the end of the log *)
Lemma tx_append g n cm ap h t' :
  IA g n cm ap h ->
  flds t' = (false, Pending, Pending, 0, None, None, 0, 0) ->
  IA (fun j => if j =? n + 1 then Some t' else g j) (n + 1) cm ap h.
Proof.
  intros [HS HH] F. getflds F. change (fun j => if j =? n + 1 then Some t' else g j) with (updf g (n + 1) t').
  split.
  - sinv_by ltac:(split_upd; rwt t') HS g idtac.
  - destruct HH as [X1 X2 X3 X4]. constructor; auto.
    + intros j u Hj Hc. apply updf_inv in Hj. destruct Hj as [[-> ->] | [Hne Hj]]; [|eauto].
      rewrite Fcc in Hc. cbn in Hc. lia.
    + intros e He Hb. destruct (X3 e He Hb) as [t0 [Ht0 [Hc Ho]]]. exists t0. split; [|auto].
      unfold updf. destruct (e_index e =? n + 1) eqn:E; [|exact Ht0].
      apply N.eqb_eq in E. pose proof (s_dom _ _ _ _ HS _ _ Ht0). lia.
Qed.

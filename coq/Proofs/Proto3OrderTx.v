(* Proto3OrderTx: every kind of transaction-record write of the v3 reconcilers (Model/Proto3.v) preserves the frontier
   invariant IA of Proto3OrderBase.  One lemma per kind; the guards are the conditions under which the reconciler
   issues the write, evaluated on the state the write is applied to (so a write that follows a configuration write
   of the same Reconcile call, or that is replayed after a crash, is the same kind). *)
From Coq Require Import List NArith Bool Arith Lia.
From OC Require Import Model.Proto3 Spec.Tla3 Proofs.Proto3Proofs Proofs.Proto3OrderBase.
Import ListNotations.
Open Scope N_scope.

Ltac tx_sinv HS g t' extra :=
  let HS' := fresh "HS'" in pose proof HS as HS'; destruct HS';
  constructor; intros; split_upd; rwt t';
  first [ solve [eauto] | solve [intros; lia] | (splits; inst0 HS; inst1 HS g; inst2 HS g; extra; finish) ].

Ltac tx_hinv HH Hi t' :=
  eapply HInv_tx; [exact HH | exact Hi | rwt t'; try lia; auto
                  | rwt t'; try lia; auto
                  | repeat constructor ].

(* commitChange PENDING -> IN_PROGRESS (Committed.Target already names the transaction) *)
Lemma tx_C1' g n cm ap h i t t' :
  IA g n cm ap h -> g i = Some t ->
  cc t = 0 -> k_change cm + 1 = i -> k_target cm = i ->
  flds t' = (t_rb t, InProgress, t_ca t, t_cord t, t_rc t, t_ra t, t_rord t, k_revision cm) ->
  IA (updf g i t') n cm ap (h ++ []).
Proof.
  intros [HS HH] Hi G1 G2 G3 F. getflds F. split; [tx_sinv HS g t' idtac | tx_hinv HH Hi t'].
Qed.

(* commitChange IN_PROGRESS -> COMPLETE once Committed.Change names the transaction *)
Lemma tx_C2 g n cm ap h i t t' :
  IA g n cm ap h -> g i = Some t ->
  cc t = 1 -> k_change cm = i ->
  flds t' = (t_rb t, Complete, t_ca t, k_ordinal cm, t_rc t, t_ra t, t_rord t, t_ridx t) ->
  IA (updf g i t') n cm ap (h ++ []).
Proof.
  intros [HS HH] Hi G1 G2 F. getflds F. split; [tx_sinv HS g t' idtac | tx_hinv HH Hi t'].
Qed.

(* commitChange IN_PROGRESS -> FAILED (validation) *)
Lemma tx_C3 g n cm ap h i t t' :
  IA g n cm ap h -> g i = Some t ->
  cc t = 1 -> k_change cm <> i ->
  flds t' = (t_rb t, Failed, Canceled, t_cord t, t_rc t, t_ra t, t_rord t, t_ridx t) ->
  IA (updf g i t') n cm ap (h ++ [ev PhChange StCommit i Failed]).
Proof.
  intros [HS HH] Hi G1 G2 F. getflds F. split; [tx_sinv HS g t' idtac | tx_hinv HH Hi t'].
Qed.

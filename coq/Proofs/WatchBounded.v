(* Bounded exhaustive exploration of Model/Watch.v *)
From Coq Require Import List NArith Bool Lia.
From OC Require Import Model.Watch.
Import ListNotations.
Open Scope N_scope.

(* ---------------------------------------------------------------- bounded exhaustive exploration *)
(* every world reachable from g by at most n labels of the alphabet *)
Fixpoint explore (fixed : bool) (alphabet : list label) (n : nat) (g : world) : list world :=
  match n with
  | O => [g]
  | S m => g :: flat_map (fun l => explore fixed alphabet m (wstep fixed false g l)) alphabet
  end.

(* one replaying all-records watcher, two records; and one live single-record watcher *)
Definition alphabet_replay_all : list label :=
  [SWrite 0; SWrite 1; SOpen 1 None true; SSnap 1; SReplay 1; STake; SSend; SFwd 1].
Definition alphabet_live_one : list label :=
  [SWrite 0; SWrite 1; SOpen 1 (Some 1) false; STake; SSend; SFwd 1].
Definition alphabet_replay_one : list label :=
  [SWrite 0; SWrite 1; SOpen 1 (Some 0) true; SSnap 1; SReplay 1; STake; SSend; SFwd 1].
Definition alphabet_two : list label :=
  [SWrite 0; SOpen 1 None true; SOpen 2 None false; SSnap 1; SReplay 1; STake; SSend; SFwd 1; SFwd 2; SCancel 1; SClose 1].

(* C15_watch_latest, bounded: for EVERY interleaving of at most 7 (resp. 6) steps of writes with the steps of
   Watch / event loop / watcher, whenever the system is quiescent every open watcher was last shown the
   current version of every record it is entitled to - with replay / without, all records / one record,
   and next to a watcher that is being cancelled *)
Theorem watch_latest_bounded :
  forallb watch_ok (explore true alphabet_replay_all 7 w0) = true /\
  forallb watch_ok (explore true alphabet_replay_one 7 w0) = true /\
  forallb watch_ok (explore true alphabet_live_one 8 w0) = true /\
  forallb watch_ok (explore true alphabet_two 6 w0) = true /\
  forallb watch_ok (explore false alphabet_two 6 w0) = true.
Proof. vm_compute. repeat split. Qed.

(* the bound is not vacuous: quiescent worlds with deliveries are among those explored *)
Example explored_nontrivial :
  existsb (fun g => quiescent g && existsb (fun w => 1 <=? N.of_nat (length (w_delivered w))) (g_ws g))
          (explore true alphabet_replay_all 7 w0) = true.
Proof. vm_compute. reflexivity. Qed.


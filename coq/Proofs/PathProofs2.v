(* Proofs about the path codec model (property C16), part 2: SplitPath on rendered paths, the round
   trip, injectivity, GetParentPath, createUpdate's re-parser, the accepted alphabet, and the
   counterexamples showing that every conjunct of wf_gpath is needed. *)
From Coq Require Import List NArith Bool Lia Permutation.
From OC Require Import Base.Bytes Model.Path Proofs.PathProofs.
Import ListNotations.
Open Scope N_scope.

(* --------------------------------------------- the tokenizer on one element -- *)
Lemma run_render_key k v inb :
  key_ok (k, v) = true -> run (inb, false) (render_key (k, v)) = Some (false, false).
Proof.
  intros H. apply key_ok_parts in H as (_ & _ & Hbs & _ & Hu).
  unfold key_unsplit in Hu.
  destruct (scan_open true true k) as [b|] eqn:Ek; [|discriminate].
  destruct (scan_open false b v) as [b'|] eqn:Ev; [|discriminate].
  unfold render_key; cbn [fst snd].
  cbn [run fst snd]. change (tok_step inb false c_lbr) with (Some (true, false)). cbv iota.
  rewrite run_app, (run_scan_key _ _ _ Hbs Ek).
  cbn [run fst snd]. change (tok_step b false c_eq) with (Some (b, false)). cbv iota.
  rewrite run_app, (run_scan_val _ _ _ Ev).
  reflexivity.
Qed.

Lemma run_render_keys ks : forall inb,
  forallb key_ok ks = true -> run (inb, false) (concat (map render_key ks)) = Some (inb && is_empty (concat (map render_key ks)), false).
Proof.
  induction ks as [|[k v] ks IH]; intros inb H.
  - cbn. rewrite andb_true_r. reflexivity.
  - cbn [forallb] in H. apply andb_true_iff in H as [Hkv H].
    cbn [map concat]. rewrite run_app, (run_render_key _ _ _ Hkv), (IH _ H).
    unfold render_key. cbn. rewrite andb_false_r. reflexivity.
Qed.

Definition tok_ok (e : elem) : Prop := run (false, false) (render e) = Some (false, false).

Lemma elem_tok_ok last e : elem_ok last e = true -> tok_ok e.
Proof.
  intros H. apply elem_ok_parts in H as (Hn & Hk & Hs & _).
  unfold tok_ok, render. rewrite run_app, (run_safe_name _ Hn), (render_keys_sorted _ Hs), (run_render_keys _ _ Hk).
  reflexivity.
Qed.

Lemma next_token_render e r :
  tok_ok e -> (r = [] \/ exists r', r = c_slash :: r') -> next_token false false (render e ++ r) = (render e, r).
Proof.
  intros H Hr. rewrite (next_token_run _ _ _ _ r H). cbn [fst snd].
  destruct Hr as [->|[r' ->]]; cbn; [rewrite app_nil_r|rewrite app_nil_r]; reflexivity.
Qed.

(* ------------------------------------------------ SplitPath on a rendered path -- *)
(* the text of e :: p without its leading '/' *)
Definition body (e : elem) (p : gpath) : str := render e ++ str_path_elem p.

Lemma str_path_elem_cons e p : str_path_elem (e :: p) = c_slash :: body e p.
Proof. reflexivity. Qed.

Lemma split_loop_nil f : split_loop f [] = [].
Proof. destruct f; reflexivity. Qed.

Lemma split_loop_cons f path :
  path <> [] ->
  split_loop (S f) path = fst (next_token false false path) :: split_loop f (strip_slash (snd (next_token false false path))).
Proof.
  intros H. destruct path as [|c path]; [congruence|].
  cbn [split_loop]. destruct (next_token false false (c :: path)); reflexivity.
Qed.

Lemma last_cons_default {A} (l : list A) : forall x d d', last (x :: l) d = last (x :: l) d'.
Proof.
  induction l as [|y l IH]; intros x d d'; [reflexivity|].
  change (last (x :: y :: l) d) with (last (y :: l) d). change (last (x :: y :: l) d') with (last (y :: l) d'). apply IH.
Qed.

Lemma split_loop_body p : forall e fuel,
  Forall tok_ok (e :: p) ->
  render (last p e) <> [] ->
  (List.length (body e p) < fuel)%nat ->
  split_loop fuel (body e p) = map render (e :: p).
Proof.
  induction p as [|e2 p IH]; intros e fuel Hok Hlast Hfuel.
  - unfold body in *. cbn [str_path_elem map concat last] in *. rewrite app_nil_r in *.
    destruct fuel as [|f]; [lia|].
    rewrite split_loop_cons by exact Hlast.
    replace (render e) with (render e ++ []) at 1 2 by apply app_nil_r.
    inversion Hok as [|? ? He _]; subst.
    rewrite (next_token_render _ [] He (or_introl eq_refl)). cbn [fst snd strip_slash].
    rewrite split_loop_nil. reflexivity.
  - inversion Hok as [|? ? He Hok']; subst.
    unfold body. rewrite str_path_elem_cons. fold (body e2 p).
    destruct fuel as [|f]; [lia|].
    assert (Hne : render e ++ c_slash :: body e2 p <> []) by (destruct (render e); discriminate).
    rewrite split_loop_cons by exact Hne.
    rewrite (next_token_render _ _ He (or_intror (ex_intro _ _ eq_refl))). cbn [fst snd strip_slash].
    rewrite N.eqb_refl.
    cbn [map]. f_equal.
    apply IH; [exact Hok'| |].
    + destruct p as [|e3 p]; [exact Hlast|].
      rewrite (last_cons_default p e3 e2 e). exact Hlast.
    + unfold body in Hfuel. rewrite str_path_elem_cons, app_length in Hfuel. cbn [List.length] in Hfuel. lia.
Qed.

Lemma wf_gpath_parts p :
  wf_gpath p = true ->
  Forall (fun e => elem_ok false e = true) p /\
  match p with [] => True | e :: p' => elem_ok true (last p' e) = true end.
Proof.
  induction p as [|e p IH]; intros H; [split; [constructor|exact I]|].
  destruct p as [|e2 p].
  - cbn in H. split; [constructor; [apply elem_ok_weaken; exact H|constructor]|exact H].
  - change (wf_gpath (e :: e2 :: p)) with (elem_ok false e && wf_gpath (e2 :: p)) in H.
    apply andb_true_iff in H as [He H]. destruct (IH H) as [IH1 IH2].
    split; [constructor; assumption|].
    destruct p as [|e3 p]; [exact IH2|]. rewrite (last_cons_default (e3 :: p) e2 e e2).
    change (last (e2 :: e3 :: p) e2) with (last (e3 :: p) e2). exact IH2.
Qed.

Lemma name_render_nonempty e : e_name e <> [] -> render e <> [].
Proof.
  unfold render. destruct (e_name e) as [|x n]; [congruence|]. intros _.
  cbn [safe]. destruct ((x =? c_slash) || (x =? c_bslash)); discriminate.
Qed.

Lemma split_path_render p : wf_gpath p = true -> split_path (str_path_elem p) = map render p.
Proof.
  intros H. destruct (wf_gpath_parts _ H) as [Hall Hlast].
  destruct p as [|e p]; [reflexivity|].
  rewrite str_path_elem_cons. unfold split_path. cbn [strip_slash]. rewrite N.eqb_refl.
  apply split_loop_body.
  - eapply Forall_impl; [|exact Hall]. intros a Ha. eapply elem_tok_ok; exact Ha.
  - apply name_render_nonempty. apply elem_ok_parts in Hlast as (_ & _ & _ & [Hn|[Hn _]]); [exact Hn|discriminate].
  - lia.
Qed.

Lemma str_path_nonempty e p : str_path (e :: p) = str_path_elem (e :: p).
Proof. reflexivity. Qed.

Lemma split_path_str_path p : wf_gpath p = true -> split_path (str_path p) = map render p.
Proof.
  destruct p as [|e p]; [reflexivity|]. rewrite str_path_nonempty. apply split_path_render.
Qed.

(* ---------------------------------------------------------------- round trip -- *)
Lemma roundtrip_elem p : wf_gpath p = true -> parse_path (str_path_elem p) = ROk p.
Proof.
  intros H. unfold parse_path. rewrite (split_path_render _ H).
  apply parse_gnmi_elements_render. apply wf_gpath_parts. exact H.
Qed.

Lemma roundtrip p : wf_gpath p = true -> parse_path (str_path p) = ROk p.
Proof.
  destruct p as [|e p]; [reflexivity|]. rewrite str_path_nonempty. apply roundtrip_elem.
Qed.

Lemma injective p q : wf_gpath p = true -> wf_gpath q = true -> str_path p = str_path q -> p = q.
Proof.
  intros Hp Hq E. pose proof (roundtrip _ Hp) as Rp. rewrite E, (roundtrip _ Hq) in Rp. congruence.
Qed.

(* ------------------------------------------------------------- GetParentPath -- *)
Lemma last_index_none c t : has c t = false -> last_index_byte c t = None.
Proof.
  induction t as [|x t IH]; intros H; [reflexivity|].
  rewrite has_cons in H. apply orb_false_iff in H as [Hx H].
  cbn. rewrite (IH H), Hx. reflexivity.
Qed.

Lemma last_index_app c s t : has c t = false -> last_index_byte c (s ++ c :: t) = Some (List.length s).
Proof.
  intros H. induction s as [|x s IH].
  - cbn. rewrite (last_index_none _ _ H), N.eqb_refl. reflexivity.
  - cbn [app last_index_byte List.length]. rewrite IH. reflexivity.
Qed.

Lemma firstn_length_app {A} (s t : list A) : firstn (List.length s) (s ++ t) = s.
Proof. induction s as [|x s IH]; [destruct t; reflexivity|cbn; f_equal; exact IH]. Qed.

Lemma get_parent_app s t : has c_slash t = false -> get_parent (s ++ c_slash :: t) = s.
Proof.
  intros H. unfold get_parent. rewrite (last_index_app _ _ _ H).
  destruct s as [|x s]; [reflexivity|].
  cbn [List.length]. change (S (List.length s)) with (List.length (x :: s)). apply firstn_length_app.
Qed.

Lemma has_safe c e s : c <> c_bslash -> has c (safe e s) = has c s.
Proof.
  intros Hc. induction s as [|x s IH]; [reflexivity|].
  cbn [safe]. destruct ((x =? e) || (x =? c_bslash)).
  - rewrite !has_cons, IH. assert (c_bslash =? c = false) as -> by (apply N.eqb_neq; congruence). reflexivity.
  - rewrite !has_cons, IH. reflexivity.
Qed.

Lemma has_concat c l : Forall (fun s => has c s = false) l -> has c (concat l) = false.
Proof.
  induction 1 as [|s l Hs _ IH]; [reflexivity|]. cbn [concat]. rewrite has_app, Hs, IH. reflexivity.
Qed.

Lemma slash_free_render e : slash_free e = true -> has c_slash (render e) = false.
Proof.
  unfold slash_free. rewrite andb_true_iff, negb_true_iff. intros [Hn Hk].
  unfold render. rewrite has_app, has_safe, Hn by discriminate. cbn [orb].
  unfold render_keys. apply has_concat. apply Forall_map.
  assert (HF : Forall (fun kv => has c_slash (render_key kv) = false) (e_keys e)).
  { apply Forall_forall. intros [k v] Hin. rewrite forallb_forall in Hk. specialize (Hk _ Hin).
    cbn [fst snd] in Hk. apply andb_true_iff in Hk as [H1 H2]. apply negb_true_iff in H1, H2.
    unfold render_key; cbn [fst snd]. rewrite has_cons, has_app, has_cons, has_app, has_safe, H1, H2 by discriminate.
    reflexivity. }
  eapply Permutation_Forall; [apply isort_perm|exact HF].
Qed.

Lemma str_path_elem_app p q : str_path_elem (p ++ q) = str_path_elem p ++ str_path_elem q.
Proof. unfold str_path_elem. rewrite map_app, concat_app. reflexivity. Qed.

Lemma parent_of_path p e : slash_free e = true -> get_parent (str_path_elem (p ++ [e])) = str_path_elem p.
Proof.
  intros H. rewrite str_path_elem_app. cbn [str_path_elem map concat]. rewrite app_nil_r.
  apply get_parent_app. apply slash_free_render. exact H.
Qed.

(* ------------------------------------------------- createUpdate's re-parser -- *)
Lemma trim_right_noslash t : has c_slash t = false -> trim_right_slash t = t.
Proof.
  induction t as [|x t IH]; intros H; [reflexivity|].
  rewrite has_cons in H. apply orb_false_iff in H as [Hx H].
  cbn [trim_right_slash]. rewrite (IH H). destruct t; [rewrite Hx|]; reflexivity.
Qed.

Lemma trim_right_app a b : trim_right_slash b <> [] -> trim_right_slash (a ++ b) = a ++ trim_right_slash b.
Proof.
  intros H. induction a as [|x a IH]; [reflexivity|].
  cbn [app trim_right_slash]. rewrite IH.
  destruct (a ++ trim_right_slash b) eqn:E; [|reflexivity].
  apply app_eq_nil in E as [_ E]. contradiction.
Qed.

Lemma split_on_token c t r : has c t = false -> split_on c (t ++ c :: r) = t :: split_on c r.
Proof.
  intros H. induction t as [|x t IH].
  - cbn. rewrite N.eqb_refl. reflexivity.
  - rewrite has_cons in H. apply orb_false_iff in H as [Hx H].
    cbn [app split_on]. rewrite Hx, (IH H). reflexivity.
Qed.

Lemma split_on_single c t : has c t = false -> split_on c t = [t].
Proof.
  induction t as [|x t IH]; intros H; [reflexivity|].
  rewrite has_cons in H. apply orb_false_iff in H as [Hx H].
  cbn [split_on]. rewrite Hx, (IH H). reflexivity.
Qed.

(* elements whose text is non-empty and free of '/' *)
Definition plain (e : elem) : Prop := has c_slash (render e) = false /\ render e <> [].

Lemma body_nonempty e p : plain e -> body e p <> [].
Proof. intros [_ H]. unfold body. destruct (render e); [congruence|discriminate]. Qed.

Lemma trim_right_body p : forall e, Forall plain (e :: p) -> trim_right_slash (body e p) = body e p.
Proof.
  induction p as [|e2 p IH]; intros e H; inversion H as [|? ? [Hs Hne] H']; subst.
  - unfold body. cbn [str_path_elem map concat]. rewrite app_nil_r. apply trim_right_noslash. exact Hs.
  - unfold body. rewrite str_path_elem_cons. fold (body e2 p).
    assert (Ht : trim_right_slash (c_slash :: body e2 p) = c_slash :: body e2 p).
    { cbn [trim_right_slash]. rewrite (IH _ H').
      inversion H' as [|? ? Hp2 _]; subst.
      pose proof (body_nonempty e2 p Hp2). destruct (body e2 p); [congruence|reflexivity]. }
    rewrite trim_right_app; rewrite Ht; [reflexivity|discriminate].
Qed.

Lemma split_on_body p : forall e, Forall plain (e :: p) -> split_on c_slash (body e p) = map render (e :: p).
Proof.
  induction p as [|e2 p IH]; intros e H; inversion H as [|? ? [Hs Hne] H']; subst.
  - unfold body. cbn [str_path_elem map concat]. rewrite app_nil_r. apply split_on_single. exact Hs.
  - unfold body. rewrite str_path_elem_cons. fold (body e2 p).
    rewrite (split_on_token _ _ _ Hs), (IH _ H'). reflexivity.
Qed.

Lemma trim_left_body e p : plain e -> trim_left_slash (c_slash :: body e p) = body e p.
Proof.
  intros [Hs Hne]. cbn [trim_left_slash]. rewrite N.eqb_refl. unfold body.
  destruct (render e) as [|x r]; [congruence|].
  rewrite has_cons in Hs. apply orb_false_iff in Hs as [Hx _].
  cbn [app trim_left_slash]. rewrite Hx. reflexivity.
Qed.

Lemma create_update_roundtrip p :
  p <> [] -> wf_gpath p = true -> Forall (fun e => slash_free e = true /\ e_name e <> []) p ->
  create_update_path (str_path_elem p) = ROk p.
Proof.
  intros Hne Hwf Hsf. destruct p as [|e p]; [congruence|].
  assert (Hplain : Forall plain (e :: p)).
  { eapply Forall_impl; [|exact Hsf]. intros a [Ha Hn]. split; [apply slash_free_render; exact Ha|apply name_render_nonempty; exact Hn]. }
  unfold create_update_path, trim_slashes. rewrite str_path_elem_cons.
  inversion Hplain as [|? ? He _]; subst.
  rewrite (trim_left_body _ _ He), (trim_right_body _ _ Hplain), (split_on_body _ _ Hplain).
  apply parse_gnmi_elements_render. apply wf_gpath_parts. exact Hwf.
Qed.

(* ------------------------------------------------------ the accepted alphabet -- *)
Lemma ident_parts s :
  ident s = true ->
  s <> [] /\ has c_slash s = false /\ has c_lbr s = false /\ has c_rbr s = false /\ has c_eq s = false /\ has c_bslash s = false.
Proof.
  unfold ident. rewrite andb_true_iff, negb_true_iff, is_empty_false. intros [H1 H2].
  repeat split; try exact H1; eapply forallb_has; try exact H2; reflexivity.
Qed.

Lemma index_allowed_parts s : index_allowed s = true -> s <> [] /\ has c_slash s = false.
Proof.
  unfold index_allowed. rewrite andb_true_iff, negb_true_iff, is_empty_false. intros [H1 H2].
  split; [exact H1|]. eapply forallb_has; [exact H2|reflexivity].
Qed.

Lemma scan_open_inside closes s : (closes = false \/ has c_rbr s = false) -> scan_open closes true s = Some true.
Proof.
  induction s as [|x s IH]; intros H; [reflexivity|].
  assert (H' : closes = false \/ has c_rbr s = false).
  { destruct H as [H|H]; [left; exact H|right]. rewrite has_cons in H. apply orb_false_iff in H. tauto. }
  cbn [scan_open]. destruct (x =? c_lbr); [apply IH; exact H'|].
  destruct (x =? c_rbr) eqn:E.
  - destruct H as [->|H]; [apply IH; exact H'|]. rewrite has_cons, E in H. discriminate.
  - destruct (x =? c_slash); apply IH; exact H'.
Qed.

Lemma accepted_elem_parts e :
  accepted_elem e = true -> elem_ok true e = true /\ slash_free e = true /\ e_name e <> [].
Proof.
  unfold accepted_elem. rewrite !andb_true_iff. intros [[Hn Hk] Hs].
  apply ident_parts in Hn as (Hne & Hsl & Hlb & _).
  rewrite forallb_forall in Hk.
  split; [|split; [|exact Hne]].
  - unfold elem_ok. rewrite Hlb, Hs. cbn [negb andb].
    apply andb_true_iff. split; [|destruct (e_name e); [congruence|reflexivity]].
    rewrite andb_true_r. apply forallb_forall. intros [k v] Hin. specialize (Hk _ Hin). cbn [fst snd] in Hk.
    apply andb_true_iff in Hk as [Hik Hiv].
    apply ident_parts in Hik as (Hk1 & _ & _ & Hk4 & Hk5 & Hk6).
    apply index_allowed_parts in Hiv as (Hv1 & _).
    unfold key_ok, key_unsplit; cbn [fst snd]. rewrite Hk5, Hk6.
    rewrite (scan_open_inside true k (or_intror Hk4)), (scan_open_inside false v (or_introl eq_refl)).
    destruct k; [congruence|]. destruct v; [congruence|]. reflexivity.
  - unfold slash_free. rewrite Hsl. cbn [negb andb]. apply forallb_forall. intros [k v] Hin.
    specialize (Hk _ Hin). cbn [fst snd] in *. apply andb_true_iff in Hk as [Hik Hiv].
    apply ident_parts in Hik as (_ & Hk2 & _). apply index_allowed_parts in Hiv as (_ & Hv2).
    rewrite Hk2, Hv2. reflexivity.
Qed.

Lemma wf_of_elems p : p <> [] -> Forall (fun e => elem_ok true e = true) p -> wf_gpath p = true.
Proof.
  intros Hne H. induction H as [|e p He Hp IH]; [congruence|].
  destruct p as [|e2 p]; [exact He|].
  change (wf_gpath (e :: e2 :: p)) with (elem_ok false e && wf_gpath (e2 :: p)).
  rewrite (elem_ok_weaken _ He). apply IH. discriminate.
Qed.

Lemma accepted_parts p :
  accepted_gpath p = true ->
  p <> [] /\ wf_gpath p = true /\ Forall (fun e => slash_free e = true /\ e_name e <> []) p.
Proof.
  intros H. destruct p as [|e p]; [discriminate|].
  unfold accepted_gpath in H. rewrite forallb_forall in H.
  assert (HA : Forall (fun a => elem_ok true a = true /\ slash_free a = true /\ e_name a <> []) (e :: p)).
  { apply Forall_forall. intros a Ha. apply accepted_elem_parts. apply H. exact Ha. }
  split; [discriminate|]. split.
  - apply wf_of_elems; [discriminate|]. eapply Forall_impl; [|exact HA]. intros a Ha. apply Ha.
  - eapply Forall_impl; [|exact HA]. intros a Ha. split; apply Ha.
Qed.

(* the text the Set handler stores for prefix ++ path *)
Lemma set_path_text_app pre q : q <> [] -> set_path_text pre q = str_path_elem (pre ++ q).
Proof.
  intros Hq. destruct q as [|e q]; [congruence|].
  destruct pre as [|e0 pre]; [reflexivity|].
  unfold set_path_text. rewrite !str_path_nonempty, str_path_elem_app. reflexivity.
Qed.

Lemma accepted_end_to_end pre q :
  q <> [] -> accepted_gpath (pre ++ q) = true ->
  let stored := set_path_text pre q in
  wf_gpath (pre ++ q) = true /\
  parse_path stored = ROk (pre ++ q) /\
  create_update_path stored = ROk (pre ++ q).
Proof.
  intros Hq H. cbv zeta. rewrite (set_path_text_app _ _ Hq).
  destruct (accepted_parts _ H) as (Hne & Hwf & Hsf).
  repeat split; [exact Hwf|apply roundtrip_elem; exact Hwf|apply create_update_roundtrip; assumption].
Qed.

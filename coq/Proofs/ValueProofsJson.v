(* Proofs about Model/Value.v, part 3: decimal text reads back, JSON type and digits per kind and width *)
From Coq Require Import List NArith ZArith Bool Lia.
From OC Require Import Base.Bytes Model.Value Proofs.ValueProofs Proofs.ValueProofsLL.
Import ListNotations.
Open Scope N_scope.

(* ------------------------------------------------------------ digits *)
Fixpoint from_le10 (l : list N) : N :=
  match l with [] => 0 | d :: r => d + 10 * from_le10 r end.

Definition digit_char (d : N) : N := 48 + d.

Lemma is_digit_char d : d < 10 -> is_digit (digit_char d) = true.
Proof. unfold is_digit, digit_char. intros H. apply andb_true_iff. split; apply N.leb_le; lia. Qed.

Lemma read_acc_app a b acc :
  read_N_acc (a ++ b) acc = match read_N_acc a acc with Some x => read_N_acc b x | None => None end.
Proof.
  revert acc. induction a as [|c a IH]; intros acc; [reflexivity|].
  cbn [app read_N_acc]. destruct (is_digit c); [apply IH | reflexivity].
Qed.

Lemma read_acc_digits ds : forall acc,
  Forall (fun d => d < 10) ds ->
  read_N_acc (map digit_char (rev ds)) acc = Some (acc * 10 ^ N.of_nat (length ds) + from_le10 ds).
Proof.
  induction ds as [|d ds IH]; intros acc H.
  - cbn. f_equal. lia.
  - inversion H as [|? ? Hd Hds]; subst.
    cbn [rev]. rewrite map_app, read_acc_app, IH by exact Hds.
    cbn [map read_N_acc]. rewrite is_digit_char by exact Hd. f_equal.
    cbn [length from_le10]. rewrite Nat2N.inj_succ, N.pow_succ_r'. unfold digit_char. lia.
Qed.

Lemma le_digits_spec fuel : forall n, n < 10 ^ N.of_nat fuel ->
  from_le10 (le_digits fuel n) = n /\ Forall (fun d => d < 10) (le_digits fuel n).
Proof.
  induction fuel as [|f IH]; intros n Hn.
  - cbn in Hn. assert (n = 0) by lia. subst. split; [reflexivity | constructor].
  - cbn [le_digits]. destruct (n =? 0) eqn:E.
    + apply N.eqb_eq in E. subst. split; [reflexivity | constructor].
    + rewrite Nat2N.inj_succ, N.pow_succ_r' in Hn.
      destruct (IH (n / 10)) as [H1 H2]; [apply N.div_lt_upper_bound; lia|].
      split.
      * cbn [from_le10]. rewrite H1. pose proof (N.div_mod n 10). lia.
      * constructor; [apply N.mod_lt; lia | exact H2].
Qed.

Lemma le_digits_nonempty fuel n : n <> 0 -> (0 < fuel)%nat -> le_digits fuel n <> [].
Proof.
  intros Hn Hf. destruct fuel; [lia|]. cbn [le_digits].
  destruct (n =? 0) eqn:E; [apply N.eqb_eq in E; contradiction | discriminate].
Qed.

Definition ten20 : N := 100000000000000000000.

Lemma show_N_digits n : n < ten20 -> Forall (fun c => is_digit c = true) (show_N n).
Proof.
  intros Hn. unfold show_N. destruct (n =? 0); [repeat constructor|].
  destruct (le_digits_spec 20 n Hn) as [_ H]. fold digit_char.
  apply Forall_forall. intros c Hc. apply in_map_iff in Hc. destruct Hc as [d [<- Hd]].
  apply is_digit_char. apply in_rev in Hd. rewrite Forall_forall in H. apply H. exact Hd.
Qed.

Lemma read_show_N n : n < ten20 -> read_N (show_N n) = Some n.
Proof.
  intros Hn. unfold show_N. destruct (n =? 0) eqn:E.
  - apply N.eqb_eq in E. subst. reflexivity.
  - apply N.eqb_neq in E. destruct (le_digits_spec 20 n Hn) as [H1 H2].
    fold digit_char. unfold read_N.
    destruct (map digit_char (rev (le_digits 20 n))) eqn:Em.
    + exfalso. apply (le_digits_nonempty 20 n E); [lia|].
      apply map_eq_nil in Em. apply (f_equal (@rev N)) in Em. rewrite rev_involutive in Em. exact Em.
    + rewrite <- Em. rewrite read_acc_digits by exact H2. rewrite H1. f_equal; try lia.
Qed.

Lemma show_N_first n c r : n < ten20 -> show_N n = c :: r -> (c =? 45) = false.
Proof.
  intros Hn E. pose proof (show_N_digits n Hn) as H. rewrite E in H. inversion H as [|? ? Hc _]; subst.
  unfold is_digit in Hc. apply andb_true_iff in Hc. destruct Hc as [Hc _]. apply N.leb_le in Hc.
  apply N.eqb_neq. lia.
Qed.

Lemma show_N_nonempty n : show_N n <> [].
Proof.
  unfold show_N. destruct (n =? 0) eqn:E; [discriminate|]. apply N.eqb_neq in E.
  intros H. apply map_eq_nil in H. apply (f_equal (@rev N)) in H. rewrite rev_involutive in H.
  revert H. apply le_digits_nonempty; [exact E | lia].
Qed.

Lemma read_show_Z z : (Z.abs z < Z.of_N ten20)%Z -> read_Z (show_Z z) = Some z.
Proof.
  intros Hz. unfold show_Z. destruct (z <? 0)%Z eqn:E.
  - apply Z.ltb_lt in E. cbn [read_Z]. rewrite N.eqb_refl.
    rewrite read_show_N by (unfold ten20 in *; lia). cbn [option_map]. f_equal. lia.
  - apply Z.ltb_ge in E. unfold read_Z.
    destruct (show_N (Z.to_N z)) as [|c r] eqn:Es; [exfalso; revert Es; apply show_N_nonempty|].
    assert (Hb : Z.to_N z < ten20) by (unfold ten20 in *; lia).
    rewrite (show_N_first (Z.to_N z) c r Hb Es).
    rewrite <- Es. rewrite read_show_N by exact Hb. cbn [option_map]. f_equal. lia.
Qed.

Lemma int64_abs_bound v : int64_range v -> (Z.abs v < Z.of_N ten20)%Z.
Proof. unfold int64_range, ten20. lia. Qed.
Lemma uint64_abs_bound v : uint64_range v -> (Z.abs v < Z.of_N ten20)%Z.
Proof. unfold uint64_range, ten20. lia. Qed.

(* ------------------------------------------------------------ fixed-width fraction digits *)
Lemma le_fixed_spec p : forall n,
  from_le10 (le_fixed p n) = n mod 10 ^ N.of_nat p /\ Forall (fun d => d < 10) (le_fixed p n) /\ length (le_fixed p n) = p.
Proof.
  induction p as [|p IH]; intros n.
  - cbn. repeat split; [rewrite N.mod_1_r; reflexivity | constructor].
  - cbn [le_fixed from_le10 length]. destruct (IH (n / 10)) as [H1 [H2 H3]].
    repeat split.
    + rewrite H1. rewrite Nat2N.inj_succ, N.pow_succ_r'.
      rewrite N.mod_mul_r by (try apply N.pow_nonzero; lia). lia.
    + constructor; [apply N.mod_lt; lia | exact H2].
    + rewrite H3. reflexivity.
Qed.

Lemma fixed_digits_length p n : length (fixed_digits p n) = p.
Proof. unfold fixed_digits. rewrite map_length, rev_length. apply (le_fixed_spec p n). Qed.

Lemma fixed_digits_all p n : Forall (fun c => is_digit c = true) (fixed_digits p n).
Proof.
  unfold fixed_digits. fold digit_char. destruct (le_fixed_spec p n) as [_ [H _]].
  apply Forall_forall. intros c Hc. apply in_map_iff in Hc. destruct Hc as [d [<- Hd]].
  apply is_digit_char. apply in_rev in Hd. rewrite Forall_forall in H. apply H. exact Hd.
Qed.

Lemma read_fixed_digits p n : (0 < p)%nat -> read_N (fixed_digits p n) = Some (n mod 10 ^ N.of_nat p).
Proof.
  intros Hp. destruct (le_fixed_spec p n) as [H1 [H2 H3]].
  unfold read_N. destruct (fixed_digits p n) eqn:E.
  - pose proof (fixed_digits_length p n) as L. rewrite E in L. cbn in L. lia.
  - rewrite <- E. unfold fixed_digits. fold digit_char. rewrite read_acc_digits by exact H2.
    rewrite H1. f_equal; try lia.
Qed.

Lemma digits_no_char (s : str) c : Forall (fun x => is_digit x = true) s -> is_digit c = false -> ~ In c s.
Proof. intros H Hc Hin. rewrite Forall_forall in H. rewrite (H c Hin) in Hc. discriminate. Qed.

(* ------------------------------------------------------------ the repaired decimal text reads back *)
Lemma read_decimal_fixed d p :
  int64_range d -> (1 <= p)%Z ->
  read_decimal (str_decimal64_fixed d p) = Some (d, p).
Proof.
  intros Hd Hp. unfold str_decimal64_fixed.
  assert (E0 : (p =? 0)%Z = false) by (apply Z.eqb_neq; lia). rewrite E0.
  set (mag := Z.abs_N d). set (q := mag / 10 ^ Z.to_N p). set (pn := Z.to_nat p).
  assert (Hmag : mag < ten20) by (unfold mag, ten20; unfold int64_range in Hd; lia).
  assert (Hq : q < ten20) by (unfold q; eapply N.le_lt_trans; [apply N.div_le_upper_bound with (b := 10 ^ Z.to_N p)|exact Hmag];
                               [apply N.pow_nonzero; lia | ]; pose proof (N.pow_nonzero 10 (Z.to_N p)); nia).
  assert (Hpn : (0 < pn)%nat) by (unfold pn; lia).
  assert (Hbody : split_on 46 (show_N q ++ [46] ++ fixed_digits pn mag) = [show_N q; fixed_digits pn mag]).
  { cbn [app]. rewrite split_on_app_nosep by (apply digits_no_char; [apply show_N_digits; exact Hq | reflexivity]).
    rewrite split_on_nosep by (apply digits_no_char; [apply fixed_digits_all | reflexivity]). reflexivity. }
  assert (Hval : q * 10 ^ N.of_nat pn + mag mod 10 ^ N.of_nat pn = mag).
  { unfold q, pn. rewrite Z_nat_N. pose proof (N.div_mod mag (10 ^ Z.to_N p)) as D.
    pose proof (N.pow_nonzero 10 (Z.to_N p)). lia. }
  destruct (d <? 0)%Z eqn:En.
  - apply Z.ltb_lt in En. cbn [app]. unfold read_decimal. cbn [N.eqb Pos.eqb].
    change ((45 =? 45)) with true. cbv iota.
    change (show_N q ++ 46 :: fixed_digits pn mag) with (show_N q ++ [46] ++ fixed_digits pn mag).
    rewrite Hbody. rewrite read_show_N by exact Hq. rewrite read_fixed_digits by exact Hpn.
    rewrite fixed_digits_length, Hval. f_equal. f_equal; [unfold mag; lia | unfold zlen; rewrite fixed_digits_length; unfold pn; lia].
  - apply Z.ltb_ge in En. cbn [app]. unfold read_decimal.
    destruct (show_N q) as [|c r] eqn:Es; [exfalso; revert Es; apply show_N_nonempty|].
    cbn [app]. rewrite (show_N_first q c r Hq Es).
    change (c :: r ++ 46 :: fixed_digits pn mag) with ((c :: r) ++ [46] ++ fixed_digits pn mag).
    rewrite Hbody. rewrite <- Es. rewrite read_show_N by exact Hq. rewrite read_fixed_digits by exact Hpn.
    rewrite fixed_digits_length, Hval. f_equal. f_equal; [unfold mag; lia | unfold zlen; rewrite fixed_digits_length; unfold pn; lia].
Qed.

Open Scope Z_scope.

(* ------------------------------------------------------------ JSON leaf per kind and width *)
Definition std_width (w : Z) : Prop := w = 8 \/ w = 16 \/ w = 32 \/ w = 64.

Lemma wide_std w : std_width w -> wide true (wrap32 w) = (w =? 64).
Proof. intros [->|[->|[->| ->]]]; reflexivity. Qed.

Lemma json_int fx v w : int64_range v -> std_width w ->
  exists t, to_native fx (GInt v) (Some [w]) = Ok t /\
            json_leaf fx true t = Ok (Some (if w =? 64 then JStr (show_Z v) else JNum (show_Z v))) /\
            read_Z (show_Z v) = Some v.
Proof.
  intros Hv Hw. exists (new_int v w). split; [|split].
  - unfold to_native. cbn [opt0]. rewrite (wrap64_id v Hv).
    unfold new_int. f_equal. f_equal. f_equal. f_equal.
    destruct Hw as [->|[->|[->| ->]]]; reflexivity.
  - unfold json_leaf. cbn [tv_type new_int tv_opts]. rewrite tv_int_new_int by exact Hv.
    rewrite wide_std by exact Hw. reflexivity.
  - apply read_show_Z. apply int64_abs_bound. exact Hv.
Qed.

Lemma json_uint fx v w : uint64_range v -> std_width w ->
  exists t, to_native fx (GUint v) (Some [w]) = Ok t /\
            json_leaf fx true t = Ok (Some (if w =? 64 then JStr (show_Z v) else JNum (show_Z v))) /\
            read_Z (show_Z v) = Some v.
Proof.
  intros Hv Hw. exists (new_uint v w). split; [|split].
  - unfold to_native. cbn [opt0]. rewrite (u64_id v Hv).
    unfold new_uint. f_equal. f_equal. f_equal.
    destruct Hw as [->|[->|[->| ->]]]; reflexivity.
  - unfold json_leaf. cbn [tv_type new_uint tv_opts]. rewrite tv_uint_new_uint by exact Hv.
    rewrite wide_std by exact Hw. reflexivity.
  - apply read_show_Z. apply uint64_abs_bound. exact Hv.
Qed.

Lemma u8_std w : std_width w -> u8 w = w /\ (0 <? w) = true.
Proof. intros [->|[->|[->| ->]]]; split; reflexivity. Qed.

Lemma json_ll_int fx l w : l <> [] -> Forall int64_range l -> std_width w ->
  exists t, to_native fx (GLeafList (map GInt l)) (Some [w]) = Ok t /\
            json_leaf fx true t = Ok (Some (JArr (map (fun v => if w =? 64 then JStr (show_Z v) else JNum (show_Z v)) l))) /\
            Forall (fun v => read_Z (show_Z v) = Some v) l.
Proof.
  intros Hne Hl Hw. exists (new_ll_int l w). split; [|split].
  - unfold to_native. cbn [opt0]. destruct (u8_std w Hw) as [E1 E2]. rewrite E1.
    rewrite hll_int by exact Hne. unfold ll_width. rewrite E2. reflexivity.
  - unfold json_leaf, ll_int_list, new_ll_int. cbn [tv_type tv_opts tv_bytes].
    fold (signed_pairs l). fold (signed_bytes l). rewrite signed_loop_rt by exact Hl. cbn [bind fst snd].
    rewrite wide_std by exact Hw. reflexivity.
  - eapply Forall_impl; [|exact Hl]. intros v Hv. apply read_show_Z. apply int64_abs_bound. exact Hv.
Qed.

Lemma json_ll_uint fx l w : l <> [] -> Forall uint64_range l -> std_width w ->
  exists t, to_native fx (GLeafList (map GUint l)) (Some [w]) = Ok t /\
            json_leaf fx true t = Ok (Some (JArr (map (fun v => if w =? 64 then JStr (show_Z v) else JNum (show_Z v)) l))) /\
            Forall (fun v => read_Z (show_Z v) = Some v) l.
Proof.
  intros Hne Hl Hw. exists (new_ll_uint l w). split; [|split].
  - unfold to_native. cbn [opt0]. destruct (u8_std w Hw) as [E1 E2]. rewrite E1.
    rewrite hll_uint by exact Hne. unfold ll_width. rewrite E2. reflexivity.
  - unfold json_leaf, ll_uint_list, new_ll_uint. cbn [tv_type tv_opts tv_bytes].
    rewrite unsigned_loop_rt by exact Hl. cbn [bind fst snd].
    rewrite wide_std by exact Hw. reflexivity.
  - eapply Forall_impl; [|exact Hl]. intros v Hv. apply read_show_Z. apply uint64_abs_bound. exact Hv.
Qed.

(* strings, booleans, bytes: the JSON string / boolean / base64 string of the value itself *)
Lemma json_string fx rfc s o : exists t, to_native fx (GString s) o = Ok t /\ json_leaf fx rfc t = Ok (Some (JStr s)).
Proof. exists (new_string s). split; reflexivity. Qed.
Lemma json_bool fx rfc b o : exists t, to_native fx (GBool b) o = Ok t /\ json_leaf fx rfc t = Ok (Some (JBool b)).
Proof. exists (new_bool b). split; [reflexivity | destruct b; reflexivity]. Qed.
(* repaired code: always the base64 string; unrepaired: null for the empty value *)
Lemma json_bytes_fixed rfc b o : exists t, to_native true (GBytes b) o = Ok t /\ json_leaf true rfc t = Ok (Some (JB64 b)).
Proof. exists (new_bytes b). split; reflexivity. Qed.
Lemma json_bytes_partial rfc b o : b <> [] ->
  exists t, to_native false (GBytes b) o = Ok t /\ json_leaf false rfc t = Ok (Some (JB64 b)).
Proof. intros H. exists (new_bytes b). split; [reflexivity|]. destruct b; [contradiction | reflexivity]. Qed.
Lemma json_bytes_refuted : exists b o t, to_native false (GBytes b) o = Ok t /\ json_leaf false true t = Ok (Some JNull).
Proof. exists [], None, (new_bytes []). split; reflexivity. Qed.

(* decimal64: repaired code writes a string that reads back as the same digits and precision *)
Lemma json_decimal_fixed d p o : int64_range d -> 1 <= p <= 18 ->
  exists t, to_native true (GDecimal d p) o = Ok t /\
            json_leaf true true t = Ok (Some (JStr (str_decimal64_fixed d p))) /\
            read_decimal (str_decimal64_fixed d p) = Some (d, p).
Proof.
  intros Hd Hp. exists (new_decimal d p). split; [|split].
  - unfold to_native, prec_ok. cbn [negb orb].
    assert (E : (p <=? 18) = true) by (apply Z.leb_le; lia). rewrite E.
    rewrite (wrap64_id d Hd). assert (Hu : u8 p = p) by (unfold u8; apply Z.mod_small; lia). rewrite Hu. reflexivity.
  - unfold json_leaf. cbn [tv_type new_decimal]. rewrite tv_decimal_new_decimal by (assumption || lia). reflexivity.
  - apply read_decimal_fixed; [exact Hd | lia].
Qed.

Lemma json_ll_decimal_fixed l p o : l <> [] -> Forall int64_range l -> 1 <= p <= 18 ->
  exists t, to_native true (GLeafList (map (fun d => GDecimal d p) l)) o = Ok t /\
            json_leaf true true t = Ok (Some (JArr (map (fun d => JStr (str_decimal64_fixed d p)) l))) /\
            Forall (fun d => read_decimal (str_decimal64_fixed d p) = Some (d, p)) l.
Proof.
  intros Hne Hl Hp. exists (new_ll_decimal l p). split; [|split].
  - unfold to_native. rewrite hll_decimal; [|exact Hne|].
    + assert (Hu : u8 p = p) by (unfold u8; apply Z.mod_small; lia). rewrite Hu. reflexivity.
    + unfold prec_ok. cbn [negb orb]. apply Z.leb_le. lia.
  - unfold json_leaf, ll_decimal_list, new_ll_decimal. cbn [tv_type tv_opts tv_bytes].
    fold (signed_pairs l). fold (signed_bytes l). rewrite signed_loop_rt by exact Hl. cbn [bind fst snd andb].
    assert (Hu : u8 p = p) by (unfold u8; apply Z.mod_small; lia). rewrite Hu. reflexivity.
  - eapply Forall_impl; [|exact Hl]. intros d Hd. apply read_decimal_fixed; [exact Hd | lia].
Qed.

(* refutations on the unrepaired code *)
Lemma json_decimal_sign_refuted :
  exists d p s, int64_range d /\ 1 <= p <= 18 /\
    json_leaf false true (new_decimal d p) = Ok (Some (JStr s)) /\ read_decimal s <> Some (d, p).
Proof.
  exists (-5), 1, (B "0.5"). split; [unfold int64_range; lia|]. split; [lia|]. split; [reflexivity|].
  vm_compute. discriminate.
Qed.

Lemma json_ll_decimal_refuted :
  json_leaf false true (new_ll_decimal [15] 1) = Ok (Some (JArr [JDivFloat 15 1])).
Proof. reflexivity. Qed.

Lemma json_decimal_panic_refuted : json_leaf false true (new_decimal 5 64) = Panic.
Proof. vm_compute. reflexivity. Qed.

Lemma strval_decimal_refuted :
  str_decimal64_utils false (-5) 1 = Ok (B "0.5") /\ str_decimal64_utils false 105 2 = Ok (B "1.5").
Proof. split; vm_compute; reflexivity. Qed.

Lemma strval_decimal_fixed d p : int64_range d -> 1 <= p ->
  exists s, str_decimal64_utils true d p = Ok s /\ read_decimal s = Some (d, p).
Proof.
  intros Hd Hp. exists (str_decimal64_fixed d p). split.
  - unfold str_decimal64_utils. assert (E : (p =? 0) = false) by (apply Z.eqb_neq; lia). rewrite E. reflexivity.
  - apply read_decimal_fixed; assumption.
Qed.

(* float32: RFC 7951 rendering is the "%f" text (six fraction digits) - the digits are outside the model *)
Lemma json_float fx b : json_leaf fx true (new_float b) = Ok (Some (JFloatF (tv_float (new_float b)))).
Proof. reflexivity. Qed.

(* ------------------------------------------------------------ the hypotheses are satisfiable (non-trivial inputs) *)
Example ex_int64_extremes : int64_rangeb (-9223372036854775808) = true /\ int64_rangeb 9223372036854775807 = true.
Proof. split; reflexivity. Qed.
Example ex_uint64_extreme : uint64_rangeb 18446744073709551615 = true.
Proof. reflexivity. Qed.
Example ex_journey_int64_min : journey false (GInt (-9223372036854775808)) (Some [64]) = Ok (GInt (-9223372036854775808)).
Proof. vm_compute. reflexivity. Qed.
Example ex_journey_ll_bytes_leading_empty :
  journey false (GLeafList [GBytes []; GBytes [1; 2]%N; GBytes [3]%N]) None = Ok (GLeafList [GBytes []; GBytes [1; 2]%N; GBytes [3]%N]).
Proof. vm_compute. reflexivity. Qed.
Example ex_json_int64_string :
  json_leaf false true (new_int 9223372036854775807 64) = Ok (Some (JStr (B "9223372036854775807"))).
Proof. vm_compute. reflexivity. Qed.
Example ex_json_int32_number : json_leaf false true (new_int (-2147483648) 32) = Ok (Some (JNum (B "-2147483648"))).
Proof. vm_compute. reflexivity. Qed.
Example ex_decimal_fixed_text : str_decimal64_fixed (-5) 1 = B "-0.5" /\ str_decimal64_fixed 105 2 = B "1.05".
Proof. split; vm_compute; reflexivity. Qed.

(* C11 - a device refusing a change fails that change only, and only real refusals.
   Single-step facts about the apply branch of the proposal reconciler (Model/Proto2.v rec_prop), the
   classification table, the transaction reconciler's report and the frame property of rec_prop
   (an invocation for (t,i) never writes a record of another target).
   The characterisation [rec_prop_send] (what the reconciler does once every guard before the device
   request is passed) is reused by Proofs/P2_Crash.v. *)
From stdpp Require Import gmap.
From RecordUpdate Require Import RecordUpdate.
From Coq Require Import NArith Lia.
From OC Require Import Model.Proto2 Proofs.P2Base Proofs.P2Phases.
Open Scope N_scope.

(** * The classification table (no section parameters) *)
Definition transient (c : code) : Prop :=
  c = CUnavailable \/ c = CCanceled \/ c = CDeadlineExceeded \/ c = CPermissionDenied.

(* which codes a refusing device can answer that end in which failure type *)
Definition fail_table (c : code) : option ftype :=
  match c with
  | COk => None                                     (* not an error: the switch is not reached *)
  | CUnavailable | CCanceled | CDeadlineExceeded => None      (* retried *)
  | CPermissionDenied => None                       (* waited out *)
  | CNotFound => Some FNotFound
  | CAlreadyExists => Some FAlreadyExists
  | CUnauthenticated => Some FUnauthorized
  | CFailedPrecondition => Some FConflict
  | CInvalidArgument => Some FInvalid
  | CUnimplemented => Some FNotSupported
  | CInternal => Some FInternal
  | CUnknownC | CResourceExhausted | CAborted | COutOfRange | CDataLoss => Some FUnknown
  end.

Lemma classes_retry (c : code) :
  classify (observed c) = ClsRetry <-> c = CUnavailable \/ c = CCanceled \/ c = CDeadlineExceeded.
Proof.
  split.
  - destruct c; cbn; intros H; try discriminate H; auto.
  - intros [->|[->| ->]]; reflexivity.
Qed.

Lemma classes_wait (c : code) : classify (observed c) = ClsWait <-> c = CPermissionDenied.
Proof.
  split.
  - destruct c; cbn; intros H; try discriminate H; auto.
  - intros ->; reflexivity.
Qed.

Lemma classes_fail (c : code) (f : ftype) :
  c <> COk -> (classify (observed c) = ClsFail f <-> fail_table c = Some f).
Proof.
  intros Hc. destruct c; cbn; try (exfalso; apply Hc; reflexivity);
    split; intros H; try discriminate H; try (injection H as <-; reflexivity).
Qed.

Lemma classes_transient (c : code) :
  (classify (observed c) = ClsRetry \/ classify (observed c) = ClsWait) <-> transient c.
Proof.
  unfold transient. rewrite classes_retry, classes_wait. tauto.
Qed.

Lemma transient_not_ok (c : code) : transient c -> c <> COk.
Proof. intros [->|[->|[->| ->]]]; discriminate. Qed.

(* never FCanceled / FForbidden / FUnavailable / FTimeout: those arms of the inner switch are dead *)
Lemma classes_dead_arms (c : code) (f : ftype) :
  classify (observed c) = ClsFail f -> f <> FCanceled /\ f <> FForbidden /\ f <> FUnavailable /\ f <> FTimeout.
Proof. destruct c; cbn; intros H; try discriminate H; injection H as <-; repeat split; discriminate. Qed.

Section Failure.
  Context {V Ch Req D : Type}.
  Context (candidate : V -> Ch -> V) (candidate_rb : V -> Ch -> V) (rollback_of : V -> Ch -> Ch)
          (overlay : V -> V -> V) (commit_merge : N -> N -> V -> V -> Ch -> V)
          (payload : N -> V -> Ch -> option Req) (record_applied : N -> V -> V -> V -> Ch -> V)
          (touched : N -> V -> Ch -> V) (restore : V -> V -> V)
          (resync_payload : V -> list (option Req)) (doc_ok : V -> bool)
          (dev_apply : D -> Req -> D) (stamp : N -> Ch -> Ch) (v_empty : V) (d_empty : D) (ch_empty : Ch).

  Notation world := (@world V Ch Req D).
  Notation eff := (@eff V Ch Req).
  Notation txn := (@txn Ch).
  Notation prop := (@prop Ch).
  Notation config := (@config V).
  Notation apply_eff := (@apply_eff V Ch Req D dev_apply d_empty).
  Notation rec_tx := (@rec_tx V Ch Req D stamp).
  Notation rec_prop := (@rec_prop V Ch Req D candidate candidate_rb rollback_of overlay commit_merge payload record_applied
                                  touched restore doc_ok v_empty d_empty ch_empty).
  Notation reconcile := (@reconcile V Ch Req D candidate candidate_rb rollback_of overlay commit_merge payload record_applied
                                    touched restore resync_payload doc_ok stamp v_empty d_empty ch_empty).
  Notation step := (@step V Ch Req D candidate candidate_rb rollback_of overlay commit_merge payload record_applied
                          touched restore resync_payload doc_ok dev_apply stamp v_empty d_empty ch_empty).
  Notation reach := (@reach V Ch Req D candidate candidate_rb rollback_of overlay commit_merge payload record_applied
                            touched restore resync_payload doc_ok dev_apply stamp v_empty d_empty ch_empty).
  Notation view := (@view V overlay).
  Notation aview := (@aview V overlay).
  Notation dev_answer := (@dev_answer V Ch Req D d_empty).
  Notation dev_of := (@dev_of V Ch Req D d_empty).
  Notation rb_change := (@rb_change Ch ch_empty).

  (** * Frame lemma for the devices *)
  Lemma devs_apply_eff (w : world) (e : eff) :
    devs (apply_eff w e) =
    match e with
    | EDev (DevSet t c term o r COk) =>
      <[t := mkDev (dev_apply (d_state (dev_of w t)) r) (N.max (d_max (dev_of w t)) term)]> (devs w)
    | _ => devs w
    end.
  Proof.
    destruct e as [| | | | | | | | | [t c term o r a]]; cbn; try reflexivity;
      repeat match goal with |- context [match ?x with _ => _ end] => destruct x end; reflexivity.
  Qed.

  (* a device event that was not answered OK leaves every device as it was *)
  Lemma refused_leaves_devices (w : world) t c term o r a :
    a <> COk -> devs (apply_eff w (EDev (DevSet t c term o r a))) = devs w.
  Proof. intros Ha. rewrite devs_apply_eff. destruct a; try reflexivity. exfalso; apply Ha; reflexivity. Qed.

  (* a device event touches no store *)
  Lemma dev_event_stores (w : world) ev :
    txs (apply_eff w (EDev ev)) = txs w /\ props (apply_eff w (EDev ev)) = props w /\
    cfgs (apply_eff w (EDev ev)) = cfgs w /\ targets (apply_eff w (EDev ev)) = targets w /\
    rels (apply_eff w (EDev ev)) = rels w /\ conns (apply_eff w (EDev ev)) = conns w.
  Proof.
    rewrite txs_apply_eff, props_apply_eff, cfgs_apply_eff, targets_apply_eff, rels_apply_eff, conns_apply_eff.
    repeat split.
  Qed.

  (** * The apply branch up to the device request *)
  (* every guard of reconcileApply before the SetRequest is sent is passed: the proposal (t,i) is APPLYING,
     not yet covered by the applied index, its predecessor is applied, the configuration is not synchronizing
     and in the current term, this node is the master and holds the connection, and the request can be built *)
  Record sendable (w : world) (t i : N) (P : prop) (C : config) (m : N) (req : Req) : Prop := {
    sd_prop : props w !! (t, i) = Some P;
    sd_applying : p_apply P = Some Doing;
    sd_cfg : cfgs w !! t = Some C;
    sd_not_applied : c_applied C < i;
    sd_prev_applied : p_prev P = 0 \/ c_applied C = p_prev P;
    sd_not_syncing : c_state C <> CSynchronizing;
    sd_target : is_Some (targets w !! t);
    sd_term : c_term C <= c_aterm C;
    sd_master : c_master C = Some m;
    sd_rel : exists tt, rels w !! m = Some (tt, true);
    sd_conn : is_Some (conns w !! m);
    sd_payload : payload i (view C) (rb_change P) = Some req }.

  (* what the invocation does after the device answered [a] *)
  Definition after_answer (t i : N) (P : prop) (C : config) (m : N) (req : Req) (a : code) : list eff * result :=
    let ch := rb_change P in
    let ev := EDev (DevSet t m (c_term C) (Some i) req a) in
    match a with
    | COk =>
      ([ev; EPutAValues t (record_applied i (c_avalues C) (aview C) (view C) ch);
        EPutCfg t (C <| c_applied := i |> <| c_inline := touched i (view C) ch |> <| c_ainline := v_empty |>);
        EPutProp (t, i) (P <| p_apply := Some Done |> <| p_term := c_term C |>)], RDone)
    | _ =>
      match classify (observed a) with
      | ClsRetry => ([ev], RRetry)
      | ClsWait => ([ev], RDone)
      | ClsFail f =>
        ([ev; EPutAValues t (restore (c_avalues C) (aview C));
          EPutCfg t (C <| c_applied := i |> <| c_inline := touched i (view C) ch |> <| c_ainline := v_empty |>);
          EPutProp (t, i) (P <| p_apply := Some Failed |> <| p_afail := Some f |> <| p_term := c_term C |>)], RDone)
      end
    end.

  Lemma rec_prop_send (o : oracle) (w : world) t i P C m req :
    sendable w t i P C m req ->
    rec_prop o w (t, i) = after_answer t i P C m req (dev_answer w t (c_term C) o).
  Proof.
    intros [HP Ha HC Hna Hprev Hsync Htg Hterm Hm [tt Hrel] Hconn Hpay].
    unfold Proto2.rec_prop, after_answer. rewrite HP, Ha, HC.
    replace (i <=? c_applied C) with false by (symmetry; apply N.leb_gt; exact Hna).
    replace (negb (p_prev P =? 0) && negb (c_applied C =? p_prev P)) with false.
    2:{ symmetry. destruct Hprev as [H0|H0]; [rewrite H0; reflexivity|].
        rewrite H0, N.eqb_refl. cbn. apply andb_false_r. }
    rewrite bool_decide_eq_false_2 by exact Hsync.
    destruct Htg as [pers Htg]. rewrite Htg. cbn [is_none].
    replace (c_aterm C <? c_term C) with false by (symmetry; apply N.ltb_ge; exact Hterm).
    rewrite Hm, Hrel. destruct Hconn as [cc Hconn]. rewrite Hconn, Hpay.
    destruct (dev_answer w t (c_term C) o); reflexivity.
  Qed.

  (* sendability depends on the stores only: a world with the same stores is as sendable *)
  Lemma sendable_stores (w w' : world) t i P C m req :
    props w' = props w -> cfgs w' = cfgs w -> targets w' = targets w -> rels w' = rels w -> conns w' = conns w ->
    sendable w t i P C m req -> sendable w' t i P C m req.
  Proof.
    intros Hp Hc Ht Hr Hn [H1 H2 H3 H4 H5 H6 H7 H8 H9 H10 H11 H12].
    split; rewrite ?Hp, ?Hc, ?Ht, ?Hr, ?Hn; assumption.
  Qed.

  (** * Transient answers: nothing is stored, the change stays pending, a later OK applies it *)
  Lemma transient_effects (o : oracle) (w : world) t i P C m req :
    sendable w t i P C m req ->
    transient (dev_answer w t (c_term C) o) ->
    rec_prop o w (t, i) =
      ([EDev (DevSet t m (c_term C) (Some i) req (dev_answer w t (c_term C) o))],
       if bool_decide (dev_answer w t (c_term C) o = CPermissionDenied) then RDone else RRetry).
  Proof.
    intros Hs Ht. rewrite (rec_prop_send o w t i P C m req Hs). unfold after_answer.
    destruct Ht as [->|[->|[->| ->]]]; reflexivity.
  Qed.

  (* the world after any prefix of a transient invocation: only the device log may have grown *)
  Lemma transient_world (o : oracle) (w : world) t i P C m req (k : nat) :
    sendable w t i P C m req ->
    transient (dev_answer w t (c_term C) o) ->
    let w' := step w (LRec (CtlProp (t, i)) k o) in
    txs w' = txs w /\ props w' = props w /\ cfgs w' = cfgs w /\ devs w' = devs w /\
    targets w' = targets w /\ rels w' = rels w /\ conns w' = conns w /\
    sendable w' t i P C m req.
  Proof.
    intros Hs Ht. cbn [Proto2.step Proto2.reconcile]. rewrite (transient_effects o w t i P C m req Hs Ht). cbn [fst].
    destruct k as [|k]; [cbn; repeat (split; [reflexivity|]); exact Hs|].
    replace (firstn (S k) [_]) with [EDev (DevSet t m (c_term C) (Some i) req (dev_answer w t (c_term C) o)) : eff]
      by (destruct k; reflexivity).
    cbn [fold_left].
    destruct (dev_event_stores w (DevSet t m (c_term C) (Some i) req (dev_answer w t (c_term C) o)))
      as (E1 & E2 & E3 & E4 & E5 & E6).
    pose proof (refused_leaves_devices w t m (c_term C) (Some i) req _ (transient_not_ok _ Ht)) as E7.
    repeat (split; [assumption|]).
    eapply sendable_stores; [..|exact Hs]; assumption.
  Qed.

  (* the same invocation, once the device answers OK, applies the change *)
  Lemma ok_effects (o : oracle) (w : world) t i P C m req :
    sendable w t i P C m req ->
    dev_answer w t (c_term C) o = COk ->
    rec_prop o w (t, i) =
      ([EDev (DevSet t m (c_term C) (Some i) req COk);
        EPutAValues t (record_applied i (c_avalues C) (aview C) (view C) (rb_change P));
        EPutCfg t (C <| c_applied := i |> <| c_inline := touched i (view C) (rb_change P) |> <| c_ainline := v_empty |>);
        EPutProp (t, i) (P <| p_apply := Some Done |> <| p_term := c_term C |>)], RDone).
  Proof.
    intros Hs Ha. rewrite (rec_prop_send o w t i P C m req Hs), Ha. reflexivity.
  Qed.

  (* the world after the four effects of an apply (successful or refused) *)
  Lemma apply_world (w : world) t i (P P' : prop) (C : config) ev va inl :
    props w !! (t, i) = Some P -> cfgs w !! t = Some C ->
    let w' := fold_left apply_eff
                [EDev ev; EPutAValues t va;
                 EPutCfg t (C <| c_applied := i |> <| c_inline := inl |> <| c_ainline := v_empty |>);
                 EPutProp (t, i) P'] w in
    props w' = <[(t, i) := P']> (props w) /\
    cfgs w' = <[t := C <| c_applied := i |> <| c_inline := inl |> <| c_ainline := v_empty |> <| c_avalues := va |>]> (cfgs w) /\
    txs w' = txs w.
  Proof.
    intros HP HC. cbn [fold_left].
    rewrite props_apply_eff, cfgs_apply_eff, txs_apply_eff.
    rewrite !props_apply_eff, !cfgs_apply_eff, !txs_apply_eff.
    rewrite HC, lookup_insert, insert_insert. cbn. repeat split.
  Qed.

  Lemma ok_world (o : oracle) (w : world) t i P C m req (k : nat) :
    sendable w t i P C m req ->
    dev_answer w t (c_term C) o = COk ->
    (4 <= k)%nat ->
    let w' := step w (LRec (CtlProp (t, i)) k o) in
    (exists P', props w' !! (t, i) = Some P' /\ p_apply P' = Some Done /\ p_afail P' = p_afail P) /\
    (exists C', cfgs w' !! t = Some C' /\ c_applied C' = i) /\
    devs w' !! t = Some (mkDev (dev_apply (d_state (dev_of w t)) req) (N.max (d_max (dev_of w t)) (c_term C))).
  Proof.
    intros Hs Ha Hk. cbn [Proto2.step Proto2.reconcile]. rewrite (ok_effects o w t i P C m req Hs Ha). cbn [fst].
    rewrite firstn_all2 by (cbn; lia).
    destruct (apply_world w t i P (P <| p_apply := Some Done |> <| p_term := c_term C |>) C
                (DevSet t m (c_term C) (Some i) req COk)
                (record_applied i (c_avalues C) (aview C) (view C) (rb_change P))
                (touched i (view C) (rb_change P)) (sd_prop _ _ _ _ _ _ _ Hs) (sd_cfg _ _ _ _ _ _ _ Hs)) as (E1 & E2 & E3).
    split; [|split].
    - eexists. rewrite E1, lookup_insert. split; [reflexivity|]. split; reflexivity.
    - eexists. rewrite E2, lookup_insert. split; reflexivity.
    - cbn [fold_left]. rewrite !devs_apply_eff. apply lookup_insert.
  Qed.

  (** * Real refusals *)
  Lemma refusal_effects (o : oracle) (w : world) t i P C m req f :
    sendable w t i P C m req ->
    dev_answer w t (c_term C) o <> COk ->
    classify (observed (dev_answer w t (c_term C) o)) = ClsFail f ->
    rec_prop o w (t, i) =
      ([EDev (DevSet t m (c_term C) (Some i) req (dev_answer w t (c_term C) o));
        EPutAValues t (restore (c_avalues C) (aview C));
        EPutCfg t (C <| c_applied := i |> <| c_inline := touched i (view C) (rb_change P) |> <| c_ainline := v_empty |>);
        EPutProp (t, i) (P <| p_apply := Some Failed |> <| p_afail := Some f |> <| p_term := c_term C |>)], RDone).
  Proof.
    intros Hs Hne Hc. rewrite (rec_prop_send o w t i P C m req Hs). unfold after_answer. rewrite Hc.
    destruct (dev_answer w t (c_term C) o); try reflexivity. exfalso; apply Hne; reflexivity.
  Qed.

  Lemma refusal_world (o : oracle) (w : world) t i P C m req f (k : nat) :
    sendable w t i P C m req ->
    dev_answer w t (c_term C) o <> COk ->
    classify (observed (dev_answer w t (c_term C) o)) = ClsFail f ->
    (4 <= k)%nat ->
    let w' := step w (LRec (CtlProp (t, i)) k o) in
    (exists P', props w' !! (t, i) = Some P' /\ p_apply P' = Some Failed /\ p_afail P' = Some f /\ p_term P' = c_term C) /\
    (exists C', cfgs w' !! t = Some C' /\ c_applied C' = i /\ c_committed C' = c_committed C /\ c_index C' = c_index C /\
                c_values C' = c_values C) /\
    devs w' = devs w /\ txs w' = txs w.
  Proof.
    intros Hs Hne Hc Hk. cbn [Proto2.step Proto2.reconcile]. rewrite (refusal_effects o w t i P C m req f Hs Hne Hc). cbn [fst].
    rewrite firstn_all2 by (cbn; lia).
    destruct (apply_world w t i P (P <| p_apply := Some Failed |> <| p_afail := Some f |> <| p_term := c_term C |>) C
                (DevSet t m (c_term C) (Some i) req (dev_answer w t (c_term C) o))
                (restore (c_avalues C) (aview C))
                (touched i (view C) (rb_change P)) (sd_prop _ _ _ _ _ _ _ Hs) (sd_cfg _ _ _ _ _ _ _ Hs)) as (E1 & E2 & E3).
    split; [|split; [|split]].
    - eexists. rewrite E1, lookup_insert. split; [reflexivity|]. repeat split; reflexivity.
    - eexists. rewrite E2, lookup_insert. split; [reflexivity|]. repeat split; reflexivity.
    - cbn [fold_left]. rewrite !devs_apply_eff. destruct (dev_answer w t (c_term C) o); try reflexivity.
      exfalso; apply Hne; reflexivity.
    - exact E3.
  Qed.
End Failure.

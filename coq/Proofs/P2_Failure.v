(* C11 - a device refusing a change fails that change only, and only real refusals.
   Single-step facts about the apply branch of the proposal reconciler (Model/Proto2.v rec_prop), the
   classification table, the transaction reconciler's report and the frame property of rec_prop
   (an invocation for (t,i) never writes a record of another target).
   The characterisation [rec_prop_send] (what the reconciler does once every guard before the device
   request is passed) is reused by Proofs/P2_Crash.v. *)
From stdpp Require Import gmap.
From RecordUpdate Require Import RecordUpdate.
From Coq Require Import NArith Lia String.
From OC Require Import Base.Bytes Model.P2Pure Model.Proto2 Model.P2Inst Proofs.P2Base Proofs.P2Phases.
Open Scope N_scope.

(** * The classification table (no section parameters) *)
Definition transient (c : code) : Prop :=
  c = CUnavailable \/ c = CCanceled \/ c = CDeadlineExceeded \/ c = CPermissionDenied.

(* which codes a refusing device can answer that end in which failure type *)
Definition fail_table (c : code) : option ftype :=
  match c with
  | COk => None                                     (* not an error: the switch is not reached *)
  | CUnavailable | CCanceled | CDeadlineExceeded => None      (* retried *)
  | CPermissionDenied => None                       (* waited out *)
  | CNotFound => Some FNotFound
  | CAlreadyExists => Some FAlreadyExists
  | CUnauthenticated => Some FUnauthorized
  | CFailedPrecondition => Some FConflict
  | CInvalidArgument => Some FInvalid
  | CUnimplemented => Some FNotSupported
  | CInternal => Some FInternal
  | CUnknownC | CResourceExhausted | CAborted | COutOfRange | CDataLoss => Some FUnknown
  end.

Lemma classes_retry (c : code) :
  classify (observed c) = ClsRetry <-> c = CUnavailable \/ c = CCanceled \/ c = CDeadlineExceeded.
Proof.
  split.
  - destruct c; cbn; intros H; try discriminate H; auto.
  - intros [->|[->| ->]]; reflexivity.
Qed.

Lemma classes_wait (c : code) : classify (observed c) = ClsWait <-> c = CPermissionDenied.
Proof.
  split.
  - destruct c; cbn; intros H; try discriminate H; auto.
  - intros ->; reflexivity.
Qed.

Lemma classes_fail (c : code) (f : ftype) :
  c <> COk -> (classify (observed c) = ClsFail f <-> fail_table c = Some f).
Proof.
  intros Hc. destruct c; cbn; try (exfalso; apply Hc; reflexivity);
    split; intros H; try discriminate H; try (injection H as <-; reflexivity).
Qed.

Lemma classes_transient (c : code) :
  (classify (observed c) = ClsRetry \/ classify (observed c) = ClsWait) <-> transient c.
Proof.
  unfold transient. rewrite classes_retry, classes_wait. tauto.
Qed.

Lemma transient_not_ok (c : code) : transient c -> c <> COk.
Proof. intros [->|[->|[->| ->]]]; discriminate. Qed.

(* never FCanceled / FForbidden / FUnavailable / FTimeout: those arms of the inner switch are dead *)
Lemma classes_dead_arms (c : code) (f : ftype) :
  classify (observed c) = ClsFail f -> f <> FCanceled /\ f <> FForbidden /\ f <> FUnavailable /\ f <> FTimeout.
Proof. destruct c; cbn; intros H; try discriminate H; injection H as <-; repeat split; discriminate. Qed.

Section Failure.
  Context {V Ch Req D : Type}.
  Context (candidate : V -> Ch -> V) (candidate_rb : V -> Ch -> V) (rollback_of : V -> Ch -> Ch)
          (overlay : V -> V -> V) (commit_merge : N -> N -> V -> V -> Ch -> V)
          (payload : N -> V -> Ch -> option Req) (record_applied : N -> N -> V -> V -> V -> Ch -> V)
          (touched : N -> V -> Ch -> V) (restore : V -> V -> V)
          (resync_payload : V -> list (option Req)) (doc_ok : V -> bool)
          (dev_apply : D -> Req -> D) (stamp : N -> Ch -> Ch) (v_empty : V) (d_empty : D) (ch_empty : Ch).

  Notation world := (@world V Ch Req D).
  Notation eff := (@eff V Ch Req).
  Notation txn := (@txn Ch).
  Notation prop := (@prop Ch).
  Notation config := (@config V).
  Notation apply_eff := (@apply_eff V Ch Req D dev_apply d_empty).
  Notation rec_tx := (@rec_tx V Ch Req D stamp).
  Notation rec_prop := (@rec_prop V Ch Req D candidate candidate_rb rollback_of overlay commit_merge payload record_applied
                                  touched restore doc_ok v_empty d_empty ch_empty).
  Notation reconcile := (@reconcile V Ch Req D candidate candidate_rb rollback_of overlay commit_merge payload record_applied
                                    touched restore resync_payload doc_ok stamp v_empty d_empty ch_empty).
  Notation step := (@step V Ch Req D candidate candidate_rb rollback_of overlay commit_merge payload record_applied
                          touched restore resync_payload doc_ok dev_apply stamp v_empty d_empty ch_empty).
  Notation reach := (@reach V Ch Req D candidate candidate_rb rollback_of overlay commit_merge payload record_applied
                            touched restore resync_payload doc_ok dev_apply stamp v_empty d_empty ch_empty).
  Notation view := (@view V overlay).
  Notation aview := (@aview V overlay).
  Notation dev_answer := (@dev_answer V Ch Req D d_empty).
  Notation dev_of := (@dev_of V Ch Req D d_empty).
  Notation rb_change := (@rb_change Ch ch_empty).

  (** * Frame lemma for the devices *)
  Lemma devs_apply_eff (w : world) (e : eff) :
    devs (apply_eff w e) =
    match e with
    | EDev (DevSet t c term o r COk) =>
      <[t := mkDev (dev_apply (d_state (dev_of w t)) r) (N.max (d_max (dev_of w t)) term)]> (devs w)
    | _ => devs w
    end.
  Proof.
    destruct e as [| | | | | | | | | [t c term o r a]]; cbn; try reflexivity;
      repeat match goal with |- context [match ?x with _ => _ end] => destruct x end; reflexivity.
  Qed.

  (* a device event that was not answered OK leaves every device as it was *)
  Lemma refused_leaves_devices (w : world) t c term o r a :
    a <> COk -> devs (apply_eff w (EDev (DevSet t c term o r a))) = devs w.
  Proof. intros Ha. rewrite devs_apply_eff. destruct a; try reflexivity. exfalso; apply Ha; reflexivity. Qed.

  (* a device event touches no store *)
  Lemma dev_event_stores (w : world) ev :
    txs (apply_eff w (EDev ev)) = txs w /\ props (apply_eff w (EDev ev)) = props w /\
    cfgs (apply_eff w (EDev ev)) = cfgs w /\ targets (apply_eff w (EDev ev)) = targets w /\
    rels (apply_eff w (EDev ev)) = rels w /\ conns (apply_eff w (EDev ev)) = conns w.
  Proof.
    rewrite txs_apply_eff, props_apply_eff, cfgs_apply_eff, targets_apply_eff, rels_apply_eff, conns_apply_eff.
    repeat split.
  Qed.

  (** * The apply branch up to the device request *)
  (* every guard of reconcileApply before the SetRequest is sent is passed: the proposal (t,i) is APPLYING,
     not yet covered by the applied index, its predecessor is applied, the configuration is not synchronizing
     and in the current term, this node is the master and holds the connection, and the request can be built *)
  Record sendable (w : world) (t i : N) (P : prop) (C : config) (m : N) (req : Req) : Prop := {
    sd_prop : props w !! (t, i) = Some P;
    sd_applying : p_apply P = Some Doing;
    sd_cfg : cfgs w !! t = Some C;
    sd_not_applied : c_applied C < i;
    sd_prev_applied : p_prev P = 0 \/ c_applied C = p_prev P;
    sd_not_syncing : c_state C <> CSynchronizing;
    sd_target : is_Some (targets w !! t);
    sd_term : c_term C <= c_aterm C;
    sd_master : c_master C = Some m;
    sd_rel : exists tt, rels w !! m = Some (tt, true);
    sd_conn : is_Some (conns w !! m);
    sd_payload : payload i (view C) (rb_change P) = Some req }.

  (* what the invocation does after the device answered [a] *)
  Definition after_answer (ord : N) (t i : N) (P : prop) (C : config) (m : N) (req : Req) (a : code) : list eff * result :=
    let ch := rb_change P in
    let ev := EDev (DevSet t m (c_term C) (Some i) req a) in
    match a with
    | COk =>
      ([ev; EPutAValues t (record_applied ord i (c_avalues C) (aview C) (view C) ch);
        EPutCfg t (C <| c_applied := i |> <| c_inline := touched i (view C) ch |> <| c_ainline := v_empty |>);
        EPutProp (t, i) (P <| p_apply := Some Done |> <| p_term := c_term C |>)], requeue_next t P)
    | _ =>
      match classify (observed a) with
      | ClsRetry => ([ev], RRetry)
      | ClsWait => ([ev], RDone)
      | ClsFail f =>
        ([ev; EPutProp (t, i) (P <| p_apply := Some Failed |> <| p_afail := Some f |> <| p_term := c_term C |>);
          EPutAValues t (restore (c_avalues C) (aview C));
          EPutCfg t (C <| c_applied := i |> <| c_inline := touched i (view C) ch |> <| c_ainline := v_empty |>)],
         requeue_next t P)
      end
    end.

  Lemma rec_prop_send (o : oracle) (w : world) t i P C m req :
    sendable w t i P C m req ->
    rec_prop o w (t, i) = after_answer (o_order o) t i P C m req (dev_answer w t (c_term C) o).
  Proof.
    intros [HP Ha HC Hna Hprev Hsync Htg Hterm Hm [tt Hrel] Hconn Hpay].
    unfold Proto2.rec_prop, after_answer. rewrite HP, Ha, HC.
    replace (i <=? c_applied C) with false by (symmetry; apply N.leb_gt; exact Hna).
    replace (negb (p_prev P =? 0) && negb (c_applied C =? p_prev P)) with false.
    2:{ symmetry. destruct Hprev as [H0|H0]; [rewrite H0; reflexivity|].
        rewrite H0, N.eqb_refl. cbn. apply andb_false_r. }
    rewrite bool_decide_eq_false_2 by exact Hsync.
    destruct Htg as [pers Htg]. rewrite Htg. cbn [is_none].
    replace (c_aterm C <? c_term C) with false by (symmetry; apply N.ltb_ge; exact Hterm).
    rewrite Hm, Hrel. destruct Hconn as [cc Hconn]. rewrite Hconn, Hpay.
    destruct (dev_answer w t (c_term C) o); reflexivity.
  Qed.

  (* sendability depends on the stores only: a world with the same stores is as sendable *)
  Lemma sendable_stores (w w' : world) t i P C m req :
    props w' = props w -> cfgs w' = cfgs w -> targets w' = targets w -> rels w' = rels w -> conns w' = conns w ->
    sendable w t i P C m req -> sendable w' t i P C m req.
  Proof.
    intros Hp Hc Ht Hr Hn [H1 H2 H3 H4 H5 H6 H7 H8 H9 H10 H11 H12].
    split; rewrite ?Hp, ?Hc, ?Ht, ?Hr, ?Hn; assumption.
  Qed.

  (** * Transient answers: nothing is stored, the change stays pending, a later OK applies it *)
  Lemma transient_effects (o : oracle) (w : world) t i P C m req :
    sendable w t i P C m req ->
    transient (dev_answer w t (c_term C) o) ->
    rec_prop o w (t, i) =
      ([EDev (DevSet t m (c_term C) (Some i) req (dev_answer w t (c_term C) o))],
       if bool_decide (dev_answer w t (c_term C) o = CPermissionDenied) then RDone else RRetry).
  Proof.
    intros Hs Ht. rewrite (rec_prop_send o w t i P C m req Hs). unfold after_answer.
    destruct Ht as [->|[->|[->| ->]]]; reflexivity.
  Qed.

  (* the world after any prefix of a transient invocation: only the device log may have grown *)
  Lemma transient_world (o : oracle) (w : world) t i P C m req (k : nat) :
    sendable w t i P C m req ->
    transient (dev_answer w t (c_term C) o) ->
    let w' := step w (LRec (CtlProp (t, i)) k o) in
    txs w' = txs w /\ props w' = props w /\ cfgs w' = cfgs w /\ devs w' = devs w /\
    targets w' = targets w /\ rels w' = rels w /\ conns w' = conns w /\
    sendable w' t i P C m req.
  Proof.
    intros Hs Ht. cbn [Proto2.step Proto2.reconcile]. rewrite (transient_effects o w t i P C m req Hs Ht). cbn [fst].
    destruct k as [|k]; [cbn; repeat (split; [reflexivity|]); exact Hs|].
    replace (firstn (S k) [_]) with [EDev (DevSet t m (c_term C) (Some i) req (dev_answer w t (c_term C) o)) : eff]
      by (destruct k; reflexivity).
    cbn [fold_left].
    destruct (dev_event_stores w (DevSet t m (c_term C) (Some i) req (dev_answer w t (c_term C) o)))
      as (E1 & E2 & E3 & E4 & E5 & E6).
    pose proof (refused_leaves_devices w t m (c_term C) (Some i) req _ (transient_not_ok _ Ht)) as E7.
    repeat (split; [assumption|]).
    eapply sendable_stores; [..|exact Hs]; assumption.
  Qed.

  (* the same invocation, once the device answers OK, applies the change *)
  Lemma ok_effects (o : oracle) (w : world) t i P C m req :
    sendable w t i P C m req ->
    dev_answer w t (c_term C) o = COk ->
    rec_prop o w (t, i) =
      ([EDev (DevSet t m (c_term C) (Some i) req COk);
        EPutAValues t (record_applied (o_order o) i (c_avalues C) (aview C) (view C) (rb_change P));
        EPutCfg t (C <| c_applied := i |> <| c_inline := touched i (view C) (rb_change P) |> <| c_ainline := v_empty |>);
        EPutProp (t, i) (P <| p_apply := Some Done |> <| p_term := c_term C |>)], requeue_next t P).
  Proof.
    intros Hs Ha. rewrite (rec_prop_send o w t i P C m req Hs), Ha. reflexivity.
  Qed.

  (* the world after the four effects of an apply (successful or refused) *)
  Lemma apply_world (w : world) t i (P P' : prop) (C : config) ev va inl :
    props w !! (t, i) = Some P -> cfgs w !! t = Some C ->
    let w' := fold_left apply_eff
                [EDev ev; EPutAValues t va;
                 EPutCfg t (C <| c_applied := i |> <| c_inline := inl |> <| c_ainline := v_empty |>);
                 EPutProp (t, i) P'] w in
    props w' = <[(t, i) := P']> (props w) /\
    cfgs w' = <[t := C <| c_applied := i |> <| c_inline := inl |> <| c_ainline := v_empty |> <| c_avalues := va |>]> (cfgs w) /\
    txs w' = txs w.
  Proof.
    intros HP HC. cbn [fold_left].
    rewrite props_apply_eff, cfgs_apply_eff, txs_apply_eff.
    rewrite !props_apply_eff, !cfgs_apply_eff, !txs_apply_eff.
    rewrite HC, lookup_insert, insert_insert. cbn. repeat split.
  Qed.

  (* the same for the order of a refused apply: the proposal is written first *)
  Lemma refused_world (w : world) t i (P P' : prop) (C : config) ev va inl :
    props w !! (t, i) = Some P -> cfgs w !! t = Some C ->
    let w' := fold_left apply_eff
                [EDev ev; EPutProp (t, i) P'; EPutAValues t va;
                 EPutCfg t (C <| c_applied := i |> <| c_inline := inl |> <| c_ainline := v_empty |>)] w in
    props w' = <[(t, i) := P']> (props w) /\
    cfgs w' = <[t := C <| c_applied := i |> <| c_inline := inl |> <| c_ainline := v_empty |> <| c_avalues := va |>]> (cfgs w) /\
    txs w' = txs w.
  Proof.
    intros HP HC. cbn [fold_left].
    rewrite props_apply_eff, cfgs_apply_eff, txs_apply_eff.
    rewrite !props_apply_eff, !cfgs_apply_eff, !txs_apply_eff.
    rewrite HC, lookup_insert, insert_insert. cbn. repeat split.
  Qed.

  Lemma ok_world (o : oracle) (w : world) t i P C m req (k : nat) :
    sendable w t i P C m req ->
    dev_answer w t (c_term C) o = COk ->
    (4 <= k)%nat ->
    let w' := step w (LRec (CtlProp (t, i)) k o) in
    (exists P', props w' !! (t, i) = Some P' /\ p_apply P' = Some Done /\ p_afail P' = p_afail P) /\
    (exists C', cfgs w' !! t = Some C' /\ c_applied C' = i) /\
    devs w' !! t = Some (mkDev (dev_apply (d_state (dev_of w t)) req) (N.max (d_max (dev_of w t)) (c_term C))).
  Proof.
    intros Hs Ha Hk. cbn [Proto2.step Proto2.reconcile]. rewrite (ok_effects o w t i P C m req Hs Ha). cbn [fst].
    rewrite firstn_all2 by (cbn; lia).
    destruct (apply_world w t i P (P <| p_apply := Some Done |> <| p_term := c_term C |>) C
                (DevSet t m (c_term C) (Some i) req COk)
                (record_applied (o_order o) i (c_avalues C) (aview C) (view C) (rb_change P))
                (touched i (view C) (rb_change P)) (sd_prop _ _ _ _ _ _ _ Hs) (sd_cfg _ _ _ _ _ _ _ Hs)) as (E1 & E2 & E3).
    split; [|split].
    - eexists. rewrite E1, lookup_insert. split; [reflexivity|]. split; reflexivity.
    - eexists. rewrite E2, lookup_insert. split; reflexivity.
    - cbn [fold_left]. rewrite !devs_apply_eff. apply lookup_insert.
  Qed.

  (** * Real refusals *)
  Lemma refusal_effects (o : oracle) (w : world) t i P C m req f :
    sendable w t i P C m req ->
    dev_answer w t (c_term C) o <> COk ->
    classify (observed (dev_answer w t (c_term C) o)) = ClsFail f ->
    rec_prop o w (t, i) =
      ([EDev (DevSet t m (c_term C) (Some i) req (dev_answer w t (c_term C) o));
        EPutProp (t, i) (P <| p_apply := Some Failed |> <| p_afail := Some f |> <| p_term := c_term C |>);
        EPutAValues t (restore (c_avalues C) (aview C));
        EPutCfg t (C <| c_applied := i |> <| c_inline := touched i (view C) (rb_change P) |> <| c_ainline := v_empty |>)],
       requeue_next t P).
  Proof.
    intros Hs Hne Hc. rewrite (rec_prop_send o w t i P C m req Hs). unfold after_answer. rewrite Hc.
    destruct (dev_answer w t (c_term C) o); try reflexivity. exfalso; apply Hne; reflexivity.
  Qed.

  Lemma refusal_world (o : oracle) (w : world) t i P C m req f (k : nat) :
    sendable w t i P C m req ->
    dev_answer w t (c_term C) o <> COk ->
    classify (observed (dev_answer w t (c_term C) o)) = ClsFail f ->
    (4 <= k)%nat ->
    let w' := step w (LRec (CtlProp (t, i)) k o) in
    (exists P', props w' !! (t, i) = Some P' /\ p_apply P' = Some Failed /\ p_afail P' = Some f /\ p_term P' = c_term C) /\
    (exists C', cfgs w' !! t = Some C' /\ c_applied C' = i /\ c_committed C' = c_committed C /\ c_index C' = c_index C /\
                c_values C' = c_values C) /\
    devs w' = devs w /\ txs w' = txs w.
  Proof.
    intros Hs Hne Hc Hk. cbn [Proto2.step Proto2.reconcile]. rewrite (refusal_effects o w t i P C m req f Hs Hne Hc). cbn [fst].
    rewrite firstn_all2 by (cbn; lia).
    destruct (refused_world w t i P (P <| p_apply := Some Failed |> <| p_afail := Some f |> <| p_term := c_term C |>) C
                (DevSet t m (c_term C) (Some i) req (dev_answer w t (c_term C) o))
                (restore (c_avalues C) (aview C))
                (touched i (view C) (rb_change P)) (sd_prop _ _ _ _ _ _ _ Hs) (sd_cfg _ _ _ _ _ _ _ Hs)) as (E1 & E2 & E3).
    split; [|split; [|split]].
    - eexists. rewrite E1, lookup_insert. split; [reflexivity|]. repeat split; reflexivity.
    - eexists. rewrite E2, lookup_insert. split; [reflexivity|]. repeat split; reflexivity.
    - cbn [fold_left]. rewrite !devs_apply_eff. destruct (dev_answer w t (c_term C) o); try reflexivity.
      exfalso; apply Hne; reflexivity.
    - exact E3.
  Qed.

  (** * The transaction reconciler reports the failure class *)
  Lemma scan_props_found (w : world) i tg (f : prop -> bool) :
    (forall t, In t tg -> is_Some (props w !! (t, i))) ->
    (exists t p, In t tg /\ props w !! (t, i) = Some p /\ f p = true) ->
    exists t p, In t tg /\ props w !! (t, i) = Some p /\ f p = true /\ scan_props w i tg f = Some (inr (t, p)).
  Proof.
    induction tg as [|t0 ts IH]; intros Hall (t & p & Hin & Hp & Hf); [destruct Hin|].
    cbn [scan_props]. destruct (Hall t0 (or_introl eq_refl)) as [p0 Hp0]. rewrite Hp0.
    destruct (f p0) eqn:Hf0.
    - exists t0, p0. repeat split; auto. left; reflexivity.
    - destruct Hin as [<-|Hin]; [rewrite Hp0 in Hp; injection Hp as <-; rewrite Hf in Hf0; discriminate|].
      destruct IH as (t1 & p1 & Hin1 & Hp1 & Hf1 & Hs1).
      + intros t' Ht'. apply Hall. right; exact Ht'.
      + exists t, p. auto.
      + exists t1, p1. repeat split; auto. right; exact Hin1.
  Qed.

  Lemma scan_props_none (w : world) i tg (f : prop -> bool) :
    (forall t, In t tg -> exists p, props w !! (t, i) = Some p /\ f p = false) -> scan_props w i tg f = None.
  Proof.
    induction tg as [|t0 ts IH]; intros Hall; [reflexivity|]. cbn [scan_props].
    destruct (Hall t0 (or_introl eq_refl)) as (p0 & Hp0 & Hf0). rewrite Hp0, Hf0. apply IH.
    intros t' Ht'. apply Hall. right; exact Ht'.
  Qed.

  (* the transaction is APPLYING, every proposal has entered its Apply phase and one of them FAILED:
     the transaction is written FAILED with the failure of (the first, in scan order) failed proposal *)
  Lemma tx_reports_failure (w : world) i (T : txn) tg :
    txs w !! i = Some T -> t_apply T = Some Doing -> t_props T = Some tg ->
    (forall t, In t tg -> exists p, props w !! (t, i) = Some p /\ is_Some (p_apply p)) ->
    (exists t p, In t tg /\ props w !! (t, i) = Some p /\ p_apply p = Some Failed) ->
    exists t p, In t tg /\ props w !! (t, i) = Some p /\ p_apply p = Some Failed /\
      rec_tx w i = ([EPutTx i (T <| t_state := TFailed |> <| t_failure := p_afail p |> <| t_apply := Some Failed |>)], RDone).
  Proof.
    intros HT Ha Hp Hall (t & p & Hin & Hpp & Hf).
    unfold Proto2.rec_tx. rewrite HT. cbv zeta. rewrite Ha, Hp. cbn [default]. unfold id.
    rewrite (scan_props_none w i tg (fun p => is_none (p_apply p))).
    2:{ intros t' Ht'. destruct (Hall t' Ht') as (p' & Hp' & [a' Hs']). exists p'. split; [exact Hp'|]. rewrite Hs'. reflexivity. }
    unfold phase_scan.
    match goal with |- context [scan_props w i tg ?f] =>
      destruct (scan_props_found w i tg f) as (t1 & p1 & Hin1 & Hp1 & Hf1 & Hs1) end.
    - intros t' Ht'. destruct (Hall t' Ht') as (p' & Hp' & _). eexists; exact Hp'.
    - exists t, p. repeat split; auto. rewrite Hf. cbn. rewrite bool_decide_eq_true_2 by reflexivity. reflexivity.
    - rewrite Hs1. destruct (Hall t1 Hin1) as (p1' & Hp1' & [a Hs]). rewrite Hp1 in Hp1'. injection Hp1' as <-.
      rewrite Hs in Hf1 |- *. cbn in Hf1 |- *. apply bool_decide_eq_true_1 in Hf1.
      exists t1, p1. repeat split; auto. rewrite Hs. exact Hf1.
  Qed.

  (* single target: the class recorded by the proposal is the class reported by the transaction *)
  Lemma tx_reports_failure_single (w : world) i (T : txn) t (P : prop) f :
    txs w !! i = Some T -> t_apply T = Some Doing -> t_props T = Some [t] ->
    props w !! (t, i) = Some P -> p_apply P = Some Failed -> p_afail P = Some f ->
    rec_tx w i = ([EPutTx i (T <| t_state := TFailed |> <| t_failure := Some f |> <| t_apply := Some Failed |>)], RDone).
  Proof.
    intros HT Ha Hp HP Hf Haf.
    destruct (tx_reports_failure w i T [t] HT Ha Hp) as (t1 & p1 & Hin & Hp1 & _ & Hr).
    - intros t' [<-|[]]. exists P. split; [exact HP|]. rewrite Hf. eexists; reflexivity.
    - exists t, P. repeat split; auto. left; reflexivity.
    - destruct Hin as [<-|[]]. rewrite HP in Hp1. injection Hp1 as <-. rewrite Hr, Haf. reflexivity.
  Qed.

  (** * The successor is not blocked *)
  (* the applied index equals the successor's PrevIndex: whatever else holds, the successor's invocation does not
     take the "wait for the predecessor" exit (no effect, requeue of the predecessor) *)
  Lemma successor_gate_open (o : oracle) (w : world) t j (Q : prop) (C : config) :
    props w !! (t, j) = Some Q -> p_apply Q = Some Doing -> cfgs w !! t = Some C ->
    c_applied C = p_prev Q ->
    rec_prop o w (t, j) <> ([], RRequeueProp (t, p_prev Q)).
  Proof.
    intros HQ Ha HC Hc. unfold Proto2.rec_prop. rewrite HQ, Ha, HC, Hc, N.eqb_refl.
    replace (negb (p_prev Q =? 0) && negb true) with false by (symmetry; apply andb_false_r).
    unfold requeue_next. destruct_matches; discriminate.
  Qed.

  (* after a refused apply of (t,i) the successor (PrevIndex = i) that is APPLYING is sendable as soon as its own
     request can be built: the refused change does not hold it back *)
  Lemma successor_sendable (o : oracle) (w : world) t i P C m req f (k : nat) j (Q : prop) req' :
    sendable w t i P C m req ->
    dev_answer w t (c_term C) o <> COk ->
    classify (observed (dev_answer w t (c_term C) o)) = ClsFail f ->
    (4 <= k)%nat ->
    let w' := step w (LRec (CtlProp (t, i)) k o) in
    let C' := C <| c_applied := i |> <| c_inline := touched i (view C) (rb_change P) |> <| c_ainline := v_empty |>
                <| c_avalues := restore (c_avalues C) (aview C) |> in
    props w' !! (t, j) = Some Q -> p_apply Q = Some Doing -> p_prev Q = i -> i < j ->
    payload j (view C') (rb_change Q) = Some req' ->
    sendable w' t j Q C' m req'.
  Proof.
    intros Hs Hne Hc Hk w' C' HQ Ha Hprev Hij Hpay.
    subst w'. cbn [Proto2.step Proto2.reconcile] in *. rewrite (refusal_effects o w t i P C m req f Hs Hne Hc) in *. cbn [fst] in *.
    rewrite firstn_all2 in * by (cbn; lia).
    destruct (refused_world w t i P (P <| p_apply := Some Failed |> <| p_afail := Some f |> <| p_term := c_term C |>) C
                (DevSet t m (c_term C) (Some i) req (dev_answer w t (c_term C) o))
                (restore (c_avalues C) (aview C))
                (touched i (view C) (rb_change P)) (sd_prop _ _ _ _ _ _ _ Hs) (sd_cfg _ _ _ _ _ _ _ Hs)) as (E1 & E2 & E3).
    destruct Hs as [H1 H2 H3 H4 H5 H6 H7 H8 H9 H10 H11 H12].
    split.
    - exact HQ.
    - exact Ha.
    - rewrite E2, lookup_insert. reflexivity.
    - cbn. exact Hij.
    - right. cbn. symmetry. exact Hprev.
    - cbn. exact H6.
    - cbn [fold_left]. rewrite !targets_apply_eff. exact H7.
    - cbn. exact H8.
    - cbn. exact H9.
    - cbn [fold_left]. rewrite !rels_apply_eff. exact H10.
    - cbn [fold_left]. rewrite !conns_apply_eff. exact H11.
    - exact Hpay.
  Qed.

  (** * An invocation for (t,i) never writes a record of another target *)
  Definition on_target (t : N) (e : eff) : Prop :=
    match e with
    | EPutProp k _ => k.1 = t
    | ECreateCfg t' _ | EPutCfg t' _ | EPutValues t' _ | EPutAValues t' _ => t' = t
    | EDev (DevSet t' _ _ _ _ _) => t' = t
    | EPutTx _ _ | ECreateProp _ _ | ERelCreate _ _ | ERelDelete _ => False
    end.

  Ltac on_target_tac :=
    repeat first [ apply List.Forall_nil | apply List.Forall_cons; [reflexivity|] ].

  Lemma rec_prop_on_target (o : oracle) (w : world) t i : Forall (on_target t) (fst (rec_prop o w (t, i))).
  Proof.
    unfold Proto2.rec_prop, Proto2.vfail, Proto2.upd_status.
    destruct (props w !! (t, i)) as [P|] eqn:HP; [|apply List.Forall_nil].
    destruct_matches; cbn [fst app]; on_target_tac.
    match goal with H : _ = Some ?e |- Forall _ [?e] =>
      repeat match type of H with context [match ?x with _ => _ end] => destruct x eqn:? end;
      try discriminate H; injection H as <-; on_target_tac
    end.
  Qed.

  (* what an effect on target t leaves alone *)
  Definition same_elsewhere (t : N) (w w' : world) : Prop :=
    txs w' = txs w /\ targets w' = targets w /\ rels w' = rels w /\ conns w' = conns w /\
    next_index w' = next_index w /\
    (forall t' j, t' <> t -> props w' !! (t', j) = props w !! (t', j)) /\
    (forall t', t' <> t -> cfgs w' !! t' = cfgs w !! t') /\
    (forall t', t' <> t -> devs w' !! t' = devs w !! t').

  Lemma same_elsewhere_refl t (w : world) : same_elsewhere t w w.
  Proof. repeat split. Qed.

  Lemma same_elsewhere_trans t (w1 w2 w3 : world) :
    same_elsewhere t w1 w2 -> same_elsewhere t w2 w3 -> same_elsewhere t w1 w3.
  Proof.
    intros (A1 & A2 & A3 & A4 & A5 & A6 & A7 & A8) (B1 & B2 & B3 & B4 & B5 & B6 & B7 & B8).
    repeat split; try congruence.
    - intros t' j Hn. rewrite B6, A6 by exact Hn. reflexivity.
    - intros t' Hn. rewrite B7, A7 by exact Hn. reflexivity.
    - intros t' Hn. rewrite B8, A8 by exact Hn. reflexivity.
  Qed.

  Lemma on_target_eff t (w : world) e : on_target t e -> same_elsewhere t w (apply_eff w e).
  Proof.
    intros He. unfold same_elsewhere.
    rewrite txs_apply_eff, targets_apply_eff, rels_apply_eff, conns_apply_eff, next_index_apply_eff,
      props_apply_eff, cfgs_apply_eff, devs_apply_eff.
    destruct e as [| |[t1 j1] p| t1 c| t1 c| t1 v| t1 v| | | [t1 c term o r a]]; cbn in He; try (exfalso; exact He); subst t;
      repeat split; try reflexivity.
    - intros t' j Hn. rewrite lookup_insert_ne; [reflexivity|]. intros [= -> _]. apply Hn; reflexivity.
    - intros t' Hn. destruct (cfgs w !! t1); try reflexivity; (rewrite lookup_insert_ne; [reflexivity|]); intros ->; apply Hn; reflexivity.
    - intros t' Hn. destruct (cfgs w !! t1); try reflexivity; (rewrite lookup_insert_ne; [reflexivity|]); intros ->; apply Hn; reflexivity.
    - intros t' Hn. destruct (cfgs w !! t1); try reflexivity; (rewrite lookup_insert_ne; [reflexivity|]); intros ->; apply Hn; reflexivity.
    - intros t' Hn. destruct (cfgs w !! t1); try reflexivity; (rewrite lookup_insert_ne; [reflexivity|]); intros ->; apply Hn; reflexivity.
    - intros t' Hn. destruct a; try reflexivity. rewrite lookup_insert_ne; [reflexivity|]. intros ->; apply Hn; reflexivity.
  Qed.

  Lemma on_target_effs t (effs : list eff) : forall w : world,
    Forall (on_target t) effs -> same_elsewhere t w (fold_left apply_eff effs w).
  Proof.
    induction effs as [|e r IH]; intros w Hf; [apply same_elsewhere_refl|].
    inversion Hf as [|? ? He Hr]; subst. cbn [fold_left].
    eapply same_elsewhere_trans; [apply on_target_eff; exact He|apply IH; exact Hr].
  Qed.

  (* every prefix of an invocation of the proposal reconciler for (t,i) leaves all other targets' proposals,
     configurations and devices, and every transaction, exactly as they were *)
  Lemma rec_prop_frame (o : oracle) (w : world) t i (k : nat) :
    same_elsewhere t w (step w (LRec (CtlProp (t, i)) k o)).
  Proof.
    cbn [Proto2.step Proto2.reconcile]. apply on_target_effs. apply Forall_take. apply rec_prop_on_target.
  Qed.
End Failure.

(** * The hypotheses of the lemmas above are satisfiable: a reachable world of the executable instance Model/P2Inst.v *)
Definition x_oracle (a : code) : oracle := mkOracle true true a 0 0.
(* one round: connection, mastership, configuration controllers of target t, then the proposal and the transaction
   controllers of the listed indexes, every invocation run to its end *)
Definition x_round (o : oracle) (t : N) (is : list N) : list Label :=
  [LRec (CtlConn 10) 9 o; LRec (CtlMaster t) 9 o; LRec (CtlCfg t) 9 o]
  ++ map (fun i => LRec (CtlProp (t, i)) 9 o) is ++ map (fun i => LRec (CtlTx i) 9 o) is.
Fixpoint x_rounds (n : nat) (o : oracle) (t : N) (is : list N) : list Label :=
  match n with O => [] | S n => x_round o t is ++ x_rounds n o t is end.
Definition x_ch (p v : string) : cmap := [(B p, mkPV (B p) (B v) false 0)].
Definition x_run (ls : list Label) : Wd := fold_left p2_step ls p2_init.
Definition x_sendable := @sendable cmap cmap req dstate overlay payload nil.

Lemma x_run_reach ls :
  reach candidate candidate_rb rollback_of overlay commit_merge payload record_applied touched restore resync_payload doc_ok
        dev_apply stamp nil nil nil (x_run ls).
Proof. exists ls. reflexivity. Qed.

(* two changes on target 1 while the device is unreachable: change 1 stays APPLYING and sendable (17 requests were
   answered Unavailable), change 2 is APPLYING behind it *)
Definition x_labels : list Label :=
  [LTarget 1 false; LConnUp 10 1; LChange [(1, x_ch "/a" "1")] true false; LChange [(1, x_ch "/b" "2")] true false]
  ++ x_rounds 30 (x_oracle CUnavailable) 1 [1; 2].
Definition x_w : Wd := x_run x_labels.
(* the refusing invocation, run to its end *)
Definition x_w_refused : Wd := p2_step x_w (LRec (CtlProp (1, 1)) 4 (x_oracle CInvalidArgument)).

Ltac x_sendable_tac :=
  split;
  [ vm_compute; reflexivity | vm_compute; reflexivity | vm_compute; reflexivity | vm_compute; reflexivity
  | first [ left; vm_compute; reflexivity | right; vm_compute; reflexivity ]
  | vm_compute; discriminate | vm_compute; eexists; reflexivity | vm_compute; discriminate
  | vm_compute; reflexivity | vm_compute; eexists; reflexivity | vm_compute; eexists; reflexivity
  | vm_compute; reflexivity ].

Example x_sendable_world : exists P C r, x_sendable x_w 1 1 P C 10 r /\ List.length (devlog x_w) = 17%nat.
Proof. eexists _, _, _. split; [x_sendable_tac|vm_compute; reflexivity]. Qed.

Example x_transient_hyps : exists P C r,
  x_sendable x_w 1 1 P C 10 r /\ transient (dev_answer (nil : dstate) x_w 1 (c_term C) (x_oracle CDeadlineExceeded)).
Proof. eexists _, _, _. split; [x_sendable_tac|]. right; right; left. vm_compute. reflexivity. Qed.

Example x_ok_hyps : exists P C r,
  x_sendable x_w 1 1 P C 10 r /\ dev_answer (nil : dstate) x_w 1 (c_term C) (x_oracle COk) = COk.
Proof. eexists _, _, _. split; [x_sendable_tac|]. vm_compute. reflexivity. Qed.

Example x_refusal_hyps : exists P C r,
  x_sendable x_w 1 1 P C 10 r /\
  dev_answer (nil : dstate) x_w 1 (c_term C) (x_oracle CInvalidArgument) <> COk /\
  classify (observed (dev_answer (nil : dstate) x_w 1 (c_term C) (x_oracle CInvalidArgument))) = ClsFail FInvalid.
Proof. eexists _, _, _. split; [x_sendable_tac|]. split; vm_compute; [discriminate|reflexivity]. Qed.

(* after the refusal: the transaction reconciler's hypotheses, and the successor's *)
Example x_tx_reports_hyps : exists T P',
  txs x_w_refused !! 1 = Some T /\ t_apply T = Some Doing /\ t_props T = Some [1] /\
  props x_w_refused !! (1, 1) = Some P' /\ p_apply P' = Some Failed /\ p_afail P' = Some FInvalid.
Proof. eexists _, _. repeat (split; [vm_compute; reflexivity|]). vm_compute; reflexivity. Qed.

Example x_successor_hyps : exists Q C',
  props x_w_refused !! (1, 2) = Some Q /\ p_apply Q = Some Doing /\ cfgs x_w_refused !! 1 = Some C' /\
  c_applied C' = p_prev Q /\ p_prev Q = 1 /\ 1 < 2 /\
  is_Some (payload 2 (view overlay C') (rb_change nil Q)).
Proof. eexists _, _. repeat (split; [vm_compute; reflexivity|]). vm_compute. eexists; reflexivity. Qed.

Example x_successor_sendable : exists Q C' r', x_sendable x_w_refused 1 2 Q C' 10 r'.
Proof. eexists _, _, _. x_sendable_tac. Qed.

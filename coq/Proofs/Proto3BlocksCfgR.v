(* Proto3BlocksCfgR: the Committed-cursor write that completes a rollback commit and the Applied-cursor writes of applyRollback preserve FInv (second layer of the frontier invariant, Proto3BlocksBase). *)
From Coq Require Import List NArith Bool Arith Lia.
From OC Require Import Model.Proto3 Spec.Tla3 Proofs.Proto3Proofs Proofs.Proto3OrderBase Proofs.Proto3BlocksBase.
Import ListNotations.
Open Scope N_scope.

Lemma F_cfg_R2 g n cm ap i t :
  SInv g n cm ap -> FInv g cm ap -> g i = Some t ->
  rc t = 1 ->
  k_revision cm = i ->
  FInv g 
    {| k_index := i; k_ordinal := k_ordinal cm + 1; k_revision := t_ridx t; k_target := k_target cm; k_change := k_change cm |} ap.
Proof.
  intros HS HF Hi G1 G2.
  finv_by prj HS HF g idtac.
Qed.

Lemma F_cfg_AR1 g n cm ap i t :
  SInv g n cm ap -> FInv g cm ap -> g i = Some t ->
  rc t = 2 ->
  ra t = 0 ->
  k_ordinal ap + 1 = t_rord t ->
  ca t <> 0 ->
  ca t <> 1 ->
  (ca t = 3 \/ ca t = 5 -> t_cord t <= k_ordinal ap) ->
  FInv g cm 
    {| k_index := k_index ap; k_ordinal := k_ordinal ap; k_revision := k_revision ap; k_target := t_ridx t; k_change := k_change ap |}.
Proof.
  intros HS HF Hi G1 G2 G3 G4 G5 G6.
  finv_by prj HS HF g idtac.
Qed.

Lemma F_cfg_AR3 g n cm ap i t :
  SInv g n cm ap -> FInv g cm ap -> g i = Some t ->
  rc t = 2 ->
  ra t = 1 ->
  FInv g cm 
    {| k_index := i; k_ordinal := t_rord t; k_revision := k_revision ap; k_target := k_target ap; k_change := k_change ap |}.
Proof.
  intros HS HF Hi G1 G2.
  finv_by prj HS HF g idtac.
Qed.

Lemma F_cfg_AR4 g n cm ap i t :
  SInv g n cm ap -> FInv g cm ap -> g i = Some t ->
  rc t = 2 ->
  ra t = 1 ->
  FInv g cm 
    {| k_index := i; k_ordinal := t_rord t; k_revision := t_ridx t; k_target := k_target ap; k_change := k_change ap |}.
Proof.
  intros HS HF Hi G1 G2.
  finv_by prj HS HF g idtac.
Qed.

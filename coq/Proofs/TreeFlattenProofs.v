(* Flattening the rendered document gives back the leaves of the trie: the live valued leaves and, per list
   entry, its key leaves (unless an explicit leaf restates the key). *)
From Coq Require Import List Arith NArith ZArith Bool Lia Permutation.
From OC Require Import Base.Bytes Model.Tree Model.TreeSpec Proofs.TreeBuildProofs.
Import ListNotations.
Open Scope N_scope.

Section Flat.
  Context (rfc : bool) (ks : list str -> list str).

  (* leaves contributed by one member of a map at schema path sp *)
  Definition ML (sp : list str) (kc : str * node) : list (fpath * gov) :=
    let (k, c) := kc in
    match c with
    | NArr l => flat_map (fun e => map (pre (k, entry_keys (ks (sp ++ [k])) e)) (flatten ks (sp ++ [k]) e)) l
    | NLeaf g => [([(k, [])], g)]
    | NMap _ => map (pre (k, [])) (flatten ks (sp ++ [k]) c)
    end.

  Definition FL (sp : list str) (m : amap) : list (fpath * gov) := flat_map (ML sp) m.

  Lemma flatten_map sp m : flatten ks sp (NMap m) = FL sp m.
  Proof. reflexivity. Qed.

  (* remove the first member named k *)
  Fixpoint mdel (k : str) (m : amap) : amap :=
    match m with
    | [] => []
    | (k', v) :: m' => if eqb_str k k' then m' else (k', v) :: mdel k m'
    end.

  Lemma mdel_none k m : mget k m = None -> mdel k m = m.
  Proof.
    induction m as [|[k' v] m IH]; cbn; [reflexivity|].
    destruct (eqb_str k k'); [discriminate|]. intros H. f_equal. auto.
  Qed.

  Lemma FL_mset sp k x m : Permutation (FL sp (mset k x m)) (ML sp (k, x) ++ FL sp (mdel k m)).
  Proof.
    induction m as [|[k' v] m IH]; cbn [mset mdel].
    - unfold FL. cbn. reflexivity.
    - destruct (eqb_str k k') eqn:E.
      + unfold FL. cbn [flat_map]. reflexivity.
      + unfold FL in *. cbn [flat_map]. rewrite IH. rewrite !app_assoc. apply Permutation_app_tail. apply Permutation_app_comm.
  Qed.

  Lemma FL_mget sp k y m : mget k m = Some y -> Permutation (FL sp m) (ML sp (k, y) ++ FL sp (mdel k m)).
  Proof.
    induction m as [|[k' v] m IH]; cbn [mget mdel]; [discriminate|].
    destruct (eqb_str k k') eqn:E.
    - apply eqb_str_eq in E. subst k'. intros [= ->]. unfold FL. cbn [flat_map]. reflexivity.
    - intros H. unfold FL in *. cbn [flat_map]. rewrite (IH H). rewrite !app_assoc. apply Permutation_app_tail. apply Permutation_app_comm.
  Qed.

  Lemma FL_mset_fresh sp k x m : mget k m = None -> Permutation (FL sp (mset k x m)) (FL sp m ++ ML sp (k, x)).
  Proof. intros H. rewrite FL_mset, (mdel_none _ _ H). apply Permutation_app_comm. Qed.

  (* key leaves of a key map *)
  Definition KL (K : list (str * str)) : list (fpath * gov) := map (fun kv => ([(fst kv, [])], GStr (snd kv))) K.

  Lemma FL_keymap sp K : FL sp (keymap_node K) = KL K.
  Proof. induction K as [|[k v] K IH]; [reflexivity|]. unfold FL in *. cbn. f_equal. exact IH. Qed.

  Lemma mget_keymap_kget k K : mget k (keymap_node K) = option_map (fun v => NLeaf (GStr v)) (kget k K).
  Proof.
    unfold kget. induction K as [|[k' v] K IH]; [reflexivity|]. cbn.
    rewrite (eqb_str_sym k' k). destruct (eqb_str k k'); [reflexivity | exact IH].
  Qed.

  Lemma entry_keys_full K em :
    full_match K em -> entry_keys (map fst K) (NMap em) = K.
  Proof.
    intros Hf. cbn [entry_keys]. rewrite map_map.
    assert (H : forall K', (forall k v, In (k, v) K' -> In (k, v) K) ->
              map (fun x : str * str => (fst x, match mget (fst x) em with Some c => conv c | None => [] end)) K' = K').
    { induction K' as [|[k v] K' IH]; intros Hsub; [reflexivity|]. cbn. f_equal.
      - destruct (Hf k v (Hsub k v (or_introl eq_refl))) as [x [Hx Hc]]. rewrite Hx, Hc. reflexivity.
      - apply IH. intros k' v' Hin. apply Hsub. right. exact Hin. }
    apply H. auto.
  Qed.

  (* ---------------------------------------------------------------- per child *)

  (* leaves one child stands for (as in trie_leaves) *)
  Definition CL (et : str * trie) : list (fpath * gov) :=
    match snd et with
    | TLeaf v => match leaf_of rfc v with LVal g => [([(fst et, [])], g)] | _ => [] end
    | TNode _ =>
      match classify (fst et) with
      | EPlain => map (pre (fst et, [])) (trie_leaves rfc (snd et) [])
      | EKeyed n K => map (pre (n, K)) (trie_leaves rfc (snd et) K)
      | EBad => []
      end
    end.

  (* the key leaf an explicit valued leaf replaces *)
  Definition OV (K0 : list (str * str)) (et : str * trie) : list (fpath * gov) :=
    match snd et with
    | TLeaf v =>
      match leaf_of rfc v, kget (fst et) K0 with
      | LVal _, Some v0 => [([(fst et, [])], GStr v0)]
      | _, _ => []
      end
    | TNode _ => []
    end.

  Definition leaf_ready (K0 : list (str * str)) (m : amap) (et : str * trie) : Prop :=
    match snd et with
    | TLeaf _ => mget (fst et) m = mget (fst et) (keymap_node K0)
    | TNode _ => True
    end.

  Definition flat_ok (n : nat) : Prop :=
    forall t sp K0,
      (tdepth t <= n)%nat -> wf_trie rfc ks sp K0 t = true -> NoDup (map fst K0) ->
      Permutation (flatten ks sp (NMap (render_cs rfc t (keymap_node K0)))) (trie_leaves rfc t K0).

  Lemma child_delta n sp K0 e c m :
    flat_ok n -> (tdepth c <= n)%nat ->
    child_ok rfc ks sp K0 (e, c) -> ready m (e, c) -> leaf_ready K0 m (e, c) ->
    Permutation (FL sp m ++ CL (e, c)) (FL sp (put_child rfc (e, c) m) ++ OV K0 (e, c)).
  Proof.
    intros IH Hd Hok Hr Hlr. unfold child_ok, ready, leaf_ready, put_child, CL, OV in *. cbn [fst snd] in *.
    destruct c as [v|cs].
    - unfold leaf_put. destruct (leaf_of rfc v) as [|g|]; [reflexivity| |reflexivity].
      rewrite mget_keymap_kget in Hlr. destruct (kget e K0) as [v0|]; cbn [option_map] in Hlr.
      + rewrite FL_mset. rewrite (FL_mget sp e _ m Hlr). cbn [ML app].
        transitivity (([(e, [])], GStr v0) :: ([(e, [])], g) :: FL sp (mdel e m)).
        * constructor. symmetry. apply Permutation_cons_append.
        * rewrite perm_swap. constructor. apply Permutation_cons_append.
      + rewrite app_nil_r. symmetry. apply FL_mset_fresh. exact Hlr.
    - destruct (classify e) as [|nm K|] eqn:Ecl; [| |contradiction].
      + destruct Hok as [_ Hwf]. rewrite app_nil_r. rewrite FL_mset_fresh; [|exact Hr].
        apply Permutation_app_head. cbn [ML]. apply Permutation_map. symmetry.
        apply (IH (TNode cs) (sp ++ [e]) [] Hd Hwf (NoDup_nil _)).
      + destruct Hok as [_ [HK [Hnd [Hks Hwf]]]]. rewrite app_nil_r.
        destruct Hr as [l [Hst Hld]].
        rewrite (mget_arr_append nm _ m l Hst).
        pose proof Hwf as Hwf'. apply wf_trie_node in Hwf'. destruct Hwf' as [_ [_ Hall]].
        pose proof (render_full_match rfc ks (sp ++ [nm]) K cs Hnd Hall) as Hfm.
        assert (HEL : Permutation
                  (map (pre (nm, entry_keys (ks (sp ++ [nm])) (NMap (render_cs rfc (TNode cs) (keymap_node K)))))
                       (flatten ks (sp ++ [nm]) (NMap (render_cs rfc (TNode cs) (keymap_node K)))))
                  (map (pre (nm, K)) (trie_leaves rfc (TNode cs) K))).
        { rewrite <- Hks. rewrite entry_keys_full; [|exact Hfm]. apply Permutation_map.
          apply (IH (TNode cs) (sp ++ [nm]) K Hd Hwf Hnd). }
        rewrite FL_mset. cbn [ML]. rewrite flat_map_app. cbn [flat_map]. rewrite app_nil_r.
        destruct Hst as [[Hg ->] | Hg].
        * cbn [flat_map app]. rewrite (mdel_none _ _ Hg). rewrite HEL. apply Permutation_app_comm.
        * rewrite (FL_mget sp nm _ m Hg). cbn [ML]. rewrite HEL.
          rewrite <- !app_assoc. apply Permutation_app_head. apply Permutation_app_comm.
  Qed.

  Lemma leaf_ready_after K0 et et' m :
    compat et et' = true -> leaf_ready K0 m et' -> leaf_ready K0 (put_child rfc et m) et'.
  Proof.
    intros Hc Hr. unfold leaf_ready in *. destruct (snd et') as [v'|cs'] eqn:Es; [|exact I].
    rewrite put_child_other; [exact Hr|].
    intros Heq. unfold compat in Hc.
    assert (Hn : child_name et' = fst et') by (unfold child_name; rewrite Es; reflexivity).
    rewrite <- Hn in Heq. rewrite Heq, eqb_str_refl in Hc. rewrite Es in Hc.
    destruct (snd et); discriminate.
  Qed.

  Lemma children_delta n sp K0 cs :
    flat_ok n -> (forall e c, In (e, c) cs -> (tdepth c <= n)%nat) ->
    Forall (child_ok rfc ks sp K0) cs -> pairwise compat cs = true ->
    forall m, Forall (ready m) cs -> Forall (leaf_ready K0 m) cs ->
    Permutation (FL sp m ++ flat_map CL cs)
                (FL sp (fold_left (fun m et => put_child rfc et m) cs m) ++ flat_map (OV K0) cs).
  Proof.
    intros IH Hd Hall. induction Hall as [|[e c] cs Hok Hcs IHcs]; intros Hpw m Hr Hlr.
    - cbn. reflexivity.
    - cbn [pairwise] in Hpw. apply andb_true_iff in Hpw. destruct Hpw as [Hc1 Hpw].
      inversion Hr as [|? ? Hr1 Hr2]; subst. inversion Hlr as [|? ? Hl1 Hl2]; subst.
      cbn [flat_map fold_left].
      assert (Hstep := child_delta n sp K0 e c m IH (Hd e c (or_introl eq_refl)) Hok Hr1 Hl1).
      rewrite forallb_forall in Hc1.
      assert (Hrest : Permutation (FL sp (put_child rfc (e, c) m) ++ flat_map CL cs)
                                  (FL sp (fold_left (fun m et => put_child rfc et m) cs (put_child rfc (e, c) m)) ++ flat_map (OV K0) cs)).
      { apply IHcs; auto.
        - intros e' c' Hin. apply (Hd e' c'). right. exact Hin.
        - apply Forall_forall. intros et' Hin'. rewrite Forall_forall in Hcs, Hr2.
          eapply ready_after; eauto.
        - apply Forall_forall. intros et' Hin'. rewrite Forall_forall in Hl2.
          eapply leaf_ready_after; eauto. }
      rewrite app_assoc. rewrite Hstep.
      rewrite <- app_assoc. rewrite (Permutation_app_comm (OV K0 (e, c))). rewrite app_assoc. rewrite Hrest.
      rewrite <- app_assoc. apply Permutation_app_head. apply Permutation_app_comm.
  Qed.

  (* ---------------------------------------------------------------- overridden key leaves *)

  Definition valued_leaf (et : str * trie) : bool :=
    match snd et with
    | TLeaf v => match leaf_of rfc v with LVal _ => true | _ => false end
    | TNode _ => false
    end.

  Lemma kget_Some_In k v K : kget k K = Some v -> In (k, v) K.
  Proof.
    unfold kget. destruct (find (fun kv => eqb_str (fst kv) k) K) as [[k' v']|] eqn:Ef; [|discriminate].
    intros [= <-]. apply find_some in Ef. destruct Ef as [Hin He]. cbn in He. apply eqb_str_eq in He. subst. exact Hin.
  Qed.

  Lemma OV_In K0 cs x :
    In x (flat_map (OV K0) cs) <->
    exists et v0, In et cs /\ valued_leaf et = true /\ kget (fst et) K0 = Some v0 /\ x = ([(fst et, [])], GStr v0).
  Proof.
    rewrite in_flat_map. split.
    - intros [et [Hin Hx]]. unfold OV in Hx. unfold valued_leaf.
      destruct (snd et) as [v|] eqn:Es; [|destruct Hx].
      destruct (leaf_of rfc v) eqn:El; try (destruct Hx; fail).
      destruct (kget (fst et) K0) as [v0|] eqn:Ek; [|destruct Hx].
      destruct Hx as [<-|[]]. exists et, v0. rewrite Es, El. auto.
    - intros [et [v0 [Hin [Hv [Hk ->]]]]]. exists et. split; [exact Hin|]. unfold OV. unfold valued_leaf in Hv.
      destruct (snd et) as [v|]; [|discriminate]. destruct (leaf_of rfc v); try discriminate. rewrite Hk. left. reflexivity.
  Qed.

  Lemma overridden_spec cs k : overridden rfc cs k = true <-> exists et, In et cs /\ valued_leaf et = true /\ fst et = k.
  Proof.
    unfold overridden. rewrite existsb_exists. split.
    - intros [et [Hin H]]. exists et. unfold valued_leaf. destruct (snd et) as [v|]; [|discriminate].
      apply andb_true_iff in H. destruct H as [H1 H2]. apply eqb_str_eq in H1. auto.
    - intros [et [Hin [Hv <-]]]. exists et. split; [exact Hin|]. unfold valued_leaf in Hv.
      destruct (snd et) as [v|]; [|discriminate]. rewrite eqb_str_refl. exact Hv.
  Qed.

  Lemma KLf_In K0 cs x :
    NoDup (map fst K0) ->
    (In x (KL (filter (fun kv => overridden rfc cs (fst kv)) K0)) <->
     exists et v0, In et cs /\ valued_leaf et = true /\ kget (fst et) K0 = Some v0 /\ x = ([(fst et, [])], GStr v0)).
  Proof.
    intros Hnd. unfold KL. rewrite in_map_iff. split.
    - intros [[k v] [<- Hin]]. apply filter_In in Hin. destruct Hin as [Hin Ho]. cbn [fst snd] in *.
      apply overridden_spec in Ho. destruct Ho as [et [Hc [Hv <-]]].
      exists et, v. repeat split; auto. apply kget_In; auto.
    - intros [et [v0 [Hin [Hv [Hk ->]]]]]. exists (fst et, v0). split; [reflexivity|].
      apply filter_In. split; [apply kget_Some_In; exact Hk|]. cbn [fst]. apply overridden_spec. exists et. auto.
  Qed.

  Lemma NoDup_map_by {A B C} (f : A -> B) (g : A -> C) l :
    (forall x y, g x = g y -> f x = f y) -> NoDup (map f l) -> NoDup (map g l).
  Proof.
    intros Hfg. induction l as [|x l IH]; cbn; intros Hnd; [constructor|].
    inversion Hnd as [|? ? Hni Hnd']; subst. constructor; [|auto].
    intros Hin. apply in_map_iff in Hin. destruct Hin as [y [Hy Hin]]. apply Hni.
    rewrite <- (Hfg _ _ Hy). apply in_map. exact Hin.
  Qed.

  Lemma NoDup_map_filter {A B} (f : A -> B) (p : A -> bool) l : NoDup (map f l) -> NoDup (map f (filter p l)).
  Proof.
    induction l as [|x l IH]; cbn; intros Hnd; [constructor|].
    inversion Hnd as [|? ? Hni Hnd']; subst. destruct (p x); cbn; [|auto].
    constructor; [|auto]. intros Hin. apply Hni. apply in_map_iff in Hin. destruct Hin as [y [Hy Hin]].
    apply filter_In in Hin. destruct Hin as [Hin _]. rewrite <- Hy. apply in_map. exact Hin.
  Qed.

  Lemma OV_NoDup K0 cs : pairwise compat cs = true -> NoDup (flat_map (OV K0) cs).
  Proof.
    induction cs as [|et cs IH]; cbn [flat_map pairwise]; intros Hpw; [constructor|].
    apply andb_true_iff in Hpw. destruct Hpw as [Hc Hpw]. specialize (IH Hpw).
    unfold OV at 1. destruct (snd et) as [v|] eqn:Es; [|exact IH].
    destruct (leaf_of rfc v) eqn:El; try exact IH.
    destruct (kget (fst et) K0) as [v0|] eqn:Ek; [|exact IH].
    cbn [app]. constructor; [|exact IH].
    intros Hin. apply OV_In in Hin. destruct Hin as [et' [v1 [Hin' [Hv [_ Heq]]]]].
    injection Heq as Hn _.
    rewrite forallb_forall in Hc. specialize (Hc et' Hin'). unfold compat in Hc.
    unfold valued_leaf in Hv. destruct (snd et') as [v'|] eqn:Es'; [|discriminate].
    assert (Hn1 : child_name et = fst et) by (unfold child_name; rewrite Es; reflexivity).
    assert (Hn2 : child_name et' = fst et') by (unfold child_name; rewrite Es'; reflexivity).
    rewrite Hn1, Hn2, Hn, eqb_str_refl, Es in Hc. discriminate.
  Qed.

  Lemma overridden_leaves K0 cs :
    NoDup (map fst K0) -> pairwise compat cs = true ->
    Permutation (KL (filter (fun kv => overridden rfc cs (fst kv)) K0)) (flat_map (OV K0) cs).
  Proof.
    intros Hnd Hpw. apply NoDup_Permutation.
    - unfold KL. apply (NoDup_map_by fst).
      + intros x y H. injection H as H _. exact H.
      + apply NoDup_map_filter. exact Hnd.
    - apply OV_NoDup. exact Hpw.
    - intros x. rewrite KLf_In; [|exact Hnd]. rewrite OV_In. reflexivity.
  Qed.

  Lemma filter_partition {A} (f : A -> bool) (l : list A) :
    Permutation l (filter (fun x => negb (f x)) l ++ filter f l).
  Proof.
    induction l as [|x l IH]; cbn; [reflexivity|].
    destruct (f x); cbn.
    - apply Permutation_cons_app. exact IH.
    - constructor. exact IH.
  Qed.

  Lemma trie_leaves_node cs K0 :
    trie_leaves rfc (TNode cs) K0 =
    KL (filter (fun kv => negb (overridden rfc cs (fst kv))) K0) ++ flat_map CL cs.
  Proof. reflexivity. Qed.

  Lemma flat_ok_all : forall n, flat_ok n.
  Proof.
    induction n as [|n IH]; intros t sp K0 Hd Hwf Hnd.
    - destruct t as [v|cs]; [discriminate | cbn in Hd; lia].
    - destruct t as [v|cs]; [discriminate|].
      pose proof Hwf as Hwf'. apply wf_trie_node in Hwf'. destruct Hwf' as [_ [Hpw Hall]].
      rewrite flatten_map, render_cs_node, trie_leaves_node.
      assert (Hdelta := children_delta n sp K0 cs IH).
      assert (Hdep : forall e c, In (e, c) cs -> (tdepth c <= n)%nat).
      { intros e c Hin. pose proof (tdepth_child e c cs Hin). lia. }
      specialize (Hdelta Hdep Hall Hpw (keymap_node K0)).
      assert (Hr : Forall (ready (keymap_node K0)) cs).
      { apply Forall_forall. intros et Hin. eapply ready_initial. rewrite Forall_forall in Hall. apply Hall. exact Hin. }
      assert (Hl : Forall (leaf_ready K0 (keymap_node K0)) cs).
      { apply Forall_forall. intros et Hin. unfold leaf_ready. destruct (snd et); auto. }
      specialize (Hdelta Hr Hl). rewrite FL_keymap in Hdelta.
      pose proof (overridden_leaves K0 cs Hnd Hpw) as Hov.
      pose proof (Permutation_map (fun kv : str * str => ([(fst kv, @nil (str * str))], GStr (snd kv)))
                                  (filter_partition (fun kv => overridden rfc cs (fst kv)) K0)) as Hpart.
      rewrite map_app in Hpart. fold (KL K0) in Hpart.
      fold (KL (filter (fun x => negb (overridden rfc cs (fst x))) K0)) in Hpart.
      fold (KL (filter (fun kv => overridden rfc cs (fst kv)) K0)) in Hpart.
      rewrite Hov in Hpart. rewrite Hpart in Hdelta.
      apply (Permutation_app_inv_r (flat_map (OV K0) cs)).
      rewrite <- Hdelta. rewrite <- !app_assoc. apply Permutation_app_head. apply Permutation_app_comm.
  Qed.
End Flat.

(* flattening the rendered document gives the trie's leaves *)
Theorem flatten_render rfc ks t :
  wf_trie rfc ks [] [] t = true ->
  Permutation (flatten ks [] (render rfc t)) (trie_leaves rfc t []).
Proof.
  intros Hwf. apply (flat_ok_all rfc ks (tdepth t) t [] [] (le_n _) Hwf (NoDup_nil _)).
Qed.

(* ------------------------------------------------------------------ the trie's leaves are the explicit leaves of its
   paths plus the key leaves of its entries *)

Lemma explicit_leaves_app rfc a b : explicit_leaves rfc (a ++ b) = explicit_leaves rfc a ++ explicit_leaves rfc b.
Proof. unfold explicit_leaves. apply flat_map_app. Qed.

Lemma explicit_under rfc e ps :
  Forall (fun p => fst p <> []) ps ->
  explicit_leaves rfc (under e ps) = map (pre (felem e)) (explicit_leaves rfc ps).
Proof.
  induction 1 as [|p ps Hp Hps IH]; [reflexivity|].
  change (under e (p :: ps)) with ((e :: fst p, snd p) :: under e ps).
  change (explicit_leaves rfc ((e :: fst p, snd p) :: under e ps))
    with ((match leaf_of rfc (snd p) with LVal g => [(fpath_of (e :: fst p), g)] | _ => [] end) ++ explicit_leaves rfc (under e ps)).
  change (explicit_leaves rfc (p :: ps))
    with ((match leaf_of rfc (snd p) with LVal g => [(fpath_of (fst p), g)] | _ => [] end) ++ explicit_leaves rfc ps).
  rewrite map_app, IH. f_equal.
  destruct (leaf_of rfc (snd p)); [reflexivity| |reflexivity].
  cbn [map]. unfold pre. cbn [fst snd]. destruct (fst p) as [|e2 r]; [contradiction|]. reflexivity.
Qed.

Lemma perm_flat_map_split {A B} (f g h : A -> list B) l :
  (forall x, In x l -> Permutation (f x) (g x ++ h x)) ->
  Permutation (flat_map f l) (flat_map g l ++ flat_map h l).
Proof.
  induction l as [|x l IH]; intros H; cbn; [reflexivity|].
  rewrite (H x (or_introl eq_refl)), IH; [|intros y Hy; apply H; right; exact Hy].
  rewrite <- !app_assoc. apply Permutation_app_head.
  rewrite !app_assoc. apply Permutation_app_tail. apply Permutation_app_comm.
Qed.

Lemma trie_leaves_split rfc ks : forall n t sp K0,
  (tdepth t <= n)%nat -> wf_trie rfc ks sp K0 t = true ->
  Permutation (trie_leaves rfc t K0) (key_leaves rfc t K0 ++ explicit_leaves rfc (dfs t)).
Proof.
  induction n as [|n IH]; intros t sp K0 Hd Hwf.
  - destruct t as [v|cs]; [discriminate | cbn in Hd; lia].
  - destruct t as [v|cs]; [discriminate|].
    apply wf_trie_node in Hwf. destruct Hwf as [_ [_ Hall]].
    cbn [trie_leaves key_leaves dfs]. rewrite <- app_assoc. apply Permutation_app_head.
    assert (Hex : explicit_leaves rfc (flat_map (fun et => map (fun p => (fst et :: fst p, snd p)) (dfs (snd et))) cs)
                  = flat_map (fun et => explicit_leaves rfc (under (fst et) (dfs (snd et)))) cs).
    { clear. induction cs as [|et cs IHc]; [reflexivity|]. cbn [flat_map]. rewrite explicit_leaves_app, IHc. reflexivity. }
    rewrite Hex. apply perm_flat_map_split.
    intros [e c] Hin. cbn [fst snd].
    rewrite Forall_forall in Hall. specialize (Hall _ Hin). unfold child_ok in Hall. cbn [fst snd] in Hall.
    destruct c as [v|cs'].
    + cbn. destruct (leaf_of rfc v); reflexivity.
    + assert (Hdc : (tdepth (TNode cs') <= n)%nat) by (pose proof (tdepth_child e _ cs Hin); lia).
      assert (Hne : Forall (fun p => fst p <> []) (dfs (TNode cs'))).
      { apply Forall_forall. intros p Hp. eapply dfs_node_paths_nonempty; eauto. }
      rewrite (explicit_under rfc e _ Hne). unfold felem.
      destruct (classify e) as [|nm K|]; [| |contradiction].
      * destruct Hall as [_ Hwf]. rewrite <- map_app. apply Permutation_map. eapply IH; eauto.
      * destruct Hall as [_ [_ [_ [_ Hwf]]]]. rewrite <- map_app. apply Permutation_map. eapply IH; eauto.
Qed.

(* C18, flatten/build: on a well-formed set BuildTree succeeds and flattening its document gives back exactly
   the live valued leaves plus the key leaves of the list entries the live paths go through *)
Theorem flatten_build rfc pvs :
  wf_set rfc pvs = true ->
  exists t, build_tree rfc pvs = Ok t /\
            Permutation (flatten (schema_of (live_paths pvs)) [] t)
                        (explicit_leaves rfc (live_paths pvs) ++ key_leaves rfc (trie_of (live_paths pvs)) []).
Proof.
  intros Hwf. exists (render rfc (trie_of (live_paths pvs))). split; [apply build_tree_render; exact Hwf|].
  unfold wf_set in Hwf. destruct (live_paths pvs) as [|p0 lp0] eqn:Elp.
  { cbn. reflexivity. }
  rewrite <- Elp in *. clear Elp p0 lp0.
  rewrite !andb_true_iff in Hwf. destruct Hwf as [[_ Hdfs] Hwt]. apply paths_eqb_eq in Hdfs.
  rewrite (flatten_render rfc _ _ Hwt).
  rewrite (trie_leaves_split rfc _ _ _ [] [] (le_n _) Hwt).
  rewrite Hdfs. apply Permutation_app_comm.
Qed.

(* ------------------------------------------------------------------ every key leaf is implied by a live path *)

Lemma implied_of_cons b e rest :
  rest <> [] ->
  implied_of b (e :: rest) =
  (match classify e with
   | EKeyed n K => map (fun kv => (b ++ [(n, K); (fst kv, [])], GStr (snd kv))) K
   | _ => []
   end) ++ implied_of (b ++ [felem e]) rest.
Proof. destruct rest; [contradiction | reflexivity]. Qed.

Lemma implied_of_before : forall elems b,
  implied_of b elems = map (fun x => (b ++ fst x, snd x)) (implied_of [] elems).
Proof.
  induction elems as [|e rest IH]; intros b; [reflexivity|].
  destruct rest as [|r rest']; [reflexivity|].
  rewrite (implied_of_cons b e (r :: rest')) by discriminate.
  rewrite (implied_of_cons [] e (r :: rest')) by discriminate. rewrite map_app. f_equal.
  - destruct (classify e) as [|n K|]; [reflexivity| |reflexivity]. rewrite map_map. cbn [fst snd app]. reflexivity.
  - rewrite (IH (b ++ [felem e])). rewrite (IH ([] ++ [felem e])). rewrite map_map. cbn [fst snd app].
    apply map_ext. intros x. rewrite <- app_assoc. reflexivity.
Qed.

Lemma key_leaves_sound rfc ks : forall n t sp K0 x,
  (tdepth t <= n)%nat -> wf_trie rfc ks sp K0 t = true ->
  In x (key_leaves rfc t K0) ->
  In x (map (fun kv => ([(fst kv, [])], GStr (snd kv))) K0) \/
  exists p, In p (dfs t) /\ In x (implied_of [] (fst p)).
Proof.
  induction n as [|n IH]; intros t sp K0 x Hd Hwf Hin.
  - destruct t as [v|cs]; [discriminate | cbn in Hd; lia].
  - destruct t as [v|cs]; [discriminate|].
    apply wf_trie_node in Hwf. destruct Hwf as [_ [_ Hall]].
    cbn [key_leaves] in Hin. apply in_app_or in Hin. destruct Hin as [Hin|Hin].
    + left. apply in_map_iff in Hin. destruct Hin as [kv [<- Hkv]]. apply filter_In in Hkv. destruct Hkv as [Hkv _].
      apply in_map_iff. exists kv. auto.
    + right. apply in_flat_map in Hin. destruct Hin as [[e c] [Hec Hx]]. cbn [fst snd] in Hx.
      rewrite Forall_forall in Hall. specialize (Hall _ Hec). unfold child_ok in Hall. cbn [fst snd] in Hall.
      destruct c as [v|cs']; [destruct Hx|].
      assert (Hdc : (tdepth (TNode cs') <= n)%nat) by (pose proof (tdepth_child e _ cs Hec); lia).
      assert (Hsub : forall K sp', wf_trie rfc ks sp' K (TNode cs') = true ->
                forall y, In y (key_leaves rfc (TNode cs') K) ->
                forall fe, (forall kv, In kv K -> classify e = EKeyed (fst fe) K) ->
                           felem e = fe ->
                exists p, In p (dfs (TNode cs)) /\ In (pre fe y) (implied_of [] (fst p))).
      { intros K sp' Hwf' y Hy fe Hcl Hfe.
        destruct (IH _ _ _ y Hdc Hwf' Hy) as [Hk | [q [Hq Hyq]]].
        - assert (Hne : dfs (TNode cs') <> []) by (eapply wf_dfs_nonempty; eauto).
          destruct (dfs (TNode cs')) as [|q qs] eqn:Edfs; [contradiction|].
          assert (Hqin : In q (dfs (TNode cs'))) by (rewrite Edfs; left; reflexivity).
          exists (e :: fst q, snd q). split.
          + cbn [dfs]. apply in_flat_map. exists (e, TNode cs'). split; [exact Hec|]. cbn [fst snd]. rewrite Edfs.
            apply in_map_iff. exists q. split; [reflexivity | left; reflexivity].
          + cbn [fst]. pose proof (dfs_node_paths_nonempty cs' q Hqin) as Hqne.
            rewrite implied_of_cons by exact Hqne. apply in_or_app. left.
            apply in_map_iff in Hk. destruct Hk as [kv [<- Hkv]]. pose proof (Hcl kv Hkv) as Hc.
            destruct fe as [fn fK]. cbn [fst] in Hc. unfold felem in Hfe. rewrite Hc in Hfe. injection Hfe as <-.
            rewrite Hc. apply in_map_iff. exists kv. split; [|exact Hkv]. unfold pre. cbn. reflexivity.
        - exists (e :: fst q, snd q). split.
          + cbn [dfs]. apply in_flat_map. exists (e, TNode cs'). split; [exact Hec|]. cbn [fst snd].
            apply in_map_iff. exists q. auto.
          + cbn [fst]. pose proof (dfs_node_paths_nonempty cs' q Hq) as Hqne.
            rewrite implied_of_cons by exact Hqne. apply in_or_app. right.
            rewrite (implied_of_before (fst q)). apply in_map_iff. exists y. split; [|exact Hyq].
            unfold pre. cbn [app]. rewrite Hfe. reflexivity. }
      destruct (classify e) as [|nm K|] eqn:Ecl; [| |contradiction].
      * destruct Hall as [_ Hwf']. apply in_map_iff in Hx. destruct Hx as [y [<- Hy]].
        apply (Hsub [] _ Hwf' y Hy (e, [])); [intros kv []|]. unfold felem. rewrite Ecl. reflexivity.
      * destruct Hall as [_ [_ [_ [_ Hwf']]]]. apply in_map_iff in Hx. destruct Hx as [y [<- Hy]].
        apply (Hsub K _ Hwf' y Hy (nm, K)); [intros kv _; reflexivity|]. unfold felem. rewrite Ecl. reflexivity.
Qed.

(* every key leaf of the document's reading is implied by some live path *)
Corollary key_leaves_implied rfc pvs x :
  wf_set rfc pvs = true ->
  In x (key_leaves rfc (trie_of (live_paths pvs)) []) ->
  exists p, In p (live_paths pvs) /\ In x (implied_of [] (fst p)).
Proof.
  intros Hwf Hin. unfold wf_set in Hwf. destruct (live_paths pvs) as [|p0 lp0] eqn:Elp.
  { cbn in Hin. destruct Hin. }
  rewrite <- Elp in *. clear Elp p0 lp0.
  rewrite !andb_true_iff in Hwf. destruct Hwf as [[_ Hdfs] Hwt]. apply paths_eqb_eq in Hdfs.
  destruct (key_leaves_sound rfc _ _ _ [] [] x (le_n _) Hwt Hin) as [[]|[p [Hp Hx]]].
  exists p. rewrite <- Hdfs. auto.
Qed.

(* ------------------------------------------------------------------ list entries: one per key set *)

(* the entries the children of a node contribute to the list called n, in order *)
Definition entries_of (rfc : bool) (n : str) (cs : list (str * trie)) : list node :=
  flat_map (fun et => match snd et with
                      | TLeaf _ => []
                      | TNode _ => match classify (fst et) with
                                   | EKeyed n' K => if eqb_str n n' then [NMap (render_cs rfc (snd et) (keymap_node K))] else []
                                   | _ => []
                                   end
                      end) cs.

Definition arr_of (n : str) (m : amap) : list node := match mget n m with Some (NArr l) => l | _ => [] end.

Definition keyed_child (et : str * trie) : Prop :=
  match snd et with TNode _ => match classify (fst et) with EKeyed _ _ => True | _ => False end | TLeaf _ => False end.

Lemma fold_entries rfc n cs : forall m,
  (forall et, In et cs -> child_name et = n -> keyed_child et) ->
  (mget n m = None \/ exists l, mget n m = Some (NArr l)) ->
  arr_of n (fold_left (fun m et => put_child rfc et m) cs m) = arr_of n m ++ entries_of rfc n cs /\
  (mget n (fold_left (fun m et => put_child rfc et m) cs m) = None \/
   exists l, mget n (fold_left (fun m et => put_child rfc et m) cs m) = Some (NArr l)).
Proof.
  induction cs as [|et cs IH]; intros m Hk Hm; cbn [fold_left].
  - unfold entries_of. cbn. rewrite app_nil_r. auto.
  - assert (Hstep : arr_of n (put_child rfc et m) = arr_of n m ++ entries_of rfc n [et] /\
                    (mget n (put_child rfc et m) = None \/ exists l, mget n (put_child rfc et m) = Some (NArr l))).
    { destruct (str_eq_dec n (child_name et)) as [Heq|Hne].
      - specialize (Hk et (or_introl eq_refl) (eq_sym Heq)). unfold keyed_child in Hk.
        unfold put_child, entries_of, child_name in *. cbn [flat_map fst snd]. destruct (snd et) as [v|cs']; [contradiction|].
        destruct (classify (fst et)) as [|n' K|]; [contradiction| |contradiction]. subst n'. rewrite eqb_str_refl. rewrite app_nil_r.
        unfold arr_of, arr_append. destruct Hm as [Hm | [l Hm]]; rewrite Hm; rewrite mget_mset_same.
        + split; [reflexivity | right; eexists; reflexivity].
        + split; [reflexivity | right; eexists; reflexivity].
      - rewrite put_child_other by exact Hne. unfold arr_of. rewrite put_child_other by exact Hne.
        split; [|exact Hm]. unfold entries_of, child_name in *. cbn [flat_map]. destruct (snd et) as [v|cs']; [rewrite app_nil_r; reflexivity|].
        destruct (classify (fst et)) as [|n' K|]; try (rewrite app_nil_r; reflexivity).
        apply eqb_str_neq in Hne. rewrite Hne. rewrite app_nil_r. reflexivity. }
    destruct Hstep as [Hs1 Hs2].
    destruct (IH (put_child rfc et m)) as [H1 H2]; [intros et' Hin; apply Hk; right; exact Hin | exact Hs2 |].
    split; [|exact H2]. rewrite H1, Hs1. rewrite <- app_assoc. f_equal.
    unfold entries_of. cbn [flat_map]. rewrite app_nil_r. reflexivity.
Qed.

(* In the document of a well-formed trie node, the list called n consists of exactly one entry per keyed child
   named n (so: one entry per key set, never split) *)
Theorem render_entries rfc ks sp K0 cs n :
  wf_trie rfc ks sp K0 (TNode cs) = true -> ~ In n (map fst K0) ->
  (forall et, In et cs -> child_name et = n -> keyed_child et) ->
  arr_of n (render_cs rfc (TNode cs) (keymap_node K0)) = entries_of rfc n cs.
Proof.
  intros Hwf Hni Hk. rewrite render_cs_node.
  destruct (fold_entries rfc n cs (keymap_node K0) Hk) as [H _].
  - left. apply mget_keymap_none. exact Hni.
  - rewrite H. unfold arr_of. rewrite mget_keymap_none by exact Hni. reflexivity.
Qed.

(* ... and two different key sets give two entries that do not answer to each other's keys (never merged) *)
Theorem entries_distinct rfc ks sp K0 cs ea ca eb cb n Ka Kb :
  wf_trie rfc ks sp K0 (TNode cs) = true ->
  In (ea, TNode ca) cs -> In (eb, TNode cb) cs ->
  classify ea = EKeyed n Ka -> classify eb = EKeyed n Kb -> kv_eqb Ka Kb = false ->
  full_match Ka (render_cs rfc (TNode ca) (keymap_node Ka)) /\
  some_differs Kb (render_cs rfc (TNode ca) (keymap_node Ka)).
Proof.
  intros Hwf Ha Hb Hca Hcb Hne.
  apply wf_trie_node in Hwf. destruct Hwf as [_ [_ Hall]]. rewrite Forall_forall in Hall.
  pose proof (Hall _ Ha) as Hoa. pose proof (Hall _ Hb) as Hob. unfold child_ok in Hoa, Hob. cbn [fst snd] in Hoa, Hob.
  rewrite Hca in Hoa. rewrite Hcb in Hob.
  destruct Hoa as [_ [_ [Hnda [Hksa Hwfa]]]]. destruct Hob as [_ [_ [_ [Hksb _]]]].
  apply wf_trie_node in Hwfa. destruct Hwfa as [_ [_ Halla]].
  pose proof (render_full_match rfc ks (sp ++ [n]) Ka ca Hnda Halla) as Hfm.
  split; [exact Hfm|].
  apply (differs_after Ka Kb); auto. congruence.
Qed.

(* Satisfiability of the hypotheses of the C02 / C10 theorems on the executable instance Model/P2Inst.v:
   one run (two changes on target 1, connection 10 elected, change 1 committed and applied, connection lost,
   master resigns, connection 11 elected in term 2, re-push, synchronised) evaluated by vm_compute. *)
From stdpp Require Import gmap.
From Coq Require Import NArith String List.
From OC Require Import Base.Bytes Model.P2Pure Model.Proto2 Model.P2Inst Proofs.P2Base Proofs.P2_Cursor Proofs.P2_CursorInv
     Proofs.P2_CursorChain Proofs.P2_Term.
Import ListNotations.
Open Scope N_scope.

Definition y_o : oracle := mkOracle true true COk 0 0.
Definition y_round (t : N) (is : list N) : list Label :=
  [LRec (CtlConn 10) 9 y_o; LRec (CtlMaster t) 9 y_o; LRec (CtlCfg t) 9 y_o]
  ++ map (fun i => LRec (CtlProp (t, i)) 9 y_o) is ++ map (fun i => LRec (CtlTx i) 9 y_o) is.
Fixpoint y_rounds (n : nat) (t : N) (is : list N) : list Label :=
  match n with O => [] | S n => y_round t is ++ y_rounds n t is end.
Definition y_ch (p v : string) : cmap := [(B p, mkPV (B p) (B v) false 0)].
Definition y_run (ls : list Label) : Wd := fold_left p2_step ls p2_init.
Definition y_labels : list Label :=
  [LTarget 1 false; LConnUp 10 1; LChange [(1, y_ch "/a" "1")] true false; LChange [(1, y_ch "/b" "2")] true false]
  ++ y_rounds 14 1 [1; 2] ++
  [LConnDown 10; LRec (CtlConn 10) 9 y_o; LRec (CtlMaster 1) 9 y_o; LConnUp 11 1; LRec (CtlConn 11) 9 y_o;
   LRec (CtlMaster 1) 9 y_o; LRec (CtlCfg 1) 9 y_o; LRec (CtlCfg 1) 9 y_o].
(* the world before label number n, and that label *)
Definition y_at (n : nat) : Wd := y_run (firstn n y_labels).
Definition y_l (n : nat) : Label := nth n y_labels (LTargetGone 0).

Notation y_reach := (reach candidate candidate_rb rollback_of overlay commit_merge payload record_applied touched restore
                           resync_payload doc_ok dev_apply stamp nil nil nil).
Lemma y_at_reach n : y_reach (y_at n).
Proof. exists (firstn n y_labels). reflexivity. Qed.

(* step 77 moves Committed.Index of target 1 from 0 to 1 (hypothesis of C02_committed_moves_by_successor) *)
Example y_committed_moves : committed_of (p2_step (y_at 77) (y_l 77)) 1 <> committed_of (y_at 77) 1 /\ y_reach (y_at 77).
Proof. split; [vm_compute; discriminate|apply y_at_reach]. Qed.

(* step 98 moves Applied.Index from 0 to 1 and sends the change of proposal (1,1) (hypotheses of
   C02_applied_moves_by_successor / _from_prev, C02_sent_in_order, C02_sent_from_prev, C02_never_sent_before_merged, C10_election_id,
   C10_no_change_before_resync) *)
Example y_applied_moves : applied_of (p2_step (y_at 98) (y_l 98)) 1 <> applied_of (y_at 98) 1.
Proof. vm_compute. discriminate. Qed.

Example y_sent : exists r,
  devlog (p2_step (y_at 98) (y_l 98)) = devlog (y_at 98) ++ [DevSet 1 10 1 (Some 1) r COk] /\
  y_reach (y_at 98) /\ commit_merged (y_at 98).
Proof.
  eexists. split; [vm_compute; reflexivity|]. split; [apply y_at_reach|].
  apply commit_mergedb_spec. vm_compute. reflexivity.
Qed.

(* step 104: the master relation is gone, the master resigns; steps 104..107 elect connection 11 in term 2
   (hypotheses of C10_new_term_after_loss / C10_new_term_after_reassign) *)
Example y_loss :
  master_of (y_at 104) 1 = Some 10 /\ rels (y_at 104) !! 10 = None /\
  master_of (fold_left p2_step [y_l 104; y_l 105; y_l 106; y_l 107] (y_at 104)) 1 = Some 11 /\
  term_of (y_at 104) 1 = 1 /\ term_of (fold_left p2_step [y_l 104; y_l 105; y_l 106; y_l 107] (y_at 104)) 1 = 2.
Proof.
  split; [vm_compute; reflexivity|]. split; [vm_compute; reflexivity|]. split; [vm_compute; reflexivity|].
  split; [vm_compute; reflexivity|]. vm_compute; reflexivity.
Qed.

(* step 109: the configuration reconciler re-pushes the applied values in term 2 and marks the target synchronised
   (hypotheses of C10_no_change_before_resync for a re-push, C10_aterm_moves_by_sync, C10_resync_completes) *)
Example y_resync : exists r C C' c,
  devlog (p2_step (y_at 109) (y_l 109)) = devlog (y_at 109) ++ [DevSet 1 11 2 None r COk] /\
  cfgs (y_at 109) !! 1 = Some C /\ cfgs (p2_step (y_at 109) (y_l 109)) !! 1 = Some C' /\ c_aterm C' <> c_aterm C /\
  targets (y_at 109) !! 1 = Some false /\ c_state C = CSynchronizing /\ c_applied C <> 0 /\
  In (EPutCfg 1 c) (fst (p2_reconcile y_o (y_at 109) (CtlCfg 1))).
Proof.
  eexists _, _, _, _. split; [vm_compute; reflexivity|]. split; [vm_compute; reflexivity|]. split; [vm_compute; reflexivity|].
  split; [vm_compute; discriminate|]. split; [vm_compute; reflexivity|]. split; [vm_compute; reflexivity|].
  split; [vm_compute; discriminate|]. vm_compute. right. right. left. reflexivity.
Qed.

(* world 77: proposal (1,1) is in Commit-Doing with Committed.Index = PrevIndex = 0; the Commit guard holds there
   (non-vacuously) and in the world that sends (hypotheses of C02_commit_guard; commit_merged_of_guard asks for the guard
   in every reachable world, which Proofs/P2_CursorGuard.v proves) *)
Example y_guard : exists P : Prop2,
  props (y_at 77) !! (1, 1) = Some P /\ p_commit P = Some Doing /\ commit_guard (y_at 77) /\ commit_guard (y_at 98).
Proof.
  eexists. split; [vm_compute; reflexivity|]. split; [vm_compute; reflexivity|].
  split; apply commit_guardb_spec; vm_compute; reflexivity.
Qed.

(* world 98 has two proposals on target 1, the older one INITIALIZED, distinct PrevIndexes (hypotheses of C02_open_is_last,
   C02_unique_prev, C02_cursors_ordered) *)
Example y_chain : exists (P Q : Prop2) (C : Cfg),
  props (y_at 98) !! (1, 1) = Some P /\ props (y_at 98) !! (1, 2) = Some Q /\ cfgs (y_at 98) !! 1 = Some C /\
  p_init P = Some Done /\ p_init Q = Some Done /\ p_prev P = 0 /\ p_prev Q = 1 /\ p_next P = 2 /\ c_proposed C = 2.
Proof.
  eexists _, _, _.
  split; [vm_compute; reflexivity|]. split; [vm_compute; reflexivity|]. split; [vm_compute; reflexivity|].
  split; [vm_compute; reflexivity|]. split; [vm_compute; reflexivity|]. split; [vm_compute; reflexivity|].
  split; [vm_compute; reflexivity|]. split; [vm_compute; reflexivity|]. vm_compute; reflexivity.
Qed.

(* Proofs about the path codec model (property C16), part 3: the parsers are total (the model's
   RPanic / RFuel outcomes never occur), every conjunct of wf_gpath is necessary (counterexamples),
   refutation witnesses for key values containing '/', and examples inside the hypotheses. *)
From Coq Require Import List NArith Bool Lia.
From OC Require Import Base.Bytes Model.Path Proofs.PathProofs Proofs.PathProofs2.
Import ListNotations.
Open Scope N_scope.

(* --------------------------------------------------- totality of the parsers -- *)
Lemma find_slow_shorter c : forall n s u r,
  (List.length s <= n)%nat -> find_slow c s = (u, Some r) -> (List.length r < List.length s)%nat.
Proof.
  induction n as [|n IH]; intros s u r Hn H.
  - destruct s; [cbn in H; discriminate|cbn in Hn; lia].
  - destruct s as [|ch s]; [cbn in H; discriminate|].
    cbn [find_slow] in H. destruct (ch =? c).
    + injection H as _ <-. cbn. lia.
    + destruct (ch =? c_bslash).
      * destruct s as [|ch2 s]; [discriminate|].
        destruct (find_slow c s) as [u' r'] eqn:E. injection H as _ ->.
        apply IH in E; cbn in *; lia.
      * destruct (find_slow c s) as [u' r'] eqn:E. injection H as _ ->.
        apply IH in E; cbn in *; lia.
Qed.

Lemma find_unescaped_shorter c s u r :
  find_unescaped c s = (u, Some r) -> (List.length r < List.length s)%nat.
Proof. rewrite find_unescaped_slow. apply (find_slow_shorter c (List.length s)). lia. Qed.

Lemma parse_key_shorter s k v next :
  parse_key s = ROk (k, v, next) -> (List.length next < List.length s)%nat.
Proof.
  unfold parse_key. destruct s as [|c0 s1]; [discriminate|].
  destruct (negb (c0 =? c_lbr)); [discriminate|].
  destruct (find_unescaped c_eq s1) as [k' [rhs|]] eqn:E1; [|discriminate].
  destruct (is_empty k'); [discriminate|].
  destruct (find_unescaped c_rbr rhs) as [v' [nx|]] eqn:E2; [|discriminate].
  destruct (is_empty v'); [discriminate|].
  intros [= _ _ <-]. apply find_unescaped_shorter in E1, E2. cbn. lia.
Qed.

Lemma parse_key_no_fuel s : s <> [] -> parse_key s <> RPanic /\ parse_key s <> RFuel.
Proof.
  intros Hs. unfold parse_key. destruct s as [|c0 s1]; [congruence|].
  destruct (negb (c0 =? c_lbr)); [split; discriminate|].
  destruct (find_unescaped c_eq s1) as [k' [rhs|]]; [|split; discriminate].
  destruct (is_empty k'); [split; discriminate|].
  destruct (find_unescaped c_rbr rhs) as [v' [nx|]]; [|split; discriminate].
  destruct (is_empty v'); split; discriminate.
Qed.

Lemma parse_keys_total : forall fuel s acc,
  (List.length s <= fuel)%nat -> parse_keys fuel s acc <> RPanic /\ parse_keys fuel s acc <> RFuel.
Proof.
  induction fuel as [|f IH]; intros s acc Hf.
  - destruct s; [cbn; split; discriminate|cbn in Hf; lia].
  - destruct s as [|c s]; [cbn; split; discriminate|].
    cbn [parse_keys].
    destruct (parse_key_no_fuel (c :: s)) as [Hp Hq]; [discriminate|].
    destruct (parse_key (c :: s)) as [[[k v] next]|e| |] eqn:E; try congruence; [|split; discriminate].
    apply parse_key_shorter in E. apply IH. cbn in *. lia.
Qed.

Lemma parse_element_total pe : parse_element pe <> RPanic /\ parse_element pe <> RFuel.
Proof.
  unfold parse_element. destruct (find_unescaped c_lbr pe) as [name [rest|]]; [|split; discriminate].
  destruct (is_empty name); [split; discriminate|].
  destruct (parse_keys_total (List.length (c_lbr :: rest)) (c_lbr :: rest) [] (le_n _)) as [H1 H2].
  destruct (parse_keys (List.length (c_lbr :: rest)) (c_lbr :: rest) []); try congruence; split; discriminate.
Qed.

Lemma parse_gnmi_elements_total l : parse_gnmi_elements l <> RPanic /\ parse_gnmi_elements l <> RFuel.
Proof.
  induction l as [|e l [IH1 IH2]]; [cbn; split; discriminate|].
  cbn [parse_gnmi_elements]. destruct (parse_element_total e) as [H1 H2].
  destruct (parse_element e); try congruence; [|split; discriminate].
  destruct (parse_gnmi_elements l); try congruence; split; discriminate.
Qed.

Lemma parsers_total s :
  (parse_path s <> RPanic /\ parse_path s <> RFuel) /\
  (create_update_path s <> RPanic /\ create_update_path s <> RFuel).
Proof. split; apply parse_gnmi_elements_total. Qed.

(* SplitPath's loop: the fuel handed to it (length + 1) is never what ends it *)
Lemma next_token_lengths : forall path inb esc,
  (List.length (fst (next_token inb esc path)) + List.length (snd (next_token inb esc path)) = List.length path)%nat.
Proof.
  induction path as [|c path IH]; intros inb esc; [reflexivity|].
  cbn [next_token]. destruct (tok_step inb esc c) as [[i e]|]; [|reflexivity].
  specialize (IH i e). destruct (next_token i e path). cbn in *. lia.
Qed.

Lemma strip_slash_length s : (List.length (strip_slash s) <= List.length s)%nat.
Proof. destruct s as [|c s]; [cbn; lia|]. cbn. destruct (c =? c_slash); cbn; lia. Qed.

Lemma split_step_shorter path :
  path <> [] ->
  (List.length (strip_slash (snd (next_token false false path))) < List.length path)%nat.
Proof.
  intros H. destruct path as [|c path]; [congruence|].
  cbn [next_token]. destruct (tok_step false false c) as [[i e]|] eqn:E.
  - pose proof (next_token_lengths path i e) as L. pose proof (strip_slash_length (snd (next_token i e path))) as S1.
    destruct (next_token i e path). cbn in *. lia.
  - cbn [snd strip_slash]. unfold tok_step in E.
    destruct (c =? c_lbr); [discriminate|]. destruct (c =? c_rbr); [discriminate|].
    destruct (c =? c_bslash); [discriminate|]. destruct (c =? c_slash); [cbn; lia|discriminate].
Qed.

Lemma split_loop_fuel : forall n path f1 f2,
  (List.length path <= n)%nat -> (List.length path < f1)%nat -> (List.length path < f2)%nat ->
  split_loop f1 path = split_loop f2 path.
Proof.
  induction n as [|n IH]; intros path f1 f2 Hn H1 H2.
  - destruct path; [rewrite !split_loop_nil; reflexivity|cbn in Hn; lia].
  - destruct path as [|c path]; [rewrite !split_loop_nil; reflexivity|].
    destruct f1 as [|f1]; [lia|]. destruct f2 as [|f2]; [lia|].
    rewrite !split_loop_cons by discriminate. f_equal.
    pose proof (split_step_shorter (c :: path)) as Hs. specialize (Hs ltac:(discriminate)).
    apply IH; cbn [List.length] in *; lia.
Qed.

(* -------------------------------- every conjunct of wf_gpath is necessary -- *)
Definition rt_fails (p : gpath) : Prop := parse_path (str_path p) <> ROk p.

Definition el (name : str) (ks : kmap) : elem := mkElem name ks.

(* an element name containing '[' *)
Example need_no_lbr_in_name : rt_fails [el (B "a[b") []].
Proof. unfold rt_fails. vm_compute. congruence. Qed.
(* an empty last element name: the trailing '/' is dropped by SplitPath *)
Example need_last_name : rt_fails [el (B "a") []; el [] []].
Proof. unfold rt_fails. vm_compute. congruence. Qed.
(* an empty name with keys: parseElement refuses it *)
Example need_name_with_keys : rt_fails [el [] [(B "k", B "v")]; el (B "a") []].
Proof. unfold rt_fails. vm_compute. congruence. Qed.
(* ... while an empty name without keys in the middle is fine *)
Example empty_middle_name_ok : parse_path (str_path [el (B "a") []; el [] []; el (B "b") []]) = ROk [el (B "a") []; el [] []; el (B "b") []].
Proof. vm_compute. reflexivity. Qed.
(* key lists that are not the canonical form of a map: unsorted, duplicate *)
Example need_sorted_keys : rt_fails [el (B "a") [(B "k2", B "1"); (B "k1", B "2")]].
Proof. unfold rt_fails. vm_compute. congruence. Qed.
Example need_unique_keys : rt_fails [el (B "a") [(B "k", B "1"); (B "k", B "2")]].
Proof. unfold rt_fails. vm_compute. congruence. Qed.
(* key names: empty, containing '=', containing '\' *)
Example need_key_name : rt_fails [el (B "a") [([], B "v")]].
Proof. unfold rt_fails. vm_compute. congruence. Qed.
Example need_no_eq_in_key_name : rt_fails [el (B "a") [(B "k=", B "v")]].
Proof. unfold rt_fails. vm_compute. congruence. Qed.
Example need_no_bslash_in_key_name : rt_fails [el (B "a") [(B "k\", B "v")]].
Proof. unfold rt_fails. vm_compute. congruence. Qed.
(* empty key value *)
Example need_key_value : rt_fails [el (B "a") [(B "k", [])]].
Proof. unfold rt_fails. vm_compute. congruence. Qed.
(* a ']' in a key name followed by a '/' before the next '[' *)
Example need_key_unsplit : rt_fails [el (B "a") [(B "k]", B "x/y")]].
Proof. unfold rt_fails. vm_compute. congruence. Qed.
(* ... while a ']' in a key name is harmless without such a '/' *)
Example key_rbr_boundary :
  wf_gpath [el (B "a") [(B "k]", B "xy")]] = true /\ wf_gpath [el (B "a") [(B "]", B "[/")]] = true /\
  wf_gpath [el (B "a") [(B "k]", B "x/y")]] = false.
Proof. vm_compute. auto. Qed.

(* ---------------------------------------------- inside the hypotheses -- *)
Definition sample_path : gpath :=
  [el (B "oc-if:interfaces") [];
   el (B "inter/face\x") [(B "name", B "eth0/1]\[=")];
   el (B "sub]=") [(B "a[", B "1"); (B "b/c", B "*")];
   el [] [];
   el (B "leaf") []].

Example sample_path_wf : wf_gpath sample_path = true.
Proof. vm_compute. reflexivity. Qed.
Example sample_path_roundtrip : parse_path (str_path sample_path) = ROk sample_path.
Proof. apply roundtrip. exact sample_path_wf. Qed.

Definition sample_accepted : gpath :=
  [el (B "mod:top") []; el (B "entry") [(B "id", B "10.0.0.1"); (B "zone", B "x-y_z*")]; el (B "descr") []].
Example sample_accepted_ok : accepted_gpath sample_accepted = true.
Proof. vm_compute. reflexivity. Qed.

(* ------------------------------------------------------------ refutations -- *)
(* key values containing '/' do round-trip (they are inside wf_gpath) but GetParentPath and
   createUpdate's strings.Split do not respect brackets *)
Definition slash_key_path : gpath := [el (B "a") []; el (B "b") [(B "k", B "x/y")]].

Lemma parent_refuted :
  exists p e, wf_gpath (p ++ [e]) = true /\ get_parent (str_path_elem (p ++ [e])) <> str_path_elem p.
Proof.
  exists [el (B "a") []], (el (B "b") [(B "k", B "x/y")]). split; [vm_compute; reflexivity|]. vm_compute. congruence.
Qed.

Lemma get_proto_refuted :
  exists p, wf_gpath p = true /\ parse_path (str_path p) = ROk p /\ create_update_path (str_path p) <> ROk p.
Proof.
  exists slash_key_path. split; [vm_compute; reflexivity|]. split; [vm_compute; reflexivity|]. vm_compute. congruence.
Qed.

(* such values never pass CheckPathIndexIsValid *)
Lemma slash_not_index_allowed v : has c_slash v = true -> index_allowed v = false.
Proof.
  intros H. unfold index_allowed. destruct (forallb index_char v) eqn:E; [|apply andb_false_r].
  rewrite (forallb_has index_char c_slash v E eq_refl) in H. discriminate.
Qed.

(* all the necessity counterexamples at once: dropping any conjunct of wf_gpath admits a path that
   does not come back *)
Lemma wf_necessary :
  rt_fails [el (B "a[b") []] /\
  rt_fails [el (B "a") []; el [] []] /\
  rt_fails [el [] [(B "k", B "v")]; el (B "a") []] /\
  rt_fails [el (B "a") [(B "k2", B "1"); (B "k1", B "2")]] /\
  rt_fails [el (B "a") [(B "k", B "1"); (B "k", B "2")]] /\
  rt_fails [el (B "a") [([], B "v")]] /\
  rt_fails [el (B "a") [(B "k=", B "v")]] /\
  rt_fails [el (B "a") [(B "k\", B "v")]] /\
  rt_fails [el (B "a") [(B "k", [])]] /\
  rt_fails [el (B "a") [(B "k]", B "x/y")]].
Proof.
  repeat split;
    [exact need_no_lbr_in_name|exact need_last_name|exact need_name_with_keys|exact need_sorted_keys|exact need_unique_keys
    |exact need_key_name|exact need_no_eq_in_key_name|exact need_no_bslash_in_key_name|exact need_key_value|exact need_key_unsplit].
Qed.

(* over the accepted alphabet the parent of a stored path is that path without its last element *)
Lemma accepted_parent p e :
  accepted_gpath (p ++ [e]) = true -> get_parent (str_path_elem (p ++ [e])) = str_path_elem p.
Proof.
  intros H. apply parent_of_path.
  assert (Ha : accepted_elem e = true).
  { unfold accepted_gpath in H. destruct (p ++ [e]) eqn:E; [discriminate|]. rewrite <- E in H.
    rewrite forallb_app in H. apply andb_true_iff in H as [_ H]. cbn in H. rewrite andb_true_r in H. exact H. }
  apply accepted_elem_parts in Ha. apply Ha.
Qed.

Lemma split_path_fuel path fuel :
  (List.length (strip_slash path) < fuel)%nat -> split_loop fuel (strip_slash path) = split_path path.
Proof.
  intros H. unfold split_path. apply (split_loop_fuel (List.length (strip_slash path))); lia.
Qed.

(* the same two witnesses, with the fact that they lie OUTSIDE what the Set handler accepts: the key value x/y fails
   IndexAllowedChars, which CheckKeyValue (updates, /repo 7b08917) and doDelete (deletes, /repo a2a122e) enforce *)
Lemma parent_outside_accepted :
  exists p e, wf_gpath (p ++ [e]) = true /\ accepted_gpath (p ++ [e]) = false /\
              get_parent (str_path_elem (p ++ [e])) <> str_path_elem p.
Proof.
  exists [el (B "a") []], (el (B "b") [(B "k", B "x/y")]).
  split; [vm_compute; reflexivity|]. split; [vm_compute; reflexivity|]. vm_compute. congruence.
Qed.

Lemma get_proto_outside_accepted :
  exists p, wf_gpath p = true /\ accepted_gpath p = false /\
            parse_path (str_path p) = ROk p /\ create_update_path (str_path p) <> ROk p.
Proof.
  exists slash_key_path. split; [vm_compute; reflexivity|]. split; [vm_compute; reflexivity|].
  split; [vm_compute; reflexivity|]. vm_compute. congruence.
Qed.

(* The per-target chain invariant of the v2 protocol model (C02): the proposals of a target are linked into ONE
   PrevIndex/NextIndex chain in index order, the cursors of its configuration point into that chain, and therefore a
   proposal in its Commit phase sees Committed.Index = its PrevIndex or its own index already merged ([commit_guard]). *)
From stdpp Require Import gmap.
From RecordUpdate Require Import RecordUpdate.
From Coq Require Import NArith Lia.
From OC Require Import Model.Proto2 Proofs.P2Base Proofs.P2Phases Proofs.P2_Order Proofs.P2_Cursor Proofs.P2_CursorInv
     Proofs.P2_CursorChain Proofs.P2_CursorLink.
Open Scope N_scope.

Section ChainInv.
  Context {V Ch Req D : Type}.
  Context (candidate : V -> Ch -> V) (candidate_rb : V -> Ch -> V) (rollback_of : V -> Ch -> Ch)
          (overlay : V -> V -> V) (commit_merge : N -> N -> V -> V -> Ch -> V)
          (payload : N -> V -> Ch -> option Req) (record_applied : N -> N -> V -> V -> V -> Ch -> V)
          (touched : N -> V -> Ch -> V) (restore : V -> V -> V)
          (resync_payload : V -> list (option Req)) (doc_ok : V -> bool)
          (dev_apply : D -> Req -> D) (stamp : N -> Ch -> Ch) (v_empty : V) (d_empty : D) (ch_empty : Ch).

  Notation world := (@world V Ch Req D).
  Notation eff := (@eff V Ch Req).
  Notation txn := (@txn Ch).
  Notation prop := (@prop Ch).
  Notation config := (@config V).
  Notation devev := (@devev Req).
  Notation apply_eff := (@apply_eff V Ch Req D dev_apply d_empty).
  Notation rec_tx := (@rec_tx V Ch Req D stamp).
  Notation rec_prop := (@rec_prop V Ch Req D candidate candidate_rb rollback_of overlay commit_merge payload record_applied
                                  touched restore doc_ok v_empty d_empty ch_empty).
  Notation rec_cfg := (@rec_cfg V Ch Req D overlay restore resync_payload v_empty d_empty).
  Notation rec_master := (@rec_master V Ch Req D overlay restore v_empty).
  Notation rec_conn := (@rec_conn V Ch Req D).
  Notation reconcile := (@reconcile V Ch Req D candidate candidate_rb rollback_of overlay commit_merge payload record_applied
                                    touched restore resync_payload doc_ok stamp v_empty d_empty ch_empty).
  Notation step := (@step V Ch Req D candidate candidate_rb rollback_of overlay commit_merge payload record_applied
                          touched restore resync_payload doc_ok dev_apply stamp v_empty d_empty ch_empty).
  Notation reach := (@reach V Ch Req D candidate candidate_rb rollback_of overlay commit_merge payload record_applied
                            touched restore resync_payload doc_ok dev_apply stamp v_empty d_empty ch_empty).
  Notation view := (@view V overlay).
  Notation aview := (@aview V overlay).
  Notation dev_answer := (@dev_answer V Ch Req D d_empty).
  Notation rb_change := (@rb_change Ch ch_empty).


  Notation cfg_write := (@cfg_write V Ch Req D).
  Notation past_init := (@past_init Ch).
  Notation ALL := (candidate, candidate_rb).

  Ltac in_cases H :=
    cbn [fst app In] in H;
    repeat match type of H with
           | _ \/ _ => destruct H as [H|H]; [try discriminate H|]
           | False => destruct H
           end.
  Ltac sim_cbn S := apply sim_fields in S; cbn in S; destruct S as (S1 & S2 & S3 & S4 & S5 & S6 & S7 & S8 & S9).

  (** * The link writes of the proposal reconciler, in full *)
  Definition link_write (w : world) (t i : N) (k : N * N) (P P' : prop) : Prop :=
    (p_prev P' = p_prev P /\ p_next P' = p_next P /\
     (p_init P' = p_init P \/ (k = (t, i) /\ p_init P = None /\ p_init P' = Some Doing) \/
      (k = (t, i) /\ p_init P = Some Doing /\ p_init P' = Some Done /\
       exists C : config, cfgs w !! t = Some C /\ i <= c_proposed C))) \/
    (exists (C : config) (Pi : prop), cfgs w !! t = Some C /\ props w !! (t, i) = Some Pi /\ p_init Pi = Some Doing /\
       c_proposed C < i /\ 0 < c_proposed C /\ k = (t, c_proposed C) /\ p_next P = 0 /\ P' = P <| p_next := i |>) \/
    (exists (C : config) (Q : prop), cfgs w !! t = Some C /\ k = (t, i) /\ p_init P = Some Doing /\
       c_proposed C < i /\ 0 < c_proposed C /\ props w !! (t, c_proposed C) = Some Q /\ p_next Q <> 0 /\ p_prev P = 0 /\
       P' = P <| p_prev := c_proposed C |>).

  Lemma rec_prop_putprop_link (o : oracle) (w : world) t i k (P' : prop) :
    In (EPutProp k P') (fst (rec_prop o w (t, i))) ->
    exists P, props w !! k = Some P /\ link_write w t i k P P'.
  Proof.
    unfold Proto2.rec_prop, Proto2.vfail, Proto2.upd_status.
    destruct (props w !! (t, i)) as [P|] eqn:HP; [|intros []].
    destruct_matches; intros H;
      try (match goal with E : _ = Some ?e |- _ => is_var e;
             repeat match type of E with context [match ?x with _ => _ end] => destruct x eqn:? end;
             try discriminate E; injection E as <- end);
      in_cases H; injection H as <- <-; bool_hyps;
      eexists; (split; [eassumption|]); unfold link_write;
      first [ left; cbn; split; [reflexivity|]; split; [reflexivity|]; first [left; reflexivity | right; left; auto; fail | right; right; eauto 8; fail]
            | right; left; eexists _, _; repeat split; eauto; lia
            | right; right; eexists _, _; repeat split; eauto; lia ].
  Qed.
  Lemma rec_prop_createcfg_init (o : oracle) (w : world) t i t' c :
    In (ECreateCfg t' c) (fst (rec_prop o w (t, i))) -> exists P : prop, props w !! (t, i) = Some P /\ p_init P = Some Doing.
  Proof.
    unfold Proto2.rec_prop, Proto2.vfail, Proto2.upd_status.
    destruct (props w !! (t, i)) as [P|] eqn:HP; [|intros []].
    destruct_matches; intros H;
      try (match goal with E : _ = Some ?e |- _ => is_var e;
             repeat match type of E with context [match ?x with _ => _ end] => destruct x eqn:? end;
             try discriminate E; injection E as <- end);
      in_cases H. eexists. split; [reflexivity|]. congruence.
  Qed.

  (** * One step, seen from one proposal: the cases that matter for the chain *)
  Lemma prop_step_none (w : world) l k : props (step w l) !! k = None -> props w !! k = None.
  Proof.
    destruct l as [chs sy se|ri|c n o|c t0|c|c t0|t0 p|t0|t0]; cbn [Proto2.step]; try (intros H; exact H).
    - generalize (fst (reconcile o w c)). intros es. revert w n. induction es as [|e r IH]; intros w n H.
      + rewrite firstn_nil in H. exact H.
      + destruct n as [|n]; [exact H|]. cbn [firstn fold_left] in H. eapply prop_apply_eff_none. eapply IH. exact H.
    - destruct (conns w !! c); intros H; exact H.
    - destruct (rels w !! c); intros H; exact H.
  Qed.

  Lemma prop_step_keep (w : world) l k : is_Some (props w !! k) -> is_Some (props (step w l) !! k).
  Proof.
    intros [P HP]. destruct (props (step w l) !! k) eqn:E; [eexists; reflexivity|].
    apply prop_step_none in E. congruence.
  Qed.

  (* same links and Initialize state *)
  Definition same_link (P P' : prop) : Prop := p_prev P' = p_prev P /\ p_next P' = p_next P /\ p_init P' = p_init P.

  Lemma tx_starts_same (T : txn) (P P' : prop) : tx_starts T P P' -> same_link P P'.
  Proof.
    intros [(_ & _ & ->)|[(_ & _ & _ & ->)|[(_ & _ & _ & _ & ->)|(_ & _ & _ & _ & _ & ->)]]]; repeat split.
  Qed.

  Lemma prop_post (w : world) l k (P' : prop) :
    props (step w l) !! k = Some P' ->
    (props w !! k = None /\ p_prev P' = 0 /\ p_next P' = 0 /\ p_init P' = None /\
     exists n o, l = LRec (CtlTx k.2) n o /\ In (ECreateProp k P') (fst (rec_tx w k.2))) \/
    (exists P, props w !! k = Some P /\
       (same_link P P' \/ exists t i n o, l = LRec (CtlProp (t, i)) n o /\ link_write w t i k P P')).
  Proof.
    intros H. apply prop_step in H. destruct H as [H|(ctl & n & o & -> & [H|[H Hn]])].
    - right. exists P'. split; [exact H|]. left. repeat split.
    - right. destruct ctl as [j|[t0 i0]|t0|t0|c0]; cbn [Proto2.reconcile] in H.
      + apply rec_tx_putprop in H. destruct H as (t1 & p & T & -> & _ & _ & Hp & Hs). exists p. split; [exact Hp|].
        left. eapply tx_starts_same. exact Hs.
      + apply rec_prop_putprop_link in H. destruct H as (P & HP & Hl). exists P. split; [exact HP|]. right. exists t0, i0, n, o. auto.
      + apply rec_cfg_kinds in H. destruct H.
      + apply rec_master_only_putcfg in H. destruct H.
      + apply rec_conn_only_rel in H. destruct H.
    - left. pose proof H as Hin. apply reconcile_createprop in H.
      destruct H as (T & -> & _ & _ & _ & _ & _ & _ & _ & _ & Hnew). cbn [Proto2.reconcile] in Hin.
      split; [exact Hn|]. destruct Hnew as [(c & ->)|(ri & ->)]; cbn; repeat split; eauto.
  Qed.

  (* the Initialize state of a proposal never goes back *)
  Lemma link_write_init_done (w : world) t i k (P P' : prop) : link_write w t i k P P' -> p_init P = Some Done -> p_init P' = Some Done.
  Proof.
    intros [(_ & _ & [He|[(_ & Hn & _)|(_ & Hd & _)]])|[(C & Pi & _ & _ & _ & _ & _ & _ & _ & ->)|(C & Q & _ & _ & Hd & _)]] Hi;
      cbn; congruence.
  Qed.

  Lemma init_done_post (w : world) l k (P : prop) :
    props w !! k = Some P -> p_init P = Some Done -> exists P', props (step w l) !! k = Some P' /\ p_init P' = Some Done.
  Proof.
    intros HP Hi. destruct (prop_step_keep w l k) as [P' HP']; [rewrite HP; eexists; reflexivity|]. exists P'. split; [exact HP'|].
    apply prop_post in HP'. destruct HP' as [(Hn & _)|(P0 & HP0 & [(_ & _ & He)|(t & i & n & o & _ & Hl)])]; [congruence| |];
      rewrite HP in HP0; injection HP0 as <-; [congruence|]. eapply link_write_init_done; eassumption.
  Qed.

  (** * One step, seen from the cursors of one configuration *)
  Definition cur3 (C : config) := (c_proposed C, c_committed C, c_applied C).

  (* configurations persist and Proposed.Index never decreases *)
  Lemma cfg_post (w : world) l t (C : config) :
    cfgs w !! t = Some C -> exists C', cfgs (step w l) !! t = Some C' /\ c_proposed C <= c_proposed C'.
  Proof.
    intros HC. destruct (cfgs (step w l) !! t) as [C'|] eqn:H'; [|apply cfg_step_none in H'; congruence].
    exists C'. split; [reflexivity|]. apply cfg_step in H'.
    destruct H' as [(C0 & HC0 & [S|(ctl & n & o & c0 & -> & Hw & S)])|(Hn & _)]; [| |congruence];
      rewrite HC in HC0; injection HC0 as <-.
    - sim_cbn S. lia.
    - inversion Hw; subst; sim_cbn S; lia.
  Qed.
  (** * Who is INITIALIZED *)
  Notation KO_reach := (P2_Order.K_reach candidate candidate_rb rollback_of overlay commit_merge payload record_applied touched restore
                          resync_payload doc_ok dev_apply stamp v_empty d_empty ch_empty).
  Notation TI_reach := (T_inv_reach candidate candidate_rb rollback_of overlay commit_merge payload record_applied touched restore
                          resync_payload doc_ok dev_apply stamp v_empty d_empty ch_empty).
  Notation PO := (proposal_phase_order candidate candidate_rb rollback_of overlay commit_merge payload record_applied touched restore
                          resync_payload doc_ok dev_apply stamp v_empty d_empty ch_empty).
  Notation OPEN := (open_is_last candidate candidate_rb rollback_of overlay commit_merge payload record_applied touched restore
                          resync_payload doc_ok dev_apply stamp v_empty d_empty ch_empty).

  Lemma prop_index_pos (w : world) t i (P : prop) : reach w -> props w !! (t, i) = Some P -> 1 <= i.
  Proof.
    intros Hr HP. pose proof (TI_reach _ Hr) as HT. destruct (ti_created _ HT _ _ _ HP) as (T & HTi & _).
    destruct (N.eq_dec i 0) as [->|]; [|lia]. rewrite (ti_zero _ HT) in HTi. discriminate.
  Qed.

  Lemma past_tx_linked (w : world) t i (P : prop) (T : txn) :
    reach w -> props w !! (t, i) = Some P -> txs w !! i = Some T -> past_init T -> p_init P = Some Done.
  Proof.
    intros Hr HP HTi Hp. pose proof (TI_reach _ Hr) as HT. pose proof (KO_reach _ Hr) as HK.
    destruct (ti_created _ HT _ _ _ HP) as (Ti & HTi' & Hn & Hf & _). rewrite HTi in HTi'. injection HTi' as <-.
    assert (Hd : t_init T = Some Done) by (destruct Hp as [Hp|Hp]; [exact Hp|congruence]).
    pose proof (j_tx _ (P2_Order.k_J _ HK) _ _ HTi) as Hwf.
    destruct (t_props T) as [tg|] eqn:Htg.
    2:{ exfalso. revert Hwf. unfold tx_wf, wfb, imp, some, is_ph. rewrite Hd, Htg. cbn.
        destruct (t_validate T) as [[]|], (t_commit T) as [[]|], (t_apply T) as [[]|], (t_abort T) as [[]|]; cbn; discriminate. }
    destruct (P2_Order.k_exist _ HK _ _ _ HP) as (T0 & HT0 & Hin). rewrite HTi in HT0. injection HT0 as <-.
    destruct (P2_Order.k_tp _ HK _ _ _ HTi Htg) as [-> _].
    destruct (P2_Order.k_agree _ HK _ _ _ _ HTi Htg Hin) as (P0 & HP0 & Hag & _). rewrite HP in HP0. injection HP0 as <-.
    apply Hag. exact Hd.
  Qed.

  (* a proposal that is past Initialize in any way (validating, committing, applying, aborting) is INITIALIZED *)
  Lemma phase_linked (w : world) t i (P : prop) :
    reach w -> props w !! (t, i) = Some P ->
    is_Some (p_validate P) \/ is_Some (p_commit P) \/ is_Some (p_apply P) \/ is_Some (p_abort P) -> p_init P = Some Done.
  Proof.
    intros Hr HP Hs. destruct (PO _ _ _ Hr HP) as (O1 & O2 & O3 & _).
    destruct Hs as [Hs|[Hs|[Hs|Hs]]].
    - auto.
    - apply O1. rewrite (O2 Hs). eexists; reflexivity.
    - apply O1. rewrite (O2 ltac:(rewrite (O3 Hs); eexists; reflexivity)). eexists; reflexivity.
    - pose proof (KO_reach _ Hr) as HK. pose proof (TI_reach _ Hr) as HT.
      destruct (j_back _ (P2_Order.k_J _ HK) _ _ HP) as (T & HTi & _ & _ & Hab & _); [tauto|]. cbn in HTi.
      eapply past_tx_linked; [exact Hr|exact HP|exact HTi|]. eapply (ti_abort _ HT); [exact HTi|]. apply Hab. exact Hs.
  Qed.

  (* no proposal is created below an existing proposal of the same target *)
  Lemma no_create_below (w : world) t j j' (P Q : prop) :
    reach w -> In (ECreateProp (t, j) P) (fst (rec_tx w j)) -> props w !! (t, j') = Some Q -> j < j' -> False.
  Proof.
    intros Hr Hin HQ Hlt. pose proof (TI_reach _ Hr) as HT.
    apply rec_tx_createprop in Hin. destruct Hin as (t0 & T & [= <-] & HTj & _ & _ & _ & _ & Hi & _).
    destruct (ti_created _ HT _ _ _ HQ) as (Tj' & HTj' & _ & _ & Hg).
    assert (Hj : 1 <= j). { destruct (N.eq_dec j 0) as [->|]; [|lia]. rewrite (ti_zero _ HT) in HTj. discriminate. }
    destruct (older_past candidate candidate_rb rollback_of overlay commit_merge payload record_applied touched restore
                resync_payload doc_ok dev_apply stamp v_empty d_empty ch_empty w j' Hr) with (d := N.to_nat (j' - j - 1)) (i := j)
      as (T' & HT' & Hp); [rewrite HTj'; eexists; reflexivity|exact Hg|exact Hj|lia|].
    rewrite HTj in HT'. injection HT' as <-. destruct Hp as [Hp|Hp]; congruence.
  Qed.
  (** * The chain invariant *)
  Record C_inv (w : world) : Prop := {
    (* Proposed.Index names an existing proposal (the tail of the chain) *)
    ci_tail : forall t (C : config), cfgs w !! t = Some C -> is_Some (props w !! (t, c_proposed C));
    (* an INITIALIZED proposal is registered: its index is at most Proposed.Index *)
    ci_reg : forall t i (P : prop), props w !! (t, i) = Some P -> p_init P = Some Done ->
             exists C : config, cfgs w !! t = Some C /\ i <= c_proposed C;
    (* PrevIndex points to a proposal whose NextIndex points back *)
    ci_prev : forall t i (P : prop), props w !! (t, i) = Some P -> p_prev P <> 0 ->
              exists Q : prop, props w !! (t, p_prev P) = Some Q /\ p_next Q = i;
    (* the NextIndex of the tail, if set, names a proposal that is still initialising *)
    ci_tailnext : forall t (C : config) (Q : prop), cfgs w !! t = Some C -> props w !! (t, c_proposed C) = Some Q -> p_next Q <> 0 ->
                  exists Pn : prop, props w !! (t, p_next Q) = Some Pn /\ p_init Pn <> Some Done;
    (* a proposal that is not INITIALIZED has no successor *)
    ci_opennext : forall t i (P : prop), props w !! (t, i) = Some P -> p_init P <> Some Done -> p_next P = 0;
    (* among the registered proposals only the first has PrevIndex 0 *)
    ci_first : forall t (C : config) i j (P Q : prop), cfgs w !! t = Some C -> props w !! (t, i) = Some P -> props w !! (t, j) = Some Q ->
               i <= c_proposed C -> j <= c_proposed C -> p_prev P = 0 -> i <= j;
    (* the cursors name INITIALIZED proposals *)
    ci_committed : forall t (C : config), cfgs w !! t = Some C -> c_committed C <> 0 ->
                   exists P : prop, props w !! (t, c_committed C) = Some P /\ p_init P = Some Done;
    ci_applied : forall t (C : config), cfgs w !! t = Some C -> c_applied C <> 0 ->
                 exists P : prop, props w !! (t, c_applied C) = Some P /\ p_init P = Some Done }.

  Lemma C_inv_init : C_inv (@init V Ch Req D).
  Proof. split; cbn; intros; rewrite lookup_empty in *; discriminate. Qed.

  Lemma prop_post_old (w : world) l k (P P' : prop) :
    props w !! k = Some P -> props (step w l) !! k = Some P' ->
    same_link P P' \/ exists t i n o, l = LRec (CtlProp (t, i)) n o /\ link_write w t i k P P'.
  Proof.
    intros HP H'. apply prop_post in H'. destruct H' as [(Hn & _)|(P0 & HP0 & H)]; [congruence|].
    rewrite HP in HP0. injection HP0 as <-. exact H.
  Qed.

  Lemma next_stable (w : world) l k (Q : prop) :
    props w !! k = Some Q -> p_next Q <> 0 -> exists Q', props (step w l) !! k = Some Q' /\ p_next Q' = p_next Q.
  Proof.
    intros HQ Hn. destruct (prop_step_keep w l k) as [Q' HQ']; [rewrite HQ; eexists; reflexivity|]. exists Q'. split; [exact HQ'|].
    destruct (prop_post_old _ _ _ _ _ HQ HQ') as [(_ & He & _)|(t & i & n & o & _ & [(_ & He & _)|[(C & Pi & _ & _ & _ & _ & _ & _ & H0 & _)|(C & Q0 & _ & _ & _ & _ & _ & _ & _ & _ & ->)]])];
      try exact He; try congruence. reflexivity.
  Qed.

  Section Step.
    Context (w : world) (l : @label Ch) (Hr : reach w) (HC : C_inv w).

    Lemma tail_ok t (C : config) : cfgs w !! t = Some C -> exists Q : prop, props w !! (t, c_proposed C) = Some Q /\ 1 <= c_proposed C.
    Proof.
      intros HCf. destruct (ci_tail _ HC _ _ HCf) as [Q HQ]. exists Q. split; [exact HQ|]. eapply prop_index_pos; eassumption.
    Qed.

    Lemma step_tail t (C' : config) : cfgs (step w l) !! t = Some C' -> is_Some (props (step w l) !! (t, c_proposed C')).
    Proof.
      intros H'. apply cfg_step in H'.
      destruct H' as [(C & HCf & [S|(ctl & n & o & c0 & -> & Hw & S)])|(Hn & i & n & o & -> & Hp & Hcore)].
      - sim_cbn S. rewrite <- S2. apply prop_step_keep. eapply ci_tail; eassumption.
      - pose proof (ci_tail _ HC _ _ HCf) as Ht.
        inversion Hw; subst; sim_cbn S; rewrite <- ?S2; try (apply prop_step_keep; exact Ht).
        apply prop_step_keep. match goal with H : props _ !! (_, _) = Some _ |- _ => rewrite H end. eexists; reflexivity.
      - unfold core in Hcore. injection Hcore as _ Hpi _ _ _ _ _ _ _. rewrite Hpi. apply prop_step_keep. exact Hp.
    Qed.

    Lemma step_reg t i (P' : prop) : props (step w l) !! (t, i) = Some P' -> p_init P' = Some Done ->
      exists C' : config, cfgs (step w l) !! t = Some C' /\ i <= c_proposed C'.
    Proof.
      intros H' Hd.
      assert (Hold : forall P : prop, props w !! (t, i) = Some P -> p_init P = Some Done ->
                     exists C' : config, cfgs (step w l) !! t = Some C' /\ i <= c_proposed C').
      { intros P HP Hi. destruct (ci_reg _ HC _ _ _ HP Hi) as (C & HCf & Hle).
        destruct (cfg_post w l t C HCf) as (C' & HC' & Hle'). exists C'. split; [exact HC'|lia]. }
      apply prop_post in H'. destruct H' as [(_ & _ & _ & Hi & _)|(P & HP & [(_ & _ & He)|(t0 & i0 & n & o & _ & Hl)])]; [congruence| |].
      - apply (Hold P HP). congruence.
      - destruct Hl as [(_ & _ & [He|[(_ & _ & Hx)|([= <- <-] & _ & _ & C & HCf & Hle)]])|[(C & Pi & _ & _ & _ & _ & _ & _ & _ & ->)|(C & Q & _ & _ & _ & _ & _ & _ & _ & _ & ->)]].
        + apply (Hold P HP). congruence.
        + congruence.
        + destruct (cfg_post w l t C HCf) as (C' & HC' & Hle'). exists C'. split; [exact HC'|lia].
        + apply (Hold P HP). exact Hd.
        + apply (Hold P HP). exact Hd.
    Qed.

    Lemma step_opennext t i (P' : prop) : props (step w l) !! (t, i) = Some P' -> p_init P' <> Some Done -> p_next P' = 0.
    Proof.
      intros H' Hd.
      apply prop_post in H'. destruct H' as [(_ & _ & Hn & _)|(P & HP & [(_ & Hn & He)|(t0 & i0 & n & o & _ & Hl)])]; [exact Hn| |].
      - rewrite Hn. eapply ci_opennext; [exact HC|exact HP|congruence].
      - destruct Hl as [(_ & Hn & [He|[(_ & Hx & _)|(_ & _ & Hx & _)]])|[(C & Pi & HCf & HPi & _ & Hlt & _ & [= <- Hi0] & _ & ->)|(C & Q & _ & _ & _ & _ & _ & _ & _ & _ & ->)]].
        + rewrite Hn. eapply ci_opennext; [exact HC|exact HP|congruence].
        + rewrite Hn. eapply ci_opennext; [exact HC|exact HP|congruence].
        + congruence.
        + exfalso. apply Hd. cbn. eapply (OPEN w t i i0); [exact Hr|exact HP|exact HPi|lia].
        + cbn in *. eapply ci_opennext; [exact HC|exact HP|exact Hd].
    Qed.

    Lemma step_prev t i (P' : prop) : props (step w l) !! (t, i) = Some P' -> p_prev P' <> 0 ->
      exists Q' : prop, props (step w l) !! (t, p_prev P') = Some Q' /\ p_next Q' = i.
    Proof.
      intros H' Hp.
      assert (Hold : forall P : prop, props w !! (t, i) = Some P -> p_prev P' = p_prev P ->
                     exists Q' : prop, props (step w l) !! (t, p_prev P') = Some Q' /\ p_next Q' = i).
      { intros P HP He. rewrite He in Hp |- *. destruct (ci_prev _ HC _ _ _ HP Hp) as (Q & HQ & Hn).
        pose proof (prop_index_pos _ _ _ _ Hr HP) as Hi.
        destruct (next_stable w l _ Q HQ) as (Q' & HQ' & Hn'); [lia|]. exists Q'. split; [exact HQ'|lia]. }
      pose proof H' as H0. apply prop_post in H0.
      destruct H0 as [(_ & Hz & _)|(P & HP & [(He & _)|(t0 & i0 & n & o & _ & Hl)])]; [congruence|apply (Hold P HP He)|].
      destruct Hl as [(He & _)|[(C & Pi & _ & _ & _ & _ & _ & _ & _ & ->)|(C & Q & HCf & [= <- <-] & Hdo & Hlt & Hpos & HQ & Hnn & Hz & ->)]].
      - apply (Hold P HP He).
      - apply (Hold P HP). reflexivity.
      - cbn. destruct (ci_tailnext _ HC _ _ _ HCf HQ Hnn) as (Pn & HPn & Hnd).
        assert (Hn : p_next Q = i).
        { destruct (N.lt_trichotomy (p_next Q) i) as [Hlt'|[He|Hgt]]; [|exact He|].
          - exfalso. apply Hnd. eapply (OPEN w t (p_next Q) i); eassumption.
          - exfalso. assert (p_init P = Some Done) by (eapply (OPEN w t i (p_next Q)); eassumption). congruence. }
        destruct (next_stable w l _ Q HQ Hnn) as (Q' & HQ' & Hn'). exists Q'. split; [exact HQ'|congruence].
    Qed.
    (* what a step does to Proposed.Index of one configuration *)
    Lemma cfg_post_cases t (C' : config) : cfgs (step w l) !! t = Some C' ->
      (exists C : config, cfgs w !! t = Some C /\ c_proposed C' = c_proposed C) \/
      (exists (C : config) (P Q : prop), cfgs w !! t = Some C /\ c_proposed C < c_proposed C' /\
         props w !! (t, c_proposed C') = Some P /\ p_init P = Some Doing /\
         props w !! (t, c_proposed C) = Some Q /\ p_next Q <> 0 /\ p_prev P <> 0) \/
      (cfgs w !! t = None /\ exists P : prop, props w !! (t, c_proposed C') = Some P /\ p_init P <> Some Done).
    Proof.
      intros H'. apply cfg_step in H'.
      destruct H' as [(C & HCf & [S|(ctl & n & o & c0 & -> & Hw & S)])|(Hn & i & n & o & -> & [P HP] & Hcore)].
      - left. exists C. split; [exact HCf|]. sim_cbn S. congruence.
      - destruct (tail_ok _ _ HCf) as (Q & HQ & Hpos).
        inversion Hw; subst; sim_cbn S; try (left; exists C; split; [exact HCf|congruence]).
        right. left. rewrite <- S2.
        match goal with Hg : _ \/ _ \/ _ |- _ => destruct Hg as [Hz|[Hnone|(Q0 & HQ0 & Hnn & Hpp)]] end; [lia|congruence|].
        rewrite HQ in HQ0. injection HQ0 as <-. eexists C, _, Q. repeat split; eauto.
      - right. right. split; [exact Hn|]. unfold core in Hcore. injection Hcore as _ Hpi _ _ _ _ _ _ _. rewrite Hpi.
        exists P. split; [exact HP|]. intros Hd. destruct (ci_reg _ HC _ _ _ HP Hd) as (C0 & HC0 & _). congruence.
    Qed.

    Lemma post_tail_pre t (C' : config) : cfgs (step w l) !! t = Some C' -> is_Some (props w !! (t, c_proposed C')).
    Proof.
      intros H'. destruct (cfg_post_cases _ _ H') as [(C & HCf & ->)|[(C & P & Q & _ & _ & HP & _)|(_ & P & HP & _)]].
      - eapply ci_tail; eassumption.
      - rewrite HP. eexists; reflexivity.
      - rewrite HP. eexists; reflexivity.
    Qed.

    (* a proposal that is still initialising and not yet registered stays so *)
    Lemma open_post t n (Pn : prop) : props w !! (t, n) = Some Pn -> p_init Pn <> Some Done ->
      (forall C : config, cfgs w !! t = Some C -> c_proposed C < n) ->
      exists Pn' : prop, props (step w l) !! (t, n) = Some Pn' /\ p_init Pn' <> Some Done.
    Proof.
      intros HPn Hnd Hlt. destruct (prop_step_keep w l (t, n)) as [Pn' HPn']; [rewrite HPn; eexists; reflexivity|].
      exists Pn'. split; [exact HPn'|].
      destruct (prop_post_old _ _ _ _ _ HPn HPn') as [(_ & _ & He)|(t0 & i0 & n0 & o & _ & Hl)]; [congruence|].
      destruct Hl as [(_ & _ & [He|[(_ & _ & Hx)|([= <- <-] & _ & _ & C & HCf & Hle)]])|[(C & Pi & _ & _ & _ & _ & _ & _ & _ & ->)|(C & Q & _ & _ & _ & _ & _ & _ & _ & _ & ->)]];
        try congruence; try exact Hnd.
      specialize (Hlt _ HCf). lia.
    Qed.

    Lemma tailnext_core t (C : config) (Q Q' : prop) :
      cfgs w !! t = Some C -> props w !! (t, c_proposed C) = Some Q -> props (step w l) !! (t, c_proposed C) = Some Q' -> p_next Q' <> 0 ->
      exists Pn' : prop, props (step w l) !! (t, p_next Q') = Some Pn' /\ p_init Pn' <> Some Done.
    Proof.
      intros HCf HQ HQ' Hnn.
      assert (Hsame : p_next Q' = p_next Q -> exists Pn' : prop, props (step w l) !! (t, p_next Q') = Some Pn' /\ p_init Pn' <> Some Done).
      { intros He. rewrite He in Hnn |- *. destruct (ci_tailnext _ HC _ _ _ HCf HQ Hnn) as (Pn & HPn & Hnd).
        destruct (links_ordered candidate candidate_rb rollback_of overlay commit_merge payload record_applied touched restore
                    resync_payload doc_ok dev_apply stamp v_empty d_empty ch_empty _ _ _ _ Hr HQ) as [_ [Hz|Hlt]]; [congruence|].
        apply (open_post _ _ _ HPn Hnd). intros C0 HC0. rewrite HCf in HC0. injection HC0 as <-. exact Hlt. }
      destruct (prop_post_old _ _ _ _ _ HQ HQ') as [(_ & He & _)|(t0 & i0 & n0 & o & _ & Hl)]; [exact (Hsame He)|].
      destruct Hl as [(_ & He & _)|[(C1 & Pi & HC1 & HPi & Hdo & Hlt & _ & [= <- _] & _ & ->)|(C1 & Q1 & _ & _ & _ & _ & _ & _ & _ & _ & ->)]].
      - exact (Hsame He).
      - cbn. rewrite HCf in HC1. injection HC1 as <-. apply (open_post _ _ _ HPi); [congruence|].
        intros C0 HC0. rewrite HCf in HC0. injection HC0 as <-. exact Hlt.
      - apply Hsame. reflexivity.
    Qed.

    Lemma step_tailnext t (C' : config) (Q' : prop) :
      cfgs (step w l) !! t = Some C' -> props (step w l) !! (t, c_proposed C') = Some Q' -> p_next Q' <> 0 ->
      exists Pn' : prop, props (step w l) !! (t, p_next Q') = Some Pn' /\ p_init Pn' <> Some Done.
    Proof.
      intros H' HQ' Hnn.
      (* a tail that is still initialising has NextIndex 0, before and after the step *)
      assert (Hopen : forall P : prop, props w !! (t, c_proposed C') = Some P -> p_init P <> Some Done ->
                      (forall C : config, cfgs w !! t = Some C -> c_proposed C < c_proposed C') -> False).
      { intros P HP Hnd Hlt. pose proof (ci_opennext _ HC _ _ _ HP Hnd) as Hz.
        destruct (prop_post_old _ _ _ _ _ HP HQ') as [(_ & He & _)|(t0 & i0 & n0 & o & _ & Hl)]; [congruence|].
        destruct Hl as [(_ & He & _)|[(C1 & Pi & HC1 & _ & _ & Hlt1 & _ & [= <- Hk] & _ & ->)|(C1 & Q1 & _ & _ & _ & _ & _ & _ & _ & _ & ->)]];
          try congruence.
        - specialize (Hlt _ HC1). lia.
        - cbn in Hnn. congruence. }
      destruct (cfg_post_cases _ _ H') as [(C & HCf & He)|[(C & P & Q & HCf & Hlt & HP & Hdo & _)|(Hn & P & HP & Hnd)]].
      - rewrite He in HQ'. destruct (ci_tail _ HC _ _ HCf) as [Q HQ]. eapply tailnext_core; eassumption.
      - exfalso. apply (Hopen P HP); [congruence|]. intros C0 HC0. rewrite HCf in HC0. injection HC0 as <-. exact Hlt.
      - exfalso. apply (Hopen P HP Hnd). intros C0 HC0. congruence.
    Qed.
    (* a registered proposal (index <= Proposed.Index after the step) existed before the step, with the same PrevIndex
       unless the step linked it *)
    Lemma registered_pre t (C' : config) i (P' : prop) :
      cfgs (step w l) !! t = Some C' -> props (step w l) !! (t, i) = Some P' -> i <= c_proposed C' ->
      exists P : prop, props w !! (t, i) = Some P /\ (p_prev P' = 0 -> p_prev P = 0).
    Proof.
      intros H' HP' Hle. destruct (props w !! (t, i)) as [P|] eqn:HP.
      - exists P. split; [reflexivity|].
        destruct (prop_post_old _ _ _ _ _ HP HP') as [(He & _)|(t0 & i0 & n0 & o & _ & Hl)]; [congruence|].
        destruct Hl as [(He & _)|[(C1 & Pi & _ & _ & _ & _ & _ & _ & _ & ->)|(C1 & Q1 & _ & _ & _ & _ & Hpos & _ & _ & _ & ->)]];
          cbn; try congruence. lia.
      - exfalso. apply prop_post in HP'. destruct HP' as [(_ & _ & _ & _ & n & o & _ & Hin)|(P & HP0 & _)]; [|congruence].
        cbn in Hin. destruct (post_tail_pre _ _ H') as [Q HQ].
        destruct (N.eq_dec i (c_proposed C')) as [->|Hne]; [congruence|].
        eapply (no_create_below w t i (c_proposed C')); [exact Hr|exact Hin|exact HQ|lia].
    Qed.

    Lemma step_first t (C' : config) i j (P' Q' : prop) :
      cfgs (step w l) !! t = Some C' -> props (step w l) !! (t, i) = Some P' -> props (step w l) !! (t, j) = Some Q' ->
      i <= c_proposed C' -> j <= c_proposed C' -> p_prev P' = 0 -> i <= j.
    Proof.
      intros H' HP' HQ' Hi Hj Hz.
      destruct (registered_pre _ _ _ _ H' HP' Hi) as (P & HP & Hz'). specialize (Hz' Hz).
      destruct (registered_pre _ _ _ _ H' HQ' Hj) as (Q & HQ & _).
      destruct (cfg_post_cases _ _ H') as [(C & HCf & He)|[(C & Pw & Qt & HCf & Hlt & HPw & Hdo & _ & _ & Hpp)|(Hn & Pc & HPc & Hnd)]].
      - rewrite He in Hi, Hj. eapply (ci_first _ HC t C i j); eassumption.
      - destruct (N.le_gt_cases i (c_proposed C)) as [Hi0|Hi0].
        + destruct (N.le_gt_cases j (c_proposed C)) as [Hj0|Hj0]; [|lia]. eapply (ci_first _ HC t C i j); eassumption.
        + destruct (N.eq_dec i (c_proposed C')) as [->|Hne].
          * rewrite HP in HPw. injection HPw as <-. congruence.
          * exfalso. assert (Hd : p_init P = Some Done) by (eapply (OPEN w t i (c_proposed C')); [exact Hr|exact HP|exact HPw|lia]).
            destruct (ci_reg _ HC _ _ _ HP Hd) as (C0 & HC0 & Hle0). rewrite HCf in HC0. injection HC0 as <-. lia.
      - destruct (N.eq_dec j (c_proposed C')) as [->|Hne]; [exact Hi|].
        exfalso. assert (Hd : p_init Q = Some Done) by (eapply (OPEN w t j (c_proposed C')); [exact Hr|exact HQ|exact HPc|lia]).
        destruct (ci_reg _ HC _ _ _ HQ Hd) as (C0 & HC0 & _). congruence.
    Qed.

    Lemma step_cursors t (C' : config) : cfgs (step w l) !! t = Some C' ->
      (c_committed C' <> 0 -> exists P' : prop, props (step w l) !! (t, c_committed C') = Some P' /\ p_init P' = Some Done) /\
      (c_applied C' <> 0 -> exists P' : prop, props (step w l) !! (t, c_applied C') = Some P' /\ p_init P' = Some Done).
    Proof.
      intros H'.
      assert (Hmover : forall i (P : prop), props w !! (t, i) = Some P ->
                is_Some (p_validate P) \/ is_Some (p_commit P) \/ is_Some (p_apply P) \/ is_Some (p_abort P) ->
                exists P' : prop, props (step w l) !! (t, i) = Some P' /\ p_init P' = Some Done).
      { intros i P HP Hs. apply (init_done_post w l _ P HP). eapply phase_linked; eassumption. }
      assert (Hold : forall C : config, cfgs w !! t = Some C ->
                (c_committed C <> 0 -> exists P' : prop, props (step w l) !! (t, c_committed C) = Some P' /\ p_init P' = Some Done) /\
                (c_applied C <> 0 -> exists P' : prop, props (step w l) !! (t, c_applied C) = Some P' /\ p_init P' = Some Done)).
      { intros C HCf. split; intros Hnz.
        - destruct (ci_committed _ HC _ _ HCf Hnz) as (P & HP & Hd). eapply init_done_post; eassumption.
        - destruct (ci_applied _ HC _ _ HCf Hnz) as (P & HP & Hd). eapply init_done_post; eassumption. }
      apply cfg_step in H'.
      destruct H' as [(C & HCf & [S|(ctl & n & o & c0 & -> & Hw & S)])|(Hn & i & n & o & -> & _ & Hcore)].
      - sim_cbn S. rewrite <- S3, <- S4. apply Hold. exact HCf.
      - destruct (Hold _ HCf) as [Hc Ha].
        inversion Hw; subst; sim_cbn S; rewrite <- ?S3, <- ?S4; (split; [try exact Hc|try exact Ha]); intros _;
          match goal with HP : props _ !! (_, _) = Some ?P |- _ => apply (Hmover _ P HP) end;
          repeat match goal with H : _ = Some _ |- _ => rewrite H end; eauto 6.
      - unfold core in Hcore. injection Hcore as _ _ Hc Ha _ _ _ _ _. rewrite Hc, Ha. split; intros Hx; congruence.
    Qed.
  End Step.
  Lemma C_inv_step (w : world) l : reach w -> C_inv w -> C_inv (step w l).
  Proof.
    intros Hr HC. split.
    - apply step_tail; assumption.
    - apply step_reg; assumption.
    - apply step_prev; assumption.
    - apply step_tailnext; assumption.
    - apply step_opennext; assumption.
    - apply step_first; assumption.
    - intros t C' H'. exact (proj1 (step_cursors w l Hr HC t C' H')).
    - intros t C' H'. exact (proj2 (step_cursors w l Hr HC t C' H')).
  Qed.

  Theorem C_inv_reach (w : world) : reach w -> C_inv w.
  Proof.
    apply (reach_ind candidate candidate_rb rollback_of overlay commit_merge payload record_applied touched restore
                     resync_payload doc_ok dev_apply stamp v_empty d_empty ch_empty C_inv).
    - exact C_inv_init.
    - intros w0 l Hr Hi. apply C_inv_step; assumption.
  Qed.

  (** * Consequences: the chain is a chain *)
  (* no two INITIALIZED proposals of a target share a PrevIndex *)
  Theorem unique_prev (w : world) t i j (P Q : prop) :
    reach w -> props w !! (t, i) = Some P -> props w !! (t, j) = Some Q ->
    p_init P = Some Done -> p_init Q = Some Done -> p_prev P = p_prev Q -> i = j.
  Proof.
    intros Hr HP HQ Hdp Hdq He. pose proof (C_inv_reach _ Hr) as HC.
    destruct (N.eq_dec (p_prev P) 0) as [Hz|Hnz].
    - destruct (ci_reg _ HC _ _ _ HP Hdp) as (C & HCf & Hi). destruct (ci_reg _ HC _ _ _ HQ Hdq) as (C0 & HC0 & Hj).
      rewrite HCf in HC0. injection HC0 as <-.
      pose proof (ci_first _ HC t C i j P Q HCf HP HQ Hi Hj Hz).
      pose proof (ci_first _ HC t C j i Q P HCf HQ HP Hj Hi ltac:(congruence)). lia.
    - destruct (ci_prev _ HC _ _ _ HP Hnz) as (R & HR & Hn). rewrite He in HR, Hnz.
      destruct (ci_prev _ HC _ _ _ HQ Hnz) as (R' & HR' & Hn'). rewrite HR in HR'. injection HR' as <-. congruence.
  Qed.

  (* the first proposal of a target (PrevIndex 0) is below both cursors once they have moved *)
  Lemma first_below_cursors (w : world) t i (P : prop) (C : config) :
    reach w -> props w !! (t, i) = Some P -> cfgs w !! t = Some C -> p_init P = Some Done -> p_prev P = 0 ->
    (c_committed C = 0 \/ i <= c_committed C) /\ (c_applied C = 0 \/ i <= c_applied C).
  Proof.
    intros Hr HP HCf Hd Hz. pose proof (C_inv_reach _ Hr) as HC.
    destruct (ci_reg _ HC _ _ _ HP Hd) as (C0 & HC0 & Hi). rewrite HCf in HC0. injection HC0 as <-.
    split.
    - destruct (N.eq_dec (c_committed C) 0) as [|Hnz]; [left; assumption|right].
      destruct (ci_committed _ HC _ _ HCf Hnz) as (Q & HQ & Hdq). destruct (ci_reg _ HC _ _ _ HQ Hdq) as (C0 & HC0 & Hj).
      rewrite HCf in HC0. injection HC0 as <-. eapply (ci_first _ HC t C i (c_committed C)); eassumption.
    - destruct (N.eq_dec (c_applied C) 0) as [|Hnz]; [left; assumption|right].
      destruct (ci_applied _ HC _ _ HCf Hnz) as (Q & HQ & Hdq). destruct (ci_reg _ HC _ _ _ HQ Hdq) as (C0 & HC0 & Hj).
      rewrite HCf in HC0. injection HC0 as <-. eapply (ci_first _ HC t C i (c_applied C)); eassumption.
  Qed.
End ChainInv.

(* C04: the well-formedness of the values of the executable instance (Model/P2Inst.v) as an invariant.
   Part 1 (this file): the STATIC part - holds in every world reached by labels whose changes are well-formed, cut
   prefixes included:
     - every stored map / inlined map of a configuration has unique proper keys (= paths) and holds only values that
       are (a) a live value of the stamped change of an existing proposal of that target, carried verbatim, or (b) a
       tombstone whose index is 0 or that of an existing proposal whose change does not update that path;
     - every proposal's change is a well-formed change stamped with the proposal's index whose updates are leaves;
     - the rollback values recorded on a proposal are a well-formed change of such values.
   Consequence: idx_compat between any stored map and any proposal's change of the same target (same path and index =>
   same content).  [Lf t p]: p is a leaf path of target t; leaves are never beneath leaves. *)
From stdpp Require Import gmap.
From RecordUpdate Require Import RecordUpdate.
From Coq Require Import NArith Lia.
From OC Require Import Base.Bytes Model.P2Pure Model.Proto2 Model.P2Inst Proofs.P2Base Proofs.P2_Cursor.
From OC Require Import Proofs.P2PureApplyDefs Proofs.P2PureApplyBase Proofs.P2PureApplySem Proofs.P2PureApplySound
     Proofs.P2PureApplyStatus Proofs.P2PureReachPure.
Open Scope N_scope.

Notation plookup := P2Pure.lookup.

Section Static.
  Context (Lf : N -> str -> Prop).

  (** * Good values *)
  Definition vgood (w : Wd) (t : N) (v : pv) : Prop :=
    (pv_index v = 0 /\ pv_deleted v = true) \/
    exists P : Prop2, props w !! (t, pv_index v) = Some P /\
      match p_details P with
      | PChange c => if pv_deleted v then (forall e, plookup (pv_path v) c = Some e -> pv_deleted e = true)
                     else In (pv_path v, v) c
      | PRollback _ => pv_deleted v = true
      end.
  Definition cgood (w : Wd) (t : N) (m : cmap) : Prop := WF m /\ forall k v, In (k, v) m -> vgood w t v.
  (* the change of proposal (t, i) *)
  Definition chg_ok (t i : N) (c : cmap) : Prop :=
    WFC c /\ (forall k v, In (k, v) c -> pv_index v = i) /\ (forall k v, In (k, v) c -> pv_deleted v = false -> Lf t k).
  (* a change as it came from the northbound *)
  Definition nb_ok (t : N) (c : cmap) : Prop := WFC c /\ (forall k v, In (k, v) c -> pv_deleted v = false -> Lf t k).
  Definition tx_ok (d : @tdetails cmap) : Prop :=
    match d with TChange chs => forall t c, In (t, c) chs -> nb_ok t c | TRollback _ => True end.

  Definition pstable (w w' : Wd) : Prop :=
    forall k P, props w !! k = Some P -> exists P', props w' !! k = Some P' /\ p_details P' = p_details P.

  Lemma pstable_refl w : pstable w w.
  Proof. intros k P H. exists P. auto. Qed.
  Lemma pstable_trans w1 w2 w3 : pstable w1 w2 -> pstable w2 w3 -> pstable w1 w3.
  Proof.
    intros H1 H2 k P H. destruct (H1 _ _ H) as (P' & H' & E'). destruct (H2 _ _ H') as (P'' & H'' & E''). exists P''. split; [exact H''|congruence].
  Qed.

  Lemma vgood_mono w w' t v : pstable w w' -> vgood w t v -> vgood w' t v.
  Proof.
    intros Hs [H|(P & HP & H)]; [left; exact H|]. destruct (Hs _ _ HP) as (P' & HP' & E). right. exists P'. split; [exact HP'|].
    rewrite E. exact H.
  Qed.
  Lemma cgood_mono w w' t m : pstable w w' -> cgood w t m -> cgood w' t m.
  Proof. intros Hs [H1 H2]. split; [exact H1|]. intros k v Hin. eapply vgood_mono; eauto. Qed.

  Lemma cgood_nil w t : cgood w t [].
  Proof. split; [apply WF_nil|intros k v []]. Qed.

  (** * The static invariant *)
  Record SInv (w : Wd) : Prop := {
    si_next : next_index w <> 0;
    si_tx : forall i (T : Txn), txs w !! i = Some T -> i <> 0 /\ tx_ok (t_details T);
    si_prop : forall t i (P : Prop2), props w !! (t, i) = Some P ->
                i <> 0 /\ (forall c, p_details P = PChange c -> chg_ok t i c) /\
                (forall rb, p_rbvalues P = Some rb -> cgood w t rb /\ WFC rb);
    si_cfg : forall t (C : Cfg), cfgs w !! t = Some C ->
               cgood w t (c_values C) /\ cgood w t (c_avalues C) /\ cgood w t (c_inline C) /\ cgood w t (c_ainline C) }.

  (* the values of a proposal's own change are good *)
  Lemma change_vgood w t i (P : Prop2) c k v :
    props w !! (t, i) = Some P -> p_details P = PChange c -> chg_ok t i c -> In (k, v) c -> vgood w t v.
  Proof.
    intros HP Hd (Hc & Hi & _) Hin. right. rewrite (Hi _ _ Hin). exists P. split; [exact HP|]. rewrite Hd.
    destruct (proj2 (proj1 Hc) _ _ Hin) as [Hk _]. rewrite <- Hk.
    destruct (pv_deleted v) eqn:Ed; [|exact Hin]. intros e He. rewrite (in_lookup _ _ _ (proj1 (proj1 Hc)) Hin) in He.
    injection He as <-. exact Ed.
  Qed.

  Lemma rbc_change (P : Prop2) c : p_details P = PChange c -> rb_change nil P = c.
  Proof. destruct P; cbn. intros ->. reflexivity. Qed.
  Lemma rbc_rollback (P : Prop2) ri : p_details P = PRollback ri -> rb_change nil P = default nil (p_rbvalues P).
  Proof. destruct P; cbn. intros ->. reflexivity. Qed.

  Lemma rb_change_ok w t i (P : Prop2) : SInv w -> props w !! (t, i) = Some P ->
    cgood w t (rb_change nil P) /\ WFC (rb_change nil P).
  Proof.
    intros HS HP. destruct (si_prop w HS _ _ _ HP) as (Hi & Hc & Hr).
    destruct (p_details P) as [c|ri] eqn:Ed.
    - rewrite (rbc_change P c Ed). destruct (Hc c eq_refl) as (Hw & H2 & H3). split; [|exact Hw]. split; [apply Hw|]. intros k v Hin.
      apply (change_vgood w t i P c k v HP Ed (Hc c eq_refl) Hin).
    - rewrite (rbc_rollback P ri Ed). destruct (p_rbvalues P) as [rb|] eqn:Er; cbn; [apply Hr; reflexivity|].
      split; [apply cgood_nil|]. split; [apply WF_nil|]. intros k v kd d [].
  Qed.

  (** * Same path and index, same content *)
  Lemma vgood_coherent w t e v : SInv w -> vgood w t e -> vgood w t v ->
    pv_path e = pv_path v -> pv_index e = pv_index v -> same_content e v = true.
  Proof.
    intros HS He Hv Hp Hi.
    assert (Hdd : pv_deleted e = true -> pv_deleted v = true -> same_content e v = true).
    { intros H1 H2. unfold same_content. rewrite H1, H2. reflexivity. }
    destruct He as [[He0 Hed]|(P & HP & He)].
    - destruct Hv as [[_ Hvd]|(Q & HQ & _)]; [auto|]. rewrite <- Hi, He0 in HQ. destruct (si_prop w HS _ _ _ HQ) as [Hne _]. congruence.
    - destruct Hv as [[Hv0 Hvd]|(Q & HQ & Hv)].
      + rewrite Hi, Hv0 in HP. destruct (si_prop w HS _ _ _ HP) as [Hne _]. congruence.
      + rewrite <- Hi, HP in HQ. injection HQ as <-. destruct (si_prop w HS _ _ _ HP) as (_ & Hc & _).
        destruct (p_details P) as [c|ri]; [|auto]. destruct (Hc c eq_refl) as ((Hwc & _) & _ & _).
        destruct (pv_deleted e) eqn:Ee, (pv_deleted v) eqn:Ev.
        * auto.
        * rewrite <- Hp in Hv. apply (in_lookup _ _ _ (proj1 Hwc)) in Hv. apply He in Hv. congruence.
        * rewrite Hp in He. apply (in_lookup _ _ _ (proj1 Hwc)) in He. apply Hv in He. congruence.
        * rewrite Hp in He. apply (in_lookup _ _ _ (proj1 Hwc)) in He. apply (in_lookup _ _ _ (proj1 Hwc)) in Hv.
          rewrite He in Hv. injection Hv as <-. apply same_content_refl.
  Qed.

  Lemma cgood_idx_compat w t m ch : SInv w -> cgood w t m -> cgood w t ch -> idx_compat m ch = true.
  Proof.
    intros HS [Hm1 Hm2] [Hc1 Hc2]. unfold idx_compat. apply forallb_forall. intros [k e] Hin. cbn.
    destruct (plookup k ch) as [v|] eqn:Ev; [|reflexivity].
    destruct (pv_index e =? pv_index v) eqn:Ei; [|reflexivity]. cbn. apply N.eqb_eq in Ei.
    apply lookup_in in Ev. apply (vgood_coherent w t e v HS (Hm2 _ _ Hin) (Hc2 _ _ Ev)); [|exact Ei].
    destruct (proj2 Hm1 _ _ Hin) as [<- _]. destruct (proj2 Hc1 _ _ Ev) as [<- _]. reflexivity.
  Qed.

  (* a tombstone marked by AddDeleteChildren for proposal (t, i) is good *)
  Lemma mark_vgood w t i (P : Prop2) x : SInv w -> props w !! (t, i) = Some P -> is_mark i (rb_change nil P) x -> vgood w t (snd x).
  Proof.
    intros HS HP (H1 & H2 & H3 & kc & cv & H4 & H5 & H6). right. rewrite H3. exists P. split; [exact HP|].
    destruct (si_prop w HS _ _ _ HP) as (_ & Hc & _).
    destruct (p_details P) as [c|ri] eqn:Edt; [|exact H2]. rewrite (rbc_change P c Edt) in H4. rewrite H2. intros e He.
    destruct (Hc c eq_refl) as (Hw & _ & _). destruct (pv_deleted e) eqn:Ed; [reflexivity|]. exfalso.
    rewrite H1 in He. exact (proj2 Hw _ _ _ _ (lookup_in _ _ _ He) Ed H4 H5 H6).
  Qed.

  (** * What one effect may carry, relative to the snapshot [w] it was computed from *)
  Definition eff_ok (w : Wd) (e : Eff) : Prop :=
    match e with
    | EPutTx i T' => i <> 0 /\ tx_ok (t_details T')
    | ECreateProp (t, i) P' => i <> 0 /\ p_rbvalues P' = None /\ forall c, p_details P' = PChange c -> chg_ok t i c
    | EPutProp (t, i) P' =>
      exists P0 : Prop2, props w !! (t, i) = Some P0 /\ p_details P' = p_details P0 /\
                 forall rb, p_rbvalues P' = Some rb -> cgood w t rb /\ WFC rb
    | ECreateCfg t C' => c_values C' = [] /\ c_avalues C' = [] /\ c_inline C' = [] /\ c_ainline C' = []
    | EPutCfg t C' => cgood w t (c_inline C') /\ cgood w t (c_ainline C')
    | EPutValues t v => cgood w t v
    | EPutAValues t v => cgood w t v
    | _ => True
    end.

  Ltac four_mono H1 H2 H3 H4 :=
    split; [eapply cgood_mono; [eassumption|exact H1]|
    split; [eapply cgood_mono; [eassumption|exact H2]|
    split; [eapply cgood_mono; [eassumption|exact H3]|eapply cgood_mono; [eassumption|exact H4]]]].

  Lemma sinv_props_same (w w' : Wd) :
    props w' = props w -> next_index w' = next_index w ->
    (forall i (T : Txn), txs w' !! i = Some T -> i <> 0 /\ tx_ok (t_details T)) ->
    (forall t (C : Cfg), cfgs w' !! t = Some C ->
       cgood w t (c_values C) /\ cgood w t (c_avalues C) /\ cgood w t (c_inline C) /\ cgood w t (c_ainline C)) ->
    SInv w -> SInv w'.
  Proof.
    intros Hp Hn Ht Hc HS.
    assert (Hst : pstable w w') by (intros k P H; exists P; rewrite Hp; auto).
    split.
    - rewrite Hn. apply HS.
    - exact Ht.
    - intros t i P HP. rewrite Hp in HP. destruct (si_prop w HS _ _ _ HP) as (H1 & H2 & H3). split; [exact H1|]. split; [exact H2|].
      intros rb Hrb. destruct (H3 rb Hrb). split; [eapply cgood_mono; eauto|assumption].
    - intros t C HC. destruct (Hc t C HC) as (H1 & H2 & H3 & H4). four_mono H1 H2 H3 H4.
  Qed.

  Lemma apply_eff_static (w w' : Wd) (e : Eff) :
    SInv w' -> pstable w w' -> eff_ok w e -> SInv (p2_apply_eff w' e) /\ pstable w (p2_apply_eff w' e).
  Proof.
    intros HS Hst He. unfold p2_apply_eff.
    destruct e as [i T'|[t i] P'|[t i] P'|t C'|t C'|t v|t v|c t|c|ev].
    - (* EPutTx *)
      split; [|intros k P H; rewrite (props_apply_eff dev_apply nil); apply Hst; exact H].
      destruct He as [Hi Ht]. apply (sinv_props_same w'); try reflexivity; [| |exact HS].
      + intros j T. cbn. destruct (decide (i = j)) as [<-|Hne]; [rewrite fin_maps.lookup_insert; intros [= <-]; auto|].
        rewrite lookup_insert_ne by exact Hne. apply (si_tx w' HS).
      + intros t C HC. apply (si_cfg w' HS). exact HC.
    - (* ECreateProp *)
      destruct He as (Hi & Hr & Hc). cbn. destruct (props w' !! (t, i)) as [P1|] eqn:E1; [split; [exact HS|exact Hst]|].
      assert (Hst' : pstable w' (w' <| props := <[(t, i) := P']> (props w') |>)).
      { intros k P H. cbn. destruct (decide ((t, i) = k)) as [<-|Hne]; [congruence|]. rewrite lookup_insert_ne by exact Hne. exists P. auto. }
      split; [|eapply pstable_trans; eauto]. split.
      + apply HS.
      + apply (si_tx w' HS).
      + intros t0 i0 P. cbn. destruct (decide ((t, i) = (t0, i0))) as [[= <- <-]|Hne].
        * rewrite fin_maps.lookup_insert. intros [= <-]. split; [exact Hi|]. split; [exact Hc|]. rewrite Hr. discriminate.
        * rewrite lookup_insert_ne by exact Hne. intros HP. destruct (si_prop w' HS _ _ _ HP) as (H1 & H2 & H3).
          split; [exact H1|]. split; [exact H2|]. intros rb Hrb. destruct (H3 rb Hrb). split; [eapply cgood_mono; eauto|assumption].
      + intros t0 C HC. destruct (si_cfg w' HS t0 C HC) as (H1 & H2 & H3 & H4). four_mono H1 H2 H3 H4.
    - (* EPutProp *)
      destruct He as (P0 & HP0 & Hd & Hrb). destruct (Hst _ _ HP0) as (P1 & HP1 & Hd1). cbn.
      assert (Hst' : pstable w' (w' <| props := <[(t, i) := P']> (props w') |>)).
      { intros k P H. cbn. destruct (decide ((t, i) = k)) as [<-|Hne].
        - rewrite fin_maps.lookup_insert. exists P'. split; [reflexivity|]. rewrite HP1 in H. injection H as <-. congruence.
        - rewrite lookup_insert_ne by exact Hne. exists P. auto. }
      split; [|eapply pstable_trans; eauto]. split.
      + apply HS.
      + apply (si_tx w' HS).
      + intros t0 i0 P. cbn. destruct (decide ((t, i) = (t0, i0))) as [[= <- <-]|Hne].
        * rewrite fin_maps.lookup_insert. intros [= <-]. destruct (si_prop w' HS _ _ _ HP1) as (H1 & H2 & _). split; [exact H1|].
          split; [intros c Hc; apply H2; congruence|]. intros rb Hr. destruct (Hrb rb Hr) as [G1 G2]. split; [|exact G2].
          eapply cgood_mono; [|exact G1]. eapply pstable_trans; eauto.
        * rewrite lookup_insert_ne by exact Hne. intros HP. destruct (si_prop w' HS _ _ _ HP) as (H1 & H2 & H3).
          split; [exact H1|]. split; [exact H2|]. intros rb Hr. destruct (H3 rb Hr). split; [eapply cgood_mono; eauto|assumption].
      + intros t0 C HC. destruct (si_cfg w' HS t0 C HC) as (H1 & H2 & H3 & H4). four_mono H1 H2 H3 H4.
    - (* ECreateCfg *)
      split; [|intros k P H; rewrite (props_apply_eff dev_apply nil); apply Hst; exact H].
      destruct He as (E1 & E2 & E3 & E4). cbn. destruct (cfgs w' !! t) eqn:E; [exact HS|].
      apply (sinv_props_same w'); try reflexivity; [apply (si_tx w' HS)| |exact HS].
      intros t0 C. cbn. destruct (decide (t = t0)) as [<-|Hne].
      + rewrite fin_maps.lookup_insert. intros [= <-]. rewrite E1, E2, E3, E4. split; [apply cgood_nil|]. split; [apply cgood_nil|]. split; apply cgood_nil.
      + rewrite lookup_insert_ne by exact Hne. apply (si_cfg w' HS).
    - (* EPutCfg *)
      split; [|intros k P H; rewrite (props_apply_eff dev_apply nil); apply Hst; exact H].
      destruct He as [G1 G2]. cbn. destruct (cfgs w' !! t) as [c0|] eqn:E; [|exact HS].
      apply (sinv_props_same w'); try reflexivity; [apply (si_tx w' HS)| |exact HS].
      intros t0 C. cbn. destruct (decide (t = t0)) as [<-|Hne].
      + rewrite fin_maps.lookup_insert. intros [= <-]. cbn. destruct (si_cfg w' HS t c0 E) as (H1 & H2 & _).
        split; [exact H1|]. split; [exact H2|]. split; eapply cgood_mono; eauto.
      + rewrite lookup_insert_ne by exact Hne. apply (si_cfg w' HS).
    - (* EPutValues *)
      split; [|intros k P H; rewrite (props_apply_eff dev_apply nil); apply Hst; exact H].
      cbn in He. cbn. destruct (cfgs w' !! t) as [c0|] eqn:E; [|exact HS].
      apply (sinv_props_same w'); try reflexivity; [apply (si_tx w' HS)| |exact HS].
      intros t0 C. cbn. destruct (decide (t = t0)) as [<-|Hne].
      + rewrite fin_maps.lookup_insert. intros [= <-]. cbn. destruct (si_cfg w' HS t c0 E) as (H1 & H2 & H3 & H4).
        split; [eapply cgood_mono; eauto|]. auto.
      + rewrite lookup_insert_ne by exact Hne. apply (si_cfg w' HS).
    - (* EPutAValues *)
      split; [|intros k P H; rewrite (props_apply_eff dev_apply nil); apply Hst; exact H].
      cbn in He. cbn. destruct (cfgs w' !! t) as [c0|] eqn:E; [|exact HS].
      apply (sinv_props_same w'); try reflexivity; [apply (si_tx w' HS)| |exact HS].
      intros t0 C. cbn. destruct (decide (t = t0)) as [<-|Hne].
      + rewrite fin_maps.lookup_insert. intros [= <-]. cbn. destruct (si_cfg w' HS t c0 E) as (H1 & H2 & H3 & H4).
        split; [exact H1|]. split; [eapply cgood_mono; eauto|]. auto.
      + rewrite lookup_insert_ne by exact Hne. apply (si_cfg w' HS).
    - split; [|intros k P H; rewrite (props_apply_eff dev_apply nil); apply Hst; exact H].
      cbn. destruct (rels w' !! c); [exact HS|]. apply (sinv_props_same w'); try reflexivity; [apply (si_tx w' HS)|apply (si_cfg w' HS)|exact HS].
    - split; [|intros k P H; rewrite (props_apply_eff dev_apply nil); apply Hst; exact H].
      apply (sinv_props_same w'); try reflexivity; [apply (si_tx w' HS)|apply (si_cfg w' HS)|exact HS].
    - split; [|intros k P H; rewrite (props_apply_eff dev_apply nil); apply Hst; exact H].
      destruct ev as [t c term og r a]. cbn. destruct a; (apply (sinv_props_same w'); try reflexivity; [apply (si_tx w' HS)|apply (si_cfg w' HS)|exact HS]).
  Qed.

  Lemma fold_static (es : list Eff) : forall (w w' : Wd) (k : nat),
    SInv w' -> pstable w w' -> Forall (eff_ok w) es -> SInv (fold_left p2_apply_eff (firstn k es) w').
  Proof.
    induction es as [|e es IH]; intros w w' k HS Hst Hf; [rewrite firstn_nil; exact HS|].
    destruct k as [|k]; [exact HS|]. cbn [firstn fold_left]. inversion Hf as [|? ? He Hr]; subst.
    destruct (apply_eff_static w w' e HS Hst He) as [HS' Hst']. apply (IH w); assumption.
  Qed.
End Static.

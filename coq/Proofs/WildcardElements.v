(* Get's filter with wildcards (Model/Wildcard.v: MatchWildcardRegexp as tokens) against the reference query semantics
   of Spec/Gnmi.v (qmatch on element lists):  for a query given as query steps - names, keys, "*" as an element name,
   [k=*], "..." as an element - and written as text the way gNMI paths are printed, the regular expression built from that
   text accepts the text of a path EXACTLY when the query steps match a prefix of the path's steps: wildcards stop at
   path element boundaries, "*" is one whole name or one whole key value, "..." one or more whole elements. *)
From Coq Require Import List NArith Bool Lia.
From OC Require Import Base.Bytes Model.Merge Model.Wildcard Spec.Gnmi
     Proofs.MergeProofs Proofs.TextPathProofs Proofs.WildcardProofs Proofs.PathAbstraction.
Import ListNotations.
Open Scope N_scope.

(* ------------------------------------------------------------------ the matcher, token by token *)
Lemma rmatch_lit_cons c ts e x s : rmatch (RLit c :: ts) e (x :: s) = (x =? c) && rmatch ts e s.
Proof. reflexivity. Qed.
Lemma rmatch_lit_nil c ts e : rmatch (RLit c :: ts) e [] = false.
Proof. reflexivity. Qed.

Lemma rmatch_lits_app l : forall ts e s,
  rmatch (map RLit l ++ ts) e s = match strip_prefix l s with Some r => rmatch ts e r | None => false end.
Proof.
  induction l as [|c l IH]; intros ts e s; [reflexivity|]. cbn [map app strip_prefix].
  destruct s as [|x s]; [reflexivity|]. rewrite rmatch_lit_cons, N.eqb_sym.
  destruct (c =? x); cbn [andb]; [apply IH | reflexivity].
Qed.

Lemma rmatch_lstar ts e s :
  rmatch (RLegalStar :: ts) e s
  = rmatch ts e s || match s with x :: s' => legal_char x && rmatch (RLegalStar :: ts) e s' | [] => false end.
Proof. destruct s; reflexivity. Qed.

Lemma rmatch_astar ts e s :
  rmatch (RAnyStar :: ts) e s
  = rmatch ts e s || match s with x :: s' => negb (x =? 10) && rmatch (RAnyStar :: ts) e s' | [] => false end.
Proof. destruct s; reflexivity. Qed.

Lemma rmatch_lstar_iff ts e s :
  rmatch (RLegalStar :: ts) e s = true <->
  exists a r, s = a ++ r /\ forallb legal_char a = true /\ rmatch ts e r = true.
Proof.
  induction s as [|x s IH]; rewrite rmatch_lstar, orb_true_iff.
  - split.
    + intros [H|H]; [exists [], []; auto | discriminate].
    + intros [a [r [E [_ H]]]]. destruct a; [|discriminate]. cbn in E. subst r. left. exact H.
  - rewrite andb_true_iff, IH. split.
    + intros [H|[L [a [r [-> [La H]]]]]]; [exists [], (x :: s); auto|].
      exists (x :: a), r. cbn. rewrite L, La. auto.
    + intros [a [r [E [La H]]]]. destruct a as [|y a].
      * cbn in E. subst r. left. exact H.
      * cbn in E. injection E as <- ->. cbn in La. apply andb_true_iff in La. destruct La as [L La].
        right. split; [exact L|]. exists a, r. auto.
Qed.

Definition nonl (a : str) : bool := forallb (fun x => negb (x =? 10)) a.

Lemma rmatch_astar_iff ts e s :
  rmatch (RAnyStar :: ts) e s = true <->
  exists a r, s = a ++ r /\ nonl a = true /\ rmatch ts e r = true.
Proof.
  induction s as [|x s IH]; rewrite rmatch_astar, orb_true_iff.
  - split.
    + intros [H|H]; [exists [], []; auto | discriminate].
    + intros [a [r [E [_ H]]]]. destruct a; [|discriminate]. cbn in E. subst r. left. exact H.
  - rewrite andb_true_iff, IH. split.
    + intros [H|[L [a [r [-> [La H]]]]]]; [exists [], (x :: s); auto|].
      exists (x :: a), r. unfold nonl in *. cbn. rewrite L, La. auto.
    + intros [a [r [E [La H]]]]. destruct a as [|y a].
      * cbn in E. subst r. left. exact H.
      * cbn in E. injection E as <- ->. unfold nonl in La. cbn in La. apply andb_true_iff in La. destruct La as [L La].
        right. split; [exact L|]. exists a, r. auto.
Qed.

(* ------------------------------------------------------------------ the alphabets *)
Lemma legal_char_facts c : legal_char c = true ->
  is_boundary c = false /\ c <> c_slash /\ c <> c_eq /\ c <> c_rbr /\ c <> 10 /\ c <> c_star.
Proof.
  unfold legal_char, is_boundary, c_slash, c_lbr, c_eq, c_rbr, c_star.
  rewrite !orb_true_iff, !andb_true_iff, !N.leb_le, !N.eqb_eq, orb_false_iff, !N.eqb_neq. lia.
Qed.

(* the literal characters of a query: those of a path, without the dot (three dots are a wildcard) *)
Definition qchar (c : N) : bool := legal_char c && negb (c =? c_dot).

Lemma qchar_legal c : qchar c = true -> legal_char c = true.
Proof. unfold qchar. rewrite andb_true_iff. tauto. Qed.

Lemma qchar_plain c : qchar c = true -> plain_char c = true.
Proof.
  unfold qchar, plain_char. rewrite andb_true_iff. intros [L D]. rewrite D.
  destruct (legal_char_facts c L) as [_ [_ [_ [_ [_ H]]]]]. apply N.eqb_neq in H. rewrite H. reflexivity.
Qed.

Definition legal (s : str) : Prop := forallb legal_char s = true.
Definition qlegal (s : str) : Prop := forallb qchar s = true.

Lemma legal_in s c : legal s -> In c s -> legal_char c = true.
Proof. unfold legal. rewrite forallb_forall. auto. Qed.

Lemma qlegal_legal s : qlegal s -> legal s.
Proof. unfold qlegal, legal. rewrite !forallb_forall. intros H c HI. apply qchar_legal, H, HI. Qed.

Lemma legal_no_boundary s : legal s -> no_boundary s.
Proof. intros L c HI. apply (legal_char_facts c (legal_in s c L HI)). Qed.

Lemma legal_notin s c : legal s -> legal_char c = false -> ~ In c s.
Proof. intros L F HI. rewrite (legal_in s c L HI) in F. discriminate. Qed.

Lemma legal_no_eq s : legal s -> ~ In c_eq s.
Proof. intros L. apply (legal_notin s c_eq L). reflexivity. Qed.
Lemma legal_no_rbr s : legal s -> ~ In c_rbr s.
Proof. intros L. apply (legal_notin s c_rbr L). reflexivity. Qed.
Lemma legal_no_slash s : legal s -> ~ In c_slash s.
Proof. intros L. apply (legal_notin s c_slash L). reflexivity. Qed.

Lemma legal_nonl s : legal s -> nonl s = true.
Proof.
  unfold legal, nonl. rewrite !forallb_forall. intros H c HI. apply negb_true_iff, N.eqb_neq.
  apply (legal_char_facts c (H c HI)).
Qed.

(* paths whose names, key names and key values are over the characters "*" stands for *)
Definition lstep (s : step) : Prop :=
  match s with
  | SName n => n <> [] /\ legal n
  | SKey k v => legal k /\ legal v
  end.
Definition lpath (p : spath) : Prop := Forall lstep p.

Definition lstepb (s : step) : bool :=
  match s with
  | SName n => negb (eqb_str n []) && forallb legal_char n
  | SKey k v => forallb legal_char k && forallb legal_char v
  end.
Definition lpathb (p : spath) : bool := forallb lstepb p.

Lemma lpathb_ok p : lpathb p = true -> lpath p.
Proof.
  unfold lpathb, lpath. rewrite forallb_forall. intros H. apply Forall_forall. intros s HI. specialize (H s HI).
  destruct s as [n|k v]; cbn in *; apply andb_true_iff in H; destruct H as [H1 H2]; split; auto.
  apply negb_true_iff in H1. apply eqb_str_neq in H1. exact H1.
Qed.

Lemma lstep_wf s : lstep s -> step_wf s.
Proof.
  destruct s as [n|k v]; cbn; intros [H1 H2].
  - split; [exact H1 | apply legal_no_boundary; exact H2].
  - split; [apply legal_no_eq; exact H1 | apply legal_no_rbr; exact H2].
Qed.

Lemma lpath_wf p : lpath p -> spath_wf p.
Proof. unfold lpath, spath_wf. intros H. apply Forall_forall. intros s HI. apply lstep_wf. rewrite Forall_forall in H. apply H, HI. Qed.

Lemma nonl_app a b : nonl (a ++ b) = nonl a && nonl b.
Proof. unfold nonl. apply forallb_app. Qed.

Lemma render_nonl p : lpath p -> nonl (render p) = true.
Proof.
  induction p as [|s p IH]; intros L; [reflexivity|]. inversion L as [|? ? Ls Lp]; subst.
  rewrite render_cons, nonl_app, (IH Lp), andb_true_r.
  destruct s as [n|k v]; cbn [render_step lstep] in *; destruct Ls as [H1 H2].
  - change (nonl (c_slash :: n)) with (nonl n). apply legal_nonl. exact H2.
  - change (nonl (c_lbr :: k ++ c_eq :: v ++ [c_rbr])) with (nonl (k ++ c_eq :: v ++ [c_rbr])).
    rewrite nonl_app. change (nonl (c_eq :: v ++ [c_rbr])) with (nonl (v ++ [c_rbr])). rewrite nonl_app.
    rewrite (legal_nonl k H1), (legal_nonl v H2). reflexivity.
Qed.

(* ------------------------------------------------------------------ every '/' of a path text starts an element *)
Lemma nodelim_app (d : N) (b : str) : forall (R x y : str), ~ In d b -> b ++ R = x ++ d :: y ->
  exists x', x = b ++ x' /\ R = x' ++ d :: y.
Proof.
  induction b as [|c b IH]; intros R x y Hb E; [exists x; auto|].
  destruct x as [|c' x]; cbn in E.
  - injection E as -> _. exfalso. apply Hb. left. reflexivity.
  - injection E as <- E. destruct (IH R x y) as [x' [-> HR]]; [intros HI; apply Hb; right; exact HI | exact E|].
    exists x'. auto.
Qed.

Lemma slash_split p : forall x y, lpath p -> render p = x ++ c_slash :: y ->
  exists pre p', p = pre ++ p' /\ render pre = x /\ render p' = c_slash :: y /\ starts_with_name p' = true.
Proof.
  induction p as [|s p IH]; intros x y L E; [destruct x; discriminate|].
  inversion L as [|? ? Ls Lp]; subst. rewrite render_cons in E.
  destruct x as [|c x].
  - destruct s as [n|k v]; [|cbn in E; discriminate].
    exists [], (SName n :: p). rewrite render_cons. auto.
  - assert (TAIL : forall b, render_step s = c :: b -> ~ In c_slash b ->
                   exists pre p', s :: p = pre ++ p' /\ render pre = c :: x /\ render p' = c_slash :: y /\ starts_with_name p' = true).
    { intros b Es Hb. rewrite Es in E. cbn in E. injection E as E.
      destruct (nodelim_app c_slash b (render p) x y Hb E) as [x' [-> HR]].
      destruct (IH x' y Lp HR) as [pre [p' [-> [H1 [H2 H3]]]]].
      exists (s :: pre), p'. rewrite render_cons, Es, H1. auto. }
    destruct s as [n|k v]; cbn [render_step lstep] in *; destruct Ls as [H1 H2].
    + injection E as <- E. apply (TAIL n eq_refl). apply legal_no_slash. exact H2.
    + injection E as <- E. apply (TAIL _ eq_refl). intros HI. apply in_app_or in HI. destruct HI as [HI|[HI|HI]].
      * apply (legal_no_slash k H1 HI).
      * discriminate.
      * apply in_app_or in HI. destruct HI as [HI|[HI|[]]]; [apply (legal_no_slash v H2 HI) | discriminate].
Qed.

(* ------------------------------------------------------------------ queries as text and as tokens *)
Definition qrender_step (s : qstep) : str :=
  match s with
  | QName n => c_slash :: n
  | QKey k v => c_lbr :: k ++ c_eq :: v ++ [c_rbr]
  | QAnyName => [c_slash; c_star]
  | QAnyKey k => c_lbr :: k ++ [c_eq; c_star; c_rbr]
  | QDeep => [c_slash; c_dot; c_dot; c_dot]
  end.
Definition qrender (q : list qstep) : str := concat (map qrender_step q).

Definition qtoks_step (s : qstep) : list rtok :=
  match s with
  | QName n => RLit c_slash :: map RLit n
  | QKey k v => map RLit (c_lbr :: k ++ c_eq :: v ++ [c_rbr])
  | QAnyName => [RLit c_slash; RLegalStar]
  | QAnyKey k => map RLit (c_lbr :: k ++ [c_eq]) ++ [RLegalStar; RLit c_rbr]
  | QDeep => [RLit c_slash; RAnyStar]
  end.
Definition qtoks (q : list qstep) : list rtok := concat (map qtoks_step q).

Definition qstep_wf (s : qstep) : Prop :=
  match s with
  | QName n => n <> [] /\ qlegal n
  | QKey k v => qlegal k /\ qlegal v
  | QAnyName => True
  | QAnyKey k => qlegal k
  | QDeep => True
  end.

Definition name_like (s : qstep) : bool :=
  match s with QName _ | QAnyName | QDeep => true | _ => false end.

(* "..." stands for whole elements: it is the last step or an element name / wildcard follows *)
Fixpoint deep_ok (q : list qstep) : bool :=
  match q with
  | [] => true
  | QDeep :: q' => match q' with [] => true | y :: _ => name_like y end && deep_ok q'
  | _ :: q' => deep_ok q'
  end.

Definition query_wf (q : list qstep) : Prop := Forall qstep_wf q /\ deep_ok q = true.

Definition qstep_wfb (s : qstep) : bool :=
  match s with
  | QName n => negb (eqb_str n []) && forallb qchar n
  | QKey k v => forallb qchar k && forallb qchar v
  | QAnyName => true
  | QAnyKey k => forallb qchar k
  | QDeep => true
  end.
Definition query_wfb (q : list qstep) : bool := forallb qstep_wfb q && deep_ok q.

Lemma query_wfb_ok q : query_wfb q = true -> query_wf q.
Proof.
  unfold query_wfb, query_wf. rewrite andb_true_iff, forallb_forall. intros [H D]. split; [|exact D].
  apply Forall_forall. intros s HI. specialize (H s HI). destruct s as [n|k v| |k|]; cbn in *; auto.
  - apply andb_true_iff in H. destruct H as [H1 H2]. apply negb_true_iff in H1. apply eqb_str_neq in H1. auto.
  - apply andb_true_iff in H. exact H.
Qed.

Lemma compile_plain_cons c q : plain_char c = true -> compile_toks (c :: q) = RLit c :: compile_toks q.
Proof.
  unfold plain_char. rewrite andb_true_iff, !negb_true_iff. intros [H1 H2].
  destruct q as [|c2 [|c3 q3]]; cbn [compile_toks]; rewrite H1, ?H2; reflexivity.
Qed.

Lemma compile_plain_app l rest : plain l = true -> compile_toks (l ++ rest) = map RLit l ++ compile_toks rest.
Proof.
  induction l as [|c l IH]; intros H; [reflexivity|]. cbn [plain forallb] in H. apply andb_true_iff in H.
  destruct H as [Hc Hl]. cbn [app map]. rewrite (compile_plain_cons c _ Hc), (IH Hl). reflexivity.
Qed.

Lemma compile_star q : compile_toks (c_star :: q) = RLegalStar :: compile_toks q.
Proof. destruct q as [|c2 [|c3 q3]]; reflexivity. Qed.

Lemma compile_deep q : compile_toks (c_dot :: c_dot :: c_dot :: q) = RAnyStar :: compile_toks q.
Proof. reflexivity. Qed.

Lemma qlegal_plain s : qlegal s -> plain s = true.
Proof. unfold qlegal, plain. rewrite !forallb_forall. intros H c HI. apply qchar_plain, H, HI. Qed.

Lemma plain_cons c s : plain_char c = true -> plain s = true -> plain (c :: s) = true.
Proof. intros H1 H2. cbn. rewrite H1. exact H2. Qed.

Lemma plain_app a b : plain a = true -> plain b = true -> plain (a ++ b) = true.
Proof. unfold plain. intros H1 H2. rewrite forallb_app, H1, H2. reflexivity. Qed.

Lemma compile_qstep s rest : qstep_wf s ->
  compile_toks (qrender_step s ++ rest) = qtoks_step s ++ compile_toks rest.
Proof.
  destruct s as [n|k v| |k|]; cbn [qrender_step qtoks_step qstep_wf].
  - intros [_ Hn]. change ((c_slash :: n) ++ rest) with (c_slash :: (n ++ rest)).
    rewrite compile_plain_cons by reflexivity. rewrite (compile_plain_app n rest (qlegal_plain n Hn)). reflexivity.
  - intros [Hk Hv]. apply compile_plain_app. apply plain_cons; [reflexivity|]. apply plain_app; [apply qlegal_plain; exact Hk|].
    apply plain_cons; [reflexivity|]. apply plain_app; [apply qlegal_plain; exact Hv | reflexivity].
  - intros _. cbn [app]. rewrite compile_plain_cons by reflexivity. rewrite compile_star. reflexivity.
  - intros Hk. change ((c_lbr :: k ++ [c_eq; c_star; c_rbr]) ++ rest) with (c_lbr :: ((k ++ [c_eq; c_star; c_rbr]) ++ rest)).
    rewrite <- app_assoc. change ([c_eq; c_star; c_rbr] ++ rest) with ([c_eq] ++ c_star :: c_rbr :: rest).
    rewrite app_assoc. change (c_lbr :: (k ++ [c_eq]) ++ c_star :: c_rbr :: rest) with ((c_lbr :: k ++ [c_eq]) ++ c_star :: c_rbr :: rest).
    rewrite compile_plain_app.
    + rewrite compile_star, compile_plain_cons by reflexivity. rewrite <- app_assoc. reflexivity.
    + apply plain_cons; [reflexivity|]. apply plain_app; [apply qlegal_plain; exact Hk | reflexivity].
  - intros _. cbn [app]. rewrite compile_plain_cons by reflexivity. rewrite compile_deep. reflexivity.
Qed.

Lemma compile_qrender q : Forall qstep_wf q -> compile_toks (qrender q) = qtoks q.
Proof.
  induction q as [|s q IH]; intros F; [reflexivity|]. inversion F as [|? ? Fs Fq]; subst.
  unfold qrender, qtoks in *. cbn [map concat]. rewrite (compile_qstep s _ Fs), (IH Fq). reflexivity.
Qed.

(* ------------------------------------------------------------------ the end of the expression *)
Fixpoint ends_deep (q : list qstep) : bool :=
  match q with
  | [] => false
  | [s] => match s with QDeep => true | _ => false end
  | _ :: q' => ends_deep q'
  end.

Lemma qrender_last q : q <> [] -> Forall qstep_wf q -> ends_deep q = false ->
  exists t c, qrender q = t ++ [c] /\ c <> c_slash /\ c <> c_dot.
Proof.
  induction q as [|s q IH]; intros NE F D; [congruence|]. inversion F as [|? ? Fs Fq]; subst.
  destruct q as [|s2 q2].
  - unfold qrender. cbn [map concat]. rewrite app_nil_r. destruct s as [n|k v| |k|]; cbn [qrender_step qstep_wf] in *.
    + destruct Fs as [Hn Ln]. destruct (exists_last Hn) as [t [c ->]]. exists (c_slash :: t), c. split; [reflexivity|].
      assert (Q : qchar c = true).
      { unfold qlegal in Ln. rewrite forallb_forall in Ln. apply Ln. apply in_or_app. right. left. reflexivity. }
      unfold qchar in Q. apply andb_true_iff in Q. destruct Q as [L Dt]. apply negb_true_iff, N.eqb_neq in Dt.
      destruct (legal_char_facts c L) as [_ [H _]]. auto.
    + exists (c_lbr :: k ++ c_eq :: v), c_rbr. split; [cbn; rewrite <- app_assoc; reflexivity|]. split; discriminate.
    + exists [c_slash], c_star. split; [reflexivity|]. split; discriminate.
    + exists (c_lbr :: k ++ [c_eq; c_star]), c_rbr. split; [cbn; rewrite <- app_assoc; reflexivity|]. split; discriminate.
    + discriminate.
  - destruct (IH ltac:(discriminate) Fq) as [t [c [E H]]].
    + destruct s; exact D.
    + exists (qrender_step s ++ t), c. split; [|exact H].
      unfold qrender in *. cbn [map concat] in *. rewrite E, app_assoc. reflexivity.
Qed.

Lemma compile_end_query q : Forall qstep_wf q -> ends_deep q = false -> compile_end (qrender q) false = EndBoundary.
Proof.
  intros F D. destruct q as [|s0 q0]; [reflexivity|].
  destruct (qrender_last (s0 :: q0) ltac:(discriminate) F D) as [t [c [E [H1 H2]]]].
  unfold compile_end, ends_with. rewrite E.
  assert (A : suffixb [c_slash] (t ++ [c]) = false).
  { destruct (suffixb [c_slash] (t ++ [c])) eqn:S; [|reflexivity]. apply suffixb_spec in S. destruct S as [r S].
    apply app_inj_tail in S. destruct S as [_ S]. congruence. }
  assert (Bd : suffixb [c_dot; c_dot; c_dot] (t ++ [c]) = false).
  { destruct (suffixb [c_dot; c_dot; c_dot] (t ++ [c])) eqn:S; [|reflexivity]. apply suffixb_spec in S. destruct S as [r S].
    change (r ++ [c_dot; c_dot; c_dot]) with (r ++ [c_dot; c_dot] ++ [c_dot]) in S. rewrite app_assoc in S.
    apply app_inj_tail in S. destruct S as [_ S]. congruence. }
  rewrite A, Bd. reflexivity.
Qed.

Lemma compile_end_cases s : compile_end s false = EndOpen \/ compile_end s false = EndBoundary.
Proof. unfold compile_end. destruct (_ || _); auto. Qed.

(* ------------------------------------------------------------------ "..." in the reference semantics *)
Definition deep_aux (f : spath -> bool) : spath -> bool :=
  fix deep (p : spath) : bool :=
    match p with
    | [] => false
    | _ :: p' => (starts_with_name p' && f p') || deep p'
    end.

Lemma qmatch_deep q' p :
  qmatch (QDeep :: q') p = starts_with_name p && match q' with [] => true | _ => deep_aux (qmatch q') p end.
Proof. destruct q'; reflexivity. Qed.

Lemma deep_aux_iff f p : deep_aux f p = true <->
  exists pre p', pre <> [] /\ p = pre ++ p' /\ starts_with_name p' = true /\ f p' = true.
Proof.
  induction p as [|s p IH]; cbn [deep_aux].
  - split; [discriminate|]. intros [pre [p' [NE [E _]]]]. destruct pre; [congruence | discriminate].
  - change ((fix deep (p0 : spath) : bool := match p0 with [] => false | _ :: p'0 => starts_with_name p'0 && f p'0 || deep p'0 end) p)
      with (deep_aux f p).
    rewrite orb_true_iff, andb_true_iff, IH. split.
    + intros [[H1 H2]|[pre [p' [NE [-> H]]]]].
      * exists [s], p. split; [discriminate|]. auto.
      * exists (s :: pre), p'. split; [discriminate|]. auto.
    + intros [pre [p' [NE [E [H1 H2]]]]]. destruct pre as [|s0 pre]; [congruence|]. cbn in E. injection E as <- ->.
      destruct pre as [|s1 pre]; [left; auto|]. right. exists (s1 :: pre), p'. split; [discriminate|]. auto.
Qed.

(* ------------------------------------------------------------------ the main induction *)
Lemma bool_eq_iff (a b : bool) : (a = true <-> b = true) -> a = b.
Proof. destruct a, b; intros [H1 H2]; try reflexivity; [symmetry; apply H1; reflexivity | apply H2; reflexivity]. Qed.

Lemma qtoks_first s : exists c ts, qtoks_step s = RLit c :: ts /\ is_boundary c = true /\ (name_like s = true -> c = c_slash).
Proof.
  destruct s as [n|k v| |k|]; cbn; eexists; eexists; (split; [reflexivity|]); split; try reflexivity; try discriminate.
Qed.

(* the end conditions that can occur with a query: never the exact one; the open one only after a final "..." *)
Definition end_for (e : rend) (q : list qstep) : Prop :=
  e <> EndExact /\ (q <> [] -> e = EndOpen -> ends_deep q = true).

Lemma end_for_tail e s q : end_for e (s :: q) -> end_for e q.
Proof.
  intros [H1 H2]. split; [exact H1|]. intros NE E. specialize (H2 ltac:(discriminate) E).
  destruct q as [|s2 q2]; [congruence|]. destruct s; exact H2.
Qed.

(* what is left after a name or a "*" has been consumed starts at a boundary *)
Lemma rest_bstart e s q r : end_for e (s :: q) -> (match s with QDeep => False | _ => True end) ->
  rmatch (qtoks q) e r = true -> bstart r.
Proof.
  intros [H1 H2] NS H. destruct q as [|y q].
  - cbn in H. destruct e; [congruence | | destruct r; [exact I | exact H]].
    specialize (H2 ltac:(discriminate) eq_refl). destruct s; try discriminate. contradiction.
  - unfold qtoks in H. cbn [map concat] in H. destruct (qtoks_first y) as [c [ts [E [B _]]]]. rewrite E in H.
    cbn [app] in H. destruct r as [|x r]; [exact I|]. rewrite rmatch_lit_cons in H. apply andb_true_iff in H.
    destruct H as [H _]. apply N.eqb_eq in H. subst x. exact B.
Qed.

Lemma strip_prefix_none_head (c x : N) l s : c <> x -> strip_prefix (c :: l) (x :: s) = None.
Proof. intros H. cbn. apply N.eqb_neq in H. rewrite H. reflexivity. Qed.

Theorem steps_match q : forall e p, Forall qstep_wf q -> deep_ok q = true -> lpath p -> end_for e q ->
  rmatch (qtoks q) e (render p) = qmatch q p.
Proof.
  induction q as [|s q IH]; intros e p F D L EF.
  - cbn. destruct EF as [H _]. destruct e; [congruence | reflexivity|].
    pose proof (render_bstart p) as B. destruct (render p); [reflexivity | exact B].
  - inversion F as [|? ? Fs Fq]; subst.
    assert (Dq : deep_ok q = true).
    { destruct s; try exact D. cbn [deep_ok] in D. apply andb_true_iff in D. apply D. }
    pose proof (end_for_tail e s q EF) as EFq.
    assert (IHq : forall p0, lpath p0 -> rmatch (qtoks q) e (render p0) = qmatch q p0).
    { intros p0 L0. apply IH; assumption. }
    unfold qtoks. cbn [map concat]. fold (qtoks q).
    destruct s as [m|k v| |k|]; cbn [qtoks_step qstep_wf] in *.
    + (* an element name *)
      destruct Fs as [Nm Lm]. cbn [app].
      destruct p as [|[n|k' v'] p0]; [reflexivity | | reflexivity].
      inversion L as [|? ? Ls Lp]; subst. cbn [lstep] in Ls. destruct Ls as [Nn Ln]. rewrite render_cons. cbn [render_step app qmatch].
      rewrite rmatch_lit_cons, N.eqb_refl. cbn [andb]. rewrite rmatch_lits_app.
      apply bool_eq_iff. rewrite andb_true_iff. split.
      * destruct (strip_prefix m (n ++ render p0)) as [r|] eqn:S; [|discriminate]. intros H.
        apply strip_prefix_some in S.
        pose proof (rest_bstart e (QName m) q r EF I H) as Br.
        destruct (name_split n m (render p0) r (legal_no_boundary n Ln) (legal_no_boundary m (qlegal_legal m Lm))
                             (render_bstart p0) Br S) as [E1 E2]. subst m r.
        split; [apply eqb_str_refl | rewrite <- IHq; assumption].
      * intros [E H]. apply eqb_str_eq in E. subst m. rewrite strip_prefix_app'. rewrite IHq; assumption.
    + (* a key with its value *)
      destruct Fs as [Lk Lv]. rewrite rmatch_lits_app.
      destruct p as [|[n|k' v'] p0]; [reflexivity | reflexivity |].
      inversion L as [|? ? Ls Lp]; subst. cbn [lstep] in Ls. destruct Ls as [Lk' Lv']. rewrite render_cons. cbn [render_step qmatch].
      apply bool_eq_iff. rewrite !andb_true_iff. split.
      * destruct (strip_prefix _ _) as [r|] eqn:S; [|discriminate]. intros H. apply strip_prefix_some in S.
        cbn in S. injection S as S. rewrite <- !app_assoc in S. cbn in S.
        destruct (delim_split c_eq k' k _ _ (legal_no_eq k' Lk') (legal_no_eq k (qlegal_legal k Lk)) S) as [-> S2].
        rewrite <- !app_assoc in S2. cbn [app] in S2.
        destruct (delim_split c_rbr v' v _ _ (legal_no_rbr v' Lv') (legal_no_rbr v (qlegal_legal v Lv)) S2) as [E1 E2]. subst v' r.
        rewrite !eqb_str_refl. split; [auto|]. rewrite <- IHq; assumption.
      * intros [[E1 E2] H]. apply eqb_str_eq in E1, E2. subst k' v'. rewrite strip_prefix_app'. rewrite IHq; assumption.
    + (* "*" as an element name *)
      cbn [app].
      destruct p as [|[n|k' v'] p0]; [reflexivity | | reflexivity].
      inversion L as [|? ? Ls Lp]; subst. cbn [lstep] in Ls. destruct Ls as [Nn Ln]. rewrite render_cons. cbn [render_step app qmatch].
      rewrite rmatch_lit_cons, N.eqb_refl. cbn [andb].
      apply bool_eq_iff. rewrite rmatch_lstar_iff. split.
      * intros [a [r [E [La H]]]].
        pose proof (rest_bstart e QAnyName q r EF I H) as Br.
        destruct (name_split n a (render p0) r (legal_no_boundary n Ln) (legal_no_boundary a La) (render_bstart p0) Br E) as [E1 E2]. subst a r.
        rewrite <- IHq; assumption.
      * intros H. exists n, (render p0). split; [reflexivity|]. split; [exact Ln | rewrite IHq; assumption].
    + (* [k=*] *)
      rename Fs into Lk. rewrite <- app_assoc. rewrite rmatch_lits_app. cbn [app].
      destruct p as [|[n|k' v'] p0]; [reflexivity | reflexivity |].
      inversion L as [|? ? Ls Lp]; subst. cbn [lstep] in Ls. destruct Ls as [Lk' Lv']. rewrite render_cons. cbn [render_step qmatch].
      apply bool_eq_iff. rewrite andb_true_iff. split.
      * destruct (strip_prefix _ _) as [r1|] eqn:S; [|discriminate]. intros H. apply strip_prefix_some in S.
        cbn in S. injection S as S. rewrite <- !app_assoc in S. cbn in S.
        destruct (delim_split c_eq k' k _ _ (legal_no_eq k' Lk') (legal_no_eq k (qlegal_legal k Lk)) S) as [-> S2].
        apply rmatch_lstar_iff in H. destruct H as [a [r [E [La H]]]].
        destruct r as [|x r]; [rewrite rmatch_lit_nil in H; discriminate|].
        rewrite rmatch_lit_cons in H. apply andb_true_iff in H. destruct H as [Hx H]. apply N.eqb_eq in Hx. subst x.
        rewrite <- S2 in E. rewrite <- !app_assoc in E. cbn [app] in E.
        destruct (delim_split c_rbr v' a _ _ (legal_no_rbr v' Lv') (legal_no_rbr a La) E) as [_ E3]. subst r.
        split; [apply eqb_str_refl | rewrite <- IHq; assumption].
      * intros [E H]. apply eqb_str_eq in E. subst k'.
        assert (T : (c_lbr :: k ++ c_eq :: v' ++ [c_rbr]) ++ render p0 = (c_lbr :: k ++ [c_eq]) ++ (v' ++ c_rbr :: render p0)).
        { repeat (progress cbn [app] || rewrite <- app_assoc). reflexivity. }
        rewrite T, strip_prefix_app'. apply rmatch_lstar_iff. exists v', (c_rbr :: render p0).
        split; [reflexivity|]. split; [exact Lv'|]. rewrite rmatch_lit_cons, N.eqb_refl. cbn [andb]. rewrite IHq; assumption.
    + (* "..." *)
      cbn [app]. rewrite qmatch_deep.
      destruct p as [|[n|k' v'] p0]; [reflexivity | | reflexivity].
      pose proof L as Lfull. inversion L as [|? ? Ls Lp]; subst. cbn [lstep] in Ls. destruct Ls as [Nn Ln]. rewrite render_cons. cbn [render_step app starts_with_name is_name andb].
      rewrite rmatch_lit_cons, N.eqb_refl. cbn [andb].
      apply bool_eq_iff. rewrite rmatch_astar_iff.
      destruct q as [|y q2].
      * (* the last step: whatever follows *)
        split; [reflexivity|]. intros _. exists (n ++ render p0), []. rewrite app_nil_r. split; [reflexivity|]. split.
        -- rewrite nonl_app, (legal_nonl n Ln), (render_nonl p0 Lp). reflexivity.
        -- cbn. destruct EF as [H _]. destruct e; [congruence | reflexivity | reflexivity].
      * cbn [deep_ok] in D. apply andb_true_iff in D. destruct D as [NL _].
        rewrite deep_aux_iff. split.
        -- intros [a [r [E [Na H]]]].
           destruct (qtoks_first y) as [c [ts [Ey [_ Hc]]]]. specialize (Hc NL). subst c.
           assert (Hr : exists r', r = c_slash :: r').
           { unfold qtoks in H. cbn [map concat] in H. rewrite Ey in H. cbn [app] in H.
             destruct r as [|x r]; [rewrite rmatch_lit_nil in H; discriminate|]. rewrite rmatch_lit_cons in H.
             apply andb_true_iff in H. destruct H as [Hx _]. apply N.eqb_eq in Hx. subst x. exists r. reflexivity. }
           destruct Hr as [r' ->].
           assert (E2 : render (SName n :: p0) = (c_slash :: a) ++ c_slash :: r').
           { rewrite render_cons. cbn [render_step app]. rewrite E. reflexivity. }
           destruct (slash_split (SName n :: p0) (c_slash :: a) r' Lfull E2) as [pre [p' [Ep [R1 [R2 SN]]]]].
           exists pre, p'. split; [intros ->; discriminate|]. split; [exact Ep|]. split; [exact SN|].
           assert (Lp' : lpath p').
           { unfold lpath in *. rewrite Ep in Lfull. apply Forall_app in Lfull. apply Lfull. }
           rewrite <- IHq by exact Lp'. rewrite R2. exact H.
        -- intros [pre [p' [NE [Ep [SN H]]]]]. destruct pre as [|s0 pre]; [congruence|]. cbn in Ep. injection Ep as <- ->.
           assert (Lpre : lpath pre /\ lpath p').
           { unfold lpath in *. apply Forall_app in Lp. exact Lp. }
           destruct Lpre as [Lpre Lp'].
           exists (n ++ render pre), (render p'). split; [rewrite render_app, app_assoc; reflexivity|]. split.
           ++ rewrite nonl_app, (legal_nonl n Ln), (render_nonl pre Lpre). reflexivity.
           ++ rewrite IHq by exact Lp'. exact H.
Qed.

(* ------------------------------------------------------------------ MatchWildcardRegexp on the texts *)
Theorem wildcard_elements q p : query_wf q -> lpath p ->
  match_wildcard (qrender q) false (render p) = qmatch q p.
Proof.
  intros [F D] L. unfold match_wildcard. rewrite (compile_qrender q F). apply steps_match; try assumption.
  split.
  - destruct (compile_end_cases (qrender q)) as [-> | ->]; discriminate.
  - intros NE E. destruct (ends_deep q) eqn:ED; [reflexivity|].
    rewrite (compile_end_query q F ED) in E. discriminate.
Qed.

(* Get's filter: exactly the live values whose path the query steps match *)
Theorem get_filter_elements values q : query_wf q ->
  (forall pv, In pv (map snd values) -> exists sp, lpath sp /\ pv_path pv = render sp) ->
  forall pv, In pv (get_filter values (qrender q)) <->
             In pv (map snd values) /\ pv_deleted pv = false /\
             exists sp, lpath sp /\ pv_path pv = render sp /\ qmatch q sp = true.
Proof.
  intros Q HV pv. unfold get_filter. rewrite filter_In, andb_true_iff, negb_true_iff. split.
  - intros [HI [HM HD]]. split; [exact HI|]. split; [exact HD|].
    destruct (HV pv HI) as [sp [L E]]. exists sp. split; [exact L|]. split; [exact E|].
    rewrite E, (wildcard_elements q sp Q L) in HM. exact HM.
  - intros [HI [HD [sp [L [E HM]]]]]. split; [exact HI|]. split; [|exact HD].
    rewrite E, (wildcard_elements q sp Q L). exact HM.
Qed.

(* Proto3BlocksCfgC: the Committed-cursor write that completes a change commit preserves FInv (second layer of the frontier invariant, Proto3BlocksBase). *)
From Coq Require Import List NArith Bool Arith Lia.
From OC Require Import Model.Proto3 Spec.Tla3 Proofs.Proto3Proofs Proofs.Proto3OrderBase Proofs.Proto3BlocksBase.
Import ListNotations.
Open Scope N_scope.

Lemma F_cfg_C4 g n cm ap i t :
  SInv g n cm ap -> FInv g cm ap -> g i = Some t ->
  cc t = 1 ->
  k_change cm <> i ->
  FInv g 
    {| k_index := i; k_ordinal := k_ordinal cm + 1; k_revision := i; k_target := k_target cm; k_change := i |} ap.
Proof.
  intros HS HF Hi G1 G2.
  finv_by prj HS HF g idtac.
Qed.

(* Wildcard queries on the example history of GnmiHistoryEx.v: guards (boolean, sound) and what Get returns. *)
From Coq Require Import List NArith Bool String.
Local Open Scope string_scope.
From OC Require Import Base.Bytes Model.Merge Model.CfgStore Model.Wildcard Spec.Gnmi
     Proofs.MergeProofs Proofs.CommitHistory Proofs.PathAbstraction Proofs.GnmiHistory Proofs.GnmiHistoryEx
     Proofs.WildcardElements Proofs.GnmiGet.
Import ListNotations.
Open Scope N_scope.
Open Scope list_scope.

Definition legal_historyb (h : list (N * greq)) : bool :=
  forallb (fun ir => forallb lpathb (req_paths (snd ir))) h.

Lemma legal_historyb_ok h : legal_historyb h = true -> legal_history h.
Proof.
  unfold legal_historyb, legal_history. rewrite forallb_forall. intros H ir sp Hir Hsp.
  specialize (H ir Hir). rewrite forallb_forall in H. apply lpathb_ok, H, Hsp.
Qed.

Definition qn (s : string) : qstep := QName (B s).

Definition exStore : cfgmap := run_history [] (map text_req exG).

Example get_wildcard_example :
  legal_history exG /\
  query_wf [qn "l"; QAnyKey (B "k"); qn "v"] /\ query_wf [QDeep; qn "v"] /\ query_wf [qn "a"; QAnyName] /\
  query_wf [qn "x"] /\ query_wf [qn "m"; QKey (B "k1") (B "c")] /\ query_wf [qn "a"; QDeep] /\
  qrender [qn "l"; QAnyKey (B "k"); qn "v"] = B "/l[k=*]/v" /\
  qrender [QDeep; qn "v"] = B "/.../v" /\
  get_leaves exStore (B "/l[k=*]/v") = [(B "/l[k=2]/v", B "2")] /\
  get_leaves exStore (B "/.../v") = [(B "/l[k=2]/v", B "2"); (B "/m[k1=c][k2=b]/v", B "8")] /\
  get_leaves exStore (B "/a/*") = [(B "/a/b", B "2"); (B "/a/c/d", B "7")] /\
  get_leaves exStore (B "/x") = [] /\
  get_leaves exStore (B "/m[k1=c]") = [(B "/m[k1=c][k2=b]/v", B "8")] /\
  get_leaves exStore (B "/a/...") = [(B "/a/b", B "2"); (B "/a/c/d", B "7")].
Proof.
  split; [apply legal_historyb_ok; vm_compute; reflexivity|].
  repeat (split; [apply query_wfb_ok; vm_compute; reflexivity|]).
  repeat split; vm_compute; reflexivity.
Qed.

(* Boolean forms of the element-level history guards (sound) and a history that satisfies them. *)
From Coq Require Import List NArith Bool String.
Local Open Scope string_scope.
From OC Require Import Base.Bytes Model.Merge Model.CfgStore Spec.Gnmi
     Proofs.MergeProofs Proofs.CommitHistory Proofs.PathAbstraction Proofs.GnmiHistory.
Import ListNotations.
Open Scope N_scope.
Open Scope list_scope.

Definition path_okb (p : spath) : bool := match p with [] => false | _ => spath_wfb p end.

Fixpoint nodup_spb (l : list spath) : bool :=
  match l with [] => true | x :: l' => negb (existsb (eqb_spath x) l') && nodup_spb l' end.

Definition greq_okb (r : greq) : bool :=
  forallb path_okb (req_paths r) && nodup_spb (req_paths r)
  && forallb (fun u => forallb (fun d => negb (sprefix d (fst u))) (g_deletes r)) (g_updates r).

Fixpoint increasing_fromb (b : N) (l : list N) : bool :=
  match l with [] => true | i :: l' => (b <=? i) && increasing_fromb (N.succ i) l' end.

Definition gleaf_disciplineb (rs : list greq) : bool :=
  forallb (fun r1 => forallb (fun u => forallb (fun r2 => forallb (fun q => negb (sprefix (fst u) q) || eqb_spath q (fst u))
                                                                  (req_paths r2)) rs) (g_updates r1)) rs.

Definition ghistory_okb (h : list (N * greq)) : bool :=
  forallb (fun ir => greq_okb (snd ir)) h && increasing_fromb 0 (map fst h) && gleaf_disciplineb (map snd h).

Lemma path_okb_ok p : path_okb p = true -> path_ok p.
Proof. destruct p as [|s p]; [discriminate|]. intros H. split; [discriminate | apply spath_wfb_ok; exact H]. Qed.

Lemma nodup_spb_ok l : nodup_spb l = true -> NoDup l.
Proof.
  induction l as [|x l IH]; cbn; intros H; [constructor|].
  apply andb_true_iff in H. destruct H as [H1 H2]. constructor; [|apply IH; exact H2].
  intros HI. apply negb_true_iff in H1. assert (E : existsb (eqb_spath x) l = true).
  { apply existsb_exists. exists x. split; [exact HI | apply eqb_spath_refl]. }
  congruence.
Qed.

Lemma greq_okb_ok r : greq_okb r = true -> greq_ok r.
Proof.
  unfold greq_okb, greq_ok. rewrite !andb_true_iff. intros [[H1 H2] H3]. split; [|split].
  - apply Forall_forall. intros p HI. apply path_okb_ok. rewrite forallb_forall in H1. apply H1. exact HI.
  - apply nodup_spb_ok. exact H2.
  - intros u d Hu Hd. rewrite forallb_forall in H3. specialize (H3 _ Hu). rewrite forallb_forall in H3.
    specialize (H3 _ Hd). apply negb_true_iff in H3. exact H3.
Qed.

Lemma increasing_fromb_ok l : forall b, increasing_fromb b l = true -> increasing_from b l.
Proof.
  induction l as [|i l IH]; intros b; cbn; [auto|]. rewrite andb_true_iff. intros [H1 H2].
  split; [apply N.leb_le; exact H1 | apply IH; exact H2].
Qed.

Lemma gleaf_disciplineb_ok rs : gleaf_disciplineb rs = true -> gleaf_discipline rs.
Proof.
  unfold gleaf_disciplineb, gleaf_discipline. rewrite forallb_forall. intros H p q [r1 [u [H1 [Hu <-]]]] [r2 [H2 Hq]] S.
  specialize (H _ H1). rewrite forallb_forall in H. specialize (H _ Hu). rewrite forallb_forall in H.
  specialize (H _ H2). rewrite forallb_forall in H. specialize (H _ Hq). rewrite S in H. cbn in H.
  apply eqb_spath_eq in H. exact H.
Qed.

Lemma ghistory_okb_ok h : ghistory_okb h = true -> ghistory_ok h.
Proof.
  unfold ghistory_okb, ghistory_ok. rewrite !andb_true_iff. intros [[H1 H2] H3].
  split; [|split; [apply increasing_fromb_ok; exact H2 | apply gleaf_disciplineb_ok; exact H3]].
  apply Forall_forall. intros ir HI. apply greq_okb_ok. rewrite forallb_forall in H1. apply H1. exact HI.
Qed.

Definition nm (s : string) : step := SName (B s).
Definition ky (k v : string) : step := SKey (B k) (B v).

(* create; delete a container and a whole list by its key-less name; re-create beneath both, delete a leaf whose name is
   a textual prefix of a new sibling; delete a sub-container, create a two-key entry; re-create, delete by the leading key *)
Definition exG : list (N * greq) :=
  [ (1, mkReq [] [([nm "a"; nm "b"], B "1"); ([nm "a"; nm "c"; nm "d"], B "1"); ([nm "l"; ky "k" "1"; nm "v"], B "1"); ([nm "x"], B "1")]);
    (2, mkReq [[nm "a"]; [nm "l"]] []);
    (3, mkReq [[nm "x"]] [([nm "a"; nm "b"], B "2"); ([nm "l"; ky "k" "2"; nm "v"], B "2"); ([nm "xy"], B "2")]);
    (5, mkReq [[nm "a"; nm "c"]] [([nm "m"; ky "k1" "a"; ky "k2" "b"; nm "v"], B "9"); ([nm "m"; ky "k1" "c"; ky "k2" "b"; nm "v"], B "8")]);
    (9, mkReq [[nm "m"; ky "k1" "a"]] [([nm "a"; nm "c"; nm "d"], B "7")]) ].

Example elements_history_example :
  ghistory_ok exG /\
  render [nm "m"; ky "k1" "a"; ky "k2" "b"; nm "v"] = B "/m[k1=a][k2=b]/v" /\
  glookup (gnmi_history [] (map snd exG)) [nm "a"; nm "c"; nm "d"] = Some (B "7") /\
  live (run_history [] (map text_req exG)) (B "/a/c/d") = Some (B "7") /\
  live (run_history [] (map text_req exG)) (B "/l[k=1]/v") = None /\
  live (run_history [] (map text_req exG)) (B "/l[k=2]/v") = Some (B "2") /\
  live (run_history [] (map text_req exG)) (B "/m[k1=a][k2=b]/v") = None /\
  live (run_history [] (map text_req exG)) (B "/m[k1=c][k2=b]/v") = Some (B "8") /\
  live (run_history [] (map text_req exG)) (B "/x") = None /\
  live (run_history [] (map text_req exG)) (B "/xy") = Some (B "2").
Proof.
  split; [apply ghistory_okb_ok; vm_compute; reflexivity|]. repeat split; vm_compute; reflexivity.
Qed.

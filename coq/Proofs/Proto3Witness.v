(* Refutation witnesses (vm_compute on the faithful model; each one was first reproduced on the real reconcilers and
   stores, see corpus/c20.tsv) and a bounded exhaustive exploration of the model. *)
From Coq Require Import List NArith Bool Arith Lia.
From OC Require Import Model.Proto3 Spec.Tla3 Proofs.Proto3Proofs.
Import ListNotations.
Open Scope N_scope.

Definition pa : path := [1].          (* /a *)
Definition pab : path := [1; 2].      (* /a/b *)
Definition pd : path := [4].          (* /d *)
Definition leaf (p : path) (v idx : N) : path * pval := (p, {| pv_path := p; pv_val := v; pv_del := false; pv_idx := idx |}).
Definition tomb (p : path) (idx : N) : path * pval := (p, {| pv_path := p; pv_val := 0; pv_del := true; pv_idx := idx |}).
Definition o1 : oracle := {| o_verdict := VAccept; o_code := 0; o_last := None; o_master := 1; o_alloc := false |}.
Definition R (i : N) : label := LRecTx i 99 o1.
Definition healthy (init : vals) : list label :=
  [LCreateCfg init; LTarget true false; LRel 1 true true; LConn 1 true; LRecMaster 99 o1; LRecCfg 99 o1; LRecCfg 99 o1].
(* a change needs four reconciles: commit PENDING -> IN_PROGRESS -> COMPLETE, apply PENDING -> IN_PROGRESS -> COMPLETE *)
Definition full (i : N) : list label := [R i; R i; R i; R i].

Definition o_dev_refuse : oracle := {| o_verdict := VAccept; o_code := 3; o_last := None; o_master := 1; o_alloc := false |}.

(* F-20a: the first accepted change of a configuration created without values panics (nil map) *)
Definition ls_nil : list label := healthy [] ++ [LAppend [leaf pa 1 1]; R 1; R 1].
Lemma nil_values_panic : w_panicked (run ls_nil) = true.
Proof. vm_compute. reflexivity. Qed.

(* F-20b: a change to a path that had an initial value at Create: committed, but Committed.Values (as read) still shows
   the created value *)
Definition ls_alias : list label := healthy [leaf pa 0 0] ++ [LAppend [leaf pa 1 1]] ++ full 1.
Lemma alias_refutes_committed : consistency_committed_ok (run ls_alias) = false.
Proof. vm_compute. reflexivity. Qed.
Lemma alias_history_is_ordered : order_ok (w_hist (run ls_alias)) = true.
Proof. vm_compute. reflexivity. Qed.

(* F-20c: the rollback values of change 2 are read through the shadowed view; after 1 and 2 are applied and 2 is rolled
   back, the applied configuration holds the created value, not 1's *)
Definition ls_alias_rb : list label :=
  healthy [leaf pa 0 0] ++ [LAppend [leaf pa 1 1]; R 1; R 1; LAppend [leaf pa 2 2]; R 2; R 2; R 1; R 1; R 2; R 2;
                            LRollback 2; R 2; R 2; R 2; R 2].
Lemma alias_rollback_refutes_applied : consistency_applied_ok (run ls_alias_rb) = false.
Proof. vm_compute. reflexivity. Qed.

(* F-20d: the store's loop variable: the entry written for /a/b holds the value of /d *)
Definition pac : path := [1; 3].      (* /a/c *)
Definition o_lv : oracle := {| o_verdict := VAccept; o_code := 0; o_last := Some (snd (leaf pac 1 1)); o_master := 1; o_alloc := false |}.
Definition ls_loopvar : list label :=
  healthy [leaf pd 0 0] ++ [LAppend [leaf pab 1 1; leaf pac 1 1]; R 1; R 1; R 1; LRecTx 1 99 o_lv].
Lemma loop_variable_refutes_applied : consistency_applied_ok (run ls_loopvar) = false.
Proof. vm_compute. reflexivity. Qed.

(* F-20e: after a completed rollback nothing is ever committed again: transaction 2 is PENDING and no reconcile of
   any transaction, under any oracle, has an effect *)
Definition ls_wedge : list label :=
  healthy [leaf pd 0 0] ++ [LAppend [leaf pa 1 1]] ++ full 1 ++ [LRollback 1] ++ full 1 ++ [LAppend [leaf pa 2 2]].
Lemma wedge_not_terminal : all_terminal (run ls_wedge) = false.
Proof. vm_compute. reflexivity. Qed.
Lemma wedge_tx1_done : forall o, fst (rec_tx o (run ls_wedge) 1) = [].
Proof. intros o. vm_compute. reflexivity. Qed.
Lemma wedge_tx2_stuck : forall o, fst (rec_tx o (run ls_wedge) 2) = [].
Proof. intros o. vm_compute. reflexivity. Qed.
Lemma wedge_no_other_tx : forall o i, 2 < i -> fst (rec_tx o (run ls_wedge) i) = [].
Proof.
  intros o i Hi. unfold rec_tx.
  replace (get_tx (run ls_wedge) i) with (@None txn); [reflexivity|].
  unfold get_tx. destruct (i =? 0) eqn:E; [reflexivity|].
  symmetry. apply nth_error_None.
  replace (w_txs (run ls_wedge)) with (w_txs (run ls_wedge)) by reflexivity.
  assert (L : length (w_txs (run ls_wedge)) = 2%nat) by (vm_compute; reflexivity).
  rewrite L. lia.
Qed.

(* F-20f: change 1 committed and applied, change 2 rejected by the model plugin, rollback of 1 requested: stuck *)
Definition o_rej : oracle := {| o_verdict := VReject; o_code := 0; o_last := None; o_master := 1; o_alloc := false |}.
Definition ls_behind : list label :=
  healthy [leaf pd 0 0] ++ [LAppend [leaf pa 1 1]] ++ full 1 ++ [LAppend [leaf pa 2 2]; R 2; LRecTx 2 99 o_rej; LRollback 1].
Lemma behind_failed_stuck : forall o, fst (rec_tx o (run ls_behind) 1) = [] /\ fst (rec_tx o (run ls_behind) 2) = [].
Proof. intros o. split; vm_compute; reflexivity. Qed.
Lemma behind_failed_not_terminal : all_terminal (run ls_behind) = false.
Proof. vm_compute. reflexivity. Qed.

(* F-20h: a leaf re-created below an applied tomb-stone is not stored *)
Definition ls_tomb : list label :=
  healthy [leaf pab 0 0] ++ [LAppend [tomb pa 1]] ++ full 1 ++ [LAppend [leaf pab 2 2]] ++ full 2.
Lemma tombstone_refutes_applied : consistency_applied_ok (run ls_tomb) = false.
Proof. vm_compute. reflexivity. Qed.

(* F-20g: the device refuses change 1 (/a/b); change 2 (/d) is aborted; rolling 2 back sets Applied.Revision to 1 although
   change 1 never reached the applied values or the device *)
Definition ls_unapplied : list label :=
  healthy [leaf pd 0 0] ++ [LAppend [leaf pab 1 1]; R 1; R 1; R 1; LRecTx 1 99 o_dev_refuse;
                            LAppend [leaf [26] 2 2]; R 2; R 2; R 2; LRollback 2; R 2; R 2; R 2; R 2].
Lemma unapplied_refutes_applied : consistency_applied_ok (run ls_unapplied) = false.
Proof. vm_compute. reflexivity. Qed.

(* a non-trivial history inside every guard: two changes to different values of a path applied one after the other,
   with a crash between the configuration and the transaction write of every step, satisfies everything *)
Definition Rk (i : N) : list label := [LRecTx i 1 o1; R i].
Definition ls_good : list label :=
  healthy [leaf pd 0 0] ++ [LAppend [leaf pa 1 1]] ++ Rk 1 ++ Rk 1 ++ Rk 1 ++ Rk 1 ++ [LAppend [leaf pa 2 2]] ++ Rk 2 ++ Rk 2 ++ Rk 2 ++ Rk 2.
Lemma good_history : let w := run ls_good in
  safety_ok w && failed_blocks_later_ok w && all_terminal w && negb (w_panicked w) = true.
Proof. vm_compute. reflexivity. Qed.

(* ------------------------------------------------------------------------------------------------
   bounded exhaustive exploration (what TLC does for spec/Config.tla, on the transcription of the code):
   from a healthy single-path configuration, EVERY sequence of up to `depth` labels drawn from
   append / rollback of the committed revision / reconcile of transaction 1..2 (complete, stopped after the first
   store write, plugin rejects, device refuses) keeps Order, commit-before-apply, the blocking rule and both sides
   of Consistency, without a panic. *)
Definition o_dev : oracle := {| o_verdict := VAccept; o_code := 3; o_last := None; o_master := 1; o_alloc := false |}.
Definition alphabet (w : world) : list label :=
  let n := N.of_nat (length (w_txs w)) in
  (if n <? 2 then [LAppend [leaf pa (n + 1) (n + 1)]] else []) ++
  (match w_cfg w with
   | Some c => match get_tx w (k_revision (c_cm c)) with
               | Some t => if negb (t_rb t) && st_eqb (t_cc t) Complete then [LRollback (k_revision (c_cm c))] else []
               | None => []
               end
   | None => []
   end) ++
  flat_map (fun i => if i <=? n then [R i; LRecTx i 1 o1; LRecTx i 99 o_rej; LRecTx i 99 o_dev] else []) [1; 2].

Definition node_ok (w : world) : bool :=
  safety_ok w && failed_blocks_later_ok w &&
  negb (w_panicked w).

Fixpoint explore (depth : nat) (w : world) : bool :=
  node_ok w &&
  match depth with
  | O => true
  | S d => forallb (fun l => explore d (step w l)) (alphabet w)
  end.

Definition w_healthy : world := run (healthy [leaf pd 0 0]).

Lemma bounded_exploration : explore 7 w_healthy = true.
Proof. vm_compute. reflexivity. Qed.

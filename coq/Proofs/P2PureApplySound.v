(* C04, concrete pure layer: apply_sound for Model/P2Pure.v, ALL values.
   After an OK answer the device [dev_apply d req] (req = payload i vw ch) holds exactly the live leaves of what
   [record_applied ord i m (overlay inl m) vw ch] stores, for every Go-map order [ord], every committed view [vw],
   provided the device agreed with the applied values before and [wf_apply inl m ch] holds.  Stdlib only. *)
From Coq Require Import List PeanoNat NArith Bool Lia Permutation Sorted.
From OC Require Import Base.Bytes Model.P2Pure Proofs.P2PureApplyDefs Proofs.P2PureApplyBase Proofs.P2PureApplySem.
Import ListNotations.
Open Scope N_scope.

(** * The device *)
Definition NDd (d : dstate) : Prop := NoDup (map fst d).

Lemma NoDup_map_filter {A B} (g : A -> B) f l : NoDup (map g l) -> NoDup (map g (filter f l)).
Proof.
  induction l as [|a l IH]; cbn; intros H; [constructor|]. inversion H as [|? ? Hnot Hnd]; subst.
  destruct (f a); cbn; [|auto]. constructor; [|auto]. intros Hin. apply Hnot. apply in_map_iff in Hin.
  destruct Hin as (y & <- & Hy). apply filter_In in Hy. apply in_map. tauto.
Qed.

Lemma ksorted_nodup {A} (key : A -> str) l : StronglySorted (klt key) l -> NoDup (map key l).
Proof.
  induction 1 as [|a l Hs IH Hf]; cbn; constructor; [|exact IH]. intros Hin. apply in_map_iff in Hin.
  destruct Hin as (y & E & Hy). rewrite Forall_forall in Hf. specialize (Hf y Hy). unfold klt in Hf.
  rewrite E, ltb_str_irrefl in Hf. discriminate.
Qed.

Definition del_step (m : dstate) (p : str) : dstate :=
  filter (fun kv => negb (eqb_str (fst kv) p || is_path_below (fst kv) p)) m.
Definition upd_step (m : dstate) (kv : str * str) : dstate := d_remove (fst kv) m ++ [kv].
Lemma dev_apply_eq d r : dev_apply d r = fold_left upd_step (r_upd r) (fold_left del_step (r_del r) d).
Proof. reflexivity. Qed.

Lemma del_fold_in dels : forall d x,
  In x (fold_left del_step dels d) <->
  In x d /\ forall t, In t dels -> eqb_str (fst x) t = false /\ is_path_below (fst x) t = false.
Proof.
  induction dels as [|t0 dels IH]; intros d x; cbn [fold_left].
  - split; [intros H; split; [exact H|intros t []]|tauto].
  - rewrite IH. unfold del_step at 1. rewrite filter_In, negb_true_iff, orb_false_iff. split.
    + intros [[H1 H2] H3]. split; [exact H1|]. intros t [<-|Ht]; [exact H2|apply H3; exact Ht].
    + intros [H1 H2]. split; [split; [exact H1|apply H2; left; reflexivity]|]. intros t Ht. apply H2. right. exact Ht.
Qed.

Lemma del_fold_nd dels : forall d, NDd d -> NDd (fold_left del_step dels d).
Proof.
  induction dels as [|t0 dels IH]; intros d Hn; cbn [fold_left]; [exact Hn|]. apply IH. apply NoDup_map_filter. exact Hn.
Qed.

Lemma d_remove_filter k d : d_remove k d = filter (fun kv => negb (eqb_str k (fst kv))) d.
Proof.
  induction d as [|[k0 v0] d IH]; cbn; [reflexivity|]. rewrite IH. destruct (eqb_str k k0); reflexivity.
Qed.

Lemma upd_step_in d u x : In x (upd_step d u) <-> (In x d /\ fst x <> fst u) \/ x = u.
Proof.
  unfold upd_step. rewrite in_app_iff, d_remove_filter, filter_In, negb_true_iff, eqb_str_neq. cbn.
  split; [intros [[H1 H2]|[H|[]]]; [left; split; [exact H1|congruence]|right; auto]|].
  intros [[H1 H2]| ->]; [left; split; [exact H1|congruence]|right; left; reflexivity].
Qed.

Lemma upd_fold_in us : forall d x, NoDup (map fst us) ->
  (In x (fold_left upd_step us d) <-> In x us \/ (In x d /\ ~ In (fst x) (map fst us))).
Proof.
  induction us as [|u us IH]; intros d x Hn; cbn [fold_left].
  - cbn. tauto.
  - cbn in Hn. inversion Hn as [|? ? Hnot Hnd]; subst. rewrite (IH _ _ Hnd), upd_step_in. cbn [In map]. split.
    + intros [H|[[[H1 H2]|H1] H3]]; [left; right; exact H| |left; left; auto].
      right. split; [exact H1|]. intros [H|H]; [congruence|contradiction].
    + intros [[H|H]|[H1 H2]]; [subst x; right; split; [right; reflexivity|exact Hnot]|left; exact H|].
      right. split; [left; split; [exact H1|intros E; apply H2; left; auto]|intros H; apply H2; right; exact H].
Qed.

Lemma upd_step_nd d u : NDd d -> NDd (upd_step d u).
Proof.
  intros Hn. unfold NDd, upd_step. rewrite map_app. cbn.
  apply (Permutation_NoDup (l := fst u :: map fst (d_remove (fst u) d))); [apply Permutation_cons_append|].
  rewrite d_remove_filter. constructor; [|apply NoDup_map_filter; exact Hn].
  intros Hin. apply in_map_iff in Hin. destruct Hin as (y & E & Hy). apply filter_In in Hy. destruct Hy as [_ Hy].
  rewrite E, eqb_str_refl in Hy. discriminate.
Qed.

Lemma upd_fold_nd us : forall d, NDd d -> NDd (fold_left upd_step us d).
Proof. induction us as [|u us IH]; intros d Hn; cbn [fold_left]; [exact Hn|]. apply IH. apply upd_step_nd. exact Hn. Qed.

Theorem dev_apply_in d r p x : NoDup (map fst (r_upd r)) ->
  (In (p, x) (dev_apply d r) <->
   In (p, x) (r_upd r) \/
   (In (p, x) d /\ (forall t, In t (r_del r) -> eqb_str p t = false /\ is_path_below p t = false) /\
    ~ In p (map fst (r_upd r)))).
Proof.
  intros Hn. rewrite dev_apply_eq, (upd_fold_in _ _ _ Hn), del_fold_in. cbn [fst]. tauto.
Qed.

Lemma dev_apply_nd d r : NDd d -> NDd (dev_apply d r).
Proof. intros Hn. rewrite dev_apply_eq. apply upd_fold_nd. apply del_fold_nd. exact Hn. Qed.

(** * Agreement of a device with an applied-values map *)
Lemma abs_dev_live d M : WF M -> NDd d -> (forall p x, In (p, x) d <-> lvp M p x) -> abs_dev d = live M.
Proof.
  intros Hw Hn H. rewrite abs_dev_gsort. apply (ksorted_ext fst); [apply gsort_sorted; exact Hn|apply live_sorted; exact Hw|].
  intros [p x]. rewrite (live_in _ _ _ Hw), <- H. split; intros Hx.
  - apply (Permutation_in _ (gsort_perm fst d)). exact Hx.
  - apply (Permutation_in _ (Permutation_sym (gsort_perm fst d))). exact Hx.
Qed.

Lemma agree_inv d M : WF M -> abs_dev d = live M -> NDd d /\ forall p x, In (p, x) d <-> lvp M p x.
Proof.
  intros Hw H. pose proof (gsort_perm fst d) as Hp. rewrite <- abs_dev_gsort, H in Hp. split.
  - unfold NDd. apply (Permutation_NoDup (Permutation_map fst Hp)). apply ksorted_nodup. apply live_sorted. exact Hw.
  - intros p x. rewrite <- (live_in _ _ _ Hw). split; intros Hx.
    + apply (Permutation_in _ (Permutation_sym Hp)). exact Hx.
    + apply (Permutation_in _ Hp). exact Hx.
Qed.

(** * The request built from the updated change values *)
Lemma req_del upd t : WF upd ->
  (In t (r_del (to_req (prune_path_values (map snd upd) true))) <->
   exists v, lookup t upd = Some v /\ pv_deleted v = true /\ covered upd t = false).
Proof.
  intros Hw. unfold to_req. cbn [r_del]. rewrite in_map_iff. split.
  - intros (v & <- & Hin). apply filter_In in Hin. destruct Hin as [Hin Hd]. apply (prune_in _ _ _ Hw) in Hin.
    exists v. tauto.
  - intros (v & H1 & H2 & H3). destruct (KO_lookup _ _ _ (proj2 Hw) H1) as [Hp _]. exists v. split; [exact Hp|].
    apply filter_In. split; [|exact H2]. apply (prune_in _ _ _ Hw). rewrite Hp. auto.
Qed.

Lemma req_upd upd p x : WF upd ->
  (In (p, x) (r_upd (to_req (prune_path_values (map snd upd) true))) <-> lvp upd p x).
Proof.
  intros Hw. unfold to_req, lvp. cbn [r_upd]. rewrite in_map_iff. split.
  - intros (v & [= <- <-] & Hin). apply filter_In in Hin. destruct Hin as [Hin Hd]. apply negb_true_iff in Hd.
    apply (prune_in _ _ _ Hw) in Hin. exists v. tauto.
  - intros (v & H1 & H2 & H3 & H4). destruct (KO_lookup _ _ _ (proj2 Hw) H1) as [Hp _]. exists v. subst x. rewrite Hp.
    split; [reflexivity|]. apply filter_In. split; [|rewrite H2; reflexivity]. apply (prune_in _ _ _ Hw). rewrite Hp. auto.
Qed.

Lemma req_upd_nd upd : WF upd -> NoDup (map fst (r_upd (to_req (prune_path_values (map snd upd) true)))).
Proof.
  intros Hw. unfold to_req. cbn [r_upd]. rewrite map_map. cbn [fst].
  apply ksorted_nodup. apply ksorted_filter. apply prune_sorted. exact Hw.
Qed.

(** * Permutations *)
Lemma lookup_perm (l l' : cmap) k : Permutation l l' -> ND l -> lookup k l = lookup k l'.
Proof.
  intros Hp Hn. assert (Hn' : ND l') by (apply (Permutation_NoDup (Permutation_map fst Hp)); exact Hn).
  destruct (lookup k l) as [v|] eqn:E.
  - symmetry. apply in_lookup; [exact Hn'|]. apply (Permutation_in _ Hp). apply lookup_in. exact E.
  - symmetry. apply lookup_none. apply lookup_none in E. intros H. apply E.
    apply (Permutation_in _ (Permutation_sym (Permutation_map fst Hp))). exact H.
Qed.

Lemma existsb_perm {A} (f : A -> bool) l l' : Permutation l l' -> existsb f l = existsb f l'.
Proof.
  intros Hp. apply eq_true_iff_eq. rewrite !existsb_exists. split; intros (x & Hx & H); exists x; split; try exact H.
  - apply (Permutation_in _ Hp). exact Hx.
  - apply (Permutation_in _ (Permutation_sym Hp)). exact Hx.
Qed.

Lemma WF_perm (c c' : cmap) : Permutation c c' -> WF c -> WF c'.
Proof.
  intros Hp [Hn Hk]. split; [apply (Permutation_NoDup (Permutation_map fst Hp)); exact Hn|].
  intros k v Hin. apply Hk. apply (Permutation_in _ (Permutation_sym Hp)). exact Hin.
Qed.

Lemma WFC_perm (c c' : cmap) : Permutation c c' -> WFC c -> WFC c'.
Proof.
  intros Hp [Hw H]. split; [apply (WF_perm _ _ Hp Hw)|]. intros k v kd d H1 Hlv H2.
  apply (H k v kd d); [apply (Permutation_in _ (Permutation_sym Hp)); assumption|exact Hlv|apply (Permutation_in _ (Permutation_sym Hp)); assumption].
Qed.

Lemma upd_spec_perm i (c c' : cmap) vw upd : Permutation c c' -> upd_spec i c vw upd -> upd_spec i c' vw upd.
Proof.
  intros Hp [U1 U2 U2d U3 U4]. pose proof (Permutation_sym Hp) as Hp'. split.
  - exact U1.
  - intros k cv Hin. apply U2. apply (Permutation_in _ Hp'). exact Hin.
  - intros k cv Hin. apply U2d. apply (Permutation_in _ Hp'). exact Hin.
  - intros k v Hl. destruct (U3 _ _ Hl) as [Hin|(H2 & H3 & H4 & H5 & kc & cv & H6 & H7)].
    + left. apply (Permutation_in _ Hp). exact Hin.
    + right. repeat (split; [assumption|]). exists kc, cv. split; [apply (Permutation_in _ Hp); exact H6|exact H7].
  - intros k kc cv Hk Hin. apply U4; [exact Hk|apply (Permutation_in _ Hp'); exact Hin].
Qed.

(** * What the updated change values hold *)
Lemma cov_intro M t e p : In (t, e) M -> pv_deleted e = true -> is_path_below p t = true -> covered M p = true.
Proof. intros H1 H2 H3. apply covered_spec. exists t, e. auto. Qed.

Lemma upd_WF i c vw upd : WFC c -> upd_spec i c vw upd -> WF upd.
Proof.
  intros [[Hn Hk] Hwf] [U1 U2 U2d U3 U4]. split; [exact U1|]. intros k v Hin. apply (in_lookup _ _ _ U1) in Hin.
  destruct (U3 _ _ Hin) as [H|(H2 & H3 & H4 & H5 & kc & cv & H6 & H7 & H8)]; [apply Hk; exact H|].
  split; [auto|]. apply (Below_proper _ _ H8). destruct (Hk _ _ H6) as [_ Hp]. apply proper_ne in Hp. tauto.
Qed.

Lemma upd_live i c vw upd k v : upd_spec i c vw upd -> lookup k upd = Some v -> pv_deleted v = false -> In (k, v) c.
Proof. intros [U1 U2 U2d U3 U4] Hl Hd. destruct (U3 _ _ Hl) as [H|(_ & H & _)]; [exact H|congruence]. Qed.

Lemma upd_tomb i c vw upd t e : upd_spec i c vw upd -> lookup t upd = Some e -> pv_deleted e = true ->
  exists kc cv, In (kc, cv) c /\ pv_deleted cv = true /\ (t = kc \/ Below t kc).
Proof.
  intros [U1 U2 U2d U3 U4] Hl Hd. destruct (U3 _ _ Hl) as [H|(_ & _ & _ & _ & kc & cv & H6 & H7 & H8)].
  - exists t, e. auto.
  - exists kc, cv. auto.
Qed.

(* nothing of a well-formed change lies beneath a tombstone of the updated values *)
Lemma upd_not_below i c vw upd k v t e :
  WFC c -> upd_spec i c vw upd -> In (k, v) c -> pv_deleted v = false -> lookup t upd = Some e -> pv_deleted e = true ->
  proper t = true -> is_path_below k t = true -> False.
Proof.
  intros Hc Hu Hin Hlv Hl Hd Hp Hb. apply (below_spec _ _ Hp) in Hb.
  destruct (upd_tomb _ _ _ _ _ _ Hu Hl Hd) as (kc & cv & H1 & H2 & [->|H3]).
  - exact (proj2 Hc _ _ _ _ Hin Hlv H1 H2 Hb).
  - exact (proj2 Hc _ _ _ _ Hin Hlv H1 H2 (Below_trans _ _ _ Hb H3)).
Qed.

Lemma upd_ch_uncovered i c vw upd k v :
  WFC c -> upd_spec i c vw upd -> In (k, v) c -> pv_deleted v = false -> covered upd k = false.
Proof.
  intros Hc Hu Hin Hlv. destruct (covered upd k) eqn:E; [|reflexivity]. exfalso. apply covered_spec in E.
  destruct E as (t & e & Ht & Hd & Hb). pose proof (upd_WF _ _ _ _ Hc Hu) as Hw.
  apply (upd_not_below i c vw upd k v t e Hc Hu Hin Hlv (in_lookup _ _ _ (proj1 Hw) Ht) Hd (proj2 (proj2 Hw _ _ Ht)) Hb).
Qed.

(* two runs of AddDeleteChildren over the same change (any two orders) hold the same keys, the same live values and
   tombstones at the same keys *)
Lemma upd_none_transfer i c vw u1 u2 k : upd_spec i c vw u1 -> upd_spec i c vw u2 -> lookup k u1 = None -> lookup k u2 = None.
Proof.
  intros [A1 A2 A2d A3 A4] [B1 B2 B2d B3 B4] H. destruct (lookup k u2) as [v|] eqn:E; [|reflexivity]. exfalso.
  destruct (B3 _ _ E) as [Hin|(_ & _ & _ & H5 & kc & cv & H6 & H7 & H8)].
  - destruct (pv_deleted v) eqn:Ed.
    + destruct (A2d _ _ Hin Ed) as (v' & Hv' & _). congruence.
    + rewrite (A2 _ _ Hin Ed) in H. discriminate.
  - exact (A4 _ _ _ H5 H6 H7 H8 H).
Qed.

Lemma upd_tomb_transfer i c vw u1 u2 t e : upd_spec i c vw u1 -> upd_spec i c vw u2 ->
  lookup t u1 = Some e -> pv_deleted e = true -> exists e', lookup t u2 = Some e' /\ pv_deleted e' = true.
Proof.
  intros Hu1 Hu2 Hl Hd. destruct (lookup t u2) as [e'|] eqn:E.
  - exists e'. split; [reflexivity|]. destruct (pv_deleted e') eqn:Ed; [reflexivity|]. exfalso.
    pose proof (upd_live _ _ _ _ _ _ Hu2 E Ed) as Hin. destruct Hu1 as [A1 A2 A2d A3 A4]. rewrite (A2 _ _ Hin Ed) in Hl.
    injection Hl as <-. congruence.
  - exfalso. rewrite (upd_none_transfer _ _ _ _ _ _ Hu2 Hu1 E) in Hl. discriminate.
Qed.

Lemma same_content_refl v : same_content v v = true.
Proof. unfold same_content. rewrite eqb_reflx, eqb_str_refl, orb_true_r. reflexivity. Qed.

Lemma idx_compat_spec m ch k e v :
  idx_compat m ch = true -> In (k, e) m -> lookup k ch = Some v -> pv_index e = pv_index v -> same_content e v = true.
Proof.
  unfold idx_compat. rewrite forallb_forall. intros H Hin Hl Hi. specialize (H _ Hin). cbn in H. rewrite Hl in H.
  apply N.eqb_eq in Hi. rewrite Hi in H. exact H.
Qed.

Lemma nlb_spec va p v : ND va -> no_live_below va = true -> lookup p va = Some v -> pv_deleted v = false -> covered va p = false.
Proof.
  unfold no_live_below. rewrite forallb_forall. intros Hn H Hl Hd. specialize (H _ (lookup_in _ _ _ Hl)). cbn in H.
  rewrite Hd in H. cbn in H. apply negb_true_iff in H. exact H.
Qed.

(** * The recorded applied values versus the device *)
Lemma va_WF inl m : WF inl -> WF m -> WF (overlay inl m).
Proof. intros Hinl Hm. apply WF_overlay; assumption. Qed.

Lemma va_m inl m k e : WF m -> lookup k m = Some e -> lookup k (overlay inl m) = Some e.
Proof. intros Hm H. rewrite (overlay_lookup m inl k (proj1 Hm)), H. reflexivity. Qed.

(* [va]: the values the recording loop starts from (the loaded applied values [overlay inl m] for the apply; the loaded view
   as mutated by AddDeleteChildren for the commit).  It holds the stored map [m], except where AddDeleteChildren marked. *)
Section Apply.
  Context (i : N) (m va vw ch upd upd' l : cmap).
  Context (Hva : WF va) (Hm : WF m) (Hnlb : no_live_below va = true)
          (Hvam : forall k e, lookup k m = Some e ->
                    lookup k va = Some e \/
                    (In k (paths vw) /\ exists kc cv, In (kc, cv) ch /\ pv_deleted cv = true /\ Below k kc))
          (Hch : WFC ch) (Hic : idx_compat m ch = true)
          (Hu : upd_spec i ch vw upd) (Hu' : upd_spec i ch vw upd') (Hl : Permutation l upd').

  (* a key of the stored map that the updated change values do not hold is held by [va] with the stored value *)
  Lemma va_m_none k e : lookup k m = Some e -> lookup k upd' = None -> lookup k va = Some e.
  Proof.
    intros H E0. destruct (Hvam _ _ H) as [Hv|(Hp & kc & cv & H6 & H7 & H8)]; [exact Hv|].
    exfalso. exact (ui_kids _ _ _ _ _ Hu' _ _ _ Hp H6 H7 H8 E0).
  Qed.
  (* ... and so is a live value of the change *)
  Lemma va_m_live k e v : lookup k m = Some e -> In (k, v) ch -> pv_deleted v = false -> lookup k va = Some e.
  Proof.
    intros H Hin Hlv. destruct (Hvam _ _ H) as [Hv|(Hp & kc & cv & H6 & H7 & H8)]; [exact Hv|].
    exfalso. exact (proj2 Hch _ _ _ _ Hin Hlv H6 H7 H8).
  Qed.

  Lemma l_ND : ND l.
  Proof. apply (Permutation_NoDup (Permutation_map fst (Permutation_sym Hl))). apply (upd_WF _ _ _ _ Hch Hu'). Qed.
  Lemma l_KO : KO l.
  Proof. intros k v Hin. apply (proj2 (upd_WF _ _ _ _ Hch Hu')). apply (Permutation_in _ Hl). exact Hin. Qed.
  Lemma l_NTA : NoTombAbove l.
  Proof.
    pose proof (upd_WF _ _ _ _ Hch Hu') as Hw.
    intros k v a e H1 H2 H3 H4. apply (Permutation_in _ Hl) in H1. apply (Permutation_in _ Hl) in H3.
    destruct (is_path_below k a) eqn:E; [|reflexivity]. exfalso.
    apply (upd_not_below i ch vw upd' k v a e Hch Hu'
             (upd_live _ _ _ _ _ _ Hu' (in_lookup _ _ _ (proj1 Hw) H1) H2) H2 (in_lookup _ _ _ (proj1 Hw) H3) H4
             (proj2 (proj2 Hw _ _ H3)) E).
  Qed.

  Lemma Xc_WF : WF (act_fold l va).
  Proof. apply act_fold_WF; [exact Hva|apply l_KO]. Qed.

  Lemma Xc_lookup k :
    lookup k (act_fold l va) =
    match lookup k upd' with
    | Some v => Some v
    | None => match lookup k va with
              | Some e => if pv_deleted e && dropb upd' k then None else Some e
              | None => None
              end
    end.
  Proof.
    rewrite (act_fold_lookup l _ k Hva l_ND l_KO l_NTA), (lookup_perm _ _ k Hl l_ND).
    unfold dropb. rewrite (existsb_perm _ _ _ Hl). reflexivity.
  Qed.

  (* a live value of the change is recorded, and nothing recorded covers it *)
  Lemma ch_live_Xc p v : In (p, v) ch -> pv_deleted v = false ->
    lookup p (act_fold l va) = Some v /\ covered (act_fold l va) p = false.
  Proof.
    intros Hin Hd. pose proof (ui_ch _ _ _ _ _ Hu' _ _ Hin Hd) as Hp. split; [rewrite Xc_lookup, Hp; reflexivity|].
    destruct (covered _ p) eqn:E; [|reflexivity]. exfalso. apply covered_spec in E. destruct E as (t & e & Ht & Hde & Hb).
    pose proof (proj2 (proj2 Xc_WF _ _ Ht)) as Hpt. apply (in_lookup _ _ _ (proj1 Xc_WF)) in Ht. rewrite Xc_lookup in Ht.
    destruct (lookup t upd') as [e0|] eqn:E0.
    - injection Ht as ->. exact (upd_not_below i ch vw upd' p v t e Hch Hu' Hin Hd E0 Hde Hpt Hb).
    - destruct (lookup t va) as [e1|]; [|discriminate].
      destruct (pv_deleted e1 && dropb upd' t) eqn:Ec; [discriminate|]. injection Ht as ->. rewrite Hde in Ec. cbn in Ec.
      assert (dropb upd' t = true); [|congruence]. unfold dropb. apply existsb_exists. exists (p, v). cbn.
      split; [apply lookup_in; exact Hp|]. rewrite Hd, Hb. reflexivity.
  Qed.

  (* the device side, stated on the lookup tables *)
  Definition dev_side (p x : str) : Prop :=
    lvp upd p x \/
    (lvp va p x /\
     (forall t v, lookup t upd = Some v -> pv_deleted v = true -> covered upd t = false -> p <> t /\ is_path_below p t = false) /\
     (forall x', ~ lvp upd p x')).

  Lemma dev_side_sound p x : dev_side p x <-> lvp (act_fold l va) p x.
  Proof.
    pose proof (upd_WF _ _ _ _ Hch Hu) as Hwu. pose proof (upd_WF _ _ _ _ Hch Hu') as Hwu'.
    split.
    - intros [(v & H1 & H2 & H3 & H4)|((v & H1 & H2 & H3 & H4) & Hnd & Hnu)].
      + pose proof (upd_live _ _ _ _ _ _ Hu H1 H2) as Hin. destruct (ch_live_Xc p v Hin H2) as [Ha Hb].
        exists v. auto.
      + assert (Hup : lookup p upd = None).
        { destruct (lookup p upd) as [v'|] eqn:E; [|reflexivity]. exfalso. destruct (pv_deleted v') eqn:Ed.
          - destruct (covered upd p) eqn:Ec.
            + destruct (covered_top upd (proj2 Hwu) (length p) p (le_n _) Ec) as (t & e & Ht & Hde & Hb & Hct).
              destruct (Hnd t e (in_lookup _ _ _ (proj1 Hwu) Ht) Hde Hct) as [_ Hx]. congruence.
            + destruct (Hnd p v' E Ed Ec) as [Hx _]. congruence.
          - apply (Hnu (pv_val v')). exists v'. split; [exact E|]. split; [exact Ed|]. split; [reflexivity|].
            apply (upd_ch_uncovered i ch vw upd p v' Hch Hu); [apply (upd_live _ _ _ _ _ _ Hu E Ed)|exact Ed]. }
        pose proof (upd_none_transfer _ _ _ _ _ _ Hu Hu' Hup) as Hup'.
        exists v. split; [rewrite Xc_lookup, Hup', H1, H2; reflexivity|]. split; [exact H2|]. split; [exact H3|].
        destruct (covered (act_fold l va) p) eqn:E; [|reflexivity]. exfalso. apply covered_spec in E. destruct E as (t & e & Ht & Hde & Hb).
        apply (in_lookup _ _ _ (proj1 Xc_WF)) in Ht. rewrite Xc_lookup in Ht.
        destruct (lookup t upd') as [e0|] eqn:E0.
        * injection Ht as ->. destruct (upd_tomb_transfer _ _ _ _ _ _ _ Hu' Hu E0 Hde) as (e' & He' & Hde').
          destruct (covered upd t) eqn:Ec.
          -- destruct (covered_top upd (proj2 Hwu) (length t) t (le_n _) Ec) as (t' & e'' & Ht' & Hde'' & Hb' & Hct').
             destruct (Hnd t' e'' (in_lookup _ _ _ (proj1 Hwu) Ht') Hde'' Hct') as [_ Hx].
             assert (is_path_below p t' = true); [|congruence].
             pose proof (proj2 (proj2 Hwu _ _ Ht')) as Hp'. apply (below_spec _ _ Hp').
             eapply Below_trans; [|apply (below_spec _ _ Hp'); exact Hb'].
             apply (below_spec _ _ (proj2 (KO_lookup _ _ _ (proj2 Hwu) He'))). exact Hb.
          -- destruct (Hnd t e' He' Hde' Ec) as [_ Hx]. congruence.
        * destruct (lookup t va) as [e1|] eqn:E1; [|discriminate].
          destruct (pv_deleted e1 && dropb upd' t); [discriminate|]. injection Ht as ->.
          rewrite (cov_intro _ t e p (lookup_in _ _ _ E1) Hde Hb) in H4. discriminate.
    - intros (v & H1 & H2 & H3 & H4). rewrite Xc_lookup in H1. destruct (lookup p upd') as [v0|] eqn:E0.
      + injection H1 as ->. left. pose proof (upd_live _ _ _ _ _ _ Hu' E0 H2) as Hin. exists v.
        split; [apply (ui_ch _ _ _ _ _ Hu _ _ Hin H2)|]. split; [exact H2|]. split; [exact H3|].
        apply (upd_ch_uncovered i ch vw upd p v Hch Hu Hin H2).
      + right. pose proof (upd_none_transfer _ _ _ _ _ _ Hu' Hu E0) as Hup.
        destruct (lookup p va) as [e1|] eqn:E1; [|discriminate].
        destruct (pv_deleted e1 && dropb upd' p); [discriminate|]. injection H1 as ->. split; [|split].
        * exists v. split; [exact E1|]. split; [exact H2|]. split; [exact H3|].
          apply (nlb_spec _ _ _ (proj1 Hva) Hnlb E1 H2).
        * intros t e Ht Hde Hct. split; [intros ->; congruence|].
          destruct (is_path_below p t) eqn:Eb; [|reflexivity]. exfalso.
          destruct (upd_tomb_transfer _ _ _ _ _ _ _ Hu Hu' Ht Hde) as (e' & He' & Hde').
          assert (Hx : lookup t (act_fold l va) = Some e') by (rewrite Xc_lookup, He'; reflexivity).
          rewrite (cov_intro _ t e' p (lookup_in _ _ _ Hx) Hde' Eb) in H4. discriminate.
        * intros x' (v' & Hv' & _). congruence.
  Qed.

  (* store(): what is written back stands for the same live leaves *)
  Lemma store_side_i k v :
    lookup k (act_fold l va) = Some v -> covered (act_fold l va) k = false ->
    exists v', lookup k (overlay [] (store_write m (act_fold l va))) = Some v' /\ same_content v' v = true.
  Proof.
    intros Hk Hc. destruct (store_write_spec m _ Xc_WF Hm) as [Hw Hs].
    rewrite (overlay_lookup _ [] k (proj1 Hw)), Hs. unfold sw_val. rewrite Hk, Hc.
    destruct (lookup k m) as [e|] eqn:Em; [|exists v; split; [reflexivity|apply same_content_refl]].
    destruct (pv_index v =? pv_index e) eqn:Ei; [|exists v; split; [reflexivity|apply same_content_refl]].
    exists e. split; [reflexivity|]. apply N.eqb_eq in Ei. rewrite Xc_lookup in Hk.
    destruct (lookup k upd') as [v0|] eqn:E0.
    - injection Hk as ->. destruct (ui_cases _ _ _ _ _ Hu' _ _ E0) as [Hin|(_ & _ & _ & _ & kc & cv & H6 & H7 & H8)].
      + apply (idx_compat_spec m ch k e v Hic (lookup_in _ _ _ Em)); [|auto].
        apply in_lookup; [apply Hch|exact Hin].
      + exfalso. destruct (ui_del _ _ _ _ _ Hu' _ _ H6 H7) as (tv & Hkc & Htd & _).
        assert (Hx : lookup kc (act_fold l va) = Some tv) by (rewrite Xc_lookup, Hkc; reflexivity).
        rewrite (cov_intro _ kc tv k (lookup_in _ _ _ Hx) Htd) in Hc; [discriminate|].
        apply below_spec; [apply (proj2 (proj1 Hch) _ _ H6)|exact H8].
    - rewrite (va_m_none _ _ Em E0) in Hk. destruct (pv_deleted e && dropb upd' k); [discriminate|]. injection Hk as <-.
      apply same_content_refl.
  Qed.

  Lemma store_side_ii k :
    lookup k (overlay [] (store_write m (act_fold l va))) <> None ->
    lookup k (act_fold l va) <> None.
  Proof.
    intros H Hk. apply H. clear H. destruct (store_write_spec m _ Xc_WF Hm) as [Hw Hs].
    rewrite (overlay_lookup _ [] k (proj1 Hw)), Hs. unfold sw_val. rewrite Hk.
    destruct (lookup k m) as [e|] eqn:Em; [|destruct (tombb None && _); reflexivity].
    rewrite Xc_lookup in Hk. destruct (lookup k upd') as [v0|] eqn:E0; [discriminate|]. pose proof (va_m_none _ _ Em E0) as Hvk. rewrite Hvk in Hk.
    destruct (pv_deleted e) eqn:Ede; [|discriminate]. cbn [andb] in Hk.
    destruct (dropb upd' k) eqn:Edr; [|discriminate]. cbn [tombb]. rewrite Ede. cbn [andb].
    assert (Hclr : clrb m (act_fold l va) (act_fold l va) k = true); [|rewrite Hclr; reflexivity].
    unfold dropb in Edr. apply existsb_exists in Edr. destruct Edr as ([w vw'] & Hin & Hx). cbn in Hx.
    apply andb_true_iff in Hx. destruct Hx as [Hlv Hb]. apply negb_true_iff in Hlv.
    pose proof (upd_WF _ _ _ _ Hch Hu') as Hwu'.
    pose proof (upd_live _ _ _ _ _ _ Hu' (in_lookup _ _ _ (proj1 Hwu') Hin) Hlv) as Hinc.
    destruct (ch_live_Xc w vw' Hinc Hlv) as [Ha Hc].
    unfold clrb. apply existsb_exists. exists (w, vw'). split; [apply lookup_in; exact Ha|]. cbn. rewrite Hlv, Hb.
    unfold written. rewrite Hc. cbn. rewrite !andb_true_r.
    destruct (lookup w m) as [e'|] eqn:Ew; [|reflexivity]. apply negb_true_iff.
    destruct (pv_index vw' =? pv_index e') eqn:Ei; [|reflexivity]. exfalso. apply N.eqb_eq in Ei.
    assert (Hsc : same_content e' vw' = true).
    { apply (idx_compat_spec m ch w e' vw' Hic (lookup_in _ _ _ Ew)); [|auto]. apply in_lookup; [apply Hch|exact Hinc]. }
    unfold same_content in Hsc. apply andb_true_iff in Hsc. destruct Hsc as [Hsc _]. apply eqb_prop in Hsc.
    assert (Hcv : covered va w = false).
    { apply (nlb_spec _ _ e' (proj1 Hva) Hnlb (va_m_live _ _ _ Ew Hinc Hlv)). congruence. }
    rewrite (cov_intro _ k e w (lookup_in _ _ _ Hvk) Ede Hb) in Hcv. discriminate.
  Qed.

  Lemma stored_WF : WF (overlay [] (store_write m (act_fold l va))).
  Proof. apply WF_overlay; [apply WF_nil|]. apply (store_write_spec m _ Xc_WF Hm). Qed.

  Lemma store_side p x :
    lvp (overlay [] (store_write m (act_fold l va))) p x <-> lvp (act_fold l va) p x.
  Proof. apply (prune_equiv _ _ Xc_WF stored_WF store_side_i store_side_ii). Qed.

  (* what is stored holds no entry beneath a tombstone *)
  Lemma stored_no_entry_below k v :
    lookup k (overlay [] (store_write m (act_fold l va))) = Some v ->
    covered (overlay [] (store_write m (act_fold l va))) k = false.
  Proof.
    intros Hk. rewrite (prune_equiv_cov _ _ Xc_WF stored_WF store_side_i store_side_ii).
    destruct (store_write_spec m _ Xc_WF Hm) as [Hw Hs].
    rewrite (overlay_lookup _ [] k (proj1 Hw)), Hs in Hk. unfold sw_val in Hk.
    destruct (lookup k (act_fold l va)) as [v0|] eqn:E.
    - destruct (covered _ k); [discriminate|reflexivity].
    - exfalso. apply (store_side_ii k); [|exact E]. rewrite (overlay_lookup _ [] k (proj1 Hw)), Hs. unfold sw_val. rewrite E.
      destruct (lookup k m); [|destruct (tombb None && _) in Hk; discriminate].
      destruct (tombb (Some p) && _) in *; [discriminate|]. discriminate.
  Qed.
End Apply.

(** * Loading a stored map with nothing inlined gives the map itself *)
Lemma overlay_nil_gen R : forall acc, ND (acc ++ R) -> fold_left (fun acc '(k, v) => insert k v acc) R acc = acc ++ R.
Proof.
  induction R as [|[k v] R IH]; intros acc Hn; cbn [fold_left]; [rewrite app_nil_r; reflexivity|].
  assert (Hk : lookup k acc = None).
  { apply lookup_none. unfold ND in Hn. rewrite map_app in Hn. cbn in Hn. apply NoDup_remove_2 in Hn.
    intros H. apply Hn. apply in_app_iff. auto. }
  assert (Hins : insert k v acc = acc ++ [(k, v)]) by (unfold insert; rewrite Hk; reflexivity).
  change (fold_left (fun acc '(k, v) => insert k v acc) R (insert k v acc) = acc ++ (k, v) :: R).
  rewrite Hins, IH; rewrite <- app_assoc; [reflexivity|exact Hn].
Qed.

Lemma overlay_nil R : ND R -> overlay [] R = R.
Proof. intros Hn. unfold overlay. apply (overlay_nil_gen R []). exact Hn. Qed.

(** * apply_sound *)
Theorem apply_sound_P2Pure ord i inl m vw ch req d :
  wf_apply inl m ch = true -> payload i vw ch = Some req -> abs_dev d = abs_app (overlay inl m) ->
  abs_dev (dev_apply d req) = abs_app (overlay [] (record_applied ord i m (overlay inl m) vw ch)).
Proof.
  unfold wf_apply, wf_pair. rewrite !andb_true_iff, !wfk_WF, wf_change_WFC. intros [[[[Hinl Hm] Hnlb] Hch] Hic] Hpay Hag.
  unfold payload in Hpay. injection Hpay as <-.
  pose proof (adc_spec i ch vw Hch) as Hu.
  pose proof (permute_perm ord ch) as Hp.
  assert (Hu' : upd_spec i ch vw (fst (add_delete_children i (permute ord ch) vw))).
  { apply (upd_spec_perm i (permute ord ch) ch); [exact Hp|]. apply adc_spec. apply (WFC_perm ch); [apply Permutation_sym; exact Hp|exact Hch]. }
  pose proof (permute_perm (rest_code (length ch) ord) (fst (add_delete_children i (permute ord ch) vw))) as Hl.
  set (upd := fst (add_delete_children i ch vw)) in *.
  set (upd' := fst (add_delete_children i (permute ord ch) vw)) in *.
  set (l := permute (rest_code (length ch) ord) upd') in *.
  unfold record_applied. fold upd' l.
  change (fold_left (fun acc '(p, v) => fst (apply_change_to_config acc p v)) l (overlay inl m)) with (act_fold l (overlay inl m)).
  pose proof (upd_WF _ _ _ _ Hch Hu) as Hwu.
  destruct (agree_inv d _ (va_WF inl m Hinl Hm) Hag) as [Hnd Hd].
  unfold abs_app.
  apply abs_dev_live.
  - apply (stored_WF i m (overlay inl m) vw ch upd' l); try assumption. apply va_WF; assumption.
  - apply dev_apply_nd. exact Hnd.
  - intros p x. pose proof (va_WF inl m Hinl Hm) as Hva.
    assert (Hvam : forall k e, lookup k m = Some e ->
              lookup k (overlay inl m) = Some e \/
              (In k (paths vw) /\ exists kc cv, In (kc, cv) ch /\ pv_deleted cv = true /\ Below k kc))
      by (intros k e H; left; apply va_m; assumption).
    rewrite (store_side i m (overlay inl m) vw ch upd' l Hva Hm Hnlb Hvam Hch Hic Hu' Hl).
    rewrite <- (dev_side_sound i (overlay inl m) vw ch upd upd' l Hva Hnlb Hch Hu Hu' Hl).
    rewrite (dev_apply_in _ _ p x (req_upd_nd upd Hwu)). unfold dev_side. rewrite (req_upd upd p x Hwu), Hd. split.
    + intros [H|(H1 & H2 & H3)]; [left; exact H|right]. split; [exact H1|]. split.
      * intros t v Ht Hdel Hc. destruct (H2 t) as [Ha Hb]; [apply (req_del upd t Hwu); exists v; auto|].
        apply eqb_str_neq in Ha. auto.
      * intros x' Hx. apply H3. apply in_map_iff. exists (p, x'). split; [reflexivity|]. apply (req_upd upd p x' Hwu). exact Hx.
    + intros [H|(H1 & H2 & H3)]; [left; exact H|right]. split; [exact H1|]. split.
      * intros t Ht. apply (req_del upd t Hwu) in Ht. destruct Ht as (v & Ha & Hb & Hc). destruct (H2 t v Ha Hb Hc) as [Hx Hy].
        apply eqb_str_neq in Hx. auto.
      * intros Hin. apply in_map_iff in Hin. destruct Hin as ([p' x'] & E & Hin). cbn in E. subst p'.
        apply (H3 x'). apply (req_upd upd p x' Hwu). exact Hin.
Qed.

(* (a) what an OK apply stores is well-formed again, with nothing beneath a tombstone *)
Theorem record_applied_wf ord i inl m vw ch :
  wf_apply inl m ch = true ->
  wf_pair [] (record_applied ord i m (overlay inl m) vw ch) = true /\
  no_entry_below (record_applied ord i m (overlay inl m) vw ch) = true.
Proof.
  unfold wf_apply. rewrite !andb_true_iff. intros [[Hp Hch] Hic]. unfold wf_pair in Hp.
  rewrite !andb_true_iff, !wfk_WF in Hp. destruct Hp as [[Hinl Hm] Hnlb]. rewrite wf_change_WFC in Hch.
  pose proof (permute_perm ord ch) as Hp.
  assert (Hu' : upd_spec i ch vw (fst (add_delete_children i (permute ord ch) vw))).
  { apply (upd_spec_perm i (permute ord ch) ch); [exact Hp|]. apply adc_spec. apply (WFC_perm ch); [apply Permutation_sym; exact Hp|exact Hch]. }
  pose proof (permute_perm (rest_code (length ch) ord) (fst (add_delete_children i (permute ord ch) vw))) as Hl.
  set (upd' := fst (add_delete_children i (permute ord ch) vw)) in *.
  set (l := permute (rest_code (length ch) ord) upd') in *.
  unfold record_applied. fold upd' l.
  change (fold_left (fun acc '(p, v) => fst (apply_change_to_config acc p v)) l (overlay inl m)) with (act_fold l (overlay inl m)).
  pose proof (va_WF inl m Hinl Hm) as Hva.
  assert (Hvam : forall k e, lookup k m = Some e ->
            lookup k (overlay inl m) = Some e \/
            (In k (paths vw) /\ exists kc cv, In (kc, cv) ch /\ pv_deleted cv = true /\ Below k kc))
    by (intros k e H; left; apply va_m; assumption).
  pose proof (stored_WF i m (overlay inl m) vw ch upd' l Hva Hm Hch Hu' Hl) as Hw.
  pose proof (stored_no_entry_below i m (overlay inl m) vw ch upd' l Hva Hm Hnlb Hvam Hch Hic Hu' Hl) as Hne.
  assert (HwR : WF (store_write m (act_fold l (overlay inl m)))).
  { apply store_write_spec; [|exact Hm]. apply (Xc_WF i (overlay inl m) vw ch upd' l); assumption. }
  rewrite (overlay_nil _ (proj1 HwR)) in Hw, Hne.
  assert (Hneb : no_entry_below (store_write m (act_fold l (overlay inl m))) = true).
  { unfold no_entry_below. apply forallb_forall. intros [k v] Hin. cbn. apply negb_true_iff. apply (Hne k v).
    apply in_lookup; [apply HwR|exact Hin]. }
  split; [|exact Hneb]. unfold wf_pair. rewrite (overlay_nil _ (proj1 HwR)). rewrite !andb_true_iff. split; [split|].
  - reflexivity.
  - apply wfk_WF. exact HwR.
  - unfold no_live_below. apply forallb_forall. intros kv Hin. unfold no_entry_below in Hneb. rewrite forallb_forall in Hneb.
    rewrite (Hneb kv Hin). apply orb_true_r.
Qed.

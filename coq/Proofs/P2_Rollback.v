(* C06 (protocol part) - refused rollbacks alter nothing; an accepted rollback replays exactly the values and the index
   recorded by the change it rolls back.  Single-step facts about reconcileValidate / reconcileCommit of the proposal
   reconciler and reconcileInitialize / reconcileValidate of the transaction reconciler (Model/Proto2.v), plus: in every
   reachable world a committed path-value map is written only by the commit of a proposal whose transaction has a
   Commit phase and no Abort phase. *)
From stdpp Require Import gmap.
From RecordUpdate Require Import RecordUpdate.
From Coq Require Import NArith Lia String.
From OC Require Import Base.Bytes Model.P2Pure Model.Proto2 Model.P2Inst Proofs.P2Base Proofs.P2Phases Proofs.P2_Failure Proofs.P2_Crash.
Open Scope N_scope.

Section Rollback.
  Context {V Ch Req D : Type}.
  Context (candidate : V -> Ch -> V) (candidate_rb : V -> Ch -> V) (rollback_of : V -> Ch -> Ch)
          (overlay : V -> V -> V) (commit_merge : N -> N -> V -> V -> Ch -> V)
          (payload : N -> V -> Ch -> option Req) (record_applied : N -> N -> V -> V -> V -> Ch -> V)
          (touched : N -> V -> Ch -> V) (restore : V -> V -> V)
          (resync_payload : V -> list (option Req)) (doc_ok : V -> bool)
          (dev_apply : D -> Req -> D) (stamp : N -> Ch -> Ch) (v_empty : V) (d_empty : D) (ch_empty : Ch).

  Notation world := (@world V Ch Req D).
  Notation eff := (@eff V Ch Req).
  Notation txn := (@txn Ch).
  Notation prop := (@prop Ch).
  Notation config := (@config V).
  Notation apply_eff := (@apply_eff V Ch Req D dev_apply d_empty).
  Notation rec_tx := (@rec_tx V Ch Req D stamp).
  Notation rec_prop := (@rec_prop V Ch Req D candidate candidate_rb rollback_of overlay commit_merge payload record_applied
                                  touched restore doc_ok v_empty d_empty ch_empty).
  Notation rec_cfg := (@rec_cfg V Ch Req D overlay restore resync_payload v_empty d_empty).
  Notation rec_master := (@rec_master V Ch Req D overlay restore v_empty).
  Notation rec_conn := (@rec_conn V Ch Req D).
  Notation reconcile := (@reconcile V Ch Req D candidate candidate_rb rollback_of overlay commit_merge payload record_applied
                                    touched restore resync_payload doc_ok stamp v_empty d_empty ch_empty).
  Notation step := (@step V Ch Req D candidate candidate_rb rollback_of overlay commit_merge payload record_applied
                          touched restore resync_payload doc_ok dev_apply stamp v_empty d_empty ch_empty).
  Notation reach := (@reach V Ch Req D candidate candidate_rb rollback_of overlay commit_merge payload record_applied
                            touched restore resync_payload doc_ok dev_apply stamp v_empty d_empty ch_empty).
  Notation J := (@J V Ch Req D).
  Notation view := (@view V overlay).
  Notation aview := (@aview V overlay).
  Notation rb_change := (@rb_change Ch ch_empty).
  Notation committing := (@committing V Ch Req D).
  Notation commit_entry := (@commit_entry V Ch overlay v_empty).

  (** * Validation of a rollback proposal *)
  (* the proposal is VALIDATING and its predecessor is committed *)
  Record validating (w : world) (t i : N) (P : prop) (C : config) : Prop := {
    vl_prop : props w !! (t, i) = Some P;
    vl_apply : p_apply P = None; vl_abort : p_abort P = None; vl_commit : p_commit P = None;
    vl_validate : p_validate P = Some Doing;
    vl_cfg : cfgs w !! t = Some C;
    vl_prev : p_prev P = 0 \/ c_committed C = p_prev P }.

  Definition refused (t i : N) (P : prop) (f : ftype) : list eff * result :=
    ([EPutProp (t, i) (P <| p_validate := Some Failed |> <| p_vfail := Some f |>)], RDone).

  Lemma validating_enter (o : oracle) (w : world) t i P C :
    validating w t i P C -> o_plugin o = true ->
    rec_prop o w (t, i) =
      let finish (cand : V) (rbi : N) (rbv : option Ch) :=
        if negb (doc_ok cand) then ([], RRetry)
        else if o_verdict o
        then ([EPutProp (t, i) (P <| p_rbindex := rbi |> <| p_rbvalues := rbv |> <| p_validate := Some Done |>)], RDone)
        else refused t i P FInvalid in
      match p_details P with
      | PChange ch => finish (candidate (view C) ch) (c_index C) (Some (rollback_of (view C) ch))
      | PRollback ri =>
        if negb (c_index C =? ri) then refused t i P FForbidden
        else match props w !! (t, ri) with
        | None => refused t i P FNotFound
        | Some Q =>
          match p_details Q with
          | PChange _ => finish (candidate_rb (view C) (default ch_empty (p_rbvalues Q))) (p_rbindex Q) (p_rbvalues Q)
          | PRollback _ => refused t i P FForbidden
          end
        end
      end.
  Proof.
    intros [HP Ha Hb Hc Hv HC Hprev] Hpl. unfold Proto2.rec_prop, Proto2.vfail, refused. rewrite HP, Ha, Hb, Hc, Hv, HC.
    replace (negb (p_prev P =? 0) && negb (c_committed C =? p_prev P)) with false.
    2:{ symmetry. destruct Hprev as [H0|H0]; [rewrite H0; reflexivity|]. rewrite H0, N.eqb_refl. apply andb_false_r. }
    rewrite Hpl. reflexivity.
  Qed.

  (* (a) the configuration does not currently reflect the change that is to be rolled back *)
  Lemma rollback_not_latest (o : oracle) (w : world) t i P C ri :
    validating w t i P C -> o_plugin o = true -> p_details P = PRollback ri -> c_index C <> ri ->
    rec_prop o w (t, i) = refused t i P FForbidden.
  Proof.
    intros Hv Hpl Hd Hne. rewrite (validating_enter o w t i P C Hv Hpl). cbv zeta. rewrite Hd.
    replace (c_index C =? ri) with false by (symmetry; apply N.eqb_neq; exact Hne). reflexivity.
  Qed.

  (* (b) the target has no proposal at that index *)
  Lemma rollback_missing (o : oracle) (w : world) t i P C ri :
    validating w t i P C -> o_plugin o = true -> p_details P = PRollback ri -> c_index C = ri -> props w !! (t, ri) = None ->
    rec_prop o w (t, i) = refused t i P FNotFound.
  Proof.
    intros Hv Hpl Hd He Hn. rewrite (validating_enter o w t i P C Hv Hpl). cbv zeta. rewrite Hd, He, N.eqb_refl, Hn. reflexivity.
  Qed.

  (* (c) the proposal at that index is itself a rollback *)
  Lemma rollback_of_rollback (o : oracle) (w : world) t i P C ri (Q : prop) rj :
    validating w t i P C -> o_plugin o = true -> p_details P = PRollback ri -> c_index C = ri ->
    props w !! (t, ri) = Some Q -> p_details Q = PRollback rj ->
    rec_prop o w (t, i) = refused t i P FForbidden.
  Proof.
    intros Hv Hpl Hd He HQ HdQ. rewrite (validating_enter o w t i P C Hv Hpl). cbv zeta. rewrite Hd, He, N.eqb_refl, HQ, HdQ. reflexivity.
  Qed.

  (* accepted: the rollback proposal takes over exactly the index and the values recorded by the change *)
  Lemma rollback_accepted (o : oracle) (w : world) t i P C ri (Q : prop) ch :
    validating w t i P C -> o_plugin o = true -> p_details P = PRollback ri -> c_index C = ri ->
    props w !! (t, ri) = Some Q -> p_details Q = PChange ch ->
    doc_ok (candidate_rb (view C) (default ch_empty (p_rbvalues Q))) = true -> o_verdict o = true ->
    rec_prop o w (t, i) =
      ([EPutProp (t, i) (P <| p_rbindex := p_rbindex Q |> <| p_rbvalues := p_rbvalues Q |> <| p_validate := Some Done |>)], RDone).
  Proof.
    intros Hv Hpl Hd He HQ HdQ Hdoc Hver. rewrite (validating_enter o w t i P C Hv Hpl). cbv zeta.
    rewrite Hd, He, N.eqb_refl, HQ, HdQ, Hdoc, Hver. reflexivity.
  Qed.

  (* what a change records when it is validated: the rollback values computed from the configuration it was validated
     against, and that configuration's index *)
  Lemma change_records (o : oracle) (w : world) t i P C ch :
    validating w t i P C -> o_plugin o = true -> p_details P = PChange ch ->
    doc_ok (candidate (view C) ch) = true -> o_verdict o = true ->
    rec_prop o w (t, i) =
      ([EPutProp (t, i) (P <| p_rbindex := c_index C |> <| p_rbvalues := Some (rollback_of (view C) ch) |> <| p_validate := Some Done |>)], RDone).
  Proof.
    intros Hv Hpl Hd Hdoc Hver. rewrite (validating_enter o w t i P C Hv Hpl). cbv zeta. rewrite Hd, Hdoc, Hver. reflexivity.
  Qed.

  (* the commit of a rollback merges exactly the values it carries and sets the configuration index to the recorded one *)
  Lemma rollback_commit (o : oracle) (w : world) t i P C ri :
    committing w t i P C -> c_committed C = p_prev P -> p_details P = PRollback ri ->
    rec_prop o w (t, i) =
      ([EPutValues t (commit_merge (o_order o) i (c_values C) (view C) (default ch_empty (p_rbvalues P)));
        EPutCfg t (C <| c_index := p_rbindex P |> <| c_committed := i |> <| c_inline := v_empty |> <| c_ainline := aview C |>);
        EPutProp (t, i) (P <| p_commit := Some Done |>)], requeue_next t P) /\
    (forall k, (2 <= k)%nat ->
       exists C', cfgs (step w (LRec (CtlProp (t, i)) k o)) !! t = Some C' /\ c_index C' = p_rbindex P /\ c_committed C' = i /\
                  c_values C' = commit_merge (o_order o) i (c_values C) (view C) (default ch_empty (p_rbvalues P))).
  Proof.
    intros Hc He Hd.
    pose proof (commit_effects_merge candidate candidate_rb rollback_of overlay commit_merge payload record_applied touched restore
                  doc_ok v_empty d_empty ch_empty o w t i P C Hc He) as Hr.
    unfold P2_Crash.commit_entry, Proto2.rb_change in Hr. rewrite Hd in Hr. split; [exact Hr|].
    intros k Hk. cbn [Proto2.step Proto2.reconcile]. rewrite Hr. cbn [fst].
    destruct k as [|[|[|k]]]; try lia.
    - cbn [firstn fold_left]. rewrite !cfgs_apply_eff, (cm_cfg _ _ _ _ _ Hc), lookup_insert. cbn. rewrite lookup_insert.
      eexists. split; [reflexivity|]. repeat split.
    - rewrite firstn_all2 by (cbn; lia). cbn [fold_left]. rewrite !cfgs_apply_eff, (cm_cfg _ _ _ _ _ Hc), lookup_insert. cbn. rewrite lookup_insert.
      eexists. split; [reflexivity|]. repeat split.
  Qed.

  (** * Refusal at the transaction level *)
  (* the transaction is INITIALIZING, has no proposal list yet and is not held back by its predecessor *)
  Record initializing (w : world) (i : N) (T : txn) : Prop := {
    in_tx : txs w !! i = Some T;
    in_apply : t_apply T = None; in_abort : t_abort T = None; in_commit : t_commit T = None; in_validate : t_validate T = None;
    in_init : t_init T = Some Doing;
    in_props : t_props T = None;
    in_prev : match txs w !! (i - 1) with
              | Some P => is_none (t_init P) || bool_decide (t_init P = Some Doing)
              | None => false end = false }.

  Definition init_failed (i : N) (T : txn) (f : ftype) : list eff * result :=
    ([EPutTx i (T <| t_state := TFailed |> <| t_failure := Some f |> <| t_abort := Some Doing |> <| t_init := Some Failed |>)], RRequeueTx (i + 1)).

  Lemma tx_rollback_missing (w : world) i T ri :
    initializing w i T -> t_details T = TRollback ri -> txs w !! ri = None -> rec_tx w i = init_failed i T FNotFound.
  Proof.
    intros [HT H1 H2 H3 H4 H5 H6 H7] Hd Hn. unfold Proto2.rec_tx, fail_init, init_failed.
    rewrite HT. cbv zeta. rewrite H1, H2, H3, H4, H5, H7, H6, Hd, Hn. reflexivity.
  Qed.

  Lemma tx_rollback_of_rollback (w : world) i T ri (R : txn) rj :
    initializing w i T -> t_details T = TRollback ri -> txs w !! ri = Some R -> t_details R = TRollback rj ->
    rec_tx w i = init_failed i T FForbidden.
  Proof.
    intros [HT H1 H2 H3 H4 H5 H6 H7] Hd HR HdR. unfold Proto2.rec_tx, fail_init, init_failed.
    rewrite HT. cbv zeta. rewrite H1, H2, H3, H4, H5, H7, H6, Hd, HR, HdR. reflexivity.
  Qed.

  (* a proposal that failed validation fails its transaction, which enters its Abort phase *)
  Lemma tx_validate_failed (w : world) i (T : txn) tg :
    txs w !! i = Some T -> t_apply T = None -> t_abort T = None -> t_commit T = None -> t_validate T = Some Doing ->
    t_props T = Some tg ->
    (forall t, In t tg -> exists p, props w !! (t, i) = Some p /\ is_Some (p_validate p)) ->
    (exists t p, In t tg /\ props w !! (t, i) = Some p /\ p_validate p = Some Failed) ->
    exists t p, In t tg /\ props w !! (t, i) = Some p /\ p_validate p = Some Failed /\
      rec_tx w i = ([EPutTx i (T <| t_state := TFailed |> <| t_failure := p_vfail p |> <| t_abort := Some Doing |>
                                 <| t_validate := Some Failed |>)], RDone).
  Proof.
    intros HT H1 H2 H3 H4 Hp Hall (t & p & Hin & Hpp & Hf).
    unfold Proto2.rec_tx. rewrite HT. cbv zeta. rewrite H1, H2, H3, H4, Hp. cbn [default]. unfold id, phase_scan.
    match goal with |- context [scan_props w i tg ?f] =>
      destruct (scan_props_found w i tg f) as (t1 & p1 & Hin1 & Hp1 & Hf1 & Hs1) end.
    - intros t' Ht'. destruct (Hall t' Ht') as (p' & Hp' & _). eexists; exact Hp'.
    - exists t, p. repeat split; auto. rewrite Hf. cbn. rewrite bool_decide_eq_true_2 by reflexivity. reflexivity.
    - rewrite Hs1. destruct (Hall t1 Hin1) as (p1' & Hp1' & [a Hs]). rewrite Hp1 in Hp1'. injection Hp1' as <-.
      rewrite Hs in Hf1 |- *. cbn in Hf1 |- *. apply bool_decide_eq_true_1 in Hf1.
      exists t1, p1. repeat split; auto. rewrite Hs. exact Hf1.
  Qed.

  (** * Who writes committed values *)
  Definition no_values (e : eff) : Prop := match e with EPutValues _ _ => False | _ => True end.

  Ltac no_values_tac := repeat first [ apply List.Forall_nil | apply List.Forall_cons; [exact I|] ].

  Lemma create_props_no_values (w : world) i l : Forall no_values (create_props w i l).
  Proof.
    unfold create_props. induction l as [|tp l IH]; cbn [flat_map]; [apply List.Forall_nil|].
    apply Forall_app_2; [|exact IH]. destruct (props w !! (tp.1, i)); no_values_tac.
  Qed.

  Lemma rec_tx_no_values (w : world) i : Forall no_values (fst (rec_tx w i)).
  Proof.
    unfold Proto2.rec_tx, phase_scan, gate, fail_init.
    destruct_matches; cbn [fst]; no_values_tac.
    all: apply Forall_app_2; [apply create_props_no_values|no_values_tac].
  Qed.

  Lemma resync_effs_no_values t m term a reqs : Forall no_values (fst (@resync_effs V Ch Req t m term a reqs)).
  Proof.
    induction reqs as [|[r|] rest IH]; cbn; try apply List.Forall_nil.
    destruct a; cbn; try (apply List.Forall_cons; [exact I|apply List.Forall_nil]).
    destruct (resync_effs t m term COk rest) as [es res] eqn:E. cbn in *. apply List.Forall_cons; [exact I|exact IH].
  Qed.

  Lemma rec_cfg_no_values (o : oracle) (w : world) t : Forall no_values (fst (rec_cfg o w t)).
  Proof.
    unfold Proto2.rec_cfg, Proto2.upd_status.
    destruct_matches; cbn [fst app]; no_values_tac.
    all: match goal with E : resync_effs _ _ _ _ _ = (?es, _) |- _ =>
           pose proof (resync_effs_no_values t n (c_term c) (dev_answer d_empty w t (c_term c) o) (resync_payload (aview c))) as Hn;
           rewrite E in Hn; cbn in Hn end.
    all: first [ exact Hn | apply Forall_app_2; [exact Hn|]; no_values_tac ].
  Qed.

  Lemma rec_master_no_values (o : oracle) (w : world) t : Forall no_values (fst (rec_master o w t)).
  Proof. unfold Proto2.rec_master, Proto2.upd_status. destruct_matches; cbn [fst app]; no_values_tac. Qed.

  Lemma rec_conn_no_values (w : world) c : Forall no_values (fst (rec_conn w c)).
  Proof. unfold Proto2.rec_conn. destruct_matches; cbn [fst]; no_values_tac. Qed.

  (* the proposal reconciler writes committed values only in its commit branch *)
  Lemma rec_prop_values (o : oracle) (w : world) t i :
    Forall no_values (fst (rec_prop o w (t, i))) \/
    exists P C, committing w t i P C /\ c_committed C = p_prev P.
  Proof.
    destruct (props w !! (t, i)) as [P|] eqn:HP.
    2:{ left. unfold Proto2.rec_prop. rewrite HP. apply List.Forall_nil. }
    destruct (p_apply P) as [a|] eqn:Ea.
    { left. unfold Proto2.rec_prop, Proto2.upd_status. rewrite HP, Ea. destruct_matches; cbn [fst app]; no_values_tac. }
    destruct (p_abort P) as [ab|] eqn:Eb.
    { left. unfold Proto2.rec_prop, Proto2.upd_status. rewrite HP, Ea, Eb. destruct_matches; cbn [fst app]; no_values_tac. }
    destruct (p_commit P) as [c|] eqn:Ec.
    { destruct c, (cfgs w !! t) as [C|] eqn:HC.
      2-6: left; unfold Proto2.rec_prop; rewrite HP, Ea, Eb, Ec, ?HC; destruct_matches; cbn [fst app]; no_values_tac.
      destruct (c_committed C =? p_prev P) eqn:E.
      - right. exists P, C. split; [split; assumption|]. apply N.eqb_eq. exact E.
      - left. unfold Proto2.rec_prop. rewrite HP, Ea, Eb, Ec, HC, E. cbn [fst app]. no_values_tac. }
    left. unfold Proto2.rec_prop, Proto2.vfail, Proto2.upd_status. rewrite HP, Ea, Eb, Ec.
    destruct_matches; cbn [fst app]; no_values_tac.
    match goal with H : _ = Some ?e |- Forall _ [?e] =>
      repeat match type of H with context [match ?x with _ => _ end] => destruct x eqn:? end;
      try discriminate H; injection H as <-; no_values_tac
    end.
  Qed.

  (* an invocation that writes a committed path-value map is the commit of a proposal, merging on top of its predecessor *)
  Lemma values_written_only_by_commit (o : oracle) (w : world) c t v :
    In (EPutValues t v) (fst (reconcile o w c)) ->
    exists t' i P C, c = CtlProp (t', i) /\ committing w t' i P C /\ c_committed C = p_prev P.
  Proof.
    intros Hin.
    assert (Hnv : forall l : list eff, Forall no_values l -> In (EPutValues t v) l -> False).
    { intros l Hf Hi. rewrite List.Forall_forall in Hf. exact (Hf _ Hi). }
    destruct c as [i|[t' i]|t'|t'|cc]; cbn [Proto2.reconcile] in Hin.
    - exfalso. exact (Hnv _ (rec_tx_no_values w i) Hin).
    - destruct (rec_prop_values o w t' i) as [Hf|(P & C & Hc & He)]; [exfalso; exact (Hnv _ Hf Hin)|].
      exists t', i, P, C. auto.
    - exfalso. exact (Hnv _ (rec_cfg_no_values o w t') Hin).
    - exfalso. exact (Hnv _ (rec_master_no_values o w t') Hin).
    - exfalso. exact (Hnv _ (rec_conn_no_values w cc) Hin).
  Qed.

  (* ... and in a reachable world the transaction of that proposal has a Commit phase and no Abort phase: a transaction
     that failed in Initialize or Validate (refused rollback, rejected change) never alters stored values on ANY of its
     targets *)
  Lemma values_written_only_by_committing_tx (o : oracle) (w : world) c t v :
    reach w -> In (EPutValues t v) (fst (reconcile o w c)) ->
    exists t' i T, c = CtlProp (t', i) /\ txs w !! i = Some T /\ is_Some (t_commit T) /\ t_abort T = None.
  Proof.
    intros Hr Hin. destruct (values_written_only_by_commit o w c t v Hin) as (t' & i & P & C & -> & Hc & _).
    pose proof (J_reach candidate candidate_rb rollback_of overlay commit_merge payload record_applied touched restore
                        resync_payload doc_ok dev_apply stamp v_empty d_empty ch_empty w Hr) as HJ.
    destruct (j_back _ HJ _ _ (cm_prop _ _ _ _ _ Hc)) as (T & HT & _ & Hcm & _).
    { right; left. rewrite (cm_commit _ _ _ _ _ Hc). eexists; reflexivity. }
    cbn in HT. exists t', i, T. split; [reflexivity|]. split; [exact HT|].
    assert (Hsc : is_Some (t_commit T)) by (apply Hcm; rewrite (cm_commit _ _ _ _ _ Hc); eexists; reflexivity).
    split; [exact Hsc|].
    pose proof (j_tx _ HJ _ _ HT) as Hwf. unfold tx_wf, wfb, imp, P2Phases.some in Hwf.
    destruct Hsc as [x Hx]. rewrite Hx in Hwf. destruct (t_abort T); [|reflexivity].
    cbn in Hwf. rewrite !andb_false_r in Hwf. cbn in Hwf. repeat (rewrite ?andb_false_r, ?andb_false_l in Hwf). discriminate.
  Qed.

  Lemma in_firstn {A} (x : A) (k : nat) : forall l, In x (firstn k l) -> In x l.
  Proof. induction k as [|k IH]; intros [|y l] H; cbn in *; try contradiction. destruct H as [->|H]; [left; reflexivity|right; auto]. Qed.

  Lemma aborted_tx_writes_no_values (o : oracle) (w : world) i (T : txn) t (k : nat) :
    reach w -> txs w !! i = Some T -> is_Some (t_abort T) ->
    forall t' v, ~ In (EPutValues t' v) (firstn k (fst (reconcile o w (CtlProp (t, i))))).
  Proof.
    intros Hr HT Hab t' v Hin. apply in_firstn in Hin.
    destruct (values_written_only_by_committing_tx o w _ t' v Hr Hin) as (t1 & i1 & T1 & [= <- <-] & HT1 & _ & Hna).
    rewrite HT in HT1. injection HT1 as <-. rewrite Hna in Hab. destruct Hab; discriminate.
  Qed.
End Rollback.

(** * The hypotheses are satisfiable: reachable worlds of the executable instance Model/P2Inst.v *)
Definition z_validating := @validating cmap cmap req dstate.
Definition z_initializing := @initializing cmap cmap req dstate.
(* two applied changes on target 1: /a = 1 (index 1), /b = 2 (index 2) *)
Definition z_two : list Label :=
  [LTarget 1 false; LConnUp 10 1; LChange [(1, x_ch "/a" "1")] true false; LChange [(1, x_ch "/b" "2")] true false]
  ++ x_rounds 20 (x_oracle COk) 1 [1; 2].
Definition z_rb (ri : N) (n : nat) : list Label := z_two ++ [LRollback ri] ++ x_rounds n (x_oracle COk) 1 [3].

Ltac z_validating_tac :=
  split; [vm_compute; reflexivity|vm_compute; reflexivity|vm_compute; reflexivity|vm_compute; reflexivity|vm_compute; reflexivity
         |vm_compute; reflexivity|first [left; vm_compute; reflexivity|right; vm_compute; reflexivity]].

(* rollback of change 1 while the configuration reflects change 2 *)
Example z_not_latest_hyps : exists P C,
  z_validating (x_run (z_rb 1 9)) 1 3 P C /\ p_details P = PRollback 1 /\ c_index C <> 1.
Proof. eexists _, _. split; [z_validating_tac|]. split; vm_compute; [reflexivity|discriminate]. Qed.

(* rollback of change 2, the latest *)
Example z_accepted_hyps : exists P C Q ch,
  z_validating (x_run (z_rb 2 9)) 1 3 P C /\ p_details P = PRollback 2 /\ c_index C = 2 /\
  props (x_run (z_rb 2 9)) !! (1, 2) = Some Q /\ p_details Q = PChange ch /\
  doc_ok (candidate_rb (view overlay C) (default nil (p_rbvalues Q))) = true.
Proof.
  eexists _, _, _, _. split; [z_validating_tac|]. repeat (split; [vm_compute; reflexivity|]). vm_compute; reflexivity.
Qed.

Example z_commit_hyps : exists P C,
  y_committing (x_run (z_rb 2 12)) 1 3 P C /\ c_committed C = p_prev P /\ p_details P = PRollback 2 /\
  p_rbindex P = 1 /\ p_rbvalues P = Some [(B "/b", mkPV (B "/b") [] true 0)].
Proof.
  eexists _, _. split; [split; vm_compute; reflexivity|]. repeat (split; [vm_compute; reflexivity|]). vm_compute; reflexivity.
Qed.

(* ... and after its commit and apply the configuration is back to /a = 1 at index 1 *)
Example z_restored :
  y_live (x_run (z_rb 2 16)) 1 = [(B "/a", B "1")] /\
  (c_index <$> cfgs (x_run (z_rb 2 16)) !! 1) = Some 1 /\ y_state (x_run (z_rb 2 16)) 3 = Some TApplied.
Proof. repeat (split; [vm_compute; reflexivity|]). vm_compute; reflexivity. Qed.

(* rollback of an index that does not exist; rollback of a rollback *)
Example z_tx_missing_hyps : exists T,
  z_initializing (x_run (z_rb 7 1)) 3 T /\ t_details T = TRollback 7 /\ txs (x_run (z_rb 7 1)) !! 7 = None.
Proof. eexists. split; [split; vm_compute; reflexivity|]. split; vm_compute; reflexivity. Qed.

Definition z_rb_rb : list Label := z_rb 2 16 ++ [LRollback 3] ++ x_rounds 1 (x_oracle COk) 1 [4].
Example z_tx_rb_of_rb_hyps : exists T R,
  z_initializing (x_run z_rb_rb) 4 T /\ t_details T = TRollback 3 /\ txs (x_run z_rb_rb) !! 3 = Some R /\ t_details R = TRollback 2.
Proof. eexists _, _. split; [split; vm_compute; reflexivity|]. repeat (split; [vm_compute; reflexivity|]). vm_compute; reflexivity. Qed.

(* the refused proposal fails its transaction *)
Definition z_refused : Wd := x_run (z_rb 1 9 ++ [LRec (CtlProp (1, 3)) 9 (x_oracle COk)]).
Example z_tx_validate_failed_hyps : exists T P,
  txs z_refused !! 3 = Some T /\ t_apply T = None /\ t_abort T = None /\ t_commit T = None /\ t_validate T = Some Doing /\
  t_props T = Some [1] /\ props z_refused !! (1, 3) = Some P /\ p_validate P = Some Failed /\ p_vfail P = Some FForbidden.
Proof. eexists _, _. repeat (split; [vm_compute; reflexivity|]). vm_compute; reflexivity. Qed.

Example z_aborted_hyps : exists T,
  txs (x_run (z_rb 1 10)) !! 3 = Some T /\ is_Some (t_abort T) /\ y_live (x_run (z_rb 1 12)) 1 = y_live (x_run z_two) 1.
Proof. eexists. split; [vm_compute; reflexivity|]. split; vm_compute; [eexists|]; reflexivity. Qed.

(* the proposal-level checks (b) "no proposal at that index" and (c) "the proposal at that index is a rollback" are
   defensive: the transaction reconciler refuses both cases before any proposal is created, and the configuration index
   is only ever the index of a change.  Their hypotheses are satisfiable on constructed (not reachable) worlds: *)
Definition z_P (ri : N) : Prop2 := mkProp (PRollback ri) 0 0 0 None (Some Done) (Some Doing) None None None None None 0.
Definition z_C (ix : N) : Cfg := mkCfg ix [] [] [] [] 3 0 0 CSynchronized None 0 None 0.
Example z_missing_hyps :
  z_validating (mk_world [] 4 [((1, 3), z_P 2)] [(1, z_C 2)] [] [] [] [] []) 1 3 (z_P 2) (z_C 2) /\
  props (mk_world [] 4 [((1, 3), z_P 2)] [(1, z_C 2)] [] [] [] [] []) !! (1, 2) = None.
Proof. split; [z_validating_tac|vm_compute; reflexivity]. Qed.
Example z_rb_of_rb_hyps :
  z_validating (mk_world [] 4 [((1, 3), z_P 2); ((1, 2), z_P 1)] [(1, z_C 2)] [] [] [] [] []) 1 3 (z_P 2) (z_C 2) /\
  props (mk_world [] 4 [((1, 3), z_P 2); ((1, 2), z_P 1)] [(1, z_C 2)] [] [] [] [] []) !! (1, 2) = Some (z_P 1).
Proof. split; [z_validating_tac|vm_compute; reflexivity]. Qed.

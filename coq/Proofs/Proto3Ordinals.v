(* Proto3Ordinals: the ordinals handed out by commits stay inside the Committed cursor.
   Read off the frontier invariant (Proto3OrderBase.SInv, conjuncts o1a, o3a, o3b): in every reachable world
     - a change whose commit is COMPLETE carries an ordinal between 1 and Committed.Ordinal of the configuration;
     - a rollback whose commit is COMPLETE carries exactly Committed.Ordinal, which is larger than the ordinal of every
       committed change (the rollback was sequenced after all of them).
   The harness monitor c20_ordinal_outside_cursor evaluates the same statements on the records of the implementation. *)
From Coq Require Import List NArith Bool Lia.
From OC Require Import Model.Proto3 Spec.Tla3 Proofs.Proto3Proofs Proofs.Proto3OrderBase Proofs.Proto3OrderStep.
Import ListNotations.
Open Scope N_scope.

Theorem change_ordinal_within_cursor_reach : forall w, reach w ->
  forall j t, get_tx w j = Some t -> t_cc t = Complete -> 1 <= t_cord t <= k_ordinal (cmc w).
Proof.
  intros w Hw j t Hj Ct. pose proof (proj1 (Inv_reach w Hw)) as HS.
  apply (o1a _ _ _ _ HS j t Hj). rewrite Ct. reflexivity.
Qed.

Theorem rollback_ordinal_is_cursor_reach : forall w, reach w ->
  forall j t, get_tx w j = Some t -> t_rc t = Some Complete ->
  t_rord t = k_ordinal (cmc w) /\
  forall k u, get_tx w k = Some u -> t_cc u = Complete -> t_cord u < t_rord t.
Proof.
  intros w Hw j t Hj Rt. pose proof (proj1 (Inv_reach w Hw)) as HS.
  assert (R : rc t = 2) by (rewrite Rt; reflexivity).
  split.
  - exact (o3a _ _ _ _ HS j t Hj R).
  - intros k u Hk Cu. apply (o3b _ _ _ _ HS j t k u Hj Hk R). rewrite Cu. reflexivity.
Qed.

(* the premises are met by a reachable world: the witness of the rollback scenario (one change committed, then rolled back) *)
From OC Require Import Proofs.Proto3Witness.

Example rollback_ordinal_nonvacuous :
  let w := run ls_alias_rb in
  reach w /\
  (exists t, get_tx w 2 = Some t /\ t_rc t = Some Complete /\ t_cc t = Complete /\ t_rord t = 3 /\ t_cord t = 2) /\
  (exists u, get_tx w 1 = Some u /\ t_cc u = Complete /\ t_cord u = 1) /\
  k_ordinal (cmc w) = 3.
Proof.
  split; [exists ls_alias_rb; reflexivity|]. vm_compute.
  repeat split; eexists; repeat split; reflexivity.
Qed.

(* Phase invariants of the v2 protocol model (all schedules, all crash prefixes):
     - a transaction's phases are well formed (Commit needs Validate done, Apply needs Commit done, Abort excludes
       Commit and Apply and needs a failed Initialize or Validate),
     - every phase of a proposal is backed by the same phase of its transaction,
   hence no transaction ever has one proposal committing and another aborting (C01). *)
From stdpp Require Import gmap.
From RecordUpdate Require Import RecordUpdate.
From Coq Require Import NArith Lia.
From OC Require Import Model.Proto2 Proofs.P2Base.
Open Scope N_scope.

Section Phases.
  Context {V Ch Req D : Type}.
  Context (candidate : V -> Ch -> V) (candidate_rb : V -> Ch -> V) (rollback_of : V -> Ch -> Ch)
          (overlay : V -> V -> V) (commit_merge : N -> N -> V -> V -> Ch -> V)
          (payload : N -> V -> Ch -> option Req) (record_applied : N -> V -> V -> V -> Ch -> V)
          (touched : N -> V -> Ch -> V) (restore : V -> V -> V)
          (resync_payload : V -> list (option Req)) (doc_ok : V -> bool)
          (dev_apply : D -> Req -> D) (stamp : N -> Ch -> Ch) (v_empty : V) (d_empty : D) (ch_empty : Ch).

  Notation world := (@world V Ch Req D).
  Notation eff := (@eff V Ch Req).
  Notation txn := (@txn Ch).
  Notation prop := (@prop Ch).
  Notation apply_eff := (@apply_eff V Ch Req D dev_apply d_empty).
  Notation rec_tx := (@rec_tx V Ch Req D stamp).
  Notation rec_prop := (@rec_prop V Ch Req D candidate candidate_rb rollback_of overlay commit_merge payload record_applied
                                  touched restore doc_ok v_empty d_empty ch_empty).
  Notation rec_cfg := (@rec_cfg V Ch Req D overlay restore resync_payload v_empty d_empty).
  Notation rec_master := (@rec_master V Ch Req D overlay restore v_empty).
  Notation rec_conn := (@rec_conn V Ch Req D).
  Notation reconcile := (@reconcile V Ch Req D candidate candidate_rb rollback_of overlay commit_merge payload record_applied
                                    touched restore resync_payload doc_ok stamp v_empty d_empty ch_empty).
  Notation step := (@step V Ch Req D candidate candidate_rb rollback_of overlay commit_merge payload record_applied
                          touched restore resync_payload doc_ok dev_apply stamp v_empty d_empty ch_empty).
  Notation reach := (@reach V Ch Req D candidate candidate_rb rollback_of overlay commit_merge payload record_applied
                            touched restore resync_payload doc_ok dev_apply stamp v_empty d_empty ch_empty).

  (** * The invariant *)
  Definition tx_wf (T : txn) : Prop :=
    (is_Some (t_validate T) -> t_init T = Some Done) /\
    (is_Some (t_commit T) -> t_validate T = Some Done) /\
    (is_Some (t_apply T) -> t_commit T = Some Done) /\
    (is_Some (t_abort T) -> t_commit T = None /\ t_apply T = None) /\
    (t_props T = None -> t_validate T = None).

  (* proposal phases are backed by the phases of the transaction with the same index *)
  Definition backed (tm : gmap N txn) (k : N * N) (P : prop) : Prop :=
    (is_Some (p_validate P) \/ is_Some (p_commit P) \/ is_Some (p_abort P) \/ is_Some (p_apply P) ->
     exists T, tm !! k.2 = Some T /\
               (is_Some (p_validate P) -> is_Some (t_validate T)) /\
               (is_Some (p_commit P) -> is_Some (t_commit T)) /\
               (is_Some (p_abort P) -> is_Some (t_abort T)) /\
               (is_Some (p_apply P) -> is_Some (t_apply T))).

  Record J (w : world) : Prop := {
    j_tx : forall i T, txs w !! i = Some T -> tx_wf T;
    j_back : forall k P, props w !! k = Some P -> backed (txs w) k P }.

  (** * Phases of a transaction only grow *)
  Definition tx_grows (T T' : txn) : Prop :=
    (is_Some (t_validate T) -> is_Some (t_validate T')) /\
    (is_Some (t_commit T) -> is_Some (t_commit T')) /\
    (is_Some (t_abort T) -> is_Some (t_abort T')) /\
    (is_Some (t_apply T) -> is_Some (t_apply T')).

  Lemma backed_grows tm i T T' k P :
    tm !! i = Some T -> tx_grows T T' -> backed tm k P -> backed (<[i := T']> tm) k P.
  Proof.
    intros HT Hg Hb Hs. destruct (Hb Hs) as (T0 & HT0 & H1 & H2 & H3 & H4).
    destruct (decide (i = k.2)) as [->|Hne].
    - rewrite HT in HT0. injection HT0 as <-. exists T'. rewrite lookup_insert.
      destruct Hg as (G1 & G2 & G3 & G4). repeat split; auto.
    - exists T0. rewrite lookup_insert_ne by exact Hne. repeat split; auto.
  Qed.

  (* writing a transaction record: well formed and grown *)
  Lemma J_put_tx (w : world) i T T' :
    J w -> txs w !! i = Some T -> tx_wf T' -> tx_grows T T' -> J (apply_eff w (EPutTx i T')).
  Proof.
    intros [Htx Hb] HT Hwf Hg. split; cbn.
    - intros j T0. destruct (decide (i = j)) as [->|Hne].
      + rewrite lookup_insert. intros [= <-]. exact Hwf.
      + rewrite lookup_insert_ne by exact Hne. apply Htx.
    - intros k P HP. eapply backed_grows; eauto.
  Qed.

  (* writing a proposal record whose phases are backed *)
  Lemma J_put_prop (w : world) k P' :
    J w -> backed (txs w) k P' -> J (apply_eff w (EPutProp k P')).
  Proof.
    intros [Htx Hb] Hb'. split; cbn; [exact Htx|].
    intros k0 P0. destruct (decide (k = k0)) as [->|Hne].
    - rewrite lookup_insert. intros [= <-]. exact Hb'.
    - rewrite lookup_insert_ne by exact Hne. apply Hb.
  Qed.

  Lemma J_create_prop (w : world) k P' :
    J w -> p_validate P' = None -> p_commit P' = None -> p_abort P' = None -> p_apply P' = None ->
    J (apply_eff w (ECreateProp k P')).
  Proof.
    intros HJ H1 H2 H3 H4. cbn. destruct (props w !! k) eqn:Hk; [exact HJ|].
    destruct HJ as [Htx Hb]. split; cbn; [exact Htx|].
    intros k0 P0. destruct (decide (k = k0)) as [->|Hne].
    - rewrite lookup_insert. intros [= <-]. intros [Hs|[Hs|[Hs|Hs]]]; rewrite ?H1, ?H2, ?H3, ?H4 in Hs; destruct Hs; discriminate.
    - rewrite lookup_insert_ne by exact Hne. apply Hb.
  Qed.

  (* effects that touch neither transactions nor proposals *)
  Definition tp_neutral (e : eff) : Prop :=
    match e with EPutTx _ _ | ECreateProp _ _ | EPutProp _ _ => False | _ => True end.

  Lemma J_neutral (w : world) e : tp_neutral e -> J w -> J (apply_eff w e).
  Proof.
    intros Hn [Htx Hb].
    assert (Ht : txs (apply_eff w e) = txs w) by (rewrite txs_apply_eff; destruct e; try reflexivity; destruct Hn).
    assert (Hp : props (apply_eff w e) = props w) by (rewrite props_apply_eff; destruct e; try reflexivity; destruct Hn).
    split; rewrite ?Ht, ?Hp; assumption.
  Qed.

  (** * The scan helpers *)
  Lemma scan_props_inr (w : world) i tg f t p :
    scan_props w i tg f = Some (inr (t, p)) -> props w !! (t, i) = Some p /\ f p = true.
  Proof.
    induction tg as [|t0 ts IH]; cbn; [discriminate|].
    destruct (props w !! (t0, i)) as [p0|] eqn:Hp; [|discriminate].
    destruct (f p0) eqn:Hf.
    - intros [= <- <-]. auto.
    - exact IH.
  Qed.

  Ltac is_some_tac :=
    repeat match goal with
           | H : is_Some None |- _ => destruct H as [? H]; discriminate H
           | |- is_Some (Some _) => eexists; reflexivity
           | H : is_Some (Some _) |- _ => clear H
           end.

  Lemma is_none_true {A} (o : option A) : is_none o = true -> o = None.
  Proof. destruct o; [discriminate|reflexivity]. Qed.

  (* starting a phase on a proposal whose transaction has that phase *)
  Lemma backed_start (w : world) t i (T : txn) (P P' : prop) :
    txs w !! i = Some T -> backed (txs w) (t, i) P ->
    (is_Some (p_validate P') -> is_Some (p_validate P) \/ is_Some (t_validate T)) ->
    (is_Some (p_commit P') -> is_Some (p_commit P) \/ is_Some (t_commit T)) ->
    (is_Some (p_abort P') -> is_Some (p_abort P) \/ is_Some (t_abort T)) ->
    (is_Some (p_apply P') -> is_Some (p_apply P) \/ is_Some (t_apply T)) ->
    backed (txs w) (t, i) P'.
  Proof.
    intros HT Hb H1 H2 H3 H4 _. exists T. cbn. split; [exact HT|].
    assert (Hold : forall (X : Prop), (is_Some (p_validate P) \/ is_Some (p_commit P) \/ is_Some (p_abort P) \/ is_Some (p_apply P)) ->
                   ((is_Some (p_validate P) -> is_Some (t_validate T)) /\
                    (is_Some (p_commit P) -> is_Some (t_commit T)) /\
                    (is_Some (p_abort P) -> is_Some (t_abort T)) /\
                    (is_Some (p_apply P) -> is_Some (t_apply T)))).
    { intros _ Hs. destruct (Hb Hs) as (T0 & HT0 & Hr). cbn in HT0. rewrite HT in HT0. injection HT0 as <-. exact Hr. }
    repeat split; intros Hs.
    - destruct (H1 Hs) as [Ho|Ht]; [|exact Ht]. apply (Hold True); auto.
    - destruct (H2 Hs) as [Ho|Ht]; [|exact Ht]. apply (Hold True); auto.
    - destruct (H3 Hs) as [Ho|Ht]; [|exact Ht]. apply (Hold True); auto.
    - destruct (H4 Hs) as [Ho|Ht]; [|exact Ht]. apply (Hold True); auto.
  Qed.

  (* a proposal update that keeps the set of present phases *)
  Lemma backed_same (tm : gmap N txn) k (P P' : prop) :
    backed tm k P ->
    (is_Some (p_validate P') -> is_Some (p_validate P)) ->
    (is_Some (p_commit P') -> is_Some (p_commit P)) ->
    (is_Some (p_abort P') -> is_Some (p_abort P)) ->
    (is_Some (p_apply P') -> is_Some (p_apply P)) ->
    backed tm k P'.
  Proof.
    intros Hb H1 H2 H3 H4 Hs.
    assert (Hs0 : is_Some (p_validate P) \/ is_Some (p_commit P) \/ is_Some (p_abort P) \/ is_Some (p_apply P)) by tauto.
    destruct (Hb Hs0) as (T & HT & G1 & G2 & G3 & G4). exists T. repeat split; auto.
  Qed.
End Phases.

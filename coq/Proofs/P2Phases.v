(* Phase invariants of the v2 protocol model (all schedules, all crash prefixes):
     - a transaction's phases are well formed (Commit needs Validate done, Apply needs Commit done, Abort excludes
       Commit and Apply and needs a failed Initialize or Validate),
     - every phase of a proposal is backed by the same phase of its transaction,
   hence no transaction ever has one proposal committing and another aborting (C01). *)
From stdpp Require Import gmap.
From RecordUpdate Require Import RecordUpdate.
From Coq Require Import NArith Lia.
From OC Require Import Model.Proto2 Proofs.P2Base.
Open Scope N_scope.

Section Phases.
  Context {V Ch Req D : Type}.
  Context (candidate : V -> Ch -> V) (candidate_rb : V -> Ch -> V) (rollback_of : V -> Ch -> Ch)
          (overlay : V -> V -> V) (commit_merge : N -> N -> V -> V -> Ch -> V)
          (payload : N -> V -> Ch -> option Req) (record_applied : N -> N -> V -> V -> V -> Ch -> V)
          (touched : N -> V -> Ch -> V) (restore : V -> V -> V)
          (resync_payload : V -> list (option Req)) (doc_ok : V -> bool)
          (dev_apply : D -> Req -> D) (stamp : N -> Ch -> Ch) (v_empty : V) (d_empty : D) (ch_empty : Ch).

  Notation world := (@world V Ch Req D).
  Notation eff := (@eff V Ch Req).
  Notation txn := (@txn Ch).
  Notation prop := (@prop Ch).
  Notation apply_eff := (@apply_eff V Ch Req D dev_apply d_empty).
  Notation rec_tx := (@rec_tx V Ch Req D stamp).
  Notation rec_prop := (@rec_prop V Ch Req D candidate candidate_rb rollback_of overlay commit_merge payload record_applied
                                  touched restore doc_ok v_empty d_empty ch_empty).
  Notation rec_cfg := (@rec_cfg V Ch Req D overlay restore resync_payload v_empty d_empty).
  Notation rec_master := (@rec_master V Ch Req D overlay restore v_empty).
  Notation rec_conn := (@rec_conn V Ch Req D).
  Notation reconcile := (@reconcile V Ch Req D candidate candidate_rb rollback_of overlay commit_merge payload record_applied
                                    touched restore resync_payload doc_ok stamp v_empty d_empty ch_empty).
  Notation step := (@step V Ch Req D candidate candidate_rb rollback_of overlay commit_merge payload record_applied
                          touched restore resync_payload doc_ok dev_apply stamp v_empty d_empty ch_empty).
  Notation reach := (@reach V Ch Req D candidate candidate_rb rollback_of overlay commit_merge payload record_applied
                            touched restore resync_payload doc_ok dev_apply stamp v_empty d_empty ch_empty).

  (** * The invariant *)
  Definition some {A} (o : option A) : bool := negb (is_none o).
  Definition is_ph (o : option ph) (p : ph) : bool := bool_decide (o = Some p).
  Definition imp (a b : bool) : bool := negb a || b.

  (* well-formedness of the phases of a transaction, as a boolean over its six phase fields *)
  Definition wfb (i v c a ab : option ph) (noprops : bool) : bool :=
    imp (some v) (is_ph i Done) &&
    imp (some c) (is_ph v Done) &&
    imp (some a) (is_ph c Done) &&
    imp (some ab) (is_none c && is_none a) &&
    imp noprops (negb (is_ph i Done)).
  Definition tx_wf (T : txn) : Prop :=
    wfb (t_init T) (t_validate T) (t_commit T) (t_apply T) (t_abort T) (is_none (t_props T)) = true.

  (* proposal phases are backed by the phases of the transaction with the same index *)
  Definition backed (tm : gmap N txn) (k : N * N) (P : prop) : Prop :=
    (is_Some (p_validate P) \/ is_Some (p_commit P) \/ is_Some (p_abort P) \/ is_Some (p_apply P) ->
     exists T, tm !! k.2 = Some T /\
               (is_Some (p_validate P) -> is_Some (t_validate T)) /\
               (is_Some (p_commit P) -> is_Some (t_commit T)) /\
               (is_Some (p_abort P) -> is_Some (t_abort T)) /\
               (is_Some (p_apply P) -> is_Some (t_apply T))).

  Record J (w : world) : Prop := {
    j_tx : forall i T, txs w !! i = Some T -> tx_wf T;
    j_back : forall k P, props w !! k = Some P -> backed (txs w) k P;
    j_fresh : forall i, next_index w <= i -> txs w !! i = None }.

  (** * Phases of a transaction only grow *)
  Definition growsb (v c ab a v' c' ab' a' : option ph) : bool :=
    imp (some v) (some v') && imp (some c) (some c') && imp (some ab) (some ab') && imp (some a) (some a').
  Definition tx_grows (T T' : txn) : Prop :=
    growsb (t_validate T) (t_commit T) (t_abort T) (t_apply T) (t_validate T') (t_commit T') (t_abort T') (t_apply T') = true.

  Lemma some_is_Some {A} (o : option A) : some o = true <-> is_Some o.
  Proof. destruct o; cbn; split; intros H; try discriminate; try (eexists; reflexivity); try reflexivity. destruct H; discriminate. Qed.

  Lemma tx_grows_spec (T T' : txn) : tx_grows T T' ->
    (is_Some (t_validate T) -> is_Some (t_validate T')) /\
    (is_Some (t_commit T) -> is_Some (t_commit T')) /\
    (is_Some (t_abort T) -> is_Some (t_abort T')) /\
    (is_Some (t_apply T) -> is_Some (t_apply T')).
  Proof.
    unfold tx_grows, growsb, imp. intros H.
    repeat (apply andb_prop in H; destruct H as [H ?]).
    repeat split; intros Hs; apply some_is_Some in Hs; apply some_is_Some;
      repeat match goal with H : negb ?x || _ = true |- _ => rewrite Hs in H; cbn in H end; assumption.
  Qed.

  Lemma backed_grows tm i T T' k P :
    tm !! i = Some T -> tx_grows T T' -> backed tm k P -> backed (<[i := T']> tm) k P.
  Proof.
    intros HT Hg Hb Hs. destruct (Hb Hs) as (T0 & HT0 & H1 & H2 & H3 & H4).
    destruct (decide (i = k.2)) as [->|Hne].
    - rewrite HT in HT0. injection HT0 as <-. exists T'. rewrite lookup_insert.
      destruct (tx_grows_spec _ _ Hg) as (G1 & G2 & G3 & G4). repeat split; auto.
    - exists T0. rewrite lookup_insert_ne by exact Hne. repeat split; auto.
  Qed.

  (* writing a transaction record: well formed and grown *)
  Lemma J_put_tx (w : world) i T T' :
    J w -> txs w !! i = Some T -> tx_wf T' -> tx_grows T T' -> J (apply_eff w (EPutTx i T')).
  Proof.
    intros [Htx Hb Hf] HT Hwf Hg. split; cbn.
    - intros j T0. destruct (decide (i = j)) as [->|Hne].
      + rewrite lookup_insert. intros [= <-]. exact Hwf.
      + rewrite lookup_insert_ne by exact Hne. apply Htx.
    - intros k P HP. eapply backed_grows; eauto.
    - intros j Hj. destruct (decide (i = j)) as [->|Hne].
      + rewrite (Hf _ Hj) in HT. discriminate.
      + rewrite lookup_insert_ne by exact Hne. apply Hf. exact Hj.
  Qed.

  (* writing a proposal record whose phases are backed *)
  Lemma J_put_prop (w : world) k P' :
    J w -> backed (txs w) k P' -> J (apply_eff w (EPutProp k P')).
  Proof.
    intros [Htx Hb Hf] Hb'. split; cbn; [exact Htx| |exact Hf].
    intros k0 P0. destruct (decide (k = k0)) as [->|Hne].
    - rewrite lookup_insert. intros [= <-]. exact Hb'.
    - rewrite lookup_insert_ne by exact Hne. apply Hb.
  Qed.

  Lemma J_create_prop (w : world) k P' :
    J w -> p_validate P' = None -> p_commit P' = None -> p_abort P' = None -> p_apply P' = None ->
    J (apply_eff w (ECreateProp k P')).
  Proof.
    intros HJ H1 H2 H3 H4. cbn. destruct (props w !! k) eqn:Hk; [exact HJ|].
    destruct HJ as [Htx Hb Hf]. split; cbn; [exact Htx| |exact Hf].
    intros k0 P0. destruct (decide (k = k0)) as [->|Hne].
    - rewrite lookup_insert. intros [= <-]. intros [Hs|[Hs|[Hs|Hs]]]; rewrite ?H1, ?H2, ?H3, ?H4 in Hs; destruct Hs; discriminate.
    - rewrite lookup_insert_ne by exact Hne. apply Hb.
  Qed.

  (* effects that touch neither transactions nor proposals *)
  Definition tp_neutral (e : eff) : Prop :=
    match e with EPutTx _ _ | ECreateProp _ _ | EPutProp _ _ => False | _ => True end.

  Lemma J_neutral (w : world) e : tp_neutral e -> J w -> J (apply_eff w e).
  Proof.
    intros Hn [Htx Hb Hf].
    assert (Ht : txs (apply_eff w e) = txs w) by (rewrite txs_apply_eff; destruct e; try reflexivity; destruct Hn).
    assert (Hp : props (apply_eff w e) = props w) by (rewrite props_apply_eff; destruct e; try reflexivity; destruct Hn).
    split; rewrite ?Ht, ?Hp, ?next_index_apply_eff; assumption.
  Qed.

  (** * The scan helpers *)
  Lemma scan_props_inr (w : world) i tg f t p :
    scan_props w i tg f = Some (inr (t, p)) -> props w !! (t, i) = Some p /\ f p = true.
  Proof.
    induction tg as [|t0 ts IH]; cbn; [discriminate|].
    destruct (props w !! (t0, i)) as [p0|] eqn:Hp; [|discriminate].
    destruct (f p0) eqn:Hf.
    - intros [= <- <-]. auto.
    - exact IH.
  Qed.

  Ltac is_some_tac :=
    repeat match goal with
           | H : is_Some None |- _ => destruct H as [? H]; discriminate H
           | |- is_Some (Some _) => eexists; reflexivity
           | H : is_Some (Some _) |- _ => clear H
           end.

  Lemma is_none_true {A} (o : option A) : is_none o = true -> o = None.
  Proof. destruct o; [discriminate|reflexivity]. Qed.

  (* starting a phase on a proposal whose transaction has that phase *)
  Lemma backed_start (w : world) t i (T : txn) (P P' : prop) :
    txs w !! i = Some T -> backed (txs w) (t, i) P ->
    (is_Some (p_validate P') -> is_Some (p_validate P) \/ is_Some (t_validate T)) ->
    (is_Some (p_commit P') -> is_Some (p_commit P) \/ is_Some (t_commit T)) ->
    (is_Some (p_abort P') -> is_Some (p_abort P) \/ is_Some (t_abort T)) ->
    (is_Some (p_apply P') -> is_Some (p_apply P) \/ is_Some (t_apply T)) ->
    backed (txs w) (t, i) P'.
  Proof.
    intros HT Hb H1 H2 H3 H4 _. exists T. cbn. split; [exact HT|].
    assert (Hold : forall (X : Prop), (is_Some (p_validate P) \/ is_Some (p_commit P) \/ is_Some (p_abort P) \/ is_Some (p_apply P)) ->
                   ((is_Some (p_validate P) -> is_Some (t_validate T)) /\
                    (is_Some (p_commit P) -> is_Some (t_commit T)) /\
                    (is_Some (p_abort P) -> is_Some (t_abort T)) /\
                    (is_Some (p_apply P) -> is_Some (t_apply T)))).
    { intros _ Hs. destruct (Hb Hs) as (T0 & HT0 & Hr). cbn in HT0. rewrite HT in HT0. injection HT0 as <-. exact Hr. }
    repeat split; intros Hs.
    - destruct (H1 Hs) as [Ho|Ht]; [|exact Ht]. apply (Hold True); auto.
    - destruct (H2 Hs) as [Ho|Ht]; [|exact Ht]. apply (Hold True); auto.
    - destruct (H3 Hs) as [Ho|Ht]; [|exact Ht]. apply (Hold True); auto.
    - destruct (H4 Hs) as [Ho|Ht]; [|exact Ht]. apply (Hold True); auto.
  Qed.

  (* a proposal update that keeps the set of present phases *)
  Lemma backed_same (tm : gmap N txn) k (P P' : prop) :
    backed tm k P ->
    (is_Some (p_validate P') -> is_Some (p_validate P)) ->
    (is_Some (p_commit P') -> is_Some (p_commit P)) ->
    (is_Some (p_abort P') -> is_Some (p_abort P)) ->
    (is_Some (p_apply P') -> is_Some (p_apply P)) ->
    backed tm k P'.
  Proof.
    intros Hb H1 H2 H3 H4 Hs.
    assert (Hs0 : is_Some (p_validate P) \/ is_Some (p_commit P) \/ is_Some (p_abort P) \/ is_Some (p_apply P)) by tauto.
    destruct (Hb Hs0) as (T & HT & G1 & G2 & G3 & G4). exists T. repeat split; auto.
  Qed.

  (** * The transaction reconciler preserves J on every prefix of its effects *)
  Lemma chain1 (I : world -> Prop) (w : world) e : I (apply_eff w e) -> chain dev_apply d_empty I w [e].
  Proof. intros H. cbn. auto. Qed.

  Lemma phase_scan_J (w : world) i (T : txn) tg get start stop on_failed on_all_done :
    J w -> txs w !! i = Some T ->
    (forall t p, props w !! (t, i) = Some p -> get p = None -> backed (txs w) (t, i) (start p)) ->
    (forall p, tx_wf (on_failed p) /\ tx_grows T (on_failed p)) ->
    (tx_wf on_all_done /\ tx_grows T on_all_done) ->
    chain dev_apply d_empty J w (fst (phase_scan w i T tg get start stop on_failed on_all_done)).
  Proof.
    intros HJ HT Hstart Hfail Hdone. unfold phase_scan.
    destruct (scan_props w i tg _) as [[u|[t p]]|] eqn:Hscan.
    - exact I.
    - apply scan_props_inr in Hscan. destruct Hscan as [Hp Hf].
      destruct (is_none (get p)) eqn:Hn.
      + apply chain1. apply J_put_prop; [exact HJ|]. apply Hstart; [exact Hp|]. apply is_none_true. exact Hn.
      + apply chain1. destruct (Hfail p) as [Hw Hg]. eapply J_put_tx; eauto.
    - destruct (default false _).
      + apply chain1. destruct Hdone as [Hw Hg]. eapply J_put_tx; eauto.
      + exact I.
  Qed.

  Lemma gate_J (w : world) i (T : txn) tg need next r :
    J w -> txs w !! i = Some T -> tx_wf next -> tx_grows T next ->
    chain dev_apply d_empty J w (fst (gate w i T tg need next r)).
  Proof.
    intros HJ HT Hw Hg. unfold gate. destruct (all_props w i tg _); [|exact I].
    destruct (blocked_by_prev w i tg need); [exact I|]. apply chain1. eapply J_put_tx; eauto.
  Qed.

  Lemma create_props_J (i : N) (l : list (N * prop)) (w0 : world) T' (T : txn) :
    (forall tp, In tp l -> p_validate tp.2 = None /\ p_commit tp.2 = None /\ p_abort tp.2 = None /\ p_apply tp.2 = None) ->
    tx_wf T' -> tx_grows T T' ->
    forall w : world, J w -> txs w !! i = Some T ->
    chain dev_apply d_empty J w (create_props w0 i l ++ [EPutTx i T']).
  Proof.
    intros Hl Hw Hg. induction l as [|[t p] l IH]; intros w HJ HT.
    - cbn. split; [|exact I]. eapply J_put_tx; eauto.
    - cbn [create_props flat_map]. fold (create_props w0 i l).
      destruct (props w0 !! ((t, p).1, i)).
      + cbn [app]. apply IH; auto. intros tp Htp. apply Hl. right. exact Htp.
      + cbn [app chain]. destruct (Hl (t, p) (or_introl eq_refl)) as (H1 & H2 & H3 & H4). cbn in H1, H2, H3, H4.
        assert (HJ' : J (apply_eff w (ECreateProp ((t, p).1, i) (t, p).2))) by (apply J_create_prop; assumption).
        split; [exact HJ'|]. apply IH; auto.
        * intros tp Htp. apply Hl. right. exact Htp.
        * rewrite txs_apply_eff. exact HT.
  Qed.

  (* goals about tx_wf / tx_grows of an updated record: rewrite the known phase fields, case on the others; the
     goal is then a closed boolean *)
  Ltac case_field f T :=
    first [ match goal with H : f T = _ |- _ => rewrite H in * end
          | destruct (f T) as [[]|] ].
  Ltac solve_wf_on T :=
      (unfold tx_wf, tx_grows in *; cbn [t_init t_validate t_commit t_apply t_abort t_props t_state t_failure t_details set] in *;
      case_field (@t_init Ch) T; case_field (@t_validate Ch) T; case_field (@t_commit Ch) T;
      case_field (@t_apply Ch) T; case_field (@t_abort Ch) T;
      first [ match goal with H : t_props T = _ |- _ => rewrite H in * end | destruct (t_props T) ];
      cbn in *; try reflexivity; try discriminate).

  Lemma rec_tx_J (w : world) i : J w -> chain dev_apply d_empty J w (fst (rec_tx w i)).
  Proof.
    intros HJ. unfold Proto2.rec_tx. destruct (txs w !! i) as [T|] eqn:HT; [|exact I].
    pose proof (j_tx _ HJ _ _ HT) as Hwf.
    destruct (t_apply T) as [a|] eqn:Ea.
    { destruct a; try exact I.
      destruct (scan_props w i _ (fun p => is_none (p_apply p))) as [[u|[t0 p0]]|] eqn:Hscan0.
      { exact I. }
      { apply scan_props_inr in Hscan0. destruct Hscan0 as [Hp0 Hf0]. apply chain1. apply J_put_prop; [exact HJ|].
        eapply backed_start; eauto using (j_back _ HJ); cbn; intros Hs; auto; try (right; eexists; eassumption). }
      apply phase_scan_J; auto.
      - intros t p Hp Hg. eapply backed_start; eauto using (j_back _ HJ); cbn; intros Hs; auto; try (right; eexists; eassumption).
      - intros p. split; solve_wf_on T.
      - split; solve_wf_on T. }
    destruct (t_abort T) as [ab|] eqn:Eb.
    { destruct ab; try exact I.
      apply phase_scan_J; auto.
      - intros t p Hp Hg. eapply backed_start; eauto using (j_back _ HJ); cbn; intros Hs; auto; try (right; eexists; eassumption).
      - intros p. split; solve_wf_on T.
      - split; solve_wf_on T. }
    destruct (t_commit T) as [c|] eqn:Ec.
    { destruct c; try exact I.
      - apply phase_scan_J; auto.
        + intros t p Hp Hg. eapply backed_start; eauto using (j_back _ HJ); cbn; intros Hs; auto; try (right; eexists; eassumption).
        + intros p. split; solve_wf_on T.
        + split; solve_wf_on T.
      - apply gate_J; auto; solve_wf_on T. }
    destruct (t_validate T) as [v|] eqn:Ev.
    { destruct v; try exact I.
      - apply phase_scan_J; auto.
        + intros t p Hp Hg. eapply backed_start; eauto using (j_back _ HJ); cbn; intros Hs; auto; try (right; eexists; eassumption).
        + intros p. split; solve_wf_on T.
        + split; solve_wf_on T.
      - apply gate_J; auto; solve_wf_on T. }
    destruct (t_init T) as [ini|] eqn:Ei.
    2:{ apply chain1. apply (J_put_tx w i T); auto; solve_wf_on T. }
    destruct ini; try exact I.
    - destruct (match txs w !! (i - 1) with Some P => _ | None => false end); [exact I|].
      destruct (t_props T) as [tg'|] eqn:Ep.
      + destruct (all_props w i tg' _) as [[|]|]; try exact I.
        apply chain1. apply (J_put_tx w i T); auto; solve_wf_on T.
      + destruct (t_details T) as [chs|ri] eqn:Ed.
        * cbn [fst]. apply (create_props_J i _ w _ T); auto.
          -- intros tp Htp. apply in_map_iff in Htp. destruct Htp as (tc & <- & _). cbn. auto.
          -- solve_wf_on T.
          -- solve_wf_on T.
        * destruct (txs w !! ri) as [R|] eqn:HR.
          -- destruct (t_details R) as [chs|rj].
             ++ cbn [fst]. apply (create_props_J i _ w _ T); auto.
                ** intros tp Htp. apply in_map_iff in Htp. destruct Htp as (tc & <- & _). cbn. auto.
                ** solve_wf_on T.
                ** solve_wf_on T.
             ++ apply chain1. apply (J_put_tx w i T); auto; solve_wf_on T.
          -- apply chain1. apply (J_put_tx w i T); auto; solve_wf_on T.
    - apply gate_J; auto; solve_wf_on T.
  Qed.

  (** * The other reconcilers *)
  Definition prop_ok (w : world) (e : eff) : Prop :=
    tp_neutral e \/ exists k P', e = EPutProp k P' /\ backed (txs w) k P'.

  Lemma chain_props (effs : list eff) : forall w : world, J w -> Forall (prop_ok w) effs -> chain dev_apply d_empty J w effs.
  Proof.
    induction effs as [|e r IH]; intros w HJ Hf; [exact I|].
    inversion Hf as [|? ? He Hr]; subst. cbn.
    assert (HJ' : J (apply_eff w e)).
    { destruct He as [Hn|(k & P' & -> & Hb)]; [apply J_neutral; assumption|apply J_put_prop; assumption]. }
    split; [exact HJ'|]. apply IH; [exact HJ'|].
    assert (Ht : txs (apply_eff w e) = txs w).
    { rewrite txs_apply_eff. destruct He as [Hn|(k & P' & -> & Hb)]; [destruct e; try reflexivity; destruct Hn|reflexivity]. }
    eapply Forall_impl; [exact Hr|]. intros e' [Hn|(k & P' & -> & Hb)]; [left; exact Hn|right].
    exists k, P'. split; [reflexivity|]. rewrite Ht. exact Hb.
  Qed.

  Ltac prop_ok_tac HJ :=
    repeat first
      [ apply List.Forall_nil
      | apply List.Forall_cons; [ first [ left; exact I
                                   | right; eexists _, _; split; [reflexivity|];
                                     eapply backed_same; [ eapply (j_back _ HJ); eassumption | .. ];
                                     cbn; intros Hs; first [ exact Hs | eexists; eassumption | idtac ] ] | ] ].

  Lemma rec_prop_J (o : oracle) (w : world) k : J w -> chain dev_apply d_empty J w (fst (rec_prop o w k)).
  Proof.
    intros HJ. apply chain_props; [exact HJ|].
    unfold Proto2.rec_prop, Proto2.vfail, Proto2.upd_status. destruct k as [t i].
    destruct (props w !! (t, i)) as [P|] eqn:HP; [|apply List.Forall_nil].
    destruct_matches; cbn [fst app]; prop_ok_tac HJ.
    (* the linking step: the effect is chosen by a nested match *)
    match goal with H : _ = Some ?e |- Forall _ [?e] =>
      repeat match type of H with context [match ?x with _ => _ end] => destruct x eqn:? end;
      try discriminate H; injection H as <-; prop_ok_tac HJ
    end.
  Qed.

  Lemma neutral_chain (effs : list eff) (w : world) : J w -> Forall tp_neutral effs -> chain dev_apply d_empty J w effs.
  Proof.
    intros HJ Hf. apply chain_props; [exact HJ|]. eapply Forall_impl; [exact Hf|]. intros e He. left. exact He.
  Qed.

  Lemma resync_effs_neutral t m term a reqs :
    Forall tp_neutral (fst (@resync_effs V Ch Req t m term a reqs)).
  Proof.
    induction reqs as [|[r|] rest IH]; cbn; try apply List.Forall_nil.
    destruct a; cbn; try (apply List.Forall_cons; [exact I|apply List.Forall_nil]).
    destruct (resync_effs t m term COk rest) as [es res] eqn:E. cbn in *. apply List.Forall_cons; [exact I|exact IH].
  Qed.

  Lemma rec_cfg_J (o : oracle) (w : world) t : J w -> chain dev_apply d_empty J w (fst (rec_cfg o w t)).
  Proof.
    intros HJ. apply neutral_chain; [exact HJ|].
    unfold Proto2.rec_cfg, Proto2.upd_status.
    destruct_matches; cbn [fst app]; repeat first [apply List.Forall_nil | apply List.Forall_cons; [exact I|]].
    all: match goal with E : resync_effs _ _ _ _ _ = (?es, _) |- _ =>
           pose proof (resync_effs_neutral t n (c_term c) (dev_answer d_empty w t (c_term c) o) (resync_payload (aview overlay c))) as Hn;
           rewrite E in Hn; cbn in Hn end.
    all: first [ exact Hn
               | apply Forall_app_2; [exact Hn|]; repeat first [apply List.Forall_nil | apply List.Forall_cons; [exact I|]] ].
  Qed.

  Lemma rec_master_J (o : oracle) (w : world) t : J w -> chain dev_apply d_empty J w (fst (rec_master o w t)).
  Proof.
    intros HJ. apply neutral_chain; [exact HJ|].
    unfold Proto2.rec_master, Proto2.upd_status.
    destruct_matches; cbn [fst app]; repeat first [apply List.Forall_nil | apply List.Forall_cons; [exact I|]].
  Qed.

  Lemma rec_conn_J (w : world) c : J w -> chain dev_apply d_empty J w (fst (rec_conn w c)).
  Proof.
    intros HJ. apply neutral_chain; [exact HJ|].
    unfold Proto2.rec_conn. destruct_matches; cbn [fst]; repeat first [apply List.Forall_nil | apply List.Forall_cons; [exact I|]].
  Qed.

  (** * Every step preserves J; J holds in every reachable world *)
  Lemma J_env (w w' : world) :
    txs w' = txs w -> props w' = props w -> next_index w' = next_index w -> J w -> J w'.
  Proof. intros Ht Hp Hn [Htx Hb Hf]. split; rewrite ?Ht, ?Hp, ?Hn; assumption. Qed.

  Lemma J_new_tx (w : world) (T : txn) :
    J w -> tx_wf T ->
    J (w <| txs := <[next_index w := T]> (txs w) |> <| next_index := next_index w + 1 |>).
  Proof.
    intros [Htx Hb Hf] Hwf. split; cbn.
    - intros j T0. destruct (decide (next_index w = j)) as [<-|Hne].
      + rewrite lookup_insert. intros [= <-]. exact Hwf.
      + rewrite lookup_insert_ne by exact Hne. apply Htx.
    - intros k P HP Hs. destruct (Hb k P HP Hs) as (T0 & HT0 & Hr). exists T0. split; [|exact Hr].
      destruct (decide (next_index w = k.2)) as [He|Hne].
      + rewrite <- He in HT0. rewrite Hf in HT0 by lia. discriminate.
      + rewrite lookup_insert_ne by exact Hne. exact HT0.
    - intros j Hj. rewrite lookup_insert_ne by lia. apply Hf. lia.
  Qed.

  Lemma step_J (w : world) l : J w -> J (step w l).
  Proof.
    intros HJ. destruct l as [chs sy se|ri|c k o|c t|c|c t|t p|t|t]; cbn [Proto2.step].
    - apply J_new_tx; [exact HJ|reflexivity].
    - apply J_new_tx; [exact HJ|reflexivity].
    - apply chain_prefix; [exact HJ|]. destruct c as [i|kk|t|t|cc]; cbn [Proto2.reconcile].
      + apply rec_tx_J. exact HJ.
      + apply rec_prop_J. exact HJ.
      + apply rec_cfg_J. exact HJ.
      + apply rec_master_J. exact HJ.
      + apply rec_conn_J. exact HJ.
    - destruct (conns w !! c); [exact HJ|]. eapply J_env; [..|exact HJ]; reflexivity.
    - eapply J_env; [..|exact HJ]; reflexivity.
    - destruct (rels w !! c); [exact HJ|]. eapply J_env; [..|exact HJ]; reflexivity.
    - eapply J_env; [..|exact HJ]; reflexivity.
    - eapply J_env; [..|exact HJ]; reflexivity.
    - eapply J_env; [..|exact HJ]; reflexivity.
  Qed.

  Lemma J_init : J (@init V Ch Req D).
  Proof.
    split; cbn.
    - intros i T H. rewrite lookup_empty in H. discriminate.
    - intros k P H. rewrite lookup_empty in H. discriminate.
    - intros i _. apply lookup_empty.
  Qed.

  Theorem J_reach (w : world) : reach w -> J w.
  Proof.
    apply (reach_ind candidate candidate_rb rollback_of overlay commit_merge payload record_applied touched restore
                     resync_payload doc_ok dev_apply stamp v_empty d_empty ch_empty J).
    - exact J_init.
    - intros w0 l _ HJ. apply step_J. exact HJ.
  Qed.

  (** * Corollaries *)
  (* C01: no transaction ever has a proposal in its Commit phase and another one in its Abort phase *)
  Theorem no_mixed_commit_abort (w : world) i t t' (P Q : prop) :
    reach w -> props w !! (t, i) = Some P -> props w !! (t', i) = Some Q ->
    ~ (is_Some (p_commit P) /\ is_Some (p_abort Q)).
  Proof.
    intros Hr HP HQ [Hc Ha]. pose proof (J_reach w Hr) as HJ.
    destruct (j_back _ HJ _ _ HP) as (T & HT & _ & Hc' & _); [tauto|].
    destruct (j_back _ HJ _ _ HQ) as (T' & HT' & _ & _ & Ha' & _); [tauto|].
    cbn in HT, HT'. rewrite HT in HT'. injection HT' as <-.
    pose proof (j_tx _ HJ _ _ HT) as Hwf. unfold tx_wf, wfb, imp in Hwf.
    apply some_is_Some in Hc'; [|exact Hc]. apply some_is_Some in Ha'; [|exact Ha].
    unfold some in *. destruct (t_commit T), (t_abort T); cbn in *; try discriminate.
    repeat (apply andb_prop in Hwf; destruct Hwf as [Hwf ?]). discriminate.
  Qed.
End Phases.

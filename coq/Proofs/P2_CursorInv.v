(* Record-local invariants of the v2 protocol model and what follows from them (C02):
     - PrevIndex < index < NextIndex on every proposal, applied term <= term on every configuration,
     - the Committed and Applied indexes of a target never decrease,
     - proposal phases only advance (Doing -> Done/Failed), Commit never fails. *)
From stdpp Require Import gmap.
From RecordUpdate Require Import RecordUpdate.
From Coq Require Import NArith Lia.
From OC Require Import Model.Proto2 Proofs.P2Base Proofs.P2Phases Proofs.P2_Cursor.
Open Scope N_scope.

Section CursorInv.
  Context {V Ch Req D : Type}.
  Context (candidate : V -> Ch -> V) (candidate_rb : V -> Ch -> V) (rollback_of : V -> Ch -> Ch)
          (overlay : V -> V -> V) (commit_merge : N -> N -> V -> V -> Ch -> V)
          (payload : N -> V -> Ch -> option Req) (record_applied : N -> N -> V -> V -> V -> Ch -> V)
          (touched : N -> V -> Ch -> V) (restore : V -> V -> V)
          (resync_payload : V -> list (option Req)) (doc_ok : V -> bool)
          (dev_apply : D -> Req -> D) (stamp : N -> Ch -> Ch) (v_empty : V) (d_empty : D) (ch_empty : Ch).

  Notation world := (@world V Ch Req D).
  Notation eff := (@eff V Ch Req).
  Notation txn := (@txn Ch).
  Notation prop := (@prop Ch).
  Notation config := (@config V).
  Notation devev := (@devev Req).
  Notation apply_eff := (@apply_eff V Ch Req D dev_apply d_empty).
  Notation rec_tx := (@rec_tx V Ch Req D stamp).
  Notation rec_prop := (@rec_prop V Ch Req D candidate candidate_rb rollback_of overlay commit_merge payload record_applied
                                  touched restore doc_ok v_empty d_empty ch_empty).
  Notation rec_cfg := (@rec_cfg V Ch Req D overlay restore resync_payload v_empty d_empty).
  Notation rec_master := (@rec_master V Ch Req D overlay restore v_empty).
  Notation rec_conn := (@rec_conn V Ch Req D).
  Notation reconcile := (@reconcile V Ch Req D candidate candidate_rb rollback_of overlay commit_merge payload record_applied
                                    touched restore resync_payload doc_ok stamp v_empty d_empty ch_empty).
  Notation step := (@step V Ch Req D candidate candidate_rb rollback_of overlay commit_merge payload record_applied
                          touched restore resync_payload doc_ok dev_apply stamp v_empty d_empty ch_empty).
  Notation reach := (@reach V Ch Req D candidate candidate_rb rollback_of overlay commit_merge payload record_applied
                            touched restore resync_payload doc_ok dev_apply stamp v_empty d_empty ch_empty).
  Notation view := (@view V overlay).
  Notation aview := (@aview V overlay).
  Notation dev_answer := (@dev_answer V Ch Req D d_empty).
  Notation rb_change := (@rb_change Ch ch_empty).


  Notation cfg_write := (@cfg_write V Ch Req D).
  Notation committed_of := (@committed_of V Ch Req D).
  Notation applied_of := (@applied_of V Ch Req D).

  Ltac in_cases H :=
    cbn [fst app In] in H;
    repeat match type of H with
           | _ \/ _ => destruct H as [H|H]; [try discriminate H|]
           | False => destruct H
           end.

  (** * Proposal writes of the proposal reconciler *)
  Definition link_upd (k : N * N) (P P' : prop) : Prop :=
    (p_prev P' = p_prev P \/ (p_prev P = 0 /\ p_prev P' < k.2)) /\
    (p_next P' = p_next P \/ (p_next P = 0 /\ k.2 < p_next P')).

  Definition phase_upd (P P' : prop) : Prop :=
    (p_validate P' = p_validate P \/ (p_validate P = Some Doing /\ (p_validate P' = Some Done \/ p_validate P' = Some Failed))) /\
    (p_commit P' = p_commit P \/ (p_commit P = Some Doing /\ p_commit P' = Some Done /\ p_apply P = None)) /\
    (p_abort P' = p_abort P \/ (p_abort P = Some Doing /\ p_abort P' = Some Done)) /\
    (p_apply P' = p_apply P \/ (p_apply P = Some Doing /\ (p_apply P' = Some Done \/ p_apply P' = Some Failed))) /\
    (p_init P' = p_init P \/ (p_init P = None /\ p_init P' = Some Doing) \/ (p_init P = Some Doing /\ p_init P' = Some Done)).

  Lemma rec_prop_putprop (o : oracle) (w : world) t i k P' :
    In (EPutProp k P') (fst (rec_prop o w (t, i))) ->
    exists P, props w !! k = Some P /\ k.1 = t /\ link_upd k P P' /\ phase_upd P P'.
  Proof.
    unfold Proto2.rec_prop, Proto2.vfail, Proto2.upd_status.
    destruct (props w !! (t, i)) as [P|] eqn:HP; [|intros []].
    destruct_matches; intros H;
      try (match goal with E : _ = Some ?e |- _ => is_var e;
             repeat match type of E with context [match ?x with _ => _ end] => destruct x eqn:? end;
             try discriminate E; injection E as <- end);
      in_cases H; injection H as <- <-; bool_hyps;
      eexists; (split; [eassumption|]); (split; [reflexivity|]); unfold link_upd, phase_upd; cbn; auto 10.
  Qed.

  Lemma rec_prop_no_createprop (o : oracle) (w : world) kk k P' : In (ECreateProp k P') (fst (rec_prop o w kk)) -> False.
  Proof.
    unfold Proto2.rec_prop, Proto2.vfail, Proto2.upd_status. destruct kk as [t i].
    destruct (props w !! (t, i)) as [P|] eqn:HP; [|intros []].
    destruct_matches; intros H;
      try (match goal with E : _ = Some ?e |- _ => is_var e;
             repeat match type of E with context [match ?x with _ => _ end] => destruct x eqn:? end;
             try discriminate E; injection E as <- end);
      in_cases H.
  Qed.

  Definition cfg_kind (e : eff) : Prop := match e with EDev _ | EPutAValues _ _ | EPutCfg _ _ => True | _ => False end.
  Lemma rec_cfg_kinds (o : oracle) (w : world) t e : In e (fst (rec_cfg o w t)) -> cfg_kind e.
  Proof.
    unfold Proto2.rec_cfg, Proto2.upd_status.
    destruct_matches; intros H; cbn [fst] in H;
      try (apply in_app_or in H; destruct H as [H|H]);
      try (match goal with E : resync_effs ?t0 ?m0 ?te0 ?a0 ?rq0 = (?es, _), H : In _ ?es |- _ =>
           let Hx := fresh in
           pose proof (resync_effs_in (V:=V) (Ch:=Ch) t0 m0 te0 a0 rq0) as Hx;
           rewrite E in Hx; cbn [fst] in Hx; destruct (Hx _ H) as (r' & Heq & Hr); rewrite Heq; exact I end);
      in_cases H; rewrite <- H; exact I.
  Qed.

  Lemma tx_starts_link (T : txn) k (P P' : prop) : tx_starts T P P' -> link_upd k P P'.
  Proof.
    intros [(_ & _ & ->)|[(_ & _ & _ & ->)|[(_ & _ & _ & _ & ->)|(_ & _ & _ & _ & _ & ->)]]]; split; left; reflexivity.
  Qed.

  Lemma reconcile_putprop (o : oracle) (w : world) ctl k P' :
    In (EPutProp k P') (fst (reconcile o w ctl)) ->
    exists P, props w !! k = Some P /\ link_upd k P P' /\
      ((exists i, ctl = CtlProp (k.1, i) /\ phase_upd P P') \/
       (exists T, ctl = CtlTx k.2 /\ txs w !! k.2 = Some T /\ In k.1 (default [] (t_props T)) /\ tx_starts T P P')).
  Proof.
    destruct ctl as [i|[t0 i]|t0|t0|c0]; cbn [Proto2.reconcile]; intros H.
    - apply rec_tx_putprop in H. destruct H as (t & p & T & -> & HT & Hin & Hp & Hs). exists p. split; [exact Hp|].
      split; [eapply tx_starts_link; exact Hs|]. right. exists T. cbn. auto.
    - apply rec_prop_putprop in H. destruct H as (P & HP & <- & Hl & Hu). exists P. split; [exact HP|]. split; [exact Hl|].
      left. exists i. auto.
    - apply rec_cfg_kinds in H. destruct H.
    - apply rec_master_only_putcfg in H. destruct H.
    - apply rec_conn_only_rel in H. destruct H.
  Qed.

  Lemma reconcile_createprop (o : oracle) (w : world) ctl k P' :
    In (ECreateProp k P') (fst (reconcile o w ctl)) ->
    exists T, ctl = CtlTx k.2 /\ txs w !! k.2 = Some T /\
      t_apply T = None /\ t_abort T = None /\ t_commit T = None /\ t_validate T = None /\ t_init T = Some Doing /\ t_props T = None /\
      (forall Pv, txs w !! (k.2 - 1) = Some Pv -> t_init Pv = Some Done \/ t_init Pv = Some Failed) /\
      ((exists c, P' = new_change_prop c) \/ (exists ri, P' = new_rollback_prop ri)).
  Proof.
    destruct ctl as [i|kk|t0|t0|c0]; cbn [Proto2.reconcile]; intros H.
    - apply rec_tx_createprop in H. destruct H as (t & T & -> & H). exists T. cbn. split; [reflexivity|exact H].
    - destruct (rec_prop_no_createprop _ _ _ _ _ H).
    - apply rec_cfg_kinds in H. destruct H.
    - apply rec_master_only_putcfg in H. destruct H.
    - apply rec_conn_only_rel in H. destruct H.
  Qed.

  (** * Record-local invariants *)
  Definition prop_good (k : N * N) (P : prop) : Prop :=
    (p_prev P = 0 \/ p_prev P < k.2) /\ (p_next P = 0 \/ k.2 < p_next P) /\ p_commit P <> Some Failed.
  Definition cfg_good (C : config) : Prop := c_aterm C <= c_term C.

  Record K (w : world) : Prop := {
    k_prop : forall k P, props w !! k = Some P -> prop_good k P;
    k_cfg : forall t C, cfgs w !! t = Some C -> cfg_good C }.

  Ltac sim_cbn S := apply sim_fields in S; cbn in S; destruct S as (S1 & S2 & S3 & S4 & S5 & S6 & S7 & S8 & S9).

  Lemma step_K (w : world) l : K w -> K (step w l).
  Proof.
    intros [Hp Hc]. split.
    - intros k P' H. apply prop_step in H. destruct H as [H|(ctl & n & o & -> & [H|[H Hn]])].
      + apply Hp. exact H.
      + apply reconcile_putprop in H. destruct H as (P & HP & [Hl1 Hl2] & Hu). destruct (Hp _ _ HP) as (G1 & G2 & G3).
        split; [|split].
        * destruct Hl1 as [->|[_ Hl]]; [exact G1|right; exact Hl].
        * destruct Hl2 as [->|[_ Hl]]; [exact G2|right; exact Hl].
        * destruct Hu as [(i & _ & _ & [->|(_ & -> & _)] & _)|(T & _ & _ & _ & Hs)]; [exact G3|discriminate|].
          destruct Hs as [(_ & _ & ->)|[(_ & _ & _ & ->)|[(_ & _ & _ & _ & ->)|(_ & _ & _ & _ & _ & ->)]]]; cbn; try exact G3. discriminate.
      + apply reconcile_createprop in H. destruct H as (T & _ & _ & _ & _ & _ & _ & _ & _ & _ & [(c & ->)|(ri & ->)]);
          (split; [left; reflexivity|split; [left; reflexivity|discriminate]]).
    - intros t C' H. unfold cfg_good. apply cfg_step in H.
      destruct H as [(C & HC & [S|(ctl & n & o & c0 & -> & Hw & S)])|(Hn & i & n & o & -> & _ & Hcore)].
      + pose proof (Hc _ _ HC) as G. unfold cfg_good in G. sim_cbn S. lia.
      + pose proof (Hc _ _ HC) as G. unfold cfg_good in G. inversion Hw; subst; sim_cbn S; lia.
      + unfold core in Hcore. injection Hcore as _ _ _ _ _ _ -> _ ->. lia.
  Qed.

  Lemma K_init : K (@init V Ch Req D).
  Proof. split; cbn; intros ? ? H; rewrite lookup_empty in H; discriminate. Qed.

  Theorem K_reach (w : world) : reach w -> K w.
  Proof.
    apply (reach_ind candidate candidate_rb rollback_of overlay commit_merge payload record_applied touched restore
                     resync_payload doc_ok dev_apply stamp v_empty d_empty ch_empty K).
    - exact K_init.
    - intros w0 l _ HK. apply step_K. exact HK.
  Qed.

  (* PrevIndex < index < NextIndex (0 = no link) on every proposal of every reachable world *)
  Theorem links_ordered (w : world) t i (P : prop) :
    reach w -> props w !! (t, i) = Some P -> (p_prev P = 0 \/ p_prev P < i) /\ (p_next P = 0 \/ i < p_next P).
  Proof. intros Hr HP. destruct (k_prop _ (K_reach _ Hr) _ _ HP) as (G1 & G2 & _). auto. Qed.

  (* the term in which the device was last synchronised never exceeds the mastership term *)
  Theorem aterm_le_term (w : world) t (C : config) : reach w -> cfgs w !! t = Some C -> c_aterm C <= c_term C.
  Proof. intros Hr HC. exact (k_cfg _ (K_reach _ Hr) _ _ HC). Qed.

  (** * C02: the Committed and Applied indexes of a target never decrease *)
  Theorem cursors_monotone (w : world) l t :
    reach w -> committed_of w t <= committed_of (step w l) t /\ applied_of w t <= applied_of (step w l) t.
  Proof.
    intros Hr. split.
    - destruct (N.eq_dec (committed_of (step w l) t) (committed_of w t)) as [->|Hne]; [lia|].
      apply committed_moves_by_successor in Hne. destruct Hne as (i & k & o & P & -> & HP & -> & -> & _).
      destruct (links_ordered _ _ _ _ Hr HP) as [[->|Hlt] _]; lia.
    - destruct (N.eq_dec (applied_of (step w l) t) (applied_of w t)) as [->|Hne]; [lia|].
      apply applied_moves_by_successor in Hne. destruct Hne as (i & k & o & P & -> & HP & -> & [(_ & Hlt & _)|[(_ & Hlt)|(_ & _ & ->)]]); [lia|lia|].
      destruct (links_ordered _ _ _ _ Hr HP) as [[->|Hlt] _]; lia.
  Qed.
End CursorInv.

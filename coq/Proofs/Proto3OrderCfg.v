(* Proto3OrderCfg: the configuration-record writes of commitChange / commitRollback (the Committed cursor) preserve the
   frontier invariant; the two writes that append a COMPLETE commit event also keep the history ordered. *)
From Coq Require Import List NArith Bool Arith Lia.
From OC Require Import Model.Proto3 Spec.Tla3 Proofs.Proto3Proofs Proofs.Proto3OrderBase.
Import ListNotations.
Open Scope N_scope.

Ltac prj := cbn [k_index k_ordinal k_revision k_target k_change] in *.
Ltac cfg_sinv HS g extra := sinv_by prj HS g extra.

(* commitChange PENDING: Committed.Target := i *)
Lemma cfg_C1 g n cm ap h i t :
  IA g n cm ap h -> g i = Some t ->
  cc t = 0 -> k_change cm + 1 = i -> k_target cm <> i -> k_index cm = k_target cm ->
  (forall j p, g j = Some p -> j = k_index cm /\ k_target cm = k_index cm -> 2 <= cc p) ->
  IA g n {| k_index := k_index cm; k_ordinal := k_ordinal cm; k_revision := k_revision cm; k_target := i; k_change := k_change cm |} ap
     (h ++ [ev PhChange StCommit i InProgress]).
Proof.
  intros [HS HH] Hi G1 G2 G3 G4 Gt. split; [cfg_sinv HS g ltac:(inst_gate Gt g) |].
  apply HInv_cfg with (cm := cm) (ap := ap); auto; try (cbn; lia); repeat constructor.
Qed.

(* commitChange IN_PROGRESS, validation failed (after the transaction write), and the FAILED catch-up:
   Committed.Index, Committed.Change := i *)
Lemma cfg_C5 g n cm ap h i t :
  IA g n cm ap h -> g i = Some t ->
  cc t = 5 -> k_change cm < i ->
  IA g n {| k_index := i; k_ordinal := k_ordinal cm; k_revision := k_revision cm; k_target := k_target cm; k_change := i |} ap
     (h ++ []).
Proof.
  intros [HS HH] Hi G1 G2. split; [cfg_sinv HS g idtac |].
  apply HInv_cfg with (cm := cm) (ap := ap); auto; try (cbn; lia).
  cbn. intros j u Hj Hc E. subst j. rewrite Hi in Hj. inversion Hj; subst. lia.
Qed.

(* commitRollback PENDING: Committed.Target := Rollback.Index *)
Lemma cfg_R1 g n cm ap h i t :
  IA g n cm ap h -> g i = Some t ->
  rc t = 0 -> cc t = 2 -> k_revision cm = i -> k_target cm = i -> k_index cm = k_target cm ->
  IA g n {| k_index := k_index cm; k_ordinal := k_ordinal cm; k_revision := k_revision cm; k_target := t_ridx t; k_change := k_change cm |} ap
     (h ++ [ev PhRollback StCommit i InProgress]).
Proof.
  intros [HS HH] Hi G1 G2 G3 G4 G5. split; [cfg_sinv HS g idtac |].
  apply HInv_cfg with (cm := cm) (ap := ap); auto; try (cbn; lia); repeat constructor.
Qed.

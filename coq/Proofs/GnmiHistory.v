(* The stored configuration against the REFERENCE semantics Spec/Gnmi.v (element lists, no text):
   for every history of gNMI requests given as element-level paths (steps), rendered to text the way the Set handler
   does, turned into change maps by computeChange, stamped with increasing transaction indexes and folded through
   reconcileCommit + the store write from the empty store, the value Get reads at the text of ANY well-formed path is
   the value gnmi_history holds for that path. *)
From Coq Require Import List NArith Bool Lia.
From OC Require Import Base.Bytes Model.Merge Model.CfgStore Spec.Gnmi
     Proofs.MergeProofs Proofs.TextPathProofs Proofs.CommitProofs Proofs.CommitPreserve Proofs.CommitHistory Proofs.PathAbstraction.
Import ListNotations.
Open Scope N_scope.

(* ------------------------------------------------------------------ a request as the Set handler hands it on *)
Definition text_updates (r : greq) : list (str * str) := map (fun u => (render (fst u), snd u)) (g_updates r).
Definition text_removes (r : greq) : list str := map render (g_deletes r).
Definition text_change (idx : N) (r : greq) : cfgmap :=
  with_index idx (compute_change (text_updates r) (text_removes r)).
Definition text_req (ir : N * greq) : N * cfgmap := (fst ir, text_change (fst ir) (snd ir)).

Definition upd_entry (idx : N) (u : spath * str) : str * path_value :=
  (render (fst u), mkPV (render (fst u)) (snd u) false idx).
Definition del_entry (idx : N) (d : spath) : str * path_value := (render d, mkPV (render d) [] true idx).

Definition req_paths (r : greq) : list spath := map fst (g_updates r) ++ g_deletes r.

(* ------------------------------------------------------------------ guards, on element lists *)
Definition path_ok (p : spath) : Prop := p <> [] /\ spath_wf p.

(* well-formed non-empty paths; no path twice in a request; no update at or beneath a delete of the same request *)
Definition greq_ok (r : greq) : Prop :=
  Forall path_ok (req_paths r) /\ NoDup (req_paths r) /\
  (forall u d, In u (g_updates r) -> In d (g_deletes r) -> sprefix d (fst u) = false).

Fixpoint increasing_from (b : N) (l : list N) : Prop :=
  match l with
  | [] => True
  | i :: l' => b <= i /\ increasing_from (N.succ i) l'
  end.

Definition gnames (rs : list greq) (q : spath) : Prop := exists r, In r rs /\ In q (req_paths r).
Definition gupdated (rs : list greq) (p : spath) : Prop := exists r u, In r rs /\ In u (g_updates r) /\ fst u = p.

(* an updated path is a leaf: no request names a path of which it is a proper prefix *)
Definition gleaf_discipline (rs : list greq) : Prop :=
  forall p q, gupdated rs p -> gnames rs q -> sprefix p q = true -> q = p.

Definition ghistory_ok (h : list (N * greq)) : Prop :=
  Forall (fun ir => greq_ok (snd ir)) h /\ increasing_from 0 (map fst h) /\ gleaf_discipline (map snd h).

(* ------------------------------------------------------------------ computeChange on distinct paths *)
Lemma map_set_fresh k v m : ~ In k (map fst m) -> map_set k v m = m ++ [(k, v)].
Proof.
  induction m as [|[k0 v0] m IH]; cbn; intros H; [reflexivity|].
  deq k k0; [exfalso; apply H; left; reflexivity|]. f_equal. apply IH. intros HI. apply H. right. exact HI.
Qed.

Lemma fold_set_fresh {A} (kf : A -> str) (vf : A -> path_value) l : forall acc,
  NoDup (map fst acc ++ map kf l) ->
  fold_left (fun acc x => map_set (kf x) (vf x) acc) l acc = acc ++ map (fun x => (kf x, vf x)) l.
Proof.
  induction l as [|x l IH]; intros acc ND; cbn [fold_left map]; [rewrite app_nil_r; reflexivity|].
  cbn [map] in ND. pose proof (NoDup_remove_2 _ _ _ ND) as Hx.
  rewrite map_set_fresh by (intros HI; apply Hx; apply in_or_app; left; exact HI).
  rewrite IH.
  - rewrite <- app_assoc. reflexivity.
  - rewrite map_app, <- app_assoc. exact ND.
Qed.

Lemma NoDup_app_left {A} (a b : list A) : NoDup (a ++ b) -> NoDup a.
Proof.
  induction a as [|x a IH]; cbn; intros H; [constructor|]. inversion H as [|? ? Hn H']; subst.
  constructor; [intros HI; apply Hn; apply in_or_app; left; exact HI | apply IH; exact H'].
Qed.

Lemma with_index_app idx a b : with_index idx (a ++ b) = with_index idx a ++ with_index idx b.
Proof. unfold with_index. apply map_app. Qed.

Lemma NoDup_render l : Forall path_ok l -> NoDup l -> NoDup (map render l).
Proof.
  induction l as [|x l IH]; intros F ND; cbn; [constructor|].
  inversion F as [|? ? Fx Fl]; subst. inversion ND as [|? ? Hn ND']; subst.
  constructor; [|apply IH; assumption].
  intros HI. apply in_map_iff in HI. destruct HI as [y [E Hy]].
  rewrite Forall_forall in Fl. apply (render_injective y x (proj2 (Fl y Hy)) (proj2 Fx)) in E. subst y. contradiction.
Qed.

Lemma text_change_explicit idx r : greq_ok r ->
  text_change idx r = map (upd_entry idx) (g_updates r) ++ map (del_entry idx) (g_deletes r).
Proof.
  intros [F [ND _]]. pose proof (NoDup_render _ F ND) as NR. unfold req_paths in NR. rewrite map_app in NR.
  unfold text_change, compute_change.
  rewrite (fold_set_fresh (fun u : str * str => fst u) (fun u => mkPV (fst u) (snd u) false 0)).
  - cbn [app].
    rewrite (fold_set_fresh (fun p : str => p) (fun p => mkPV p [] true 0)).
    + rewrite with_index_app. unfold with_index, text_updates, text_removes. rewrite !map_map. reflexivity.
    + unfold text_updates, text_removes. rewrite !map_map. cbn [fst].
      rewrite map_map in NR. exact NR.
  - cbn [map app]. unfold text_updates. rewrite map_map. cbn [fst].
    rewrite map_map in NR. apply NoDup_app_left in NR. exact NR.
Qed.

Lemma in_text_change idx r k c : greq_ok r ->
  (In (k, c) (text_change idx r) <->
   (exists u, In u (g_updates r) /\ (k, c) = upd_entry idx u) \/ (exists d, In d (g_deletes r) /\ (k, c) = del_entry idx d)).
Proof.
  intros G. rewrite (text_change_explicit idx r G), in_app_iff, !in_map_iff. split.
  - intros [[u [E H]]|[d [E H]]]; [left; exists u | right; exists d]; auto.
  - intros [[u [H E]]|[d [H E]]]; [left; exists u | right; exists d]; auto.
Qed.

Lemma text_change_keys idx r : greq_ok r -> map fst (text_change idx r) = map render (req_paths r).
Proof.
  intros G. rewrite (text_change_explicit idx r G). unfold req_paths. rewrite !map_app, !map_map. reflexivity.
Qed.

Lemma upd_path_ok r u : greq_ok r -> In u (g_updates r) -> path_ok (fst u).
Proof.
  intros [F _] HI. rewrite Forall_forall in F. apply F. unfold req_paths. apply in_or_app. left. apply in_map. exact HI.
Qed.

Lemma del_path_ok r d : greq_ok r -> In d (g_deletes r) -> path_ok d.
Proof. intros [F _] HI. rewrite Forall_forall in F. apply F. unfold req_paths. apply in_or_app. right. exact HI. Qed.

(* ------------------------------------------------------------------ the textual guards follow *)
Lemma text_req_ok idx r : greq_ok r -> req_ok (idx, text_change idx r).
Proof.
  intros G. unfold req_ok. cbn [fst snd]. split; [|split; [|split; [|split]]].
  - intros k c HI. apply (in_text_change idx r k c G) in HI.
    destruct HI as [[u [_ E]]|[d [_ E]]]; injection E as -> ->; reflexivity.
  - unfold nodup. rewrite (text_change_keys idx r G). destruct G as [F [ND _]]. apply NoDup_render; assumption.
  - intros k c HI. apply (in_text_change idx r k c G) in HI.
    destruct HI as [[u [Hu E]]|[d [Hd E]]]; injection E as -> ->.
    + destruct (upd_path_ok r u G Hu) as [Nu Wu]. apply render_proper; assumption.
    + destruct (del_path_ok r d G Hd) as [Nd Wd]. apply render_proper; assumption.
  - intros k c kd d Hc Hd Dc Dd.
    apply (in_text_change idx r k c G) in Hc. apply (in_text_change idx r kd d G) in Hd.
    destruct Hc as [[u [Hu E]]|[x [_ E]]]; injection E as -> ->; [|discriminate].
    destruct Hd as [[x [_ E]]|[d0 [Hd0 E]]]; injection E as -> ->; [discriminate|]. cbn [pv_path].
    destruct (upd_path_ok r u G Hu) as [_ Wu]. destruct (del_path_ok r d0 G Hd0) as [Nd Wd].
    rewrite (below_is_proper_sprefix (fst u) d0 Wu Wd Nd).
    destruct G as [_ [_ GO]]. rewrite (GO u d0 Hu Hd0). reflexivity.
  - intros k c HI. apply (in_text_change idx r k c G) in HI.
    destruct HI as [[u [_ E]]|[d [_ E]]]; injection E as -> ->; reflexivity.
Qed.

Lemma increasing_indexes h : forall b, increasing_from b (map fst h) -> indexes_from b (map text_req h).
Proof.
  induction h as [|[i r] h IH]; intros b; cbn; [auto|]. intros [H1 H2]. split; [exact H1 | apply IH; exact H2].
Qed.

Lemma text_history_ok h : ghistory_ok h -> history_ok (map text_req h).
Proof.
  intros [F [IX LD]]. split; [|split].
  - apply Forall_forall. intros ic HI. apply in_map_iff in HI. destruct HI as [[i r] [<- HI]].
    rewrite Forall_forall in F. apply (text_req_ok i r (F _ HI)).
  - apply increasing_indexes. exact IX.
  - rewrite Forall_forall in F.
    intros p q [c [v [Hc [Hv Dv]]]] [c2 [Hc2 Hq]].
    apply in_map_iff in Hc. destruct Hc as [ic [<- Hc]]. apply in_map_iff in Hc. destruct Hc as [[i r] [<- Hr]].
    apply in_map_iff in Hc2. destruct Hc2 as [ic2 [<- Hc2]]. apply in_map_iff in Hc2. destruct Hc2 as [[i2 r2] [<- Hr2]].
    cbn [text_req fst snd] in *.
    pose proof (F _ Hr) as G. pose proof (F _ Hr2) as G2. cbn [snd] in G, G2.
    apply (in_text_change i r p v G) in Hv. destruct Hv as [[u [Hu E]]|[x [_ E]]]; injection E as -> ->; [|discriminate].
    rewrite (text_change_keys i2 r2 G2) in Hq. apply in_map_iff in Hq. destruct Hq as [q0 [<- Hq0]].
    destruct (upd_path_ok r u G Hu) as [Nu Wu].
    assert (Pq : path_ok q0) by (destruct G2 as [F2 _]; rewrite Forall_forall in F2; apply F2; exact Hq0).
    rewrite (below_is_proper_sprefix q0 (fst u) (proj2 Pq) Wu Nu).
    destruct (sprefix (fst u) q0) eqn:S; [|reflexivity]. cbn [andb]. apply negb_false_iff. apply eqb_spath_eq. symmetry.
    apply (LD (fst u) q0); [| |exact S].
    + exists r, u. split; [apply in_map_iff; exists (i, r); auto | auto].
    + exists r2. split; [apply in_map_iff; exists (i2, r2); auto | exact Hq0].
Qed.

(* ------------------------------------------------------------------ lookups in the reference configuration *)
Lemma glookup_delete g d sp : glookup (gnmi_delete g d) sp = if sprefix d sp then None else glookup g sp.
Proof.
  unfold gnmi_delete. induction g as [|[p v] g IH]; cbn [filter glookup fst]; [destruct (sprefix d sp); reflexivity|].
  destruct (eqb_spath sp p) eqn:E.
  - apply eqb_spath_eq in E. subst p. destruct (sprefix d sp) eqn:S; cbn [negb].
    + exact IH.
    + cbn [glookup]. rewrite eqb_spath_refl. reflexivity.
  - destruct (sprefix d p); cbn [negb]; [exact IH|]. cbn [glookup]. rewrite E. exact IH.
Qed.

Lemma glookup_deletes ds : forall g sp,
  glookup (fold_left gnmi_delete ds g) sp = if existsb (fun d => sprefix d sp) ds then None else glookup g sp.
Proof.
  induction ds as [|d ds IH]; intros g sp; cbn [fold_left existsb]; [reflexivity|].
  rewrite IH, glookup_delete. destruct (sprefix d sp); cbn [orb]; [destruct (existsb _ ds); reflexivity | reflexivity].
Qed.

Lemma glookup_update g u sp : glookup (gnmi_update g u) sp = if eqb_spath sp (fst u) then Some (snd u) else glookup g sp.
Proof.
  unfold gnmi_update. destruct u as [pu vu]. cbn [glookup fst snd].
  destruct (eqb_spath sp pu) eqn:E; [reflexivity|].
  induction g as [|[p v] g IH]; cbn [filter glookup fst]; [reflexivity|].
  destruct (eqb_spath pu p) eqn:E2; cbn [negb].
  - apply eqb_spath_eq in E2. subst p. rewrite E. exact IH.
  - cbn [glookup]. destruct (eqb_spath sp p); [reflexivity | exact IH].
Qed.

Lemma glookup_updates us : forall g sp, NoDup (map fst us) ->
  glookup (fold_left gnmi_update us g) sp
  = match find (fun u => eqb_spath sp (fst u)) us with Some u => Some (snd u) | None => glookup g sp end.
Proof.
  induction us as [|u us IH]; intros g sp ND; cbn [fold_left find]; [reflexivity|].
  cbn [map] in ND. inversion ND as [|? ? Hn ND']; subst.
  rewrite IH by exact ND'. rewrite glookup_update.
  destruct (eqb_spath sp (fst u)) eqn:E; [|reflexivity].
  destruct (find (fun u0 => eqb_spath sp (fst u0)) us) as [u'|] eqn:Fd; [|reflexivity].
  exfalso. apply find_some in Fd. destruct Fd as [Hu' E']. apply eqb_spath_eq in E, E'. apply Hn.
  rewrite <- E, E'. apply in_map. exact Hu'.
Qed.

(* ------------------------------------------------------------------ lookups in the text change map *)
Lemma map_get_app k a b : map_get k (a ++ b) = match map_get k a with Some v => Some v | None => map_get k b end.
Proof. induction a as [|[k0 v0] a IH]; cbn; [reflexivity|]. destruct (eqb_str k k0); [reflexivity | exact IH]. Qed.

Lemma map_get_upds idx sp us : spath_wf sp -> Forall path_ok (map fst us) ->
  map_get (render sp) (map (upd_entry idx) us)
  = option_map (fun u => mkPV (render (fst u)) (snd u) false idx) (find (fun u => eqb_spath sp (fst u)) us).
Proof.
  intros W. induction us as [|u us IH]; intros F; cbn [map map_get find upd_entry option_map]; [reflexivity|].
  cbn [map] in F. inversion F as [|? ? Fu Fus]; subst.
  rewrite (eqb_render sp (fst u) W (proj2 Fu)).
  destruct (eqb_spath sp (fst u)); [reflexivity | apply IH; exact Fus].
Qed.

Lemma map_get_dels idx sp ds : spath_wf sp -> Forall path_ok ds ->
  map_get (render sp) (map (del_entry idx) ds)
  = if existsb (fun d => eqb_spath d sp) ds then Some (mkPV (render sp) [] true idx) else None.
Proof.
  intros W. induction ds as [|d ds IH]; intros F; cbn [map map_get existsb del_entry]; [reflexivity|].
  inversion F as [|? ? Fd Fds]; subst.
  rewrite (eqb_render sp d W (proj2 Fd)).
  destruct (eqb_spath sp d) eqn:E.
  - apply eqb_spath_eq in E. subst d. rewrite eqb_spath_refl. reflexivity.
  - assert (E2 : eqb_spath d sp = false).
    { destruct (eqb_spath d sp) eqn:E2; [|reflexivity]. apply eqb_spath_eq in E2. subst d. rewrite eqb_spath_refl in E. discriminate. }
    rewrite E2. cbn [orb]. apply IH. exact Fds.
Qed.

Lemma deleted_above_text idx r sp : greq_ok r -> spath_wf sp ->
  deleted_above (text_change idx r) (render sp)
  = existsb (fun d => sprefix d sp && negb (eqb_spath d sp)) (g_deletes r).
Proof.
  intros G W. rewrite (text_change_explicit idx r G). unfold deleted_above. rewrite existsb_app.
  assert (E1 : existsb (fun kv => pv_deleted (snd kv) && is_path_below (render sp) (pv_path (snd kv)))
                       (map (upd_entry idx) (g_updates r)) = false).
  { induction (g_updates r) as [|u us IH]; [reflexivity | cbn; exact IH]. }
  rewrite E1. cbn [orb].
  assert (F : Forall path_ok (g_deletes r)).
  { apply Forall_forall. intros d HI. apply (del_path_ok r d G HI). }
  induction (g_deletes r) as [|d ds IH]; [reflexivity|].
  inversion F as [|? ? Fd Fds]; subst. cbn [map existsb del_entry snd pv_deleted pv_path andb].
  rewrite (below_is_proper_sprefix sp d W (proj2 Fd) (proj1 Fd)). rewrite (IH Fds). reflexivity.
Qed.

(* ------------------------------------------------------------------ one request: text effect = reference effect *)
Definition agree (L : str -> option str) (g : gcfg) : Prop :=
  forall sp, spath_wf sp -> L (render sp) = glookup g sp.

Lemma existsb_prefix_split ds sp :
  existsb (fun d => sprefix d sp) ds
  = existsb (fun d => eqb_spath d sp) ds || existsb (fun d => sprefix d sp && negb (eqb_spath d sp)) ds.
Proof.
  induction ds as [|d ds IH]; [reflexivity|]. cbn [existsb]. rewrite IH.
  destruct (eqb_spath d sp) eqn:E.
  - apply eqb_spath_eq in E. subst d.
    assert (S : sprefix sp sp = true) by (apply sprefix_spec; exists []; rewrite app_nil_r; reflexivity).
    rewrite S. reflexivity.
  - destruct (sprefix d sp); cbn [andb negb orb].
    + destruct (existsb (fun d0 => eqb_spath d0 sp) ds); reflexivity.
    + reflexivity.
Qed.

Lemma step_agrees L g idx r : greq_ok r -> agree L g -> agree (spec_step L (text_change idx r)) (gnmi_apply g r).
Proof.
  intros G A sp W. unfold spec_step, gnmi_apply.
  assert (NDu : NoDup (map fst (g_updates r))).
  { destruct G as [_ [ND _]]. unfold req_paths in ND. apply NoDup_app_left in ND. exact ND. }
  assert (Fu : Forall path_ok (map fst (g_updates r))).
  { apply Forall_forall. intros p HI. apply in_map_iff in HI. destruct HI as [u [<- HI]]. apply (upd_path_ok r u G HI). }
  assert (Fd : Forall path_ok (g_deletes r)).
  { apply Forall_forall. intros d HI. apply (del_path_ok r d G HI). }
  rewrite (glookup_updates _ _ sp NDu), glookup_deletes.
  rewrite (deleted_above_text idx r sp G W).
  rewrite (text_change_explicit idx r G), map_get_app, (map_get_upds idx sp _ W Fu), (map_get_dels idx sp _ W Fd).
  destruct (find (fun u => eqb_spath sp (fst u)) (g_updates r)) as [u|]; cbn [option_map]; [reflexivity|].
  rewrite existsb_prefix_split.
  destruct (existsb (fun d => eqb_spath d sp) (g_deletes r)); cbn [orb]; [reflexivity|].
  destruct (existsb _ (g_deletes r)); [reflexivity | apply A; exact W].
Qed.

Lemma history_agrees h : forall L g, Forall (fun ir => greq_ok (snd ir)) h -> agree L g ->
  agree (spec_history L (map text_req h)) (gnmi_history g (map snd h)).
Proof.
  induction h as [|[i r] h IH]; intros L g F A; [exact A|].
  inversion F as [|? ? F1 F2]; subst. cbn [map text_req fst snd spec_history]. unfold gnmi_history. cbn [fold_left].
  apply IH; [exact F2 | apply step_agrees; assumption].
Qed.

(* ------------------------------------------------------------------ the stored configuration vs. the reference *)
Theorem elements_history_refines h : ghistory_ok h ->
  forall sp, spath_wf sp ->
  live (run_history [] (map text_req h)) (render sp) = glookup (gnmi_history [] (map snd h)) sp.
Proof.
  intros H sp W. rewrite (history_refines _ (text_history_ok h H)).
  destruct H as [F _]. apply (history_agrees h (fun _ => None) [] F); [|exact W].
  intros sp' _. reflexivity.
Qed.

(* nothing else is readable: a live stored path is the text of a path some request updated *)
Theorem elements_history_complete h : ghistory_ok h ->
  forall p, live (run_history [] (map text_req h)) p <> None -> exists sp, gupdated (map snd h) sp /\ p = render sp.
Proof.
  intros H p L. pose proof H as [F _]. rewrite Forall_forall in F.
  destruct (history_invariant _ (text_history_ok h H)) as [_ [_ [_ [_ U]]]].
  destruct (U p L) as [c [v [Hc [Hv Dv]]]].
  apply in_map_iff in Hc. destruct Hc as [ic [<- Hc]]. apply in_map_iff in Hc. destruct Hc as [[i r] [<- Hr]].
  cbn [text_req fst snd] in Hv. pose proof (F _ Hr) as G. cbn [snd] in G.
  apply (in_text_change i r p v G) in Hv. destruct Hv as [[u [Hu E]]|[x [_ E]]]; injection E as -> ->; [|discriminate].
  exists (fst u). split; [|reflexivity]. exists r, u. split; [apply in_map_iff; exists (i, r); auto | auto].
Qed.

(* Unbounded proof of latest-state-at-quiescence for Model/Watch.v (real order: listener registered BEFORE the
   replay snapshot), by an inductive invariant over every schedule of any length.

   The invariant, for every watcher that is not cancelled and has taken its replay snapshot (or needs none), and
   for every record k it is entitled to:

       delivered ++ (rest of the replay | event held by the goroutine) ++ (event the loop still has to hand to it)
                 ++ Atomix event stream                                   ends, for k, with the CURRENT version of k

   together with: the in-flight events (loop + stream) end, for every record, with its current version; record
   keys and watcher ids are unique; the loop's targets are distinct, non-empty and exist; a watcher that is not
   drained is still registered, a drained / stuck one is cancelled.  A watcher still in WReg will take its
   snapshot AFTER its registration, which re-establishes the equation whatever the loop did in between. *)
From Coq Require Import List NArith Bool Lia.
From OC Require Import Model.Watch Proofs.WatchProofs.
Import ListNotations.
Open Scope N_scope.

(* ---------------------------------------------------------------- lists of events, the store *)
Lemma last_for_app k a b :
  last_for k (a ++ b) = match last_for k b with Some v => Some v | None => last_for k a end.
Proof.
  induction a as [|e a IH]; simpl.
  - destruct (last_for k b); reflexivity.
  - rewrite IH. destruct (last_for k b); reflexivity.
Qed.

Lemma last_for_cons_some k e q v : last_for k q = Some v -> last_for k (e :: q) = Some v.
Proof. simpl. intros ->. reflexivity. Qed.

Lemma last_for_skip k a e b : ev_key e <> k -> last_for k (a ++ e :: b) = last_for k (a ++ b).
Proof.
  intro Hne. rewrite !last_for_app. simpl.
  destruct (N.eqb_spec (ev_key e) k) as [E|_]; [contradiction|].
  destruct (last_for k b); reflexivity.
Qed.

Lemma last_for_snoc k a e :
  last_for k (a ++ [e]) = if N.eqb (ev_key e) k then Some (ev_ver e) else last_for k a.
Proof. rewrite last_for_app. simpl. destruct (N.eqb (ev_key e) k); reflexivity. Qed.

Lemma lookup_set k k' v s : lookup k (set_store k' v s) = if N.eqb k' k then Some v else lookup k s.
Proof.
  induction s as [|[a x] r IH]; simpl.
  - destruct (N.eqb k' k); reflexivity.
  - destruct (N.eqb_spec a k') as [E|E]; simpl.
    + subst a. destruct (N.eqb k' k); reflexivity.
    + rewrite IH. destruct (N.eqb_spec a k) as [E2|E2]; [|reflexivity].
      subst a. destruct (N.eqb_spec k' k) as [E3|_]; [congruence | reflexivity].
Qed.

Lemma in_keys_set a k v s : In a (map fst (set_store k v s)) -> a = k \/ In a (map fst s).
Proof.
  induction s as [|[b x] r IH]; simpl.
  - intros [<-|[]]. left; reflexivity.
  - destruct (N.eqb b k); simpl.
    + intros H. right. exact H.
    + intros [<-|H]; [right; left; reflexivity|]. destruct (IH H) as [->|H']; [left; reflexivity | right; right; exact H'].
Qed.

Lemma keys_set k v s : NoDup (map fst s) -> NoDup (map fst (set_store k v s)).
Proof.
  induction s as [|[b x] r IH]; simpl; intro Hnd.
  - constructor; [simpl; tauto | constructor].
  - inversion Hnd as [|? ? Hnin Hnd']; subst.
    destruct (N.eqb_spec b k) as [E|E]; simpl.
    + constructor; assumption.
    + constructor; [|exact (IH Hnd')].
      intro Hin. destruct (in_keys_set _ _ _ _ Hin) as [->|H]; [congruence | contradiction].
Qed.

Lemma lookup_none k s : ~ In k (map fst s) -> lookup k s = None.
Proof.
  induction s as [|[a x] r IH]; simpl; [reflexivity|]. intro H.
  destruct (N.eqb_spec a k) as [E|E]; [exfalso; apply H; left; exact E | apply IH; tauto].
Qed.

Lemma lookup_in k v s : NoDup (map fst s) -> In (k, v) s -> lookup k s = Some v.
Proof.
  induction s as [|[a x] r IH]; simpl; intros Hnd Hin; [contradiction|].
  inversion Hnd as [|? ? Hnin Hnd']; subst.
  destruct Hin as [E|Hin].
  - inversion E; subst. rewrite N.eqb_refl. reflexivity.
  - destruct (N.eqb_spec a k) as [E|E]; [|exact (IH Hnd' Hin)].
    subst a. exfalso. apply Hnin. change k with (fst (k, v)). apply in_map. exact Hin.
Qed.

Lemma matches_key f a k : matches f k = true -> matches f a = false -> a <> k.
Proof. intros H1 H2 ->. congruence. Qed.

Lemma last_for_snapshot f s k :
  NoDup (map fst s) -> matches f k = true -> last_for k (snapshot f s) = lookup k s.
Proof.
  unfold snapshot. induction s as [|[a x] r IH]; simpl; intros Hnd Hm; [reflexivity|].
  inversion Hnd as [|? ? Hnin Hnd']; subst.
  destruct (matches f a) eqn:Ma; simpl.
  - rewrite (IH Hnd' Hm). destruct (N.eqb_spec a k) as [E|E].
    + subst a. rewrite (lookup_none _ _ Hnin). reflexivity.
    + destruct (lookup k r); reflexivity.
  - destruct (N.eqb_spec a k) as [E|E]; [exfalso; exact (matches_key _ _ _ Hm Ma E) | exact (IH Hnd' Hm)].
Qed.

Lemma snapshot_length f s : (length (snapshot f s) <= length s)%nat.
Proof.
  unfold snapshot. rewrite map_length. induction s as [|kv r IH]; simpl; [lia|].
  destruct (matches f (fst kv)); simpl; lia.
Qed.

Lemma existsb_eqb_in i l : existsb (N.eqb i) l = true <-> In i l.
Proof.
  rewrite existsb_exists. split.
  - intros [x [Hin E]]. apply N.eqb_eq in E. subst. exact Hin.
  - intro Hin. exists i. split; [exact Hin | apply N.eqb_refl].
Qed.

Lemma NoDup_snoc {A} (l : list A) x : NoDup l -> ~ In x l -> NoDup (l ++ [x]).
Proof.
  induction l as [|a l IH]; simpl; intros Hnd Hnin.
  - constructor; [simpl; tauto | constructor].
  - inversion Hnd as [|? ? Ha Hnd']; subst. constructor.
    + rewrite in_app_iff. simpl. intros [H|[H|[]]]; [contradiction | subst; tauto].
    + apply IH; tauto.
Qed.

(* ---------------------------------------------------------------- watcher lists *)
Lemma find_in id ws w : find_w id ws = Some w -> In w ws /\ w_id w = id.
Proof.
  induction ws as [|x r IH]; simpl; [discriminate|].
  destruct (N.eqb_spec (w_id x) id) as [E|E].
  - intro H. inversion H; subst. split; [left; reflexivity | reflexivity].
  - intro H. destruct (IH H) as [Hin Hid]. split; [right; exact Hin | exact Hid].
Qed.

Lemma find_none_notin id ws : find_w id ws = None -> ~ In id (map w_id ws).
Proof.
  induction ws as [|x r IH]; simpl; [tauto|].
  destruct (N.eqb_spec (w_id x) id) as [E|E]; [discriminate|].
  intros H [H'|H']; [contradiction | exact (IH H H')].
Qed.

Lemma in_ids_find id ws : In id (map w_id ws) -> find_w id ws <> None.
Proof. intros Hin Hn. exact (find_none_notin _ _ Hn Hin). Qed.

Lemma find_nodup ws w : NoDup (map w_id ws) -> In w ws -> find_w (w_id w) ws = Some w.
Proof.
  induction ws as [|x r IH]; simpl; intros Hnd Hin; [contradiction|].
  inversion Hnd as [|? ? Hnin Hnd']; subst.
  destruct Hin as [->|Hin]; [rewrite N.eqb_refl; reflexivity|].
  destruct (N.eqb_spec (w_id x) (w_id w)) as [E|E]; [|exact (IH Hnd' Hin)].
  exfalso. apply Hnin. rewrite E. apply in_map. exact Hin.
Qed.

Lemma ids_upd id f ws : (forall w, w_id (f w) = w_id w) -> map w_id (upd_w id f ws) = map w_id ws.
Proof.
  intro Hf. induction ws as [|x r IH]; simpl; [reflexivity|].
  destruct (N.eqb (w_id x) id); simpl; [rewrite Hf; reflexivity | rewrite IH; reflexivity].
Qed.

Lemma ids_note k ws : map w_id (map (note_write k) ws) = map w_id ws.
Proof. rewrite map_map. apply map_ext. reflexivity. Qed.

Lemma upd_length id f ws : length (upd_w id f ws) = length ws.
Proof. induction ws as [|x r IH]; simpl; [reflexivity|]. destruct (N.eqb (w_id x) id); simpl; congruence. Qed.

(* a step that rewrites the watcher found under id and moves everybody else from P to Q *)
Lemma Forall_upd2 (P Q : watcher -> Prop) id f ws :
  NoDup (map w_id ws) -> Forall P ws ->
  (forall w, In w ws -> w_id w <> id -> P w -> Q w) ->
  (forall w, find_w id ws = Some w -> P w -> Q (f w)) ->
  Forall Q (upd_w id f ws).
Proof.
  induction ws as [|x r IH]; simpl; intros Hnd HP Hother Hself; [constructor|].
  inversion Hnd as [|? ? Hnin Hnd']; subst. inversion HP as [|? ? Px Pr]; subst.
  destruct (N.eqb_spec (w_id x) id) as [E|E].
  - constructor; [apply Hself; [reflexivity | exact Px]|].
    rewrite Forall_forall in *. intros w Hin. apply Hother; [right; exact Hin | | exact (Pr w Hin)].
    intro Hid. apply Hnin. rewrite E, <- Hid. apply in_map. exact Hin.
  - constructor; [apply Hother; [left; reflexivity | exact E | exact Px]|].
    apply IH; [exact Hnd' | exact Pr | |].
    + intros w Hin. apply Hother. right. exact Hin.
    + intros w Hf. apply Hself. exact Hf.
Qed.

Lemma ids_filter (p : watcher -> bool) ws i : In i (map w_id (filter p ws)) -> In i (map w_id ws).
Proof.
  rewrite !in_map_iff. intros [w [E Hin]]. apply filter_In in Hin. exists w. tauto.
Qed.

Lemma nodup_ids_filter (p : watcher -> bool) ws : NoDup (map w_id ws) -> NoDup (map w_id (filter p ws)).
Proof.
  induction ws as [|x r IH]; simpl; intro Hnd; [constructor|].
  inversion Hnd as [|? ? Hnin Hnd']; subst.
  destruct (p x); simpl; [|exact (IH Hnd')].
  constructor; [|exact (IH Hnd')]. intro Hin. apply Hnin. exact (ids_filter _ _ _ Hin).
Qed.

(* ---------------------------------------------------------------- the invariant *)
Definition pend_phase (p : wphase) : list ev :=
  match p with WReplay l => l | WHold e => [e] | _ => [] end.

Definition pend_loop (lp : loopst) (id : N) : list ev :=
  match lp with LSend e ts => if existsb (N.eqb id) ts then [e] else [] | LIdle => [] end.

Definition inflight (lp : loopst) (q : list ev) : list ev :=
  match lp with LSend e _ => [e] | LIdle => [] end ++ q.

(* everything watcher w has been shown or will be shown without any further write, oldest first *)
Definition stream (q : list ev) (lp : loopst) (w : watcher) : list ev :=
  w_delivered w ++ pend_phase (w_phase w) ++ pend_loop lp (w_id w) ++ q.

Definition wf_wb (fixed : bool) (w : watcher) : bool :=
  match w_phase w with
  | WDrained => w_cancelled w
  | WStuck => w_cancelled w && negb fixed
  | WUnreg _ => false
  | _ => w_registered w
  end.

Definition fresh_w (st : list (N * N)) (q : list ev) (lp : loopst) (w : watcher) : Prop :=
  w_cancelled w = false -> w_phase w <> WReg ->
  forall k v, matches (w_filter w) k = true -> (w_replay w = true \/ In k (w_since w)) ->
  lookup k st = Some v -> last_for k (stream q lp w) = Some v.

Definition winv (fixed : bool) (st : list (N * N)) (q : list ev) (lp : loopst) (w : watcher) : Prop :=
  wf_wb fixed w = true /\ fresh_w st q lp w.

Definition loop_ok (lp : loopst) (ws : list watcher) : Prop :=
  match lp with
  | LIdle => True
  | LSend _ ts => ts <> [] /\ NoDup ts /\ forall id, In id ts -> find_w id ws <> None
  end.

Record Inv (fixed : bool) (g : world) : Prop := {
  inv_keys : NoDup (map fst (g_store g));
  inv_ids : NoDup (map w_id (g_ws g));
  inv_loop : loop_ok (g_loop g) (g_ws g);
  inv_flight : forall k v, last_for k (inflight (g_loop g) (g_queue g)) = Some v -> lookup k (g_store g) = Some v;
  inv_ws : Forall (winv fixed (g_store g) (g_queue g) (g_loop g)) (g_ws g)
}.

Lemma inv_w0 fixed : Inv fixed w0.
Proof.
  constructor; simpl; try constructor. intros k v H. discriminate.
Qed.

Lemma pend_loop_after e rest i :
  pend_loop (after_targets e rest) i = if existsb (N.eqb i) rest then [e] else [].
Proof. destruct rest; reflexivity. Qed.

Lemma inflight_after k e rest q v :
  last_for k (inflight (after_targets e rest) q) = Some v -> last_for k (e :: q) = Some v.
Proof.
  unfold inflight. destruct rest; simpl.
  - intros ->. reflexivity.
  - intro H. exact H.
Qed.

Lemma pend_loop_inflight k lp i q v :
  last_for k (pend_loop lp i ++ q) = Some v -> last_for k (inflight lp q) = Some v.
Proof.
  unfold inflight. destruct lp as [|e ts]; simpl; [tauto|].
  destruct (existsb (N.eqb i) ts); simpl; [tauto|]. intros ->. reflexivity.
Qed.

Lemma loop_ok_ids lp ws ws' :
  (forall id, find_w id ws <> None -> find_w id ws' <> None) -> loop_ok lp ws -> loop_ok lp ws'.
Proof.
  intros H. destruct lp as [|e ts]; simpl; [tauto|].
  intros [H1 [H2 H3]]. repeat split; try assumption. intros id Hin. apply H. exact (H3 id Hin).
Qed.

Lemma find_upd_some id id' f ws : (forall w, w_id (f w) = w_id w) ->
  find_w id ws <> None -> find_w id (upd_w id' f ws) <> None.
Proof.
  intros Hf H. rewrite (find_upd id id' f ws Hf). destruct (N.eqb id' id); [|exact H].
  destruct (find_w id ws); [discriminate | congruence].
Qed.

(* a step of one goroutine: only the watcher found under id changes *)
Lemma inv_local fixed g id f :
  Inv fixed g -> (forall w, w_id (f w) = w_id w) ->
  (forall w, find_w id (g_ws g) = Some w ->
     winv fixed (g_store g) (g_queue g) (g_loop g) w -> winv fixed (g_store g) (g_queue g) (g_loop g) (f w)) ->
  Inv fixed (with_ws g (upd_w id f (g_ws g))).
Proof.
  intros [Hk Hi Hl Hf Hw] Hid Hstep. constructor; simpl.
  - exact Hk.
  - rewrite ids_upd by exact Hid. exact Hi.
  - apply (loop_ok_ids _ (g_ws g)); [|exact Hl]. intros i. apply find_upd_some. exact Hid.
  - exact Hf.
  - apply (Forall_upd2 (winv fixed (g_store g) (g_queue g) (g_loop g))); try assumption. tauto.
Qed.

Lemma wf_not_cancelled_registered fixed w : wf_wb fixed w = true -> w_cancelled w = false -> w_registered w = true.
Proof.
  unfold wf_wb. destruct (w_phase w); intros H Hc; try exact H; try congruence.
  rewrite Hc in H. discriminate.
Qed.

Ltac phase_facts :=
  repeat match goal with
  | H : wf_wb _ _ = true |- _ => unfold wf_wb in H; simpl in H
  end.

Lemma fresh_other st q e id rest w :
  w_id w <> id -> fresh_w st q (LSend e (id :: rest)) w -> fresh_w st q (after_targets e rest) w.
Proof.
  intros Hne H Hc Hp k v Hm He Hl. specialize (H Hc Hp k v Hm He Hl).
  unfold stream in *. rewrite pend_loop_after. simpl in H.
  destruct (N.eqb_spec (w_id w) id) as [E|_]; [contradiction|]. exact H.
Qed.

Lemma loop_ok_after e id rest ws ws' :
  (forall i, find_w i ws <> None -> find_w i ws' <> None) ->
  loop_ok (LSend e (id :: rest)) ws -> loop_ok (after_targets e rest) ws'.
Proof.
  intros Hsub [_ [Hnd Hex]]. destruct rest as [|a r]; simpl; [exact I|].
  inversion Hnd; subst. repeat split; [discriminate | assumption |].
  intros i Hin. apply Hsub. apply Hex. right. exact Hin.
Qed.

Lemma loop_ok_take e k ws : NoDup (map w_id ws) -> loop_ok (after_targets e (listeners k ws)) ws.
Proof.
  intro Hi. assert (H : NoDup (listeners k ws) /\ forall i, In i (listeners k ws) -> find_w i ws <> None).
  { unfold listeners. split; [apply nodup_ids_filter; exact Hi|].
    intros i Hin. apply in_ids_find. exact (ids_filter _ _ _ Hin). }
  destruct (listeners k ws) as [|a r]; simpl; [exact I|].
  destruct H as [H1 H2]. repeat split; [discriminate | exact H1 | exact H2].
Qed.

(* ---------------------------------------------------------------- every step keeps the invariant *)
Lemma inv_step fixed g l : Inv fixed g -> Inv fixed (wstep fixed false g l).
Proof.
  intro HI. destruct l as [k' | id f rp | id | id | | | id | id | id | id]; simpl.
  - (* SWrite *)
    destruct HI as [Hk Hi Hl Hf Hw]. constructor; simpl.
    + apply keys_set. exact Hk.
    + rewrite ids_note. exact Hi.
    + apply (loop_ok_ids _ (g_ws g)); [|exact Hl]. intros i H. rewrite find_map_note.
      destruct (find_w i (g_ws g)); [discriminate | congruence].
    + intros k v. unfold inflight. rewrite app_assoc, last_for_snoc, lookup_set. simpl.
      destruct (N.eqb k' k); [tauto | apply Hf].
    + rewrite Forall_forall in *. intros w' Hin. apply in_map_iff in Hin. destruct Hin as [w [<- Hin]].
      destruct (Hw w Hin) as [Hwf Hfr]. split; [exact Hwf|].
      intros Hc Hp k v Hm He. rewrite lookup_set.
      replace (stream (g_queue g ++ [{| ev_key := k'; ev_ver := g_clock g + 1 |}]) (g_loop g) (note_write k' w))
        with (stream (g_queue g) (g_loop g) w ++ [{| ev_key := k'; ev_ver := g_clock g + 1 |}])
        by (unfold stream; simpl; rewrite <- !app_assoc; reflexivity).
      rewrite last_for_snoc. simpl in *.
      destruct (N.eqb_spec k' k) as [E|E]; [tauto|].
      intro Hlk. apply Hfr; try assumption.
      destruct He as [He|[He|He]]; [left; exact He | contradiction | right; exact He].
  - (* SOpen *)
    destruct (find_w id (g_ws g)) eqn:Efind; [exact HI|].
    destruct HI as [Hk Hi Hl Hf Hw]. constructor; simpl.
    + exact Hk.
    + rewrite map_app. simpl. apply NoDup_snoc; [exact Hi | exact (find_none_notin _ _ Efind)].
    + apply (loop_ok_ids _ (g_ws g)); [|exact Hl]. intros i H. rewrite find_app by exact H. exact H.
    + exact Hf.
    + apply Forall_app. split; [exact Hw|]. constructor; [|constructor]. split.
      * unfold wf_wb. simpl. destruct rp; reflexivity.
      * intros Hc Hp k v Hm He. simpl in *. destruct rp; [congruence|].
        destruct He as [He|[]]. discriminate.
  - (* SSnap *)
    destruct (find_w id (g_ws g)) as [w|] eqn:Efind; [|exact HI].
    destruct (w_phase w) eqn:Ep; try exact HI.
    + destruct (w_cancelled w) eqn:Ec; [destruct (w_filter w) eqn:Efl|].
      * apply inv_local; [exact HI | reflexivity|]. intros w1 Hw1 [Hwf Hfr].
        rewrite Efind in Hw1. inversion Hw1; subst w1. split.
        -- unfold wf_wb in *. simpl. rewrite Ep in Hwf. exact Hwf.
        -- intros Hc. simpl in Hc. congruence.
      * apply inv_local; [exact HI | reflexivity|]. intros w1 Hw1 [Hwf Hfr].
        rewrite Efind in Hw1. inversion Hw1; subst w1. split.
        -- unfold wf_wb, cancelled_in_replay. simpl. rewrite Ec. destruct fixed; reflexivity.
        -- intros Hc. simpl in Hc. congruence.
      * pose proof (inv_keys _ _ HI) as Hk. pose proof (inv_flight _ _ HI) as Hf.
        apply inv_local; [exact HI | reflexivity|]. intros w1 Hw1 [Hwf Hfr].
        rewrite Efind in Hw1. inversion Hw1; subst w1. split.
        -- unfold wf_wb in *. simpl. rewrite Ep in Hwf. exact Hwf.
        -- intros Hc _ k v Hm He Hlk. unfold stream. simpl in *.
           rewrite last_for_app.
           rewrite (last_for_app k (snapshot (w_filter w) (g_store g))).
           destruct (last_for k (pend_loop (g_loop g) (w_id w) ++ g_queue g)) as [v'|] eqn:El.
           ++ apply pend_loop_inflight in El. apply Hf in El. congruence.
           ++ rewrite (last_for_snapshot _ _ _ Hk Hm), Hlk. reflexivity.
    + (* WUnreg: not reachable in the real order *)
      exfalso. destruct (find_in _ _ _ Efind) as [Hin _].
      pose proof (inv_ws _ _ HI) as Hw. rewrite Forall_forall in Hw. destruct (Hw w Hin) as [Hwf _].
      unfold wf_wb in Hwf. rewrite Ep in Hwf. discriminate.
  - (* SReplay *)
    destruct (find_w id (g_ws g)) as [w|] eqn:Efind; [|exact HI].
    destruct (w_phase w) as [ |pl| | | | | ] eqn:Ep; try exact HI.
    destruct pl as [|e r].
    + destruct (w_registered w) eqn:Er; [|exact HI].
      apply inv_local; [exact HI | reflexivity|]. intros w1 Hw1 [Hwf Hfr].
      rewrite Efind in Hw1. inversion Hw1; subst w1. split.
      * unfold wf_wb. simpl. exact Er.
      * intros Hc _ k v Hm He Hlk. simpl in *.
        assert (Hp : w_phase w <> WReg) by (rewrite Ep; discriminate).
        specialize (Hfr Hc Hp k v Hm He Hlk). unfold stream in *. simpl. rewrite Ep in Hfr. exact Hfr.
    + destruct (w_cancelled w) eqn:Ec.
      * apply inv_local; [exact HI | reflexivity|]. intros w1 Hw1 [Hwf Hfr].
        rewrite Efind in Hw1. inversion Hw1; subst w1. split.
        -- unfold wf_wb, cancelled_in_replay. simpl. rewrite Ec. destruct fixed; reflexivity.
        -- intros Hc. simpl in Hc. congruence.
      * apply inv_local; [exact HI | reflexivity|]. intros w1 Hw1 [Hwf Hfr].
        rewrite Efind in Hw1. inversion Hw1; subst w1. split.
        -- unfold wf_wb in *. simpl. rewrite Ep in Hwf. exact Hwf.
        -- intros Hc _ k v Hm He Hlk. simpl in *.
           assert (Hp : w_phase w <> WReg) by (rewrite Ep; discriminate).
           specialize (Hfr Hc Hp k v Hm He Hlk). unfold stream in *. simpl. rewrite Ep in Hfr. simpl in Hfr.
           rewrite <- app_assoc. exact Hfr.
  - (* STake *)
    destruct (g_loop g) eqn:El; [|exact HI]. destruct (g_queue g) as [|e q] eqn:Eq; [exact HI|].
    destruct HI as [Hk Hi Hl Hf Hw]. rewrite El, Eq in *.
    constructor; simpl.
    + exact Hk.
    + exact Hi.
    + apply loop_ok_take. exact Hi.
    + intros k v H. apply Hf. simpl. exact (inflight_after _ _ _ _ _ H).
    + rewrite Forall_forall in *. intros w Hin. destruct (Hw w Hin) as [Hwf Hfr]. split; [exact Hwf|].
      intros Hc Hp k v Hm He Hlk. specialize (Hfr Hc Hp k v Hm He Hlk).
      unfold stream in *. rewrite pend_loop_after. simpl in Hfr.
      destruct (existsb (N.eqb (w_id w)) (listeners (ev_key e) (g_ws g))) eqn:Et; [exact Hfr|].
      simpl. rewrite app_assoc. rewrite app_assoc in Hfr.
      rewrite last_for_skip in Hfr; [exact Hfr|].
      destruct (matches (w_filter w) (ev_key e)) eqn:Mk; [|exact (matches_key _ _ _ Hm Mk)].
      exfalso. assert (Hin' : In (w_id w) (listeners (ev_key e) (g_ws g))).
      { unfold listeners. apply in_map. apply filter_In. split; [exact Hin|].
        rewrite (wf_not_cancelled_registered _ _ Hwf Hc), Mk. reflexivity. }
      apply existsb_eqb_in in Hin'. congruence.
  - (* SSend *)
    destruct (g_loop g) as [|e ts] eqn:El; [exact HI|]. destruct ts as [|id rest]; [exact HI|].
    destruct (find_w id (g_ws g)) as [w|] eqn:Efind; [|exact HI].
    destruct (w_phase w) eqn:Ep; try exact HI.
    + (* WMain: handed over *)
      destruct HI as [Hk Hi Hl Hf Hw]. rewrite El in *. constructor; simpl.
      * exact Hk.
      * rewrite ids_upd by reflexivity. exact Hi.
      * apply (loop_ok_after e id rest (g_ws g)); [|exact Hl]. intros i. apply find_upd_some. reflexivity.
      * intros k v H. apply Hf. simpl. exact (inflight_after _ _ _ _ _ H).
      * apply (Forall_upd2 (winv fixed (g_store g) (g_queue g) (LSend e (id :: rest)))); try assumption.
        -- intros w1 Hin Hne [Hwf Hfr]. split; [exact Hwf | exact (fresh_other _ _ _ _ _ _ Hne Hfr)].
        -- intros w1 Hw1 [Hwf Hfr]. rewrite Efind in Hw1. inversion Hw1; subst w1. split.
           ++ unfold wf_wb in *. simpl. rewrite Ep in Hwf. exact Hwf.
           ++ intros Hc _ k v Hm He Hlk. simpl in *.
              assert (Hp : w_phase w <> WReg) by (rewrite Ep; discriminate).
              specialize (Hfr Hc Hp k v Hm He Hlk). unfold stream in *. rewrite pend_loop_after. simpl.
              destruct (find_in _ _ _ Efind) as [_ Hid]. rewrite Hid in *.
              destruct Hl as [_ [Hnd _]]. inversion Hnd as [|? ? Hnin _]; subst.
              destruct (existsb (N.eqb (w_id w)) rest) eqn:Ex; [apply existsb_eqb_in in Ex; contradiction|].
              simpl in Hfr. rewrite Ep, N.eqb_refl in Hfr. simpl in Hfr. exact Hfr.
    + (* WDrained: swallowed *)
      destruct HI as [Hk Hi Hl Hf Hw]. rewrite El in *. constructor; simpl.
      * exact Hk.
      * exact Hi.
      * apply (loop_ok_after e id rest (g_ws g)); [tauto | exact Hl].
      * intros k v H. apply Hf. simpl. exact (inflight_after _ _ _ _ _ H).
      * rewrite Forall_forall in *. intros w1 Hin. destruct (Hw w1 Hin) as [Hwf Hfr]. split; [exact Hwf|].
        destruct (N.eq_dec (w_id w1) id) as [E|E]; [|exact (fresh_other _ _ _ _ _ _ E Hfr)].
        assert (w1 = w).
        { pose proof (find_nodup _ _ Hi Hin) as H1. rewrite E, Efind in H1. congruence. }
        subst w1. intros Hc. unfold wf_wb in Hwf. rewrite Ep in Hwf. congruence.
  - (* SFwd *)
    destruct (find_w id (g_ws g)) as [w|] eqn:Efind; [|exact HI].
    destruct (w_phase w) eqn:Ep; try exact HI.
    apply inv_local; [exact HI | reflexivity|]. intros w1 Hw1 [Hwf Hfr].
    rewrite Efind in Hw1. inversion Hw1; subst w1. split.
    + unfold wf_wb in *. simpl. rewrite Ep in Hwf. exact Hwf.
    + intros Hc _ k v Hm He Hlk. simpl in *.
      assert (Hp : w_phase w <> WReg) by (rewrite Ep; discriminate).
      specialize (Hfr Hc Hp k v Hm He Hlk). unfold stream in *. simpl. rewrite Ep in Hfr. simpl in Hfr.
      rewrite <- app_assoc. exact Hfr.
  - (* SCancel *)
    apply inv_local; [exact HI | reflexivity|]. intros w _ [Hwf Hfr]. split.
    + unfold wf_wb in *. simpl. destruct (w_phase w); try exact Hwf; try reflexivity.
      apply andb_true_iff in Hwf. destruct Hwf as [_ H]. rewrite H. reflexivity.
    + intros Hc. simpl in Hc. discriminate.
  - (* SClose *)
    destruct (find_w id (g_ws g)) as [w|] eqn:Efind; [|exact HI].
    destruct (w_phase w) eqn:Ep; try exact HI.
    destruct (w_cancelled w) eqn:Ec; [|exact HI].
    apply inv_local; [exact HI | reflexivity|]. intros w1 Hw1 [Hwf Hfr].
    rewrite Efind in Hw1. inversion Hw1; subst w1. split.
    + unfold wf_wb. simpl. exact Ec.
    + intros Hc. simpl in Hc. congruence.
  - (* SRegister: a no-op in the real order *)
    destruct (find_w id (g_ws g)) as [w|] eqn:Efind; [|exact HI].
    destruct (find_in _ _ _ Efind) as [Hin _].
    pose proof (inv_ws _ _ HI) as Hw. rewrite Forall_forall in Hw. destruct (Hw w Hin) as [Hwf _].
    unfold wf_wb in Hwf.
    destruct (w_phase w) as [ | | | | | |rp] eqn:Ep; try exact HI.
    + rewrite Hwf. exact HI.
    + discriminate.
Qed.

Lemma inv_run fixed ls : forall g, Inv fixed g -> Inv fixed (wrun fixed false g ls).
Proof.
  induction ls as [|l ls IH]; intros g H; simpl; [exact H|]. apply IH. apply inv_step. exact H.
Qed.

Lemma inv_reachable fixed ls : Inv fixed (wrun fixed false w0 ls).
Proof. apply inv_run. apply inv_w0. Qed.

(* ---------------------------------------------------------------- the property *)
Lemma quiescent_parts g : quiescent g = true ->
  g_queue g = [] /\ g_loop g = LIdle /\ forall w, In w (g_ws g) -> w_cancelled w = false -> w_phase w = WMain.
Proof.
  unfold quiescent. destruct (g_queue g); [|discriminate]. destruct (g_loop g); [|discriminate].
  intro H. repeat split. intros w Hin Hc. rewrite forallb_forall in H. specialize (H w Hin).
  rewrite Hc in H. simpl in H. destruct (w_phase w); try discriminate. reflexivity.
Qed.

(* in a quiescent world a watcher that is not cancelled has, as the last event for every record it is
   entitled to, the current version of that record *)
Lemma inv_latest fixed g : Inv fixed g -> quiescent g = true ->
  forall w, In w (g_ws g) -> w_cancelled w = false ->
  forall k v, In (k, v) (g_store g) -> entitled w g k = true -> last_for k (w_delivered w) = Some v.
Proof.
  intros [Hk Hi Hl Hf Hw] Hq w Hin Hc k v Hkv He.
  destruct (quiescent_parts g Hq) as [Eq [El Hph]].
  rewrite Forall_forall in Hw. destruct (Hw w Hin) as [_ Hfr].
  pose proof (Hph w Hin Hc) as Ep.
  unfold entitled in He. apply andb_true_iff in He. destruct He as [He _].
  apply andb_true_iff in He. destruct He as [Hm Hrs].
  assert (Hp : w_phase w <> WReg) by (rewrite Ep; discriminate).
  assert (Hrs' : w_replay w = true \/ In k (w_since w)).
  { apply orb_true_iff in Hrs. destruct Hrs as [H|H]; [left; exact H | right; apply existsb_eqb_in; exact H]. }
  specialize (Hfr Hc Hp k v Hm Hrs' (lookup_in _ _ _ Hk Hkv)).
  unfold stream in Hfr. rewrite Ep, El, Eq in Hfr. simpl in Hfr. rewrite app_nil_r in Hfr. exact Hfr.
Qed.

Lemma inv_watch_ok fixed g : Inv fixed g -> watch_ok g = true.
Proof.
  intro HI. unfold watch_ok. destruct (quiescent g) eqn:Hq; [|reflexivity]. simpl.
  apply forallb_forall. intros w Hin. destruct (w_cancelled w) eqn:Hc; [reflexivity|]. simpl.
  unfold shown_latest. apply forallb_forall. intros [k v] Hkv. simpl.
  destruct (entitled w g k) eqn:He; [|reflexivity]. simpl.
  rewrite (inv_latest fixed g HI Hq w Hin Hc k v Hkv He). apply N.eqb_refl.
Qed.

(* C15_watch_latest, unbounded: every schedule, of any length, any number of writes and watchers, with or
   without replay, all records or one, repaired or unrepaired cancel path *)
Theorem watch_latest : forall fixed ls, watch_ok (wrun fixed false w0 ls) = true.
Proof. intros fixed ls. apply (inv_watch_ok fixed). apply inv_reachable. Qed.

Theorem watch_latest_explicit : forall fixed ls,
  let g := wrun fixed false w0 ls in
  quiescent g = true ->
  forall w, In w (g_ws g) -> w_cancelled w = false ->
  forall k v, In (k, v) (g_store g) -> entitled w g k = true -> last_for k (w_delivered w) = Some v.
Proof. intros fixed ls. cbv zeta. apply (inv_latest fixed). apply inv_reachable. Qed.

(* at EVERY moment (not only at quiescence) the latest version of an entitled record is either the last thing
   shown for it or still on its way to the watcher: nothing is ever lost between store and consumer *)
Theorem watch_never_loses : forall fixed ls,
  let g := wrun fixed false w0 ls in
  forall w, In w (g_ws g) -> w_cancelled w = false -> w_phase w <> WReg ->
  forall k v, In (k, v) (g_store g) -> entitled w g k = true ->
  last_for k (stream (g_queue g) (g_loop g) w) = Some v.
Proof.
  intros fixed ls. cbv zeta. intros w Hin Hc Hp k v Hkv He.
  destruct (inv_reachable fixed ls) as [Hk Hi Hl Hf Hw].
  rewrite Forall_forall in Hw. destruct (Hw w Hin) as [_ Hfr].
  unfold entitled in He. apply andb_true_iff in He. destruct He as [He _].
  apply andb_true_iff in He. destruct He as [Hm Hrs].
  apply Hfr; try assumption.
  - apply orb_true_iff in Hrs. destruct Hrs as [H|H]; [left; exact H | right; apply existsb_eqb_in; exact H].
  - exact (lookup_in _ _ _ Hk Hkv).
Qed.

(* the hypotheses are not vacuous: a quiescent world with two records, a replaying all-records watcher (which is
   shown the snapshot 1@3, then the older event 1@2 from the loop, then 1@3 again: only the LAST one counts) and a
   live single-record watcher, both served *)
Definition nontrivial_schedule : list label :=
  [SWrite 0; SWrite 1; SOpen 1 None true; SOpen 2 (Some 1) false; SWrite 1; SSnap 1; STake;
   SReplay 1; SReplay 1; SReplay 1; SSend; SFwd 1; STake; SSend; SFwd 1; SSend; SFwd 2; STake; SSend; SFwd 1; SSend; SFwd 2].

Example watch_latest_nontrivial :
  let g := wrun true false w0 nontrivial_schedule in
  quiescent g = true /\
  g_store g = [(0, 1); (1, 3)] /\
  map (fun w => (w_id w, w_cancelled w, w_delivered w)) (g_ws g) =
    [(1, false, [{| ev_key := 0; ev_ver := 1 |}; {| ev_key := 1; ev_ver := 3 |}; {| ev_key := 0; ev_ver := 1 |};
                 {| ev_key := 1; ev_ver := 2 |}; {| ev_key := 1; ev_ver := 3 |}]);
     (2, false, [{| ev_key := 1; ev_ver := 2 |}; {| ev_key := 1; ev_ver := 3 |}])].
Proof. vm_compute. repeat split. Qed.

(* Boolean forms of the hypotheses of commit_store_refines, and a re-creation scenario that satisfies them. *)
From Coq Require Import List NArith Bool String.
Local Open Scope string_scope.
From OC Require Import Base.Bytes Model.Merge Model.CfgStore
     Proofs.MergeProofs Proofs.TextPathProofs Proofs.MergeRefute Proofs.CommitProofs.
Import ListNotations.
Open Scope N_scope.
Open Scope list_scope.

Definition proper_keysb (m : cfgmap) : bool :=
  forallb (fun kv => negb (eqb_str (fst kv) []) && negb (eqb_str (fst kv) [c_slash])) m.
Definition cleanb (M : cfgmap) : bool :=
  forallb (fun pkv => pv_deleted (snd pkv)
                      || forallb (fun tkv => negb (pv_deleted (snd tkv)) || negb (is_path_below (fst pkv) (fst tkv))) M) M.
Definition leaf_okb (M ch : cfgmap) : bool :=
  forallb (fun pkv => pv_deleted (snd pkv)
                      || forallb (fun q => negb (is_path_below q (fst pkv))) (map fst M ++ map fst ch)) M.
Definition fresh_indexb (idx : N) (M ch : cfgmap) : bool :=
  forallb (fun kv => pv_index (snd kv) =? idx) ch && forallb (fun kv => negb (pv_index (snd kv) =? idx)) M.

Lemma proper_keysb_ok m : proper_keysb m = true -> proper_keys m.
Proof.
  unfold proper_keysb, proper_keys, proper. rewrite forallb_forall. intros H k v HI. specialize (H _ HI). cbn in H.
  apply andb_true_iff in H. destruct H as [H1 H2]. apply negb_true_iff in H1, H2.
  apply eqb_str_neq in H1, H2. auto.
Qed.

Lemma live_entry M p : live M p <> None -> exists pv, In (p, pv) M /\ pv_deleted pv = false.
Proof.
  unfold live. destruct (map_get p M) as [pv|] eqn:G; [|congruence]. unfold live_of.
  destruct (pv_deleted pv) eqn:D; [congruence|]. intros _. exists pv. split; [apply map_get_some_in; exact G | exact D].
Qed.

Lemma cleanb_ok M : cleanb M = true -> clean M.
Proof.
  unfold cleanb, clean. rewrite forallb_forall. intros H p t e L HI De.
  destruct (live_entry M p L) as [pv [Hp Dp]]. specialize (H _ Hp). cbn in H. rewrite Dp in H. cbn in H.
  rewrite forallb_forall in H. specialize (H _ HI). cbn in H. rewrite De in H. cbn in H.
  apply negb_true_iff in H. exact H.
Qed.

Lemma leaf_okb_ok M ch : leaf_okb M ch = true -> leaf_ok M ch.
Proof.
  unfold leaf_okb, leaf_ok. rewrite forallb_forall. intros H p q L HQ.
  destruct (live_entry M p L) as [pv [Hp Dp]]. specialize (H _ Hp). cbn in H. rewrite Dp in H. cbn in H.
  rewrite forallb_forall in H. assert (HI : In q (map fst M ++ map fst ch)) by (apply in_or_app; exact HQ).
  specialize (H _ HI). apply negb_true_iff in H. exact H.
Qed.

Lemma fresh_indexb_ok idx M ch : fresh_indexb idx M ch = true -> fresh_index idx M ch.
Proof.
  unfold fresh_indexb, fresh_index. rewrite andb_true_iff, !forallb_forall. intros [H1 H2]. split.
  - intros k c HI. specialize (H1 _ HI). cbn in H1. apply N.eqb_eq in H1. exact H1.
  - intros k e HI. specialize (H2 _ HI). cbn in H2. apply negb_true_iff in H2. apply N.eqb_neq in H2. exact H2.
Qed.

(* stored map after: /a/b=1, /a/c/d=1, /l[k=1]/v=1 ; then delete /a and /l.  The request re-creates values beneath
   both deleted paths, deletes a leaf and writes an unrelated one. *)
Definition exM : cfgmap := cs_map (set_cycle (set_cycle s0 1 [upd "/a/b" "1" 1; upd "/a/c/d" "1" 1; upd "/l[k=1]/v" "1" 1; upd "/x" "1" 1])
                                             2 [del "/a" 2; del "/l" 2]).
Definition exCh : cfgmap := [upd "/a/b" "2" 3; upd "/l[k=2]/v" "2" 3; del "/x" 3; upd "/xy" "2" 3].

Example commit_store_example :
  keys_ok exM /\ nodup exM /\ proper_keys exM /\ clean exM /\ keys_ok exCh /\ nodup exCh /\ proper_keys exCh /\
  no_overlap exCh /\ leaf_ok exM exCh /\ fresh_index 3 exM exCh /\
  map_get (B "/a") exM = Some (mkPV (B "/a") [] true 2) /\
  live (persist_commit exM 3 exCh) (B "/a/b") = Some (B "2") /\
  live (persist_commit exM 3 exCh) (B "/l[k=2]/v") = Some (B "2") /\
  live (persist_commit exM 3 exCh) (B "/a/c/d") = None /\
  live (persist_commit exM 3 exCh) (B "/x") = None.
Proof.
  split; [apply keys_okb_ok; vm_compute; reflexivity|].
  split; [apply nodupb_ok; vm_compute; reflexivity|].
  split; [apply proper_keysb_ok; vm_compute; reflexivity|].
  split; [apply cleanb_ok; vm_compute; reflexivity|].
  split; [apply keys_okb_ok; vm_compute; reflexivity|].
  split; [apply nodupb_ok; vm_compute; reflexivity|].
  split; [apply proper_keysb_ok; vm_compute; reflexivity|].
  split; [apply no_overlapb_ok; vm_compute; reflexivity|].
  split; [apply leaf_okb_ok; vm_compute; reflexivity|].
  split; [apply fresh_indexb_ok; vm_compute; reflexivity|].
  repeat split; vm_compute; reflexivity.
Qed.

(* C04, reachability invariant of the instance, part 5: the environment hypothesis as a BOOLEAN predicate on the label list,
   and the run theorems of Proofs/P2PureReachRun.v stated with it:
     labels_wfb ls := every change of every LChange label is a wf_change (unique proper keys = paths, no update beneath a
                      delete of the same request: finding F-14 excluded), and no updated path of the run lies beneath
                      another updated path of the same target (values live at leaves - what a schema guarantees)
     completes w ls := every reconcile invocation of ls runs to its end
     converged_reach, converged_from_init. *)
From stdpp Require Import gmap.
From RecordUpdate Require Import RecordUpdate.
From Coq Require Import NArith Lia.
From OC Require Import Base.Bytes Model.P2Pure Model.Proto2 Model.P2Inst Proofs.P2Base Proofs.P2Phases Proofs.P2_Cursor Proofs.P2_Converge
     Proofs.P2_ConvergeEx.
From OC Require Import Proofs.P2PureApplyDefs Proofs.P2PureApplyBase Proofs.P2PureApplySem Proofs.P2PureApplySound
     Proofs.P2PureApplyStatus Proofs.P2PureApplyInst Proofs.P2PureReachPure Proofs.P2PureReachInv Proofs.P2PureReachEff
     Proofs.P2PureReachDyn Proofs.P2PureReachRun.
Open Scope N_scope.

Notation wf_changeb := P2PureApplyDefs.wf_change.

Definition change_upds (t : N) (c : cmap) : list (N * str) :=
  map (fun kv => (t, fst kv)) (List.filter (fun kv => negb (pv_deleted (snd kv))) c).
Definition label_upds (l : Label) : list (N * str) :=
  match l with LChange chs _ _ => flat_map (fun tc => change_upds (fst tc) (snd tc)) chs | _ => [] end.
Definition upd_paths (ls : list Label) : list (N * str) := flat_map label_upds ls.
Definition label_wfb (l : Label) : bool :=
  match l with LChange chs _ _ => forallb (fun tc => wf_changeb (snd tc)) chs | _ => true end.
Definition leaf_freeb (ps : list (N * str)) : bool :=
  forallb (fun tp => forallb (fun tq => negb ((fst tp =? fst tq) && is_path_below (snd tp) (snd tq))) ps) ps.
Definition labels_wfb (ls : list Label) : bool := forallb label_wfb ls && leaf_freeb (upd_paths ls).

Definition Lf_of (ls : list Label) (t : N) (p : str) : Prop := In (t, p) (upd_paths ls).

Lemma Lf_of_in ls t p : Lf_of ls t p <->
  exists chs sy se c v, In (LChange chs sy se) ls /\ In (t, c) chs /\ In (p, v) c /\ pv_deleted v = false.
Proof.
  unfold Lf_of, upd_paths. rewrite in_flat_map. split.
  - intros (l & Hl & Hin). destruct l as [chs sy se| | | | | | | |]; try (destruct Hin). cbn in Hin. apply in_flat_map in Hin.
    destruct Hin as ([t' c] & Hc & Hin). cbn [fst snd] in Hin. unfold change_upds in Hin. apply in_map_iff in Hin. destruct Hin as ([k v] & E & Hin).
    cbn in E. injection E as <- <-. apply filter_In in Hin. destruct Hin as [Hin Hlv]. apply negb_true_iff in Hlv.
    exists chs, sy, se, c, v. auto.
  - intros (chs & sy & se & c & v & H1 & H2 & H3 & H4). exists (LChange chs sy se). split; [exact H1|]. cbn. apply in_flat_map.
    exists (t, c). split; [exact H2|]. unfold change_upds. apply in_map_iff. exists (p, v). split; [reflexivity|]. apply filter_In.
    split; [exact H3|]. cbn. rewrite H4. reflexivity.
Qed.

Lemma labels_wfb_change ls chs sy se t c : labels_wfb ls = true -> In (LChange chs sy se) ls -> In (t, c) chs -> WFC c.
Proof.
  unfold labels_wfb. rewrite andb_true_iff, forallb_forall. intros [H _] Hl Hc. specialize (H _ Hl). cbn in H.
  rewrite forallb_forall in H. specialize (H _ Hc). cbn in H. apply wf_change_WFC. exact H.
Qed.

Lemma Lf_of_free ls : labels_wfb ls = true -> forall t p q, Lf_of ls t p -> Lf_of ls t q -> ~ Below p q.
Proof.
  intros Hw t p q Hp Hq Hb. pose proof Hw as Hw'. unfold labels_wfb in Hw'. apply andb_true_iff in Hw'. destruct Hw' as [_ Hf].
  unfold leaf_freeb in Hf. rewrite forallb_forall in Hf. specialize (Hf _ Hp). rewrite forallb_forall in Hf. specialize (Hf _ Hq).
  cbn in Hf. rewrite N.eqb_refl in Hf. cbn in Hf. apply negb_true_iff in Hf.
  apply Lf_of_in in Hq. destruct Hq as (chs & sy & se & c & v & H1 & H2 & H3 & _).
  pose proof (labels_wfb_change ls chs sy se t c Hw H1 H2) as Hc. destruct (proj2 (proj1 Hc) _ _ H3) as [_ Hpr].
  apply (below_spec _ _ Hpr) in Hb. congruence.
Qed.

Lemma labels_ok ls l : labels_wfb ls = true -> In l ls -> label_ok (Lf_of ls) l.
Proof.
  intros Hw Hl. destruct l as [chs sy se| | | | | | | |]; try exact I. intros t c Hc. split.
  - exact (labels_wfb_change ls chs sy se t c Hw Hl Hc).
  - intros k v Hin Hlv. apply Lf_of_in. exists chs, sy, se, c, v. auto.
Qed.

(* every reconcile invocation runs to its end *)
Fixpoint completes (w : Wd) (ls : list Label) : Prop :=
  match ls with [] => True | l :: r => i_complete w l /\ completes (p2_step w l) r end.

Lemma run_good_of Lf (ls : list Label) : forall w, (forall l, In l ls -> label_ok Lf l) -> completes w ls -> run_good Lf w ls.
Proof.
  induction ls as [|l ls IH]; intros w Hl Hc; [exact I|]. destruct Hc as [H1 H2]. split; [apply Hl; left; reflexivity|].
  split; [exact H1|]. apply IH; [intros l' H; apply Hl; right; exact H|exact H2].
Qed.

Lemma run_good_labels (ls : list Label) : labels_wfb ls = true -> completes p2_init ls -> run_good (Lf_of ls) p2_init ls.
Proof. intros Hw Hc. apply run_good_of; [intros l Hl; apply labels_ok; assumption|exact Hc]. Qed.

(* the invariant in every world reached by well-formed labels and complete invocations *)
Theorem reach_inv (ls : list Label) : labels_wfb ls = true -> completes p2_init ls -> Inv (Lf_of ls) (x_run ls).
Proof.
  intros Hw Hc. apply (inv_run (Lf_of ls) (Lf_of_free ls Hw) ls p2_init (inv_init _)). apply run_good_labels; assumption.
Qed.

Theorem reach_wf_step (ls : list Label) t (l : Label) : labels_wfb ls = true -> completes p2_init ls -> wf_step (x_run ls) t l.
Proof. intros Hw Hc. apply (inv_wf_step (Lf_of ls)). apply reach_inv; assumption. Qed.

Theorem converged_reach (ls0 ls : list Label) t (C' : Cfg) :
  labels_wfb (ls0 ++ ls) = true -> completes p2_init (ls0 ++ ls) -> quiet_env t ls -> i_conv (x_run ls0) t ->
  cfgs (x_run (ls0 ++ ls)) !! t = Some C' -> c_state C' = CSynchronized -> c_aterm C' = c_term C' ->
  i_agrees (x_run (ls0 ++ ls)) t.
Proof.
  intros Hw Hc. apply (converged_reach_Lf (Lf_of (ls0 ++ ls)) (Lf_of_free _ Hw)). apply run_good_labels; assumption.
Qed.

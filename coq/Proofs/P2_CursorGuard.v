(* C02, full strength: from the chain invariant (Proofs/P2_CursorChainInv.v) to
     - [commit_guard] in every reachable world: a validated proposal sees Committed.Index = its PrevIndex, or its own
       index already merged; hence "a proposal whose Commit phase is done has been merged", "never sent before merged",
       Applied.Index <= Committed.Index,
     - the same for Applied.Index and a failed apply ([failed_guard]),
     - the sharpened single-step facts: the cursors move from EXACTLY PrevIndex (no "or PrevIndex = 0" alternative). *)
From stdpp Require Import gmap.
From RecordUpdate Require Import RecordUpdate.
From Coq Require Import NArith Lia.
From OC Require Import Model.Proto2 Proofs.P2Base Proofs.P2Phases Proofs.P2_Order Proofs.P2_Cursor Proofs.P2_CursorInv
     Proofs.P2_CursorChain Proofs.P2_CursorLink Proofs.P2_CursorChainInv.
Open Scope N_scope.

Section Guard.
  Context {V Ch Req D : Type}.
  Context (candidate : V -> Ch -> V) (candidate_rb : V -> Ch -> V) (rollback_of : V -> Ch -> Ch)
          (overlay : V -> V -> V) (commit_merge : N -> N -> V -> V -> Ch -> V)
          (payload : N -> V -> Ch -> option Req) (record_applied : N -> N -> V -> V -> V -> Ch -> V)
          (touched : N -> V -> Ch -> V) (restore : V -> V -> V)
          (resync_payload : V -> list (option Req)) (doc_ok : V -> bool)
          (dev_apply : D -> Req -> D) (stamp : N -> Ch -> Ch) (v_empty : V) (d_empty : D) (ch_empty : Ch).

  Notation world := (@world V Ch Req D).
  Notation eff := (@eff V Ch Req).
  Notation txn := (@txn Ch).
  Notation prop := (@prop Ch).
  Notation config := (@config V).
  Notation devev := (@devev Req).
  Notation apply_eff := (@apply_eff V Ch Req D dev_apply d_empty).
  Notation rec_tx := (@rec_tx V Ch Req D stamp).
  Notation rec_prop := (@rec_prop V Ch Req D candidate candidate_rb rollback_of overlay commit_merge payload record_applied
                                  touched restore doc_ok v_empty d_empty ch_empty).
  Notation rec_cfg := (@rec_cfg V Ch Req D overlay restore resync_payload v_empty d_empty).
  Notation rec_master := (@rec_master V Ch Req D overlay restore v_empty).
  Notation rec_conn := (@rec_conn V Ch Req D).
  Notation reconcile := (@reconcile V Ch Req D candidate candidate_rb rollback_of overlay commit_merge payload record_applied
                                    touched restore resync_payload doc_ok stamp v_empty d_empty ch_empty).
  Notation step := (@step V Ch Req D candidate candidate_rb rollback_of overlay commit_merge payload record_applied
                          touched restore resync_payload doc_ok dev_apply stamp v_empty d_empty ch_empty).
  Notation reach := (@reach V Ch Req D candidate candidate_rb rollback_of overlay commit_merge payload record_applied
                            touched restore resync_payload doc_ok dev_apply stamp v_empty d_empty ch_empty).
  Notation view := (@view V overlay).
  Notation aview := (@aview V overlay).
  Notation dev_answer := (@dev_answer V Ch Req D d_empty).
  Notation rb_change := (@rb_change Ch ch_empty).


  Notation cfg_write := (@cfg_write V Ch Req D).
  Notation PO := (proposal_phase_order candidate candidate_rb rollback_of overlay commit_merge payload record_applied touched restore
                          resync_payload doc_ok dev_apply stamp v_empty d_empty ch_empty).
  Notation CI_reach := (C_inv_reach candidate candidate_rb rollback_of overlay commit_merge payload record_applied touched restore
                          resync_payload doc_ok dev_apply stamp v_empty d_empty ch_empty).
  Notation UNIQ := (unique_prev candidate candidate_rb rollback_of overlay commit_merge payload record_applied touched restore
                          resync_payload doc_ok dev_apply stamp v_empty d_empty ch_empty).
  Notation FIRST := (first_below_cursors candidate candidate_rb rollback_of overlay commit_merge payload record_applied touched restore
                          resync_payload doc_ok dev_apply stamp v_empty d_empty ch_empty).
  Notation LINKED := (phase_linked candidate candidate_rb rollback_of overlay commit_merge payload record_applied touched restore
                          resync_payload doc_ok dev_apply stamp v_empty d_empty ch_empty).
  Notation LORD := (links_ordered candidate candidate_rb rollback_of overlay commit_merge payload record_applied touched restore
                          resync_payload doc_ok dev_apply stamp v_empty d_empty ch_empty).
  Notation IPOS := (prop_index_pos candidate candidate_rb rollback_of overlay commit_merge payload record_applied touched restore
                          resync_payload doc_ok dev_apply stamp v_empty d_empty ch_empty).

  Notation PPO := (prop_post_old candidate candidate_rb rollback_of overlay commit_merge payload record_applied touched restore
                          resync_payload doc_ok dev_apply stamp v_empty d_empty ch_empty).
  Notation IDP := (init_done_post candidate candidate_rb rollback_of overlay commit_merge payload record_applied touched restore
                          resync_payload doc_ok dev_apply stamp v_empty d_empty ch_empty).

  Ltac in_cases H :=
    cbn [fst app In] in H;
    repeat match type of H with
           | _ \/ _ => destruct H as [H|H]; [try discriminate H|]
           | False => destruct H
           end.
  Ltac sim_cbn S := apply sim_fields in S; cbn in S; destruct S as (S1 & S2 & S3 & S4 & S5 & S6 & S7 & S8 & S9).

  (* the proposal write that completes a Validate phase successfully, and the one that records a failed apply *)
  Lemma rec_prop_phase_write (o : oracle) (w : world) t i k (P P' : prop) :
    In (EPutProp k P') (fst (rec_prop o w (t, i))) -> props w !! k = Some P ->
    (p_validate P = Some Doing -> p_validate P' = Some Done ->
     k = (t, i) /\ p_apply P = None /\ p_abort P = None /\ p_commit P = None /\
     exists C : config, cfgs w !! t = Some C /\ (p_prev P = 0 \/ c_committed C = p_prev P)) /\
    (p_apply P = Some Doing -> p_apply P' = Some Failed ->
     k = (t, i) /\ exists C : config, cfgs w !! t = Some C /\ c_applied C < i /\ (p_prev P = 0 \/ c_applied C = p_prev P)).
  Proof.
    unfold Proto2.rec_prop, Proto2.vfail, Proto2.upd_status.
    destruct (props w !! (t, i)) as [P0|] eqn:HP0; [|intros []].
    destruct_matches; intros H HPk;
      try (match goal with E : _ = Some ?e |- _ => is_var e;
             repeat match type of E with context [match ?x with _ => _ end] => destruct x eqn:? end;
             try discriminate E; injection E as <- end);
      in_cases H; injection H as <- <-;
      repeat match goal with
             | H1 : props w !! ?kk = Some ?A, H2 : props w !! ?kk = Some ?B |- _ => rewrite H1 in H2; injection H2 as ->
             end;
      (split; intros Hc Hd; cbn in Hd; try congruence); bool_hyps;
      (split; [reflexivity|]); repeat match goal with |- _ /\ _ => split end; try assumption; try congruence;
      eexists; repeat match goal with |- _ /\ _ => split end; try eassumption; try reflexivity; try lia; auto.
  Qed.
  (** * Helper facts about one step *)
  Lemma prev_stable (w : world) l k (P P' : prop) :
    props w !! k = Some P -> p_init P = Some Done -> props (step w l) !! k = Some P' -> p_prev P' = p_prev P.
  Proof.
    intros HP Hd HP'. destruct (PPO _ _ _ _ _ HP HP') as [(He & _)|(t & i & n & o & _ & Hl)]; [exact He|].
    destruct Hl as [(He & _)|[(C & Pi & _ & _ & _ & _ & _ & _ & _ & ->)|(C & Q & _ & _ & Hdo & _)]]; [exact He|reflexivity|congruence].
  Qed.

  (* how the Validate / Apply state of an existing proposal can change in one step *)
  Lemma phase_post (w : world) l t i (P P' : prop) :
    props w !! (t, i) = Some P -> props (step w l) !! (t, i) = Some P' ->
    (p_validate P' = Some Done -> p_validate P = Some Done \/
       (p_validate P = Some Doing /\ p_apply P = None /\ p_abort P = None /\ p_commit P = None /\
        (exists n o, l = LRec (CtlProp (t, i)) n o) /\
        exists C : config, cfgs w !! t = Some C /\ (p_prev P = 0 \/ c_committed C = p_prev P))) /\
    (p_apply P' = Some Failed -> p_apply P = Some Failed \/
       (p_apply P = Some Doing /\ (exists n o, l = LRec (CtlProp (t, i)) n o) /\
        exists C : config, cfgs w !! t = Some C /\ c_applied C < i /\ (p_prev P = 0 \/ c_applied C = p_prev P))).
  Proof.
    intros HP HP'. apply prop_step in HP'. destruct HP' as [H|(ctl & n & o & -> & [H|[H Hn]])]; [| |congruence].
    - rewrite HP in H. injection H as <-. split; intros Hx; left; exact Hx.
    - destruct ctl as [j|[t0 i0]|t0|t0|c0]; cbn [Proto2.reconcile] in H.
      + apply rec_tx_putprop in H. destruct H as (t1 & p & T & [= <- <-] & _ & _ & Hp & Hs). rewrite HP in Hp. injection Hp as <-.
        destruct Hs as [(_ & _ & ->)|[(_ & _ & _ & ->)|[(_ & _ & _ & _ & ->)|(_ & _ & _ & _ & _ & ->)]]]; cbn;
          split; intros Hx; try (left; exact Hx); discriminate Hx.
      + destruct (rec_prop_phase_write _ _ _ _ _ _ _ H HP) as [Hv Ha].
        pose proof H as H1. apply rec_prop_putprop in H1. destruct H1 as (P0 & HP0 & _ & _ & Hu). rewrite HP in HP0. injection HP0 as <-.
        destruct Hu as ([Hve|(Hvd & _)] & _ & _ & [Hae|(Had & _)] & _); split; intros Hx.
        * left. congruence.
        * left. congruence.
        * left. congruence.
        * destruct (p_apply P) as [[]|] eqn:E; try discriminate Had.
          right. destruct (Ha eq_refl Hx) as ([= <- <-] & C & HCf & Hlt & Hg). split; [reflexivity|]. split; [eauto|]. exists C. auto.
        * right. destruct (Hv Hvd Hx) as ([= <- <-] & H1 & H2 & H3 & C & HCf & Hg). repeat split; eauto.
        * left. congruence.
        * right. destruct (Hv Hvd Hx) as ([= <- <-] & H1 & H2 & H3 & C & HCf & Hg). repeat split; eauto.
        * right. destruct (Ha Had Hx) as ([= <- <-] & C & HCf & Hlt & Hg). split; [exact Had|]. split; [eauto|]. exists C. auto.
      + apply rec_cfg_kinds in H. destruct H.
      + apply rec_master_only_putcfg in H. destruct H.
      + apply rec_conn_only_rel in H. destruct H.
  Qed.
  Lemma created_fresh (w : world) l k (P' : prop) :
    props w !! k = None -> props (step w l) !! k = Some P' -> p_validate P' = None /\ p_apply P' = None.
  Proof.
    intros Hn HP'. apply prop_step in HP'. destruct HP' as [H|(ctl & n & o & -> & [H|[H _]])]; [congruence| |].
    - apply reconcile_putprop in H. destruct H as (P & HP & _). congruence.
    - apply reconcile_createprop in H. destruct H as (T & _ & _ & _ & _ & _ & _ & _ & _ & _ & [(c & ->)|(ri & ->)]); split; reflexivity.
  Qed.

  (** * The guards *)
  Record G_inv (w : world) : Prop := {
    (* a validated proposal sees Committed.Index = its PrevIndex, or its own index already merged *)
    g_commit : forall t i (P : prop) (C : config), props w !! (t, i) = Some P -> cfgs w !! t = Some C ->
               p_validate P = Some Done -> c_committed C = p_prev P \/ i <= c_committed C;
    (* a proposal whose apply failed sees Applied.Index = its PrevIndex, or already past it *)
    g_failed : forall t i (P : prop) (C : config), props w !! (t, i) = Some P -> cfgs w !! t = Some C ->
               p_apply P = Some Failed -> c_applied C = p_prev P \/ i <= c_applied C }.

  Lemma G_inv_init : G_inv (@init V Ch Req D).
  Proof. split; cbn; intros; rewrite lookup_empty in *; discriminate. Qed.

  Lemma G_inv_step (w : world) l : reach w -> G_inv w -> G_inv (step w l).
  Proof.
    intros Hr [Hgc Hgf]. pose proof (CI_reach _ Hr) as HCI.
    (* every mover of Applied.Index moves it from exactly its PrevIndex *)
    assert (Hlinked : forall t i (P : prop), props w !! (t, i) = Some P ->
              is_Some (p_validate P) \/ is_Some (p_commit P) \/ is_Some (p_apply P) \/ is_Some (p_abort P) -> p_init P = Some Done).
    { intros t i P HP Hs. eapply LINKED; eassumption. }
    split.
    - intros t i P' C' HP' HC' Hv.
      destruct (props w !! (t, i)) as [P|] eqn:HP.
      2:{ destruct (created_fresh _ _ _ _ HP HP'). congruence. }
      destruct (phase_post _ _ _ _ _ _ HP HP') as [Hpv _]. specialize (Hpv Hv).
      assert (Hd : p_init P = Some Done).
      { apply (Hlinked _ _ _ HP). left. destruct Hpv as [H|(H & _)]; rewrite H; eexists; reflexivity. }
      rewrite (prev_stable _ _ _ _ _ HP Hd HP').
      destruct (ci_reg _ HCI _ _ _ HP Hd) as (C & HCf & _).
      pose proof (IPOS _ _ _ _ Hr HP) as Hipos.
      apply cfg_step in HC'.
      destruct HC' as [(C0 & HC0 & Hrel)|(Hn & _)]; [|congruence]. rewrite HCf in HC0. injection HC0 as <-.
      destruct Hpv as [Hvd|(Hvd & Hap & Hab & Hco & (n0 & o0 & Hl) & C1 & HC1 & Hg)].
      + pose proof (Hgc _ _ _ _ HP HCf Hvd) as HgP.
        destruct Hrel as [S|(ctl & n & o & c0 & -> & Hw & S)]; [sim_cbn S; rewrite <- S3; exact HgP|].
        inversion Hw; subst; sim_cbn S; rewrite <- ?S3; try exact HgP; right.
        all: match goal with HP1 : props _ !! (_, ?i1) = Some ?P1, Hpr : c_committed _ = p_prev ?P1 |- _ <= ?i1 =>
               assert (Hd1 : p_init P1 = Some Done)
                 by (apply (Hlinked _ _ _ HP1); repeat match goal with H : _ = Some _ |- _ => rewrite H end; eauto 6);
               destruct HgP as [He|Hle];
               [ assert (i = i1) by (eapply (UNIQ _ _ i i1 P P1); try eassumption; congruence); lia
               | destruct (LORD _ _ _ _ Hr HP1) as [[Hz|Hlt] _]; lia ] end.
      + rewrite HCf in HC1. injection HC1 as <-.
        assert (Hsame : c_committed C = p_prev P \/ i <= c_committed C).
        { destruct Hg as [Hz|He]; [|left; exact He]. destruct (FIRST _ _ _ _ _ Hr HP HCf Hd Hz) as [[Hc0|Hle] _]; [left; congruence|right; exact Hle]. }
        destruct Hrel as [S|(ctl & n & o & c0 & Hleq & Hw & S)]; [sim_cbn S; rewrite <- S3; exact Hsame|].
        rewrite Hl in Hleq. injection Hleq as <- <- <-.
        inversion Hw; subst; sim_cbn S; rewrite <- ?S3; try exact Hsame; exfalso;
          match goal with HP1 : props _ !! (_, _) = Some _ |- _ => rewrite HP in HP1; injection HP1 as <- end; congruence.
    - intros t i P' C' HP' HC' Hv.
      destruct (props w !! (t, i)) as [P|] eqn:HP.
      2:{ destruct (created_fresh _ _ _ _ HP HP'). congruence. }
      destruct (phase_post _ _ _ _ _ _ HP HP') as [_ Hpa]. specialize (Hpa Hv).
      assert (Hd : p_init P = Some Done).
      { apply (Hlinked _ _ _ HP). right. right. left. destruct Hpa as [H|(H & _)]; rewrite H; eexists; reflexivity. }
      rewrite (prev_stable _ _ _ _ _ HP Hd HP').
      destruct (ci_reg _ HCI _ _ _ HP Hd) as (C & HCf & _).
      pose proof (IPOS _ _ _ _ Hr HP) as Hipos.
      apply cfg_step in HC'.
      destruct HC' as [(C0 & HC0 & Hrel)|(Hn & _)]; [|congruence]. rewrite HCf in HC0. injection HC0 as <-.
      (* every mover of Applied.Index moves it from exactly its PrevIndex *)
      assert (Hmove : forall i1 (P1 : prop), props w !! (t, i1) = Some P1 -> p_init P1 = Some Done -> c_applied C = p_prev P1 ->
                      c_applied C = p_prev P \/ i <= c_applied C -> i <= i1).
      { intros i1 P1 HP1 Hd1 Hpr [He|Hle].
        - assert (i = i1) by (eapply (UNIQ w t i i1 P P1); try eassumption; congruence). lia.
        - destruct (LORD _ _ _ _ Hr HP1) as [[Hz|Hlt] _]; lia. }
      assert (Hfrom : forall i1 (P1 : prop), props w !! (t, i1) = Some P1 -> p_init P1 = Some Done -> c_applied C < i1 ->
                      p_prev P1 = 0 \/ c_applied C = p_prev P1 -> c_applied C = p_prev P1).
      { intros i1 P1 HP1 Hd1 Hlt [Hz|He]; [|exact He]. destruct (FIRST _ _ _ _ _ Hr HP1 HCf Hd1 Hz) as [_ [Ha0|Hle]]; [congruence|lia]. }
      destruct Hpa as [Hvd|(Hvd & (n0 & o0 & Hl) & C1 & HC1 & Hlt & Hg)].
      + pose proof (Hgf _ _ _ _ HP HCf Hvd) as HgP.
        destruct Hrel as [S|(ctl & n & o & c0 & -> & Hw & S)]; [sim_cbn S; rewrite <- S4; exact HgP|].
        inversion Hw; subst; sim_cbn S; rewrite <- ?S4; try exact HgP; right.
        all: match goal with HP1 : props _ !! (_, ?i1) = Some ?P1 |- _ <= ?i1 =>
               assert (Hd1 : p_init P1 = Some Done)
                 by (apply (Hlinked _ _ _ HP1); repeat match goal with H : _ = Some _ |- _ => rewrite H end; eauto 6);
               apply (Hmove i1 P1 HP1 Hd1); [|exact HgP];
               first [ assumption
                     | eapply Hfrom; eassumption
                     | match goal with Hf : p_apply P1 = Some Failed |- _ =>
                         destruct (Hgf _ _ _ _ HP1 HCf Hf) as [He|Hle]; [exact He|lia] end ] end.
      + rewrite HCf in HC1. injection HC1 as <-.
        assert (Hsame : c_applied C = p_prev P \/ i <= c_applied C) by (left; eapply Hfrom; eassumption).
        destruct Hrel as [S|(ctl & n & o & c0 & Hleq & Hw & S)]; [sim_cbn S; rewrite <- S4; exact Hsame|].
        rewrite Hl in Hleq. injection Hleq as <- <- <-.
        inversion Hw; subst; sim_cbn S; rewrite <- ?S4; try exact Hsame; try (right; lia); exfalso;
          match goal with HP1 : props _ !! (_, _) = Some _ |- _ => rewrite HP in HP1; injection HP1 as <- end; congruence.
  Qed.
  Theorem G_inv_reach (w : world) : reach w -> G_inv w.
  Proof.
    apply (reach_ind candidate candidate_rb rollback_of overlay commit_merge payload record_applied touched restore
                     resync_payload doc_ok dev_apply stamp v_empty d_empty ch_empty G_inv).
    - exact G_inv_init.
    - intros w0 l Hr Hi. apply G_inv_step; assumption.
  Qed.

  (** * C02 at full strength *)
  Notation commit_guard := (@commit_guard V Ch Req D).
  Notation commit_merged := (@commit_merged V Ch Req D).
  Notation committed_of := (@committed_of V Ch Req D).
  Notation applied_of := (@applied_of V Ch Req D).

  Theorem commit_guard_reach (w : world) : reach w -> commit_guard w.
  Proof.
    intros Hr t i P C HP HCf Hc _ _. destruct (PO _ _ _ Hr HP) as (_ & O2 & _).
    eapply (g_commit _ (G_inv_reach _ Hr)); [exact HP|exact HCf|]. apply O2. rewrite Hc. eexists; reflexivity.
  Qed.

  (* a proposal whose Commit phase is done has been merged into the stored configuration *)
  Theorem commit_merged_reach (w : world) : reach w -> commit_merged w.
  Proof.
    apply (commit_merged_of_guard candidate candidate_rb rollback_of overlay commit_merge payload record_applied touched restore
             resync_payload doc_ok dev_apply stamp v_empty d_empty ch_empty). exact commit_guard_reach.
  Qed.

  (* the device is never sent a change that has not been merged into the stored configuration *)
  Theorem never_sent_before_merged (w : world) l evs t m term i r a :
    reach w -> devlog (step w l) = devlog w ++ evs -> In (DevSet t m term (Some i) r a) evs ->
    exists (P : prop) (C : config), props w !! (t, i) = Some P /\ cfgs w !! t = Some C /\
      p_commit P = Some Done /\ i <= c_committed C.
  Proof.
    intros Hr. apply (never_sent_before_merged_partial candidate candidate_rb rollback_of overlay commit_merge payload record_applied
                        touched restore resync_payload doc_ok dev_apply stamp v_empty d_empty ch_empty); [exact Hr|].
    apply commit_merged_reach. exact Hr.
  Qed.

  (* Applied.Index <= Committed.Index <= Proposed.Index *)
  Theorem cursors_ordered (w : world) t (C : config) :
    reach w -> cfgs w !! t = Some C -> c_applied C <= c_committed C /\ c_committed C <= c_proposed C.
  Proof.
    intros Hr HCf. split.
    - eapply (applied_le_committed_of_guard candidate candidate_rb rollback_of overlay commit_merge payload record_applied touched restore
                resync_payload doc_ok dev_apply stamp v_empty d_empty ch_empty commit_guard_reach); eassumption.
    - pose proof (CI_reach _ Hr) as HCI. destruct (N.eq_dec (c_committed C) 0) as [->|Hnz]; [lia|].
      destruct (ci_committed _ HCI _ _ HCf Hnz) as (P & HP & Hd). destruct (ci_reg _ HCI _ _ _ HP Hd) as (C0 & HC0 & Hle).
      rewrite HCf in HC0. injection HC0 as <-. exact Hle.
  Qed.

  (* a change is sent when Applied.Index is EXACTLY the PrevIndex of its proposal: every earlier proposal of the target
     has finished applying (applied, failed or aborted) and no later one has started *)
  Theorem sent_from_prev (w : world) l evs t m term i r a :
    reach w -> devlog (step w l) = devlog w ++ evs -> In (DevSet t m term (Some i) r a) evs ->
    exists (P : prop) (C : config), props w !! (t, i) = Some P /\ cfgs w !! t = Some C /\
      p_apply P = Some Doing /\ c_applied C = p_prev P /\ c_applied C < i.
  Proof.
    intros Hr Hd Hin.
    destruct (sent_in_order candidate candidate_rb rollback_of overlay commit_merge payload record_applied touched restore
                resync_payload doc_ok dev_apply stamp v_empty d_empty ch_empty _ _ _ _ _ _ _ _ _ Hd Hin) as (k & o & -> & Hs).
    destruct Hs as (C & P & HCf & HP & _ & _ & _ & _ & _ & Ha & Hlt & Hg & _). exists P, C. repeat split; auto.
    destruct Hg as [Hz|He]; [|exact He].
    assert (Hdn : p_init P = Some Done) by (eapply LINKED; [exact Hr|exact HP|]; right; right; left; rewrite Ha; eexists; reflexivity).
    destruct (FIRST _ _ _ _ _ Hr HP HCf Hdn Hz) as [_ [H0|Hle]]; [congruence|lia].
  Qed.

  (* ANY step from a reachable world moves Applied.Index of a target from exactly the PrevIndex of the moving proposal *)
  Theorem applied_moves_from_prev (w : world) l t :
    reach w -> applied_of (step w l) t <> applied_of w t ->
    exists i k o (P : prop), l = LRec (CtlProp (t, i)) k o /\ props w !! (t, i) = Some P /\
      applied_of (step w l) t = i /\ applied_of w t = p_prev P /\ applied_of w t < i /\
      (p_apply P = Some Doing \/ p_apply P = Some Failed \/ (p_apply P = None /\ p_abort P = Some Doing)).
  Proof.
    intros Hr Hne. pose proof Hne as Hne0.
    apply applied_moves_by_successor in Hne. destruct Hne as (i & k & o & P & -> & HP & Hnew & Hcase).
    exists i, k, o, P. split; [reflexivity|]. split; [exact HP|]. split; [exact Hnew|].
    unfold P2_Cursor.applied_of in *. destruct (cfgs w !! t) as [C|] eqn:HCf.
    2:{ exfalso. assert (Hd : p_init P = Some Done).
        { eapply LINKED; [exact Hr|exact HP|]. destruct Hcase as [(Ha & _)|[(Ha & _)|(_ & Ha & _)]]; rewrite Ha; eauto 6. }
        destruct (ci_reg _ (CI_reach _ Hr) _ _ _ HP Hd) as (C0 & HC0 & _). congruence. }
    assert (Hd : p_init P = Some Done).
    { eapply LINKED; [exact Hr|exact HP|]. destruct Hcase as [(Ha & _)|[(Ha & _)|(_ & Ha & _)]]; rewrite Ha; eauto 6. }
    destruct Hcase as [(Ha & Hlt & Hg)|[(Ha & Hlt)|(Ha & Hab & He)]].
    - split; [|split; [exact Hlt|left; exact Ha]]. destruct Hg as [Hz|He]; [|exact He].
      destruct (FIRST _ _ _ _ _ Hr HP HCf Hd Hz) as [_ [H0|Hle]]; [congruence|lia].
    - split; [|split; [exact Hlt|right; left; exact Ha]].
      destruct (g_failed _ (G_inv_reach _ Hr) _ _ _ _ HP HCf Ha) as [He|Hle]; [exact He|lia].
    - split; [exact He|]. split; [|right; right; auto].
      rewrite He. destruct (LORD _ _ _ _ Hr HP) as [[Hz|Hlt] _]; [|exact Hlt]. rewrite Hz. pose proof (IPOS _ _ _ _ Hr HP). lia.
  Qed.
End Guard.

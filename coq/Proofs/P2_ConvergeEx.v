(* C04 on the executable instance (Model/P2Pure.v, Model/P2Inst.v):
   - the abstraction: abs_dev = the leaves of the device sorted by path, abs_app = the live leaves of an applied-values
     map (not deleted, not beneath a deleted path: P2Pure.live), and the well-formedness predicates under which the
     obligations of Proofs/P2_Converge.v are expected to hold;
   - the obligations evaluated on concrete instances (vm_compute), and the witnesses where they FAIL outside the
     well-formed domain (a change that deletes a path and updates a leaf beneath it; a re-push of applied values
     holding a live value beneath a tombstone of another index, in the other order of the groups);
   - for every implication theorem of Properties/C04.v: its hypotheses are satisfiable on a non-trivial reachable
     world of the instance (three changes, connection loss, device restart, new term). *)
From stdpp Require Import gmap.
From Coq Require Import NArith String Lia.
From OC Require Import Base.Bytes Model.P2Pure Model.Proto2 Model.P2Inst Proofs.P2Base Proofs.P2_Cursor Proofs.P2_Converge.
Open Scope N_scope.

(** * The abstraction *)
Fixpoint ins_kv (x : str * str) (l : list (str * str)) : list (str * str) :=
  match l with [] => [x] | y :: l' => if ltb_str (fst x) (fst y) then x :: l else y :: ins_kv x l' end.
Definition abs_dev_i (d : dstate) : list (str * str) := fold_right ins_kv [] d.
Definition abs_app_i (va : cmap) : list (str * str) := live va.

(* well-formedness: keys unique and equal to the path of their value; no entry beneath (or at) a deleted path of
   another entry *)
Fixpoint nodup_keys (m : cmap) : bool :=
  match m with [] => true | (k, _) :: r => negb (existsb (fun kv => eqb_str k (fst kv)) r) && nodup_keys r end.
Definition wf_applied (m : cmap) : bool :=
  nodup_keys m && forallb (fun kv => eqb_str (fst kv) (pv_path (snd kv))) m &&
  forallb (fun kv => negb (existsb (fun kd => pv_deleted (snd kd) && is_path_below (fst kv) (fst kd)) m)) m.
(* a change does not delete a path and write that path or something beneath it *)
Definition wf_change (ch : cmap) : bool :=
  nodup_keys ch && forallb (fun kv => eqb_str (fst kv) (pv_path (snd kv))) ch &&
  forallb (fun kv => negb (existsb (fun kd => pv_deleted (snd kd) && is_path_below (fst kv) (fst kd)) ch)) ch.

Notation i_apply_sound_at := (apply_sound_at overlay payload record_applied dev_apply nil abs_dev_i abs_app_i).
Notation i_status_sound_at := (status_sound_at overlay restore nil abs_app_i).
Notation i_restore_sound_at := (restore_sound_at overlay restore nil abs_app_i).
Notation i_resync_empty_at := (resync_sound_empty_at resync_payload dev_apply nil abs_dev_i abs_app_i).
Notation i_resync_same_at := (resync_sound_same_at resync_payload dev_apply abs_dev_i abs_app_i).
Notation i_apply_idem_at := (apply_idem_at dev_apply abs_dev_i).

Definition pvl (p v : string) (i : N) : str * pv := (B p, mkPV (B p) (B v) false i).
Definition pvd (p : string) (i : N) : str * pv := (B p, mkPV (B p) [] true i).

(* the re-push requests can always be built *)
Definition rs_of (va : cmap) : list req := map (fun g => to_req (snd g)) (group_by_index (map snd va) []).
Lemma resync_payload_rs va : resync_payload va = map Some (rs_of va).
Proof. unfold resync_payload, rs_of. rewrite map_map. reflexivity. Qed.
Lemma resync_total_inst : resync_total resync_payload.
Proof. intros va. exists (rs_of va). apply resync_payload_rs. Qed.

(** * The obligations on concrete instances *)
(* applied values: /a/b=1 (1), /a/c=2 (1), /x=9 (2); committed view the same; device agreeing *)
Definition va1 : cmap := [pvl "/a/b" "1" 1; pvl "/a/c" "2" 1; pvl "/x" "9" 2].
Definition d1 : dstate := [(B "/x", B "9"); (B "/a/c", B "2"); (B "/a/b", B "1")].
Ltac sound_tac := unfold apply_sound_at; intros _ _; vm_compute; reflexivity.
(* the Go map iteration orders of the recording: ord codes the order of the change values and, divided by the factorial
   of their number, the order of the updated values; 0..5 covers every pair of orders of the examples below (at most
   two change values and two updated values, or one change value and three updated values) *)
Definition ords6 : list N := [0; 1; 2; 3; 4; 5].
Ltac all_ords_tac := repeat (apply List.Forall_cons; [sound_tac|]); apply List.Forall_nil.

(* a delete of the container /a: cascades to both leaves *)
Example apply_sound_delete : exists r, payload 3 va1 [pvd "/a" 3] = Some r /\ abs_dev_i d1 = abs_app_i (overlay [] va1) /\
  wf_applied va1 = true /\ wf_change [pvd "/a" 3] = true /\
  Forall (fun ord => i_apply_sound_at ord 3 [] va1 va1 [pvd "/a" 3] r d1) ords6.
Proof. eexists. split; [vm_compute; reflexivity|]. repeat split; try (vm_compute; reflexivity). all_ords_tac. Qed.
(* an update of a value and a new leaf, the applied values partly inlined in the entry *)
Example apply_sound_update : exists r, payload 3 va1 [pvl "/a/b" "7" 3; pvl "/y" "0" 3] = Some r /\
  Forall (fun ord => i_apply_sound_at ord 3 [pvl "/a/b" "1" 1] va1 va1 [pvl "/a/b" "7" 3; pvl "/y" "0" 3] r d1) ords6.
Proof. eexists. split; [vm_compute; reflexivity|all_ords_tac]. Qed.
(* a value re-created beneath an applied tombstone (the committed view is ahead: it no longer holds the tombstone) *)
Example apply_sound_recreate : exists r, payload 4 [pvl "/a/c" "3" 4] [pvl "/a/c" "3" 4] = Some r /\
  Forall (fun ord => i_apply_sound_at ord 4 [] [pvd "/a" 2; pvl "/x" "9" 1] [pvl "/a/c" "3" 4] [pvl "/a/c" "3" 4] r [(B "/x", B "9")]) ords6.
Proof. eexists. split; [vm_compute; reflexivity|all_ords_tac]. Qed.
(* a delete applied while the committed view is ahead: it no longer holds the child /a/b the applied values hold, and
   holds a child /a/c (of a later change) they do not.  AddDeleteChildren cascades to /a/c only; the tombstone of /a is
   what covers /a/b in the applied values.  Every order of the recording (finding F-23, repaired: before the repair
   applyChangeToConfig dropped the deleted ancestors of EVERY value it set, tombstones included, so recording the
   tombstone of /a/c after the one of /a removed the latter and /a/b stayed live - see [old_function_drops] below). *)
Example apply_sound_lagging_delete : exists r, payload 2 [pvl "/a/c" "3" 3] [pvd "/a" 2] = Some r /\
  wf_change [pvd "/a" 2] = true /\ wf_applied [pvl "/a/b" "1" 1] = true /\ wf_applied [pvl "/a/c" "3" 3] = true /\
  Forall (fun ord => i_apply_sound_at ord 2 [] [pvl "/a/b" "1" 1] [pvl "/a/c" "3" 3] [pvd "/a" 2] r [(B "/a/b", B "1")]) ords6.
Proof. eexists. split; [vm_compute; reflexivity|]. repeat split; try (vm_compute; reflexivity). all_ords_tac. Qed.
(* the function before the repair, on the two recorded tombstones in the order [/a; /a/c] *)
Definition apply_change_to_config_old (m : cmap) (path : str) (v : pv) : cmap :=
  fst (fold_left (fun '(acc, dropped) a =>
               match lookup a acc with
               | Some e => if pv_deleted e then (remove a acc, Some (a, e)) else (acc, dropped)
               | None => (acc, dropped)
               end) (ancestors path) (insert path v m, @None (str * pv))).
Example old_function_drops :
  live (apply_change_to_config_old (apply_change_to_config_old [pvl "/a/b" "1" 1] (B "/a") (snd (pvd "/a" 2))) (B "/a/c") (snd (pvd "/a/c" 2)))
    = [(B "/a/b", B "1")] /\
  live (fst (apply_change_to_config (fst (apply_change_to_config [pvl "/a/b" "1" 1] (B "/a") (snd (pvd "/a" 2)))) (B "/a/c") (snd (pvd "/a/c" 2))))
    = [].
Proof. split; vm_compute; reflexivity. Qed.

(* FAILS outside wf_change: one change deleting /a and setting /a/b.  The request is "delete /a" only (the update is
   pruned as lying beneath the delete, in either order); in half of the Go map orders of the recording (0 and 3 of
   0..3) the recorded applied values say /a/b = 1: the device does not hold what the applied configuration says.  Device-side
   facet of the open finding F-14-C03 (c03_delete_update_overlap). *)
Definition ch_overlap : cmap := [pvd "/a" 2; pvl "/a/b" "1" 2].
Example apply_sound_overlap_refuted :
  wf_change ch_overlap = false /\
  payload 2 [] ch_overlap = Some (mkReq [B "/a"] []) /\ payload 2 [] (rev ch_overlap) = Some (mkReq [B "/a"] []) /\
  abs_dev_i [] = abs_app_i (overlay [] []) /\
  abs_dev_i (dev_apply [] (mkReq [B "/a"] [])) = [] /\
  map (fun ord => abs_app_i (loaded overlay nil (record_applied ord 2 [] (overlay [] []) [] ch_overlap))) [0; 1; 2; 3] =
    [[(B "/a/b", B "1")]; []; []; [(B "/a/b", B "1")]] /\
  ~ i_apply_sound_at 0 2 [] [] [] ch_overlap (mkReq [B "/a"] []) [].
Proof.
  repeat split; try (vm_compute; reflexivity). intros H.
  assert (Hx : abs_dev_i (dev_apply [] (mkReq [B "/a"] [])) =
               abs_app_i (loaded overlay nil (record_applied 0 2 [] (overlay [] []) [] ch_overlap)))
    by (apply H; vm_compute; reflexivity).
  vm_compute in Hx. discriminate Hx.
Qed.

(* status updates *)
Example status_sound_plain : i_status_sound_at ([], va1) /\ i_status_sound_at (va1, va1).
Proof. repeat split; vm_compute; reflexivity. Qed.
Example status_sound_tombstones :
  i_status_sound_at ([], [pvd "/a" 2; pvl "/x" "9" 1]) /\
  i_status_sound_at ([pvl "/a/b" "1" 1; pvl "/x" "9" 1], [pvd "/a" 2; pvl "/x" "9" 1]) /\
  i_status_sound_at ([pvl "/n" "5" 3], [pvd "/a" 2; pvl "/x" "9" 1]).
Proof. repeat split; vm_compute; reflexivity. Qed.

(* re-push: from the empty device and from an agreeing one; groups by index *)
Definition va2 : cmap := [pvl "/a/b" "1" 1; pvd "/c" 3; pvl "/x" "9" 2; pvl "/a/c" "2" 1; pvd "/q/r" 2].
Definition d2 : dstate := [(B "/x", B "9"); (B "/a/c", B "2"); (B "/a/b", B "1")].
Example resync_sound_inst : let rs := rs_of va2 in resync_payload va2 = map Some rs /\ List.length rs = 3%nat /\ wf_applied va2 = true /\
  i_resync_empty_at va2 rs /\ i_resync_same_at va2 rs d2 /\ abs_dev_i d2 = abs_app_i va2 /\
  (* ... and in the reverse order of the groups *)
  abs_dev_i (fold_left dev_apply (rev rs) []) = abs_app_i va2.
Proof.
  cbn zeta. split; [apply resync_payload_rs|]. repeat split; try (vm_compute; reflexivity).
Qed.
(* outside wf_applied (a live value beneath a tombstone of another index: only after an invocation cut between the
   map write and the entry write, see the header of Properties/C04.v) the order of the groups matters *)
Definition va_nonwf : cmap := [pvl "/a/b" "1" 1; pvd "/a" 2].
Example resync_order_matters_nonwf : exists r1 r2, resync_payload va_nonwf = [Some r1; Some r2] /\ wf_applied va_nonwf = false /\
  abs_app_i va_nonwf = [] /\
  abs_dev_i (fold_left dev_apply [r1; r2] []) = [] /\
  abs_dev_i (fold_left dev_apply [r2; r1] []) = [(B "/a/b", B "1")].
Proof. eexists _, _. repeat split; vm_compute; reflexivity. Qed.

(* the same request twice *)
Example apply_idem_inst : i_apply_idem_at d1 (mkReq [B "/a"] [(B "/y", B "0"); (B "/x", B "8")]).
Proof. vm_compute. reflexivity. Qed.

(** * Reachable worlds of the instance on which the hypotheses of the theorems hold *)
Definition x_oracle (a : code) : oracle := mkOracle true true a 0 0.
Definition x_round (o : oracle) (c t : N) (is : list N) : list Label :=
  [LRec (CtlConn c) 9 o; LRec (CtlMaster t) 9 o; LRec (CtlCfg t) 9 o]
  ++ map (fun i => LRec (CtlProp (t, i)) 9 o) is ++ map (fun i => LRec (CtlTx i) 9 o) is.
Fixpoint x_rounds (n : nat) (o : oracle) (c t : N) (is : list N) : list Label :=
  match n with O => [] | S n => x_round o c t is ++ x_rounds n o c t is end.
Definition x_ch (p v : string) : cmap := [(B p, mkPV (B p) (B v) false 0)].
Definition x_del (p : string) : cmap := [(B p, mkPV (B p) [] true 0)].
Definition x_run (ls : list Label) : Wd := fold_left p2_step ls p2_init.
Notation i_reach := (reach candidate candidate_rb rollback_of overlay commit_merge payload record_applied touched restore
                           resync_payload doc_ok dev_apply stamp nil nil nil).
Lemma x_run_reach ls : i_reach (x_run ls).
Proof. exists ls. reflexivity. Qed.

Notation i_agrees := (@agrees cmap cmap req dstate overlay nil _ abs_dev_i abs_app_i).
Notation i_conv := (@conv cmap cmap req dstate overlay nil _ abs_dev_i abs_app_i).
Notation i_sent_by_apply := (@sent_by_apply cmap cmap req dstate overlay payload nil nil).
Notation i_sent_by_resync := (@sent_by_resync cmap cmap req dstate overlay resync_payload nil).
Notation i_dstate_of := (@dstate_of cmap cmap req dstate nil).
Notation i_allowed := (allowed candidate candidate_rb rollback_of overlay commit_merge payload record_applied touched restore
                               resync_payload doc_ok dev_apply stamp nil nil nil abs_dev_i abs_app_i).
Notation i_crun := (crun candidate candidate_rb rollback_of overlay commit_merge payload record_applied touched restore
                         resync_payload doc_ok dev_apply stamp nil nil nil abs_dev_i abs_app_i).
Notation i_ok_reqs := (@ok_reqs cmap cmap req).

(* target 1 (not persistent), connection 10, three changes: /a/b = 1, /c = 2, delete /c *)
Definition l0 : list Label :=
  [LTarget 1 false; LConnUp 10 1; LChange [(1, x_ch "/a/b" "1")] true false; LChange [(1, x_ch "/c" "2")] true false;
   LChange [(1, x_del "/c")] true false].
(* the device does not answer: change 1 stays APPLYING, every guard of the apply is passed *)
Definition w_send : Wd := x_run (l0 ++ x_rounds 30 (x_oracle CUnavailable) 10 1 [1; 2; 3]).
(* everything applied *)
Definition l_applied : list Label := l0 ++ x_rounds 30 (x_oracle COk) 10 1 [1; 2; 3].
Definition w_applied : Wd := x_run l_applied.
(* connection lost, master resigns, a new connection, a new master in term 2 *)
Definition l_newterm : list Label :=
  l_applied ++ [LConnDown 10; LRec (CtlConn 10) 9 (x_oracle COk); LRec (CtlMaster 1) 9 (x_oracle COk);
                LConnUp 11 1; LRec (CtlConn 11) 9 (x_oracle COk); LRec (CtlMaster 1) 9 (x_oracle COk)].
Definition w_newterm : Wd := x_run l_newterm.
(* ... the device restarts empty, the configuration reconciler starts the re-synchronisation *)
Definition w_resync_empty : Wd := x_run (l_newterm ++ [LDevRestart 1; LRec (CtlCfg 1) 9 (x_oracle COk)]).
(* ... the same without a restart *)
Definition w_resync_same : Wd := x_run (l_newterm ++ [LRec (CtlCfg 1) 9 (x_oracle COk)]).

Ltac cfg_tac HC := vm_compute in HC; injection HC as <-.

(* quiet invocations (C04_status_updates_keep_agreement, C04_refused_or_transient_keeps_agreement) *)
Example ex_quiet_hyps :
  i_agrees w_applied 1 /\ (forall C, cfgs w_applied !! 1 = Some C -> i_status_sound_at (pair_of C)) /\
  i_ok_reqs 1 (fst (p2_reconcile (x_oracle CUnavailable) w_applied (CtlMaster 1))) = [] /\
  i_dstate_of w_applied 1 = [(B "/a/b", B "1")].
Proof.
  split; [eexists; split; vm_compute; reflexivity|]. split; [|split; vm_compute; reflexivity].
  intros C HC. cfg_tac HC. repeat split; vm_compute; reflexivity.
Qed.
Example ex_refused_hyps :
  i_agrees w_send 1 /\ (forall C, cfgs w_send !! 1 = Some C -> dev_answer (nil : dstate) w_send 1 (c_term C) (x_oracle CInvalidArgument) <> COk).
Proof.
  split; [eexists; split; vm_compute; reflexivity|]. intros C HC. cfg_tac HC. vm_compute. discriminate.
Qed.

(* a complete apply answered OK (C04_apply_keeps_agreement_partial), the cut and the retry (C04_cut_apply_retry_partial) *)
Example ex_apply_hyps : exists term r,
  i_sent_by_apply w_send (x_oracle COk) 1 1 10 term r COk /\ i_agrees w_send 1 /\
  (forall (C : Cfg) (P : Prop2), cfgs w_send !! 1 = Some C -> props w_send !! (1, 1) = Some P ->
     i_apply_sound_at (o_order (x_oracle COk)) 1 (c_ainline C) (c_avalues C) (view overlay C) (rb_change nil P) r (i_dstate_of w_send 1)) /\
  i_apply_idem_at (i_dstate_of w_send 1) r /\
  dev_answer (nil : dstate) (p2_step w_send (LRec (CtlProp (1, 1)) 1 (x_oracle COk))) 1 term (x_oracle COk) = COk.
Proof.
  eexists _, _. split.
  { eexists _, _. split; [vm_compute; reflexivity|]. split; [vm_compute; reflexivity|]. split; [reflexivity|].
    split; [vm_compute; reflexivity|]. split; [eexists; vm_compute; reflexivity|]. split; [vm_compute; eexists; reflexivity|].
    split; [vm_compute; reflexivity|]. split; [vm_compute; reflexivity|]. split; [vm_compute; reflexivity|].
    split; [left; vm_compute; reflexivity|]. split; [vm_compute; discriminate|]. split; [vm_compute; discriminate|].
    split; [vm_compute; eexists; reflexivity|]. vm_compute. reflexivity. }
  split; [eexists; split; vm_compute; reflexivity|]. split; [|split; vm_compute; reflexivity].
  intros C P HC HP. cfg_tac HC. vm_compute in HP. injection HP as <-.
  unfold apply_sound_at. intros _ _. vm_compute. reflexivity.
Qed.

(* a complete re-push answered OK (C04_resync_establishes_agreement_partial), device empty after a restart *)
Example ex_resync_empty_hyps : exists term r C, let rs := rs_of (aview overlay C) in
  i_sent_by_resync w_resync_empty (x_oracle COk) 1 11 term r COk /\ cfgs w_resync_empty !! 1 = Some C /\
  resync_payload (aview overlay C) = map Some rs /\ List.length rs = 2%nat /\
  i_restore_sound_at (c_ainline C) (c_avalues C) /\ i_resync_empty_at (aview overlay C) rs /\ i_dstate_of w_resync_empty 1 = [].
Proof.
  eexists _, _, _. cbn zeta. split.
  { eexists. split; [vm_compute; reflexivity|]. split; [vm_compute; reflexivity|]. split; [reflexivity|].
    split; [vm_compute; reflexivity|]. split; [eexists; vm_compute; reflexivity|]. split; [vm_compute; eexists; reflexivity|].
    split; [vm_compute; reflexivity|]. split; [vm_compute; reflexivity|]. split; [vm_compute; discriminate|].
    vm_compute. left. reflexivity. }
  split; [vm_compute; reflexivity|]. split; [apply resync_payload_rs|]. split; [vm_compute; reflexivity|].
  split; [vm_compute; reflexivity|]. split; [intros _; vm_compute; reflexivity|vm_compute; reflexivity].
Qed.
(* ... device still agreeing (connection replaced, no restart) *)
Example ex_resync_same_hyps : exists term r C, let rs := rs_of (aview overlay C) in
  i_sent_by_resync w_resync_same (x_oracle COk) 1 11 term r COk /\ cfgs w_resync_same !! 1 = Some C /\
  resync_payload (aview overlay C) = map Some rs /\
  i_restore_sound_at (c_ainline C) (c_avalues C) /\ i_resync_same_at (aview overlay C) rs (i_dstate_of w_resync_same 1) /\
  i_agrees w_resync_same 1.
Proof.
  eexists _, _, _. cbn zeta. split.
  { eexists. split; [vm_compute; reflexivity|]. split; [vm_compute; reflexivity|]. split; [reflexivity|].
    split; [vm_compute; reflexivity|]. split; [eexists; vm_compute; reflexivity|]. split; [vm_compute; eexists; reflexivity|].
    split; [vm_compute; reflexivity|]. split; [vm_compute; reflexivity|]. split; [vm_compute; discriminate|].
    vm_compute. left. reflexivity. }
  split; [vm_compute; reflexivity|]. split; [apply resync_payload_rs|].
  split; [vm_compute; reflexivity|]. split; [intros _ _; vm_compute; reflexivity|eexists; split; vm_compute; reflexivity].
Qed.

(* restart in a new term (C04_restart_breaks_only_until_resync) *)
Example ex_restart_hyps : exists C, cfgs w_newterm !! 1 = Some C /\ targets w_newterm !! 1 <> Some true /\
  c_applied C <> 0 /\ unsynced C /\ i_agrees w_newterm 1.
Proof.
  eexists. split; [vm_compute; reflexivity|]. split; [vm_compute; discriminate|]. split; [vm_compute; discriminate|].
  split; [left; vm_compute; reflexivity|eexists; split; vm_compute; reflexivity].
Qed.

(* the run theorem (C04_converged_partial): from the restarted, not yet synchronised world the complete re-push is an
   allowed step; afterwards the configuration is SYNCHRONIZED in term 2 and the device holds the applied leaves *)
Example ex_converged_hyps :
  i_reach w_resync_empty /\ i_conv w_resync_empty 1 /\
  i_crun 1 w_resync_empty (p2_step w_resync_empty (LRec (CtlCfg 1) 9 (x_oracle COk))) /\
  exists C', cfgs (p2_step w_resync_empty (LRec (CtlCfg 1) 9 (x_oracle COk))) !! 1 = Some C' /\
             c_state C' = CSynchronized /\ c_aterm C' = c_term C' /\ c_term C' = 2 /\
             i_dstate_of (p2_step w_resync_empty (LRec (CtlCfg 1) 9 (x_oracle COk))) 1 = [(B "/a/b", B "1")].
Proof.
  split; [apply x_run_reach|]. split.
  { eexists. split; [vm_compute; reflexivity|]. split; [vm_compute; discriminate|]. split; [vm_compute; discriminate|].
    right. split; [vm_compute; reflexivity|]. right. vm_compute. reflexivity. }
  split.
  { apply crun_step; [apply crun_refl|]. split; [|split; [discriminate|split; [discriminate|]]].
    - cbn [complete]. apply Nat.leb_le. vm_compute. reflexivity.
    - intros C HC. cfg_tac HC. split; [repeat split; vm_compute; reflexivity|].
      intros _. eexists. split; [apply resync_payload_rs|]. split; [intros _|intros _ _]; vm_compute; reflexivity. }
  eexists. split; [vm_compute; reflexivity|]. repeat split; vm_compute; reflexivity.
Qed.

(** * The lagging delete at protocol level (finding F-23, repaired): converges in every order *)
(* /a/b = 1 is applied; the device becomes unreachable; "delete /a" and "/a/c = 3" are committed; the device comes
   back (term 2, re-push of /a/b = 1); the two changes are applied, the loops of reconcileApply in the Go map order
   [ord]; then the connection is replaced once more (term 3, complete re-push).  In every order: all transactions
   APPLIED, configuration SYNCHRONIZED in its term, device = applied values = committed configuration = {/a/c = 3},
   before and after the last re-push.  (Before the repair the order 1 kept /a/b in the applied values and the last
   re-push put it back on the device.) *)
Definition x_oracle_ord (ord : N) : oracle := mkOracle true true COk 0 ord.
Definition l_lag_a : list Label :=
  [LTarget 1 false; LConnUp 10 1; LChange [(1, x_ch "/a/b" "1")] true false] ++ x_rounds 20 (x_oracle COk) 10 1 [1]
  ++ [LConnDown 10; LRec (CtlConn 10) 9 (x_oracle COk); LRec (CtlMaster 1) 9 (x_oracle COk);
      LChange [(1, x_del "/a")] true false; LChange [(1, x_ch "/a/c" "3")] true false]
  ++ x_rounds 30 (x_oracle COk) 10 1 [2; 3].
Definition l_lag_b (o : oracle) : list Label :=
  l_lag_a ++ [LConnUp 11 1] ++ x_rounds 3 (x_oracle COk) 11 1 [] ++ x_rounds 16 o 11 1 [2; 3].
Definition l_lag_c (o : oracle) : list Label :=
  l_lag_b o ++ [LConnDown 11; LRec (CtlConn 11) 9 (x_oracle COk); LRec (CtlMaster 1) 9 (x_oracle COk); LConnUp 12 1]
  ++ x_rounds 4 (x_oracle COk) 12 1 [].
Definition lag_summary (w : Wd) :=
  (map (fun kv => (fst kv, t_state (snd kv))) (w_txs w),
   map (fun kv => (c_applied (snd kv), c_committed (snd kv), c_state (snd kv), c_term (snd kv), c_aterm (snd kv),
                   abs_app_i (aview overlay (snd kv)), abs_app_i (view overlay (snd kv)))) (w_cfgs w),
   map (fun kv => abs_dev_i (d_state (snd kv))) (w_devs w)).
Example lagging_delete_converges :
  Forall (fun ord =>
    lag_summary (x_run (l_lag_b (x_oracle_ord ord))) =
      ([(1, TApplied); (3, TApplied); (2, TApplied)],
       [(3, 3, CSynchronized, 2, 2, [(B "/a/c", B "3")], [(B "/a/c", B "3")])], [[(B "/a/c", B "3")]]) /\
    i_agrees (x_run (l_lag_b (x_oracle_ord ord))) 1 /\
    lag_summary (x_run (l_lag_c (x_oracle_ord ord))) =
      ([(1, TApplied); (3, TApplied); (2, TApplied)],
       [(3, 3, CSynchronized, 3, 3, [(B "/a/c", B "3")], [(B "/a/c", B "3")])], [[(B "/a/c", B "3")]]) /\
    i_agrees (x_run (l_lag_c (x_oracle_ord ord))) 1) ords6.
Proof.
  repeat (apply List.Forall_cons;
          [split; [vm_compute; reflexivity|]; split; [eexists; split; vm_compute; reflexivity|];
           split; [vm_compute; reflexivity|eexists; split; vm_compute; reflexivity]|]).
  apply List.Forall_nil.
Qed.

(* C04, concrete pure layer: resync_sound_empty, resync_sound_same, resync_total for Model/P2Pure.v, ALL values:
   the re-push (one request per transaction index, any order of the values inside a group) brings an empty device, an
   agreeing device, or any device holding only live leaves of the applied values, to exactly the live leaves -
   provided no live value lies beneath a tombstone.  Stdlib only. *)
From Coq Require Import List PeanoNat NArith Bool Lia Permutation Sorted.
From OC Require Import Base.Bytes Model.P2Pure Proofs.P2PureApplyDefs Proofs.P2PureApplyBase Proofs.P2PureApplySem
     Proofs.P2PureApplySound Proofs.P2PureApplyStatus.
Import ListNotations.
Open Scope N_scope.

(** * The groups hold exactly the values *)
Definition in_groups (gs : list (N * list pv)) (v : pv) : Prop := exists g, In g gs /\ In v (snd g).

Lemma group_by_index_spec l : forall acc v, in_groups (group_by_index l acc) v <-> in_groups acc v \/ In v l.
Proof.
  induction l as [|v0 l IH]; intros acc v; cbn [group_by_index]; [cbn; tauto|].
  rewrite IH. cbn [In].
  assert (Hstep : in_groups (if existsb (fun g => fst g =? pv_index v0) acc
                             then map (fun g => if fst g =? pv_index v0 then (fst g, snd g ++ [v0]) else g) acc
                             else acc ++ [(pv_index v0, [v0])]) v <-> in_groups acc v \/ v0 = v); [|tauto].
  destruct (existsb (fun g => fst g =? pv_index v0) acc) eqn:E.
  - split.
    + intros (g' & Hg' & Hv). apply in_map_iff in Hg'. destruct Hg' as (g & <- & Hg).
      destruct (fst g =? pv_index v0); [|left; exists g; auto]. cbn in Hv. apply in_app_iff in Hv.
      destruct Hv as [Hv|[Hv|[]]]; [left; exists g; auto|right; exact Hv].
    + intros [(g & Hg & Hv)| <-].
      * exists (if fst g =? pv_index v0 then (fst g, snd g ++ [v0]) else g). split.
        -- apply in_map_iff. exists g. auto.
        -- destruct (fst g =? pv_index v0); [cbn; apply in_app_iff; auto|exact Hv].
      * apply existsb_exists in E. destruct E as (g & Hg & Hi).
        exists (if fst g =? pv_index v0 then (fst g, snd g ++ [v0]) else g). split.
        -- apply in_map_iff. exists g. auto.
        -- rewrite Hi. cbn. apply in_app_iff. right. left. reflexivity.
  - split.
    + intros (g & Hg & Hv). apply in_app_iff in Hg. destruct Hg as [Hg|[<-|[]]]; [left; exists g; auto|].
      cbn in Hv. destruct Hv as [Hv|[]]. right. exact Hv.
    + intros [(g & Hg & Hv)| <-]; [exists g; split; [apply in_app_iff; auto|exact Hv]|].
      exists (pv_index v0, [v0]). split; [apply in_app_iff; right; left; reflexivity|left; reflexivity].
Qed.

(** * One request of the re-push *)
Lemma upd_fold_keep us : forall d x,
  (In x d \/ In x us) -> (forall u, In u us -> fst u = fst x -> u = x) -> In x (fold_left upd_step us d).
Proof.
  induction us as [|u us IH]; intros d x H Hu; cbn [fold_left]; [destruct H as [H|[]]; exact H|].
  apply IH; [|intros u' Hu' E; apply Hu; [right; exact Hu'|exact E]].
  destruct H as [H|[H|H]].
  - left. apply upd_step_in. destruct (str_eq_dec (fst x) (fst u)) as [E|E]; [right; symmetry; apply Hu; [left; reflexivity|auto]|left; auto].
  - left. apply upd_step_in. right. auto.
  - right. exact H.
Qed.

Section Resync.
  Context (va : cmap) (Hw : WF va) (Hnlb : no_live_below va = true).

  (* the device holds only live leaves of the applied values *)
  Definition within (d : dstate) : Prop := NDd d /\ forall p x, In (p, x) d -> lvp va p x.

  Lemma live_value_lvp v : In v (map snd va) -> pv_deleted v = false -> lvp va (pv_path v) (pv_val v).
  Proof.
    intros Hin Hd. apply (snd_in_lookup _ _ Hw) in Hin. exists v. split; [exact Hin|]. split; [exact Hd|]. split; [reflexivity|].
    apply (nlb_spec _ _ v (proj1 Hw) Hnlb Hin Hd).
  Qed.

  Lemma resync_step g d : (forall v, In v g -> In v (map snd va)) -> within d ->
    within (dev_apply d (to_req g)) /\
    (forall p x, In (p, x) d -> In (p, x) (dev_apply d (to_req g))) /\
    (forall v, In v g -> pv_deleted v = false -> In (pv_path v, pv_val v) (dev_apply d (to_req g))).
  Proof.
    intros Hg [Hnd Hd]. rewrite dev_apply_eq. unfold to_req. cbn [r_del r_upd].
    set (dels := map pv_path (filter pv_deleted g)).
    set (us := map (fun v => (pv_path v, pv_val v)) (filter (fun v => negb (pv_deleted v)) g)).
    assert (Hus : forall u, In u us -> lvp va (fst u) (snd u)).
    { intros u Hu. apply in_map_iff in Hu. destruct Hu as (v & <- & Hv). apply filter_In in Hv. destruct Hv as [Hv Hl].
      apply negb_true_iff in Hl. cbn. apply live_value_lvp; [apply Hg; exact Hv|exact Hl]. }
    assert (Huniq : forall p x, lvp va p x -> forall u, In u us -> fst u = fst (p, x) -> u = (p, x)).
    { intros p x (v & H1 & H2 & H3 & H4) [p' x'] Hu E. cbn in E. subst p'. destruct (Hus _ Hu) as (v' & H1' & _ & H3' & _).
      cbn in H1', H3'. rewrite H1 in H1'. injection H1' as <-. congruence. }
    assert (Hsurv : forall p x, lvp va p x -> In (p, x) d -> In (p, x) (fold_left del_step dels d)).
    { intros p x (v & H1 & H2 & H3 & H4) Hin. apply del_fold_in. split; [exact Hin|]. intros t Ht. cbn.
      apply in_map_iff in Ht. destruct Ht as (e & <- & He). apply filter_In in He. destruct He as [He Hde].
      apply Hg in He. apply (snd_in_lookup _ _ Hw) in He. split.
      - apply eqb_str_neq. intros ->. congruence.
      - destruct (is_path_below p (pv_path e)) eqn:Eb; [|reflexivity].
        rewrite (cov_intro _ _ e p (lookup_in _ _ _ He) Hde Eb) in H4. discriminate. }
    split; [split|split].
    - apply upd_fold_nd. apply del_fold_nd. exact Hnd.
    - intros p x Hin. apply upd_fold_sub in Hin. destruct Hin as [Hin|Hin]; [exact (Hus _ Hin)|].
      apply del_fold_in in Hin. apply Hd. apply Hin.
    - intros p x Hin. apply upd_fold_keep; [left; apply Hsurv; [apply Hd; exact Hin|exact Hin]|].
      apply Huniq. apply Hd. exact Hin.
    - intros v Hv Hl. assert (Hu : In (pv_path v, pv_val v) us).
      { apply in_map_iff. exists v. split; [reflexivity|]. apply filter_In. rewrite Hl. auto. }
      apply upd_fold_keep; [right; exact Hu|]. apply Huniq. apply (Hus _ Hu).
  Qed.

  Lemma resync_fold (gs : list (N * list pv)) : forall d,
    (forall g v, In g gs -> In v (snd g) -> In v (map snd va)) -> within d ->
    within (fold_left dev_apply (map (fun g => to_req (snd g)) gs) d) /\
    (forall p x, In (p, x) d -> In (p, x) (fold_left dev_apply (map (fun g => to_req (snd g)) gs) d)) /\
    (forall v, in_groups gs v -> pv_deleted v = false ->
               In (pv_path v, pv_val v) (fold_left dev_apply (map (fun g => to_req (snd g)) gs) d)).
  Proof.
    induction gs as [|g gs IH]; intros d Hg Hd; cbn [map fold_left].
    - split; [exact Hd|]. split; [auto|]. intros v (g & [] & _).
    - destruct (resync_step (snd g) d (fun v Hv => Hg g v (or_introl eq_refl) Hv) Hd) as (S1 & S2 & S3).
      destruct (IH (dev_apply d (to_req (snd g))) (fun g' v Hg' Hv => Hg g' v (or_intror Hg') Hv) S1) as (I1 & I2 & I3).
      split; [exact I1|]. split; [intros p x Hin; apply I2; apply S2; exact Hin|].
      intros v (g' & [<-|Hg'] & Hv) Hl; [apply I2; apply S3; assumption|apply I3; [exists g'; auto|exact Hl]].
  Qed.

  Theorem resync_within reqs d : resync_payload va = map Some reqs -> within d ->
    abs_dev (fold_left dev_apply reqs d) = abs_app va.
  Proof.
    intros Hr Hd.
    assert (Hreqs : reqs = map (fun g => to_req (snd g)) (group_by_index (map snd va) [])).
    { unfold resync_payload in Hr. rewrite <- (map_map (fun g => to_req (snd g)) Some) in Hr.
      revert Hr. generalize (map (fun g => to_req (snd g)) (group_by_index (map snd va) [])). intros l.
      revert reqs. induction l as [|a l IH]; intros [|b reqs]; cbn; try discriminate; [reflexivity|].
      intros [= <- H]. f_equal. apply IH. exact H. }
    subst reqs.
    assert (Hgs : forall g v, In g (group_by_index (map snd va) []) -> In v (snd g) -> In v (map snd va)).
    { intros g v H1 H2. assert (Hx : in_groups (group_by_index (map snd va) []) v) by (exists g; auto).
      apply group_by_index_spec in Hx. destruct Hx as [(g' & [] & _)|Hx]. exact Hx. }
    destruct (resync_fold _ d Hgs Hd) as ((R1 & R2) & _ & R3).
    unfold abs_app. apply (abs_dev_live _ _ Hw R1). intros p x. split; [apply R2|].
    intros (v & H1 & H2 & H3 & H4). destruct (KO_lookup _ _ _ (proj2 Hw) H1) as [Hp _]. rewrite <- Hp, <- H3.
    apply R3; [|exact H2]. apply group_by_index_spec. right. apply (snd_in_lookup _ _ Hw). rewrite Hp. exact H1.
  Qed.
End Resync.

Theorem resync_sound_empty_P2Pure va reqs :
  wfk va = true -> no_live_below va = true -> resync_payload va = map Some reqs ->
  abs_dev (fold_left dev_apply reqs []) = abs_app va.
Proof.
  rewrite wfk_WF. intros Hw Hn Hr. apply (resync_within va Hw Hn reqs [] Hr). split; [constructor|intros p x []].
Qed.

Theorem resync_sound_same_P2Pure va reqs d :
  wfk va = true -> no_live_below va = true -> resync_payload va = map Some reqs -> abs_dev d = abs_app va ->
  abs_dev (fold_left dev_apply reqs d) = abs_app va.
Proof.
  rewrite wfk_WF. intros Hw Hn Hr Hag. apply (resync_within va Hw Hn reqs d Hr).
  destruct (agree_inv d va Hw Hag) as [H1 H2]. split; [exact H1|]. intros p x Hin. apply H2. exact Hin.
Qed.

Theorem resync_total_P2Pure va : exists rs, resync_payload va = map Some rs.
Proof.
  exists (map (fun g => to_req (snd g)) (group_by_index (map snd va) [])). unfold resync_payload. rewrite map_map. reflexivity.
Qed.

(* Proto3OrderTxA: the transaction-record writes of applyChange / applyRollback preserve the frontier invariant. *)
From Coq Require Import List NArith Bool Arith Lia.
From OC Require Import Model.Proto3 Spec.Tla3 Proofs.Proto3Proofs Proofs.Proto3OrderBase.
Import ListNotations.
Open Scope N_scope.

Ltac tx_sinv HS g t' extra := sinv_by ltac:(split_upd; rwt t') HS g extra.

Ltac tx_hinv HH Hi t' :=
  eapply HInv_tx; [exact HH | exact Hi | rwt t'; try lia; auto | rwt t'; try lia; auto | repeat constructor ].

(* applyChange PENDING -> IN_PROGRESS (Applied.Target already names the transaction) *)
Lemma tx_AC1' g n cm ap h i t t' :
  IA g n cm ap h -> g i = Some t ->
  cc t = 2 -> ca t = 0 -> k_ordinal ap + 1 = t_cord t -> k_target ap = i ->
  flds t' = (t_rb t, t_cc t, InProgress, t_cord t, t_rc t, t_ra t, t_rord t, t_ridx t) ->
  IA (updf g i t') n cm ap (h ++ []).
Proof.
  intros [HS HH] Hi G1 G2 G3 G4 F. getflds F. split; [tx_sinv HS g t' idtac | tx_hinv HH Hi t'].
Qed.

(* applyChange PENDING -> ABORTED (an earlier change failed: Applied.Revision < Rollback.Index), and
   applyRollback's PENDING -> ABORTED of a change that was never applied *)
Lemma tx_abort g n cm ap h i t t' :
  IA g n cm ap h -> g i = Some t ->
  cc t = 2 -> ca t = 0 -> k_ordinal ap + 1 = t_cord t -> k_target ap <> i ->
  (forall j p, g j = Some p -> j = k_index ap /\ k_target ap = k_index ap -> 2 <= ca p) ->
  flds t' = (t_rb t, t_cc t, Aborted, t_cord t, t_rc t, t_ra t, t_rord t, t_ridx t) ->
  IA (updf g i t') n cm ap (h ++ [ev PhChange StApply i Aborted]).
Proof.
  intros [HS HH] Hi G1 G2 G3 G4 Gt F. getflds F.
  split; [tx_sinv HS g t' ltac:(inst_gate Gt g) | tx_hinv HH Hi t'].
Qed.

(* applyChange IN_PROGRESS -> COMPLETE once the applied cursor names the transaction *)
Lemma tx_AC2 g n cm ap h i t t' :
  IA g n cm ap h -> g i = Some t ->
  cc t = 2 -> ca t = 1 -> k_ordinal ap = t_cord t -> k_revision ap = i ->
  flds t' = (t_rb t, t_cc t, Complete, t_cord t, t_rc t, t_ra t, t_rord t, t_ridx t) ->
  IA (updf g i t') n cm ap (h ++ []).
Proof.
  intros [HS HH] Hi G1 G2 G3 G4 F. getflds F. split; [tx_sinv HS g t' idtac | tx_hinv HH Hi t'].
Qed.

(* applyChange IN_PROGRESS -> FAILED (the device refused), applyRollback's IN_PROGRESS -> FAILED of the change *)
Lemma tx_AC3 g n cm ap h i t t' :
  IA g n cm ap h -> g i = Some t ->
  cc t = 2 -> ca t = 1 -> ~ (k_ordinal ap = t_cord t /\ k_revision ap = i) ->
  flds t' = (t_rb t, t_cc t, Failed, t_cord t, t_rc t, t_ra t, t_rord t, t_ridx t) ->
  IA (updf g i t') n cm ap (h ++ [ev PhChange StApply i Failed]).
Proof.
  intros [HS HH] Hi G1 G2 G3 F. getflds F. split; [tx_sinv HS g t' idtac | tx_hinv HH Hi t'].
Qed.

(* applyRollback PENDING -> IN_PROGRESS (Applied.Target already names the rollback index) *)
Lemma tx_AR1' g n cm ap h i t t' :
  IA g n cm ap h -> g i = Some t ->
  rc t = 2 -> ra t = 0 -> k_ordinal ap + 1 = t_rord t -> k_target ap = t_ridx t ->
  flds t' = (t_rb t, t_cc t, t_ca t, t_cord t, t_rc t, Some InProgress, t_rord t, t_ridx t) ->
  IA (updf g i t') n cm ap (h ++ []).
Proof.
  intros [HS HH] Hi G1 G2 G3 G4 F. getflds F. split; [tx_sinv HS g t' idtac | tx_hinv HH Hi t'].
Qed.

(* applyRollback IN_PROGRESS -> COMPLETE / FAILED *)
Lemma tx_AR_done g n cm ap h i t t' s evs :
  IA g n cm ap h -> g i = Some t ->
  ra t = 1 -> st_code s <> 1 -> Forall (fun e => is_complete e = false) evs ->
  flds t' = (t_rb t, t_cc t, t_ca t, t_cord t, t_rc t, Some s, t_rord t, t_ridx t) ->
  IA (updf g i t') n cm ap (h ++ evs).
Proof.
  intros [HS HH] Hi G1 G2 Fe F. getflds F. split; [tx_sinv HS g t' idtac |].
  eapply HInv_tx; [exact HH | exact Hi | rwt t'; try lia; auto | rwt t'; try lia; auto | exact Fe ].
Qed.

Lemma tx_AR2 g n cm ap h i t t' :
  IA g n cm ap h -> g i = Some t -> ra t = 1 ->
  flds t' = (t_rb t, t_cc t, t_ca t, t_cord t, t_rc t, Some Complete, t_rord t, t_ridx t) ->
  IA (updf g i t') n cm ap (h ++ []).
Proof. intros HA Hi G F. eapply tx_AR_done with (s := Complete); eauto. cbn; lia. Qed.

Lemma tx_AR3 g n cm ap h i t t' :
  IA g n cm ap h -> g i = Some t -> ra t = 1 ->
  flds t' = (t_rb t, t_cc t, t_ca t, t_cord t, t_rc t, Some Failed, t_rord t, t_ridx t) ->
  IA (updf g i t') n cm ap (h ++ [ev PhRollback StApply i Failed]).
Proof. intros HA Hi G F. eapply tx_AR_done with (s := Failed); eauto. cbn; lia. Qed.

(* C06 lifted from values to steps and runs of the executable instance (Model/P2Inst.v over Model/P2Pure.v).

   PROVED here
     - rollback_two_commits (world level, two p2_step commit steps): in an invariant world w0 the complete commit step
       of the Change proposal (t, i) with change c on top of its predecessor writes the entry C1; in an invariant world
       w1 whose entry C1' of t holds the same stored map (c_values C1' = c_values C1), the complete commit step of the
       Rollback proposal (t, j) on top of its predecessor, whose recorded rollback values are
       rollback_of (view C) c, writes an entry C2 with  live (view C2) = live (view C)  - under the boolean
       rollback_wf i j (c_values C) (view C) c of Proofs/P2PureRollbackBool.v, for every pair of Go map orders.
     - quiet_keeps_values (run-level frame): over a list of steps none of which is the commit step of a proposal of
       target t on top of its predecessor ([quiet t w ls], stated on the worlds the steps start from), the stored
       map c_values of t does not change.
     - rollback_restores_run (run level): ls = ls1 ++ [lc] ++ ls2 ++ [lr], labels_wfb ls, completes p2_init ls, lc the
       commit step of the Change proposal (t, i), lr the commit step of the Rollback proposal (t, j), ls2 quiet for
       t: the live view of t after lr is the live view of t before lc.
   ASSUMED in the run-level theorem, not derived (each is a statement about the two worlds x_run ls1 and
   x_run (ls1 ++ [lc] ++ ls2), checkable on a dumped run):
     - p_rbvalues R = Some (rollback_of (view C) c): the rollback proposal carries the values recorded on the view
       the change was committed on.  Not derived here from the validation steps of (t, i) and (t, j)
       (C06_change_records_rollback_values, C06_rollback_uses_recorded_values, validated_on_predecessor give the
       single steps; the history argument that the view did not move between validation and commit is missing).
     - rollback_wf i j (c_values C) (view C) c = true: only part of it follows from Inv (unique proper keys, the
       change is a wf_change); olderb / updates_are_leavesb / stampedb are not in the run invariant.
     - quiet t _ ls2: no commit step of a proposal of t between the two commits (a pair change + rollback in between
       would also restore, but that is not this statement). *)
From stdpp Require Import gmap.
From RecordUpdate Require Import RecordUpdate.
From Coq Require Import NArith Lia Permutation.
From OC Require Import Proofs.P2PureRollbackBase Proofs.P2PureRollbackBool Proofs.P2PureRollbackMain.
From OC Require Import Base.Bytes Model.P2Pure Model.Proto2 Model.P2Inst Proofs.P2Base Proofs.P2Phases Proofs.P2_Cursor
     Proofs.P2_Converge Proofs.P2_ConvergeEx Proofs.P2_Order Proofs.P2_OrderStep.
From OC Require Import Proofs.P2PureApplyDefs Proofs.P2PureApplyBase Proofs.P2PureApplySem Proofs.P2PureApplySound
     Proofs.P2PureApplyStatus Proofs.P2PureApplyInst Proofs.P2PureReachPure Proofs.P2PureReachInv Proofs.P2PureReachEff
     Proofs.P2PureReachDyn Proofs.P2PureReachRun Proofs.P2PureReachLabels Proofs.P2PureAtomicCommit Proofs.P2PureAtomicFrame
     Proofs.P2PureAtomicAll.
Open Scope N_scope.

Local Opaque restore record_applied commit_merge touched overlay rollback_of candidate candidate_rb payload resync_payload stamp doc_ok.

Notation i_values_only_by_commit :=
  (values_only_by_commit candidate candidate_rb rollback_of overlay commit_merge payload record_applied touched restore
                         resync_payload doc_ok dev_apply stamp [] [] []).

(** * Two commit steps *)
Section Two.
  Context (Lf : N -> str -> Prop).

  Theorem rollback_two_commits (w0 w1 : Wd) t i j n n' (o o' : oracle) (P R : Prop2) (C C1 C1' C2 : Cfg) c ri :
    Inv Lf w0 -> props w0 !! (t, i) = Some P -> p_details P = PChange c -> cfgs w0 !! t = Some C ->
    p_commit P = Some Doing -> p_apply P = None -> p_abort P = None -> c_committed C = p_prev P -> (2 <= n)%nat ->
    cfgs (p2_step w0 (LRec (CtlProp (t, i)) n o)) !! t = Some C1 ->
    Inv Lf w1 -> cfgs w1 !! t = Some C1' -> c_values C1' = c_values C1 ->
    props w1 !! (t, j) = Some R -> p_details R = PRollback ri ->
    p_rbvalues R = Some (rollback_of (view overlay C) c) ->
    p_commit R = Some Doing -> p_apply R = None -> p_abort R = None -> c_committed C1' = p_prev R -> (2 <= n')%nat ->
    cfgs (p2_step w1 (LRec (CtlProp (t, j)) n' o')) !! t = Some C2 ->
    rollback_wf i j (c_values C) (view overlay C) c = true ->
    live (view overlay C2) = live (view overlay C).
  Proof.
    intros HI0 HP Hdt HC Ec Ea Eb Hcm Hn HC1 HI1 HC1' Ev HR Hdr Hrb Fc Fa Fb Hcm' Hn' HC2 Hwf.
    pose proof (commit_cfg o w0 t i n P C C1 HP HC Ec Ea Eb Hcm Hn HC1) as E1.
    pose proof (commit_cfg o' w1 t j n' R C1' C2 HR HC1' Fc Fa Fb Hcm' Hn' HC2) as E2.
    rewrite (rbc_change P c Hdt) in E1. rewrite (rbc_rollback R ri Hdr), Hrb in E2. cbn [default] in E2.
    assert (Em1 : c_values C1 = commit_merge (o_order o) i (c_values C) (view overlay C) c) by (rewrite E1; reflexivity).
    rewrite Ev, Em1 in E2.
    assert (Ev2 : view overlay C2 =
                  overlay [] (commit_merge (o_order o') j (commit_merge (o_order o) i (c_values C) (view overlay C) c)
                                           (view overlay C1') (rollback_of (view overlay C) c))) by (rewrite E2; reflexivity).
    rewrite Ev2. clear E1 E2 Ev2.
    apply rollback_wf_hyp in Hwf. destruct HI1 as [HS1 HD1].
    destruct (dc_wf Lf w1 HS1 t C1' HC1') as (W1 & _ & W3 & _).
    assert (N1 : nd (view overlay C1')).
    { assert (WF (view overlay C1')) as X by (apply WF_overlay; assumption). exact (proj1 X). }
    assert (S1 : same (view overlay C1') (commit_merge (o_order o) i (c_values C) (view overlay C) c)).
    { intros k. rewrite <- Em1, <- Ev. exact (dc_view_lookup Lf w1 HS1 t C1' HC1' (HD1 t C1' HC1') k). }
    destruct (rollback_second_wf i j (o_order o) (o_order o') (c_values C) (view overlay C) c (view overlay C1') Hwf N1 S1) as (W2 & _).
    apply (rollback_restores i j (o_order o) (o_order o') (c_values C) (view overlay C) c (view overlay C1') _ Hwf N1 S1).
    - apply nd_overlay. constructor.
    - apply overlay_nil_same. apply W2.
  Qed.
End Two.

(** * The frame over the steps between the two commits *)
(* the step [l] from world [w] is the commit step of a proposal of target [t] on top of its predecessor *)
Definition commit_step_of (t : N) (w : Wd) (l : Label) : Prop :=
  exists i n o (P : Prop2) (C : Cfg), l = LRec (CtlProp (t, i)) n o /\ props w !! (t, i) = Some P /\ cfgs w !! t = Some C /\
    p_commit P = Some Doing /\ p_apply P = None /\ p_abort P = None /\ c_committed C = p_prev P.

Fixpoint quiet (t : N) (w : Wd) (ls : list Label) : Prop :=
  match ls with [] => True | l :: r => ~ commit_step_of t w l /\ quiet t (p2_step w l) r end.

Lemma quiet_keeps_values t (ls : list Label) : forall (w : Wd) (C C' : Cfg),
  quiet t w ls -> cfgs w !! t = Some C -> cfgs (fold_left p2_step ls w) !! t = Some C' -> c_values C' = c_values C.
Proof.
  induction ls as [|l ls IH]; intros w C C' Hq HC HC'.
  - cbn in HC'. assert (Some C' = Some C) as X by (rewrite <- HC'; exact HC). injection X as ->. reflexivity.
  - destruct Hq as [Hn Hq]. cbn [fold_left] in HC'. destruct (cfg_step_some w l t C HC) as (Cm & HCm).
    rewrite (IH (p2_step w l) Cm C' Hq HCm HC').
    destruct (cmap_eq_dec (c_values Cm) (c_values C)) as [E|Hne]; [exact E|]. exfalso. apply Hn.
    destruct (i_values_only_by_commit w l t C Cm HC HCm Hne) as (i & n & o & P & H1 & H2 & H3 & H4 & H5 & H6 & _).
    exists i, n, o, P, C. auto 10.
Qed.

(** * Runs *)
Theorem rollback_restores_run (ls1 ls2 : list Label) t i j n n' (o o' : oracle) (P R : Prop2) (C C1' C2 : Cfg) c :
  let lc := LRec (CtlProp (t, i)) n o in
  let lr := LRec (CtlProp (t, j)) n' o' in
  let ls := ls1 ++ [lc] ++ ls2 ++ [lr] in
  labels_wfb ls = true -> completes p2_init ls ->
  (* lc is the commit step of the Change proposal (t, i) *)
  props (x_run ls1) !! (t, i) = Some P -> p_details P = PChange c -> cfgs (x_run ls1) !! t = Some C ->
  p_commit P = Some Doing -> p_apply P = None -> p_abort P = None -> c_committed C = p_prev P ->
  (* no commit of a proposal of t in between *)
  quiet t (x_run (ls1 ++ [lc])) ls2 ->
  (* lr is the commit step of the Rollback proposal (t, j) of (t, i), carrying the recorded values *)
  props (x_run (ls1 ++ [lc] ++ ls2)) !! (t, j) = Some R -> p_details R = PRollback i ->
  cfgs (x_run (ls1 ++ [lc] ++ ls2)) !! t = Some C1' ->
  p_commit R = Some Doing -> p_apply R = None -> p_abort R = None -> c_committed C1' = p_prev R ->
  p_rbvalues R = Some (rollback_of (view overlay C) c) ->
  rollback_wf i j (c_values C) (view overlay C) c = true ->
  cfgs (x_run ls) !! t = Some C2 ->
  live (view overlay C2) = live (view overlay C).
Proof.
  intros lc lr ls Hw Hc HP Hdt HC Ec Ea Eb Hcm Hq HR Hdr HC1' Fc Fa Fb Hcm' Hrb Hwf HC2.
  pose proof (run_good_labels ls Hw Hc) as Hg. set (Lf := Lf_of ls) in *.
  assert (Lf_free : forall t p q, Lf t p -> Lf t q -> ~ Below p q) by (apply Lf_of_free; exact Hw).
  unfold ls in Hg. apply run_good_app in Hg. destruct Hg as [G1 G2]. fold (x_run ls1) in G2.
  pose proof (inv_run Lf Lf_free ls1 p2_init (inv_init Lf) G1) as I0. fold (x_run ls1) in I0.
  change ([lc] ++ ls2 ++ [lr]) with (lc :: ls2 ++ [lr]) in G2. destruct G2 as (Lc1 & Lc2 & G3).
  apply run_good_app in G3. destruct G3 as [G3 G4].
  pose proof (inv_step Lf Lf_free (x_run ls1) lc I0 Lc1 Lc2) as I1.
  pose proof (inv_run Lf Lf_free ls2 _ I1 G3) as I2.
  destruct G4 as (Lr1 & Lr2 & _).
  assert (X1 : x_run (ls1 ++ [lc]) = p2_step (x_run ls1) lc) by (unfold x_run; rewrite fold_left_app; reflexivity).
  assert (X2 : x_run (ls1 ++ [lc] ++ ls2) = fold_left p2_step ls2 (p2_step (x_run ls1) lc)).
  { unfold x_run. rewrite fold_left_app. reflexivity. }
  assert (X3 : x_run ls = p2_step (x_run (ls1 ++ [lc] ++ ls2)) lr).
  { unfold ls, x_run. rewrite !app_assoc. rewrite fold_left_app. cbn [fold_left]. rewrite <- !app_assoc. reflexivity. }
  rewrite X1 in Hq. rewrite X3 in HC2. rewrite <- X2 in I2, Lr2.
  destruct (cfg_step_some (x_run ls1) lc t C HC) as (C1 & HC1).
  assert (Ev : c_values C1' = c_values C1).
  { apply (quiet_keeps_values t ls2 (p2_step (x_run ls1) lc) C1 C1' Hq HC1). rewrite <- X2. exact HC1'. }
  (* completeness of the two commit steps: all three effects were applied *)
  assert (Hn : (2 <= n)%nat).
  { assert (length (fst (p2_reconcile o (x_run ls1) (CtlProp (t, i)))) <= n)%nat as X by exact Lc2.
    rewrite (commit_effects o (x_run ls1) t i P C HP HC Ec Ea Eb Hcm) in X. cbn [length] in X. lia. }
  assert (Hn' : (2 <= n')%nat).
  { assert (length (fst (p2_reconcile o' (x_run (ls1 ++ [lc] ++ ls2)) (CtlProp (t, j)))) <= n')%nat as X by exact Lr2.
    rewrite (commit_effects o' _ t j R C1' HR HC1' Fc Fa Fb Hcm') in X. cbn [length] in X. lia. }
  exact (rollback_two_commits Lf (x_run ls1) (x_run (ls1 ++ [lc] ++ ls2)) t i j n n' o o' P R C C1 C1' C2 c i
           I0 HP Hdt HC Ec Ea Eb Hcm Hn HC1 I2 HC1' Ev HR Hdr Hrb Fc Fa Fb Hcm' Hn' HC2 Hwf).
Qed.

Print Assumptions rollback_restores_run.

(** * The premises that are not derived hold on a concrete run *)
(* Proofs/P2PureReachEx.v good_run 1: label 273 is the commit step of the Change proposal (1, 3), label 406 the commit
   step of the Rollback proposal (1, 4) of (1, 3); rollback_wf holds on the entry the change is committed on, the rollback
   proposal carries rollback_of (view C) c, and the live views before / after are the same (both empty here: the
   change re-creates /a/b/y beneath the deleted /a) *)
From OC Require Import Proofs.P2PureReachEx.
Definition rr_check (k3 k4 : nat) :=
  let ls := good_run 1 in
  let w0 := x_run (firstn k3 ls) in let w1 := x_run (firstn k4 ls) in let w2 := x_run (firstn (S k4) ls) in
  match nth_error ls k3, nth_error ls k4, props w0 !! (1, 3), cfgs w0 !! 1, props w1 !! (1, 4), cfgs w1 !! 1, cfgs w2 !! 1 with
  | Some (LRec (CtlProp (1, 3)) _ _), Some (LRec (CtlProp (1, 4)) _ _), Some P, Some C, Some R, Some C1, Some C2 =>
    match p_details P, p_details R, p_commit P, p_commit R with
    | PChange c, PRollback ri, Some Doing, Some Doing =>
      Some (ri, (c_committed C =? p_prev P) && (c_committed C1 =? p_prev R), rollback_wf 3 4 (c_values C) (view overlay C) c,
            match p_rbvalues R with Some rb => if cmap_eq_dec rb (rollback_of (view overlay C) c) then true else false | None => false end,
            live (view overlay C2), live (view overlay C))
    | _, _, _, _ => None
    end
  | _, _, _, _, _, _, _ => None
  end.
Example rr_premises_on_good_run : rr_check 273 406 = Some (3, true, true, true, [], []).
Proof. vm_compute. reflexivity. Qed.

(* The connection manager (Model/ConnMgr.v) refines the connection labels of the protocol model (Model/Proto2.v):
   what its Watch shows - Added id of target t / Removed id - is a sequence of LConnUp id t / LConnDown id labels,
   every LConnUp with a connection id the world has never seen (so that it takes effect), every LConnDown of a
   connection that is live in the world, and the [conns] component of the world follows the manager's m.conns map,
   whatever other labels (reconciler steps, changes, device restarts ..) are interleaved. *)
From stdpp Require Import gmap.
From RecordUpdate Require Import RecordUpdate.
From Coq Require Import NArith Lia.
From OC Require Import Model.Proto2 Proofs.P2Base.
From OC Require Model.ConnMgr Proofs.ConnMgrProofs.
Module CM := OC.Model.ConnMgr.
Module CP := OC.Proofs.ConnMgrProofs.
Open Scope N_scope.

(** * The manager's side: m.conns is a function of the outputs *)
Fixpoint apply_outs (os : list CM.out) (cs : list (N * N)) : list (N * N) :=
  match os with
  | [] => cs
  | CM.Added _ t id :: r => apply_outs r ((id, t) :: cs)
  | CM.Removed _ _ id :: r => apply_outs r (CM.remove_key id cs)
  | _ :: r => apply_outs r cs
  end.

(** every Added has an id >= n0 that is not in the map, every Removed an id that is *)
Fixpoint outs_ok (n0 : N) (os : list CM.out) (cs : list (N * N)) : Prop :=
  match os with
  | [] => True
  | CM.Added _ t id :: r => n0 <= id /\ CM.lookup id cs = None /\ outs_ok n0 r ((id, t) :: cs)
  | CM.Removed _ t id :: r => CM.lookup id cs = Some t /\ outs_ok n0 r (CM.remove_key id cs)
  | _ :: r => outs_ok n0 r cs
  end.

Lemma apply_outs_app a b cs : apply_outs (a ++ b) cs = apply_outs b (apply_outs a cs).
Proof. revert cs; induction a as [|x a IH]; intros cs; cbn; auto. destruct x; auto. Qed.

Lemma outs_ok_app n0 a b cs : outs_ok n0 a cs -> outs_ok n0 b (apply_outs a cs) -> outs_ok n0 (a ++ b) cs.
Proof.
  revert cs; induction a as [|x a IH]; intros cs Ha Hb; cbn in *; auto.
  destruct x; cbn in *; auto.
  - destruct Ha as (H1 & H2 & H3). auto.
  - destruct Ha as (H1 & H2). auto.
Qed.

Lemma only_connect_apply k o cs : CP.only_connect k o -> apply_outs o cs = cs /\ forall n0, outs_ok n0 o cs.
Proof.
  induction o as [|x o IH]; intros H; cbn; auto.
  rewrite (H x (or_introl eq_refl)). apply IH. intros y Hy. apply H. right; exact Hy.
Qed.

Lemma step_outs fx m e n0 :
  CP.Inv m -> n0 <= CM.m_next m ->
  CM.m_conns (fst (CM.step fx m e)) = apply_outs (snd (CM.step fx m e)) (CM.m_conns m) /\
  outs_ok n0 (snd (CM.step fx m e)) (CM.m_conns m).
Proof.
  intros HI Hn0. destruct e as [t|t|k s]; cbn.
  - destruct (CM.lookup t (CM.m_targets m)); cbn; auto.
  - destruct (CM.lookup t (CM.m_targets m)); cbn; auto.
  - destruct (CP.gor_cases m k) as [Hd|[go [Hk Ha]]].
    + rewrite (CP.sample_dead _ _ _ _ Hd). cbn. auto.
    + destruct (CP.sample_spec fx m k s go HI Hk Ha) as [go' (_ & _ & _ & _ & _ & Hkind)].
      destruct (CM.sample fx m k s) as [m1 o]. cbn in *.
      destruct Hkind as [Hc Hs Hc' Hcs Hn Ho | id tl Hc Hst Hs Hfx Hc' Hcs Hn Ho Htl | Hc' Hcs Hn Ho _ _].
      * subst o. cbn. repeat split; auto.
        destruct (CM.lookup (CM.m_next m) (CM.m_conns m)) eqn:Hl; auto.
        destruct (CP.inv_map _ HI _ _ Hl) as [Hlt _]. lia.
      * subst o. cbn. destruct (only_connect_apply k tl (CM.remove_key id (CM.m_conns m)) Htl) as [-> Hok].
        repeat split; auto. apply (CP.inv_own _ HI _ _ _ Hk Hc).
      * destruct (only_connect_apply k o (CM.m_conns m) Ho) as [-> Hok]. auto.
Qed.

Lemma run_outs fx m es n0 :
  CP.Inv m -> n0 <= CM.m_next m ->
  CM.m_conns (fst (CM.run_from fx m es)) = apply_outs (snd (CM.run_from fx m es)) (CM.m_conns m) /\
  outs_ok n0 (snd (CM.run_from fx m es)) (CM.m_conns m).
Proof.
  revert m; induction es as [|e es IH]; intros m HI Hn0.
  - cbn. auto.
  - rewrite CP.run_from_cons_fst, CP.run_from_cons_snd.
    destruct (step_outs fx m e n0 HI Hn0) as [H1 H2].
    pose proof (CP.step_ids fx m e HI) as [Hmono _].
    destruct (IH (fst (CM.step fx m e)) (CP.step_inv fx m e HI) ltac:(lia)) as [H3 H4].
    rewrite apply_outs_app, <- H1. split; auto. apply outs_ok_app; auto. rewrite <- H1. exact H4.
Qed.

(** * The protocol's side *)
Section Refine.
  Context {V Ch Req D : Type}.
  Context (candidate : V -> Ch -> V) (candidate_rb : V -> Ch -> V) (rollback_of : V -> Ch -> Ch)
          (overlay : V -> V -> V) (commit_merge : N -> N -> V -> V -> Ch -> V)
          (payload : N -> V -> Ch -> option Req) (record_applied : N -> N -> V -> V -> V -> Ch -> V)
          (touched : N -> V -> Ch -> V) (restore : V -> V -> V)
          (resync_payload : V -> list (option Req)) (doc_ok : V -> bool)
          (dev_apply : D -> Req -> D) (stamp : N -> Ch -> Ch) (v_empty : V) (d_empty : D) (ch_empty : Ch).
  Notation world := (@world V Ch Req D).
  Notation label := (@label Ch).
  Notation apply_eff := (@apply_eff V Ch Req D dev_apply d_empty).
  Notation step := (@step V Ch Req D candidate candidate_rb rollback_of overlay commit_merge payload record_applied
                          touched restore resync_payload doc_ok dev_apply stamp v_empty d_empty ch_empty).

  Definition label_of (o : CM.out) : option label :=
    match o with
    | CM.Added _ t id => Some (LConnUp id t)
    | CM.Removed _ _ id => Some (LConnDown id)
    | _ => None
    end.

  (** the Watch trace as protocol labels *)
  Definition labels_of (os : list CM.out) : list label := omap label_of os.

  Definition is_conn_label (l : label) : bool :=
    match l with LConnUp _ _ | LConnDown _ => true | _ => false end.

  (** every LConnUp adds a connection the world does not have, every LConnDown removes one it has *)
  Fixpoint effective (w : world) (ls : list label) : Prop :=
    match ls with
    | [] => True
    | l :: r => match l with
                | LConnUp c t => conns w !! c = None
                | LConnDown c => is_Some (conns w !! c)
                | _ => True
                end /\ effective (step w l) r
    end.

  Lemma conns_fold (es : list (@eff V Ch Req)) (w : world) : conns (fold_left apply_eff es w) = conns w.
  Proof.
    revert w; induction es as [|e es IH]; intros w; cbn; auto. rewrite IH. apply conns_apply_eff.
  Qed.

  Lemma conns_step_other (w : world) (l : label) : is_conn_label l = false -> conns (step w l) = conns w.
  Proof.
    destruct l; cbn; intros H; try discriminate; try reflexivity.
    - apply conns_fold.
    - destruct (rels w !! c); reflexivity.
  Qed.

  (** the world's conns, above n0, are the manager's map; below n0 they are what they were in w0 *)
  Definition follows (n0 : N) (w0 w : world) (cs : list (N * N)) : Prop :=
    forall c, conns w !! c = if n0 <=? c then CM.lookup c cs else conns w0 !! c.

  Lemma labels_of_nil_inv os cs : labels_of os = [] -> apply_outs os cs = cs.
  Proof.
    revert cs; induction os as [|o os IH]; intros cs H; cbn in *; auto.
    destruct o; cbn in H; try discriminate; auto.
  Qed.

  Lemma labels_of_cons_inv os l rest :
    labels_of os = l :: rest ->
    exists pre o os', os = pre ++ o :: os' /\ labels_of pre = [] /\ label_of o = Some l /\ labels_of os' = rest.
  Proof.
    induction os as [|o os IH]; cbn; [discriminate|]. intros H.
    destruct (label_of o) as [l'|] eqn:Ho.
    - inversion H; subst. exists [], o, os. auto.
    - destruct (IH H) as [pre [o' [os' (-> & H1 & H2 & H3)]]].
      exists (o :: pre), o', os'. repeat split; auto. cbn. unfold labels_of in H1. rewrite Ho. exact H1.
  Qed.

  Lemma outs_ok_skip n0 pre r cs : labels_of pre = [] -> outs_ok n0 (pre ++ r) cs -> outs_ok n0 r cs.
  Proof.
    revert cs; induction pre as [|o pre IH]; intros cs H Hok; cbn in *; auto.
    destruct o; cbn in H; try discriminate; cbn in Hok; auto.
  Qed.

  Lemma follows_run n0 w0 :
    forall (ls : list label) (w : world) os cs,
      List.filter is_conn_label ls = labels_of os -> outs_ok n0 os cs ->
      (forall c t, CM.lookup c cs = Some t -> n0 <= c) -> follows n0 w0 w cs ->
      follows n0 w0 (fold_left step ls w) (apply_outs os cs) /\ effective w ls.
  Proof.
    induction ls as [|l ls IH]; intros w os cs Hf Hok Hkeys Hfol.
    - cbn in *. symmetry in Hf. rewrite (labels_of_nil_inv _ _ Hf). auto.
    - cbn [fold_left effective]. destruct (is_conn_label l) eqn:Hl.
      + cbn [List.filter] in Hf. rewrite Hl in Hf. symmetry in Hf.
        destruct (labels_of_cons_inv _ _ _ Hf) as [pre [o [os' (-> & Hpre & Ho & Hrest)]]].
        apply outs_ok_skip in Hok; auto.
        rewrite apply_outs_app, (labels_of_nil_inv _ _ Hpre).
        destruct o as [g t id|g t id| | |]; cbn in Ho; inversion Ho; subst l; clear Ho; cbn in Hok |- *.
        * destruct Hok as (Hn0 & Hnone & Hok').
          assert (Hc : conns w !! id = None).
          { rewrite (Hfol id). destruct (n0 <=? id) eqn:Hle; auto. apply N.leb_gt in Hle. lia. }
          rewrite Hc. destruct (IH (w <| conns := <[id := t]> (conns w) |>) os' ((id, t) :: cs)) as [H1 H2]; auto.
          -- intros c t' Hlk. cbn in Hlk. destruct (id =? c) eqn:He; [apply N.eqb_eq in He; subst; auto|eauto].
          -- intros c. cbn. destruct (decide (c = id)) as [->|Hne].
             ++ rewrite lookup_insert, N.eqb_refl. destruct (n0 <=? id) eqn:Hle; auto. apply N.leb_gt in Hle. lia.
             ++ rewrite lookup_insert_ne by congruence. destruct (id =? c) eqn:He; [apply N.eqb_eq in He; congruence|].
                apply Hfol.
        * destruct Hok as (Hsome & Hok').
          assert (Hn0 : n0 <= id) by eauto.
          assert (Hc : is_Some (conns w !! id)).
          { rewrite (Hfol id). destruct (n0 <=? id) eqn:Hle; [rewrite Hsome; eauto|]. apply N.leb_gt in Hle. lia. }
          destruct (IH (w <| conns := delete id (conns w) |>) os' (CM.remove_key id cs)) as [H1 H2]; auto.
          -- intros c t' Hlk. rewrite CP.lookup_remove_key in Hlk. destruct (c =? id); [discriminate|eauto].
          -- intros c. cbn. rewrite CP.lookup_remove_key. destruct (decide (c = id)) as [->|Hne].
             ++ rewrite lookup_delete, N.eqb_refl. destruct (n0 <=? id) eqn:Hle; auto. apply N.leb_gt in Hle. lia.
             ++ rewrite lookup_delete_ne by congruence. destruct (c =? id) eqn:He; [apply N.eqb_eq in He; congruence|].
                apply Hfol.
      + cbn [List.filter] in Hf. rewrite Hl in Hf.
        destruct (IH (step w l) os cs) as [H1 H2]; auto.
        { intros c. rewrite (conns_step_other w l Hl). apply Hfol. }
        split; auto. split; auto. destruct l; auto; discriminate.
  Qed.

  (** the refinement: the manager started with the first id n0, any event sequence, any interleaving ls of its Watch
      trace with other protocol labels, from any world w0 that knows no connection id >= n0 *)
  Theorem manager_refines_conn_labels fx n0 es (w0 : world) (ls : list label) :
    (forall c, n0 <= c -> conns w0 !! c = None) ->
    List.filter is_conn_label ls = labels_of (snd (CM.run_from fx (CM.init n0) es)) ->
    effective w0 ls /\
    forall c, conns (fold_left step ls w0) !! c =
              if n0 <=? c then CM.get (fst (CM.run_from fx (CM.init n0) es)) c else conns w0 !! c.
  Proof.
    intros Hw0 Hf.
    destruct (run_outs fx (CM.init n0) es n0 (CP.Inv_init n0) ltac:(cbn; lia)) as [Hcs Hok]. cbn in Hcs, Hok.
    destruct (follows_run n0 w0 ls w0 _ [] Hf Hok) as [H1 H2].
    - intros c t H. discriminate.
    - intros c. cbn. destruct (n0 <=? c) eqn:Hle; auto. apply N.leb_le in Hle. auto.
    - split; auto. intros c. rewrite (H1 c). unfold CM.get. rewrite Hcs. reflexivity.
  Qed.
End Refine.

(* C04: the premises of converged_from_init are decidable on concrete label lists and hold on a non-trivial run
   (cascading delete, re-creation beneath the tombstones, rollback, connection loss, re-push in a new term); and the
   "values live at leaves" part of labels_wfb is needed: a run whose requests are each well-formed but that updates a path
   and a path beneath it, then rolls that change back, ends SYNCHRONIZED with a device that does not hold the applied
   values (the rollback values recorded at validation are "delete /a/b + update /a/b/c": the overlap of finding F-14). *)
From stdpp Require Import gmap.
From RecordUpdate Require Import RecordUpdate.
From Coq Require Import NArith Lia.
From OC Require Import Base.Bytes Model.P2Pure Model.Proto2 Model.P2Inst Proofs.P2Base Proofs.P2_Cursor Proofs.P2_Converge Proofs.P2_ConvergeEx.
From OC Require Import Proofs.P2PureApplyDefs Proofs.P2PureApplyInst Proofs.P2PureApplyEx Proofs.P2PureReachRun Proofs.P2PureReachLabels
     Proofs.P2PureReachInit.
Open Scope N_scope.

Fixpoint completesb (w : Wd) (ls : list Label) : bool :=
  match ls with
  | [] => true
  | l :: r => match l with LRec c k o => Nat.leb (length (fst (p2_reconcile o w c))) k | _ => true end && completesb (p2_step w l) r
  end.
Lemma completesb_sound (ls : list Label) : forall w, completesb w ls = true -> completes w ls.
Proof.
  induction ls as [|l ls IH]; intros w H; [exact I|]. cbn [completesb] in H. apply andb_true_iff in H. destruct H as [H1 H2].
  split; [|apply IH; exact H2]. destruct l; try exact I. cbn [complete]. apply Nat.leb_le. exact H1.
Qed.

Definition quietb (t : N) (ls : list Label) : bool :=
  forallb (fun l => match l with LDevRestart t' => negb (t' =? t) | LTarget t' p => negb ((t' =? t) && p) | _ => true end) ls.
Lemma quietb_sound t (ls : list Label) : quietb t ls = true -> quiet_env t ls.
Proof.
  unfold quietb, quiet_env. rewrite forallb_forall, List.Forall_forall. intros H l Hl. specialize (H l Hl).
  split; intros ->; rewrite N.eqb_refl in H; discriminate H.
Qed.

(* all premises, as one boolean *)
Definition run_premises (t : N) (ls : list Label) : bool := labels_wfb ls && completesb p2_init ls && quietb t ls.

Theorem checked_from_init (ls : list Label) t (C' : Cfg) :
  run_premises t ls = true ->
  cfgs (x_run ls) !! t = Some C' -> c_state C' = CSynchronized -> c_aterm C' = c_term C' -> i_agrees (x_run ls) t.
Proof.
  unfold run_premises. intros H. apply andb_true_iff in H. destruct H as [H H3]. apply andb_true_iff in H. destruct H as [H1 H2].
  apply converged_from_init; [exact H1|apply completesb_sound; exact H2|apply quietb_sound; exact H3].
Qed.

(** * a non-trivial run from the initial world *)
(* /a/b/x = 1, /a/c = 2 | delete /a (cascades) | /a/b/y = 3 (re-creation beneath the tombstone of /a) | rollback of that change
   (a delete beneath a delete) | connection lost and replaced: re-push in term 2 *)
Definition good_run (ord : N) : list Label :=
  let o := x_oracle_ord ord in
  [LTarget 1 false; LConnUp 10 1; LChange [(1, x_ch "/a/b/x" "1" ++ x_ch "/a/c" "2")] true false] ++ x_rounds 14 o 10 1 [1]
  ++ [LChange [(1, x_del "/a")] true false] ++ x_rounds 12 o 10 1 [1; 2]
  ++ [LChange [(1, x_ch "/a/b/y" "3")] true false] ++ x_rounds 12 o 10 1 [1; 2; 3]
  ++ [LRollback 3] ++ x_rounds 20 o 10 1 [1; 2; 3; 4]
  ++ [LConnDown 10; LRec (CtlConn 10) 9 (x_oracle COk); LRec (CtlMaster 1) 9 (x_oracle COk); LConnUp 11 1]
  ++ x_rounds 4 (x_oracle COk) 11 1 [].

Example good_run_premises : Forall (fun ord => run_premises 1 (good_run ord) = true) [0; 1; 2; 5].
Proof. repeat (apply List.Forall_cons; [vm_compute; reflexivity|]). apply List.Forall_nil. Qed.

Example good_run_end :
  lag_summary (x_run (good_run 1)) =
    ([(1, TApplied); (3, TApplied); (2, TApplied); (4, TApplied)], [(4, 4, CSynchronized, 2, 2, [], [])], [[]]).
Proof. vm_compute. reflexivity. Qed.

Example good_run_agrees_from_init : i_agrees (x_run (good_run 1)) 1.
Proof.
  eapply (checked_from_init (good_run 1) 1).
  - vm_compute. reflexivity.
  - vm_compute. reflexivity.
  - vm_compute. reflexivity.
  - vm_compute. reflexivity.
Qed.

(** * values must live at leaves: the witness *)
(* /a/b/c = 5 | /a/b = 1 and /a/b/c = 2 in one request (well-formed: two updates) | rollback of that request.
   The rollback values recorded at validation: a tombstone for /a/b (it did not exist) and /a/b/c = 5. *)
Definition leaf_run (ord : N) : list Label :=
  [LTarget 1 false; LConnUp 10 1; LChange [(1, x_ch "/a/b/c" "5")] true false] ++ x_rounds 12 (x_oracle_ord ord) 10 1 [1]
  ++ [LChange [(1, x_ch "/a/b" "1" ++ x_ch "/a/b/c" "2")] true false] ++ x_rounds 12 (x_oracle_ord ord) 10 1 [1; 2]
  ++ [LRollback 2] ++ x_rounds 20 (x_oracle_ord ord) 10 1 [1; 2; 3].

Example leaf_hypothesis_needed :
  (* every request is a well-formed change, every invocation is complete, no restart - only the leaf condition fails *)
  forallb label_wfb (leaf_run 0) = true /\ completesb p2_init (leaf_run 0) = true /\ quietb 1 (leaf_run 0) = true /\
  labels_wfb (leaf_run 0) = false /\
  (* the rollback values of proposal (1, 2) are not a well-formed change *)
  (match props (x_run (leaf_run 0)) !! (1, 2) with
   | Some P => option_map (fun rb => (map (fun kv => (fst kv, pv_val (snd kv), pv_deleted (snd kv), pv_index (snd kv))) rb, wf_changeb rb)) (p_rbvalues P)
   | None => None
   end) = Some ([(B "/a/b", [], true, 0); (B "/a/b/c", B "5", false, 1)], false) /\
  (* all transactions APPLIED, SYNCHRONIZED in the current term: the applied values say /a/b = 1, /a/b/c = 5, the device is empty *)
  lag_summary (x_run (leaf_run 0)) =
    ([(1, TApplied); (3, TApplied); (2, TApplied)],
     [(3, 3, CSynchronized, 1, 1, [(B "/a/b", B "1"); (B "/a/b/c", B "5")], [])], [[]]) /\
  ~ i_agrees (x_run (leaf_run 0)) 1.
Proof.
  repeat (split; [vm_compute; reflexivity|]). intros (C & HC & Ha). vm_compute in HC. injection HC as <-. vm_compute in Ha. discriminate Ha.
Qed.

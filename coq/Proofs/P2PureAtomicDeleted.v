(* C01, value level, on the executable instance: deletions persist.
     - commit_adds_only_change (pure, every Go-map order): every live leaf (k, x) of the map stored by [commit_merge]
       was a live leaf of the loaded view, or k is the path of a non-deleted value of the change whose value is x;
     - commit_adds (world): the same for the complete commit step of a proposal (Change or Rollback; the values
       merged are [rb_change [] P]);
     - run_deleted_persists: along a run of well-formed labels and complete invocations, a path d of target t with
       nothing live at or beneath it stays that way unless a later commit step of a proposal of t merges values that
       hold a non-deleted value at d or beneath d ([created_in]: that step is exhibited as a position of the run);
     - deleted_persists_run / deleted_path_stays_deleted_run: the same on runs from the initial world, the second
       one starting from the commit of a change that deletes d. *)
From stdpp Require Import gmap.
From RecordUpdate Require Import RecordUpdate.
From Coq Require Import NArith Lia Permutation.
From OC Require Import Base.Bytes Model.P2Pure Model.Proto2 Model.P2Inst Proofs.P2Base Proofs.P2Phases Proofs.P2_Cursor
     Proofs.P2_Converge Proofs.P2_ConvergeEx Proofs.P2_Order Proofs.P2_OrderStep.
From OC Require Import Proofs.P2PureApplyDefs Proofs.P2PureApplyBase Proofs.P2PureApplySem Proofs.P2PureApplySound
     Proofs.P2PureApplyStatus Proofs.P2PureApplyInst Proofs.P2PureReachPure Proofs.P2PureReachInv Proofs.P2PureReachEff
     Proofs.P2PureReachDyn Proofs.P2PureReachRun Proofs.P2PureReachLabels Proofs.P2PureAtomicCommit Proofs.P2PureAtomicFrame
     Proofs.P2PureAtomicAll.
Open Scope N_scope.

(** * Pure part: what a commit can add to the live view *)
Section CommitAdds.
  Context (ord i : N) (m vw ch : cmap).
  Context (Hm : WF m) (Hvw : WF vw) (Hsub : forall k e, plookup k m = Some e -> plookup k vw = Some e)
          (Hnlb : no_live_below vw = true) (Hch : WFC ch) (Hic : idx_compat m ch = true).

  (* a live leaf of the marked view is a live leaf of the view *)
  Lemma mark_lvp c k x : lvp (markmap i c vw) k x -> lvp vw k x.
  Proof.
    intros (v' & L1 & L2 & L3 & L4). rewrite markmap_lookup in L1.
    destruct (plookup k vw) as [e|] eqn:Ee; cbn in L1; [|discriminate]. injection L1 as <-.
    unfold markif in L2, L3. destruct (hitb c e) eqn:Eh; [cbn in L2; discriminate|].
    exists e. split; [exact Ee|]. split; [exact L2|]. split; [exact L3|].
    destruct (covered vw k) eqn:Ec; [|reflexivity]. exfalso. apply covered_spec in Ec. destruct Ec as (t & e' & Ht & Hde & Hb).
    rewrite (cov_intro (markmap i c vw) t (markif i c e') k) in L4; [discriminate| | |exact Hb].
    - apply markmap_in. exists e'. auto.
    - unfold markif. destruct (hitb c e'); [reflexivity|exact Hde].
  Qed.

  Theorem commit_adds_only_change k x :
    In (k, x) (live (overlay [] (commit_merge ord i m vw ch))) ->
    In (k, x) (live vw) \/ exists v, In (k, v) ch /\ pv_deleted v = false /\ pv_val v = x.
  Proof.
    intros Hl. apply (live_in _ _ _ (cs_WF ord i m vw ch Hm Hvw Hch)) in Hl.
    apply (cs_lvp ord i m vw ch Hm Hvw Hsub Hnlb Hch Hic) in Hl.
    apply (dev_side_sound i _ vw ch _ _ _ (cs_st_WF ord i vw ch Hvw) (cm_st_nlb ord i vw ch Hvw Hnlb Hch) Hch
                          (cs_spec ord i vw ch Hch) (cs_spec ord i vw ch Hch) (cs_perm ord i vw ch)) in Hl.
    destruct Hl as [(v & H1 & H2 & H3 & _)|(Hva & _ & _)].
    - right. exists v. split; [|auto]. exact (upd_live _ _ _ _ _ _ (cs_spec ord i vw ch Hch) H1 H2).
    - left. apply (live_in _ _ _ Hvw). exact (mark_lvp _ k x Hva).
  Qed.
End CommitAdds.

(** * Decidability of "the values hold a non-deleted value at d or beneath d" *)
Lemma Below_dec (p a : str) : Below p a \/ ~ Below p a.
Proof.
  revert p. induction a as [|y a IH]; intros p.
  - destruct p as [|c r]; [right; intros (c & r & _ & E); discriminate E|].
    destruct (bnd c) eqn:Eb; [left; exists c, r; auto|right]. intros (c' & r' & Hb & E). cbn in E. injection E as -> ->. congruence.
  - destruct p as [|z p]; [right; intros (c & r & _ & E); discriminate E|].
    destruct (N.eq_dec z y) as [->|Hne]; [|right; intros (c & r & _ & E); cbn in E; injection E as E _; contradiction].
    destruct (IH p) as [(c & r & Hb & ->)|Hn]; [left; exists c, r; auto|right].
    intros (c & r & Hb & E). cbn in E. injection E as ->. apply Hn. exists c, r. auto.
Qed.

(* the values [ch] hold a non-deleted value at [d] or beneath [d] *)
Definition creates (ch : cmap) (d : str) : Prop :=
  exists k v, In (k, v) ch /\ pv_deleted v = false /\ (k = d \/ Below k d).

Lemma creates_dec (ch : cmap) (d : str) : creates ch d \/ ~ creates ch d.
Proof.
  induction ch as [|[k v] ch IH]; [right; intros (k & v & [] & _)|].
  destruct IH as [(k' & v' & H1 & H2)|Hn]; [left; exists k', v'; split; [right; exact H1|exact H2]|].
  assert (Hhere : (pv_deleted v = false /\ (k = d \/ Below k d)) \/ ~ (pv_deleted v = false /\ (k = d \/ Below k d))).
  { destruct (pv_deleted v); [right; intros [E _]; discriminate E|].
    destruct (str_eq_dec k d) as [E|Hne]; [left; auto|]. destruct (Below_dec k d) as [Hb|Hnb]; [left; auto|].
    right. intros [_ [E|Hb]]; contradiction. }
  destruct Hhere as [Hh|Hnh]; [left; exists k, v; split; [left; reflexivity|exact Hh]|].
  right. intros (k' & v' & [E|Hin] & H2); [injection E as <- <-; contradiction|]. apply Hn. exists k', v'. auto.
Qed.

(** * World part *)
Local Opaque restore record_applied commit_merge touched overlay rollback_of candidate candidate_rb payload resync_payload stamp doc_ok.

Section World.
  Context (Lf : N -> str -> Prop) (Lf_free : forall t p q, Lf t p -> Lf t q -> ~ Below p q).

  (* what the complete commit step of a proposal can add to the live view of its target *)
  Theorem commit_adds (w : Wd) t i n (o : oracle) (P : Prop2) (C C' : Cfg) :
    Inv Lf w -> props w !! (t, i) = Some P -> cfgs w !! t = Some C ->
    p_commit P = Some Doing -> p_apply P = None -> p_abort P = None -> c_committed C = p_prev P -> (2 <= n)%nat ->
    cfgs (p2_step w (LRec (CtlProp (t, i)) n o)) !! t = Some C' ->
    forall k x, In (k, x) (live (view overlay C')) ->
      In (k, x) (live (view overlay C)) \/ exists v, In (k, v) (rb_change [] P) /\ pv_deleted v = false /\ pv_val v = x.
  Proof.
    intros [HS HD] HP HC Ec Ea Eb Hcm Hn HC' k x.
    rewrite (commit_cfg o w t i n P C C' HP HC Ec Ea Eb Hcm Hn HC').
    unfold view at 1. cbn [c_inline c_values set].
    pose proof (HD t C HC) as Hd. destruct (dc_wf Lf w HS t C HC) as (H1 & H2 & H3 & H4).
    destruct (rb_change_ok Lf w t i P HS HP) as [R1 R2].
    assert (Hvw : WF (Proto2.view overlay C)) by (apply WF_overlay; assumption).
    assert (Hsub : forall k e, plookup k (c_values C) = Some e -> plookup k (Proto2.view overlay C) = Some e).
    { intros k0 e H. rewrite (dc_view_lookup Lf w HS t C HC Hd). exact H. }
    pose proof (dc_view_nlb Lf w HS t C HC Hd) as Hnlb.
    assert (Hic : idx_compat (c_values C) (rb_change [] P) = true).
    { apply (cgood_idx_compat Lf w t); [exact HS| |exact R1]. apply (si_cfg Lf w HS t C HC). }
    apply (commit_adds_only_change (o_order o) i _ _ _ H1 Hvw Hsub Hnlb R2 Hic k x).
  Qed.

  (* the position of a commit step of a proposal of [t] whose values hold a non-deleted value at [d] or beneath [d],
     in the run [ls] started in [w] *)
  Definition created_in (w : Wd) (ls : list Label) (t : N) (d : str) : Prop :=
    exists ls1 ls2 j n o (Q : Prop2),
      ls = ls1 ++ LRec (CtlProp (t, j)) n o :: ls2 /\ props (run_from ls1 w) !! (t, j) = Some Q /\
      p_commit Q = Some Doing /\ creates (rb_change [] Q) d.

  (* nothing live at [d] or beneath [d] *)
  Definition nothing_at (C : Cfg) (d : str) : Prop :=
    forall k x, In (k, x) (live (view overlay C)) -> k <> d /\ ~ Below k d.

  Theorem run_deleted_persists (ls : list Label) : forall (w : Wd) t (C : Cfg) d,
    Inv Lf w -> run_good Lf w ls -> cfgs w !! t = Some C ->
    (forall k x, In (k, x) (live (view overlay C)) -> k <> d /\ ~ Below k d) ->
    (exists C' : Cfg, cfgs (run_from ls w) !! t = Some C' /\
                      forall k x, In (k, x) (live (view overlay C')) -> k <> d /\ ~ Below k d) \/
    created_in w ls t d.
  Proof.
    induction ls as [|l ls IH]; intros w t C d HI Hg HC Hno; [left; exists C; auto|].
    destruct Hg as (G1 & G2 & G3). destruct (cfg_step_some w l t C HC) as [C1 HC1]. cbn [fold_left].
    pose proof (inv_step Lf Lf_free w l HI G1 G2) as HI1.
    assert (Hnext : (forall k x, In (k, x) (live (view overlay C1)) -> k <> d /\ ~ Below k d) ->
                    (exists C' : Cfg, cfgs (run_from ls (p2_step w l)) !! t = Some C' /\
                                      forall k x, In (k, x) (live (view overlay C')) -> k <> d /\ ~ Below k d) \/
                    created_in w (l :: ls) t d).
    { intros Hno1. destruct (IH (p2_step w l) t C1 d HI1 G3 HC1 Hno1) as [Hl|(ls1 & ls2 & j & n & o & Q & -> & HQ & Hc & Ht)]; [left; exact Hl|].
      right. exists (l :: ls1), ls2, j, n, o, Q. auto. }
    destruct (live_view_frame Lf Lf_free w l t C C1 HI G1 G2 HC HC1) as [E|(i & n & o & P & -> & HP & E1 & E2 & E3 & E4 & _)].
    - apply Hnext. rewrite E. exact Hno.
    - destruct (creates_dec (rb_change [] P) d) as [Hcr|Hncr].
      + right. exists [], ls, i, n, o, P. auto.
      + apply Hnext. intros k x Hin.
        assert (Hn : (2 <= n)%nat).
        { assert (Hlen : (length (fst (p2_reconcile o w (CtlProp (t, i)))) <= n)%nat) by exact G2.
          rewrite (commit_effects o w t i P C HP HC E1 E2 E3 E4) in Hlen. cbn [length] in Hlen. lia. }
        destruct (commit_adds w t i n o P C C1 HI HP HC E1 E2 E3 E4 Hn HC1 k x Hin) as [Hold|(v & Hv1 & Hv2 & _)]; [exact (Hno k x Hold)|].
        split.
        * intros ->. apply Hncr. exists d, v. auto.
        * intros Hb. apply Hncr. exists k, v. auto.
  Qed.
End World.

(** * On runs from the initial world *)
Theorem deleted_persists_run (ls1 ls2 : list Label) t (C : Cfg) d :
  labels_wfb (ls1 ++ ls2) = true -> completes p2_init (ls1 ++ ls2) ->
  cfgs (x_run ls1) !! t = Some C ->
  (forall k x, In (k, x) (live (view overlay C)) -> k <> d /\ ~ Below k d) ->
  (exists C' : Cfg, cfgs (x_run (ls1 ++ ls2)) !! t = Some C' /\
                    forall k x, In (k, x) (live (view overlay C')) -> k <> d /\ ~ Below k d) \/
  created_in (x_run ls1) ls2 t d.
Proof.
  intros Hw Hc HC Hno. destruct (inv_prefix ls1 ls2 Hw Hc) as [HI Hg].
  unfold x_run at 1. rewrite fold_left_app.
  exact (run_deleted_persists _ (Lf_of_free _ Hw) ls2 (x_run ls1) t C d HI Hg HC Hno).
Qed.

(* after the commit of a change that deletes [d], nothing is live at [d] or beneath [d] at the end of the run unless
   a later commit step of a proposal of the same target merged values holding a non-deleted value at or beneath [d] *)
Theorem deleted_path_stays_deleted_run (ls1 ls2 : list Label) t i n (o : oracle) (P : Prop2) (C : Cfg) c d u :
  labels_wfb (ls1 ++ LRec (CtlProp (t, i)) n o :: ls2) = true ->
  completes p2_init (ls1 ++ LRec (CtlProp (t, i)) n o :: ls2) ->
  props (x_run ls1) !! (t, i) = Some P -> p_details P = PChange c -> cfgs (x_run ls1) !! t = Some C ->
  p_commit P = Some Doing -> p_apply P = None -> p_abort P = None -> c_committed C = p_prev P ->
  In (d, u) c -> pv_deleted u = true ->
  (exists C' : Cfg, cfgs (x_run (ls1 ++ LRec (CtlProp (t, i)) n o :: ls2)) !! t = Some C' /\
                    forall k x, In (k, x) (live (view overlay C')) -> k <> d /\ ~ Below k d) \/
  created_in (x_run (ls1 ++ [LRec (CtlProp (t, i)) n o])) ls2 t d.
Proof.
  intros Hw Hc HP Hdt HC E1 E2 E3 E4 Hin Hdel. set (l := LRec (CtlProp (t, i)) n o) in *.
  assert (Hsplit : ls1 ++ l :: ls2 = (ls1 ++ [l]) ++ ls2) by (rewrite <- app_assoc; reflexivity).
  rewrite Hsplit in Hw, Hc |- *.
  destruct (inv_prefix ls1 ([l] ++ ls2)) as [HI (G1 & G2 & _)]; [rewrite app_assoc; exact Hw|rewrite app_assoc; exact Hc|].
  destruct (cfg_step_some (x_run ls1) l t C HC) as [C1 HC1].
  assert (Hn : (2 <= n)%nat).
  { assert (Hlen : (length (fst (p2_reconcile o (x_run ls1) (CtlProp (t, i)))) <= n)%nat) by exact G2.
    rewrite (commit_effects o (x_run ls1) t i P C HP HC E1 E2 E3 E4) in Hlen. cbn [length] in Hlen. lia. }
  destruct (commit_contains_change _ (x_run ls1) t i n o P C C1 c HI HP Hdt HC E1 E2 E3 E4 Hn HC1) as (_ & _ & Hhide).
  assert (HC1' : cfgs (x_run (ls1 ++ [l])) !! t = Some C1).
  { unfold x_run. rewrite fold_left_app. exact HC1. }
  exact (deleted_persists_run (ls1 ++ [l]) ls2 t C1 d Hw Hc HC1' (Hhide d u Hin Hdel)).
Qed.

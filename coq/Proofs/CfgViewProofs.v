(* What a reader of the configuration store sees (configurations.Get = inline copy in the entry overlaid with the Atomix
   map, Model/CfgStore.v view_values) along ANY interleaving of acknowledged Sets (proposal initialize's status update +
   commit), further status updates and recordings of applied values: it is exactly the committed map that the fold of
   persist_commit over the Sets produces - the inline copies never show anything else. *)
From Coq Require Import List NArith Bool Lia.
From OC Require Import Base.Bytes Model.Merge Model.CfgStore
     Proofs.MergeProofs Proofs.TextPathProofs Proofs.CommitProofs Proofs.CommitPreserve Proofs.CommitHistory.
Import ListNotations.
Open Scope N_scope.

Lemma map_set_same k v m : nodup m -> In (k, v) m -> map_set k v m = m.
Proof.
  unfold nodup. induction m as [|[k0 v0] m IH]; cbn; intros ND HI; [destruct HI|].
  inversion ND as [|? ? Hn ND']; subst. destruct HI as [HI|HI].
  - injection HI as -> ->. rewrite eqb_str_refl. reflexivity.
  - deq k k0; [exfalso; apply Hn; apply (in_map fst) in HI; exact HI|]. f_equal. apply IH; assumption.
Qed.

Lemma overlay_sub M l : nodup M -> (forall kv, In kv l -> In kv M) -> overlay M l = M.
Proof.
  unfold overlay. intros ND. induction l as [|[k v] l IH]; intros H; [reflexivity|]. cbn [fold_left fst snd].
  rewrite (map_set_same k v M ND (H _ (or_introl eq_refl))). apply IH. intros kv HI. apply H. right. exact HI.
Qed.

Lemma map_set_fresh' k v m : ~ In k (map fst m) -> map_set k v m = m ++ [(k, v)].
Proof.
  induction m as [|[k0 v0] m IH]; cbn; intros H; [reflexivity|].
  deq k k0; [exfalso; apply H; left; reflexivity|]. f_equal. apply IH. intros HI. apply H. right. exact HI.
Qed.

Lemma overlay_nil_gen l : forall acc, NoDup (map fst acc ++ map fst l) -> overlay acc l = acc ++ l.
Proof.
  unfold overlay. induction l as [|[k v] l IH]; intros acc ND; [rewrite app_nil_r; reflexivity|].
  cbn [fold_left fst snd map] in *. pose proof (NoDup_remove_2 _ _ _ ND) as Hk.
  rewrite map_set_fresh' by (intros HI; apply Hk; apply in_or_app; left; exact HI).
  rewrite IH; [rewrite <- app_assoc; reflexivity|]. rewrite map_app, <- app_assoc. exact ND.
Qed.

Lemma overlay_nil M : nodup M -> overlay [] M = M.
Proof. intros ND. apply (overlay_nil_gen M []). exact ND. Qed.

(* the inline copy of the committed values is empty (after a commit) or the committed map itself (after a status update) *)
Definition ev_ok (s : cfg_state) : Prop := cs_ev s = [] \/ cs_ev s = cs_map s.

Lemma view_is_committed s : nodup (cs_map s) -> ev_ok s -> view_values s = cs_map s.
Proof.
  intros ND [E|E]; unfold view_values; rewrite E; [apply overlay_nil; exact ND | apply overlay_sub; auto].
Qed.

Inductive event := ESet (idx : N) (ch : cfgmap) | EStatus | EApplied (idx : N) (ch : cfgmap).

Definition step_event (s : cfg_state) (e : event) : cfg_state :=
  match e with
  | ESet idx ch => set_cycle s idx ch
  | EStatus => status_update s
  | EApplied idx ch => apply_update s idx ch
  end.

Fixpoint sets_of (evs : list event) : list (N * cfgmap) :=
  match evs with
  | [] => []
  | ESet idx ch :: evs' => (idx, ch) :: sets_of evs'
  | _ :: evs' => sets_of evs'
  end.

Lemma step_event_committed s e : nodup (cs_map s) -> ev_ok s ->
  cs_map (step_event s e) = match e with ESet idx ch => persist_commit (cs_map s) idx ch | _ => cs_map s end /\
  (match e with ESet _ _ => cs_ev (step_event s e) = [] | _ => cs_ev (step_event s e) = cs_map s end).
Proof.
  intros ND EV. pose proof (view_is_committed s ND EV) as V. destruct e as [idx ch| |idx ch]; cbn [step_event].
  - unfold set_cycle, commit_update, cfg_update. cbn [cs_map cs_ev].
    assert (V2 : view_values (status_update s) = cs_map (status_update s)).
    { apply view_is_committed; [exact ND|]. right. unfold status_update. cbn [cs_ev cs_map]. exact V. }
    rewrite V2. cbn [status_update cs_map]. split; reflexivity.
  - cbn. auto.
  - cbn. auto.
Qed.

Theorem events_view_gen evs : forall past b s,
  st_inv past b (cs_map s) -> ev_ok s ->
  Forall req_ok (sets_of evs) -> indexes_from b (sets_of evs) -> leaf_discipline (past ++ map snd (sets_of evs)) ->
  view_values (fold_left step_event evs s) = run_history (cs_map s) (sets_of evs).
Proof.
  induction evs as [|e evs IH]; intros past b s I EV R IX LD.
  - cbn. apply view_is_committed; [apply (si_nodup _ _ _ I) | exact EV].
  - cbn [fold_left]. destruct (step_event_committed s e (si_nodup _ _ _ I) EV) as [C1 C2].
    destruct e as [idx ch| |idx ch]; cbn [sets_of] in *.
    + inversion R as [|? ? R1 R2]; subst. destruct IX as [Lb IX]. cbn [map snd] in LD.
      assert (E : past ++ ch :: map snd (sets_of evs) = (past ++ [ch]) ++ map snd (sets_of evs)) by (rewrite <- app_assoc; reflexivity).
      assert (LD1 : leaf_discipline (past ++ [ch])).
      { intros p q U Nq. apply LD.
        - apply (updated_mono (past ++ [ch])); [|exact U]. intros c H. rewrite E. apply in_or_app. left. exact H.
        - apply (names_mono (past ++ [ch])); [|exact Nq]. intros c H. rewrite E. apply in_or_app. left. exact H. }
      destruct (st_inv_step past b (cs_map s) idx ch I R1 Lb LD1) as [_ I'].
      rewrite E in LD. cbn [run_history]. rewrite <- C1.
      apply (IH (past ++ [ch]) (N.succ idx)); try assumption; [rewrite C1; exact I' | left; exact C2].
    + rewrite <- C1. apply (IH past b); try assumption. right. rewrite C1. exact C2.
    + rewrite <- C1. apply (IH past b); try assumption. right. rewrite C1. exact C2.
Qed.

Definition cfg0 : cfg_state := mkCfg [] [] [] [].

(* from the empty configuration *)
Theorem events_view evs : history_ok (sets_of evs) ->
  view_values (fold_left step_event evs cfg0) = run_history [] (sets_of evs).
Proof.
  intros [R [IX LD]]. apply (events_view_gen evs [] 0 cfg0); try assumption; [exact st_inv_empty | left; reflexivity].
Qed.

(* hence what Get reads along any such run is the sequential effect of the Sets *)
Corollary events_refine evs : history_ok (sets_of evs) ->
  forall p, live (view_values (fold_left step_event evs cfg0)) p = spec_history (fun _ => None) (sets_of evs) p.
Proof. intros H p. rewrite (events_view evs H). apply history_refines. exact H. Qed.

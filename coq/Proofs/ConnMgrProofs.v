(* Proofs about the connection manager model Model/ConnMgr.v (stdlib only).
   [fx = true]: conn_manager.go as it is; [fx = false]: as it was before the repair CONN-1 (/repo ac94f55). *)
From Coq Require Import List NArith Bool Lia Arith.
From OC Require Import Model.ConnMgr.
Import ListNotations.
Open Scope N_scope.

(** * Lists *)
Lemma set_nth_same {A} (l : list A) n x y : nth_error l n = Some y -> nth_error (set_nth n x l) n = Some x.
Proof.
  revert n; induction l as [|a l IH]; intros [|n] Hn; cbn in *; try discriminate; auto.
Qed.

Lemma set_nth_other {A} (l : list A) n k x : k <> n -> nth_error (set_nth n x l) k = nth_error l k.
Proof.
  revert n k; induction l as [|a l IH]; intros [|n] [|k] Hk; cbn; auto; try congruence.
Qed.

Lemma set_nth_none {A} (l : list A) n x : nth_error l n = None -> set_nth n x l = l.
Proof.
  revert n; induction l as [|a l IH]; intros [|n] Hn; cbn in *; try discriminate; auto. f_equal; auto.
Qed.

Lemma nth_error_snoc {A} (l : list A) x g y :
  nth_error (l ++ [x]) g = Some y -> nth_error l g = Some y \/ (g = length l /\ y = x /\ nth_error l g = None).
Proof.
  intros H. destruct (Nat.lt_ge_cases g (length l)) as [Hlt|Hge].
  - left. rewrite nth_error_app1 in H; auto.
  - right. rewrite nth_error_app2 in H by exact Hge.
    destruct (g - length l)%nat as [|k] eqn:Hk; cbn in H.
    + inversion H; subst. repeat split; try lia. apply nth_error_None; lia.
    + destruct k; discriminate.
Qed.

Lemma lookup_remove_key {A} (l : list (N * A)) k k' :
  lookup k (remove_key k' l) = if k =? k' then None else lookup k l.
Proof.
  unfold remove_key. induction l as [|[a v] l IH]; cbn [filter lookup fst].
  - destruct (k =? k'); reflexivity.
  - destruct (a =? k') eqn:Ha; cbn [negb lookup].
    + apply N.eqb_eq in Ha; subst a. rewrite IH. destruct (k =? k') eqn:Hk; auto.
      rewrite N.eqb_sym, Hk. reflexivity.
    + destruct (a =? k) eqn:Hak; auto.
      apply N.eqb_eq in Hak; subst a. rewrite Ha. reflexivity.
Qed.

(** * Views of the state *)
Definition gconn (m : mgr) (g : nat) : option N :=
  match nth_error (m_gors m) g with Some go => g_conn go | None => None end.

Definition running (m : mgr) (g : nat) : Prop :=
  exists go, nth_error (m_gors m) g = Some go /\ g_alive go = true /\ g_started go = true.

Definition gor_ok (go : gor) : Prop :=
  (g_started go = false -> g_conn go = None) /\ (g_alive go = false -> g_conn go = None).

Record Inv (m : mgr) : Prop := mkInv {
  inv_ok : forall g go, nth_error (m_gors m) g = Some go -> gor_ok go;
  inv_own : forall g go id, nth_error (m_gors m) g = Some go -> g_conn go = Some id ->
                            lookup id (m_conns m) = Some (g_target go) /\ id < m_next m;
  inv_map : forall id t, lookup id (m_conns m) = Some t ->
                         id < m_next m /\ exists g go, nth_error (m_gors m) g = Some go /\ g_conn go = Some id /\ g_target go = t;
  inv_uniq : forall g1 g2 go1 go2 id, nth_error (m_gors m) g1 = Some go1 -> nth_error (m_gors m) g2 = Some go2 ->
                                      g_conn go1 = Some id -> g_conn go2 = Some id -> g1 = g2 }.

Lemma Inv_init n0 : Inv (init n0).
Proof.
  split; cbn.
  - intros [|g] go H; discriminate.
  - intros [|g] go id H; discriminate.
  - intros id t H; discriminate.
  - intros [|g1] g2 go1 go2 id H; discriminate.
Qed.

(** * The three ways a sample changes the state *)
Lemma set_gor_inv m g go go' :
  Inv m -> nth_error (m_gors m) g = Some go -> g_conn go' = g_conn go -> g_target go' = g_target go -> gor_ok go' ->
  Inv (set_gor m g go').
Proof.
  intros [Hok Hown Hmap Huq] Hg Hc Ht Hgo'. split; cbn.
  - intros k x Hk. destruct (Nat.eq_dec k g) as [->|Hne].
    + rewrite (set_nth_same _ _ _ _ Hg) in Hk. inversion Hk; subst; auto.
    + rewrite set_nth_other in Hk by exact Hne. eauto.
  - intros k x id Hk Hx. destruct (Nat.eq_dec k g) as [->|Hne].
    + rewrite (set_nth_same _ _ _ _ Hg) in Hk. inversion Hk; subst x. rewrite Ht. rewrite Hc in Hx. eauto.
    + rewrite set_nth_other in Hk by exact Hne. eauto.
  - intros id t Hl. destruct (Hmap id t Hl) as [Hlt [k [x [Hk [Hx Htx]]]]]. split; auto.
    destruct (Nat.eq_dec k g) as [->|Hne].
    + exists g, go'. rewrite (set_nth_same _ _ _ _ Hg). rewrite Hk in Hg; inversion Hg; subst x.
      split; [reflexivity|]. split; [rewrite Hc; exact Hx|rewrite Ht; exact Htx].
    + exists k, x. rewrite set_nth_other by exact Hne. auto.
  - intros g1 g2 x1 x2 id H1 H2 Hx1 Hx2.
    assert (Hback : forall k x, nth_error (set_nth g go' (m_gors m)) k = Some x ->
                                exists y, nth_error (m_gors m) k = Some y /\ g_conn y = g_conn x).
    { intros k x Hk. destruct (Nat.eq_dec k g) as [->|Hne].
      - rewrite (set_nth_same _ _ _ _ Hg) in Hk. inversion Hk; subst. exists go; auto.
      - rewrite set_nth_other in Hk by exact Hne. exists x; auto. }
    destruct (Hback _ _ H1) as [y1 [Hy1 Hc1]]. destruct (Hback _ _ H2) as [y2 [Hy2 Hc2]].
    apply (Huq g1 g2 y1 y2 id Hy1 Hy2); congruence.
Qed.

Lemma add_conn_inv m g go :
  Inv m -> nth_error (m_gors m) g = Some go -> g_conn go = None -> g_alive go = true -> Inv (fst (add_conn m g go)).
Proof.
  intros [Hok Hown Hmap Huq] Hg Hc Ha. unfold add_conn; cbn. split; cbn.
  - intros k x Hk. destruct (Nat.eq_dec k g) as [->|Hne].
    + rewrite (set_nth_same _ _ _ _ Hg) in Hk. inversion Hk; subst. split; cbn; intros; congruence.
    + rewrite set_nth_other in Hk by exact Hne. eauto.
  - intros k x id Hk Hx. destruct (Nat.eq_dec k g) as [->|Hne].
    + rewrite (set_nth_same _ _ _ _ Hg) in Hk. inversion Hk; subst x. cbn in *. inversion Hx; subst id.
      rewrite N.eqb_refl. split; [reflexivity|lia].
    + rewrite set_nth_other in Hk by exact Hne. destruct (Hown _ _ _ Hk Hx) as [Hl Hlt].
      destruct (m_next m =? id) eqn:He; [apply N.eqb_eq in He; lia|]. split; [exact Hl|lia].
  - intros id t Hl. destruct (m_next m =? id) eqn:He.
    + apply N.eqb_eq in He; subst id. inversion Hl; subst t. split; [lia|].
      exists g. eexists. rewrite (set_nth_same _ _ _ _ Hg). repeat split.
    + destruct (Hmap id t Hl) as [Hlt [k [x [Hk [Hx Htx]]]]]. split; [lia|].
      assert (k <> g) by (intros ->; congruence).
      exists k, x. rewrite set_nth_other by assumption. auto.
  - intros g1 g2 x1 x2 id H1 H2 Hx1 Hx2.
    destruct (Nat.eq_dec g1 g) as [->|Hn1]; destruct (Nat.eq_dec g2 g) as [->|Hn2]; auto.
    + rewrite (set_nth_same _ _ _ _ Hg) in H1. inversion H1; subst x1. cbn in Hx1. inversion Hx1; subst id.
      rewrite set_nth_other in H2 by exact Hn2. destruct (Hown _ _ _ H2 Hx2); lia.
    + rewrite (set_nth_same _ _ _ _ Hg) in H2. inversion H2; subst x2. cbn in Hx2. inversion Hx2; subst id.
      rewrite set_nth_other in H1 by exact Hn1. destruct (Hown _ _ _ H1 Hx1); lia.
    + rewrite set_nth_other in H1, H2 by assumption. eauto.
Qed.

Lemma remove_conn_eq m g go id :
  Inv m -> nth_error (m_gors m) g = Some go -> g_conn go = Some id ->
  remove_conn m g go id =
  (mkMgr (m_targets m) (set_nth g (mkGor (g_target go) None true (g_alive go)) (m_gors m)) (remove_key id (m_conns m)) (m_next m),
   [Removed g (g_target go) id]).
Proof.
  intros HI Hg Hc. unfold remove_conn. destruct (inv_own _ HI _ _ _ Hg Hc) as [-> _]. reflexivity.
Qed.

Lemma remove_conn_inv m g go id :
  Inv m -> nth_error (m_gors m) g = Some go -> g_conn go = Some id -> Inv (fst (remove_conn m g go id)).
Proof.
  intros HI Hg Hc. rewrite (remove_conn_eq _ _ _ _ HI Hg Hc). destruct HI as [Hok Hown Hmap Huq]. split; cbn.
  - intros k x Hk. destruct (Nat.eq_dec k g) as [->|Hne].
    + rewrite (set_nth_same _ _ _ _ Hg) in Hk. inversion Hk; subst. split; cbn; intros; auto.
    + rewrite set_nth_other in Hk by exact Hne. eauto.
  - intros k x id' Hk Hx. destruct (Nat.eq_dec k g) as [->|Hne].
    + rewrite (set_nth_same _ _ _ _ Hg) in Hk. inversion Hk; subst x. discriminate.
    + rewrite set_nth_other in Hk by exact Hne. destruct (Hown _ _ _ Hk Hx) as [Hl Hlt]. split; auto.
      rewrite lookup_remove_key. destruct (id' =? id) eqn:He; auto.
      apply N.eqb_eq in He; subst id'. exfalso. apply Hne. eapply Huq; eauto.
  - intros id' t Hl. rewrite lookup_remove_key in Hl. destruct (id' =? id) eqn:He; [discriminate|].
    destruct (Hmap id' t Hl) as [Hlt [k [x [Hk [Hx Htx]]]]]. split; auto.
    assert (k <> g). { intros ->. rewrite Hk in Hg; inversion Hg; subst x. rewrite Hx in Hc; inversion Hc; subst.
                       rewrite N.eqb_refl in He; discriminate. }
    exists k, x. rewrite set_nth_other by assumption. auto.
  - intros g1 g2 x1 x2 id' H1 H2 Hx1 Hx2.
    destruct (Nat.eq_dec g1 g) as [->|Hn1].
    { rewrite (set_nth_same _ _ _ _ Hg) in H1. inversion H1; subst x1. discriminate. }
    destruct (Nat.eq_dec g2 g) as [->|Hn2].
    { rewrite (set_nth_same _ _ _ _ Hg) in H2. inversion H2; subst x2. discriminate. }
    rewrite set_nth_other in H1, H2 by assumption. eauto.
Qed.


(** * One sample *)
Lemma set_nth_id {A} (l : list A) n x : nth_error l n = Some x -> set_nth n x l = l.
Proof.
  revert n; induction l as [|a l IH]; intros [|n] Hn; cbn in *; try discriminate; auto.
  - inversion Hn; reflexivity.
  - f_equal; auto.
Qed.

Lemma set_nth_twice {A} (l : list A) n x y : set_nth n x (set_nth n y l) = set_nth n x l.
Proof.
  revert n; induction l as [|a l IH]; intros [|n]; cbn; auto. f_equal; auto.
Qed.

Definition only_connect (g : nat) (o : list out) : Prop := forall x, In x o -> x = CallConnect g.

Lemma only_connect_nil g : only_connect g [].
Proof. intros x []. Qed.

Lemma only_connect_one g : only_connect g [CallConnect g].
Proof. intros x [<-|[]]; reflexivity. Qed.

Lemma only_connect_added g o : only_connect g o -> added_ids o = [].
Proof.
  induction o as [|x o IH]; intros H; auto. cbn. rewrite (H x (or_introl eq_refl)). cbn. apply IH.
  intros y Hy. apply H. right; exact Hy.
Qed.

Lemma only_connect_alternates g k o c : only_connect k o -> alternates g c o = Some c.
Proof.
  induction o as [|x o IH]; intros H; auto. cbn. rewrite (H x (or_introl eq_refl)). apply IH.
  intros y Hy. apply H. right; exact Hy.
Qed.

Lemma only_connect_no_removed k o g t id : only_connect k o -> ~ In (Removed g t id) o.
Proof. intros H Hin. apply H in Hin. discriminate. Qed.

Ltac fin := repeat split; auto; try contradiction; try discriminate; try apply only_connect_nil; try apply only_connect_one.

(** what [on_state] can do, case by case *)
Lemma on_state_cases fx m g go s :
  gor_ok go ->
  (g_conn go = None /\ s = Ready /\ on_state fx m g go s = add_conn m g go) \/
  (exists id tl, g_conn go = Some id /\ g_started go = true /\ s <> Ready /\ (s = Idle -> fx = true) /\ only_connect g tl /\
                 on_state fx m g go s = (fst (remove_conn m g go id), snd (remove_conn m g go id) ++ tl)) \/
  (g_started go = false /\ s <> Ready /\
   on_state fx m g go s = (set_gor m g (mkGor (g_target go) (g_conn go) true (g_alive go)), [])) \/
  (exists o, g_started go = true /\ only_connect g o /\ (s = Ready -> g_conn go <> None) /\
             (g_conn go = None \/ s = Ready \/ (s = Idle /\ fx = false)) /\ on_state fx m g go s = (m, o)).
Proof.
  intros [Hs _]. unfold on_state. destruct (g_started go) eqn:Hst.
  - assert (Hrm : forall id, g_conn go = Some id -> s <> Ready -> s <> Idle ->
                             match g_conn go with Some id => remove_conn m g go id | None => (m, []) end =
                             (fst (remove_conn m g go id), snd (remove_conn m g go id) ++ [])).
    { intros id Hc _ _. rewrite Hc, app_nil_r. destruct (remove_conn m g go id); reflexivity. }
    assert (Hcases : s <> Ready -> s <> Idle ->
      (exists id tl, g_conn go = Some id /\ true = true /\ s <> Ready /\ (s = Idle -> fx = true) /\ only_connect g tl /\
                 match g_conn go with Some id => remove_conn m g go id | None => (m, []) end =
                 (fst (remove_conn m g go id), snd (remove_conn m g go id) ++ tl)) \/
      (exists o, true = true /\ only_connect g o /\ (s = Ready -> g_conn go <> None) /\
                 (g_conn go = None \/ s = Ready \/ (s = Idle /\ fx = false)) /\
                 match g_conn go with Some id => remove_conn m g go id | None => (m, []) end = (m, o))).
    { intros H1 H2. destruct (g_conn go) as [id|] eqn:Hc.
      - left. exists id, []. fin.
      - right. exists []. fin. }
    destruct s.
    + destruct fx.
      * destruct (g_conn go) as [id|] eqn:Hc.
        -- right; left. exists id, [CallConnect g]. fin.
           try (destruct (remove_conn m g go id); reflexivity).
        -- right; right; right. exists [CallConnect g]. fin.
      * right; right; right. exists [CallConnect g]. fin.
    + destruct Hcases as [H|H]; try discriminate; [right; left; exact H|right; right; right; exact H].
    + destruct (g_conn go) as [id|] eqn:Hc.
      * right; right; right. exists []. fin.
      * left. auto.
    + destruct Hcases as [H|H]; try discriminate; [right; left; exact H|right; right; right; exact H].
    + destruct Hcases as [H|H]; try discriminate; [right; left; exact H|right; right; right; exact H].
  - destruct s; try (right; right; left; repeat split; auto; discriminate).
    left. auto.
Qed.

Lemma after_state_inv m g ws s :
  Inv m -> (s = Shutdown -> ws = true -> gconn m g = None) -> Inv (after_state m g ws s).
Proof.
  intros HI Hnone. unfold after_state.
  destruct s; auto. destruct ws; auto. destruct (nth_error (m_gors m) g) as [go|] eqn:Hg; auto.
  specialize (Hnone eq_refl eq_refl). unfold gconn in Hnone. rewrite Hg in Hnone.
  eapply set_gor_inv; eauto. split; cbn; intros; auto.
Qed.

Lemma sample_inv fx m g s : Inv m -> Inv (fst (sample fx m g s)).
Proof.
  intros HI. unfold sample. destruct (nth_error (m_gors m) g) as [go|] eqn:Hg; auto.
  destruct (g_alive go) eqn:Ha; auto.
  destruct (on_state fx m g go s) as [m1 o] eqn:Hos. cbn [fst].
  destruct (on_state_cases fx m g go s (inv_ok _ HI _ _ Hg))
    as [(Hc & Hs & Heq) | [(id & tl & Hc & Hst & Hs & Hfx & Htl & Heq) | [(Hst & Hs & Heq) | (o' & Hst & Ho & Hr & Hdis & Heq)]]];
    rewrite Hos in Heq.
  - replace m1 with (fst (add_conn m g go)) by (rewrite <- Heq; reflexivity).
    apply after_state_inv. { apply add_conn_inv; auto. }
    intros H; rewrite Hs in H; discriminate.
  - assert (Hm1 : m1 = fst (remove_conn m g go id)) by (inversion Heq; reflexivity). rewrite Hm1.
    apply after_state_inv. { apply remove_conn_inv; auto. }
    intros _ _. rewrite (remove_conn_eq _ _ _ _ HI Hg Hc). unfold gconn; cbn. rewrite (set_nth_same _ _ _ _ Hg). reflexivity.
  - inversion Heq; subst m1 o. apply after_state_inv.
    { eapply set_gor_inv; eauto. split; cbn; intros; try discriminate; try (apply (inv_ok _ HI _ _ Hg); auto). }
    intros _ Hws. congruence.
  - inversion Heq; subst m1 o. apply after_state_inv; auto.
    intros Hsd _. destruct Hdis as [Hn|[Hr'|[Hi _]]]; subst; try discriminate. unfold gconn. rewrite Hg. exact Hn.
Qed.

Lemma step_inv fx m e : Inv m -> Inv (fst (step fx m e)).
Proof.
  intros HI. destruct e as [t|t|g s]; cbn.
  - destruct (lookup t (m_targets m)); cbn; auto.
    destruct HI as [Hok Hown Hmap Huq]. split; cbn.
    + intros g go Hg. apply nth_error_snoc in Hg. destruct Hg as [Hg|[_ [-> _]]]; eauto. split; cbn; auto.
    + intros g go id Hg Hc. apply nth_error_snoc in Hg. destruct Hg as [Hg|[_ [-> _]]]; eauto. discriminate.
    + intros id t' Hl. destruct (Hmap _ _ Hl) as [Hlt [g [go [Hg Hr]]]]. split; auto.
      exists g, go. split; auto. rewrite nth_error_app1; auto. apply nth_error_Some; congruence.
    + intros g1 g2 x1 x2 id H1 H2 Hx1 Hx2.
      apply nth_error_snoc in H1. apply nth_error_snoc in H2.
      destruct H1 as [H1|[_ [-> _]]]; [|discriminate]. destruct H2 as [H2|[_ [-> _]]]; [|discriminate]. eauto.
  - destruct (lookup t (m_targets m)); cbn; auto.
    destruct HI as [Hok Hown Hmap Huq]. split; cbn; eauto.
  - apply sample_inv; auto.
Qed.

Lemma run_from_app fx m a b :
  run_from fx m (a ++ b) =
  let '(m1, o1) := run_from fx m a in let '(m2, o2) := run_from fx m1 b in (m2, o1 ++ o2).
Proof.
  revert m; induction a as [|e a IH]; intros m; cbn.
  - destruct (run_from fx m b); reflexivity.
  - destruct (step fx m e) as [m1 o1]. rewrite IH.
    destruct (run_from fx m1 a) as [m2 o2]. destruct (run_from fx m2 b) as [m3 o3]. rewrite app_assoc. reflexivity.
Qed.

Lemma run_from_inv fx m es : Inv m -> Inv (fst (run_from fx m es)).
Proof.
  revert m; induction es as [|e es IH]; intros m HI; cbn; auto.
  pose proof (step_inv fx m e HI) as H1. destruct (step fx m e) as [m1 o1]. cbn in H1.
  specialize (IH m1 H1). destruct (run_from fx m1 es) as [m2 o2]. exact IH.
Qed.

(** * What one sample of a live goroutine does (everything later is proved from this) *)
Definition is_shutdown (s : chan_state) : bool := match s with Shutdown => true | _ => false end.

Inductive sample_kind (fx : bool) (m : mgr) (k : nat) (go go' : gor) (s : chan_state) (m' : mgr) (o : list out) : Prop :=
| SkAdd : g_conn go = None -> s = Ready -> g_conn go' = Some (m_next m) ->
          m_conns m' = (m_next m, g_target go) :: m_conns m -> m_next m' = m_next m + 1 ->
          o = [Added k (g_target go) (m_next m)] -> sample_kind fx m k go go' s m' o
| SkRemove id tl : g_conn go = Some id -> g_started go = true -> s <> Ready -> (s = Idle -> fx = true) ->
          g_conn go' = None -> m_conns m' = remove_key id (m_conns m) -> m_next m' = m_next m ->
          o = Removed k (g_target go) id :: tl -> only_connect k tl -> sample_kind fx m k go go' s m' o
| SkKeep : g_conn go' = g_conn go -> m_conns m' = m_conns m -> m_next m' = m_next m -> only_connect k o ->
          (s = Ready -> g_conn go <> None) ->
          (g_started go = true -> g_conn go = None \/ s = Ready \/ (s = Idle /\ fx = false)) ->
          sample_kind fx m k go go' s m' o.

Lemma after_state_eq m k ws s go1 :
  nth_error (m_gors m) k = Some go1 ->
  after_state m k ws s =
  if is_shutdown s && ws then set_gor m k (mkGor (g_target go1) (g_conn go1) (g_started go1) false) else m.
Proof.
  intros Hk. unfold after_state. destruct s; cbn; auto. destruct ws; auto. rewrite Hk. reflexivity.
Qed.

Lemma sample_spec fx m k s go :
  Inv m -> nth_error (m_gors m) k = Some go -> g_alive go = true ->
  exists go',
    m_gors (fst (sample fx m k s)) = set_nth k go' (m_gors m) /\
    m_targets (fst (sample fx m k s)) = m_targets m /\
    g_target go' = g_target go /\ g_started go' = true /\
    g_alive go' = negb (is_shutdown s && g_started go) /\
    sample_kind fx m k go go' s (fst (sample fx m k s)) (snd (sample fx m k s)).
Proof.
  intros HI Hg Ha. unfold sample. rewrite Hg, Ha.
  destruct (on_state fx m k go s) as [m1 o] eqn:Hos. cbn [fst snd].
  destruct (on_state_cases fx m k go s (inv_ok _ HI _ _ Hg))
    as [(Hc & Hs & Heq) | [(id & tl & Hc & Hst & Hs & Hfx & Htl & Heq) | [(Hst & Hs & Heq) | (o' & Hst & Ho & Hr & Hdis & Heq)]]];
    rewrite Hos in Heq.
  - unfold add_conn in Heq. inversion Heq; subst m1 o; clear Heq. subst s.
    exists (mkGor (g_target go) (Some (m_next m)) true (g_alive go)). cbn.
    repeat split; auto. apply SkAdd; auto.
  - rewrite (remove_conn_eq _ _ _ _ HI Hg Hc) in Heq. cbn in Heq. inversion Heq; subst m1 o; clear Heq.
    erewrite after_state_eq by (cbn; apply (set_nth_same _ _ _ _ Hg)). rewrite Hst, andb_true_r.
    destruct (is_shutdown s) eqn:Hsd.
    + exists (mkGor (g_target go) None true false). cbn. rewrite set_nth_twice.
      repeat split; auto. eapply SkRemove; eauto.
    + exists (mkGor (g_target go) None true (g_alive go)). cbn.
      repeat split; auto. eapply SkRemove; eauto.
  - inversion Heq; subst m1 o; clear Heq.
    erewrite after_state_eq by (cbn; apply (set_nth_same _ _ _ _ Hg)). rewrite Hst, andb_false_r.
    exists (mkGor (g_target go) (g_conn go) true (g_alive go)). cbn.
    repeat split; auto. apply SkKeep; auto; try apply only_connect_nil; try (intros; congruence).
  - inversion Heq; subst m1 o; clear Heq.
    rewrite (after_state_eq _ _ _ _ _ Hg). rewrite Hst, andb_true_r.
    destruct (is_shutdown s) eqn:Hsd.
    + exists (mkGor (g_target go) (g_conn go) true false). cbn.
      repeat split; auto. apply SkKeep; auto.
    + exists go. cbn. rewrite (set_nth_id _ _ _ Hg).
      repeat split; auto. apply SkKeep; auto.
Qed.

Lemma sample_dead fx m k s :
  (nth_error (m_gors m) k = None \/ exists go, nth_error (m_gors m) k = Some go /\ g_alive go = false) ->
  sample fx m k s = (m, []).
Proof.
  unfold sample. intros [H|[go [H Ha]]]; rewrite H; auto. rewrite Ha. reflexivity.
Qed.

Lemma gor_cases m k :
  (nth_error (m_gors m) k = None \/ exists go, nth_error (m_gors m) k = Some go /\ g_alive go = false) \/
  (exists go, nth_error (m_gors m) k = Some go /\ g_alive go = true).
Proof.
  destruct (nth_error (m_gors m) k) as [go|]; auto. destruct (g_alive go) eqn:Ha; eauto.
Qed.

(** * (ii) connection ids are never reused *)
Fixpoint increasing_from (lo : N) (l : list N) : Prop :=
  match l with
  | [] => True
  | x :: r => lo <= x /\ increasing_from (x + 1) r
  end.

Lemma increasing_from_weaken lo lo' l : lo' <= lo -> increasing_from lo l -> increasing_from lo' l.
Proof. destruct l; cbn; auto. intros H [H1 H2]. split; auto. lia. Qed.

Lemma increasing_from_app lo l1 mid l2 :
  increasing_from lo l1 -> (forall x, In x l1 -> x < mid) -> lo <= mid -> increasing_from mid l2 -> increasing_from lo (l1 ++ l2).
Proof.
  revert lo; induction l1 as [|x l1 IH]; intros lo H1 Hb Hlo H2; cbn in *.
  - eapply increasing_from_weaken; eauto.
  - destruct H1 as [Hx H1]. split; auto. apply IH; auto. specialize (Hb x (or_introl eq_refl)). lia.
Qed.

Lemma increasing_from_bound lo l x : increasing_from lo l -> In x l -> lo <= x.
Proof.
  revert lo; induction l as [|y l IH]; intros lo H Hin; cbn in *; [contradiction|].
  destruct H as [Hy H]. destruct Hin as [->|Hin]; auto. specialize (IH _ H Hin). lia.
Qed.

Lemma increasing_from_NoDup lo l : increasing_from lo l -> NoDup l.
Proof.
  revert lo; induction l as [|x l IH]; intros lo H; constructor; cbn in H; destruct H as [Hx H].
  - intros Hin. pose proof (increasing_from_bound _ _ _ H Hin). lia.
  - eauto.
Qed.

Definition ids_ok (m m1 : mgr) (o : list out) : Prop :=
  m_next m <= m_next m1 /\ increasing_from (m_next m) (added_ids o) /\ (forall x, In x (added_ids o) -> x < m_next m1).

Ltac ids_triv := unfold ids_ok; cbn; split; [lia | split; [cbn; auto; try lia | cbn; intros ? ?; try contradiction]].

Lemma ids_ok_nil m : ids_ok m m [].
Proof. ids_triv. Qed.

Lemma step_ids fx m e : Inv m -> ids_ok m (fst (step fx m e)) (snd (step fx m e)).
Proof.
  intros HI. destruct e as [t|t|k s]; cbn.
  - destruct (lookup t (m_targets m)); ids_triv.
  - destruct (lookup t (m_targets m)); ids_triv.
  - destruct (gor_cases m k) as [Hd|[go [Hk Ha]]].
    + rewrite (sample_dead _ _ _ _ Hd). apply ids_ok_nil.
    + destruct (sample_spec fx m k s go HI Hk Ha) as [go' (_ & _ & _ & _ & _ & Hkind)].
      destruct (sample fx m k s) as [m1 o]. cbn in *.
      destruct Hkind as [Hc Hs Hc' Hcs Hn Ho | id tl Hc Hst Hs Hfx Hc' Hcs Hn Ho Htl | Hc' Hcs Hn Ho _ _].
      * subst o. unfold ids_ok. cbn. split; [lia|]. split; [split; [lia|exact I]|]. intros x [<-|[]]; lia.
      * subst o. assert (Hz : added_ids (Removed k (g_target go) id :: tl) = [])
          by (change (added_ids tl = []); apply (only_connect_added _ _ Htl)).
        unfold ids_ok. rewrite Hz. ids_triv.
      * unfold ids_ok. rewrite (only_connect_added _ _ Ho). ids_triv.
Qed.

Lemma added_ids_app a b : added_ids (a ++ b) = added_ids a ++ added_ids b.
Proof. unfold added_ids. apply flat_map_app. Qed.

Lemma run_from_ids fx m es : Inv m -> ids_ok m (fst (run_from fx m es)) (snd (run_from fx m es)).
Proof.
  revert m; induction es as [|e es IH]; intros m HI; cbn.
  - apply ids_ok_nil.
  - pose proof (step_ids fx m e HI) as H1. pose proof (step_inv fx m e HI) as HI1.
    destruct (step fx m e) as [m1 o1]. cbn in *. specialize (IH m1 HI1).
    destruct (run_from fx m1 es) as [m2 o2]. cbn in *. destruct H1 as [Ha [Hb Hc]]. destruct IH as [Hd [He Hf]].
    unfold ids_ok. rewrite added_ids_app. split; [lia|]. split.
    + eapply increasing_from_app; eauto.
    + intros x Hx. apply in_app_or in Hx. destruct Hx as [Hx|Hx]; auto. specialize (Hc x Hx). lia.
Qed.

Theorem ids_increasing fx n0 es : increasing_from n0 (added_ids (snd (run_from fx (init n0) es))).
Proof. apply (run_from_ids fx (init n0) es (Inv_init n0)). Qed.

Theorem ids_never_reused fx n0 es : NoDup (added_ids (snd (run_from fx (init n0) es))).
Proof. eapply increasing_from_NoDup, ids_increasing. Qed.

(** * (iii) at most one live connection per Connect: Added and Removed of a goroutine alternate *)
Lemma alternates_app g cur a b :
  alternates g cur (a ++ b) = match alternates g cur a with Some c => alternates g c b | None => None end.
Proof.
  revert cur; induction a as [|x a IH]; intros cur; cbn; auto.
  destruct x as [g' t id|g' t id| | |]; auto.
  - destruct (Nat.eqb g' g); auto. destruct cur; auto.
  - destruct (Nat.eqb g' g); auto. destruct cur as [id'|]; auto. destruct (id' =? id); auto.
Qed.

Lemma gconn_set_nth m' m k go' g :
  m_gors m' = set_nth k go' (m_gors m) -> nth_error (m_gors m) k <> None ->
  gconn m' g = if Nat.eqb k g then g_conn go' else gconn m g.
Proof.
  intros Hgs Hk. unfold gconn. rewrite Hgs. destruct (Nat.eqb k g) eqn:Hkg.
  - apply Nat.eqb_eq in Hkg; subst g. destruct (nth_error (m_gors m) k) eqn:Hn; [|congruence].
    rewrite (set_nth_same _ _ _ _ Hn). reflexivity.
  - apply Nat.eqb_neq in Hkg. rewrite set_nth_other by congruence. reflexivity.
Qed.

Lemma step_alternates fx m e g :
  Inv m -> alternates g (gconn m g) (snd (step fx m e)) = Some (gconn (fst (step fx m e)) g).
Proof.
  intros HI. destruct e as [t|t|k s]; cbn.
  - destruct (lookup t (m_targets m)); cbn; auto. f_equal. unfold gconn; cbn.
    destruct (nth_error (m_gors m) g) as [go|] eqn:Hg.
    + rewrite nth_error_app1 by (apply nth_error_Some; congruence). rewrite Hg. reflexivity.
    + destruct (nth_error (m_gors m ++ [mkGor t None false true]) g) as [go|] eqn:Hg'; auto.
      apply nth_error_snoc in Hg'. destruct Hg' as [Hg'|[_ [-> _]]]; [congruence|reflexivity].
  - destruct (lookup t (m_targets m)); cbn; auto.
  - destruct (gor_cases m k) as [Hd|[go [Hk Ha]]].
    + rewrite (sample_dead _ _ _ _ Hd). reflexivity.
    + destruct (sample_spec fx m k s go HI Hk Ha) as [go' (Hgs & _ & _ & _ & _ & Hkind)].
      destruct (sample fx m k s) as [m1 o]. cbn in *.
      rewrite (gconn_set_nth _ _ _ _ g Hgs) by congruence.
      destruct Hkind as [Hc Hs Hc' Hcs Hn Ho | id tl Hc Hst Hs Hfx Hc' Hcs Hn Ho Htl | Hc' Hcs Hn Ho _ _].
      * subst o. cbn. destruct (Nat.eqb k g) eqn:Hkg; auto.
        apply Nat.eqb_eq in Hkg; subst g. unfold gconn. rewrite Hk, Hc, Hc'. reflexivity.
      * subst o. cbn. destruct (Nat.eqb k g) eqn:Hkg.
        -- apply Nat.eqb_eq in Hkg; subst g. unfold gconn. rewrite Hk, Hc, N.eqb_refl, Hc'.
           apply (only_connect_alternates _ _ _ _ Htl).
        -- apply (only_connect_alternates _ _ _ _ Htl).
      * rewrite (only_connect_alternates _ _ _ _ Ho). destruct (Nat.eqb k g) eqn:Hkg; auto.
        apply Nat.eqb_eq in Hkg; subst g. unfold gconn. rewrite Hk, Hc'. reflexivity.
Qed.

Lemma run_from_alternates fx m es g :
  Inv m -> alternates g (gconn m g) (snd (run_from fx m es)) = Some (gconn (fst (run_from fx m es)) g).
Proof.
  revert m; induction es as [|e es IH]; intros m HI; cbn; auto.
  pose proof (step_alternates fx m e g HI) as H1. pose proof (step_inv fx m e HI) as HI1.
  destruct (step fx m e) as [m1 o1]. cbn in *. specialize (IH m1 HI1).
  destruct (run_from fx m1 es) as [m2 o2]. cbn in *. rewrite alternates_app, H1. exact IH.
Qed.

Theorem one_live_per_connect fx n0 es g :
  alternates g None (snd (run_from fx (init n0) es)) = Some (gconn (fst (run_from fx (init n0) es)) g).
Proof.
  pose proof (run_from_alternates fx (init n0) es g (Inv_init n0)) as H.
  replace (gconn (init n0) g) with (@None N) in H; auto.
  unfold gconn; cbn. destruct g; reflexivity.
Qed.

(** the m.conns map (what Get answers from) holds exactly the current connections of the goroutines, each once *)
Theorem get_is_live fx n0 es id t :
  let m := fst (run_from fx (init n0) es) in
  get m id = Some t <-> exists g go, nth_error (m_gors m) g = Some go /\ g_conn go = Some id /\ g_target go = t.
Proof.
  cbn. pose proof (run_from_inv fx (init n0) es (Inv_init n0)) as HI.
  destruct (run_from fx (init n0) es) as [m o]. cbn in *. unfold get. split.
  - intros H. apply (inv_map _ HI _ _ H).
  - intros [g [go [Hg [Hc <-]]]]. apply (inv_own _ HI _ _ _ Hg Hc).
Qed.

Theorem conn_of_one_connect fx n0 es g1 g2 id :
  let m := fst (run_from fx (init n0) es) in
  gconn m g1 = Some id -> gconn m g2 = Some id -> g1 = g2.
Proof.
  cbn. pose proof (run_from_inv fx (init n0) es (Inv_init n0)) as HI.
  destruct (run_from fx (init n0) es) as [m o]. cbn in *. unfold gconn.
  destruct (nth_error (m_gors m) g1) eqn:H1; [|discriminate]. destruct (nth_error (m_gors m) g2) eqn:H2; [|discriminate].
  intros. eapply (inv_uniq _ HI); eauto.
Qed.

(** a removed id is never handed out again: Get(id) fails from the Removed event on *)
Lemma step_conns fx m e id :
  Inv m ->
  (id < m_next m -> get m id = None -> get (fst (step fx m e)) id = None) /\
  (forall g t, In (Removed g t id) (snd (step fx m e)) -> get (fst (step fx m e)) id = None /\ id < m_next (fst (step fx m e))).
Proof.
  intros HI. destruct e as [t|t|k s]; cbn.
  - destruct (lookup t (m_targets m)); cbn; split; auto; intros g t0 Hin; try contradiction;
      destruct Hin as [Hin|[]]; discriminate.
  - destruct (lookup t (m_targets m)); cbn; split; auto; intros g t0 Hin; try contradiction;
      destruct Hin as [Hin|[]]; discriminate.
  - destruct (gor_cases m k) as [Hd|[go [Hk Ha]]].
    + rewrite (sample_dead _ _ _ _ Hd). cbn. split; auto. intros g t [].
    + destruct (sample_spec fx m k s go HI Hk Ha) as [go' (Hgs & _ & _ & _ & _ & Hkind)].
      destruct (sample fx m k s) as [m1 o]. cbn in *. unfold get in *.
      destruct Hkind as [Hc Hs Hc' Hcs Hn Ho | id' tl Hc Hst Hs Hfx Hc' Hcs Hn Ho Htl | Hc' Hcs Hn Ho _ _].
      * subst o. rewrite Hcs. cbn. split.
        -- intros Hlt Hd. destruct (m_next m =? id) eqn:He; [apply N.eqb_eq in He; lia|exact Hd].
        -- intros g t [H|[]]; discriminate.
      * subst o. rewrite Hcs, Hn. split.
        -- intros Hlt Hd. rewrite lookup_remove_key. destruct (id =? id'); auto.
        -- intros g t [H|H].
           ++ inversion H; subst. rewrite lookup_remove_key, N.eqb_refl. split; auto.
              apply (inv_own _ HI _ _ _ Hk Hc).
           ++ apply Htl in H. discriminate.
      * rewrite Hcs. split; auto. intros g t H. apply Ho in H. discriminate.
Qed.

Lemma dead_stays_dead fx m es id :
  Inv m -> id < m_next m -> get m id = None -> get (fst (run_from fx m es)) id = None.
Proof.
  revert m; induction es as [|e es IH]; intros m HI Hlt Hd; cbn; auto.
  pose proof (step_inv fx m e HI) as HI1. pose proof (step_ids fx m e HI) as [Hn _].
  destruct (step_conns fx m e id HI) as [Hd1 _]. specialize (Hd1 Hlt Hd).
  destruct (step fx m e) as [m1 o1]. cbn in *.
  specialize (IH m1 HI1 ltac:(lia) Hd1). destruct (run_from fx m1 es) as [m2 o2]. exact IH.
Qed.

Lemma run_from_removed_dead fx m es g t id :
  Inv m -> In (Removed g t id) (snd (run_from fx m es)) -> get (fst (run_from fx m es)) id = None.
Proof.
  revert m; induction es as [|e es IH]; intros m HI Hin; cbn in *; [contradiction|].
  pose proof (step_inv fx m e HI) as HI1. destruct (step_conns fx m e id HI) as [_ Hs].
  destruct (step fx m e) as [m1 o1]. cbn in *.
  pose proof (dead_stays_dead fx m1 es id HI1) as Hdd. specialize (IH m1 HI1).
  destruct (run_from fx m1 es) as [m2 o2]. cbn in *.
  apply in_app_or in Hin. destruct Hin as [Hin|Hin]; auto.
  destruct (Hs _ _ Hin) as [Hd Hlt]. auto.
Qed.

Theorem removed_id_not_handed_out fx n0 es g t id :
  In (Removed g t id) (snd (run_from fx (init n0) es)) -> get (fst (run_from fx (init n0) es)) id = None.
Proof. apply run_from_removed_dead, Inv_init. Qed.

(** * (i) a loss that the goroutine sees removes the connection, and the next READY makes a new one *)
Lemma run_from_cons_fst fx m e r : fst (run_from fx m (e :: r)) = fst (run_from fx (fst (step fx m e)) r).
Proof. cbn [run_from]. destruct (step fx m e) as [m1 o1]. cbn [fst snd]. destruct (run_from fx m1 r). reflexivity. Qed.

Lemma run_from_cons_snd fx m e r :
  snd (run_from fx m (e :: r)) = snd (step fx m e) ++ snd (run_from fx (fst (step fx m e)) r).
Proof. cbn [run_from]. destruct (step fx m e) as [m1 o1]. cbn [fst snd]. destruct (run_from fx m1 r). reflexivity. Qed.

Lemma run_from_app_fst fx m a b : fst (run_from fx m (a ++ b)) = fst (run_from fx (fst (run_from fx m a)) b).
Proof. rewrite run_from_app. destruct (run_from fx m a) as [m1 o1]. cbn [fst snd]. destruct (run_from fx m1 b). reflexivity. Qed.

Lemma run_from_app_snd fx m a b :
  snd (run_from fx m (a ++ b)) = snd (run_from fx m a) ++ snd (run_from fx (fst (run_from fx m a)) b).
Proof. rewrite run_from_app. destruct (run_from fx m a) as [m1 o1]. cbn [fst snd]. destruct (run_from fx m1 b). reflexivity. Qed.

Lemma samples_of_app g a b : samples_of g (a ++ b) = samples_of g a ++ samples_of g b.
Proof.
  induction a as [|e a IH]; cbn; auto. destruct e as [t|t|k s]; auto. destruct (Nat.eqb k g); cbn; rewrite IH; reflexivity.
Qed.

Lemma samples_of_cons g e r : samples_of g (e :: r) = samples_of g [e] ++ samples_of g r.
Proof. apply (samples_of_app g [e] r). Qed.

Lemma step_frame fx m e g go :
  Inv m -> samples_of g [e] = [] -> nth_error (m_gors m) g = Some go ->
  nth_error (m_gors (fst (step fx m e))) g = Some go.
Proof.
  intros HI Hs Hg. destruct e as [t|t|k s]; cbn in *.
  - destruct (lookup t (m_targets m)); cbn; auto. rewrite nth_error_app1; auto. apply nth_error_Some; congruence.
  - destruct (lookup t (m_targets m)); cbn; auto.
  - destruct (Nat.eqb k g) eqn:Hkg; [discriminate|]. apply Nat.eqb_neq in Hkg.
    destruct (gor_cases m k) as [Hd|[gk [Hk Ha]]].
    + rewrite (sample_dead _ _ _ _ Hd). exact Hg.
    + destruct (sample_spec fx m k s gk HI Hk Ha) as [go' (Hgs & _)].
      rewrite Hgs. rewrite set_nth_other by congruence. exact Hg.
Qed.

Lemma conn_alive m g go id : Inv m -> nth_error (m_gors m) g = Some go -> g_conn go = Some id ->
                             g_alive go = true /\ g_started go = true.
Proof.
  intros HI Hg Hc. destruct (inv_ok _ HI _ _ Hg) as [H1 H2].
  destruct (g_alive go); destruct (g_started go); auto; try (rewrite H1 in Hc by reflexivity; discriminate);
    rewrite H2 in Hc by reflexivity; discriminate.
Qed.

Lemma loss_seen_remove fx s : s <> Ready -> (s = Idle -> fx = true) -> loss_seen fx s = true.
Proof. destruct s; cbn; intros H1 H2; auto; try contradiction. Qed.

(** samples that are not seen as a loss leave the connection alone *)
Lemma keep_conn fx m es g go id :
  Inv m -> nth_error (m_gors m) g = Some go -> g_conn go = Some id ->
  (forall s, In s (samples_of g es) -> loss_seen fx s = false) ->
  exists go', nth_error (m_gors (fst (run_from fx m es))) g = Some go' /\ g_conn go' = Some id /\ g_target go' = g_target go.
Proof.
  revert m go; induction es as [|e es IH]; intros m go HI Hg Hc Hall.
  - exists go. auto.
  - rewrite run_from_cons_fst. rewrite samples_of_cons in Hall.
    assert (Hstep : exists go', nth_error (m_gors (fst (step fx m e))) g = Some go' /\ g_conn go' = Some id /\ g_target go' = g_target go).
    { destruct (samples_of g [e]) as [|s0 l0] eqn:Hse.
      - exists go. split; auto. apply step_frame; auto.
      - destruct e as [t|t|k s]; cbn in Hse; try discriminate.
        destruct (Nat.eqb k g) eqn:Hkg; [|discriminate]. apply Nat.eqb_eq in Hkg; subst k. inversion Hse; subst s0 l0.
        destruct (conn_alive _ _ _ _ HI Hg Hc) as [Ha Hst].
        destruct (sample_spec fx m g s go HI Hg Ha) as [go' (Hgs & _ & Ht & _ & _ & Hkind)]. cbn [step].
        exists go'. rewrite Hgs, (set_nth_same _ _ _ _ Hg). split; auto. split; auto.
        destruct Hkind as [Hc0 Hs Hc' Hcs Hn Ho | id' tl Hc0 Hst0 Hs Hfx Hc' Hcs Hn Ho Htl | Hc' Hcs Hn Ho _ _].
        + congruence.
        + pose proof (Hall s (or_introl eq_refl)) as Hf. pose proof (loss_seen_remove fx s Hs Hfx). congruence.
        + congruence. }
    destruct Hstep as [go1 (Hg1 & Hc1 & Ht1)].
    destruct (IH (fst (step fx m e)) go1 (step_inv fx m e HI) Hg1 Hc1) as [go' (H1 & H2 & H3)].
    { intros s Hs. apply Hall. apply in_or_app. right; exact Hs. }
    exists go'. repeat split; auto. congruence.
Qed.

(** the sample at which the loss is seen *)
Lemma at_loss fx m g go id s :
  Inv m -> nth_error (m_gors m) g = Some go -> g_conn go = Some id -> loss_seen fx s = true ->
  In (Removed g (g_target go) id) (snd (sample fx m g s)) /\ gconn (fst (sample fx m g s)) g = None /\
  (s <> Shutdown -> running (fst (sample fx m g s)) g).
Proof.
  intros HI Hg Hc Hl. destruct (conn_alive _ _ _ _ HI Hg Hc) as [Ha Hst].
  destruct (sample_spec fx m g s go HI Hg Ha) as [go' (Hgs & _ & Ht & Hst' & Ha' & Hkind)].
  assert (Hrun : s <> Shutdown -> running (fst (sample fx m g s)) g).
  { intros Hs. exists go'. rewrite Hgs, (set_nth_same _ _ _ _ Hg). repeat split; auto.
    rewrite Ha'. destruct s; auto; contradiction. }
  rewrite (gconn_set_nth _ _ _ _ g Hgs) by congruence. rewrite Nat.eqb_refl.
  destruct Hkind as [Hc0 Hs Hc' Hcs Hn Ho | id' tl Hc0 Hst0 Hs Hfx Hc' Hcs Hn Ho Htl | Hc' Hcs Hn Ho Hr Hdis].
  - congruence.
  - rewrite Ho. rewrite Hc in Hc0; inversion Hc0; subst id'. repeat split; auto. left; reflexivity.
  - exfalso. destruct (Hdis Hst) as [H|[H|[H1 H2]]]; subst; cbn in Hl; congruence.
Qed.

(** after the loss was seen: the goroutine runs, and whatever connection it has or gets has an id >= lo *)
Definition after_ok (lo : N) (m : mgr) (g : nat) : Prop :=
  running m g /\ lo <= m_next m /\ (forall id, gconn m g = Some id -> lo <= id).

Lemma after_ok_step fx m e g lo :
  Inv m -> after_ok lo m g -> ~ In Shutdown (samples_of g [e]) -> after_ok lo (fst (step fx m e)) g.
Proof.
  intros HI [[go (Hg & Ha & Hst)] [Hlo Hid]] Hns.
  pose proof (step_ids fx m e HI) as [Hmono _].
  destruct (samples_of g [e]) as [|s0 l0] eqn:Hse.
  - pose proof (step_frame fx m e g go HI Hse Hg) as Hg1. split; [|split].
    + exists go; auto.
    + lia.
    + intros id. unfold gconn in *. rewrite Hg1. rewrite Hg in Hid. auto.
  - destruct e as [t|t|k s]; cbn in Hse; try discriminate.
    destruct (Nat.eqb k g) eqn:Hkg; [|discriminate]. apply Nat.eqb_eq in Hkg; subst k. inversion Hse; subst s0 l0.
    assert (Hs : s <> Shutdown) by (intros ->; apply Hns; left; reflexivity).
    cbn [step] in *.
    destruct (sample_spec fx m g s go HI Hg Ha) as [go' (Hgs & _ & Ht & Hst' & Ha' & Hkind)].
    split; [|split].
    + exists go'. rewrite Hgs, (set_nth_same _ _ _ _ Hg). repeat split; auto. rewrite Ha'. destruct s; auto; contradiction.
    + lia.
    + intros id. rewrite (gconn_set_nth _ _ _ _ g Hgs) by congruence. rewrite Nat.eqb_refl.
      destruct Hkind as [Hc0 Hs0 Hc' Hcs Hn Ho | id' tl Hc0 Hst0 Hs0 Hfx Hc' Hcs Hn Ho Htl | Hc' Hcs Hn Ho Hr Hdis].
      * rewrite Hc'. intros H; inversion H; subst. exact Hlo.
      * rewrite Hc'. discriminate.
      * rewrite Hc'. intros H. apply Hid. unfold gconn. rewrite Hg. exact H.
Qed.

Lemma after_ok_run fx m es g lo :
  Inv m -> after_ok lo m g -> ~ In Shutdown (samples_of g es) -> after_ok lo (fst (run_from fx m es)) g.
Proof.
  revert m; induction es as [|e es IH]; intros m HI Hok Hns; [exact Hok|].
  rewrite run_from_cons_fst. rewrite samples_of_cons in Hns. apply IH.
  - apply step_inv; auto.
  - apply after_ok_step; auto. intros H. apply Hns. apply in_or_app. left; exact H.
  - intros H. apply Hns. apply in_or_app. right; exact H.
Qed.

Lemma final_ready fx m g lo :
  Inv m -> after_ok lo m g -> exists id2, gconn (fst (sample fx m g Ready)) g = Some id2 /\ lo <= id2.
Proof.
  intros HI [[go (Hg & Ha & Hst)] [Hlo Hid]].
  destruct (sample_spec fx m g Ready go HI Hg Ha) as [go' (Hgs & _ & Ht & Hst' & Ha' & Hkind)].
  rewrite (gconn_set_nth _ _ _ _ g Hgs) by congruence. rewrite Nat.eqb_refl.
  destruct Hkind as [Hc0 Hs0 Hc' Hcs Hn Ho | id' tl Hc0 Hst0 Hs0 Hfx Hc' Hcs Hn Ho Htl | Hc' Hcs Hn Ho Hr Hdis].
  - exists (m_next m). auto.
  - contradiction.
  - destruct (g_conn go) as [id|] eqn:Hc; [|exfalso; apply (Hr eq_refl); reflexivity].
    exists id. split; auto. apply Hid. unfold gconn. rewrite Hg. exact Hc.
Qed.

Lemma split_first (p : chan_state -> bool) g es :
  existsb p (samples_of g es) = true ->
  exists a s b, es = a ++ ESample g s :: b /\ p s = true /\ (forall x, In x (samples_of g a) -> p x = false).
Proof.
  induction es as [|e es IH]; cbn; [discriminate|]. intros H.
  assert (Hrec : existsb p (samples_of g es) = true ->
                 samples_of g [e] = [] \/ (exists s, e = ESample g s /\ p s = false) ->
                 exists a s b, e :: es = a ++ ESample g s :: b /\ p s = true /\ (forall x, In x (samples_of g a) -> p x = false)).
  { intros Hex He. destruct (IH Hex) as [a [s [b (-> & Hp & Hall)]]]. exists (e :: a), s, b. repeat split; auto.
    intros x Hx. rewrite samples_of_cons in Hx. apply in_app_or in Hx. destruct Hx as [Hx|Hx]; auto.
    destruct He as [He|[s' [-> Hp']]]; [rewrite He in Hx; contradiction|].
    cbn in Hx. rewrite Nat.eqb_refl in Hx. destruct Hx as [<-|[]]. exact Hp'. }
  destruct e as [t|t|k s]; try (apply Hrec; auto; fail).
  destruct (Nat.eqb k g) eqn:Hkg.
  - apply Nat.eqb_eq in Hkg; subst k. cbn in H. destruct (p s) eqn:Hp.
    + exists [], s, es. repeat split; auto. intros x [].
    + apply Hrec; auto. right. exists s; auto.
  - apply Hrec; auto. left. cbn. rewrite Hkg. reflexivity.
Qed.

Theorem seen_loss_replaces fx m g go id1 es2 :
  Inv m -> nth_error (m_gors m) g = Some go -> g_conn go = Some id1 ->
  existsb (loss_seen fx) (samples_of g es2) = true -> ~ In Shutdown (samples_of g es2) ->
  In (Removed g (g_target go) id1) (snd (run_from fx m (es2 ++ [ESample g Ready]))) /\
  exists id2, gconn (fst (run_from fx m (es2 ++ [ESample g Ready]))) g = Some id2 /\ id1 < id2.
Proof.
  intros HI Hg Hc Hex Hns.
  destruct (split_first _ _ _ Hex) as [a [s [b (-> & Hp & Hall)]]].
  rewrite samples_of_app in Hns. cbn in Hns. rewrite Nat.eqb_refl in Hns.
  assert (Hs : s <> Shutdown). { intros ->. apply Hns. apply in_or_app. right. left. reflexivity. }
  assert (Hnb : ~ In Shutdown (samples_of g b)). { intros H. apply Hns. apply in_or_app. right. right. exact H. }
  rewrite <- app_assoc. cbn [app].
  rewrite run_from_app_fst, run_from_app_snd.
  set (ma := fst (run_from fx m a)).
  assert (HIa : Inv ma) by (apply run_from_inv; auto).
  destruct (keep_conn fx m a g go id1 HI Hg Hc Hall) as [goa (Hga & Hca & Hta)]. fold ma in Hga.
  rewrite run_from_cons_fst, run_from_cons_snd. cbn [step].
  destruct (at_loss fx ma g goa id1 s HIa Hga Hca Hp) as (Hrem & Hnone & Hrun).
  set (ms := fst (sample fx ma g s)) in *.
  assert (HIs : Inv ms) by (apply (step_inv fx ma (ESample g s)); auto).
  pose proof (step_ids fx ma (ESample g s) HIa) as [Hmono _]. cbn [step] in Hmono. fold ms in Hmono.
  destruct (inv_own _ HIa _ _ _ Hga Hca) as [_ Hlt].
  assert (Hok : after_ok (m_next ms) ms g).
  { split; [apply Hrun; auto|]. split; [lia|]. intros id H. rewrite Hnone in H. discriminate. }
  rewrite run_from_app_fst, run_from_app_snd.
  pose proof (after_ok_run fx ms b g (m_next ms) HIs Hok Hnb) as Hokb.
  set (mb := fst (run_from fx ms b)) in *.
  assert (HIb : Inv mb) by (apply run_from_inv; auto).
  destruct (final_ready fx mb g (m_next ms) HIb Hokb) as [id2 (Hid2 & Hle)].
  split.
  - apply in_or_app. right. apply in_or_app. left. rewrite <- Hta. exact Hrem.
  - exists id2. split; [|lia]. rewrite run_from_cons_fst. cbn [step run_from fst]. exact Hid2.
Qed.

(** ** the same for a channel whose every state the goroutine reads *)
Lemma chan_ok_app_r a b : chan_ok (a ++ b) = true -> chan_ok b = true.
Proof.
  induction a as [|x a IH]; auto. intros H. apply IH. cbn [app] in H.
  destruct (a ++ b) as [|y r] eqn:Hab; auto. cbn in H. apply andb_true_iff in H. apply H.
Qed.

Lemma chan_ok_no_shutdown_inside l x : chan_ok (l ++ [x]) = true -> ~ In Shutdown l.
Proof.
  induction l as [|a l IH]; intros H Hin; [contradiction|].
  cbn [app] in H. destruct (l ++ [x]) as [|b r] eqn:Hlx; [destruct l; discriminate|].
  cbn in H. apply andb_true_iff in H. destruct H as [H1 H2]. destruct Hin as [->|Hin].
  - discriminate.
  - apply IH; auto.
Qed.

Lemma chan_ok_before_ready l : chan_ok (l ++ [Ready]) = true -> l <> [] -> exists l', l = l' ++ [Connecting].
Proof.
  intros H Hne. destruct (exists_last Hne) as [l' [y ->]]. exists l'. f_equal.
  rewrite <- app_assoc in H. apply chan_ok_app_r in H. cbn in H. destruct y; try discriminate. reflexivity.
Qed.

Theorem channel_loss_replaces fx m g go id1 es2 :
  Inv m -> nth_error (m_gors m) g = Some go -> g_conn go = Some id1 ->
  samples_of g es2 <> [] -> chan_ok (Ready :: samples_of g es2 ++ [Ready]) = true ->
  In (Removed g (g_target go) id1) (snd (run_from fx m (es2 ++ [ESample g Ready]))) /\
  exists id2, gconn (fst (run_from fx m (es2 ++ [ESample g Ready]))) g = Some id2 /\ id1 < id2.
Proof.
  intros HI Hg Hc Hne Hok. apply seen_loss_replaces; auto.
  - change (Ready :: samples_of g es2 ++ [Ready]) with ([Ready] ++ (samples_of g es2 ++ [Ready])) in Hok.
    apply chan_ok_app_r in Hok. destruct (chan_ok_before_ready _ Hok Hne) as [l' ->].
    rewrite existsb_app. cbn. apply orb_true_r.
  - intros Hin. change (Ready :: samples_of g es2 ++ [Ready]) with ((Ready :: samples_of g es2) ++ [Ready]) in Hok.
    apply (chan_ok_no_shutdown_inside _ _ Hok). right; exact Hin.
Qed.

(** the two theorems above for the states the manager can be in *)
Theorem seen_loss_replaces_run fx n0 es1 g go id1 es2 :
  let m := fst (run_from fx (init n0) es1) in
  nth_error (m_gors m) g = Some go -> g_conn go = Some id1 ->
  existsb (loss_seen fx) (samples_of g es2) = true -> ~ In Shutdown (samples_of g es2) ->
  In (Removed g (g_target go) id1) (snd (run_from fx m (es2 ++ [ESample g Ready]))) /\
  exists id2, gconn (fst (run_from fx m (es2 ++ [ESample g Ready]))) g = Some id2 /\ id1 < id2.
Proof. cbn zeta. apply seen_loss_replaces. apply run_from_inv, Inv_init. Qed.

Theorem channel_loss_replaces_run fx n0 es1 g go id1 es2 :
  let m := fst (run_from fx (init n0) es1) in
  nth_error (m_gors m) g = Some go -> g_conn go = Some id1 ->
  samples_of g es2 <> [] -> chan_ok (Ready :: samples_of g es2 ++ [Ready]) = true ->
  In (Removed g (g_target go) id1) (snd (run_from fx m (es2 ++ [ESample g Ready]))) /\
  exists id2, gconn (fst (run_from fx m (es2 ++ [ESample g Ready]))) g = Some id2 /\ id1 < id2.
Proof. cbn zeta. apply channel_loss_replaces. apply run_from_inv, Inv_init. Qed.

(* Proofs about the connection manager model Model/ConnMgr.v (stdlib only).
   [fx = false]: conn_manager.go as it is; [fx = true]: with the proposed repair CONN-1. *)
From Coq Require Import List NArith Bool Lia Arith.
From OC Require Import Model.ConnMgr.
Import ListNotations.
Open Scope N_scope.

(** * Lists *)
Lemma set_nth_same {A} (l : list A) n x y : nth_error l n = Some y -> nth_error (set_nth n x l) n = Some x.
Proof.
  revert n; induction l as [|a l IH]; intros [|n] Hn; cbn in *; try discriminate; auto.
Qed.

Lemma set_nth_other {A} (l : list A) n k x : k <> n -> nth_error (set_nth n x l) k = nth_error l k.
Proof.
  revert n k; induction l as [|a l IH]; intros [|n] [|k] Hk; cbn; auto; try congruence.
Qed.

Lemma set_nth_none {A} (l : list A) n x : nth_error l n = None -> set_nth n x l = l.
Proof.
  revert n; induction l as [|a l IH]; intros [|n] Hn; cbn in *; try discriminate; auto. f_equal; auto.
Qed.

Lemma nth_error_snoc {A} (l : list A) x g y :
  nth_error (l ++ [x]) g = Some y -> nth_error l g = Some y \/ (g = length l /\ y = x /\ nth_error l g = None).
Proof.
  intros H. destruct (Nat.lt_ge_cases g (length l)) as [Hlt|Hge].
  - left. rewrite nth_error_app1 in H; auto.
  - right. rewrite nth_error_app2 in H by exact Hge.
    destruct (g - length l)%nat as [|k] eqn:Hk; cbn in H.
    + inversion H; subst. repeat split; try lia. apply nth_error_None; lia.
    + destruct k; discriminate.
Qed.

Lemma lookup_remove_key {A} (l : list (N * A)) k k' :
  lookup k (remove_key k' l) = if k =? k' then None else lookup k l.
Proof.
  unfold remove_key. induction l as [|[a v] l IH]; cbn [filter lookup fst].
  - destruct (k =? k'); reflexivity.
  - destruct (a =? k') eqn:Ha; cbn [negb lookup].
    + apply N.eqb_eq in Ha; subst a. rewrite IH. destruct (k =? k') eqn:Hk; auto.
      rewrite N.eqb_sym, Hk. reflexivity.
    + destruct (a =? k) eqn:Hak; auto.
      apply N.eqb_eq in Hak; subst a. rewrite Ha. reflexivity.
Qed.

(** * Views of the state *)
Definition gconn (m : mgr) (g : nat) : option N :=
  match nth_error (m_gors m) g with Some go => g_conn go | None => None end.

Definition running (m : mgr) (g : nat) : Prop :=
  exists go, nth_error (m_gors m) g = Some go /\ g_alive go = true /\ g_started go = true.

Definition gor_ok (go : gor) : Prop :=
  (g_started go = false -> g_conn go = None) /\ (g_alive go = false -> g_conn go = None).

Record Inv (m : mgr) : Prop := mkInv {
  inv_ok : forall g go, nth_error (m_gors m) g = Some go -> gor_ok go;
  inv_own : forall g go id, nth_error (m_gors m) g = Some go -> g_conn go = Some id ->
                            lookup id (m_conns m) = Some (g_target go) /\ id < m_next m;
  inv_map : forall id t, lookup id (m_conns m) = Some t ->
                         id < m_next m /\ exists g go, nth_error (m_gors m) g = Some go /\ g_conn go = Some id /\ g_target go = t;
  inv_uniq : forall g1 g2 go1 go2 id, nth_error (m_gors m) g1 = Some go1 -> nth_error (m_gors m) g2 = Some go2 ->
                                      g_conn go1 = Some id -> g_conn go2 = Some id -> g1 = g2 }.

Lemma Inv_init n0 : Inv (init n0).
Proof.
  split; cbn.
  - intros [|g] go H; discriminate.
  - intros [|g] go id H; discriminate.
  - intros id t H; discriminate.
  - intros [|g1] g2 go1 go2 id H; discriminate.
Qed.

(** * The three ways a sample changes the state *)
Lemma set_gor_inv m g go go' :
  Inv m -> nth_error (m_gors m) g = Some go -> g_conn go' = g_conn go -> g_target go' = g_target go -> gor_ok go' ->
  Inv (set_gor m g go').
Proof.
  intros [Hok Hown Hmap Huq] Hg Hc Ht Hgo'. split; cbn.
  - intros k x Hk. destruct (Nat.eq_dec k g) as [->|Hne].
    + rewrite (set_nth_same _ _ _ _ Hg) in Hk. inversion Hk; subst; auto.
    + rewrite set_nth_other in Hk by exact Hne. eauto.
  - intros k x id Hk Hx. destruct (Nat.eq_dec k g) as [->|Hne].
    + rewrite (set_nth_same _ _ _ _ Hg) in Hk. inversion Hk; subst x. rewrite Ht. rewrite Hc in Hx. eauto.
    + rewrite set_nth_other in Hk by exact Hne. eauto.
  - intros id t Hl. destruct (Hmap id t Hl) as [Hlt [k [x [Hk [Hx Htx]]]]]. split; auto.
    destruct (Nat.eq_dec k g) as [->|Hne].
    + exists g, go'. rewrite (set_nth_same _ _ _ _ Hg). rewrite Hk in Hg; inversion Hg; subst x.
      split; [reflexivity|]. split; [rewrite Hc; exact Hx|rewrite Ht; exact Htx].
    + exists k, x. rewrite set_nth_other by exact Hne. auto.
  - intros g1 g2 x1 x2 id H1 H2 Hx1 Hx2.
    assert (Hback : forall k x, nth_error (set_nth g go' (m_gors m)) k = Some x ->
                                exists y, nth_error (m_gors m) k = Some y /\ g_conn y = g_conn x).
    { intros k x Hk. destruct (Nat.eq_dec k g) as [->|Hne].
      - rewrite (set_nth_same _ _ _ _ Hg) in Hk. inversion Hk; subst. exists go; auto.
      - rewrite set_nth_other in Hk by exact Hne. exists x; auto. }
    destruct (Hback _ _ H1) as [y1 [Hy1 Hc1]]. destruct (Hback _ _ H2) as [y2 [Hy2 Hc2]].
    apply (Huq g1 g2 y1 y2 id Hy1 Hy2); congruence.
Qed.

Lemma add_conn_inv m g go :
  Inv m -> nth_error (m_gors m) g = Some go -> g_conn go = None -> g_alive go = true -> Inv (fst (add_conn m g go)).
Proof.
  intros [Hok Hown Hmap Huq] Hg Hc Ha. unfold add_conn; cbn. split; cbn.
  - intros k x Hk. destruct (Nat.eq_dec k g) as [->|Hne].
    + rewrite (set_nth_same _ _ _ _ Hg) in Hk. inversion Hk; subst. split; cbn; intros; congruence.
    + rewrite set_nth_other in Hk by exact Hne. eauto.
  - intros k x id Hk Hx. destruct (Nat.eq_dec k g) as [->|Hne].
    + rewrite (set_nth_same _ _ _ _ Hg) in Hk. inversion Hk; subst x. cbn in *. inversion Hx; subst id.
      rewrite N.eqb_refl. split; [reflexivity|lia].
    + rewrite set_nth_other in Hk by exact Hne. destruct (Hown _ _ _ Hk Hx) as [Hl Hlt].
      destruct (m_next m =? id) eqn:He; [apply N.eqb_eq in He; lia|]. split; [exact Hl|lia].
  - intros id t Hl. destruct (m_next m =? id) eqn:He.
    + apply N.eqb_eq in He; subst id. inversion Hl; subst t. split; [lia|].
      exists g. eexists. rewrite (set_nth_same _ _ _ _ Hg). repeat split.
    + destruct (Hmap id t Hl) as [Hlt [k [x [Hk [Hx Htx]]]]]. split; [lia|].
      assert (k <> g) by (intros ->; congruence).
      exists k, x. rewrite set_nth_other by assumption. auto.
  - intros g1 g2 x1 x2 id H1 H2 Hx1 Hx2.
    destruct (Nat.eq_dec g1 g) as [->|Hn1]; destruct (Nat.eq_dec g2 g) as [->|Hn2]; auto.
    + rewrite (set_nth_same _ _ _ _ Hg) in H1. inversion H1; subst x1. cbn in Hx1. inversion Hx1; subst id.
      rewrite set_nth_other in H2 by exact Hn2. destruct (Hown _ _ _ H2 Hx2); lia.
    + rewrite (set_nth_same _ _ _ _ Hg) in H2. inversion H2; subst x2. cbn in Hx2. inversion Hx2; subst id.
      rewrite set_nth_other in H1 by exact Hn1. destruct (Hown _ _ _ H1 Hx1); lia.
    + rewrite set_nth_other in H1, H2 by assumption. eauto.
Qed.

Lemma remove_conn_eq m g go id :
  Inv m -> nth_error (m_gors m) g = Some go -> g_conn go = Some id ->
  remove_conn m g go id =
  (mkMgr (m_targets m) (set_nth g (mkGor (g_target go) None true (g_alive go)) (m_gors m)) (remove_key id (m_conns m)) (m_next m),
   [Removed g (g_target go) id]).
Proof.
  intros HI Hg Hc. unfold remove_conn. destruct (inv_own _ HI _ _ _ Hg Hc) as [-> _]. reflexivity.
Qed.

Lemma remove_conn_inv m g go id :
  Inv m -> nth_error (m_gors m) g = Some go -> g_conn go = Some id -> Inv (fst (remove_conn m g go id)).
Proof.
  intros HI Hg Hc. rewrite (remove_conn_eq _ _ _ _ HI Hg Hc). destruct HI as [Hok Hown Hmap Huq]. split; cbn.
  - intros k x Hk. destruct (Nat.eq_dec k g) as [->|Hne].
    + rewrite (set_nth_same _ _ _ _ Hg) in Hk. inversion Hk; subst. split; cbn; intros; auto.
    + rewrite set_nth_other in Hk by exact Hne. eauto.
  - intros k x id' Hk Hx. destruct (Nat.eq_dec k g) as [->|Hne].
    + rewrite (set_nth_same _ _ _ _ Hg) in Hk. inversion Hk; subst x. discriminate.
    + rewrite set_nth_other in Hk by exact Hne. destruct (Hown _ _ _ Hk Hx) as [Hl Hlt]. split; auto.
      rewrite lookup_remove_key. destruct (id' =? id) eqn:He; auto.
      apply N.eqb_eq in He; subst id'. exfalso. apply Hne. eapply Huq; eauto.
  - intros id' t Hl. rewrite lookup_remove_key in Hl. destruct (id' =? id) eqn:He; [discriminate|].
    destruct (Hmap id' t Hl) as [Hlt [k [x [Hk [Hx Htx]]]]]. split; auto.
    assert (k <> g). { intros ->. rewrite Hk in Hg; inversion Hg; subst x. rewrite Hx in Hc; inversion Hc; subst.
                       rewrite N.eqb_refl in He; discriminate. }
    exists k, x. rewrite set_nth_other by assumption. auto.
  - intros g1 g2 x1 x2 id' H1 H2 Hx1 Hx2.
    destruct (Nat.eq_dec g1 g) as [->|Hn1].
    { rewrite (set_nth_same _ _ _ _ Hg) in H1. inversion H1; subst x1. discriminate. }
    destruct (Nat.eq_dec g2 g) as [->|Hn2].
    { rewrite (set_nth_same _ _ _ _ Hg) in H2. inversion H2; subst x2. discriminate. }
    rewrite set_nth_other in H1, H2 by assumption. eauto.
Qed.


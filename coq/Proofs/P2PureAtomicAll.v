(* C01, value level, on the executable instance: all or none, on the values.
     - run_persist: along a run of well-formed labels and complete invocations a live stored value of a target stays
       where it is unless a later commit of a proposal of that target touches its path;
     - all_or_none_values_partial: in a world reached from init by well-formed labels and complete invocations in
       which no reconciler has anything left to do, for every transaction EITHER every listed proposal is COMMITTED
       and the target's live view (what Get returns) shows every update of that proposal's change, unless a later
       commit of that target touched the path (that commit is exhibited as a position of the run), OR no proposal of
       the transaction ever had a Commit phase and no step of any of its proposals altered the live view of any target.
   Premise not discharged here ([committed_means_merged], a statement about the cursors): a proposal that is
   COMMITTED at the end was merged by a commit step of the run that found Committed.Index = PrevIndex (the code marks
   a committing proposal COMMITTED without merging when the index is elsewhere). *)
From stdpp Require Import gmap.
From RecordUpdate Require Import RecordUpdate.
From Coq Require Import NArith Lia Permutation.
From OC Require Import Base.Bytes Model.P2Pure Model.Proto2 Model.P2Inst Proofs.P2Base Proofs.P2Phases Proofs.P2_Cursor
     Proofs.P2_Converge Proofs.P2_ConvergeEx Proofs.P2_Order Proofs.P2_OrderStep.
From OC Require Import Proofs.P2PureApplyDefs Proofs.P2PureApplyBase Proofs.P2PureApplySem Proofs.P2PureApplySound
     Proofs.P2PureApplyStatus Proofs.P2PureApplyInst Proofs.P2PureReachPure Proofs.P2PureReachInv Proofs.P2PureReachEff
     Proofs.P2PureReachDyn Proofs.P2PureReachRun Proofs.P2PureReachLabels Proofs.P2PureAtomicCommit Proofs.P2PureAtomicFrame.
Open Scope N_scope.

Notation run_from := (fold_left p2_step).

Lemma cfg_step_some (w : Wd) (l : Label) t (C : Cfg) : cfgs w !! t = Some C -> exists C' : Cfg, cfgs (p2_step w l) !! t = Some C'.
Proof.
  intros HC. unfold p2_step. destruct l as [chs sy se|ri|c k o|c t0|c|c t0|t0 p|t0|t0]; cbn [Proto2.step]; try (exists C; exact HC).
  - eexists. apply (cfg_fold dev_apply []). exact HC.
  - destruct (conns w !! c); exists C; exact HC.
  - destruct (rels w !! c); exists C; exact HC.
Qed.

Lemma completes_app (a b : list Label) : forall w, completes w (a ++ b) <-> completes w a /\ completes (run_from a w) b.
Proof. induction a as [|l a IH]; intros w; cbn; [tauto|]. rewrite IH. tauto. Qed.

Section Run.
  Context (Lf : N -> str -> Prop) (Lf_free : forall t p q, Lf t p -> Lf t q -> ~ Below p q).

  (* the position of a commit step of a proposal of [t] whose values touch [p], in the run [ls] started in [w] *)
  Definition touched_in (w : Wd) (ls : list Label) (t : N) (p : str) : Prop :=
    exists ls1 ls2 j n o (Q : Prop2),
      ls = ls1 ++ LRec (CtlProp (t, j)) n o :: ls2 /\ props (run_from ls1 w) !! (t, j) = Some Q /\
      p_commit Q = Some Doing /\ touches (rb_change [] Q) p.

  Theorem run_persist (ls : list Label) : forall (w : Wd) t (C : Cfg) p e,
    Inv Lf w -> run_good Lf w ls -> cfgs w !! t = Some C -> plookup p (c_values C) = Some e -> pv_deleted e = false ->
    (exists C' : Cfg, cfgs (run_from ls w) !! t = Some C' /\ plookup p (c_values C') = Some e) \/ touched_in w ls t p.
  Proof.
    induction ls as [|l ls IH]; intros w t C p e HI Hg HC He Hlv; [left; exists C; auto|].
    destruct Hg as (G1 & G2 & G3). destruct (cfg_step_some w l t C HC) as [C1 HC1]. cbn [fold_left].
    destruct (live_value_persists Lf w l t C C1 p e HI G1 G2 HC HC1 He Hlv) as [H1|(j & n & o & Q & -> & HQ & Hc & _ & _ & _ & Ht)].
    - destruct (IH (p2_step w l) t C1 p e (inv_step Lf Lf_free w l HI G1 G2) G3 HC1 H1 Hlv) as [Hl|(ls1 & ls2 & j & n & o & Q & -> & HQ & Hc & Ht)]; [left; exact Hl|].
      right. exists (l :: ls1), ls2, j, n, o, Q. auto.
    - right. exists [], ls, j, n, o, Q. auto.
  Qed.
End Run.

(* every proposal that is COMMITTED at the end of the run was merged by a commit step of the run *)
Definition committed_means_merged (ls : list Label) : Prop :=
  forall t i (P : Prop2), props (x_run ls) !! (t, i) = Some P -> p_commit P = Some Done ->
    exists ls1 ls2 n o (P0 : Prop2) (C0 : Cfg),
      ls = ls1 ++ LRec (CtlProp (t, i)) n o :: ls2 /\ props (x_run ls1) !! (t, i) = Some P0 /\
      p_commit P0 = Some Doing /\ p_apply P0 = None /\ p_abort P0 = None /\
      cfgs (x_run ls1) !! t = Some C0 /\ c_committed C0 = p_prev P0.

Notation i_reconcile_nothing w := (forall c o, fst (p2_reconcile o w c) = []).

Theorem all_or_none_values_partial (ls : list Label) :
  labels_wfb ls = true -> completes p2_init ls -> i_reconcile_nothing (x_run ls) -> committed_means_merged ls ->
  forall i (T : Txn), txs (x_run ls) !! i = Some T ->
    (* every listed proposal committed, its updates shown unless a later commit touched the path *)
    (forall t, In t (default [] (t_props T)) ->
       exists (P : Prop2) (C : Cfg), props (x_run ls) !! (t, i) = Some P /\ p_commit P = Some Done /\ cfgs (x_run ls) !! t = Some C /\
         forall c p u, p_details P = PChange c -> In (p, u) c -> pv_deleted u = false ->
           In (p, pv_val u) (live (view overlay C)) \/
           exists ls1 ls2 n o, ls = ls1 ++ LRec (CtlProp (t, i)) n o :: ls2 /\
                               touched_in (x_run (ls1 ++ [LRec (CtlProp (t, i)) n o])) ls2 t p) \/
    (* no proposal ever in Commit, no live view altered by a step of its proposals *)
    ((forall t P, props (x_run ls) !! (t, i) = Some P -> p_commit P = None) /\
     forall ls1 ls2 t n o t' (C C' : Cfg), ls = ls1 ++ LRec (CtlProp (t, i)) n o :: ls2 ->
       cfgs (x_run ls1) !! t' = Some C -> cfgs (p2_step (x_run ls1) (LRec (CtlProp (t, i)) n o)) !! t' = Some C' ->
       live (view overlay C') = live (view overlay C)).
Proof.
  intros Hw Hc Hfix Hmm i T HT.
  pose proof (Lf_of_free ls Hw) as Lf_free. pose proof (run_good_labels ls Hw Hc) as Hg.
  assert (Hinv : forall ls1 ls2, ls = ls1 ++ ls2 -> Inv (Lf_of ls) (x_run ls1) /\ run_good (Lf_of ls) (x_run ls1) ls2).
  { intros ls1 ls2 ->. apply (run_good_app (Lf_of (ls1 ++ ls2))) in Hg. destruct Hg as [G1 G2].
    split; [|exact G2]. apply (inv_run _ Lf_free ls1 p2_init (inv_init _) G1). }
  destruct (all_or_none_at_fixpoint candidate candidate_rb rollback_of overlay commit_merge payload record_applied touched restore
              resync_payload doc_ok dev_apply stamp [] [] [] (x_run ls) (x_run_reach ls) Hfix i T HT) as [Hall|Hnone].
  - left. intros t Hin. destruct (Hall t Hin) as (P & HP & Hd).
    destruct (Hmm t i P HP Hd) as (ls1 & ls2 & n & o & P0 & C0 & Hsplit & HP0 & E1 & E2 & E3 & HC0 & E4).
    set (l := LRec (CtlProp (t, i)) n o) in *.
    destruct (Hinv ls1 (l :: ls2) Hsplit) as [HI1 (G1 & G2 & G3)].
    destruct (cfg_step_some (x_run ls1) l t C0 HC0) as [C1 HC1].
    pose proof (inv_step _ Lf_free _ l HI1 G1 G2) as HI2.
    assert (Hend : x_run ls = run_from ls2 (p2_step (x_run ls1) l)).
    { rewrite Hsplit. unfold x_run. rewrite fold_left_app. reflexivity. }
    assert (HCend : exists C : Cfg, cfgs (x_run ls) !! t = Some C).
    { rewrite Hend. clear -HC1. revert C1 HC1. generalize (p2_step (x_run ls1) l). induction ls2 as [|l2 ls2 IH]; intros w1 C1 HC1; [eauto|].
      cbn [fold_left]. destruct (cfg_step_some w1 l2 t C1 HC1) as [C2 HC2]. eapply IH; eauto. }
    destruct HCend as [C HC]. exists P, C. repeat split; auto.
    intros c p u Hdt Hin_c Hlv.
    (* the details of the proposal did not change *)
    assert (Hdt0 : p_details P0 = PChange c).
    { destruct (run_mono candidate candidate_rb rollback_of overlay commit_merge payload record_applied touched restore
                  resync_payload doc_ok dev_apply stamp [] [] [] (l :: ls2) (x_run ls1) (x_run_reach ls1)) as [_ (_ & Hm & _)].
      destruct (Hm _ _ HP0) as (P' & HP' & Hle & _). change (fold_left _ (l :: ls2) (x_run ls1)) with (run_from ls2 (p2_step (x_run ls1) l)) in HP'.
      rewrite <- Hend, HP in HP'. injection HP' as <-. congruence. }
    assert (Hn : (2 <= n)%nat).
    { assert (Hlen : (length (fst (p2_reconcile o (x_run ls1) (CtlProp (t, i)))) <= n)%nat) by exact G2.
      rewrite (commit_effects o (x_run ls1) t i P0 C0 HP0 HC0 E1 E2 E3 E4) in Hlen. cbn [length] in Hlen. lia. }
    destruct (commit_contains_change (Lf_of ls) (x_run ls1) t i n o P0 C0 C1 c HI1 HP0 Hdt0 HC0 E1 E2 E3 E4 Hn HC1) as (_ & Hshow & _).
    pose proof (Hshow p u Hin_c Hlv) as Hl1.
    destruct HI2 as [HS2 HD2]. destruct (dc_wf _ _ HS2 t C1 HC1) as (W1 & _ & W3 & _).
    apply (live_in _ _ _ (WF_overlay _ _ W3 W1)) in Hl1. destruct Hl1 as (v & Hv1 & Hv2 & Hv3 & _).
    rewrite (dc_view_lookup _ _ HS2 t C1 HC1 (HD2 t C1 HC1)) in Hv1.
    destruct (run_persist (Lf_of ls) Lf_free ls2 (p2_step (x_run ls1) l) t C1 p v (conj HS2 HD2) G3 HC1 Hv1 Hv2) as [(C' & HC' & Hk)|Ht].
    + left. rewrite <- Hend, HC in HC'. injection HC' as <-.
      destruct (Hinv ls [] (eq_sym (app_nil_r ls))) as [[HSe HDe] _]. destruct (dc_wf _ _ HSe t C HC) as (We1 & _ & We3 & _).
      apply (live_in _ _ _ (WF_overlay _ _ We3 We1)). exists v.
      rewrite (dc_view_lookup _ _ HSe t C HC (HDe t C HC)). split; [exact Hk|]. split; [exact Hv2|]. split; [exact Hv3|].
      apply (nlb_spec _ _ v (proj1 (WF_overlay _ _ We3 We1)) (dc_view_nlb _ _ HSe t C HC (HDe t C HC))); [|exact Hv2].
      rewrite (dc_view_lookup _ _ HSe t C HC (HDe t C HC)). exact Hk.
    + right. exists ls1, ls2, n, o. split; [exact Hsplit|]. unfold x_run at 1. rewrite fold_left_app. exact Ht.
  - right. split; [exact Hnone|]. intros ls1 ls2 t n o t' C C' Hsplit HC HC'.
    set (l := LRec (CtlProp (t, i)) n o) in *.
    destruct (Hinv ls1 (l :: ls2) Hsplit) as [HI1 (G1 & G2 & G3)].
    destruct (live_view_frame (Lf_of ls) Lf_free (x_run ls1) l t' C C' HI1 G1 G2 HC HC') as [E|(i0 & n0 & o0 & P0 & Hl & HP0 & E1 & _)]; [exact E|].
    exfalso. unfold l in Hl. injection Hl as <- <- _ _.
    destruct (run_mono candidate candidate_rb rollback_of overlay commit_merge payload record_applied touched restore
                resync_payload doc_ok dev_apply stamp [] [] [] (l :: ls2) (x_run ls1) (x_run_reach ls1)) as [_ (_ & Hm & _)].
    destruct (Hm _ _ HP0) as (P' & HP' & _ & _ & _ & Hle & _).
    assert (Hend : x_run ls = fold_left p2_step (l :: ls2) (x_run ls1)) by (rewrite Hsplit; unfold x_run; rewrite fold_left_app; reflexivity).
    assert (HP'' : props (x_run ls) !! (t, i) = Some P') by (rewrite Hend; exact HP').
    rewrite (Hnone _ _ HP''), E1 in Hle. discriminate Hle.
Qed.

(** * The step theorems stated on runs from the initial world (no invariant hypothesis left) *)
Lemma inv_prefix (ls1 ls2 : list Label) :
  labels_wfb (ls1 ++ ls2) = true -> completes p2_init (ls1 ++ ls2) ->
  Inv (Lf_of (ls1 ++ ls2)) (x_run ls1) /\ run_good (Lf_of (ls1 ++ ls2)) (x_run ls1) ls2.
Proof.
  intros Hw Hc. pose proof (run_good_labels _ Hw Hc) as Hg. apply (run_good_app (Lf_of (ls1 ++ ls2))) in Hg. destruct Hg as [G1 G2].
  split; [|exact G2]. apply (inv_run _ (Lf_of_free _ Hw) ls1 p2_init (inv_init _) G1).
Qed.

Theorem commit_contains_change_run (ls : list Label) t i n (o : oracle) (P : Prop2) (C C' : Cfg) c :
  labels_wfb (ls ++ [LRec (CtlProp (t, i)) n o]) = true -> completes p2_init (ls ++ [LRec (CtlProp (t, i)) n o]) ->
  props (x_run ls) !! (t, i) = Some P -> p_details P = PChange c -> cfgs (x_run ls) !! t = Some C ->
  p_commit P = Some Doing -> p_apply P = None -> p_abort P = None -> c_committed C = p_prev P ->
  cfgs (p2_step (x_run ls) (LRec (CtlProp (t, i)) n o)) !! t = Some C' ->
  c_committed C' = i /\
  (forall p u, In (p, u) c -> pv_deleted u = false -> In (p, pv_val u) (live (view overlay C'))) /\
  (forall d u, In (d, u) c -> pv_deleted u = true ->
     forall k x, In (k, x) (live (view overlay C')) -> k <> d /\ ~ Below k d).
Proof.
  intros Hw Hc HP Hdt HC E1 E2 E3 E4 HC'. destruct (inv_prefix ls _ Hw Hc) as [HI (G1 & G2 & _)].
  assert (Hn : (2 <= n)%nat).
  { assert (Hlen : (length (fst (p2_reconcile o (x_run ls) (CtlProp (t, i)))) <= n)%nat) by exact G2.
    rewrite (commit_effects o (x_run ls) t i P C HP HC E1 E2 E3 E4) in Hlen. cbn [length] in Hlen. lia. }
  exact (commit_contains_change _ (x_run ls) t i n o P C C' c HI HP Hdt HC E1 E2 E3 E4 Hn HC').
Qed.

Theorem live_view_frame_run (ls : list Label) (l : Label) t (C C' : Cfg) :
  labels_wfb (ls ++ [l]) = true -> completes p2_init (ls ++ [l]) ->
  cfgs (x_run ls) !! t = Some C -> cfgs (p2_step (x_run ls) l) !! t = Some C' ->
  live (view overlay C') = live (view overlay C) \/
  exists i n o (P : Prop2), l = LRec (CtlProp (t, i)) n o /\ props (x_run ls) !! (t, i) = Some P /\
    p_commit P = Some Doing /\ p_apply P = None /\ p_abort P = None /\ c_committed C = p_prev P /\ (0 < n)%nat.
Proof.
  intros Hw Hc HC HC'. destruct (inv_prefix ls _ Hw Hc) as [HI (G1 & G2 & _)].
  exact (live_view_frame _ (Lf_of_free _ Hw) (x_run ls) l t C C' HI G1 G2 HC HC').
Qed.

Theorem other_target_keeps_run (ls : list Label) t' i n o t (C C' : Cfg) :
  labels_wfb (ls ++ [LRec (CtlProp (t', i)) n o]) = true -> completes p2_init (ls ++ [LRec (CtlProp (t', i)) n o]) -> t' <> t ->
  cfgs (x_run ls) !! t = Some C -> cfgs (p2_step (x_run ls) (LRec (CtlProp (t', i)) n o)) !! t = Some C' ->
  live (view overlay C') = live (view overlay C).
Proof.
  intros Hw Hc Hne HC HC'. destruct (inv_prefix ls _ Hw Hc) as [HI (G1 & G2 & _)].
  exact (other_target_keeps _ (Lf_of_free _ Hw) (x_run ls) t' i n o t C C' HI G2 Hne HC HC').
Qed.

Theorem live_value_persists_run (ls : list Label) (l : Label) t (C C' : Cfg) p e :
  labels_wfb (ls ++ [l]) = true -> completes p2_init (ls ++ [l]) ->
  cfgs (x_run ls) !! t = Some C -> cfgs (p2_step (x_run ls) l) !! t = Some C' ->
  plookup p (c_values C) = Some e -> pv_deleted e = false ->
  plookup p (c_values C') = Some e \/
  exists i n o (P : Prop2), l = LRec (CtlProp (t, i)) n o /\ props (x_run ls) !! (t, i) = Some P /\
    p_commit P = Some Doing /\ p_apply P = None /\ p_abort P = None /\ c_committed C = p_prev P /\
    touches (rb_change [] P) p.
Proof.
  intros Hw Hc HC HC' He Hlv. destruct (inv_prefix ls _ Hw Hc) as [HI (G1 & G2 & _)].
  exact (live_value_persists _ (x_run ls) l t C C' p e HI G1 G2 HC HC' He Hlv).
Qed.

(* The step lists of Spec/Gnmi.v and the gNMI paths of property C16 (Model/Path.v): for a path the Set handler accepts
   (YANG identifiers as element and key names, key values over IndexAllowedChars) the text utils.StrPath prints is the
   rendering of its steps - name, then the keys in the order StrPath prints them (sorted by key name) - and these steps
   are well formed, so PathAbstraction.v applies to every accepted path. *)
From Coq Require Import List NArith Bool Lia Permutation.
From OC Require Import Base.Bytes Model.Merge Model.Path Spec.Gnmi Proofs.PathAbstraction.
Import ListNotations.
Open Scope N_scope.

Definition steps_of_elem (e : elem) : spath :=
  SName (e_name e) :: map (fun kv => SKey (fst kv) (snd kv)) (isort key_leb (e_keys e)).
Definition steps_of (p : gpath) : spath := concat (map steps_of_elem p).

Lemma ident_char_facts c : ident_char c = true ->
  c <> c_slash /\ c <> c_bslash /\ c <> c_lbr /\ c <> c_eq.
Proof.
  unfold ident_char, alnum, between, c_slash, c_bslash, c_lbr, c_eq.
  rewrite !orb_true_iff, !andb_true_iff, !N.leb_le, !N.eqb_eq. lia.
Qed.

Lemma index_char_facts c : index_char c = true -> c <> c_rbr /\ c <> c_bslash.
Proof.
  unfold index_char, alnum, between, c_rbr, c_bslash.
  rewrite !orb_true_iff, !andb_true_iff, !N.leb_le, !N.eqb_eq. lia.
Qed.

Lemma safe_id esc s : (forall c, In c s -> c <> esc /\ c <> c_bslash) -> safe esc s = s.
Proof.
  induction s as [|c s IH]; cbn; intros H; [reflexivity|].
  destruct (H c (or_introl eq_refl)) as [H1 H2].
  apply N.eqb_neq in H1, H2. rewrite H1, H2. cbn. f_equal. apply IH. intros x HI. apply H. right. exact HI.
Qed.

Lemma ident_parts s : ident s = true -> s <> [] /\ forall c, In c s -> ident_char c = true.
Proof.
  unfold ident. rewrite andb_true_iff, forallb_forall. intros [H1 H2]. split; [|exact H2].
  destruct s; [discriminate | discriminate].
Qed.

Lemma index_parts s : index_allowed s = true -> forall c, In c s -> index_char c = true.
Proof. unfold index_allowed. rewrite andb_true_iff, forallb_forall. intros [_ H]. exact H. Qed.

Definition key_acc (kv : str * str) : Prop := ident (fst kv) = true /\ index_allowed (snd kv) = true.

Lemma render_keys_steps ks : Forall key_acc ks ->
  concat (map render_key ks) = render (map (fun kv => SKey (fst kv) (snd kv)) ks).
Proof.
  induction ks as [|[k v] ks IH]; intros F; [reflexivity|].
  inversion F as [|? ? [_ Hv] Fks]; subst. cbn [map concat]. rewrite render_cons, (IH Fks).
  unfold render_key. cbn [fst snd render_step].
  rewrite (safe_id c_rbr v); [reflexivity|].
  intros c HI. apply index_char_facts. apply (index_parts v Hv c HI).
Qed.

Lemma keys_steps_wf ks : Forall key_acc ks -> spath_wf (map (fun kv => SKey (fst kv) (snd kv)) ks).
Proof.
  induction ks as [|[k v] ks IH]; intros F; [constructor|].
  inversion F as [|? ? [Hk Hv] Fks]; subst. constructor; [|apply IH; exact Fks].
  cbn [fst snd step_wf] in *. split; intros HI.
  - destruct (ident_parts k Hk) as [_ H]. destruct (ident_char_facts _ (H _ HI)) as [_ [_ [_ E]]]. congruence.
  - destruct (index_char_facts _ (index_parts v Hv _ HI)) as [E _]. congruence.
Qed.

Lemma accepted_elem_steps e : accepted_elem e = true ->
  c_slash :: Path.render e = render (steps_of_elem e) /\ spath_wf (steps_of_elem e).
Proof.
  unfold accepted_elem. rewrite !andb_true_iff, forallb_forall. intros [[Hn Hk] _].
  destruct (ident_parts _ Hn) as [NE Hc].
  assert (F : Forall key_acc (isort key_leb (e_keys e))).
  { apply Forall_forall. intros kv HI. apply (Permutation_in _ (Permutation_sym (isort_perm key_leb (e_keys e)))) in HI.
    specialize (Hk kv HI). apply andb_true_iff in Hk. exact Hk. }
  split.
  - unfold Path.render, steps_of_elem, render_keys. rewrite render_cons. cbn [render_step].
    rewrite (render_keys_steps _ F). rewrite (safe_id c_slash (e_name e)); [reflexivity|].
    intros c HI. destruct (ident_char_facts c (Hc c HI)) as [H1 [H2 _]]. auto.
  - unfold steps_of_elem. constructor; [|apply keys_steps_wf; exact F].
    split; [exact NE|]. intros c HI. destruct (ident_char_facts c (Hc c HI)) as [H1 [_ [H3 _]]].
    unfold is_boundary. apply N.eqb_neq in H1, H3. rewrite H1, H3. reflexivity.
Qed.

Theorem accepted_path_steps p : accepted_gpath p = true ->
  str_path p = render (steps_of p) /\ spath_wf (steps_of p) /\ steps_of p <> [].
Proof.
  unfold accepted_gpath. destruct p as [|e0 p0]; [discriminate|]. intros H.
  assert (G : str_path_elem (e0 :: p0) = render (steps_of (e0 :: p0)) /\ spath_wf (steps_of (e0 :: p0))).
  { revert H. generalize (e0 :: p0). intros p. induction p as [|e p IH]; intros H; [split; [reflexivity | constructor]|].
    cbn [forallb] in H. apply andb_true_iff in H. destruct H as [He Hp].
    destruct (accepted_elem_steps e He) as [E1 W1]. destruct (IH Hp) as [E2 W2].
    unfold steps_of, str_path_elem in *. cbn [map concat]. split.
    - rewrite render_app, <- E1, <- E2. reflexivity.
    - apply Forall_app. split; assumption. }
  destruct G as [G1 G2]. split; [exact G1|]. split; [exact G2|]. unfold steps_of, steps_of_elem. cbn. discriminate.
Qed.

(* hence, between the texts of two accepted paths, "beneath" is "proper prefix of the steps" *)
Corollary accepted_below p q : accepted_gpath p = true -> accepted_gpath q = true ->
  is_path_below (str_path p) (str_path q) = sprefix (steps_of q) (steps_of p) && negb (eqb_spath (steps_of q) (steps_of p)).
Proof.
  intros Hp Hq. destruct (accepted_path_steps p Hp) as [-> [Wp _]]. destruct (accepted_path_steps q Hq) as [-> [Wq Nq]].
  apply below_is_proper_sprefix; assumption.
Qed.

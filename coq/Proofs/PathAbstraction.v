(* From textual paths to element lists (the steps of Spec/Gnmi.v).
   render writes a step list the way onos-config prints a gNMI path: "/" name for an element, "[" key "=" value "]" for
   each of its keys.  For well-formed steps (no '/' or '[' in an element name, no '=' in a key name, no ']' in a key
   value, names not empty)
     - render is injective,
     - "text p is beneath text q at a '/' or '[' boundary" (utils.IsPathBelow) holds exactly when the steps of q are a
       PROPER PREFIX of the steps of p: a container above its children, a key-less list name above every entry, a
       leading subset of the keys above every entry having them - and never a name that merely shares a textual prefix. *)
From Coq Require Import List NArith Bool Lia.
From OC Require Import Base.Bytes Model.Merge Spec.Gnmi Proofs.MergeProofs Proofs.TextPathProofs.
Import ListNotations.
Open Scope N_scope.

Definition render_step (s : step) : str :=
  match s with
  | SName n => c_slash :: n
  | SKey k v => c_lbr :: k ++ c_eq :: v ++ [c_rbr]
  end.

Definition render (p : spath) : str := concat (map render_step p).

Definition no_boundary (s : str) : Prop := forall c, In c s -> is_boundary c = false.

Definition step_wf (s : step) : Prop :=
  match s with
  | SName n => n <> [] /\ no_boundary n
  | SKey k v => ~ In c_eq k /\ ~ In c_rbr v
  end.

Definition spath_wf (p : spath) : Prop := Forall step_wf p.

(* the boolean form *)
Definition step_wfb (s : step) : bool :=
  match s with
  | SName n => negb (eqb_str n []) && forallb (fun c => negb (is_boundary c)) n
  | SKey k v => forallb (fun c => negb (c =? c_eq)) k && forallb (fun c => negb (c =? c_rbr)) v
  end.
Definition spath_wfb (p : spath) : bool := forallb step_wfb p.

Lemma step_wfb_ok s : step_wfb s = true -> step_wf s.
Proof.
  destruct s as [n|k v]; cbn; rewrite andb_true_iff, !forallb_forall; intros [H1 H2].
  - split; [apply negb_true_iff in H1; apply eqb_str_neq in H1; exact H1|].
    intros c HI. specialize (H2 c HI). apply negb_true_iff in H2. exact H2.
  - split; intros HI.
    + specialize (H1 _ HI). rewrite N.eqb_refl in H1. discriminate.
    + specialize (H2 _ HI). rewrite N.eqb_refl in H2. discriminate.
Qed.

Lemma spath_wfb_ok p : spath_wfb p = true -> spath_wf p.
Proof.
  unfold spath_wfb, spath_wf. rewrite forallb_forall. intros H. apply Forall_forall. intros s HI.
  apply step_wfb_ok, H, HI.
Qed.

(* a text that is empty or starts at a path element boundary *)
Definition bstart (r : str) : Prop := match r with [] => True | c :: _ => is_boundary c = true end.

Lemma render_cons s p : render (s :: p) = render_step s ++ render p.
Proof. reflexivity. Qed.

Lemma render_app p q : render (p ++ q) = render p ++ render q.
Proof. unfold render. rewrite map_app, concat_app. reflexivity. Qed.

Lemma render_step_start s : exists c r, render_step s = c :: r /\ is_boundary c = true.
Proof. destruct s as [n|k v]; cbn; eexists; eexists; split; reflexivity. Qed.

Lemma render_bstart p : bstart (render p).
Proof.
  destruct p as [|s p]; [exact I|]. rewrite render_cons.
  destruct (render_step_start s) as [c [r [-> B]]]. exact B.
Qed.

Lemma render_nonempty s p : render (s :: p) <> [].
Proof. rewrite render_cons. destruct (render_step_start s) as [c [r [-> _]]]. discriminate. Qed.

Lemma bstart_app (a b : str) : bstart a -> bstart b -> bstart (a ++ b).
Proof. destruct a; cbn; auto. Qed.

(* ------------------------------------------------------------------ unique readability *)
Lemma name_split n : forall m R1 R2, no_boundary n -> no_boundary m -> bstart R1 -> bstart R2 ->
  n ++ R1 = m ++ R2 -> n = m /\ R1 = R2.
Proof.
  induction n as [|x n IH]; intros m R1 R2 Hn Hm B1 B2 E.
  - destruct m as [|y m]; [auto|]. exfalso. cbn in E. subst R1. cbn in B1.
    rewrite (Hm y (or_introl eq_refl)) in B1. discriminate.
  - destruct m as [|y m].
    + exfalso. cbn in E. subst R2. cbn in B2. rewrite (Hn x (or_introl eq_refl)) in B2. discriminate.
    + cbn in E. injection E as -> E.
      destruct (IH m R1 R2) as [-> ->]; auto.
      * intros c HI. apply Hn. right. exact HI.
      * intros c HI. apply Hm. right. exact HI.
  Qed.

Lemma delim_split (d : N) (a : str) : forall (a' X Y : str), ~ In d a -> ~ In d a' -> a ++ d :: X = a' ++ d :: Y -> a = a' /\ X = Y.
Proof.
  induction a as [|x a IH]; intros a' X Y Ha Ha' E.
  - destruct a' as [|y a']; cbn in E; [injection E as ->; auto|].
    injection E as -> _. exfalso. apply Ha'. left. reflexivity.
  - destruct a' as [|y a']; cbn in E.
    + injection E as -> _. exfalso. apply Ha. left. reflexivity.
    + injection E as -> E. destruct (IH a' X Y) as [-> ->]; auto.
      * intros HI. apply Ha. right. exact HI.
      * intros HI. apply Ha'. right. exact HI.
Qed.

Lemma step_split s t R1 R2 : step_wf s -> step_wf t -> bstart R1 -> bstart R2 ->
  render_step s ++ R1 = render_step t ++ R2 -> s = t /\ R1 = R2.
Proof.
  intros Ws Wt B1 B2 E. destruct s as [n|k v]; destruct t as [m|k' v']; cbn in E; try discriminate.
  - injection E as E. destruct Ws as [_ Hn]. destruct Wt as [_ Hm].
    destruct (name_split n m R1 R2 Hn Hm B1 B2 E) as [-> ->]. auto.
  - injection E as E. destruct Ws as [Hk Hv]. destruct Wt as [Hk' Hv'].
    rewrite <- !app_assoc in E. cbn in E.
    destruct (delim_split c_eq k k' _ _ Hk Hk' E) as [-> E2].
    rewrite <- !app_assoc in E2. cbn in E2.
    destruct (delim_split c_rbr v v' _ _ Hv Hv' E2) as [-> ->]. auto.
Qed.

Lemma render_prefix_gen q : forall p R, spath_wf q -> spath_wf p -> bstart R ->
  render q ++ R = render p -> exists rest, p = q ++ rest /\ render rest = R.
Proof.
  induction q as [|s q IH]; intros p R Wq Wp BR E.
  - exists p. cbn in E. auto.
  - inversion Wq as [|? ? Ws Wq']; subst.
    destruct p as [|t p].
    + exfalso. rewrite render_cons in E. destruct (render_step_start s) as [c [r [Es _]]]. rewrite Es in E. discriminate.
    + inversion Wp as [|? ? Wt Wp']; subst. rewrite !render_cons, <- app_assoc in E.
      destruct (step_split s t (render q ++ R) (render p) Ws Wt) as [-> E'];
        [apply bstart_app; [apply render_bstart | exact BR] | apply render_bstart | exact E |].
      destruct (IH p R Wq' Wp' BR E') as [rest [-> HR]]. exists rest. auto.
Qed.

Theorem render_injective p q : spath_wf p -> spath_wf q -> render p = render q -> p = q.
Proof.
  intros Wp Wq E. destruct (render_prefix_gen p q [] Wp Wq I) as [rest [-> HR]]; [rewrite app_nil_r; exact E|].
  destruct rest as [|s rest]; [rewrite app_nil_r; reflexivity|]. exfalso. apply (render_nonempty s rest HR).
Qed.

Lemma render_proper p : spath_wf p -> p <> [] -> proper (render p).
Proof.
  intros W NE. destruct p as [|s p]; [congruence|]. split; [apply render_nonempty|].
  inversion W as [|? ? Ws _]; subst. rewrite render_cons. destruct s as [n|k v]; cbn.
  - destruct Ws as [Hn _]. destruct n; [congruence | discriminate].
  - discriminate.
Qed.

(* ------------------------------------------------------------------ beneath = proper prefix of the steps *)
Theorem below_iff_proper_prefix p q : spath_wf p -> spath_wf q -> q <> [] ->
  (is_path_below (render p) (render q) = true <-> exists rest, rest <> [] /\ p = q ++ rest).
Proof.
  intros Wp Wq NE. rewrite (below_iff (render p) (render q) (render_proper q Wq NE)). split.
  - intros [c [r [E B]]].
    destruct (render_prefix_gen q p (c :: r) Wq Wp B (eq_sym E)) as [rest [-> HR]].
    exists rest. split; [|reflexivity]. intros ->. discriminate.
  - intros [rest [NR ->]]. rewrite render_app. destruct rest as [|s rest]; [congruence|].
    rewrite render_cons. destruct (render_step_start s) as [c [r [-> B]]]. exists c, (r ++ render rest). auto.
Qed.

(* the same with the boolean prefix test of Spec/Gnmi.v *)
Lemma eqb_step_eq a b : eqb_step a b = true <-> a = b.
Proof.
  destruct a as [x|k v]; destruct b as [y|k' v']; cbn; split; try congruence.
  - intros H. apply eqb_str_eq in H. congruence.
  - intros [= ->]. apply eqb_str_refl.
  - rewrite andb_true_iff, !eqb_str_eq. intros [-> ->]. reflexivity.
  - intros [= -> ->]. rewrite !eqb_str_refl. reflexivity.
Qed.

Lemma eqb_spath_eq a : forall b, eqb_spath a b = true <-> a = b.
Proof.
  induction a as [|x a IH]; intros [|y b]; cbn; split; try congruence; try reflexivity.
  - rewrite andb_true_iff, eqb_step_eq, IH. intros [-> ->]. reflexivity.
  - intros [= -> ->]. rewrite andb_true_iff, eqb_step_eq, IH. auto.
Qed.

Lemma eqb_spath_refl a : eqb_spath a a = true.
Proof. apply eqb_spath_eq. reflexivity. Qed.

Lemma sprefix_spec d : forall p, sprefix d p = true <-> exists rest, p = d ++ rest.
Proof.
  induction d as [|x d IH]; intros p; cbn.
  - split; [intros _; exists p; reflexivity | reflexivity].
  - destruct p as [|y p]; [split; [discriminate | intros [rest H]; discriminate]|].
    rewrite andb_true_iff, eqb_step_eq, IH. split.
    + intros [-> [rest ->]]. exists rest. reflexivity.
    + intros [rest [= -> ->]]. split; [reflexivity | exists rest; reflexivity].
Qed.

Theorem below_is_proper_sprefix p q : spath_wf p -> spath_wf q -> q <> [] ->
  is_path_below (render p) (render q) = sprefix q p && negb (eqb_spath q p).
Proof.
  intros Wp Wq NE.
  destruct (is_path_below (render p) (render q)) eqn:B.
  - apply (below_iff_proper_prefix p q Wp Wq NE) in B. destruct B as [rest [NR ->]]. symmetry.
    apply andb_true_iff. split; [apply sprefix_spec; exists rest; reflexivity|].
    apply negb_true_iff. destruct (eqb_spath q (q ++ rest)) eqn:E; [|reflexivity].
    apply eqb_spath_eq in E. rewrite <- (app_nil_r q) in E at 1. apply app_inv_head in E. congruence.
  - symmetry. destruct (sprefix q p) eqn:S; [|reflexivity]. cbn [andb]. apply negb_false_iff.
    apply sprefix_spec in S. destruct S as [rest ->].
    destruct rest as [|s rest]; [rewrite app_nil_r; apply eqb_spath_refl|]. exfalso.
    assert (H : is_path_below (render (q ++ s :: rest)) (render q) = true).
    { apply (below_iff_proper_prefix _ q Wp Wq NE). exists (s :: rest). split; [discriminate | reflexivity]. }
    congruence.
Qed.

Lemma eqb_render p q : spath_wf p -> spath_wf q -> eqb_str (render p) (render q) = eqb_spath p q.
Proof.
  intros Wp Wq. destruct (eqb_spath p q) eqn:E.
  - apply eqb_spath_eq in E. subst. apply eqb_str_refl.
  - apply eqb_str_neq. intros H. apply (render_injective p q Wp Wq) in H. subst.
    rewrite eqb_spath_refl in E. discriminate.
Qed.

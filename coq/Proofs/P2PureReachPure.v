(* C04, concrete pure layer, what the reachability invariant (Proofs/P2PureReachInv.v) needs of Model/P2Pure.v:
   - the loaded view as mutated by AddDeleteChildren (touched) in closed form;
   - commit_merge: what the commit stores is well-formed again with no entry beneath a tombstone;
   - where the values of every stored map come from (the inputs, or tombstones marked by AddDeleteChildren);
   - the recorded rollback values are a well-formed change when values live at leaves (uses the specification of
     rollback_of proved in Proofs/P2PureRollbackRb.v).  Stdlib only. *)
From Coq Require Import List PeanoNat NArith Bool Lia Permutation Sorted.
From OC Require Import Base.Bytes Model.P2Pure Proofs.P2PureApplyDefs Proofs.P2PureApplyBase Proofs.P2PureApplySem
     Proofs.P2PureApplySound Proofs.P2PureApplyStatus.
From OC Require Proofs.P2PureRollbackBase Proofs.P2PureRollbackAdc Proofs.P2PureRollbackCommit Proofs.P2PureRollbackRb.
Import ListNotations.
Open Scope N_scope.

(** * touched: the view after AddDeleteChildren *)
Definition hitb (c : cmap) (e : pv) : bool :=
  existsb (fun kc => pv_deleted (snd kc) && is_path_below (pv_path e) (pv_path (snd kc))) c.
Definition markv (i : N) (e : pv) : pv := mkPV (pv_path e) (pv_val e) true i.
Definition markif (i : N) (c : cmap) (e : pv) : pv := if hitb c e then markv i e else e.
Definition markmap (i : N) (c vw : cmap) : cmap := map (fun kv => (fst kv, markif i c (snd kv))) vw.

Lemma adc_snd i c : forall upd st, snd (fold_left (adc_step i) c (upd, st)) = markmap i c st.
Proof.
  induction c as [|[k0 cv] c IH]; intros upd st; cbn [fold_left].
  - unfold markmap, markif, hitb. cbn. induction st as [|[k v] st IHs]; cbn; [reflexivity|]. rewrite <- IHs. reflexivity.
  - cbn [adc_step]. destruct (pv_deleted cv) eqn:Ed; rewrite IH; unfold markmap.
    + rewrite map_map. apply map_ext. intros [k v]. cbn [fst snd]. unfold markif, hitb. cbn [existsb fst snd]. rewrite Ed. cbn [andb].
      destruct (is_path_below (pv_path v) (pv_path cv)) eqn:Eh; cbn [fst snd orb].
      * fold (hitb c (markv i v)). destruct (existsb _ c); reflexivity.
      * reflexivity.
    + apply map_ext. intros [k v]. cbn [fst snd]. unfold markif, hitb. cbn [existsb fst snd]. rewrite Ed. reflexivity.
Qed.

Lemma touched_markmap i vw ch : touched i vw ch = markmap i ch vw.
Proof. unfold touched. rewrite adc_fold. apply adc_snd. Qed.

Lemma adc_pair i c vw : add_delete_children i c vw = (fst (add_delete_children i c vw), markmap i c vw).
Proof. rewrite (surjective_pairing (add_delete_children i c vw)) at 1. f_equal. rewrite adc_fold. apply adc_snd. Qed.

Lemma markmap_keys i c vw : map fst (markmap i c vw) = map fst vw.
Proof. unfold markmap. rewrite map_map. reflexivity. Qed.

Lemma markif_path i c e : pv_path (markif i c e) = pv_path e.
Proof. unfold markif. destruct (hitb c e); reflexivity. Qed.

Lemma markmap_in i c vw k v' : In (k, v') (markmap i c vw) <-> exists v, In (k, v) vw /\ v' = markif i c v.
Proof.
  unfold markmap. rewrite in_map_iff. split.
  - intros ([k0 v] & [= <- <-] & Hin). exists v. auto.
  - intros (v & Hin & ->). exists (k, v). auto.
Qed.

Lemma markmap_WF i c vw : WF vw -> WF (markmap i c vw).
Proof.
  intros [Hn Hk]. split; [unfold ND; rewrite markmap_keys; exact Hn|].
  intros k v' Hin. apply markmap_in in Hin. destruct Hin as (v & Hin & ->). rewrite markif_path. apply Hk. exact Hin.
Qed.

Lemma markmap_lookup i c vw k : lookup k (markmap i c vw) = option_map (markif i c) (lookup k vw).
Proof. unfold markmap. induction vw as [|[k0 v0] vw IH]; cbn; [reflexivity|]. destruct (eqb_str k k0); [reflexivity|exact IH]. Qed.

Lemma hitb_spec c e : hitb c e = true <-> exists kc cv, In (kc, cv) c /\ pv_deleted cv = true /\ is_path_below (pv_path e) (pv_path cv) = true.
Proof.
  unfold hitb. rewrite existsb_exists. split.
  - intros ([kc cv] & Hin & H). cbn in H. apply andb_true_iff in H. exists kc, cv. tauto.
  - intros (kc & cv & Hin & H1 & H2). exists (kc, cv). cbn. rewrite H1, H2. auto.
Qed.

(* no live value beneath a tombstone: kept by the marking *)
Lemma markmap_nlb i c vw : WF vw -> KO c -> no_live_below vw = true -> no_live_below (markmap i c vw) = true.
Proof.
  intros Hw Hc Hn. unfold no_live_below. apply forallb_forall. intros [k v'] Hin. cbn.
  destruct (pv_deleted v') eqn:Ed; [reflexivity|]. cbn. apply negb_true_iff.
  apply markmap_in in Hin. destruct Hin as (v & Hin & ->).
  assert (Hh : hitb c v = false) by (unfold markif in Ed; destruct (hitb c v); [discriminate|reflexivity]).
  unfold markif in Ed. rewrite Hh in Ed.
  destruct (covered (markmap i c vw) k) eqn:Ec; [|reflexivity]. exfalso. apply covered_spec in Ec.
  destruct Ec as (t & e' & Ht & Hde & Hb). apply markmap_in in Ht. destruct Ht as (e & Ht & ->).
  destruct (proj2 Hw _ _ Hin) as [Hpk _]. destruct (proj2 Hw _ _ Ht) as [Hpt Hprt].
  unfold markif in Hde. destruct (hitb c e) eqn:Ehe.
  - apply hitb_spec in Ehe. destruct Ehe as (kc & cv & Hc1 & Hc2 & Hc3).
    assert (hitb c v = true); [|congruence]. apply hitb_spec. exists kc, cv. split; [exact Hc1|]. split; [exact Hc2|].
    destruct (Hc _ _ Hc1) as [Hkc Hpc]. rewrite <- Hkc in *. rewrite <- Hpk, <- Hpt in *.
    apply (below_spec _ _ Hpc). eapply Below_trans; [apply (below_spec _ _ Hprt); exact Hb|apply (below_spec _ _ Hpc); exact Hc3].
  - assert (Hcv : covered vw k = false) by (apply (nlb_spec vw k v (proj1 Hw) Hn); [apply in_lookup; [apply Hw|exact Hin]|exact Ed]).
    rewrite (cov_intro vw t e k Ht Hde Hb) in Hcv. discriminate.
Qed.

(** * commit_merge *)
Lemma commit_merge_eq ord i m vw ch :
  commit_merge ord i m vw ch =
  store_write m (act_fold (permute (rest_code (length ch) ord) (fst (add_delete_children i (permute ord ch) vw)))
                          (markmap i (permute ord ch) vw)).
Proof. unfold commit_merge. rewrite (adc_pair i (permute ord ch) vw). reflexivity. Qed.

Lemma record_applied_eq ord i m va vw ch :
  record_applied ord i m va vw ch =
  store_write m (act_fold (permute (rest_code (length ch) ord) (fst (add_delete_children i (permute ord ch) vw))) va).
Proof. reflexivity. Qed.

Lemma upd_spec_permuted ord i ch vw : WFC ch -> upd_spec i ch vw (fst (add_delete_children i (permute ord ch) vw)).
Proof.
  intros Hch. pose proof (permute_perm ord ch) as Hp. apply (upd_spec_perm i (permute ord ch) ch); [exact Hp|].
  apply adc_spec. apply (WFC_perm ch); [apply Permutation_sym; exact Hp|exact Hch].
Qed.

Section Commit.
  Context (ord i : N) (m vw ch : cmap).
  Context (Hm : WF m) (Hvw : WF vw) (Hsub : forall k e, lookup k m = Some e -> lookup k vw = Some e)
          (Hnlb : no_live_below vw = true) (Hch : WFC ch) (Hic : idx_compat m ch = true).

  Let upd' := fst (add_delete_children i (permute ord ch) vw).
  Let l := permute (rest_code (length ch) ord) upd'.
  Let st := markmap i (permute ord ch) vw.

  Lemma cm_st_WF : WF st.
  Proof. apply markmap_WF. exact Hvw. Qed.
  Lemma cm_st_nlb : no_live_below st = true.
  Proof. apply markmap_nlb; [exact Hvw| |exact Hnlb]. apply (WF_perm ch); [apply Permutation_sym; apply permute_perm|apply Hch]. Qed.
  Lemma cm_vam k e : lookup k m = Some e ->
    lookup k st = Some e \/ (In k (paths vw) /\ exists kc cv, In (kc, cv) ch /\ pv_deleted cv = true /\ Below k kc).
  Proof.
    intros H. pose proof (Hsub _ _ H) as Hv. unfold st. rewrite markmap_lookup, Hv. cbn. unfold markif.
    destruct (hitb (permute ord ch) e) eqn:Eh; [right|left; reflexivity].
    destruct (KO_lookup _ _ _ (proj2 Hvw) Hv) as [Hpe _]. split.
    - unfold paths. apply in_map_iff. exists (k, e). split; [exact Hpe|apply lookup_in; exact Hv].
    - apply hitb_spec in Eh. destruct Eh as (kc & cv & H1 & H2 & H3). apply (Permutation_in _ (permute_perm ord ch)) in H1.
      exists kc, cv. split; [exact H1|]. split; [exact H2|]. destruct (proj2 (proj1 Hch) _ _ H1) as [Hkc Hpc].
      rewrite Hpe, <- Hkc in H3. apply (below_spec _ _ Hpc). exact H3.
  Qed.

  Theorem commit_merge_wf : WF (commit_merge ord i m vw ch) /\ no_entry_below (commit_merge ord i m vw ch) = true.
  Proof.
    pose proof (upd_spec_permuted ord i ch vw Hch) as Hu'. fold upd' in Hu'.
    pose proof (permute_perm (rest_code (length ch) ord) upd') as Hl. fold l in Hl.
    rewrite commit_merge_eq. fold upd' l st.
    pose proof (stored_WF i m st vw ch upd' l cm_st_WF Hm Hch Hu' Hl) as Hw.
    pose proof (stored_no_entry_below i m st vw ch upd' l cm_st_WF Hm cm_st_nlb cm_vam Hch Hic Hu' Hl) as Hne.
    assert (HwR : WF (store_write m (act_fold l st))).
    { apply store_write_spec; [|exact Hm]. apply (Xc_WF i st vw ch upd' l); [apply cm_st_WF|assumption..]. }
    rewrite (overlay_nil _ (proj1 HwR)) in Hne. split; [exact HwR|].
    unfold no_entry_below. apply forallb_forall. intros [k v] Hin. cbn. apply negb_true_iff. apply (Hne k v).
    apply in_lookup; [apply HwR|exact Hin].
  Qed.
End Commit.

(** * Where the values come from *)
(* a tombstone written by AddDeleteChildren for the change [ch] of index [i] *)
Definition is_mark (i : N) (ch : cmap) (x : str * pv) : Prop :=
  pv_path (snd x) = fst x /\ pv_deleted (snd x) = true /\ pv_index (snd x) = i /\
  exists kc cv, In (kc, cv) ch /\ pv_deleted cv = true /\ Below (fst x) kc.

Lemma store_write_In m X x : WF X -> WF m -> In x (store_write m X) -> In x m \/ In x X.
Proof.
  intros HX Hm. rewrite sw_fold. destruct (sw_inv m X HX Hm X [] m eq_refl (proj1 Hm)) as (_ & R2 & _).
  - auto.
  - intros k. unfold sw_val. cbn [lookup]. destruct (lookup k X); [reflexivity|]. unfold clrb. cbn. rewrite andb_false_r. reflexivity.
  - apply R2.
Qed.

Lemma restore_In m va x : WF va -> WF m -> In x (restore m va) -> In x m \/ In x va.
Proof. apply store_write_In. Qed.

Lemma upd_In ord i ch vw x : WFC ch -> In x (fst (add_delete_children i (permute ord ch) vw)) -> In x ch \/ is_mark i ch x.
Proof.
  intros Hch Hin. pose proof (upd_spec_permuted ord i ch vw Hch) as Hu. destruct x as [k v].
  apply (in_lookup _ _ _ (ui_nd _ _ _ _ _ Hu)) in Hin.
  destruct (ui_cases _ _ _ _ _ Hu _ _ Hin) as [H|(H1 & H2 & H3 & _ & kc & cv & H6 & H7 & H8)]; [left; exact H|].
  right. split; [exact H1|]. split; [exact H2|]. split; [exact H3|]. exists kc, cv. auto.
Qed.

Lemma markmap_In i ord ch vw x : WF vw -> WFC ch -> In x (markmap i (permute ord ch) vw) -> In x vw \/ is_mark i ch x.
Proof.
  intros Hvw Hch Hin. destruct x as [k v']. apply markmap_in in Hin. destruct Hin as (v & Hin & ->).
  unfold markif. destruct (hitb (permute ord ch) v) eqn:Eh; [right|left; exact Hin].
  destruct (proj2 Hvw _ _ Hin) as [Hk _]. apply hitb_spec in Eh. destruct Eh as (kc & cv & H1 & H2 & H3).
  apply (Permutation_in _ (permute_perm ord ch)) in H1. destruct (proj2 (proj1 Hch) _ _ H1) as [Hkc Hpc].
  split; [cbn; auto|]. split; [reflexivity|]. split; [reflexivity|]. exists kc, cv. split; [exact H1|]. split; [exact H2|].
  cbn [fst]. rewrite <- Hk, <- Hkc in H3. apply (below_spec _ _ Hpc). exact H3.
Qed.

Lemma touched_In i vw ch x : WF vw -> WFC ch -> In x (touched i vw ch) -> In x vw \/ is_mark i ch x.
Proof.
  intros Hvw Hch. rewrite touched_markmap. intros Hin. destruct x as [k v']. apply markmap_in in Hin. destruct Hin as (v & Hin & ->).
  unfold markif. destruct (hitb ch v) eqn:Eh; [right|left; exact Hin].
  destruct (proj2 Hvw _ _ Hin) as [Hk _]. apply hitb_spec in Eh. destruct Eh as (kc & cv & H1 & H2 & H3).
  destruct (proj2 (proj1 Hch) _ _ H1) as [Hkc Hpc].
  split; [cbn; auto|]. split; [reflexivity|]. split; [reflexivity|]. exists kc, cv. split; [exact H1|]. split; [exact H2|].
  cbn [fst]. rewrite <- Hk, <- Hkc in H3. apply (below_spec _ _ Hpc). exact H3.
Qed.

Lemma touched_WF i vw ch : WF vw -> WF (touched i vw ch).
Proof. rewrite touched_markmap. apply markmap_WF. Qed.

Lemma touched_keys i vw ch : map fst (touched i vw ch) = map fst vw.
Proof. rewrite touched_markmap. apply markmap_keys. Qed.

Lemma upd_KO ord i ch vw : WFC ch -> WF (fst (add_delete_children i (permute ord ch) vw)).
Proof. intros Hch. apply (upd_WF i ch vw). exact Hch. apply upd_spec_permuted. exact Hch. Qed.

Lemma record_applied_WF ord i m va vw ch : WF m -> WF va -> WFC ch -> WF (record_applied ord i m va vw ch).
Proof.
  intros Hm Hva Hch. rewrite record_applied_eq. apply store_write_spec; [|exact Hm]. apply act_fold_WF; [exact Hva|].
  intros k v Hin. apply (Permutation_in _ (permute_perm _ _)) in Hin. apply (proj2 (upd_KO ord i ch vw Hch)). exact Hin.
Qed.

Lemma record_applied_In ord i m va vw ch x : WF m -> WF va -> WFC ch ->
  In x (record_applied ord i m va vw ch) -> In x m \/ In x va \/ In x ch \/ is_mark i ch x.
Proof.
  intros Hm Hva Hch Hin. rewrite record_applied_eq in Hin.
  assert (HX : WF (act_fold (permute (rest_code (length ch) ord) (fst (add_delete_children i (permute ord ch) vw))) va)).
  { apply act_fold_WF; [exact Hva|]. intros k v H. apply (Permutation_in _ (permute_perm _ _)) in H. apply (proj2 (upd_KO ord i ch vw Hch)). exact H. }
  apply (store_write_In _ _ _ HX Hm) in Hin. destruct Hin as [H|H]; [left; exact H|]. right.
  apply act_fold_In in H; [|apply Hva]. destruct H as [H|H]; [|left; exact H]. right.
  apply (Permutation_in _ (permute_perm _ _)) in H. apply (upd_In ord i ch vw x Hch H).
Qed.

Lemma commit_merge_In ord i m vw ch x : WF m -> WF vw -> WFC ch ->
  In x (commit_merge ord i m vw ch) -> In x m \/ In x vw \/ In x ch \/ is_mark i ch x.
Proof.
  intros Hm Hvw Hch Hin. rewrite commit_merge_eq in Hin.
  pose proof (markmap_WF i (permute ord ch) vw Hvw) as Hst.
  assert (HX : WF (act_fold (permute (rest_code (length ch) ord) (fst (add_delete_children i (permute ord ch) vw))) (markmap i (permute ord ch) vw))).
  { apply act_fold_WF; [exact Hst|]. intros k v H. apply (Permutation_in _ (permute_perm _ _)) in H. apply (proj2 (upd_KO ord i ch vw Hch)). exact H. }
  apply (store_write_In _ _ _ HX Hm) in Hin. destruct Hin as [H|H]; [left; exact H|]. right.
  apply act_fold_In in H; [|apply Hst]. destruct H as [H|H].
  - right. apply (Permutation_in _ (permute_perm _ _)) in H. apply (upd_In ord i ch vw x Hch H).
  - destruct (markmap_In i ord ch vw x Hvw Hch H) as [H1|H1]; [left; exact H1|right; right; exact H1].
Qed.

(** * The recorded rollback values *)
Lemma wf_WF m : P2PureRollbackBase.wf m <-> WF m.
Proof.
  unfold P2PureRollbackBase.wf, P2PureRollbackBase.nd, P2PureRollbackBase.kp, P2PureRollbackBase.pk, P2PureRollbackBase.proper, WF, ND, KO.
  split.
  - intros (H1 & H2 & H3). split; [exact H1|]. intros k v Hin. split; [symmetry; apply (H2 _ _ Hin)|].
    destruct (H3 _ _ Hin) as [Ha Hb]. unfold proper. apply eqb_str_neq in Ha. apply eqb_str_neq in Hb. rewrite Ha, Hb. reflexivity.
  - intros [H1 H2]. split; [exact H1|]. split; intros k v Hin; destruct (H2 _ _ Hin) as [Ha Hb]; [auto|apply proper_ne; exact Hb].
Qed.

(* values live at leaves: nothing live in [V] beneath a path the change updates *)
Definition leaves_ok (V c : cmap) : Prop :=
  forall k u p x, In (k, u) c -> pv_deleted u = false -> In (p, x) V -> pv_deleted x = false -> ~ Below p k.

Theorem rollback_of_ok V c : WF V -> WFC c -> no_live_below V = true -> leaves_ok V c ->
  WFC (rollback_of V c) /\
  forall k r, In (k, r) (rollback_of V c) -> In (k, r) V \/ r = mkPV k [] true 0.
Proof.
  intros HV Hc Hn Hl.
  assert (Hf : P2PureRollbackCommit.no_delete_above_update c).
  { intros k u Hk Hlv. destruct (P2PureRollbackAdc.cascb c k) eqn:E; [|reflexivity]. exfalso.
    apply P2PureRollbackAdc.cascb_spec in E. destruct E as (kd & cv & H1 & H2 & H3).
    destruct (proj2 (proj1 Hc) _ _ H1) as [Hkd Hpd]. unfold P2PureRollbackBase.below in H3. rewrite <- Hkd in H3.
    apply (proj2 Hc k u kd cv (lookup_in _ _ _ Hk) Hlv H1 H2). apply (below_spec _ _ Hpd). exact H3. }
  destruct (P2PureRollbackRb.rollback_of_spec V c (proj2 (wf_WF V) HV) (proj2 (wf_WF c) (proj1 Hc)) Hf) as [R1 R2 R3 R4].
  apply wf_WF in R1.
  assert (Hfrom : forall k r, In (k, r) (rollback_of V c) -> In (k, r) V \/ r = mkPV k [] true 0).
  { intros k r Hin. apply (in_lookup _ _ _ (proj1 R1)) in Hin. destruct (R2 _ _ Hin) as [H|(_ & H & _)]; [left; apply lookup_in; exact H|right; exact H]. }
  split; [|exact Hfrom]. split; [exact R1|].
  intros k v kd d Hk Hlv Hd Hdel Hb.
  (* a live recorded value is a value of V *)
  destruct (Hfrom _ _ Hk) as [HkV| ->]; [|discriminate].
  apply (in_lookup _ _ _ (proj1 R1)) in Hd. destruct (R2 _ _ Hd) as [HdV|(_ & _ & u & Hu & Hul)].
  - (* a tombstone of V above it *)
    assert (Hcv : covered V k = false) by (apply (nlb_spec V k v (proj1 HV) Hn); [apply in_lookup; [apply HV|exact HkV]|exact Hlv]).
    destruct (KO_lookup _ _ _ (proj2 HV) HdV) as [_ Hpd].
    rewrite (cov_intro V kd d k (lookup_in _ _ _ HdV) Hdel (proj2 (below_spec _ _ Hpd) Hb)) in Hcv. discriminate.
  - (* a path the change creates: nothing live of V lies beneath it *)
    exact (Hl kd u k v (lookup_in _ _ _ Hu) Hul HkV Hlv Hb).
Qed.

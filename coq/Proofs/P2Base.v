(* Shared proof infrastructure for the protocol model Model/Proto2.v:
   - frame lemmas: what each effect does to each store of the world,
   - the induction principle over reachable worlds,
   - prefix lemmas (a crash executes a prefix of an invocation's effects),
   - the tactic [destruct_matches] used to enumerate the branches of a reconciler. *)
From stdpp Require Import gmap.
From RecordUpdate Require Import RecordUpdate.
From Coq Require Import NArith Lia.
From OC Require Import Model.Proto2.
Open Scope N_scope.

Section Base.
  Context {V Ch Req D : Type}.
  Context (candidate : V -> Ch -> V) (candidate_rb : V -> Ch -> V) (rollback_of : V -> Ch -> Ch)
          (overlay : V -> V -> V) (commit_merge : N -> N -> V -> V -> Ch -> V)
          (payload : N -> V -> Ch -> option Req) (record_applied : N -> N -> V -> V -> V -> Ch -> V)
          (touched : N -> V -> Ch -> V) (restore : V -> V -> V)
          (resync_payload : V -> list (option Req)) (doc_ok : V -> bool)
          (dev_apply : D -> Req -> D) (stamp : N -> Ch -> Ch) (v_empty : V) (d_empty : D) (ch_empty : Ch).

  Notation world := (@world V Ch Req D).
  Notation eff := (@eff V Ch Req).
  Notation apply_eff := (@apply_eff V Ch Req D dev_apply d_empty).
  Notation reconcile := (@reconcile V Ch Req D candidate candidate_rb rollback_of overlay commit_merge payload record_applied
                                    touched restore resync_payload doc_ok stamp v_empty d_empty ch_empty).
  Notation step := (@step V Ch Req D candidate candidate_rb rollback_of overlay commit_merge payload record_applied
                          touched restore resync_payload doc_ok dev_apply stamp v_empty d_empty ch_empty).
  Notation run := (@run V Ch Req D candidate candidate_rb rollback_of overlay commit_merge payload record_applied
                        touched restore resync_payload doc_ok dev_apply stamp v_empty d_empty ch_empty).
  Notation reach := (@reach V Ch Req D candidate candidate_rb rollback_of overlay commit_merge payload record_applied
                            touched restore resync_payload doc_ok dev_apply stamp v_empty d_empty ch_empty).

  (** * Frame lemmas *)
  Lemma txs_apply_eff (w : world) (e : eff) :
    txs (apply_eff w e) = match e with EPutTx i T => <[i := T]> (txs w) | _ => txs w end.
  Proof.
    destruct e as [| | | | | | | | | [t c term o r a]]; cbn; try reflexivity;
      repeat match goal with |- context [match ?x with _ => _ end] => destruct x end; reflexivity.
  Qed.

  Lemma props_apply_eff (w : world) (e : eff) :
    props (apply_eff w e) =
    match e with
    | ECreateProp k p => match props w !! k with Some _ => props w | None => <[k := p]> (props w) end
    | EPutProp k p => <[k := p]> (props w)
    | _ => props w
    end.
  Proof.
    destruct e as [| | | | | | | | | [t c term o r a]]; cbn; try reflexivity;
      repeat match goal with |- context [match ?x with _ => _ end] => destruct x end; reflexivity.
  Qed.

  Lemma cfgs_apply_eff (w : world) (e : eff) :
    cfgs (apply_eff w e) =
    match e with
    | ECreateCfg t c => match cfgs w !! t with Some _ => cfgs w | None => <[t := c]> (cfgs w) end
    | EPutCfg t c => match cfgs w !! t with
                     | Some c0 => <[t := c <| c_values := c_values c0 |> <| c_avalues := c_avalues c0 |> ]> (cfgs w)
                     | None => cfgs w end
    | EPutValues t v => match cfgs w !! t with Some c0 => <[t := c0 <| c_values := v |> ]> (cfgs w) | None => cfgs w end
    | EPutAValues t v => match cfgs w !! t with Some c0 => <[t := c0 <| c_avalues := v |> ]> (cfgs w) | None => cfgs w end
    | _ => cfgs w
    end.
  Proof.
    destruct e as [| | | | | | | | | [t c term o r a]]; cbn; try reflexivity;
      repeat match goal with |- context [match ?x with _ => _ end] => destruct x end; reflexivity.
  Qed.

  Lemma rels_apply_eff (w : world) (e : eff) :
    rels (apply_eff w e) =
    match e with
    | ERelCreate c t => match rels w !! c with Some _ => rels w | None => <[c := (t, true)]> (rels w) end
    | ERelDelete c => delete c (rels w)
    | _ => rels w
    end.
  Proof.
    destruct e as [| | | | | | | | | [t c term o r a]]; cbn; try reflexivity;
      repeat match goal with |- context [match ?x with _ => _ end] => destruct x end; reflexivity.
  Qed.

  Lemma conns_apply_eff (w : world) (e : eff) : conns (apply_eff w e) = conns w.
  Proof.
    destruct e as [| | | | | | | | | [t c term o r a]]; cbn; try reflexivity;
      repeat match goal with |- context [match ?x with _ => _ end] => destruct x end; reflexivity.
  Qed.

  Lemma targets_apply_eff (w : world) (e : eff) : targets (apply_eff w e) = targets w.
  Proof.
    destruct e as [| | | | | | | | | [t c term o r a]]; cbn; try reflexivity;
      repeat match goal with |- context [match ?x with _ => _ end] => destruct x end; reflexivity.
  Qed.

  Lemma next_index_apply_eff (w : world) (e : eff) : next_index (apply_eff w e) = next_index w.
  Proof.
    destruct e as [| | | | | | | | | [t c term o r a]]; cbn; try reflexivity;
      repeat match goal with |- context [match ?x with _ => _ end] => destruct x end; reflexivity.
  Qed.

  Lemma devlog_apply_eff (w : world) (e : eff) :
    devlog (apply_eff w e) = match e with EDev ev => devlog w ++ [ev] | _ => devlog w end.
  Proof.
    destruct e as [| | | | | | | | | [t c term o r a]]; cbn; try reflexivity;
      repeat match goal with |- context [match ?x with _ => _ end] => destruct x end; reflexivity.
  Qed.

  (** * Reachability *)
  Lemma reach_init : reach init.
  Proof. exists []. reflexivity. Qed.

  Lemma reach_step (w : world) l : reach w -> reach (step w l).
  Proof.
    intros [ls ->]. exists (ls ++ [l]). unfold Proto2.run. rewrite fold_left_app. reflexivity.
  Qed.

  (* induction over the labels that produced a reachable world *)
  Lemma reach_ind (I : world -> Prop) :
    I init -> (forall w l, reach w -> I w -> I (step w l)) -> forall w, reach w -> I w.
  Proof.
    intros Hi Hs w [ls ->]. induction ls as [|l ls IH] using rev_ind.
    - exact Hi.
    - unfold Proto2.run in *. rewrite fold_left_app. cbn. apply Hs; [|exact IH].
      exists ls. reflexivity.
  Qed.

  (** * Prefixes of an invocation *)
  (* [I] survives every prefix of [effs] when each effect preserves it in the world it is applied to *)
  Fixpoint chain (I : world -> Prop) (w : world) (effs : list eff) : Prop :=
    match effs with
    | [] => True
    | e :: r => I (apply_eff w e) /\ chain I (apply_eff w e) r
    end.

  Lemma chain_prefix (I : world -> Prop) (effs : list eff) : forall (w : world) (k : nat),
    I w -> chain I w effs -> I (fold_left apply_eff (firstn k effs) w).
  Proof.
    induction effs as [|e r IH]; intros w k Hw Hc.
    - rewrite firstn_nil. exact Hw.
    - destruct k as [|k]; [exact Hw|]. cbn. destruct Hc as [He Hr]. apply IH; assumption.
  Qed.

  Lemma chain_app (I : world -> Prop) (a b : list eff) : forall (w : world),
    chain I w a -> chain I (fold_left apply_eff a w) b -> chain I w (a ++ b).
  Proof.
    induction a as [|e r IH]; intros w Ha Hb; cbn in *; [exact Hb|].
    destruct Ha as [He Hr]. split; [exact He|]. apply IH; assumption.
  Qed.
End Base.

(* enumerate the branches of a definition made of nested matches / ifs *)
Ltac destruct_matches :=
  repeat match goal with
         | |- context [match ?x with _ => _ end] =>
           match type of x with
           | sumbool _ _ => destruct x
           | _ => let E := fresh "E" in destruct x eqn:E
           end
         end.

(* The chunking of the validation document (Model/Chunks.v, transcription of pluginregistry.Validate):
   for every document and every chunk size 0 < n the chunks concatenate to the document, each chunk is
   non-empty and at most n long, and there are exactly ceil(len/n) of them. *)
From Coq Require Import List NArith Lia.
From OC Require Import Model.Chunks.
Import ListNotations.
Open Scope N_scope.

Section ChunksProofs.
  Context {A : Type}.

  Definition chunk_ok (n : N) (c : list A) : Prop := c <> [] /\ N.of_nat (length c) <= n.
  (* ceil (len / n) *)
  Definition ceil_div (len n : N) : N := (len + n - 1) / n.

  Lemma ceil_div_small (len n : N) : 0 < len -> len <= n -> ceil_div len n = 1.
  Proof.
    intros H0 H1. unfold ceil_div. symmetry. apply (N.div_unique _ _ 1 (len - 1)); lia.
  Qed.

  Lemma ceil_div_step (len n : N) : 0 < n -> n < len -> ceil_div len n = 1 + ceil_div (len - n) n.
  Proof.
    intros H0 H1. unfold ceil_div.
    replace (len + n - 1) with ((len - n + n - 1) + 1 * n) by lia.
    rewrite N.div_add by lia. lia.
  Qed.

  Lemma chunks_loop_spec (n : N) : 0 < n -> forall (fuel : nat) (rest : list A),
    (length rest <= fuel)%nat ->
    concat (chunks_loop fuel n rest) = rest /\
    Forall (chunk_ok n) (chunks_loop fuel n rest) /\
    N.of_nat (length (chunks_loop fuel n rest)) = ceil_div (N.of_nat (length rest)) n.
  Proof.
    intros Hn. induction fuel as [|f IH]; intros rest Hlen.
    - destruct rest; [|cbn in Hlen; lia]. cbn. repeat split; [constructor|]. unfold ceil_div. cbn.
      symmetry. apply N.div_small. lia.
    - destruct rest as [|a r].
      + cbn. repeat split; [constructor|]. unfold ceil_div. symmetry. apply N.div_small. cbn. lia.
      + cbn [chunks_loop].
        assert (Hpos : (0 < length (a :: r))%nat) by (cbn; lia).
        set (rest := a :: r) in *. clearbody rest.
        destruct (n <? N.of_nat (length rest)) eqn:E.
        * apply N.ltb_lt in E.
          assert (Hsk : length (skipn (N.to_nat n) rest) = (length rest - N.to_nat n)%nat) by apply skipn_length.
          destruct (IH (skipn (N.to_nat n) rest)) as (H1 & H2 & H3); [rewrite Hsk; lia|].
          repeat split.
          -- cbn [concat]. rewrite H1. apply firstn_skipn.
          -- constructor; [|exact H2]. split.
             ++ intros Hnil. apply (f_equal (@length A)) in Hnil. rewrite firstn_length in Hnil. cbn [length] in Hnil. lia.
             ++ rewrite firstn_length. lia.
          -- cbn [length]. rewrite Nat2N.inj_succ, H3, Hsk.
             rewrite (ceil_div_step (N.of_nat (length rest)) n) by lia.
             replace (N.of_nat (length rest - N.to_nat n)) with (N.of_nat (length rest) - n) by lia. lia.
        * apply N.ltb_ge in E. repeat split.
          -- cbn. rewrite app_nil_r. reflexivity.
          -- constructor; [|constructor]. split; [intros ->; cbn in Hpos; lia|exact E].
          -- cbn [length]. rewrite ceil_div_small; [reflexivity| lia | exact E].
  Qed.

  Theorem chunks_spec (doc : list A) (n : N) : 0 < n ->
    concat (chunks n doc) = doc /\
    Forall (chunk_ok n) (chunks n doc) /\
    N.of_nat (length (chunks n doc)) = ceil_div (N.of_nat (length doc)) n.
  Proof. intros Hn. apply chunks_loop_spec; [exact Hn|]. apply le_n. Qed.

  (* consequence used by the monitor: every chunk but the last one is exactly n long *)
  Lemma chunks_loop_full (n : N) : 0 < n -> forall (fuel : nat) (rest : list A) pre last,
    chunks_loop fuel n rest = pre ++ [last] -> Forall (fun c => N.of_nat (length c) = n) pre.
  Proof.
    intros Hn. induction fuel as [|f IH]; intros rest pre last Heq.
    - cbn in Heq. destruct pre; discriminate.
    - destruct rest as [|a r]; [destruct pre; discriminate|]. cbn [chunks_loop] in Heq.
      destruct (n <? N.of_nat (length (a :: r))) eqn:E.
      + apply N.ltb_lt in E. destruct pre as [|c pre].
        * cbn in Heq. injection Heq as _ Heq. constructor.
        * cbn in Heq. injection Heq as Hc Heq. constructor.
          -- rewrite <- Hc, firstn_length. lia.
          -- eapply IH. exact Heq.
      + destruct pre as [|c pre]; [constructor|]. cbn in Heq. injection Heq as _ Heq. destruct pre; discriminate.
  Qed.

  Theorem chunks_full (doc : list A) (n : N) pre last : 0 < n ->
    chunks n doc = pre ++ [last] -> Forall (fun c => N.of_nat (length c) = n) pre.
  Proof. intros Hn. apply chunks_loop_full. exact Hn. Qed.
End ChunksProofs.

(* both sides of a boundary, evaluated: 2*n-1, 2*n, 2*n+1 bytes with n = 4 *)
Example chunks_boundary :
  chunks 4 [1;2;3;4;5;6;7] = [[1;2;3;4];[5;6;7]] /\
  chunks 4 [1;2;3;4;5;6;7;8] = [[1;2;3;4];[5;6;7;8]] /\
  chunks 4 [1;2;3;4;5;6;7;8;9] = [[1;2;3;4];[5;6;7;8];[9]] /\
  chunks 4 (@nil N) = [].
Proof. repeat split. Qed.

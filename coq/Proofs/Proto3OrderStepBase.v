(* Proto3OrderStepBase: from the abstract view back to worlds - what one effect of Model/Proto3.v does to the view, the
   prefix (crash) semantics of run_effs, and what the prevTransaction gates guarantee when they let a reconcile pass. *)
From Coq Require Import List NArith Bool Arith Lia.
From OC Require Import Model.Proto3 Spec.Tla3 Proofs.Proto3Proofs Proofs.Proto3OrderBase.
Import ListNotations.
Open Scope N_scope.

Lemma set_nth_length {A} n (x : A) l : length (set_nth n x l) = length l.
Proof. revert n; induction l as [|a l IH]; intros [|n]; cbn; auto. Qed.

Lemma put_tx_inv o w i t t' evs : get_tx w i = Some t ->
  IA (updf (get_tx w) i t') (nlen w) (cmc w) (apc w) (w_hist w ++ evs) -> Inv (apply_eff o w (EPutTx i t' evs)).
Proof.
  intros Hi H. unfold Inv.
  change (apply_eff o w (EPutTx i t' evs)) with (with_txs w (set_nth (N.to_nat (i - 1)) t' (w_txs w)) (w_hist w ++ evs)).
  replace (nlen (with_txs w (set_nth (N.to_nat (i - 1)) t' (w_txs w)) (w_hist w ++ evs))) with (nlen w)
    by (unfold nlen; cbn; rewrite set_nth_length; reflexivity).
  eapply IA_ext; [|exact H]. intros j. symmetry. apply get_tx_set with (t := t). exact Hi.
Qed.

Lemma put_cfg_inv o w c' cv av evs :
  IA (get_tx w) (nlen w) (c_cm c') (c_ap c') (w_hist w ++ evs) -> Inv (apply_eff o w (EPutCfg c' cv av evs)).
Proof. intros H. exact H. Qed.

Lemma dev_inv o w el req code : Inv w -> Inv (apply_eff o w (EDev el req code)).
Proof. intros H. unfold apply_eff. destruct (code =? 0); exact H. Qed.

Lemma panic_inv o w : Inv w -> Inv (apply_eff o w EPanic).
Proof. intros H. exact H. Qed.

(* get_tx / cursors of the world after an effect *)
Lemma get_tx_put_cfg o w c' cv av evs j : get_tx (apply_eff o w (EPutCfg c' cv av evs)) j = get_tx w j.
Proof. reflexivity. Qed.
Lemma get_tx_put_tx_same o w i t t' evs : get_tx w i = Some t -> get_tx (apply_eff o w (EPutTx i t' evs)) i = Some t'.
Proof.
  intros Hi.
  change (apply_eff o w (EPutTx i t' evs)) with (with_txs w (set_nth (N.to_nat (i - 1)) t' (w_txs w)) (w_hist w ++ evs)).
  rewrite (get_tx_set w i t t' _ i Hi). unfold updf. rewrite N.eqb_refl. reflexivity.
Qed.
Lemma get_tx_dev o w el req code j : get_tx (apply_eff o w (EDev el req code)) j = get_tx w j.
Proof. unfold apply_eff. destruct (code =? 0); reflexivity. Qed.
Lemma cfg_dev o w el req code : w_cfg (apply_eff o w (EDev el req code)) = w_cfg w.
Proof. unfold apply_eff. destruct (code =? 0); reflexivity. Qed.
Lemma hist_dev o w el req code : w_hist (apply_eff o w (EDev el req code)) = w_hist w.
Proof. unfold apply_eff. destruct (code =? 0); reflexivity. Qed.

(* every prefix of an effect list (what a crash leaves) keeps Inv if every effect does, each in the state it is applied to *)
Fixpoint okchain (o : oracle) (w : world) (effs : list eff) : Prop :=
  match effs with
  | [] => True
  | e :: r => Inv (apply_eff o w e) /\ okchain o (apply_eff o w e) r
  end.

Lemma run_effs_chain o effs : forall k w, Inv w -> okchain o w effs -> Inv (run_effs o k effs w).
Proof.
  induction effs as [|e r IH]; intros k w HI HC; cbn; [exact HI|].
  destruct HC as [H1 H2].
  destruct e as [i t evs | c cv av evs | el req code | ].
  - destruct k; [exact HI | apply IH; assumption].
  - destruct k; [exact HI | apply IH; assumption].
  - apply IH; assumption.
  - exact H1.
Qed.

(* Inv with the configuration record in hand *)
Lemma Inv_cfg w c : w_cfg w = Some c -> Inv w -> IA (get_tx w) (nlen w) (c_cm c) (c_ap c) (w_hist w).
Proof. intros Hc H. unfold Inv, cmc, apc in H. rewrite Hc in H. exact H. Qed.

(* ------------------------------------------------------------------ gates *)
Lemma st_le_inprogress_false s : st_le_inprogress s = false -> 2 <= st_code s.
Proof. unfold st_le_inprogress. intros H. apply N.leb_gt in H. lia. Qed.
Lemma st_lt_complete_false s : st_lt_complete s = false -> 2 <= st_code s.
Proof. unfold st_lt_complete. intros H. apply N.ltb_ge in H. exact H. Qed.
Lemma st_eqb_code a b : st_eqb a b = true -> st_code a = st_code b.
Proof. unfold st_eqb. apply N.eqb_eq. Qed.

Lemma gate_commit_change_go w cm : gate_commit_change w cm = GGo ->
  forall j p, get_tx w j = Some p -> j = k_index cm /\ k_target cm = k_index cm -> 2 <= cc p.
Proof.
  intros G j p Hj [-> E]. unfold gate_commit_change in G. rewrite Hj in G.
  rewrite E, N.eqb_refl in G. destruct (st_le_inprogress (t_cc p)) eqn:S; [discriminate|].
  apply st_le_inprogress_false; exact S.
Qed.

Lemma gate_apply_change_go w ap : gate_apply_change w ap = GGo ->
  forall j p, get_tx w j = Some p -> j = k_index ap /\ k_target ap = k_index ap -> 2 <= ca p.
Proof.
  intros G j p Hj [-> E]. unfold gate_apply_change in G. rewrite Hj in G.
  rewrite E, N.eqb_refl in G. destruct (st_le_inprogress (t_ca p)) eqn:S; [discriminate|].
  apply st_le_inprogress_false; exact S.
Qed.

Lemma gate_abort_go w ap : gate_abort w ap = GGo ->
  forall j p, get_tx w j = Some p -> j = k_index ap /\ k_target ap = k_index ap -> 2 <= ca p.
Proof.
  intros G j p Hj [-> E]. unfold gate_abort in G. rewrite Hj in G.
  rewrite E, N.eqb_refl in G. destruct (st_lt_complete (t_ca p)) eqn:S; [discriminate|].
  apply st_lt_complete_false; exact S.
Qed.

Lemma gate_commit_rollback_go w i t cm : gate_commit_rollback w i cm = GGo ->
  get_tx w i = Some t -> k_index cm = i -> cc t = 2.
Proof.
  intros G Hi E. unfold gate_commit_rollback in G. rewrite E, Hi, N.eqb_refl in G.
  destruct (st_eqb (t_cc t) Complete) eqn:S; [|discriminate].
  apply st_eqb_code in S. exact S.
Qed.

(* boolean guards to propositions *)
Lemma is_pred_true a b : is_pred a b = true -> a + 1 = b.
Proof.
  unfold is_pred. intros H. apply andb_prop in H. destruct H as [H1 H2].
  apply negb_true_iff in H1. apply N.eqb_neq in H1. apply N.eqb_eq in H2. lia.
Qed.

Ltac b2p :=
  repeat match goal with
         | H : negb _ = true |- _ => apply negb_true_iff in H
         | H : negb _ = false |- _ => apply negb_false_iff in H
         | H : _ && _ = true |- _ => apply andb_prop in H; destruct H
         | H : _ && _ = false |- _ => apply andb_false_iff in H; destruct H
         | H : is_pred _ _ = true |- _ => apply is_pred_true in H
         | H : (_ =? _) = true |- _ => apply N.eqb_eq in H
         | H : (_ =? _) = false |- _ => apply N.eqb_neq in H
         | H : (_ <? _) = true |- _ => apply N.ltb_lt in H
         | H : (_ <? _) = false |- _ => apply N.ltb_ge in H
         | H : st_eqb _ _ = true |- _ => apply st_eqb_code in H; cbn [st_code] in H
         end.

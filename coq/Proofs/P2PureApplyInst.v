(* C04: the executable instance (Model/P2Pure.v, Model/P2Inst.v) MEETS the pure-layer obligations of
   Proofs/P2_Converge.v for all values satisfying the boolean well-formedness predicates of Proofs/P2PureApplyDefs.v
   (proofs in Proofs/P2PureApply{Base,Sem,Sound,Status,Resync}.v), and the protocol theorems of P2_Converge.v
   instantiated with it: the obligation premises are replaced by well-formedness of the values of the step. *)
From stdpp Require Import gmap.
From RecordUpdate Require Import RecordUpdate.
From Coq Require Import NArith Lia.
From OC Require Import Base.Bytes Model.P2Pure Model.Proto2 Model.P2Inst Proofs.P2Base Proofs.P2_Cursor Proofs.P2_Converge
     Proofs.P2_ConvergeEx.
From OC Require Import Proofs.P2PureApplyDefs Proofs.P2PureApplyBase Proofs.P2PureApplySem Proofs.P2PureApplySound
     Proofs.P2PureApplyStatus Proofs.P2PureApplyResync.
Open Scope N_scope.

(* the abstraction of P2_ConvergeEx.v is the one of P2PureApplyDefs.v *)
Lemma abs_dev_i_eq d : abs_dev_i d = P2PureApplyDefs.abs_dev d.
Proof. reflexivity. Qed.
Lemma abs_app_i_eq va : abs_app_i va = P2PureApplyDefs.abs_app va.
Proof. reflexivity. Qed.

Notation i_pure_ok := (pure_ok overlay payload record_applied restore resync_payload dev_apply nil nil nil abs_dev_i abs_app_i).
Notation i_complete := (complete candidate candidate_rb rollback_of overlay commit_merge payload record_applied touched restore
                                 resync_payload doc_ok stamp nil nil nil).

(** * The obligations, for all well-formed values *)
Theorem apply_sound_inst ord i inl m vw ch req d :
  wf_apply inl m ch = true -> i_apply_sound_at ord i inl m vw ch req d.
Proof.
  intros Hw Hp Ha. unfold loaded. rewrite abs_dev_i_eq, abs_app_i_eq in *.
  exact (apply_sound_P2Pure ord i inl m vw ch req d Hw Hp Ha).
Qed.

Theorem status_sound_inst (p : cmap * cmap) : wfk p.1 = true -> wfk p.2 = true -> i_status_sound_at p.
Proof.
  intros H1 H2. unfold status_sound_at, restore_sound_at, restore_cut_sound_at, inline_sound_at, loaded.
  rewrite !abs_app_i_eq. split; [|split].
  - apply restore_sound_P2Pure; assumption.
  - apply restore_cut_sound_P2Pure; assumption.
  - apply inline_sound_P2Pure; assumption.
Qed.

Theorem apply_idem_inst d req : i_apply_idem_at d req.
Proof. unfold apply_idem_at. rewrite apply_idem_P2Pure. reflexivity. Qed.

Theorem resync_sound_empty_inst va reqs :
  wfk va = true -> no_live_below va = true -> i_resync_empty_at va reqs.
Proof.
  intros H1 H2 Hr. rewrite abs_dev_i_eq, abs_app_i_eq. apply resync_sound_empty_P2Pure; assumption.
Qed.

Theorem resync_sound_same_inst va reqs d :
  wfk va = true -> no_live_below va = true -> i_resync_same_at va reqs d.
Proof.
  intros H1 H2 Hr Ha. rewrite abs_dev_i_eq, abs_app_i_eq in *. apply resync_sound_same_P2Pure; assumption.
Qed.

(** * Well-formedness of the values one step works on *)
(* the applied values of the configuration of [t]: inlined ones and the stored map *)
Definition wf_cfg (C : Cfg) : bool := wf_pair (c_ainline C) (c_avalues C).
(* ... together with the change of proposal (t, i) *)
Definition wf_apply_at (w : Wd) (t i : N) : Prop :=
  forall (C : Cfg) (P : Prop2), cfgs w !! t = Some C -> props w !! (t, i) = Some P ->
    wf_apply (c_ainline C) (c_avalues C) (rb_change nil P) = true.
(* what the obligations of the step [l] need at the values of [t] *)
Definition wf_step (w : Wd) (t : N) (l : Label) : Prop :=
  forall C : Cfg, cfgs w !! t = Some C ->
    wfk (c_ainline C) = true /\ wfk (c_avalues C) = true /\
    match l with
    | LRec (CtlProp (t', i)) _ _ => t' = t -> wf_apply_at w t i
    | LRec (CtlCfg t') _ _ => t' = t -> no_live_below (aview overlay C) = true
    | _ => True
    end.

Lemma wfk_aview (C : Cfg) : wfk (c_ainline C) = true -> wfk (c_avalues C) = true -> wfk (aview overlay C) = true.
Proof. rewrite !wfk_WF. apply WF_overlay. Qed.

Theorem pure_ok_inst (w : Wd) t (l : Label) : wf_step w t l -> i_pure_ok w t l.
Proof.
  intros Hw C HC. destruct (Hw C HC) as (H1 & H2 & H3). split; [apply (status_sound_inst (c_ainline C, c_avalues C)); assumption|].
  destruct l as [| |[|[t' i]|t'| |] k o| | | | | |]; try exact I.
  - intros Ht P r HP. apply apply_sound_inst. exact (H3 Ht C P HC HP).
  - intros Ht. destruct (resync_total_P2Pure (aview overlay C)) as (rs & Hrs). exists rs. split; [exact Hrs|].
    pose proof (wfk_aview C H1 H2) as Hk. split.
    + apply resync_sound_empty_inst; [exact Hk|exact (H3 Ht)].
    + apply resync_sound_same_inst; [exact Hk|exact (H3 Ht)].
Qed.

(** * The protocol theorems on the instance *)
Notation i_step := p2_step.

Theorem apply_keeps_agreement_inst (o : oracle) (w : Wd) t i m term r (k : nat) :
  wf_apply_at w t i -> i_sent_by_apply w o t i m term r COk -> (3 <= k)%nat -> i_agrees w t ->
  let w' := i_step w (LRec (CtlProp (t, i)) k o) in
  i_agrees w' t /\ i_dstate_of w' t = dev_apply (i_dstate_of w t) r /\
  exists (C : Cfg) (P : Prop2) (C' : Cfg), cfgs w !! t = Some C /\ props w !! (t, i) = Some P /\
    cfgs w' !! t = Some C' /\ c_applied C' = i /\ c_applied C < i /\
    aview overlay C' = record_applied (o_order o) i (c_avalues C) (aview overlay C) (view overlay C) (rb_change nil P) /\
    c_state C' = c_state C /\ c_aterm C' = c_aterm C /\ c_term C' = c_term C /\
    (* what is stored is well-formed again, with nothing beneath a tombstone *)
    wfk (aview overlay C') = true /\ no_entry_below (aview overlay C') = true.
Proof.
  intros Hw Hs Hk Hag.
  destruct (apply_keeps_agreement candidate candidate_rb rollback_of overlay commit_merge payload record_applied touched restore
              resync_payload doc_ok dev_apply stamp nil nil nil abs_dev_i abs_app_i o w t i m term r k
              (fun C P HC HP => apply_sound_inst _ _ _ _ _ _ _ _ (Hw C P HC HP)) Hs Hk Hag)
    as (A1 & A2 & C & P & C' & B1 & B2 & B3 & B4 & B5 & B6 & B7 & B8 & B9).
  cbn zeta. split; [exact A1|]. split; [exact A2|]. exists C, P, C'. repeat (split; [assumption|]).
  destruct (record_applied_wf (o_order o) i (c_ainline C) (c_avalues C) (view overlay C) (rb_change nil P) (Hw C P B1 B2)) as [W1 W2].
  unfold wf_pair in W1. apply andb_true_iff in W1. destruct W1 as [W1 _]. apply andb_true_iff in W1. destruct W1 as [_ W1].
  assert (E : aview overlay C' = record_applied (o_order o) i (c_avalues C) (aview overlay C) (view overlay C) (rb_change nil P)).
  { rewrite B6. unfold loaded. apply overlay_nil. apply wfk_WF in W1. apply W1. }
  split; [exact E|]. repeat (split; [assumption|]). rewrite E. split; assumption.
Qed.

Theorem cut_apply_retry_inst (o o' : oracle) (w : Wd) t i m term r (k' : nat) :
  wf_apply_at w t i -> i_agrees w t -> i_sent_by_apply w o t i m term r COk ->
  let w1 := i_step w (LRec (CtlProp (t, i)) 1 o) in
  i_dstate_of w1 t = dev_apply (i_dstate_of w t) r /\ cfgs w1 = cfgs w /\
  (dev_answer (nil : dstate) w1 t term o' = COk -> (3 <= k')%nat ->
   i_sent_by_apply w1 o' t i m term r COk /\ i_agrees (i_step w1 (LRec (CtlProp (t, i)) k' o')) t).
Proof.
  intros Hw Hag Hs.
  exact (cut_apply_retry candidate candidate_rb rollback_of overlay commit_merge payload record_applied touched restore
           resync_payload doc_ok dev_apply stamp nil nil nil abs_dev_i abs_app_i o o' w t i m term r k'
           (fun C P HC HP => apply_sound_inst _ _ _ _ _ _ _ _ (Hw C P HC HP)) (apply_idem_inst _ _) Hag Hs).
Qed.

Theorem resync_establishes_agreement_inst (o : oracle) (w : Wd) t m term r (rs : list req) (k : nat) (C : Cfg) :
  wfk (c_ainline C) = true -> wfk (c_avalues C) = true -> no_live_below (aview overlay C) = true ->
  i_sent_by_resync w o t m term r COk -> cfgs w !! t = Some C ->
  resync_payload (aview overlay C) = map Some rs -> (length rs + 2 <= k)%nat ->
  i_dstate_of w t = [] \/ i_agrees w t ->
  let w' := i_step w (LRec (CtlCfg t) k o) in
  i_agrees w' t /\ i_dstate_of w' t = fold_left dev_apply rs (i_dstate_of w t) /\
  exists C' : Cfg, cfgs w' !! t = Some C' /\ c_state C' = CSynchronized /\ c_aterm C' = c_term C' /\ c_term C' = c_term C /\
             c_applied C' = c_applied C /\ c_applied C <> 0 /\ abs_app_i (aview overlay C') = abs_app_i (aview overlay C).
Proof.
  intros H1 H2 H3 Hs HC Hrs Hk Hmode. pose proof (wfk_aview C H1 H2) as Hk'.
  apply (resync_establishes_agreement candidate candidate_rb rollback_of overlay commit_merge payload record_applied touched restore
           resync_payload doc_ok dev_apply stamp nil nil nil abs_dev_i abs_app_i o w t m term r rs k C); try assumption.
  - apply (status_sound_inst (c_ainline C, c_avalues C)); assumption.
  - destruct Hmode as [Hd|Ha]; [left|right].
    + split; [apply resync_sound_empty_inst; assumption|exact Hd].
    + split; [apply resync_sound_same_inst; assumption|exact Ha].
Qed.

(* runs of environment labels and complete invocations whose values are well-formed at every step *)
Definition allowed_wf (t : N) (w : Wd) (l : Label) : Prop :=
  i_complete w l /\ l <> LDevRestart t /\ l <> LTarget t true /\ wf_step w t l.
Inductive crun_wf (t : N) : Wd -> Wd -> Prop :=
| crun_wf_refl w : crun_wf t w w
| crun_wf_step w w1 l : crun_wf t w w1 -> allowed_wf t w1 l -> crun_wf t w (i_step w1 l).

Lemma crun_wf_crun t (w w' : Wd) : crun_wf t w w' -> i_crun t w w'.
Proof.
  induction 1 as [w|w w1 l Hrun IH (H1 & H2 & H3 & H4)]; [apply crun_refl|].
  apply crun_step; [exact IH|]. split; [exact H1|]. split; [exact H2|]. split; [exact H3|]. apply pure_ok_inst. exact H4.
Qed.

Theorem converged_inst (w w' : Wd) t (C' : Cfg) :
  i_reach w -> i_conv w t -> crun_wf t w w' ->
  cfgs w' !! t = Some C' -> c_state C' = CSynchronized -> c_aterm C' = c_term C' -> i_agrees w' t.
Proof.
  intros Hr Hc Hrun. apply (converged_synchronized candidate candidate_rb rollback_of overlay commit_merge payload record_applied
                             touched restore resync_payload doc_ok dev_apply stamp nil nil nil abs_dev_i abs_app_i w w' t C' Hr Hc).
  apply crun_wf_crun. exact Hrun.
Qed.

(** * (b) the predicates hold initially and on a non-trivial state; the obligations at those values, by the theorems *)
Example wf_initial : wf_pair [] [] = true /\ wf_apply [] [] [] = true.
Proof. split; vm_compute; reflexivity. Qed.

(* stored: /a/b=1 (1), a tombstone /c (3) with the tombstone /c/d (3) beneath it, /x=9 (2), the keyed entry /l[k=1]/v=5 (2);
   inlined in the entry: an older /x=8 (1) and /y=0 (1);
   change 4: delete /a, set /c/d/e=7 (re-creation beneath two tombstones), set /x=10, delete /l[k=1] *)
Definition ex_m : cmap :=
  [pvl "/a/b" "1" 1; pvd "/c" 3; pvd "/c/d" 3; pvl "/x" "9" 2; pvl "/l[k=1]/v" "5" 2].
Definition ex_inl : cmap := [pvl "/x" "8" 1; pvl "/y" "0" 1].
Definition ex_vw : cmap := [pvl "/a/b" "1" 1; pvl "/a/c" "2" 4; pvl "/x" "9" 2; pvl "/l[k=1]/v" "5" 2; pvl "/l[k=1]/w" "6" 4].
Definition ex_ch : cmap := [pvd "/a" 4; pvl "/c/d/e" "7" 4; pvl "/x" "10" 4; pvd "/l[k=1]" 4].
Definition ex_d : dstate := [(B "/y", B "0"); (B "/x", B "9"); (B "/l[k=1]/v", B "5"); (B "/a/b", B "1")].

Example wf_nontrivial :
  wf_apply ex_inl ex_m ex_ch = true /\ abs_dev_i ex_d = abs_app_i (overlay ex_inl ex_m) /\
  payload 4 ex_vw ex_ch = Some (mkReq [B "/a"; B "/l[k=1]"] [(B "/c/d/e", B "7"); (B "/x", B "10")]) /\
  abs_app_i (record_applied 5 4 ex_m (overlay ex_inl ex_m) ex_vw ex_ch) = [(B "/c/d/e", B "7"); (B "/x", B "10"); (B "/y", B "0")].
Proof. repeat split; vm_compute; reflexivity. Qed.

Example apply_sound_nontrivial : forall ord req, payload 4 ex_vw ex_ch = Some req ->
  abs_dev_i (dev_apply ex_d req) = abs_app_i (loaded overlay nil (record_applied ord 4 ex_m (overlay ex_inl ex_m) ex_vw ex_ch)).
Proof.
  intros ord req Hp. apply (apply_sound_inst ord 4 ex_inl ex_m ex_vw ex_ch req ex_d); [vm_compute; reflexivity|exact Hp|vm_compute; reflexivity].
Qed.

(* Proofs about Model/Subscribe.v (property C19). *)
From Coq Require Import List NArith Bool Lia.
From OC Require Import Base.Bytes Model.Subscribe.
Import ListNotations.
Open Scope N_scope.

(* ------------------------------------------------------------------ small facts *)
Lemma is_empty_true s : is_empty s = true <-> s = [].
Proof. destruct s; cbn; split; congruence. Qed.

Lemma is_empty_false s : is_empty s = false <-> s <> [].
Proof. destruct s; cbn; split; congruence. Qed.

Lemma mem_str_In t l : mem_str t l = true <-> In t l.
Proof.
  induction l as [|x l IH]; cbn.
  - split; [discriminate | tauto].
  - rewrite orb_true_iff, IH, eqb_str_eq. tauto.
Qed.

Lemma opts_eta o :
  {| o_qos := o_qos o; o_mode := o_mode o; o_allow := o_allow o;
     o_models := o_models o; o_enc := o_enc o; o_upd := o_upd o |} = o.
Proof. destruct o; reflexivity. Qed.

Definition prefix_origin (l : sublist) : str :=
  match l_prefix l with Some p => p_origin p | None => [] end.
Definition prefix_elems (l : sublist) : str :=
  match l_prefix l with Some p => p_elems p | None => [] end.

(* the request built for target t out of request r, carrying entries es *)
Definition treq_of (r : subreq) (t : str) (es : list entry) : subreq :=
  {| r_list := {| l_prefix := Some (copy_prefix (l_prefix (r_list r)) t);
                  l_subs := es;
                  l_opts := l_opts (r_list r) |};
     r_ext := r_ext r |}.

Lemma new_treq_eq r t : new_treq r t = treq_of r t [].
Proof. unfold new_treq, treq_of. rewrite opts_eta. reflexivity. Qed.

Definition append_entries (q : subreq) (es : list entry) : subreq :=
  {| r_list := {| l_prefix := l_prefix (r_list q);
                  l_subs := l_subs (r_list q) ++ es;
                  l_opts := l_opts (r_list q) |};
     r_ext := r_ext q |}.

Lemma append_entries_nil q : append_entries q [] = q.
Proof. destruct q as [[p s o] x]. unfold append_entries; cbn. rewrite app_nil_r. reflexivity. Qed.

Lemma append_entries_cons q e es :
  append_entries (append_entry q e) es = append_entries q (e :: es).
Proof. unfold append_entries, append_entry; cbn. rewrite <- app_assoc. reflexivity. Qed.

Lemma append_entries_treq r t es es' :
  append_entries (treq_of r t es) es' = treq_of r t (es ++ es').
Proof. reflexivity. Qed.

(* ------------------------------------------------------------------ association lists *)
Lemma lookup_some_in t tr q : lookup t tr = Some q -> In (t, q) tr.
Proof.
  induction tr as [|[k q'] tr IH]; cbn; [discriminate|].
  destruct (eqb_str k t) eqn:E.
  - apply eqb_str_eq in E; subst. intros [= ->]. left; reflexivity.
  - intros H. right. apply IH, H.
Qed.

Lemma lookup_none_keys t tr : lookup t tr = None <-> ~ In t (keys tr).
Proof.
  induction tr as [|[k q'] tr IH]; cbn.
  - tauto.
  - destruct (eqb_str k t) eqn:E.
    + apply eqb_str_eq in E; subst. split; [discriminate | intros H; exfalso; apply H; left; reflexivity].
    + apply eqb_str_neq in E. rewrite IH. tauto.
Qed.

Lemma in_lookup t q tr : NoDup (keys tr) -> In (t, q) tr -> lookup t tr = Some q.
Proof.
  induction tr as [|[k q'] tr IH]; cbn; [tauto|].
  intros ND [H|H].
  - injection H as -> ->. rewrite eqb_str_refl. reflexivity.
  - inversion ND as [|? ? Hn ND']; subst.
    destruct (eqb_str k t) eqn:E.
    + apply eqb_str_eq in E; subst. exfalso. apply Hn. apply (in_map fst) in H. exact H.
    + apply IH; assumption.
Qed.

Lemma in_keys_lookup t tr : In t (keys tr) <-> exists q, lookup t tr = Some q.
Proof.
  destruct (lookup t tr) as [q|] eqn:E.
  - split; [intros _; exists q; reflexivity|]. intros _.
    apply lookup_some_in in E. apply (in_map fst) in E. exact E.
  - split.
    + intros H. apply lookup_none_keys in E. contradiction.
    + intros [q H]; discriminate.
Qed.

(* ------------------------------------------------------------------ add_entry *)
Lemma lookup_add_entry tr r t e t' :
  lookup t' (add_entry tr r t e) =
  if eqb_str t t'
  then Some (append_entry (match lookup t tr with Some q => q | None => new_treq r t end) e)
  else lookup t' tr.
Proof.
  induction tr as [|[k q] tr IH]; cbn.
  - destruct (eqb_str t t'); reflexivity.
  - destruct (eqb_str k t) eqn:Ekt; cbn.
    + apply eqb_str_eq in Ekt; subst k.
      destruct (eqb_str t t'); reflexivity.
    + rewrite IH. destruct (eqb_str t t') eqn:Ett.
      * apply eqb_str_eq in Ett; subst t'. rewrite Ekt. reflexivity.
      * reflexivity.
Qed.

Lemma keys_add_entry tr r t e :
  keys (add_entry tr r t e) = if mem_str t (keys tr) then keys tr else keys tr ++ [t].
Proof.
  induction tr as [|[k q] tr IH]; cbn; [reflexivity|].
  destruct (eqb_str k t) eqn:Ekt; cbn; [reflexivity|].
  unfold keys in IH. rewrite IH. destruct (mem_str t (map fst tr)); reflexivity.
Qed.

Lemma nodup_snoc {A} (l : list A) x : NoDup l -> ~ In x l -> NoDup (l ++ [x]).
Proof.
  induction l as [|y l IH]; cbn; intros ND Hn.
  - constructor; [tauto | constructor].
  - inversion ND as [|? ? Hy ND']; subst. constructor.
    + rewrite in_app_iff. cbn. intros [H|[H|[]]]; [tauto | subst; tauto].
    + apply IH; tauto.
Qed.

Lemma nodup_add_entry tr r t e : NoDup (keys tr) -> NoDup (keys (add_entry tr r t e)).
Proof.
  intros ND. rewrite keys_add_entry.
  destruct (mem_str t (keys tr)) eqn:M; [exact ND|].
  apply nodup_snoc; [exact ND|].
  intros H. apply mem_str_In in H. congruence.
Qed.

(* ------------------------------------------------------------------ the split loop *)
Definition sel (t : str) (e : entry) : bool := eqb_str (e_target e) t && negb (is_empty t).

Lemma sel_true t e : sel t e = true <-> e_target e = t /\ t <> [].
Proof.
  unfold sel. rewrite andb_true_iff, eqb_str_eq, negb_true_iff, is_empty_false. tauto.
Qed.

Lemma fold_append es : forall q, fold_left append_entry es q = append_entries q es.
Proof.
  induction es as [|e es IH]; intros q; cbn [fold_left].
  - symmetry; apply append_entries_nil.
  - rewrite IH. apply append_entries_cons.
Qed.

Lemma loop_lookup r subs : forall acc t,
  lookup t (fold_left (split_step r) subs acc) =
  match lookup t acc with
  | Some q => Some (append_entries q (filter (sel t) subs))
  | None => match filter (sel t) subs with
            | [] => None
            | es => Some (treq_of r t es)
            end
  end.
Proof.
  induction subs as [|e subs IH]; intros acc t; cbn [fold_left filter].
  - destruct (lookup t acc); [rewrite append_entries_nil|]; reflexivity.
  - rewrite IH. unfold split_step.
    destruct (is_empty (e_target e)) eqn:Em.
    + apply is_empty_true in Em.
      assert (Hs : sel t e = false).
      { unfold sel. rewrite Em. destruct t; reflexivity. }
      rewrite Hs. reflexivity.
    + rewrite lookup_add_entry.
      destruct (eqb_str (e_target e) t) eqn:Et.
      * apply eqb_str_eq in Et. subst t.
        assert (Hs : sel (e_target e) e = true).
        { unfold sel. rewrite eqb_str_refl, Em. reflexivity. }
        rewrite Hs.
        destruct (lookup (e_target e) acc) as [q|].
        -- rewrite append_entries_cons. reflexivity.
        -- rewrite append_entries_cons, new_treq_eq, append_entries_treq. reflexivity.
      * assert (Hs : sel t e = false).
        { unfold sel. rewrite Et. reflexivity. }
        rewrite Hs. reflexivity.
Qed.

Lemma loop_nodup r subs : forall acc,
  NoDup (keys acc) -> NoDup (keys (fold_left (split_step r) subs acc)).
Proof.
  induction subs as [|e subs IH]; intros acc ND; cbn [fold_left]; [exact ND|].
  apply IH. unfold split_step. destruct (is_empty (e_target e)); [exact ND|].
  apply nodup_add_entry, ND.
Qed.

Lemma split_loop_lookup r t :
  lookup t (split_loop r) =
  match filter (sel t) (l_subs (r_list r)) with
  | [] => None
  | es => Some (treq_of r t es)
  end.
Proof. unfold split_loop. rewrite loop_lookup. reflexivity. Qed.

Lemma split_loop_nodup r : NoDup (keys (split_loop r)).
Proof. unfold split_loop. apply loop_nodup. constructor. Qed.

Lemma filter_nil_iff {A} (f : A -> bool) l : filter f l = [] <-> forall x, In x l -> f x = false.
Proof.
  induction l as [|y l IH]; cbn.
  - tauto.
  - destruct (f y) eqn:E.
    + split; [discriminate|]. intros H. specialize (H y (or_introl eq_refl)). congruence.
    + rewrite IH. split.
      * intros H x [<-|Hx]; [exact E | apply H, Hx].
      * intros H x Hx. apply H. right; exact Hx.
Qed.

Lemma split_loop_keys r t :
  In t (keys (split_loop r)) <-> t <> [] /\ exists e, In e (l_subs (r_list r)) /\ e_target e = t.
Proof.
  rewrite in_keys_lookup, split_loop_lookup.
  destruct (filter (sel t) (l_subs (r_list r))) as [|e0 es] eqn:F.
  - split.
    + intros [q H]; discriminate.
    + intros [Ht [e [He Het]]]. exfalso.
      assert (Hf := proj1 (filter_nil_iff _ _) F e He).
      assert (Hs : sel t e = true) by (apply sel_true; tauto). congruence.
  - split; [|intros _; eexists; reflexivity].
    intros _. assert (Hin : In e0 (filter (sel t) (l_subs (r_list r)))) by (rewrite F; left; reflexivity).
    apply filter_In in Hin. destruct Hin as [Hin Hs]. apply sel_true in Hs.
    split; [tauto|]. exists e0. tauto.
Qed.

Lemma split_loop_nil r :
  split_loop r = [] <-> forall e, In e (l_subs (r_list r)) -> e_target e = [].
Proof.
  split.
  - intros H e He. destruct (e_target e) as [|c s] eqn:E; [reflexivity|]. exfalso.
    assert (Hk : In (c :: s) (keys (split_loop r))).
    { apply split_loop_keys. split; [discriminate|]. exists e. tauto. }
    rewrite H in Hk. exact Hk.
  - intros H. destruct (split_loop r) as [|[k q] tr] eqn:E; [reflexivity|]. exfalso.
    assert (Hk : In k (keys (split_loop r))) by (rewrite E; left; reflexivity).
    apply split_loop_keys in Hk. destruct Hk as [Hk [e [He Het]]].
    rewrite (H e He) in Het. congruence.
Qed.

(* ------------------------------------------------------------------ splitSubscribeRequest *)
Lemma split_prefix_target r :
  prefix_target (r_list r) <> [] -> split r = Some [(prefix_target (r_list r), r)].
Proof.
  intros H. unfold split. apply is_empty_false in H. rewrite H. reflexivity.
Qed.

Lemma split_by_path r :
  prefix_target (r_list r) = [] ->
  split r = match split_loop r with [] => None | tr => Some tr end.
Proof.
  intros H. unfold split. rewrite H. cbn. destruct (split_loop r); reflexivity.
Qed.

(* refused exactly when no target is named anywhere *)
Lemma split_refused_iff r :
  split r = None <->
  prefix_target (r_list r) = [] /\ forall e, In e (l_subs (r_list r)) -> e_target e = [].
Proof.
  destruct (prefix_target (r_list r)) as [|c s] eqn:P.
  - rewrite (split_by_path r P). rewrite <- split_loop_nil.
    destruct (split_loop r); split; try tauto; try discriminate. intros [_ H]; discriminate.
  - assert (Hp : prefix_target (r_list r) <> []) by (rewrite P; discriminate).
    rewrite (split_prefix_target r Hp). split; [discriminate | intros [H _]; discriminate].
Qed.

Lemma names_by_path r t e :
  prefix_target (r_list r) = [] -> names r t e = sel t e.
Proof. intros H. unfold names, sel. rewrite H. reflexivity. Qed.

Lemma names_by_prefix r t e :
  prefix_target (r_list r) <> [] -> names r t e = eqb_str (prefix_target (r_list r)) t.
Proof. intros H. unfold names. apply is_empty_false in H. rewrite H. reflexivity. Qed.

Lemma filter_ext_in' {A} (f g : A -> bool) l : (forall x, f x = g x) -> filter f l = filter g l.
Proof. intros H. apply filter_ext. exact H. Qed.

Lemma filter_true {A} (l : list A) : filter (fun _ => true) l = l.
Proof. induction l; cbn; congruence. Qed.

Lemma filter_false {A} (l : list A) : filter (fun _ => false) l = [].
Proof. induction l; cbn; congruence. Qed.

(* C19_split: the full characterisation of an accepted split *)
Lemma split_spec r tr :
  split r = Some tr ->
  NoDup (keys tr) /\
  (forall t, In t (keys tr) <->
             t <> [] /\ (prefix_target (r_list r) = t \/
                         (prefix_target (r_list r) = [] /\
                          exists e, In e (l_subs (r_list r)) /\ e_target e = t))) /\
  (forall t, entries_for tr t = filter (names r t) (l_subs (r_list r))) /\
  (forall t q, In (t, q) tr ->
     r_ext q = r_ext r /\
     l_opts (r_list q) = l_opts (r_list r) /\
     exists p, l_prefix (r_list q) = Some p /\ p_target p = t /\
               p_origin p = prefix_origin (r_list r) /\ p_elems p = prefix_elems (r_list r)) /\
  (prefix_target (r_list r) <> [] -> tr = [(prefix_target (r_list r), r)]).
Proof.
  intros Hs.
  destruct (prefix_target (r_list r)) as [|c s] eqn:P.
  - (* by path *)
    rewrite (split_by_path r P) in Hs.
    assert (Htr : tr = split_loop r) by (destruct (split_loop r); congruence).
    subst tr. clear Hs.
    split; [apply split_loop_nodup|].
    split.
    { intros t. rewrite split_loop_keys. split.
      - intros [Ht He]. split; [exact Ht|]. right. tauto.
      - intros [Ht [H|[_ He]]]; [congruence | tauto]. }
    split.
    { intros t. unfold entries_for. rewrite split_loop_lookup.
      rewrite (filter_ext_in' (names r t) (sel t)) by (intros e; apply names_by_path, P).
      destruct (filter (sel t) (l_subs (r_list r))); reflexivity. }
    split.
    { intros t q Hin. apply in_lookup in Hin; [|apply split_loop_nodup].
      rewrite split_loop_lookup in Hin.
      destruct (filter (sel t) (l_subs (r_list r))) as [|e0 es]; [discriminate|].
      injection Hin as <-. cbn.
      split; [reflexivity|]. split; [reflexivity|].
      eexists. split; [reflexivity|]. cbn.
      unfold prefix_origin, prefix_elems. destruct (l_prefix (r_list r)); tauto. }
    intros H; congruence.
  - (* by prefix target *)
    assert (Hp : prefix_target (r_list r) <> []) by (rewrite P; discriminate).
    rewrite (split_prefix_target r Hp) in Hs. injection Hs as <-. rewrite P.
    split; [constructor; [cbn; tauto | constructor]|].
    split.
    { intros t. cbn. split.
      - intros [<-|[]]. split; [discriminate | left; reflexivity].
      - intros [_ [H|[H _]]]; [left; exact H | discriminate]. }
    split.
    { intros t. unfold entries_for. cbn [lookup].
      rewrite (filter_ext_in' (names r t) (fun _ => eqb_str (c :: s) t))
        by (intros e; rewrite names_by_prefix by exact Hp; rewrite P; reflexivity).
      destruct (eqb_str (c :: s) t); [rewrite filter_true | rewrite filter_false]; reflexivity. }
    split.
    { intros t q [H|[]]. injection H as <- <-.
      split; [reflexivity|]. split; [reflexivity|].
      unfold prefix_target in P. unfold prefix_origin, prefix_elems.
      destruct (l_prefix (r_list r)) as [p|]; [|discriminate].
      exists p. tauto. }
    intros _. reflexivity.
Qed.

(* an entry without target in a request without prefix target reaches nobody *)
Lemma untargeted_dropped r tr e t :
  split r = Some tr -> prefix_target (r_list r) = [] -> e_target e = [] ->
  ~ In e (entries_for tr t).
Proof.
  intros Hs P He Hin. destruct (split_spec r tr Hs) as (_ & _ & Hent & _).
  rewrite Hent in Hin. apply filter_In in Hin. destruct Hin as [_ Hn].
  rewrite names_by_path in Hn by exact P. apply sel_true in Hn. destruct Hn as [H1 H2]. congruence.
Qed.

(* every entry naming a target is forwarded to it (with multiplicity and order: see split_spec) and to no other *)
Lemma targeted_exactly_one r tr e :
  split r = Some tr -> In e (l_subs (r_list r)) ->
  forall t, In e (entries_for tr t) <-> names r t e = true.
Proof.
  intros Hs He t. destruct (split_spec r tr Hs) as (_ & _ & Hent & _).
  rewrite Hent, filter_In. tauto.
Qed.

Lemma names_functional r t t' e : names r t e = true -> names r t' e = true -> t = t'.
Proof.
  unfold names. destruct (is_empty (prefix_target (r_list r))).
  - rewrite !andb_true_iff, !eqb_str_eq. intros [<- _] [<- _]. reflexivity.
  - rewrite !eqb_str_eq. congruence.
Qed.

(* ------------------------------------------------------------------ processSubscribeRequest *)
Lemma process_duplicate c r : c_req c <> None -> process c (MSub r) = (c, [], false).
Proof. intros H. cbn. destruct (c_req c); [reflexivity | congruence]. Qed.

Lemma process_poll_first c : c_req c = None -> process c MPoll = (c, [], false).
Proof. intros H. cbn. rewrite H. reflexivity. Qed.

Lemma process_neither c : process c MNone = (c, [], false).
Proof. reflexivity. Qed.

Lemma process_no_target c r :
  c_req c = None -> split r = None ->
  process c (MSub r) = ({| c_req := Some r; c_treqs := [] |}, [], false).
Proof. intros H1 H2. cbn. rewrite H1, H2. reflexivity. Qed.

Lemma process_subscribe c r tr :
  c_req c = None -> split r = Some tr ->
  process c (MSub r) = ({| c_req := Some r; c_treqs := tr |}, map (fun kq => ESub (fst kq) (snd kq)) tr, true).
Proof. intros H1 H2. cbn. rewrite H1, H2. reflexivity. Qed.

Lemma process_poll c :
  c_req c <> None -> process c MPoll = (c, map (fun kq => EPoll (fst kq)) (c_treqs c), true).
Proof. intros H. cbn. destruct (c_req c); [reflexivity | congruence]. Qed.

(* a message is accepted exactly in these two situations *)
Lemma process_accepts_iff c m :
  snd (process c m) = true <->
  (exists r tr, m = MSub r /\ c_req c = None /\ split r = Some tr) \/ (m = MPoll /\ c_req c <> None).
Proof.
  destruct m as [r| |]; cbn.
  - destruct (c_req c) eqn:E; cbn.
    + split; [discriminate|]. intros [(r' & tr & _ & H & _)|[H _]]; discriminate.
    + destruct (split r) as [tr|] eqn:S; cbn.
      * split; [|reflexivity]. intros _. left. exists r, tr. tauto.
      * split; [discriminate|]. intros [(r' & tr & H & _ & H2)|[H _]]; [|discriminate].
        injection H as <-. congruence.
  - destruct (c_req c) eqn:E; cbn.
    + split; [|reflexivity]. intros _. right. split; [reflexivity | discriminate].
    + split; [discriminate|]. intros [(r' & tr & H & _)|[_ H]]; [discriminate | congruence].
  - split; [discriminate|]. intros [(r' & tr & H & _)|[H _]]; discriminate.
Qed.

(* a refusal forwards nothing *)
Lemma process_refusal_silent c m : snd (process c m) = false -> snd (fst (process c m)) = [].
Proof.
  destruct m as [r| |]; cbn.
  - destruct (c_req c); cbn; [reflexivity|]. destruct (split r); cbn; [discriminate | reflexivity].
  - destruct (c_req c); cbn; [discriminate | reflexivity].
  - reflexivity.
Qed.

Lemma process_refused_ctx c m :
  snd (process c m) = false ->
  fst (fst (process c m)) = c \/
  (c_req c = None /\ exists r, fst (fst (process c m)) = {| c_req := Some r; c_treqs := [] |}).
Proof.
  destruct m as [r| |]; cbn.
  - destruct (c_req c) eqn:E; cbn; [left; reflexivity|].
    destruct (split r); cbn; [discriminate|]. intros _. right. split; [reflexivity|]. exists r. reflexivity.
  - destruct (c_req c); cbn; left; reflexivity.
  - left; reflexivity.
Qed.

(* ------------------------------------------------------------------ delivery *)
Definition knownb (known : list str) (t : str) : bool := mem_str t known.

Lemma deliver_polls known ks :
  flat_map (deliver known) (map EPoll ks) = map OPoll (filter (knownb known) ks).
Proof.
  induction ks as [|k ks IH]; cbn; [reflexivity|].
  unfold knownb at 1. destruct (mem_str k known); cbn; rewrite IH; reflexivity.
Qed.

Lemma installs_polls known ks : flat_map (installs known) (map EPoll ks) = [].
Proof. induction ks; cbn; [reflexivity | assumption]. Qed.

Definition esubs (tr : treqs) : list effect := map (fun kq => ESub (fst kq) (snd kq)) tr.
Definition epolls (tr : treqs) : list effect := map (fun kq => EPoll (fst kq)) tr.

Lemma epolls_keys tr : epolls tr = map EPoll (keys tr).
Proof. unfold epolls, keys. rewrite map_map. reflexivity. Qed.

Definition has_prefix (q : subreq) : Prop := l_prefix (r_list q) <> None.

Lemma installs_subs known tr :
  (forall t q, In (t, q) tr -> has_prefix q) ->
  flat_map (installs known) (esubs tr) = filter (knownb known) (keys tr).
Proof.
  induction tr as [|[k q] tr IH]; intros H; [reflexivity|].
  cbn [esubs map flat_map fst snd keys filter]. fold (esubs tr). fold (keys tr).
  rewrite IH by (intros t q' Hin; apply (H t q'); right; exact Hin).
  unfold installs, knownb. destruct (mem_str k known); [|reflexivity].
  unfold new_query_target. specialize (H k q (or_introl eq_refl)). unfold has_prefix in H.
  destruct (l_prefix (r_list q)); [reflexivity | congruence].
Qed.

Lemma split_has_prefix r tr t q : split r = Some tr -> In (t, q) tr -> has_prefix q.
Proof.
  intros Hs Hin. destruct (split_spec r tr Hs) as (_ & _ & _ & Ho & _).
  destruct (Ho t q Hin) as (_ & _ & p & Hp & _). unfold has_prefix. congruence.
Qed.

(* what the client of t is handed when the split is forwarded: only t's own request, addressed to t *)
Lemma fwd_subs_lookup known tr t :
  NoDup (keys tr) ->
  fwd_to t (flat_map (deliver known) (esubs tr)) =
  match lookup t tr with Some q => deliver known (ESub t q) | None => [] end.
Proof.
  induction tr as [|[k q] tr IH]; intros ND; [reflexivity|].
  inversion ND as [|? ? Hn ND']; subst.
  cbn [esubs map flat_map fst snd lookup]. fold (esubs tr).
  unfold fwd_to. rewrite filter_app. fold (fwd_to t (flat_map (deliver known) (esubs tr))).
  rewrite (IH ND').
  destruct (eqb_str k t) eqn:E.
  - apply eqb_str_eq in E. subst k.
    assert (Hl : lookup t tr = None) by (apply lookup_none_keys; exact Hn).
    rewrite Hl, app_nil_r. cbn [deliver].
    destruct (mem_str t known); [|reflexivity].
    destruct (new_query_target q); [|reflexivity].
    cbn. rewrite eqb_str_refl. reflexivity.
  - replace (filter (fun o => is_fwd o && eqb_str (obs_target o) t) (deliver known (ESub k q))) with (@nil obs); [reflexivity|].
    cbn [deliver]. destruct (mem_str k known); [|reflexivity].
    destruct (new_query_target q); [|reflexivity]. cbn. rewrite E. reflexivity.
Qed.

Lemma fwd_polls known ks t :
  NoDup ks ->
  fwd_to t (map OPoll (filter (knownb known) ks)) =
  if mem_str t ks && knownb known t then [OPoll t] else [].
Proof.
  induction ks as [|k ks IH]; intros ND; [reflexivity|].
  inversion ND as [|? ? Hn ND']; subst. cbn [filter mem_str].
  destruct (eqb_str k t) eqn:E.
  - apply eqb_str_eq in E. subst k. cbn [orb andb].
    assert (Hm : mem_str t ks = false).
    { destruct (mem_str t ks) eqn:M; [apply mem_str_In in M; contradiction | reflexivity]. }
    destruct (knownb known t) eqn:K.
    + cbn. rewrite eqb_str_refl. cbn. fold (fwd_to t (map OPoll (filter (knownb known) ks))).
      rewrite (IH ND'), Hm. reflexivity.
    + rewrite (IH ND'), Hm. reflexivity.
  - cbn [orb]. destruct (knownb known k).
    + cbn. rewrite E. cbn. fold (fwd_to t (map OPoll (filter (knownb known) ks))). apply IH, ND'.
    + apply IH, ND'.
Qed.

(* ------------------------------------------------------------------ the stream *)
(* invariant of every reachable stream state *)
Definition inv (known : list str) (st : rstate) : Prop :=
  rs_handlers st = filter (knownb known) (keys (c_treqs (rs_ctx st))) /\
  NoDup (keys (c_treqs (rs_ctx st))) /\
  (c_req (rs_ctx st) = None -> c_treqs (rs_ctx st) = []).

Lemma inv_init known : inv known rstate_init.
Proof. unfold inv; cbn. split; [reflexivity|]. split; [constructor | reflexivity]. Qed.

Lemma rstate_eta st : {| rs_ctx := rs_ctx st; rs_handlers := rs_handlers st |} = st.
Proof. destruct st; reflexivity. Qed.

(* Poll on a subscribed stream: forwarded to exactly the subscribed targets, state unchanged *)
Lemma step_poll known st :
  inv known st -> c_req (rs_ctx st) <> None ->
  do_step known st (SMsg MPoll) = (map OPoll (rs_handlers st), st, true).
Proof.
  intros (Hh & _ & _) Hr. unfold do_step. rewrite (process_poll _ Hr).
  fold (epolls (c_treqs (rs_ctx st))). rewrite epolls_keys, deliver_polls, installs_polls, app_nil_r, rstate_eta, Hh.
  reflexivity.
Qed.

(* refused messages: nothing observed, context as process leaves it, handlers unchanged *)
Lemma step_refused known st m :
  snd (process (rs_ctx st) m) = false ->
  do_step known st (SMsg m) =
  ([], {| rs_ctx := fst (fst (process (rs_ctx st) m)); rs_handlers := rs_handlers st |}, false).
Proof.
  intros H. unfold do_step. assert (He := process_refusal_silent _ _ H).
  destruct (process (rs_ctx st) m) as [[c' effs] ok]. cbn in *. subst. cbn. rewrite app_nil_r. reflexivity.
Qed.

(* first valid subscription *)
Lemma step_subscribe known st r tr :
  inv known st -> c_req (rs_ctx st) = None -> split r = Some tr ->
  do_step known st (SMsg (MSub r)) =
  (flat_map (deliver known) (esubs tr),
   {| rs_ctx := {| c_req := Some r; c_treqs := tr |}; rs_handlers := filter (knownb known) (keys tr) |},
   true).
Proof.
  intros (Hh & _ & Hn) Hr Hs. unfold do_step. rewrite (process_subscribe _ _ _ Hr Hs).
  cbv beta iota. fold (esubs tr). rewrite installs_subs by (intros t q; apply (split_has_prefix r tr), Hs).
  rewrite Hh, (Hn Hr). reflexivity.
Qed.

(* device message: relayed unchanged iff its target holds a subscription of this stream *)
Lemma step_dev known st t d :
  do_step known st (SDev t d) = (if mem_str t (rs_handlers st) then [relay t d] else [], st, true).
Proof. reflexivity. Qed.

Lemma inv_step known st s o st' ok : inv known st -> do_step known st s = (o, st', ok) -> inv known st'.
Proof.
  intros I H. destruct s as [m|t d].
  - destruct (snd (process (rs_ctx st) m)) eqn:A.
    + apply process_accepts_iff in A. destruct A as [(r & tr & -> & Hr & Hs)|[-> Hr]].
      * rewrite (step_subscribe known st r tr I Hr Hs) in H. injection H as <- <- <-.
        destruct (split_spec r tr Hs) as (ND & _). repeat split; cbn; [exact ND | discriminate].
      * rewrite (step_poll known st I Hr) in H. injection H as <- <- <-. exact I.
    + rewrite (step_refused known st m A) in H. injection H as <- <- <-.
      destruct (process_refused_ctx _ _ A) as [E|(Hr & r & E)]; rewrite E.
      * rewrite rstate_eta. exact I.
      * destruct I as (Hh & ND & Hn). unfold inv; cbn. rewrite Hh, (Hn Hr). cbn.
        split; [reflexivity|]. split; [constructor | reflexivity].
  - rewrite step_dev in H. injection H as <- <- <-. exact I.
Qed.

Lemma inv_run known steps : forall st o st' stp n,
  inv known st -> run_steps known st steps = (o, st', stp, n) -> inv known st'.
Proof.
  induction steps as [|s steps IH]; intros st o st' stp n I H; cbn in H.
  - injection H as <- <- <- <-. exact I.
  - destruct (do_step known st s) as [[o1 st1] ok] eqn:D.
    assert (I1 := inv_step _ _ _ _ _ _ I D).
    destruct ok.
    + destruct (run_steps known st1 steps) as [[[o2 st2] stp2] n2] eqn:R.
      injection H as <- <- <- <-. apply (IH _ _ _ _ _ I1 R).
    + injection H as <- <- <- <-. exact I1.
Qed.

(* every state a stream can reach satisfies the invariant *)
Lemma inv_reachable known steps o st stp n :
  run_steps known rstate_init steps = (o, st, stp, n) -> inv known st.
Proof. apply inv_run, inv_init. Qed.

(* a refusal ends the stream: whatever follows is never looked at *)
Lemma run_app known pre : forall st post o1 st1 n1,
  run_steps known st pre = (o1, st1, false, n1) ->
  run_steps known st (pre ++ post) =
  let '(o2, st2, stp, n2) := run_steps known st1 post in (o1 ++ o2, st2, stp, (n1 + n2)%nat).
Proof.
  induction pre as [|s pre IH]; intros st post o1 st1 n1 H; cbn in H.
  - injection H as <- <- <-. cbn. destruct (run_steps known st post) as [[[o2 st2] stp] n2]. reflexivity.
  - cbn [app run_steps]. destruct (do_step known st s) as [[o st'] ok].
    destruct ok; [|discriminate].
    destruct (run_steps known st' pre) as [[[o' st''] stp'] n'] eqn:R.
    injection H as Ho Hst Hstp Hn. subst o1 st1 n1 stp'.
    rewrite (IH _ post _ _ _ R).
    destruct (run_steps known st'' post) as [[[o2 st2] stp] n2]. cbv beta iota. rewrite app_assoc. reflexivity.
Qed.

Lemma refusal_final known pre m post st o1 st1 n1 :
  run_steps known st pre = (o1, st1, false, n1) ->
  snd (process (rs_ctx st1) m) = false ->
  run_steps known st (pre ++ SMsg m :: post) =
  (o1, {| rs_ctx := fst (fst (process (rs_ctx st1) m)); rs_handlers := rs_handlers st1 |}, true, (n1 + 1)%nat).
Proof.
  intros H R. rewrite (run_app known pre st (SMsg m :: post) o1 st1 n1 H).
  cbn [run_steps]. rewrite (step_refused known st1 m R). rewrite app_nil_r. reflexivity.
Qed.

(* run-level: on a subscribed stream nothing but polls to / relays from the subscribed targets happens,
   and the state never changes again *)
Definition sub_step_obs (st : rstate) (s : step) : list obs :=
  match s with
  | SMsg MPoll => map OPoll (rs_handlers st)
  | SMsg _ => []
  | SDev t d => if mem_str t (rs_handlers st) then [relay t d] else []
  end.

Lemma run_subscribed known steps : forall st o st' stp n,
  inv known st -> c_req (rs_ctx st) <> None ->
  run_steps known st steps = (o, st', stp, n) ->
  st' = st /\ o = flat_map (sub_step_obs st) (firstn n steps).
Proof.
  induction steps as [|s steps IH]; intros st o st' stp n I Hr H; cbn in H.
  - injection H as <- <- <- <-. split; reflexivity.
  - destruct s as [m|t d].
    + destruct m as [r| |].
      * rewrite (step_refused known st (MSub r)) in H by (rewrite (process_duplicate _ r Hr); reflexivity).
        rewrite (process_duplicate _ r Hr) in H. cbn in H. injection H as <- <- <- <-.
        split; [apply rstate_eta | reflexivity].
      * rewrite (step_poll known st I Hr) in H.
        destruct (run_steps known st steps) as [[[o2 st2] stp2] n2] eqn:R.
        injection H as <- <- <- <-. destruct (IH _ _ _ _ _ I Hr R) as [-> ->].
        split; reflexivity.
      * rewrite (step_refused known st MNone) in H by reflexivity. cbn in H.
        injection H as <- <- <- <-. split; [apply rstate_eta | reflexivity].
    + rewrite step_dev in H.
      destruct (run_steps known st steps) as [[[o2 st2] stp2] n2] eqn:R.
      injection H as <- <- <- <-. destruct (IH _ _ _ _ _ I Hr R) as [-> ->].
      split; reflexivity.
Qed.

(* run-level: before the subscription device messages have nowhere to go; the first northbound message
   decides: a valid Subscribe is split and forwarded, anything else ends the stream with nothing forwarded *)
Definition is_dev (s : step) : bool := match s with SDev _ _ => true | SMsg _ => false end.

Lemma run_unsubscribed_devs known devs : forall st rest,
  rs_handlers st = [] -> forallb is_dev devs = true ->
  run_steps known st (devs ++ rest) =
  let '(o, st', stp, n) := run_steps known st rest in (o, st', stp, (length devs + n)%nat).
Proof.
  induction devs as [|s devs IH]; intros st rest Hh Hd; cbn [app length plus].
  - destruct (run_steps known st rest) as [[[o st'] stp] n]. reflexivity.
  - cbn in Hd. apply andb_true_iff in Hd. destruct Hd as [Hs Hd].
    destruct s as [m|t d]; [discriminate|].
    cbn [run_steps]. rewrite step_dev, Hh. cbn [mem_str].
    rewrite (IH st rest Hh Hd). destruct (run_steps known st rest) as [[[o st'] stp] n]. reflexivity.
Qed.

Definition subscribed_state (known : list str) (r : subreq) (tr : treqs) : rstate :=
  {| rs_ctx := {| c_req := Some r; c_treqs := tr |}; rs_handlers := filter (knownb known) (keys tr) |}.

Lemma subscribed_state_inv known r tr : split r = Some tr -> inv known (subscribed_state known r tr).
Proof.
  intros Hs. destruct (split_spec r tr Hs) as (ND & _).
  repeat split; cbn; [exact ND | discriminate].
Qed.

(* the whole stream, every message sequence *)
Lemma stream_shape known devs m rest :
  forallb is_dev devs = true ->
  run_steps known rstate_init (devs ++ SMsg m :: rest) =
  match m with
  | MSub r =>
      match split r with
      | Some tr =>
          let st := subscribed_state known r tr in
          let '(o, _, stp, n) := run_steps known st rest in
          (flat_map (deliver known) (esubs tr) ++ flat_map (sub_step_obs st) (firstn n rest),
           st, stp, (length devs + S n)%nat)
      | None => ([], {| rs_ctx := {| c_req := Some r; c_treqs := [] |}; rs_handlers := [] |}, true, (length devs + 1)%nat)
      end
  | _ => ([], rstate_init, true, (length devs + 1)%nat)
  end.
Proof.
  intros Hd. rewrite (run_unsubscribed_devs known devs rstate_init _ eq_refl Hd).
  cbn [run_steps].
  destruct m as [r| |].
  - destruct (split r) as [tr|] eqn:Hs.
    + rewrite (step_subscribe known rstate_init r tr (inv_init known) eq_refl Hs).
      fold (subscribed_state known r tr).
      destruct (run_steps known (subscribed_state known r tr) rest) as [[[o2 st2] stp2] n2] eqn:R.
      assert (Hi := subscribed_state_inv known r tr Hs).
      destruct (run_subscribed known rest _ _ _ _ _ Hi ltac:(cbn; discriminate) R) as [-> ->].
      reflexivity.
    + rewrite (step_refused known rstate_init (MSub r)) by (cbn; rewrite Hs; reflexivity).
      cbn. rewrite Hs. reflexivity.
  - rewrite (step_refused known rstate_init MPoll) by reflexivity. reflexivity.
  - rewrite (step_refused known rstate_init MNone) by reflexivity. reflexivity.
Qed.

Lemma stream_devs_only known devs :
  forallb is_dev devs = true ->
  run_steps known rstate_init devs = ([], rstate_init, false, length devs).
Proof.
  intros Hd. rewrite <- (app_nil_r devs) at 1.
  rewrite (run_unsubscribed_devs known devs rstate_init [] eq_refl Hd). cbn. rewrite <- plus_n_O. reflexivity.
Qed.

(* ------------------------------------------------------------------ relay identity *)
Fixpoint sends_of (t : str) (os : list obs) : list str :=
  match os with
  | [] => []
  | OSend t' p :: r => if eqb_str t' t then p :: sends_of t r else sends_of t r
  | _ :: r => sends_of t r
  end.

Fixpoint dev_resps (t : str) (steps : list step) : list str :=
  match steps with
  | [] => []
  | SDev t' (DResp p) :: r => if eqb_str t' t then p :: dev_resps t r else dev_resps t r
  | _ :: r => dev_resps t r
  end.

Lemma sends_of_app t a b : sends_of t (a ++ b) = sends_of t a ++ sends_of t b.
Proof.
  induction a as [|o a IH]; [reflexivity|]. cbn [app sends_of].
  destruct o; try exact IH. destruct (eqb_str t0 t); cbn; rewrite IH; reflexivity.
Qed.

Lemma sends_of_polls t ks : sends_of t (map OPoll ks) = [].
Proof. induction ks; cbn; [reflexivity | assumption]. Qed.

(* the responses of a subscribed target reach the subscriber unchanged, all of them, in order -
   and nothing else is attributed to that target *)
Lemma relay_identity known steps st o st' stp n t :
  inv known st -> In t (rs_handlers st) ->
  run_steps known st steps = (o, st', stp, n) ->
  sends_of t o = dev_resps t (firstn n steps).
Proof.
  intros I Ht H.
  assert (Hr : c_req (rs_ctx st) <> None).
  { destruct I as (Hh & _ & Hn). intros E. rewrite Hh, (Hn E) in Ht. exact Ht. }
  destruct (run_subscribed known steps _ _ _ _ _ I Hr H) as [_ ->].
  generalize (firstn n steps). intros l. induction l as [|s l IH]; [reflexivity|].
  cbn [flat_map]. rewrite sends_of_app, IH. destruct s as [m|t' d].
  - destruct m; cbn [sub_step_obs dev_resps sends_of app]; try reflexivity.
    rewrite sends_of_polls. reflexivity.
  - cbn [sub_step_obs]. destruct (eqb_str t' t) eqn:E.
    + apply eqb_str_eq in E. subst t'. apply mem_str_In in Ht. rewrite Ht.
      destruct d; cbn; rewrite ?eqb_str_refl; reflexivity.
    + destruct (mem_str t' (rs_handlers st)); destruct d; cbn; rewrite ?E; reflexivity.
Qed.

(* nothing is ever relayed on behalf of a target that holds no subscription of this stream *)
Lemma relay_only_subscribed known steps st o st' stp n t :
  inv known st -> c_req (rs_ctx st) <> None -> ~ In t (rs_handlers st) ->
  run_steps known st steps = (o, st', stp, n) ->
  forall x, In x o -> is_relay x = true -> obs_target x <> t.
Proof.
  intros I Hr Ht H x Hx Hrel.
  destruct (run_subscribed known steps _ _ _ _ _ I Hr H) as [_ ->].
  apply in_flat_map in Hx. destruct Hx as [s [_ Hx]].
  destruct s as [m|t' d]; cbn in Hx.
  - destruct m; try contradiction. apply in_map_iff in Hx. destruct Hx as [k [<- _]]. discriminate.
  - destruct (mem_str t' (rs_handlers st)) eqn:M; [|contradiction].
    destruct Hx as [<-|[]]. apply mem_str_In in M. destruct d; cbn; congruence.
Qed.

(* ------------------------------------------------------------------ non-vacuity *)
Definition ex_entry (t b : str) : entry := {| e_target := t; e_body := b |}.
Definition ex_opts : opts := {| o_qos := Some (B "q"); o_mode := 2; o_allow := true; o_models := B "m"; o_enc := 1; o_upd := true |}.
Definition ex_req : subreq :=
  {| r_list := {| l_prefix := Some {| p_target := []; p_origin := B "openconfig"; p_elems := B "/a"; p_element := B "old" |};
                  l_subs := [ex_entry (B "t1") (B "e1"); ex_entry (B "") (B "e2"); ex_entry (B "t2") (B "e3"); ex_entry (B "t1") (B "e4")];
                  l_opts := ex_opts |};
     r_ext := B "x" |}.

Example split_example :
  split ex_req =
  Some [(B "t1", treq_of ex_req (B "t1") [ex_entry (B "t1") (B "e1"); ex_entry (B "t1") (B "e4")]);
        (B "t2", treq_of ex_req (B "t2") [ex_entry (B "t2") (B "e3")])].
Proof. vm_compute. reflexivity. Qed.

Example run_example :
  run [B "t1"; B "t3"]
      [SDev (B "t1") (DResp (B "early")); SMsg (MSub ex_req); SDev (B "t1") (DResp (B "u1")); SMsg MPoll;
       SDev (B "t2") (DResp (B "u2")); SDev (B "t1") DOther; SMsg (MSub ex_req); SMsg MPoll] EndEOF =
  ([OSub (B "t1") (B "t1") (treq_of ex_req (B "t1") [ex_entry (B "t1") (B "e1"); ex_entry (B "t1") (B "e4")]);
    OSend (B "t1") (B "u1"); OPoll (B "t1"); ORelayErr (B "t1")], RInvalid).
Proof. vm_compute. reflexivity. Qed.

(* ------------------------------------------------------------------ C19_protocol, in one statement *)
Lemma protocol_refusals c :
  (forall r, c_req c <> None -> process c (MSub r) = (c, [], false)) /\
  (c_req c = None -> process c MPoll = (c, [], false)) /\
  process c MNone = (c, [], false) /\
  (forall r, c_req c = None -> split r = None ->
             process c (MSub r) = ({| c_req := Some r; c_treqs := [] |}, [], false)).
Proof.
  split; [intros r; apply process_duplicate|].
  split; [apply process_poll_first|].
  split; [apply process_neither|].
  intros r; apply process_no_target.
Qed.

(* Subscribe returns Invalid exactly when a message was refused *)
Lemma run_invalid_iff known steps e o res :
  run known steps e = (o, res) ->
  (res = RInvalid <-> snd (fst (run_steps known rstate_init steps)) = true).
Proof.
  unfold run. destruct (run_steps known rstate_init steps) as [[[o' st] stp] n]. cbn.
  intros [= <- <-]. destruct stp; [tauto|]. destruct e; split; discriminate.
Qed.

(* Proofs about Model/Proto3.v: invariants of every reachable world (all label sequences, all crash points),
   refutation witnesses for the parts of the property the faithful model violates, bounded exploration. *)
From Coq Require Import List NArith Bool Arith Lia.
From OC Require Import Model.Proto3 Spec.Tla3.
Import ListNotations.
Open Scope N_scope.

Definition reach (w : world) : Prop := exists ls, w = run ls.

Lemma reach_ind_inv (I : world -> Prop) :
  I w0 -> (forall w l, I w -> I (step w l)) -> forall w, reach w -> I w.
Proof.
  intros H0 Hs w [ls ->]. unfold run.
  assert (G : forall ks w1, I w1 -> I (fold_left step ks w1)).
  { intros ks; induction ks as [|l ks IH]; intros w1 H1; cbn; [exact H1 | apply IH, Hs, H1]. }
  apply G, H0.
Qed.

Ltac break_match :=
  repeat match goal with
         | |- context [match ?x with _ => _ end] => destruct x eqn:?
         | |- context [if ?x then _ else _] => destruct x eqn:?
         end.

(* ------------------------------------------------------------------------------------------------
   1. each phase is committed before it is applied (state form): a transaction whose change apply is or was in
      progress on the device (IN_PROGRESS, COMPLETE, FAILED) has its change commit COMPLETE; a transaction whose
      rollback apply has left PENDING has its rollback commit COMPLETE. *)
Definition cba (t : txn) : Prop :=
  (st_in (t_ca t) [InProgress; Complete; Failed] = true -> t_cc t = Complete) /\
  (match t_ra t with Some s => st_in s [InProgress; Complete; Aborted; Failed] = true | None => False end -> t_rc t = Some Complete).

Definition cba_eff (e : eff) : Prop := match e with EPutTx _ t _ => cba t | _ => True end.

Lemma st_eqb_complete s : st_eqb s Complete = true -> s = Complete.
Proof. destruct s; cbn; intros H; try discriminate; reflexivity. Qed.

Ltac fin H1 H2 :=
  unfold cba; cbn; split;
  [ first [ exact H1
          | intros X; first [ discriminate X | assumption
                            | apply H1; first [ assumption | match goal with E : t_ca _ = _ |- _ => rewrite E; reflexivity end ] ] ]
  | first [ exact H2
          | intros X; first [ discriminate X | reflexivity | assumption
                            | match goal with E : t_rc _ = Some Complete |- _ => exact E end
                            | apply H2; match goal with E : t_ra _ = _ |- _ => rewrite E; reflexivity end ] ] ].

Ltac effs := cbn [fst]; repeat (first [apply Forall_nil | apply Forall_cons]); unfold cba_eff, put_cfg; try exact I.
Ltac each_eff H1 H2 := effs; try (fin H1 H2).

Lemma cba_commit_change o w i t c r : cba t -> commit_change o w i t c = Some r -> Forall cba_eff (fst r).
Proof.
  intros [H1 H2] H. unfold commit_change in H.
  destruct (t_cc t) eqn:Ecc; revert H; break_match; intros H; inversion H; subst; each_eff H1 H2.
  all: unfold cba; cbn; split;
    [intros X; first [discriminate X | reflexivity | (pose proof (H1 X) as Y; first [discriminate Y | exact Y | congruence])] | exact H2].
Qed.

Lemma cba_apply_change o w i t c r : cba t -> apply_change o w i t c = Some r -> Forall cba_eff (fst r).
Proof.
  intros [H1 H2] H. unfold apply_change in H.
  destruct (st_eqb (t_cc t) Complete) eqn:Ecc; cbn in H; [|discriminate].
  apply st_eqb_complete in Ecc.
  revert H; break_match; intros H; inversion H; subst; effs; unfold cba; cbn;
    (split; [intros _; exact Ecc | exact H2]).
Qed.

Lemma cba_commit_rollback o w i t c r : cba t -> commit_rollback o w i t c = Some r -> Forall cba_eff (fst r).
Proof.
  intros [H1 H2] H. unfold commit_rollback in H.
  destruct (t_rc t) as [rc|] eqn:Erc; [|discriminate].
  destruct rc; revert H; break_match; intros H; inversion H; subst; effs; unfold cba; cbn;
    (split; [exact H1 | intros X; first [reflexivity | (pose proof (H2 X) as Y; first [discriminate Y | congruence])]]).
Qed.

Lemma cba_apply_rollback o w i t c r : cba t -> apply_rollback o w i t c = Some r -> Forall cba_eff (fst r).
Proof.
  intros [H1 H2] H. unfold apply_rollback in H.
  destruct (t_rc t) as [rc|] eqn:Erc; [|discriminate].
  destruct rc; try discriminate.
  destruct (t_ra t) as [ra|] eqn:Era; [|discriminate].
  destruct ra; try discriminate;
    revert H; break_match; intros H; inversion H; subst; effs; unfold cba; cbn;
    rewrite ?Era; cbn;
    (split;
     [ first [ exact H1
             | intros X; first [ discriminate X
                               | (apply H1; match goal with E : t_ca t = _ |- _ => rewrite E; reflexivity end)
                               | (match goal with E : t_ca t = _ |- _ => rewrite E in X end;
                                  first [ discriminate X | apply H1; reflexivity ]) ] ]
     | intros _; first [ exact Erc | reflexivity ] ]).
Qed.


(* lifting to worlds *)
Definition Inv_cba (w : world) : Prop := Forall cba (w_txs w).

Lemma set_nth_Forall {A} (P : A -> Prop) n x l : Forall P l -> P x -> Forall P (set_nth n x l).
Proof.
  revert n; induction l as [|y l IH]; intros n Hl Hx; [destruct n; constructor|].
  inversion Hl; subst. destruct n; cbn; constructor; auto.
Qed.

Lemma get_tx_In w i t : get_tx w i = Some t -> In t (w_txs w).
Proof. unfold get_tx. destruct (i =? 0); [discriminate|]. apply nth_error_In. Qed.

Lemma cba_rec_tx o w i : Inv_cba w -> Forall cba_eff (fst (rec_tx o w i)).
Proof.
  intros HI. unfold rec_tx.
  destruct (get_tx w i) as [t|] eqn:Et; [|constructor].
  destruct (w_cfg w) as [c|]; [|constructor].
  assert (Ht : cba t) by (eapply Forall_forall; [exact HI | eapply get_tx_In; exact Et]).
  destruct (t_rb t); unfold orelse.
  - destruct (commit_rollback o w i t c) eqn:E1; [eapply cba_commit_rollback; eauto|].
    destruct (apply_rollback o w i t c) eqn:E2; [eapply cba_apply_rollback; eauto | constructor].
  - destruct (commit_change o w i t c) eqn:E1; [eapply cba_commit_change; eauto|].
    destruct (apply_change o w i t c) eqn:E2; [eapply cba_apply_change; eauto | constructor].
Qed.

Lemma cba_rec_cfg o w : Forall cba_eff (fst (rec_cfg o w)).
Proof.
  unfold rec_cfg. break_match; effs.
  all: try (apply Forall_app; split; [apply Forall_forall; intros e He; apply in_map_iff in He; destruct He as [g [<- _]]; exact I | effs]).
Qed.

Lemma cba_rec_master o w : Forall cba_eff (fst (rec_master o w)).
Proof. unfold rec_master. break_match; effs. Qed.

Lemma cba_run_effs o effs : forall k w, Inv_cba w -> Forall cba_eff effs -> Inv_cba (run_effs o k effs w).
Proof.
  induction effs as [|e effs IH]; intros k w HI HF; cbn; [exact HI|].
  inversion HF as [|? ? He HF']; subst.
  destruct e as [i t evs | c cv av evs | el req code | ].
  - destruct k; [exact HI|]. apply IH; [|exact HF']. unfold Inv_cba; cbn. apply set_nth_Forall; assumption.
  - destruct k; [exact HI|]. apply IH; [|exact HF']. exact HI.
  - apply IH; [|exact HF']. unfold apply_eff. destruct (code =? 0); exact HI.
  - exact HI.
Qed.

Lemma cba_new vs : cba (new_txn vs).
Proof. unfold cba; cbn; split; intros X; [discriminate X | destruct X]. Qed.

Lemma cba_step w l : Inv_cba w -> Inv_cba (step w l).
Proof.
  intros HI. unfold step. destruct (w_panicked w); [exact HI|].
  destruct l; cbn.
  - destruct (w_cfg w); exact HI.
  - unfold Inv_cba; cbn. apply Forall_app; split; [exact HI | repeat constructor; apply cba_new].
  - destruct (get_tx w i) as [t|] eqn:Et; [|exact HI].
    unfold Inv_cba; cbn. apply set_nth_Forall; [exact HI|].
    assert (Ht : cba t) by (eapply Forall_forall; [exact HI | eapply get_tx_In; exact Et]).
    destruct Ht as [H1 H2]. unfold cba; cbn. split; [exact H1 | intros X; discriminate X].
  - apply cba_run_effs; [exact HI | apply cba_rec_tx; exact HI].
  - apply cba_run_effs; [exact HI | apply cba_rec_cfg].
  - apply cba_run_effs; [exact HI | apply cba_rec_master].
  - exact HI.
  - exact HI.
  - exact HI.
  - exact HI.
Qed.

(* every reachable world: commit precedes apply, in both phases, for every transaction *)
Theorem commit_before_apply_reach : forall w, reach w -> Forall cba (w_txs w).
Proof. apply (reach_ind_inv Inv_cba); [constructor | intros w l; apply cba_step]. Qed.

(* ------------------------------------------------------------------------------------------------
   2. the committed ordinal (which sequences applies) never decreases, whatever happens, and a step moves it by
      at most one *)
Definition ord_eff (c : config) (e : eff) : Prop :=
  match e with
  | EPutCfg c' _ _ _ => k_ordinal (c_cm c) <= k_ordinal (c_cm c') <= k_ordinal (c_cm c) + 1
  | _ => True
  end.

Ltac oeffs := cbn [fst]; repeat (first [apply Forall_nil | apply Forall_cons]); unfold ord_eff, put_cfg; cbn; try exact I; try lia.

Ltac ord_fun f := intros H; unfold f in H; revert H; break_match; intros H; inversion H; subst; oeffs.
Lemma ord_commit_change o w i t c r : commit_change o w i t c = Some r -> Forall (ord_eff c) (fst r).
Proof. ord_fun commit_change. Qed.
Lemma ord_apply_change o w i t c r : apply_change o w i t c = Some r -> Forall (ord_eff c) (fst r).
Proof. ord_fun apply_change. Qed.
Lemma ord_commit_rollback o w i t c r : commit_rollback o w i t c = Some r -> Forall (ord_eff c) (fst r).
Proof. ord_fun commit_rollback. Qed.
Lemma ord_apply_rollback o w i t c r : apply_rollback o w i t c = Some r -> Forall (ord_eff c) (fst r).
Proof. ord_fun apply_rollback. Qed.

Lemma ord_rec_tx o w i c : w_cfg w = Some c -> Forall (ord_eff c) (fst (rec_tx o w i)).
Proof.
  intros Hc. unfold rec_tx. rewrite Hc.
  destruct (get_tx w i) as [t|]; [|constructor].
  destruct (t_rb t); unfold orelse.
  - destruct (commit_rollback o w i t c) eqn:E1; [eapply ord_commit_rollback; eauto|].
    destruct (apply_rollback o w i t c) eqn:E2; [eapply ord_apply_rollback; eauto | constructor].
  - destruct (commit_change o w i t c) eqn:E1; [eapply ord_commit_change; eauto|].
    destruct (apply_change o w i t c) eqn:E2; [eapply ord_apply_change; eauto | constructor].
Qed.

Lemma ord_rec_cfg o w c : w_cfg w = Some c -> Forall (ord_eff c) (fst (rec_cfg o w)).
Proof.
  intros Hc. unfold rec_cfg. rewrite Hc. break_match; oeffs.
  all: try (apply Forall_app; split; [apply Forall_forall; intros e He; apply in_map_iff in He; destruct He as [g [<- _]]; exact I | oeffs]).
Qed.

Lemma ord_rec_master o w c : w_cfg w = Some c -> Forall (ord_eff c) (fst (rec_master o w)).
Proof. intros Hc. unfold rec_master. rewrite Hc. break_match; oeffs. Qed.

Definition ord_between (c : config) (w : world) : Prop :=
  exists c', w_cfg w = Some c' /\ k_ordinal (c_cm c) <= k_ordinal (c_cm c') <= k_ordinal (c_cm c) + 1.

Lemma ord_run_effs o c effs : forall k w, ord_between c w -> Forall (ord_eff c) effs -> ord_between c (run_effs o k effs w).
Proof.
  induction effs as [|e effs IH]; intros k w HI HF; cbn; [exact HI|].
  inversion HF as [|? ? He HF']; subst.
  destruct e as [i t evs | c1 cv av evs | el req code | ].
  - destruct k; [exact HI|]. apply IH; [|exact HF']. exact HI.
  - destruct k; [exact HI|]. apply IH; [|exact HF']. eexists; split; [reflexivity|]. cbn. exact He.
  - apply IH; [|exact HF']. unfold apply_eff. destruct (code =? 0); exact HI.
  - exact HI.
Qed.

Theorem committed_ordinal_step : forall w l c c',
  w_cfg w = Some c -> w_cfg (step w l) = Some c' ->
  k_ordinal (c_cm c) <= k_ordinal (c_cm c') <= k_ordinal (c_cm c) + 1.
Proof.
  intros w l c c' Hc Hc'.
  assert (G : ord_between c (step w l)).
  { assert (B : ord_between c w) by (exists c; split; [exact Hc | lia]).
    unfold step. destruct (w_panicked w); [exact B|].
    destruct l; cbn; try exact B.
    - rewrite Hc. exact B.
    - destruct (get_tx w i); exact B.
    - apply ord_run_effs; [exact B | apply ord_rec_tx; exact Hc].
    - apply ord_run_effs; [exact B | apply ord_rec_cfg; exact Hc].
    - apply ord_run_effs; [exact B | apply ord_rec_master; exact Hc]. }
  destruct G as [c2 [E2 L2]]. rewrite E2 in Hc'. inversion Hc'; subst. exact L2.
Qed.

(* Proto3OrderCfgC: the two Committed-cursor writes that complete a commit (change commit, rollback commit) preserve
   the frontier invariant and append an ORDERED event to the history. *)
From Coq Require Import List NArith Bool Arith Lia.
From OC Require Import Model.Proto3 Spec.Tla3 Proofs.Proto3Proofs Proofs.Proto3OrderBase.
Import ListNotations.
Open Scope N_scope.

Ltac prj := cbn [k_index k_ordinal k_revision k_target k_change] in *.
Ltac cfg_sinv HS g extra := sinv_by prj HS g extra.

(* commitChange IN_PROGRESS, accepted: index, revision, change := i, ordinal + 1; event (change, commit, i, COMPLETE) *)
Lemma cfg_C4 g n cm ap h i t :
  IA g n cm ap h -> g i = Some t ->
  cc t = 1 -> k_change cm <> i ->
  IA g n {| k_index := i; k_ordinal := k_ordinal cm + 1; k_revision := i; k_target := k_target cm; k_change := i |} ap
     (h ++ [ev PhChange StCommit i Complete]).
Proof.
  intros [HS HH] Hi G1 G2. split; [cfg_sinv HS g idtac |].
  assert (L : k_change cm < i).
  { pose proof (s3c _ _ _ _ HS i t Hi). lia. }
  destruct HH as [X1 X2 X3 X4]. constructor; prj.
  - intros e He Hb. apply in_app_or in He. destruct He as [He|He].
    + specialize (X1 e He Hb). lia.
    + destruct He as [<-|[]]. cbn. lia.
  - intros j u Hj Hc. apply in_or_app. destruct (N.eq_dec j i) as [->|Hne].
    + right. left. reflexivity.
    + left. apply (X2 j u Hj). lia.
  - intros e He Hb. apply in_app_or in He. destruct He as [He|He]; [eauto|].
    destruct He as [<-|[]]. discriminate Hb.
  - apply order_app_cc; [exact X4|]. intros x Hx Hb. specialize (X1 x Hx Hb). lia.
Qed.

(* commitRollback IN_PROGRESS: index := i, revision := Rollback.Index, ordinal + 1; event (rollback, commit, i, COMPLETE) *)
Lemma cfg_R2 g n cm ap h i t :
  IA g n cm ap h -> g i = Some t ->
  rc t = 1 -> k_revision cm = i ->
  IA g n {| k_index := i; k_ordinal := k_ordinal cm + 1; k_revision := t_ridx t; k_target := k_target cm; k_change := k_change cm |} ap
     (h ++ [ev PhRollback StCommit i Complete]).
Proof.
  intros [HS HH] Hi G1 G2. split; [cfg_sinv HS g idtac |].
  pose proof (s5 _ _ _ _ HS i t Hi) as S5. pose proof (s1 _ _ _ _ HS) as S1.
  destruct HH as [X1 X2 X3 X4]. constructor; prj.
  - intros e He Hb. apply in_app_or in He. destruct He as [He|He]; [eauto|].
    destruct He as [<-|[]]. discriminate Hb.
  - intros j u Hj Hc. apply in_or_app. left. eauto.
  - intros e He Hb. apply in_app_or in He. destruct He as [He|He]; [eauto|].
    destruct He as [<-|[]]. discriminate Hb.
  - apply order_app_rc; [exact X4 | apply (X2 i t Hi); lia |].
    intros x Hx Hb. specialize (X1 x Hx Hb). lia.
Qed.

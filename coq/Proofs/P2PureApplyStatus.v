(* C04, concrete pure layer: status_sound (restore_sound, restore_cut_sound, inline_sound) and apply_idem for
   Model/P2Pure.v, ALL values; what a status update stores is well-formed again.  Stdlib only. *)
From Coq Require Import List PeanoNat NArith Bool Lia Permutation Sorted.
From OC Require Import Base.Bytes Model.P2Pure Proofs.P2PureApplyDefs Proofs.P2PureApplyBase Proofs.P2PureApplySem
     Proofs.P2PureApplySound.
Import ListNotations.
Open Scope N_scope.

(** * Storing the loaded applied values again *)
Section Restore.
  Context (inl m : cmap) (Hinl : WF inl) (Hm : WF m).

  Lemma va_lookup k : lookup k (overlay inl m) = match lookup k m with Some v => Some v | None => lookup k inl end.
  Proof. apply overlay_lookup. apply Hm. Qed.

  Lemma restore_WF : WF (restore m (overlay inl m)).
  Proof. apply store_write_spec; [apply va_WF; assumption|exact Hm]. Qed.

  (* store() keeps exactly the entries that are not beneath a tombstone *)
  Lemma restore_lookup k :
    lookup k (restore m (overlay inl m)) =
    match lookup k (overlay inl m) with Some v => if covered (overlay inl m) k then None else Some v | None => None end.
  Proof.
    unfold restore. rewrite (proj2 (store_write_spec m _ (va_WF inl m Hinl Hm) Hm)). unfold sw_val.
    destruct (lookup k (overlay inl m)) as [v|] eqn:E.
    - destruct (covered (overlay inl m) k); [reflexivity|]. rewrite va_lookup in E.
      destruct (lookup k m) as [e|]; [|reflexivity]. injection E as ->. rewrite N.eqb_refl. reflexivity.
    - rewrite va_lookup in E. destruct (lookup k m) as [e|]; [discriminate|]. cbn. reflexivity.
  Qed.

  Lemma restore_i (M : cmap) :
    (forall k v, lookup k (restore m (overlay inl m)) = Some v -> lookup k M = Some v) ->
    forall k v, lookup k (overlay inl m) = Some v -> covered (overlay inl m) k = false ->
    exists v', lookup k M = Some v' /\ same_content v' v = true.
  Proof.
    intros H k v Hk Hc. exists v. split; [|apply same_content_refl]. apply H. rewrite restore_lookup, Hk, Hc. reflexivity.
  Qed.

  Theorem restore_sound_lvp p x : lvp (overlay [] (restore m (overlay inl m))) p x <-> lvp (overlay inl m) p x.
  Proof.
    rewrite (overlay_nil _ (proj1 restore_WF)).
    apply (prune_equiv _ _ (va_WF inl m Hinl Hm) restore_WF).
    - apply restore_i. auto.
    - intros k H E. apply H. rewrite restore_lookup, E. reflexivity.
  Qed.

  Lemma cut_lookup k :
    lookup k (overlay inl (restore m (overlay inl m))) =
    match lookup k (restore m (overlay inl m)) with Some v => Some v | None => lookup k inl end.
  Proof. apply overlay_lookup. apply restore_WF. Qed.

  Theorem restore_cut_sound_lvp p x : lvp (overlay inl (restore m (overlay inl m))) p x <-> lvp (overlay inl m) p x.
  Proof.
    apply (prune_equiv _ _ (va_WF inl m Hinl Hm) (WF_overlay _ _ Hinl restore_WF)).
    - apply restore_i. intros k v H. rewrite cut_lookup, H. reflexivity.
    - intros k H E. apply H. rewrite cut_lookup, restore_lookup, E. rewrite va_lookup in E.
      destruct (lookup k m); [discriminate|exact E].
  Qed.

  Lemma inline_lookup k : lookup k (overlay (overlay inl m) m) = lookup k (overlay inl m).
  Proof. rewrite (overlay_lookup m (overlay inl m) k (proj1 Hm)), va_lookup. destruct (lookup k m); reflexivity. Qed.

  Lemma inline_WF : WF (overlay (overlay inl m) m).
  Proof. apply WF_overlay; [apply va_WF; assumption|exact Hm]. Qed.

  Theorem inline_sound_lvp p x : lvp (overlay (overlay inl m) m) p x <-> lvp (overlay inl m) p x.
  Proof.
    apply (prune_equiv _ _ (va_WF inl m Hinl Hm) inline_WF).
    - intros k v Hk _. exists v. split; [rewrite inline_lookup; exact Hk|apply same_content_refl].
    - intros k H. rewrite inline_lookup in H. exact H.
  Qed.

  (* (a) what a status update stores holds nothing beneath a tombstone *)
  Theorem restore_no_entry_below : no_entry_below (restore m (overlay inl m)) = true.
  Proof.
    unfold no_entry_below. apply forallb_forall. intros [k v] Hin. cbn. apply negb_true_iff.
    apply (in_lookup _ _ _ (proj1 restore_WF)) in Hin.
    assert (Hcov : covered (restore m (overlay inl m)) k = covered (overlay inl m) k).
    { apply (prune_equiv_cov _ _ (va_WF inl m Hinl Hm) restore_WF).
      - apply restore_i. auto.
      - intros k' H E. apply H. rewrite restore_lookup, E. reflexivity. }
    rewrite Hcov. rewrite restore_lookup in Hin. destruct (lookup k (overlay inl m)); [|discriminate].
    destruct (covered (overlay inl m) k); [discriminate|reflexivity].
  Qed.

  Theorem inline_no_live_below : no_live_below (overlay inl m) = true -> no_live_below (overlay (overlay inl m) m) = true.
  Proof.
    intros Hn. unfold no_live_below. apply forallb_forall. intros [k v] Hin. cbn.
    destruct (pv_deleted v) eqn:Ed; [reflexivity|]. cbn. apply negb_true_iff.
    apply (in_lookup _ _ _ (proj1 inline_WF)) in Hin. rewrite inline_lookup in Hin.
    assert (Hcov : covered (overlay (overlay inl m) m) k = covered (overlay inl m) k).
    { apply (prune_equiv_cov _ _ (va_WF inl m Hinl Hm) inline_WF).
      - intros k' v' Hk _. exists v'. split; [rewrite inline_lookup; exact Hk|apply same_content_refl].
      - intros k' H. rewrite inline_lookup in H. exact H. }
    rewrite Hcov. apply (nlb_spec _ _ v (proj1 (va_WF inl m Hinl Hm)) Hn Hin Ed).
  Qed.
End Restore.

Lemma neb_nlb M : no_entry_below M = true -> no_live_below M = true.
Proof.
  unfold no_entry_below, no_live_below. rewrite !forallb_forall. intros H kv Hin. rewrite (H kv Hin). apply orb_true_r.
Qed.

Theorem restore_sound_P2Pure inl m : wfk inl = true -> wfk m = true ->
  abs_app (overlay [] (restore m (overlay inl m))) = abs_app (overlay inl m).
Proof.
  rewrite !wfk_WF. intros Hinl Hm. unfold abs_app. apply live_ext.
  - apply WF_overlay; [apply WF_nil|apply restore_WF; assumption].
  - apply va_WF; assumption.
  - apply restore_sound_lvp; assumption.
Qed.

Theorem restore_cut_sound_P2Pure inl m : wfk inl = true -> wfk m = true ->
  abs_app (overlay inl (restore m (overlay inl m))) = abs_app (overlay inl m).
Proof.
  rewrite !wfk_WF. intros Hinl Hm. unfold abs_app. apply live_ext.
  - apply WF_overlay; [exact Hinl|apply restore_WF; assumption].
  - apply va_WF; assumption.
  - apply restore_cut_sound_lvp; assumption.
Qed.

Theorem inline_sound_P2Pure inl m : wfk inl = true -> wfk m = true ->
  abs_app (overlay (overlay inl m) m) = abs_app (overlay inl m).
Proof.
  rewrite !wfk_WF. intros Hinl Hm. unfold abs_app. apply live_ext.
  - apply inline_WF; assumption.
  - apply va_WF; assumption.
  - apply inline_sound_lvp; assumption.
Qed.

(* (a) preservation by the status updates: the map written (entry cleared) and the commit's inlining *)
Theorem restore_wf inl m : wfk inl = true -> wfk m = true ->
  wf_pair [] (restore m (overlay inl m)) = true /\ no_entry_below (restore m (overlay inl m)) = true /\
  wfk (restore m (overlay inl m)) = true.
Proof.
  intros H1 H2. pose proof H1 as Hinl. pose proof H2 as Hm. rewrite wfk_WF in Hinl, Hm.
  pose proof (restore_WF inl m Hinl Hm) as Hw. pose proof (restore_no_entry_below inl m Hinl Hm) as Hn.
  assert (Hk : wfk (restore m (overlay inl m)) = true) by (apply wfk_WF; exact Hw).
  split; [|split; assumption]. unfold wf_pair. rewrite (overlay_nil _ (proj1 Hw)), Hk, (neb_nlb _ Hn). reflexivity.
Qed.

Theorem inline_wf inl m : wf_pair inl m = true -> wf_pair (overlay inl m) m = true.
Proof.
  unfold wf_pair. rewrite !andb_true_iff. intros [[H1 H2] H3]. pose proof H1 as Hinl. pose proof H2 as Hm.
  rewrite wfk_WF in Hinl, Hm. split; [split; [|exact H2]|].
  - apply wfk_WF. apply va_WF; assumption.
  - apply inline_no_live_below; assumption.
Qed.

(* the pair right after the map write of a status update, before the entry write, keeps wfk but NOT no_live_below:
   an inlined live value whose stored counterpart was a tombstone beneath a tombstone comes back through the overlay *)
Definition cut_inl : cmap := [(B "/a/b", mkPV (B "/a/b") (B "1") false 1); (B "/a", mkPV (B "/a") [] true 2)].
Definition cut_m : cmap := [(B "/a/b", mkPV (B "/a/b") [] true 2)].
Example restore_cut_wf_refuted :
  wf_pair cut_inl cut_m = true /\ wf_pair cut_inl (restore cut_m (overlay cut_inl cut_m)) = false /\
  abs_app (overlay cut_inl (restore cut_m (overlay cut_inl cut_m))) = abs_app (overlay cut_inl cut_m).
Proof. repeat split; vm_compute; reflexivity. Qed.

(** * apply_idem: the same request twice, as lists, for every device state and request *)
Lemma filter_filter {A} (f g : A -> bool) l : filter f (filter g l) = filter (fun x => g x && f x) l.
Proof.
  induction l as [|a l IH]; cbn; [reflexivity|]. destruct (g a); cbn; [destruct (f a); rewrite IH; reflexivity|exact IH].
Qed.

Lemma filter_nil {A} (f : A -> bool) l : (forall x, In x l -> f x = false) -> filter f l = [].
Proof.
  induction l as [|a l IH]; cbn; intros H; [reflexivity|]. rewrite (H a (or_introl eq_refl)). apply IH.
  intros x Hx. apply H. right. exact Hx.
Qed.

Definition keepb (dels : list str) (kv : str * str) : bool :=
  forallb (fun p => negb (eqb_str (fst kv) p || is_path_below (fst kv) p)) dels.
Definition notin (us : list (str * str)) (kv : str * str) : bool := negb (existsb (eqb_str (fst kv)) (map fst us)).

Lemma del_fold_filter dels : forall d, fold_left del_step dels d = filter (keepb dels) d.
Proof.
  induction dels as [|t dels IH]; intros d; cbn [fold_left].
  - unfold keepb. cbn. induction d as [|a d IHd]; cbn; [reflexivity|]. rewrite <- IHd. reflexivity.
  - rewrite IH. unfold del_step. rewrite filter_filter. apply filter_ext. intros kv. reflexivity.
Qed.

Lemma upd_fold_split us : forall d, fold_left upd_step us d = filter (notin us) d ++ fold_left upd_step us [].
Proof.
  induction us as [|u us IH]; intros d; cbn [fold_left].
  - unfold notin. cbn. rewrite app_nil_r. induction d as [|a d IHd]; cbn; [reflexivity|]. rewrite <- IHd. reflexivity.
  - rewrite (IH (upd_step d u)), (IH (upd_step [] u)). unfold upd_step. cbn [d_remove app].
    rewrite filter_app, <- app_assoc. f_equal. rewrite d_remove_filter, filter_filter. apply filter_ext. intros kv.
    unfold notin. cbn [map existsb]. rewrite negb_orb. rewrite (eqb_str_sym (fst u) (fst kv)). reflexivity.
Qed.

Lemma upd_fold_sub us : forall d x, In x (fold_left upd_step us d) -> In x us \/ In x d.
Proof.
  induction us as [|u us IH]; intros d x; cbn [fold_left]; [auto|]. intros H. apply IH in H.
  destruct H as [H|H]; [left; right; exact H|]. apply upd_step_in in H. destruct H as [[H _]| ->]; [auto|left; left; reflexivity].
Qed.

Theorem apply_idem_P2Pure d r : dev_apply (dev_apply d r) r = dev_apply d r.
Proof.
  rewrite !dev_apply_eq, !del_fold_filter. rewrite (upd_fold_split (r_upd r) (filter (keepb (r_del r)) d)).
  rewrite (upd_fold_split (r_upd r) (filter _ (_ ++ _))). f_equal.
  rewrite !filter_app.
  assert (Hnil : filter (notin (r_upd r)) (filter (keepb (r_del r)) (fold_left upd_step (r_upd r) [])) = []).
  { apply filter_nil. intros x Hx. apply filter_In in Hx. destruct Hx as [Hx _]. apply upd_fold_sub in Hx.
    destruct Hx as [Hx|[]]. unfold notin. apply negb_false_iff. apply existsb_exists. exists (fst x).
    split; [apply in_map; exact Hx|apply eqb_str_refl]. }
  rewrite Hnil, app_nil_r, !filter_filter. apply filter_ext. intros kv.
  destruct (keepb (r_del r) kv), (notin (r_upd r) kv); reflexivity.
Qed.

(* Convergence of a connected device to the applied configuration in the v2 protocol model (C04), protocol level,
   generic in the pure layer.  The device and the record of what was applied ("applied values": the Atomix map
   c_avalues overlaid on the values inlined in the entry, [aview]) are compared through an abstraction
     abs_dev : D -> A     what the device holds
     abs_app : V -> A     what an applied-values map stands for
   and the obligations of the pure layer are NAMED predicates (Definitions below, never assumed globally):
   every theorem that needs one lists it as a premise.
     - frame: the device of a target changes only by LDevRestart or by OK-answered requests of a reconcile
       invocation, and its state is the fold of dev_apply over exactly those requests, in order;
     - quiet invocations: an invocation (any controller, any prefix = any crash point) that contains no OK-answered
       request to the target leaves the device untouched and keeps what the applied values stand for;
     - a complete OK apply keeps the agreement (apply_sound); a complete OK re-push establishes it from an empty
       or an agreeing device (resync_sound_empty, resync_sound_same), with state SYNCHRONIZED and applied term = term;
     - nothing new before the re-push (from P2_Term), restart, and the run theorem [converged]. *)
From stdpp Require Import gmap.
From RecordUpdate Require Import RecordUpdate.
From Coq Require Import NArith Lia.
From OC Require Import Model.Proto2 Proofs.P2Base Proofs.P2Phases Proofs.P2_Cursor Proofs.P2_CursorInv Proofs.P2_Term.
Open Scope N_scope.

Section Converge.
  Context {V Ch Req D : Type}.
  Context (candidate : V -> Ch -> V) (candidate_rb : V -> Ch -> V) (rollback_of : V -> Ch -> Ch)
          (overlay : V -> V -> V) (commit_merge : N -> N -> V -> V -> Ch -> V)
          (payload : N -> V -> Ch -> option Req) (record_applied : N -> N -> V -> V -> V -> Ch -> V)
          (touched : N -> V -> Ch -> V) (restore : V -> V -> V)
          (resync_payload : V -> list (option Req)) (doc_ok : V -> bool)
          (dev_apply : D -> Req -> D) (stamp : N -> Ch -> Ch) (v_empty : V) (d_empty : D) (ch_empty : Ch).
  Context {A : Type} (abs_dev : D -> A) (abs_app : V -> A).

  Notation world := (@world V Ch Req D).
  Notation eff := (@eff V Ch Req).
  Notation txn := (@txn Ch).
  Notation prop := (@prop Ch).
  Notation config := (@config V).
  Notation apply_eff := (@apply_eff V Ch Req D dev_apply d_empty).
  Notation rec_tx := (@rec_tx V Ch Req D stamp).
  Notation rec_prop := (@rec_prop V Ch Req D candidate candidate_rb rollback_of overlay commit_merge payload record_applied
                                  touched restore doc_ok v_empty d_empty ch_empty).
  Notation rec_cfg := (@rec_cfg V Ch Req D overlay restore resync_payload v_empty d_empty).
  Notation rec_master := (@rec_master V Ch Req D overlay restore v_empty).
  Notation rec_conn := (@rec_conn V Ch Req D).
  Notation reconcile := (@reconcile V Ch Req D candidate candidate_rb rollback_of overlay commit_merge payload record_applied
                                    touched restore resync_payload doc_ok stamp v_empty d_empty ch_empty).
  Notation step := (@step V Ch Req D candidate candidate_rb rollback_of overlay commit_merge payload record_applied
                          touched restore resync_payload doc_ok dev_apply stamp v_empty d_empty ch_empty).
  Notation reach := (@reach V Ch Req D candidate candidate_rb rollback_of overlay commit_merge payload record_applied
                            touched restore resync_payload doc_ok dev_apply stamp v_empty d_empty ch_empty).
  Notation view := (@view V overlay).
  Notation aview := (@aview V overlay).
  Notation dev_answer := (@dev_answer V Ch Req D d_empty).
  Notation dev_of := (@dev_of V Ch Req D d_empty).
  Notation rb_change := (@rb_change Ch ch_empty).
  Notation upd_status := (@upd_status V Ch Req overlay restore v_empty).

  (** * Definitions *)
  (* what Get loads from an applied-values map when nothing is inlined in the entry *)
  Definition loaded (m : V) : V := overlay v_empty m.
  Definition dstate_of (w : world) (t : N) : D := d_state (dev_of w t).
  (* the device of [t] holds what the applied values of its configuration stand for *)
  Definition agrees (w : world) (t : N) : Prop :=
    exists C, cfgs w !! t = Some C /\ abs_dev (dstate_of w t) = abs_app (aview C).

  (** the obligations of the pure layer (named, not assumed).  Each comes in two forms: [X_at ...] at the values
      one invocation works on (what the run-time monitors check on every observed step, and what the Examples
      establish by computation on the executable instance), and [X] for all values. *)
  (* a complete apply answered OK: [inl], [m] the inline values and the map of the applied values, [vw] the loaded
     committed view, [d] the state of the device, [ord] the Go map iteration order the recording follows *)
  Definition apply_sound_at (ord i : N) (inl m vw : V) (ch : Ch) (req : Req) (d : D) : Prop :=
    payload i vw ch = Some req -> abs_dev d = abs_app (overlay inl m) ->
    abs_dev (dev_apply d req) = abs_app (loaded (record_applied ord i m (overlay inl m) vw ch)).
  Definition apply_sound : Prop := forall ord i inl m vw ch req d, apply_sound_at ord i inl m vw ch req d.
  (* a status update stores the loaded applied values again: what they stand for does not change, neither once the
     entry has been written (inline values cleared) ... *)
  Definition restore_sound_at (inl m : V) : Prop := abs_app (loaded (restore m (overlay inl m))) = abs_app (overlay inl m).
  (* ... nor between the map write and the entry write (inline values still there) *)
  Definition restore_cut_sound_at (inl m : V) : Prop := abs_app (overlay inl (restore m (overlay inl m))) = abs_app (overlay inl m).
  (* the commit writes the loaded applied values inline into the entry (the applied map is untouched) *)
  Definition inline_sound_at (inl m : V) : Prop := abs_app (overlay (overlay inl m) m) = abs_app (overlay inl m).
  Definition status_sound_at (p : V * V) : Prop :=
    restore_sound_at p.1 p.2 /\ restore_cut_sound_at p.1 p.2 /\ inline_sound_at p.1 p.2.
  Definition restore_sound : Prop := forall inl m, restore_sound_at inl m.
  Definition restore_cut_sound : Prop := forall inl m, restore_cut_sound_at inl m.
  Definition inline_sound : Prop := forall inl m, inline_sound_at inl m.
  Definition status_sound : Prop := forall p, status_sound_at p.
  Definition resync_sound_empty_at (va : V) (reqs : list Req) : Prop :=
    resync_payload va = map Some reqs -> abs_dev (fold_left dev_apply reqs d_empty) = abs_app va.
  Definition resync_sound_same_at (va : V) (reqs : list Req) (d : D) : Prop :=
    resync_payload va = map Some reqs -> abs_dev d = abs_app va -> abs_dev (fold_left dev_apply reqs d) = abs_app va.
  Definition resync_sound_empty : Prop := forall va reqs, resync_sound_empty_at va reqs.
  Definition resync_sound_same : Prop := forall va reqs d, resync_sound_same_at va reqs d.
  (* sending the same request twice is as good as once (retry after a cut between the request and the status write) *)
  Definition apply_idem_at (d : D) (req : Req) : Prop := abs_dev (dev_apply (dev_apply d req) req) = abs_dev (dev_apply d req).
  Definition apply_idem : Prop := forall d req, apply_idem_at d req.

  (** * (a) Frame: the device changes only by OK-answered requests *)
  Definition ok_req (t : N) (e : eff) : option Req :=
    match e with
    | EDev (DevSet t' _ _ _ r COk) => if t' =? t then Some r else None
    | _ => None
    end.
  Fixpoint ok_reqs (t : N) (es : list eff) : list Req :=
    match es with
    | [] => []
    | e :: r => match ok_req t e with Some q => q :: ok_reqs t r | None => ok_reqs t r end
    end.

  Lemma ok_reqs_app t (a b : list eff) : ok_reqs t (a ++ b) = ok_reqs t a ++ ok_reqs t b.
  Proof. induction a as [|e r IH]; cbn; [reflexivity|]. destruct (ok_req t e); cbn; rewrite IH; reflexivity. Qed.

  Lemma ok_reqs_firstn_nil t (es : list eff) : forall k, ok_reqs t es = [] -> ok_reqs t (firstn k es) = [].
  Proof.
    induction es as [|e r IH]; intros k H; [rewrite firstn_nil; reflexivity|].
    destruct k as [|k]; [reflexivity|]. cbn in *. destruct (ok_req t e); [discriminate|]. apply IH. exact H.
  Qed.

  Lemma devs_eff (w : world) (e : eff) t :
    devs (apply_eff w e) !! t =
    match ok_req t e with
    | Some r => Some (mkDev (dev_apply (dstate_of w t) r)
                            (N.max (d_max (dev_of w t)) match e with EDev (DevSet _ _ term _ _ _) => term | _ => 0 end))
    | None => devs w !! t
    end.
  Proof.
    destruct e as [| | | | | | | | | [t' c term o r a]]; cbn; try reflexivity;
      repeat match goal with |- context [match cfgs w !! ?x with _ => _ end] => destruct (cfgs w !! x) end;
      repeat match goal with |- context [match props w !! ?x with _ => _ end] => destruct (props w !! x) end;
      repeat match goal with |- context [match rels w !! ?x with _ => _ end] => destruct (rels w !! x) end; try reflexivity.
    destruct a; try reflexivity. cbn.
    destruct (N.eqb_spec t' t) as [->|Hne]; [rewrite lookup_insert; reflexivity|rewrite lookup_insert_ne by exact Hne; reflexivity].
  Qed.

  Lemma dstate_eff (w : world) (e : eff) t :
    dstate_of (apply_eff w e) t = match ok_req t e with Some r => dev_apply (dstate_of w t) r | None => dstate_of w t end.
  Proof.
    unfold dstate_of at 1. unfold Proto2.dev_of. rewrite devs_eff. destruct (ok_req t e); reflexivity.
  Qed.

  (* the state of the device after an effect list: the fold of dev_apply over exactly the OK requests, in order *)
  Lemma dstate_fold (es : list eff) t : forall w : world,
    dstate_of (fold_left apply_eff es w) t = fold_left dev_apply (ok_reqs t es) (dstate_of w t).
  Proof.
    induction es as [|e r IH]; intros w; [reflexivity|]. cbn [fold_left ok_reqs]. rewrite IH, dstate_eff.
    destruct (ok_req t e); reflexivity.
  Qed.

  Lemma devs_fold_none (es : list eff) t : forall w : world,
    ok_reqs t es = [] -> devs (fold_left apply_eff es w) !! t = devs w !! t.
  Proof.
    induction es as [|e r IH]; intros w H; [reflexivity|]. cbn [fold_left ok_reqs] in *.
    destruct (ok_req t e) eqn:E; [discriminate|]. rewrite IH by exact H. rewrite devs_eff, E. reflexivity.
  Qed.

  Theorem device_changes_only_by_ok_requests (w : world) l t :
    devs (step w l) !! t <> devs w !! t ->
    l = LDevRestart t \/
    exists c k o, l = LRec c k o /\ ok_reqs t (firstn k (fst (reconcile o w c))) <> [].
  Proof.
    destruct l as [chs sy se|ri|c k o|c t0|c|c t0|t0 p|t0|t0]; cbn [Proto2.step]; try (intros H; exfalso; apply H; reflexivity).
    - intros H. right. exists c, k, o. split; [reflexivity|]. intros Hn. apply H. apply devs_fold_none. exact Hn.
    - destruct (conns w !! c); intros H; exfalso; apply H; reflexivity.
    - destruct (rels w !! c); intros H; exfalso; apply H; reflexivity.
    - intros H. left. destruct (decide (t0 = t)) as [->|Hne]; [reflexivity|].
      exfalso. apply H. cbn. rewrite lookup_insert_ne by exact Hne. reflexivity.
  Qed.

  Theorem device_state_after_invocation (w : world) c k o t :
    dstate_of (step w (LRec c k o)) t =
    fold_left dev_apply (ok_reqs t (firstn k (fst (reconcile o w c)))) (dstate_of w t).
  Proof. cbn [Proto2.step]. apply dstate_fold. Qed.

  Theorem restart_empties (w : world) t : dstate_of (step w (LDevRestart t)) t = d_empty.
  Proof. unfold dstate_of, Proto2.dev_of. cbn. rewrite lookup_insert. reflexivity. Qed.

  (** * (b) What an effect list does to the applied values of one configuration *)
  (* the two components of the applied view: values inlined in the entry, the applied path-value map *)
  Definition pair_of (C : config) : V * V := (c_ainline C, c_avalues C).
  Definition ov (p : V * V) : V := overlay p.1 p.2.
  Definition eff_on (t : N) (p : V * V) (e : eff) : V * V :=
    match e with
    | EPutCfg t' c => if t' =? t then (c_ainline c, p.2) else p
    | EPutAValues t' v => if t' =? t then (p.1, v) else p
    | _ => p
    end.

  Lemma aview_pair (C : config) : aview C = ov (pair_of C).
  Proof. reflexivity. Qed.

  Lemma pair_eff (w : world) (e : eff) t (C : config) :
    cfgs w !! t = Some C ->
    exists C', cfgs (apply_eff w e) !! t = Some C' /\ pair_of C' = eff_on t (pair_of C) e.
  Proof.
    intros HC. rewrite cfgs_apply_eff.
    destruct e as [| | |t0 c|t0 c|t0 v|t0 v| | |]; try (exists C; split; [exact HC|reflexivity]); cbn [eff_on].
    - destruct (cfgs w !! t0) eqn:E0; [exists C; split; [exact HC|reflexivity]|].
      destruct (decide (t0 = t)) as [->|Hne]; [congruence|]. rewrite lookup_insert_ne by exact Hne. exists C. auto.
    - destruct (N.eqb_spec t0 t) as [->|Hne].
      + rewrite HC, lookup_insert. eexists. split; [reflexivity|]. reflexivity.
      + destruct (cfgs w !! t0); [rewrite lookup_insert_ne by exact Hne|]; exists C; auto.
    - destruct (decide (t0 = t)) as [->|Hne].
      + rewrite HC, lookup_insert. eexists. split; [reflexivity|]. reflexivity.
      + destruct (cfgs w !! t0); [rewrite lookup_insert_ne by exact Hne|]; exists C; auto.
    - destruct (N.eqb_spec t0 t) as [->|Hne].
      + rewrite HC, lookup_insert. eexists. split; [reflexivity|]. reflexivity.
      + destruct (cfgs w !! t0); [rewrite lookup_insert_ne by exact Hne|]; exists C; auto.
  Qed.

  Lemma pair_fold (es : list eff) t : forall (w : world) (C : config),
    cfgs w !! t = Some C ->
    exists C', cfgs (fold_left apply_eff es w) !! t = Some C' /\ pair_of C' = fold_left (eff_on t) es (pair_of C).
  Proof.
    induction es as [|e r IH]; intros w C HC; [exists C; auto|]. cbn [fold_left].
    destruct (pair_eff w e t C HC) as (C1 & H1 & P1). destruct (IH _ _ H1) as (C' & H' & P'). exists C'. split; [exact H'|].
    rewrite P', P1. reflexivity.
  Qed.

  (* every prefix of [es], started from the pair [p], stands for [a] *)
  Fixpoint quiet (t : N) (a : A) (p : V * V) (es : list eff) : Prop :=
    match es with
    | [] => True
    | e :: r => abs_app (ov (eff_on t p e)) = a /\ quiet t a (eff_on t p e) r
    end.

  Lemma quiet_prefix t a (es : list eff) : forall p k,
    abs_app (ov p) = a -> quiet t a p es -> abs_app (ov (fold_left (eff_on t) (firstn k es) p)) = a.
  Proof.
    induction es as [|e r IH]; intros p k Hp Hq; [rewrite firstn_nil; exact Hp|].
    destruct k as [|k]; [exact Hp|]. cbn [firstn fold_left]. destruct Hq as [H1 H2]. apply IH; assumption.
  Qed.

  Lemma quiet_app t a (es1 es2 : list eff) : forall p,
    quiet t a p es1 -> quiet t a (fold_left (eff_on t) es1 p) es2 -> quiet t a p (es1 ++ es2).
  Proof.
    induction es1 as [|e r IH]; intros p H1 H2; [exact H2|]. cbn in *. destruct H1 as [Ha Hr]. split; [exact Ha|]. apply IH; assumption.
  Qed.

  (* effects that do not write the entry or the applied map of [t] *)
  Definition anv_neutral (t : N) (e : eff) : Prop :=
    match e with
    | EPutCfg t' _ | EPutAValues t' _ => t' <> t
    | _ => True
    end.
  Lemma anv_neutral_eff t p e : anv_neutral t e -> eff_on t p e = p.
  Proof.
    destruct e as [| | | |t0 c| |t0 v| | |]; cbn; try reflexivity; intros Hne;
      (destruct (N.eqb_spec t0 t); [contradiction|reflexivity]).
  Qed.
  Lemma neutral_fold t (es : list eff) p : Forall (anv_neutral t) es -> fold_left (eff_on t) es p = p.
  Proof.
    induction es as [|e r IH]; intros Hf; [reflexivity|]. inversion Hf; subst. cbn. rewrite anv_neutral_eff by assumption. auto.
  Qed.
  Lemma quiet_neutral t a p (es : list eff) : abs_app (ov p) = a -> Forall (anv_neutral t) es -> quiet t a p es.
  Proof.
    intros Hp. induction es as [|e r IH]; intros Hf; [exact I|]. inversion Hf as [|? ? He Hr]. cbn.
    rewrite anv_neutral_eff by exact He. split; [exact Hp|]. apply IH. exact Hr.
  Qed.

  (* a status update of the configuration the invocation has read *)
  Lemma quiet_upd_status t t' (C C' : config) :
    status_sound_at (pair_of C) -> quiet t (abs_app (aview C)) (pair_of C) (upd_status t' C C').
  Proof.
    intros (R1 & R2 & R3). unfold Proto2.upd_status. cbn [quiet eff_on]. destruct (t' =? t); cbn.
    - split; [apply R2|]. split; [apply R1|exact I].
    - repeat split.
  Qed.

  Lemma upd_status_pair t (C C' : config) p :
    fold_left (eff_on t) (upd_status t C C') p = (v_empty, restore (c_avalues C) (aview C)).
  Proof. unfold Proto2.upd_status. cbn [fold_left eff_on]. rewrite !N.eqb_refl. reflexivity. Qed.

  (** * Quiet invocations: no OK-answered request to the target among the effects *)
  Ltac conc_link :=
    try match goal with H : _ = Some ?e |- _ => is_var e;
          repeat match type of H with context [match ?x with _ => _ end] => destruct x eqn:? end;
          try discriminate H; injection H as <- end.

  Lemma tp_only_neutral t (e : eff) : tp_only e -> anv_neutral t e.
  Proof. destruct e; cbn; auto; intros []. Qed.

  Lemma rec_tx_quiet (w : world) i t (C : config) :
    quiet t (abs_app (aview C)) (pair_of C) (fst (rec_tx w i)).
  Proof.
    apply quiet_neutral; [reflexivity|]. eapply Forall_impl; [exact (rec_tx_tp stamp w i)|]. intros e. apply tp_only_neutral.
  Qed.
  Lemma rec_tx_no_dev (w : world) i t : ok_reqs t (fst (rec_tx w i)) = [].
  Proof.
    pose proof (rec_tx_tp stamp w i) as Hf. induction Hf as [|e r He Hr IH]; [reflexivity|].
    cbn. destruct e; cbn in *; try exact IH; destruct He.
  Qed.

  Lemma rec_conn_quiet (w : world) c t (C : config) :
    quiet t (abs_app (aview C)) (pair_of C) (fst (rec_conn w c)).
  Proof.
    apply quiet_neutral; [reflexivity|]. unfold Proto2.rec_conn.
    destruct_matches; cbn [fst]; repeat first [apply List.Forall_nil | apply List.Forall_cons; [exact I|]].
  Qed.
  Lemma rec_conn_no_dev (w : world) c t : ok_reqs t (fst (rec_conn w c)) = [].
  Proof. unfold Proto2.rec_conn. destruct_matches; reflexivity. Qed.

  Lemma rec_master_quiet (o : oracle) (w : world) t' t (C : config) :
    status_sound_at (pair_of C) -> cfgs w !! t = Some C -> quiet t (abs_app (aview C)) (pair_of C) (fst (rec_master o w t')).
  Proof.
    intros HS HC. unfold Proto2.rec_master.
    destruct (N.eqb_spec t' t) as [->|Hne].
    - rewrite HC. destruct_matches; cbn [fst]; first [exact I | apply quiet_upd_status; exact HS].
    - apply quiet_neutral; [reflexivity|]. unfold Proto2.upd_status.
      destruct_matches; cbn [fst]; repeat first [apply List.Forall_nil | apply List.Forall_cons; [first [exact I|exact Hne]|]].
  Qed.
  Lemma rec_master_no_dev (o : oracle) (w : world) t' t : ok_reqs t (fst (rec_master o w t')) = [].
  Proof. unfold Proto2.rec_master, Proto2.upd_status. destruct_matches; reflexivity. Qed.

  Lemma resync_effs_neutral_anv t0 m term a reqs t :
    Forall (anv_neutral t) (fst (@resync_effs V Ch Req t0 m term a reqs)).
  Proof.
    apply List.Forall_forall. intros e He. apply resync_effs_in in He. destruct He as (r & -> & _). exact I.
  Qed.

  Lemma rec_cfg_quiet (o : oracle) (w : world) t' t (C : config) :
    status_sound_at (pair_of C) -> cfgs w !! t = Some C -> quiet t (abs_app (aview C)) (pair_of C) (fst (rec_cfg o w t')).
  Proof.
    intros HS HC. unfold Proto2.rec_cfg.
    destruct (N.eqb_spec t' t) as [->|Hne].
    - rewrite HC. destruct_matches; cbn [fst]; try first [exact I | apply quiet_upd_status; exact HS].
      all: match goal with E : resync_effs ?t0 ?m0 ?te0 ?a0 ?rq0 = (?es, _) |- _ =>
             pose proof (resync_effs_neutral_anv t0 m0 te0 a0 rq0 t0) as Hn; rewrite E in Hn; cbn [fst] in Hn end.
      all: first [ apply quiet_neutral; [reflexivity|exact Hn]
                 | apply quiet_app; [apply quiet_neutral; [reflexivity|exact Hn]|]; rewrite neutral_fold by exact Hn;
                   apply quiet_upd_status; exact HS ].
    - apply quiet_neutral; [reflexivity|]. unfold Proto2.upd_status.
      destruct_matches; cbn [fst]; repeat first [apply List.Forall_nil | apply List.Forall_cons; [first [exact I|exact Hne]|]].
      all: match goal with E : resync_effs ?t0 ?m0 ?te0 ?a0 ?rq0 = (?es, _) |- _ =>
             pose proof (resync_effs_neutral_anv t0 m0 te0 a0 rq0 t) as Hn; rewrite E in Hn; cbn [fst] in Hn end.
      all: first [ exact Hn
                 | apply Forall_app_2; [exact Hn|];
                   repeat first [apply List.Forall_nil | apply List.Forall_cons; [first [exact I|exact Hne]|]] ].
  Qed.

  Lemma rec_prop_quiet (o : oracle) (w : world) t' i t (C : config) :
    status_sound_at (pair_of C) -> cfgs w !! t = Some C -> ok_reqs t (fst (rec_prop o w (t', i))) = [] ->
    quiet t (abs_app (aview C)) (pair_of C) (fst (rec_prop o w (t', i))).
  Proof.
    intros (R1 & R2 & R3) HC. unfold Proto2.rec_prop, Proto2.vfail, Proto2.upd_status.
    destruct (props w !! (t', i)) as [P|] eqn:HP; [|intros _; exact I].
    destruct (N.eqb_spec t' t) as [->|Hne].
    - rewrite HC. destruct_matches; cbn [fst app]; intros Hq; conc_link;
        cbn [ok_reqs ok_req] in Hq; rewrite ?N.eqb_refl in Hq; try discriminate Hq; clear Hq;
        cbn [quiet eff_on]; rewrite ?N.eqb_refl; unfold ov, pair_of, Proto2.aview; cbn;
        repeat split; first [apply R1 | apply R2 | apply R3 | reflexivity].
    - intros _. apply quiet_neutral; [reflexivity|].
      destruct_matches; cbn [fst app]; conc_link;
        repeat first [apply List.Forall_nil | apply List.Forall_cons; [first [exact I|exact Hne]|]].
  Qed.

  (** * The configuration entry of one target along an effect list *)
  Definition cfg_on (t : N) (C : config) (e : eff) : config :=
    match e with
    | EPutCfg t' c => if t' =? t then c <| c_values := c_values C |> <| c_avalues := c_avalues C |> else C
    | EPutValues t' v => if t' =? t then C <| c_values := v |> else C
    | EPutAValues t' v => if t' =? t then C <| c_avalues := v |> else C
    | _ => C
    end.

  Lemma cfg_eff (w : world) (e : eff) t (C : config) :
    cfgs w !! t = Some C -> cfgs (apply_eff w e) !! t = Some (cfg_on t C e).
  Proof.
    intros HC. rewrite cfgs_apply_eff.
    destruct e as [| | |t0 c|t0 c|t0 v|t0 v| | |]; try exact HC; cbn [cfg_on].
    - destruct (cfgs w !! t0) eqn:E0; [exact HC|].
      destruct (decide (t0 = t)) as [->|Hne]; [congruence|]. rewrite lookup_insert_ne by exact Hne. exact HC.
    - destruct (N.eqb_spec t0 t) as [->|Hne].
      + rewrite HC, lookup_insert. reflexivity.
      + destruct (cfgs w !! t0); [rewrite lookup_insert_ne by exact Hne|]; exact HC.
    - destruct (N.eqb_spec t0 t) as [->|Hne].
      + rewrite HC, lookup_insert. reflexivity.
      + destruct (cfgs w !! t0); [rewrite lookup_insert_ne by exact Hne|]; exact HC.
    - destruct (N.eqb_spec t0 t) as [->|Hne].
      + rewrite HC, lookup_insert. reflexivity.
      + destruct (cfgs w !! t0); [rewrite lookup_insert_ne by exact Hne|]; exact HC.
  Qed.

  Lemma cfg_fold (es : list eff) t : forall (w : world) (C : config),
    cfgs w !! t = Some C -> cfgs (fold_left apply_eff es w) !! t = Some (fold_left (cfg_on t) es C).
  Proof.
    induction es as [|e r IH]; intros w C HC; [exact HC|]. cbn [fold_left]. apply IH. apply cfg_eff. exact HC.
  Qed.

  Lemma pair_cfg_on t (C : config) e : pair_of (cfg_on t C e) = eff_on t (pair_of C) e.
  Proof. destruct e as [| | |t0 c|t0 c|t0 v|t0 v| | |]; cbn; try reflexivity; destruct (t0 =? t); reflexivity. Qed.
  Lemma pair_cfg_fold t (es : list eff) : forall C : config,
    pair_of (fold_left (cfg_on t) es C) = fold_left (eff_on t) es (pair_of C).
  Proof. induction es as [|e r IH]; intros C; [reflexivity|]. cbn [fold_left]. rewrite IH, pair_cfg_on. reflexivity. Qed.

  Notation core := (@core V).
  (* the status part of the entry changes only by an entry write *)
  Lemma core_fold t (es : list eff) : forall C : config,
    core (fold_left (cfg_on t) es C) <> core C -> exists c, In (EPutCfg t c) es.
  Proof.
    induction es as [|e r IH]; intros C H; [exfalso; apply H; reflexivity|]. cbn [fold_left] in H.
    destruct e as [| | |t0 c|t0 c|t0 v|t0 v| | |];
      try (destruct (IH _ H) as (c' & Hc); exists c'; right; exact Hc); cbn [cfg_on] in H.
    - destruct (N.eqb_spec t0 t) as [->|Hne]; [exists c; left; reflexivity|].
      destruct (IH _ H) as (c' & Hc); exists c'; right; exact Hc.
    - destruct (t0 =? t); destruct (IH _ H) as (c' & Hc); exists c'; right; exact Hc.
    - destruct (t0 =? t); destruct (IH _ H) as (c' & Hc); exists c'; right; exact Hc.
  Qed.

  Lemma targets_fold (es : list eff) : forall w : world, targets (fold_left apply_eff es w) = targets w.
  Proof. induction es as [|e r IH]; intros w; [reflexivity|]. cbn [fold_left]. rewrite IH. apply targets_apply_eff. Qed.

  (** * Quiet invocations keep the device and what the applied values stand for, at every prefix *)
  Lemma reconcile_quiet (o : oracle) (w : world) c t (C : config) :
    status_sound_at (pair_of C) -> cfgs w !! t = Some C -> ok_reqs t (fst (reconcile o w c)) = [] ->
    quiet t (abs_app (aview C)) (pair_of C) (fst (reconcile o w c)).
  Proof.
    intros HS HC Hq. destruct c as [i|[t' i]|t'|t'|cc]; cbn [Proto2.reconcile] in *.
    - apply rec_tx_quiet.
    - apply rec_prop_quiet; assumption.
    - apply rec_cfg_quiet; assumption.
    - apply rec_master_quiet; assumption.
    - apply rec_conn_quiet.
  Qed.

  Theorem quiet_invocation (w : world) c k o t (C : config) :
    status_sound_at (pair_of C) -> cfgs w !! t = Some C -> ok_reqs t (fst (reconcile o w c)) = [] ->
    devs (step w (LRec c k o)) !! t = devs w !! t /\
    exists C', cfgs (step w (LRec c k o)) !! t = Some C' /\ abs_app (aview C') = abs_app (aview C).
  Proof.
    intros HS HC Hq. cbn [Proto2.step]. split.
    - apply devs_fold_none. apply ok_reqs_firstn_nil. exact Hq.
    - eexists. split; [apply cfg_fold; exact HC|]. rewrite aview_pair, pair_cfg_fold.
      apply quiet_prefix; [reflexivity|]. apply reconcile_quiet; assumption.
  Qed.

  Lemma dstate_devs (w w' : world) t : devs w' !! t = devs w !! t -> dstate_of w' t = dstate_of w t.
  Proof. unfold dstate_of, Proto2.dev_of. intros ->. reflexivity. Qed.

  Theorem quiet_keeps_agreement (w : world) c k o t :
    (forall C, cfgs w !! t = Some C -> status_sound_at (pair_of C)) ->
    ok_reqs t (fst (reconcile o w c)) = [] -> agrees w t -> agrees (step w (LRec c k o)) t.
  Proof.
    intros HS Hq (C & HC & Ha). destruct (quiet_invocation w c k o t C (HS C HC) HC Hq) as (Hd & C' & HC' & Hv).
    exists C'. split; [exact HC'|]. rewrite (dstate_devs _ _ _ Hd), Hv. exact Ha.
  Qed.

  (** * Which invocations are not quiet *)
  Lemma ok_reqs_in t (es : list eff) r :
    In r (ok_reqs t es) -> exists m term og, In (EDev (DevSet t m term og r COk)) es.
  Proof.
    induction es as [|e rest IH]; cbn; [intros []|].
    destruct (ok_req t e) as [q|] eqn:E.
    - intros [<-|Hin].
      + destruct e as [| | | | | | | | | [t' m term og r' a]]; try discriminate E. cbn in E.
        destruct a; try discriminate E. destruct (N.eqb_spec t' t) as [->|]; [|discriminate E]. injection E as ->.
        exists m, term, og. left. reflexivity.
      + destruct (IH Hin) as (m & term & og & H). exists m, term, og. right. exact H.
    - intros Hin. destruct (IH Hin) as (m & term & og & H). exists m, term, og. right. exact H.
  Qed.

  Notation sent_by_apply := (@sent_by_apply V Ch Req D overlay payload d_empty ch_empty).
  Notation sent_by_resync := (@sent_by_resync V Ch Req D overlay resync_payload d_empty).

  (* an invocation that is not quiet for [t] is the apply of a proposal of [t] or the re-push of [t], answered OK *)
  Theorem not_quiet_cases (o : oracle) (w : world) c t :
    ok_reqs t (fst (reconcile o w c)) <> [] ->
    (exists i m term r, c = CtlProp (t, i) /\ sent_by_apply w o t i m term r COk) \/
    (exists m term r, c = CtlCfg t /\ sent_by_resync w o t m term r COk).
  Proof.
    intros Hne. destruct (ok_reqs t (fst (reconcile o w c))) as [|r rest] eqn:E; [exfalso; apply Hne; reflexivity|].
    assert (Hin : In r (ok_reqs t (fst (reconcile o w c)))) by (rewrite E; left; reflexivity).
    apply ok_reqs_in in Hin. destruct Hin as (m & term & og & Hin).
    apply (reconcile_dev candidate candidate_rb rollback_of overlay commit_merge payload record_applied touched restore
             resync_payload doc_ok stamp v_empty d_empty ch_empty) in Hin.
    destruct Hin as [(i & -> & _ & Hs)|(-> & _ & Hs)]; [left; exists i, m, term, r; auto|right; exists m, term, r; auto].
  Qed.

  (* a device that does not answer OK: every invocation is quiet *)
  Theorem refused_is_quiet (o : oracle) (w : world) c t :
    (forall C, cfgs w !! t = Some C -> dev_answer w t (c_term C) o <> COk) ->
    ok_reqs t (fst (reconcile o w c)) = [].
  Proof.
    intros Hno. destruct (ok_reqs t (fst (reconcile o w c))) as [|r rest] eqn:E; [reflexivity|]. exfalso.
    assert (Hne : ok_reqs t (fst (reconcile o w c)) <> []) by (rewrite E; discriminate).
    destruct (not_quiet_cases o w c t Hne) as [(i & m & term & r0 & _ & Hs)|(m & term & r0 & _ & Hs)].
    - destruct Hs as (C & P & HC & _ & _ & _ & _ & _ & Ha & _). apply (Hno C HC). symmetry. exact Ha.
    - destruct Hs as (C & HC & _ & _ & _ & _ & _ & Ha & _). apply (Hno C HC). symmetry. exact Ha.
  Qed.

  (* a configuration that is not synchronised in its current term: no proposal sends anything *)
  Definition unsynced (C : config) : Prop := c_aterm C < c_term C \/ c_state C = CSynchronizing.

  Theorem unsynced_no_apply (o : oracle) (w : world) k t (C : config) :
    cfgs w !! t = Some C -> unsynced C -> ok_reqs t (fst (rec_prop o w k)) = [].
  Proof.
    intros HC Hu. destruct (ok_reqs t (fst (rec_prop o w k))) as [|r rest] eqn:E; [reflexivity|]. exfalso.
    assert (Hne : ok_reqs t (fst (reconcile o w (CtlProp k))) <> []) by (cbn [Proto2.reconcile]; rewrite E; discriminate).
    destruct (not_quiet_cases o w (CtlProp k) t Hne) as [(i & m & term & r0 & _ & Hs)|(m & term & r0 & Hx & _)]; [|discriminate Hx].
    destruct Hs as (C0 & P & HC0 & _ & _ & _ & _ & _ & _ & _ & _ & _ & Hst & Hle & _).
    rewrite HC in HC0. injection HC0 as <-. destruct Hu as [Hlt|Hs]; [lia|contradiction].
  Qed.

  (** * (c) A complete proposal apply answered OK *)
  Definition applied_cfg (i : N) (C : config) (P : prop) : config :=
    C <| c_applied := i |> <| c_inline := touched i (view C) (rb_change P) |> <| c_ainline := v_empty |>.

  Lemma apply_effects (o : oracle) (w : world) t i m term r :
    sent_by_apply w o t i m term r COk ->
    exists (C : config) (P : prop), cfgs w !! t = Some C /\ props w !! (t, i) = Some P /\ term = c_term C /\
      c_applied C < i /\ ~ unsynced C /\ payload i (view C) (rb_change P) = Some r /\
      fst (rec_prop o w (t, i)) =
        [EDev (DevSet t m (c_term C) (Some i) r COk);
         EPutAValues t (record_applied (o_order o) i (c_avalues C) (aview C) (view C) (rb_change P));
         EPutCfg t (applied_cfg i C P);
         EPutProp (t, i) (P <| p_apply := Some Done |> <| p_term := c_term C |>)].
  Proof.
    intros (C & P & HC & HP & -> & Hm & (tt & Hrel) & Hconn & Ha & Hap & Hlt & Hprev & Hst & Hle & Htg & Hpay).
    exists C, P. split; [exact HC|]. split; [exact HP|]. split; [reflexivity|]. split; [exact Hlt|].
    split; [intros [H|H]; [lia|contradiction]|]. split; [exact Hpay|].
    unfold Proto2.rec_prop. rewrite HP, Hap, HC.
    replace (i <=? c_applied C) with false by (symmetry; apply N.leb_gt; exact Hlt).
    replace (negb (p_prev P =? 0) && negb (c_applied C =? p_prev P)) with false.
    2:{ symmetry. destruct Hprev as [H0|H0]; [rewrite H0; reflexivity|].
        rewrite H0, N.eqb_refl. cbn. apply andb_false_r. }
    rewrite bool_decide_eq_false_2 by exact Hst.
    destruct Htg as [pers Htg]. rewrite Htg. cbn [is_none].
    replace (c_aterm C <? c_term C) with false by (symmetry; apply N.ltb_ge; exact Hle).
    rewrite Hm, Hrel. destruct Hconn as [cc Hconn]. rewrite Hconn, Hpay. rewrite <- Ha. reflexivity.
  Qed.

  (* the world after a complete apply answered OK (entry written: k >= 3) *)
  Lemma apply_world (o : oracle) (w : world) t i m term r (k : nat) :
    sent_by_apply w o t i m term r COk -> (3 <= k)%nat ->
    let w' := step w (LRec (CtlProp (t, i)) k o) in
    dstate_of w' t = dev_apply (dstate_of w t) r /\
    exists (C : config) (P : prop) (C' : config), cfgs w !! t = Some C /\ props w !! (t, i) = Some P /\
      cfgs w' !! t = Some C' /\ c_applied C' = i /\ c_applied C < i /\ payload i (view C) (rb_change P) = Some r /\
      aview C' = loaded (record_applied (o_order o) i (c_avalues C) (aview C) (view C) (rb_change P)) /\
      c_state C' = c_state C /\ c_aterm C' = c_aterm C /\ c_term C' = c_term C.
  Proof.
    intros Hs Hk.
    destruct (apply_effects o w t i m term r Hs) as (C & P & HC & HP & -> & Hlt & _ & Hpay & Hes).
    cbn zeta. cbn [Proto2.step Proto2.reconcile]. rewrite Hes.
    set (va' := record_applied (o_order o) i (c_avalues C) (aview C) (view C) (rb_change P)).
    assert (Hcfg : exists C', cfgs (fold_left apply_eff (firstn k
               [EDev (DevSet t m (c_term C) (Some i) r COk); EPutAValues t va'; EPutCfg t (applied_cfg i C P);
                EPutProp (t, i) (P <| p_apply := Some Done |> <| p_term := c_term C |>)]) w) !! t = Some C' /\
             C' = applied_cfg i C P <| c_values := c_values C |> <| c_avalues := va' |>).
    { eexists. split; [apply cfg_fold; exact HC|].
      destruct k as [|[|[|[|k]]]]; try lia; cbn [firstn fold_left cfg_on]; rewrite ?N.eqb_refl, ?firstn_nil; reflexivity. }
    assert (Hdev : dstate_of (fold_left apply_eff (firstn k
               [EDev (DevSet t m (c_term C) (Some i) r COk); EPutAValues t va'; EPutCfg t (applied_cfg i C P);
                EPutProp (t, i) (P <| p_apply := Some Done |> <| p_term := c_term C |>)]) w) t = dev_apply (dstate_of w t) r).
    { rewrite dstate_fold.
      destruct k as [|[|[|[|k]]]]; try lia; cbn [firstn ok_reqs ok_req fold_left]; rewrite ?N.eqb_refl, ?firstn_nil; reflexivity. }
    destruct Hcfg as (C' & HC' & ->). split; [exact Hdev|].
    eexists C, P, _. split; [exact HC|]. split; [exact HP|]. split; [exact HC'|]. repeat split; assumption.
  Qed.

  Theorem apply_keeps_agreement (o : oracle) (w : world) t i m term r (k : nat) :
    (forall (C : config) (P : prop), cfgs w !! t = Some C -> props w !! (t, i) = Some P ->
       apply_sound_at (o_order o) i (c_ainline C) (c_avalues C) (view C) (rb_change P) r (dstate_of w t)) ->
    sent_by_apply w o t i m term r COk -> (3 <= k)%nat -> agrees w t ->
    let w' := step w (LRec (CtlProp (t, i)) k o) in
    agrees w' t /\ dstate_of w' t = dev_apply (dstate_of w t) r /\
    exists (C : config) (P : prop) (C' : config), cfgs w !! t = Some C /\ props w !! (t, i) = Some P /\
      cfgs w' !! t = Some C' /\ c_applied C' = i /\ c_applied C < i /\
      aview C' = loaded (record_applied (o_order o) i (c_avalues C) (aview C) (view C) (rb_change P)) /\
      c_state C' = c_state C /\ c_aterm C' = c_aterm C /\ c_term C' = c_term C.
  Proof.
    intros HA Hs Hk (C0 & HC0 & Hag).
    destruct (apply_world o w t i m term r k Hs Hk) as (Hdev & C & P & C' & HC & HP & HC' & Hi & Hlt & Hpay & Hv & Hr).
    rewrite HC in HC0. injection HC0 as <-. cbn zeta. split; [|split; [exact Hdev|]].
    - exists C'. split; [exact HC'|]. rewrite Hdev, Hv. apply (HA C P HC HP); assumption.
    - exists C, P, C'. repeat split; try assumption; apply Hr.
  Qed.

  (* (1) an invocation cut right after the device request: the device is ahead of the record; the retry re-sends the
     same request and, answered OK and run to the entry write, restores the agreement (needs apply_idem) *)
  Theorem cut_apply_retry (o o' : oracle) (w : world) t i m term r (k' : nat) :
    (forall (C : config) (P : prop), cfgs w !! t = Some C -> props w !! (t, i) = Some P ->
       apply_sound_at (o_order o') i (c_ainline C) (c_avalues C) (view C) (rb_change P) r (dstate_of w t)) ->
    apply_idem_at (dstate_of w t) r -> agrees w t -> sent_by_apply w o t i m term r COk ->
    let w1 := step w (LRec (CtlProp (t, i)) 1 o) in
    dstate_of w1 t = dev_apply (dstate_of w t) r /\ cfgs w1 = cfgs w /\
    (dev_answer w1 t term o' = COk -> (3 <= k')%nat ->
     sent_by_apply w1 o' t i m term r COk /\ agrees (step w1 (LRec (CtlProp (t, i)) k' o')) t).
  Proof.
    intros HA HI (C0 & HC0 & Hag) Hs.
    destruct (apply_effects o w t i m term r Hs) as (C & P & HC & HP & -> & Hlt & _ & Hpay & Hes).
    rewrite HC in HC0. injection HC0 as <-. cbn zeta.
    assert (Hw1 : step w (LRec (CtlProp (t, i)) 1 o) = apply_eff w (EDev (DevSet t m (c_term C) (Some i) r COk)))
      by (cbn [Proto2.step Proto2.reconcile]; rewrite Hes; reflexivity).
    rewrite Hw1. clear Hw1.
    set (w1 := apply_eff w (EDev (DevSet t m (c_term C) (Some i) r COk))).
    assert (Hd1 : dstate_of w1 t = dev_apply (dstate_of w t) r).
    { unfold w1. rewrite dstate_eff. cbn [ok_req]. rewrite N.eqb_refl. reflexivity. }
    assert (Hc1 : cfgs w1 = cfgs w) by (unfold w1; rewrite cfgs_apply_eff; reflexivity).
    split; [exact Hd1|]. split; [exact Hc1|]. intros Ha' Hk'.
    assert (Hs1 : sent_by_apply w1 o' t i m (c_term C) r COk).
    { destruct Hs as (C1 & P1 & G1 & G2 & G3 & G4 & G5 & G6 & G7 & G8).
      exists C1, P1. unfold w1. rewrite cfgs_apply_eff, props_apply_eff, rels_apply_eff, conns_apply_eff, targets_apply_eff.
      rewrite G1 in HC. injection HC as ->.
      split; [exact G1|]. split; [exact G2|]. split; [exact G3|]. split; [exact G4|]. split; [exact G5|]. split; [exact G6|].
      split; [symmetry; exact Ha'|]. exact G8. }
    split; [exact Hs1|].
    destruct (apply_world o' w1 t i m (c_term C) r k' Hs1 Hk') as (Hdev & C2 & P2 & C' & HC2 & HP2 & HC' & _ & _ & _ & Hv & _).
    rewrite Hc1, HC in HC2. injection HC2 as <-.
    assert (HP2' : props w1 !! (t, i) = Some P) by (unfold w1; rewrite props_apply_eff; exact HP).
    rewrite HP2' in HP2. injection HP2 as <-.
    exists C'. split; [exact HC'|]. rewrite Hdev, Hd1, Hv, HI. apply (HA C P HC HP); assumption.
  Qed.

  (** * (c) A complete re-push answered OK *)
  Definition synced_cfg (C : config) : config :=
    C <| c_state := CSynchronized |> <| c_amaster := c_master C |> <| c_aterm := c_term C |>.

  Lemma resync_effs_ok t m term (rs : list Req) :
    @resync_effs V Ch Req t m term COk (map Some rs) = (map (fun r => EDev (DevSet t m term None r COk)) rs, None).
  Proof. induction rs as [|r rs IH]; [reflexivity|]. cbn. rewrite IH. reflexivity. Qed.

  Lemma resync_effects (o : oracle) (w : world) t m term r (rs : list Req) :
    sent_by_resync w o t m term r COk ->
    exists C : config, cfgs w !! t = Some C /\ targets w !! t = Some false /\ term = c_term C /\ c_state C = CSynchronizing /\
      c_applied C <> 0 /\
      (resync_payload (aview C) = map Some rs ->
       fst (rec_cfg o w t) = map (fun r => EDev (DevSet t m (c_term C) None r COk)) rs ++ upd_status t C (synced_cfg C)).
  Proof.
    intros (C & HC & HT & -> & Hm & (tt & Hrel) & (cc & Hconn) & Ha & Hst & Happ & Hin).
    exists C. repeat (split; [assumption || reflexivity|]). intros Hrs.
    unfold Proto2.rec_cfg. rewrite HC, HT, Hst. cbn [negb]. rewrite bool_decide_eq_true_2 by reflexivity. cbn [negb].
    rewrite Hm. apply N.eqb_neq in Happ. rewrite Happ, Hrel, Hconn, <- Ha, Hrs, resync_effs_ok. unfold synced_cfg. rewrite Hm. reflexivity.
  Qed.

  Lemma ok_reqs_map_ok t m term og (rs : list Req) :
    ok_reqs t (map (fun r => EDev (DevSet t m term og r COk)) rs) = rs.
  Proof. induction rs as [|r rs IH]; [reflexivity|]. cbn [map ok_reqs ok_req]. rewrite N.eqb_refl, IH. reflexivity. Qed.

  Lemma cfg_fold_devs t (C : config) t0 m term og a (rs : list Req) :
    fold_left (cfg_on t) (map (fun r => EDev (DevSet t0 m term og r a)) rs) C = C.
  Proof. induction rs as [|r rs IH]; [reflexivity|]. cbn. exact IH. Qed.

  (* the complete invocation: every request of the re-push answered OK, then the status write *)
  Theorem resync_establishes_agreement (o : oracle) (w : world) t m term r (rs : list Req) (k : nat) (C : config) :
    restore_sound_at (c_ainline C) (c_avalues C) -> sent_by_resync w o t m term r COk -> cfgs w !! t = Some C ->
    resync_payload (aview C) = map Some rs -> (length rs + 2 <= k)%nat ->
    (resync_sound_empty_at (aview C) rs /\ dstate_of w t = d_empty) \/
    (resync_sound_same_at (aview C) rs (dstate_of w t) /\ agrees w t) ->
    let w' := step w (LRec (CtlCfg t) k o) in
    agrees w' t /\ dstate_of w' t = fold_left dev_apply rs (dstate_of w t) /\
    exists C', cfgs w' !! t = Some C' /\ c_state C' = CSynchronized /\ c_aterm C' = c_term C' /\ c_term C' = c_term C /\
               c_applied C' = c_applied C /\ c_applied C <> 0 /\ abs_app (aview C') = abs_app (aview C).
  Proof.
    intros HR Hs HC Hrs Hk Hmode.
    destruct (resync_effects o w t m term r rs Hs) as (C0 & HC0 & HT & -> & Hst & Happ & Hes).
    rewrite HC in HC0. injection HC0 as <-. specialize (Hes Hrs).
    cbn zeta. cbn [Proto2.step Proto2.reconcile]. rewrite Hes.
    rewrite firstn_all2 by (rewrite app_length, map_length; unfold Proto2.upd_status; cbn; lia).
    assert (Hdev : dstate_of (fold_left apply_eff
                     (map (fun r => EDev (DevSet t m (c_term C) None r COk)) rs ++ upd_status t C (synced_cfg C)) w) t
                   = fold_left dev_apply rs (dstate_of w t)).
    { rewrite dstate_fold, ok_reqs_app, ok_reqs_map_ok. unfold Proto2.upd_status. cbn [ok_reqs ok_req]. rewrite app_nil_r. reflexivity. }
    pose proof (cfg_fold (map (fun r => EDev (DevSet t m (c_term C) None r COk)) rs ++ upd_status t C (synced_cfg C)) t w C HC) as HC'.
    rewrite (fold_left_app (cfg_on t)), cfg_fold_devs in HC'.
    unfold Proto2.upd_status in HC'. cbn [fold_left cfg_on] in HC'. rewrite !N.eqb_refl in HC'.
    assert (Hv : abs_app (aview (synced_cfg C <| c_inline := view C |> <| c_ainline := v_empty |>
                                   <| c_values := c_values (C <| c_avalues := restore (c_avalues C) (aview C) |>) |>
                                   <| c_avalues := c_avalues (C <| c_avalues := restore (c_avalues C) (aview C) |>) |>))
                 = abs_app (aview C)) by exact HR.
    split; [|split; [exact Hdev|]].
    - eexists. split; [exact HC'|]. rewrite Hdev, Hv.
      destruct Hmode as [(HE & Hd)|(HSm & (C1 & HC1 & Hag))].
      + rewrite Hd. apply HE. exact Hrs.
      + rewrite HC in HC1. injection HC1 as <-. apply HSm; assumption.
    - eexists. split; [exact HC'|]. repeat split; try exact Happ. exact Hv.
  Qed.

  (** * Runs made of environment labels and COMPLETE reconcile invocations *)
  Notation label := (@label Ch).
  Definition complete (w : world) (l : label) : Prop :=
    match l with LRec c k o => (length (fst (reconcile o w c)) <= k)%nat | _ => True end.
  (* the re-push requests can always be built *)
  Definition resync_total : Prop := forall va, exists rs, resync_payload va = map Some rs.
  (* the obligations of the pure layer at the values the step [l] works on *)
  Definition pure_ok (w : world) (t : N) (l : label) : Prop :=
    forall C, cfgs w !! t = Some C ->
      status_sound_at (pair_of C) /\
      match l with
      | LRec (CtlProp (t', i)) _ o =>
        t' = t -> forall (P : prop) r, props w !! (t, i) = Some P ->
          apply_sound_at (o_order o) i (c_ainline C) (c_avalues C) (view C) (rb_change P) r (dstate_of w t)
      | LRec (CtlCfg t') _ _ =>
        t' = t -> exists rs, resync_payload (aview C) = map Some rs /\
                             resync_sound_empty_at (aview C) rs /\ resync_sound_same_at (aview C) rs (dstate_of w t)
      | _ => True
      end.
  (* no restart of the device of [t], [t] is not declared persistent, invocations run to their end, and the pure layer
     meets its obligations at the values of the step *)
  Definition allowed (t : N) (w : world) (l : label) : Prop :=
    complete w l /\ l <> LDevRestart t /\ l <> LTarget t true /\ pure_ok w t l.
  Inductive crun (t : N) : world -> world -> Prop :=
  | crun_refl w : crun t w w
  | crun_step w w1 l : crun t w w1 -> allowed t w1 l -> crun t w (step w1 l).
  (* the device agrees with the applied values, or it is empty and the configuration is not synchronised in its
     current term (so that nothing is sent before the re-push) *)
  Definition conv (w : world) (t : N) : Prop :=
    exists C, cfgs w !! t = Some C /\ targets w !! t <> Some true /\
      (c_applied C = 0 -> abs_app (aview C) = abs_dev d_empty) /\
      (agrees w t \/ (dstate_of w t = d_empty /\ unsynced C)).

  Lemma conv_env (w w' : world) t :
    cfgs w' = cfgs w -> devs w' !! t = devs w !! t -> targets w' !! t <> Some true -> conv w t -> conv w' t.
  Proof.
    intros Hc Hd Ht (C & HC & _ & H0 & Hmode). exists C. rewrite Hc. split; [exact HC|]. split; [exact Ht|]. split; [exact H0|].
    destruct Hmode as [(C1 & HC1 & Hag)|(Hde & Hu)].
    - left. exists C1. rewrite Hc. split; [exact HC1|]. rewrite (dstate_devs _ _ _ Hd). exact Hag.
    - right. rewrite (dstate_devs _ _ _ Hd). auto.
  Qed.

  Ltac sim_cbn S := apply sim_fields in S; cbn in S; destruct S as (S1 & S2 & S3 & S4 & S5 & S6 & S7 & S8 & S9).

  Lemma unsynced_dec (C : config) : unsynced C \/ ~ unsynced C.
  Proof.
    unfold unsynced. destruct (N.ltb_spec (c_aterm C) (c_term C)) as [H|H]; [left; left; exact H|].
    destruct (decide (c_state C = CSynchronizing)) as [E|E]; [left; right; exact E|]. right. intros [H1|H1]; [lia|contradiction].
  Qed.

  Lemma conv_step (w : world) (l : label) t :
    reach w -> conv w t -> allowed t w l -> conv (step w l) t.
  Proof.
    intros Hr Hcv (Hcomp & Hnr & Hnp & Hpure).
    destruct l as [chs sy se|ri|c k o|c t0|c|c t0|t0 p|t0|t0]; cbn [Proto2.step].
    - apply (conv_env w); try reflexivity. destruct Hcv as (C & _ & HT & _). exact HT. exact Hcv.
    - apply (conv_env w); try reflexivity. destruct Hcv as (C & _ & HT & _). exact HT. exact Hcv.
    - (* a complete reconcile invocation *)
      cbn [complete] in Hcomp. rewrite firstn_all2 by exact Hcomp.
      destruct Hcv as (C & HC & HT & H0 & Hmode).
      destruct (Hpure C HC) as (HS & Hpl).
      pose proof (cfg_fold (fst (reconcile o w c)) t w C HC) as HC'.
      assert (Htg : targets (fold_left apply_eff (fst (reconcile o w c)) w) !! t <> Some true) by (rewrite targets_fold; exact HT).
      assert (Hstep : step w (LRec c k o) = fold_left apply_eff (fst (reconcile o w c)) w)
        by (cbn [Proto2.step]; rewrite firstn_all2 by exact Hcomp; reflexivity).
      destruct (ok_reqs t (fst (reconcile o w c))) as [|r0 rest] eqn:Eq.
      + (* quiet *)
        destruct (quiet_invocation w c k o t C HS HC Eq) as (Hd & C' & HC2 & Hv). rewrite Hstep in Hd, HC2.
        exists C'. split; [exact HC2|]. split; [exact Htg|]. split.
        { intros Hz. rewrite Hv. apply H0.
          pose proof (cursors_monotone candidate candidate_rb rollback_of overlay commit_merge payload record_applied touched restore
                        resync_payload doc_ok dev_apply stamp v_empty d_empty ch_empty w (LRec c k o) t Hr) as [_ Hmono].
          unfold applied_of in Hmono. rewrite Hstep, HC2, HC in Hmono. lia. }
        destruct Hmode as [Hag|(Hde & Hu)].
        { left. rewrite <- Hstep. apply quiet_keeps_agreement; [|assumption..].
          intros C1 HC1. rewrite HC in HC1. injection HC1 as <-. exact HS. }
        destruct (unsynced_dec C') as [Hu'|Hnu]; [right; split; [rewrite (dstate_devs _ _ _ Hd); exact Hde|exact Hu']|].
        left. exists C'. split; [exact HC2|]. rewrite (dstate_devs _ _ _ Hd), Hde, Hv.
        (* the only way out of [unsynced] is the status write of the configuration reconciler *)
        pose proof HC2 as Hcs. rewrite <- Hstep in Hcs.
        apply (cfg_step candidate candidate_rb rollback_of overlay commit_merge payload record_applied touched restore
                 resync_payload doc_ok dev_apply stamp v_empty d_empty ch_empty) in Hcs.
        destruct Hcs as [(C1 & HC1 & [S|(ctl & k1 & o1 & c0 & Hl & Hw & S)])|(Hn & _)]; [| |congruence].
        { exfalso. rewrite HC in HC1. injection HC1 as <-. sim_cbn S. apply Hnu.
          destruct Hu as [Hlt|Hst]; [left; lia|right; congruence]. }
        rewrite HC in HC1. injection HC1 as <-. injection Hl as <- <- <-.
        pose proof (aterm_le_term candidate candidate_rb rollback_of overlay commit_merge payload record_applied touched restore
                      resync_payload doc_ok dev_apply stamp v_empty d_empty ch_empty w t C Hr HC) as Hle.
        inversion Hw; subst; sim_cbn S;
          try (exfalso; apply Hnu; destruct Hu as [Hlt|Hst]; [left; lia|right; congruence]);
          try (exfalso; apply Hnu; right; congruence);
          try contradiction.
        (* CW_synced *)
        destruct (N.eq_dec (c_applied C) 0) as [Hz|Hnz]; [symmetry; apply H0; exact Hz|].
        assert (Hcore : core C' <> core C).
        { unfold P2_Cursor.core. intros Hc. injection Hc as _ _ _ _ Hc _ _ _ _. congruence. }
        rewrite HC' in HC2. injection HC2 as HC2eq. rewrite <- HC2eq in Hcore.
        apply core_fold in Hcore. destruct Hcore as (c1 & Hin). cbn [Proto2.reconcile] in Hin, Eq.
        match goal with H : c_state C = CSynchronizing |- _ => rename H into Hsy end.
        match goal with H : targets w !! t = Some false |- _ => rename H into Htf end.
        destruct (resync_completes overlay restore resync_payload v_empty d_empty o w t C c1 HC Htf Hsy Hnz Hin)
          as (m1 & rs & _ & Hrs & Hes & _).
        rewrite Hes, ok_reqs_app, ok_reqs_map_ok in Eq. apply app_eq_nil in Eq. destruct Eq as [-> _].
        destruct (Hpl eq_refl) as (rs0 & Hrs0 & HE & _). rewrite Hrs in Hrs0.
        assert (rs0 = []) as -> by (destruct rs0; [reflexivity|discriminate Hrs0]).
        exact (HE Hrs).
      + (* an apply or a re-push answered OK *)
        assert (Hne : ok_reqs t (fst (reconcile o w c)) <> []) by (rewrite Eq; discriminate).
        destruct (not_quiet_cases o w c t Hne) as [(i & m & term & r & -> & Hs)|(m & term & r & -> & Hs)].
        * destruct (apply_effects o w t i m term r Hs) as (C1 & P & HC1 & HP & -> & Hlt & Hnu & Hpay & Hes).
          rewrite HC in HC1. injection HC1 as <-.
          assert (Hag : agrees w t) by (destruct Hmode as [Hag|(_ & Hu)]; [exact Hag|contradiction]).
          assert (Hk : (3 <= k)%nat) by (cbn [Proto2.reconcile] in Hcomp; rewrite Hes in Hcomp; cbn in Hcomp; lia).
          assert (HA : forall (C0 : config) (P0 : prop), cfgs w !! t = Some C0 -> props w !! (t, i) = Some P0 ->
                         apply_sound_at (o_order o) i (c_ainline C0) (c_avalues C0) (view C0) (rb_change P0) r (dstate_of w t)).
          { intros C0 P0 HC0 HP0. rewrite HC in HC0. injection HC0 as <-. apply (Hpl eq_refl). exact HP0. }
          destruct (apply_keeps_agreement o w t i m (c_term C) r k HA Hs Hk Hag)
            as (Hag' & _ & C2 & P2 & C' & HC2 & _ & HC'' & Hi & Hlt2 & _).
          rewrite Hstep in Hag', HC''. rewrite HC in HC2. injection HC2 as <-.
          exists C'. split; [exact HC''|]. split; [exact Htg|]. split; [intros Hz; lia|left; exact Hag'].
        * destruct (Hpl eq_refl) as (rs & Hrs & HE & HSm).
          destruct (resync_effects o w t m term r rs Hs) as (C1 & HC1 & _ & -> & _ & Hnz & Hes).
          rewrite HC in HC1. injection HC1 as <-. specialize (Hes Hrs).
          assert (Hk : (length rs + 2 <= k)%nat).
          { cbn [Proto2.reconcile] in Hcomp. rewrite Hes, app_length, map_length in Hcomp. unfold Proto2.upd_status in Hcomp.
            cbn in Hcomp. exact Hcomp. }
          assert (Hm : (resync_sound_empty_at (aview C) rs /\ dstate_of w t = d_empty) \/
                       (resync_sound_same_at (aview C) rs (dstate_of w t) /\ agrees w t))
            by (destruct Hmode as [Hag|(Hde & _)]; [right; auto|left; auto]).
          destruct (resync_establishes_agreement o w t m (c_term C) r rs k C (proj1 HS) Hs HC Hrs Hk Hm)
            as (Hag' & _ & C' & HC'' & _ & _ & _ & Happ & Hnz' & _).
          rewrite Hstep in Hag', HC''.
          exists C'. split; [exact HC''|]. split; [exact Htg|]. split; [intros Hz; congruence|left; exact Hag'].
    - destruct (conns w !! c); [exact Hcv|]. apply (conv_env w); try reflexivity. destruct Hcv as (C & _ & HT & _). exact HT. exact Hcv.
    - apply (conv_env w); try reflexivity. destruct Hcv as (C & _ & HT & _). exact HT. exact Hcv.
    - destruct (rels w !! c); [exact Hcv|]. apply (conv_env w); try reflexivity. destruct Hcv as (C & _ & HT & _). exact HT. exact Hcv.
    - apply (conv_env w); try reflexivity; [|exact Hcv]. cbn.
      destruct (decide (t0 = t)) as [->|Hne].
      + rewrite lookup_insert. intros [= ->]. apply Hnp. reflexivity.
      + rewrite lookup_insert_ne by exact Hne. destruct Hcv as (C & _ & HT & _). exact HT.
    - apply (conv_env w); try reflexivity; [|exact Hcv]. cbn.
      destruct (decide (t0 = t)) as [->|Hne].
      + rewrite lookup_delete. discriminate.
      + rewrite lookup_delete_ne by exact Hne. destruct Hcv as (C & _ & HT & _). exact HT.
    - apply (conv_env w); try reflexivity; [| |exact Hcv].
      + cbn. destruct (decide (t0 = t)) as [->|Hne]; [exfalso; apply Hnr; reflexivity|]. rewrite lookup_insert_ne by exact Hne. reflexivity.
      + destruct Hcv as (C & _ & HT & _). exact HT.
  Qed.

  Theorem converged (w w' : world) t :
    reach w -> conv w t -> crun t w w' -> reach w' /\ conv w' t.
  Proof.
    intros Hr Hcv Hrun. induction Hrun as [w|w w1 l Hrun IH Hal]; [auto|].
    destruct (IH Hr Hcv) as (Hr1 & Hc1). split.
    - apply (reach_step candidate candidate_rb rollback_of overlay commit_merge payload record_applied touched restore
               resync_payload doc_ok dev_apply stamp v_empty d_empty ch_empty). exact Hr1.
    - apply conv_step; assumption.
  Qed.

  (* ... hence: whenever the configuration is reported SYNCHRONIZED in its current term, the device agrees *)
  Theorem converged_synchronized (w w' : world) t (C' : config) :
    reach w -> conv w t -> crun t w w' ->
    cfgs w' !! t = Some C' -> c_state C' = CSynchronized -> c_aterm C' = c_term C' -> agrees w' t.
  Proof.
    intros Hr Hcv Hrun HC' Hst Hat.
    destruct (converged w w' t Hr Hcv Hrun) as (_ & C & HC & _ & _ & [Hag|(_ & Hu)]); [exact Hag|].
    rewrite HC' in HC. injection HC as <-. destruct Hu as [Hlt|Hs]; [lia|congruence].
  Qed.

  (* a pure layer that meets its obligations for all values meets them at every step *)
  Theorem pure_ok_global (w : world) t (l : label) :
    status_sound -> apply_sound -> resync_sound_empty -> resync_sound_same -> resync_total -> pure_ok w t l.
  Proof.
    intros HS HA HE HSm HRT C HC. split; [apply HS|].
    destruct l as [| |[|[t' i]|t'| |] k o| | | | | |]; try exact I.
    - intros _ P r _. apply HA.
    - intros _. destruct (HRT (aview C)) as (rs & Hrs). exists rs. split; [exact Hrs|]. split; [apply HE|apply HSm].
  Qed.

  (** * (3) The applied values only ever receive OK-answered changes *)
  Ltac in_cases H :=
    cbn [fst app In] in H;
    repeat match type of H with
           | _ \/ _ => destruct H as [H|H]; [try discriminate H|]
           | False => destruct H
           end.

  (* what is written into the applied map of [t]: the loaded applied values again, or the record of an OK apply *)
  Definition avalues_written (o : oracle) (w : world) (c : ctrl) (t : N) (C : config) (v : V) : Prop :=
    v = restore (c_avalues C) (aview C) \/
    exists i (P : prop), c = CtlProp (t, i) /\ props w !! (t, i) = Some P /\ dev_answer w t (c_term C) o = COk /\
      v = record_applied (o_order o) i (c_avalues C) (aview C) (view C) (rb_change P).

  Lemma rec_prop_putavalues (o : oracle) (w : world) t' i t v :
    In (EPutAValues t v) (fst (rec_prop o w (t', i))) ->
    exists C, cfgs w !! t = Some C /\ avalues_written o w (CtlProp (t', i)) t C v.
  Proof.
    unfold Proto2.rec_prop, Proto2.vfail, Proto2.upd_status, avalues_written.
    destruct (props w !! (t', i)) as [P|] eqn:HP; [|intros []].
    destruct_matches; intros H; conc_link; in_cases H; injection H as <- <-;
      (eexists; split; [eassumption|]); first [left; reflexivity | right; eexists _, _; repeat split; eauto].
  Qed.

  Lemma reconcile_putavalues (o : oracle) (w : world) c t v :
    In (EPutAValues t v) (fst (reconcile o w c)) -> exists C, cfgs w !! t = Some C /\ avalues_written o w c t C v.
  Proof.
    destruct c as [i|[t' i]|t'|t'|cc]; cbn [Proto2.reconcile].
    - intros H. exfalso. pose proof (rec_tx_tp stamp w i) as Hf. rewrite List.Forall_forall in Hf. exact (Hf _ H).
    - apply rec_prop_putavalues.
    - unfold Proto2.rec_cfg, Proto2.upd_status, avalues_written.
      destruct_matches; intros H; cbn [fst] in H; try (apply in_app_or in H; destruct H as [H|H]); in_cases H;
        try (injection H as <- <-; eexists; (split; [eassumption|left; reflexivity])).
      all: match goal with E : resync_effs ?t0 ?m0 ?te0 ?a0 ?rq0 = (?es, _), H : In _ ?es |- _ =>
             let Hx := fresh in
             pose proof (resync_effs_in (V:=V) (Ch:=Ch) t0 m0 te0 a0 rq0) as Hx; rewrite E in Hx;
             destruct (Hx _ H) as (? & Hd & _); discriminate Hd end.
    - unfold Proto2.rec_master, Proto2.upd_status, avalues_written.
      destruct_matches; intros H; in_cases H; injection H as <- <-; eexists; (split; [eassumption|left; reflexivity]).
    - unfold Proto2.rec_conn. destruct_matches; intros H; in_cases H.
  Qed.

  Lemma avalues_fold t (es : list eff) : forall C : config,
    c_avalues (fold_left (cfg_on t) es C) = c_avalues C \/
    exists v, In (EPutAValues t v) es /\ c_avalues (fold_left (cfg_on t) es C) = v.
  Proof.
    induction es as [|e r IH]; intros C; [left; reflexivity|]. cbn [fold_left].
    destruct (IH (cfg_on t C e)) as [H|(v & Hin & H)]; [|right; exists v; split; [right; exact Hin|exact H]].
    rewrite H. destruct e as [| | |t0 c|t0 c|t0 v|t0 v| | |]; try (left; reflexivity); cbn [cfg_on].
    - destruct (t0 =? t); left; reflexivity.
    - destruct (t0 =? t); left; reflexivity.
    - destruct (N.eqb_spec t0 t) as [->|Hne]; [right; exists v; split; [left; reflexivity|reflexivity]|left; reflexivity].
  Qed.

  Lemma In_firstn {X} (x : X) (l : list X) : forall k, In x (firstn k l) -> In x l.
  Proof. induction l as [|y l IH]; intros [|k]; cbn; try tauto. intros [->|H]; [left; reflexivity|right; eapply IH; exact H]. Qed.

  Theorem avalues_change_only (w : world) (l : label) t (C C' : config) :
    cfgs w !! t = Some C -> cfgs (step w l) !! t = Some C' -> c_avalues C' <> c_avalues C ->
    exists c k o, l = LRec c k o /\ avalues_written o w c t C (c_avalues C').
  Proof.
    intros HC HC' Hne.
    destruct l as [chs sy se|ri|c k o|c t0|c|c t0|t0 p|t0|t0]; cbn [Proto2.step] in HC';
      try (cbn in HC'; rewrite HC in HC'; injection HC' as <-; exfalso; apply Hne; reflexivity).
    - rewrite (cfg_fold _ t w C HC) in HC'. injection HC' as <-.
      destruct (avalues_fold t (firstn k (fst (reconcile o w c))) C) as [H|(v & Hin & H)]; [contradiction|].
      apply In_firstn in Hin. apply reconcile_putavalues in Hin. destruct Hin as (C1 & HC1 & Hw).
      rewrite HC in HC1. injection HC1 as <-. exists c, k, o. split; [reflexivity|]. rewrite H. exact Hw.
    - destruct (conns w !! c); cbn in HC'; rewrite HC in HC'; injection HC' as <-; exfalso; apply Hne; reflexivity.
    - destruct (rels w !! c); cbn in HC'; rewrite HC in HC'; injection HC' as <-; exfalso; apply Hne; reflexivity.
  Qed.

  (** * Restart *)
  (* the restart leaves every store as it was *)
  Theorem restart_stores (w : world) t :
    cfgs (step w (LDevRestart t)) = cfgs w /\ props (step w (LDevRestart t)) = props w /\ txs (step w (LDevRestart t)) = txs w /\
    targets (step w (LDevRestart t)) = targets w /\ rels (step w (LDevRestart t)) = rels w /\ conns (step w (LDevRestart t)) = conns w.
  Proof. repeat split. Qed.

  (* while no request to [t] is answered OK the device stays as it is (in particular: empty) *)
  Theorem quiet_keeps_device (w : world) c k o t :
    ok_reqs t (fst (reconcile o w c)) = [] -> dstate_of (step w (LRec c k o)) t = dstate_of w t.
  Proof.
    intros Hq. apply dstate_devs. cbn [Proto2.step]. apply devs_fold_none. apply ok_reqs_firstn_nil. exact Hq.
  Qed.

  (* a device that restarts (empty) while its configuration is not synchronised in the current term - the connection
     was replaced: new term by C10 - is in the domain of [converged]: the next complete re-push restores the agreement
     and nothing else is sent before *)
  Theorem restart_then_resync (w : world) t (C : config) :
    cfgs w !! t = Some C -> targets w !! t <> Some true -> (c_applied C = 0 -> abs_app (aview C) = abs_dev d_empty) ->
    unsynced C -> conv (step w (LDevRestart t)) t.
  Proof.
    intros HC HT H0 Hu. exists C. split; [exact HC|]. split; [exact HT|]. split; [exact H0|]. right. split; [apply restart_empties|exact Hu].
  Qed.

  (* a device that refuses or fails transiently (any answer but OK), any controller, any prefix *)
  Theorem refused_keeps_agreement (w : world) c k o t :
    (forall C, cfgs w !! t = Some C -> status_sound_at (pair_of C)) ->
    (forall C, cfgs w !! t = Some C -> dev_answer w t (c_term C) o <> COk) ->
    agrees w t ->
    agrees (step w (LRec c k o)) t /\ devs (step w (LRec c k o)) !! t = devs w !! t.
  Proof.
    intros HS Hno Hag. pose proof (refused_is_quiet o w c t Hno) as Hq. split; [apply quiet_keeps_agreement; assumption|].
    cbn [Proto2.step]. apply devs_fold_none. apply ok_reqs_firstn_nil. exact Hq.
  Qed.

  (* (4) "the stored configuration" of the property text is the COMMITTED one; that the applied values stand for the
     same thing once everything committed is applied and no apply failed is a statement about commit_merge versus
     record_applied: named here, proved nowhere (Properties/C03.v and C02.v are about the committed side) *)
  Definition commit_apply_agree (w : world) (t : N) : Prop :=
    forall C, cfgs w !! t = Some C -> c_applied C = c_committed C ->
      (forall i (P : prop), props w !! (t, i) = Some P -> p_apply P <> Some Failed) ->
      abs_app (aview C) = abs_app (view C).
End Converge.

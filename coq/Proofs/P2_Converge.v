(* Convergence of a connected device to the applied configuration in the v2 protocol model (C04), protocol level,
   generic in the pure layer.  The device and the record of what was applied ("applied values": the Atomix map
   c_avalues overlaid on the values inlined in the entry, [aview]) are compared through an abstraction
     abs_dev : D -> A     what the device holds
     abs_app : V -> A     what an applied-values map stands for
   and the obligations of the pure layer are NAMED predicates (Definitions below, never assumed globally):
   every theorem that needs one lists it as a hypothesis.
     - frame: the device of a target changes only by LDevRestart or by OK-answered requests of a reconcile
       invocation, and its state is the fold of dev_apply over exactly those requests, in order;
     - quiet invocations: an invocation (any controller, any prefix = any crash point) that contains no OK-answered
       request to the target leaves the device untouched and keeps what the applied values stand for;
     - a complete OK apply keeps the agreement (apply_sound); a complete OK re-push establishes it from an empty
       or an agreeing device (resync_sound_empty, resync_sound_same), with state SYNCHRONIZED and applied term = term;
     - nothing new before the re-push (from P2_Term), restart, and the run theorem [converged]. *)
From stdpp Require Import gmap.
From RecordUpdate Require Import RecordUpdate.
From Coq Require Import NArith Lia.
From OC Require Import Model.Proto2 Proofs.P2Base Proofs.P2Phases Proofs.P2_Cursor Proofs.P2_CursorInv Proofs.P2_Term.
Open Scope N_scope.

Section Converge.
  Context {V Ch Req D : Type}.
  Context (candidate : V -> Ch -> V) (candidate_rb : V -> Ch -> V) (rollback_of : V -> Ch -> Ch)
          (overlay : V -> V -> V) (commit_merge : N -> N -> V -> V -> Ch -> V)
          (payload : N -> V -> Ch -> option Req) (record_applied : N -> V -> V -> V -> Ch -> V)
          (touched : N -> V -> Ch -> V) (restore : V -> V -> V)
          (resync_payload : V -> list (option Req)) (doc_ok : V -> bool)
          (dev_apply : D -> Req -> D) (stamp : N -> Ch -> Ch) (v_empty : V) (d_empty : D) (ch_empty : Ch).
  Context {A : Type} (abs_dev : D -> A) (abs_app : V -> A).

  Notation world := (@world V Ch Req D).
  Notation eff := (@eff V Ch Req).
  Notation txn := (@txn Ch).
  Notation prop := (@prop Ch).
  Notation config := (@config V).
  Notation apply_eff := (@apply_eff V Ch Req D dev_apply d_empty).
  Notation rec_tx := (@rec_tx V Ch Req D stamp).
  Notation rec_prop := (@rec_prop V Ch Req D candidate candidate_rb rollback_of overlay commit_merge payload record_applied
                                  touched restore doc_ok v_empty d_empty ch_empty).
  Notation rec_cfg := (@rec_cfg V Ch Req D overlay restore resync_payload v_empty d_empty).
  Notation rec_master := (@rec_master V Ch Req D overlay restore v_empty).
  Notation rec_conn := (@rec_conn V Ch Req D).
  Notation reconcile := (@reconcile V Ch Req D candidate candidate_rb rollback_of overlay commit_merge payload record_applied
                                    touched restore resync_payload doc_ok stamp v_empty d_empty ch_empty).
  Notation step := (@step V Ch Req D candidate candidate_rb rollback_of overlay commit_merge payload record_applied
                          touched restore resync_payload doc_ok dev_apply stamp v_empty d_empty ch_empty).
  Notation reach := (@reach V Ch Req D candidate candidate_rb rollback_of overlay commit_merge payload record_applied
                            touched restore resync_payload doc_ok dev_apply stamp v_empty d_empty ch_empty).
  Notation view := (@view V overlay).
  Notation aview := (@aview V overlay).
  Notation dev_answer := (@dev_answer V Ch Req D d_empty).
  Notation dev_of := (@dev_of V Ch Req D d_empty).
  Notation rb_change := (@rb_change Ch ch_empty).
  Notation upd_status := (@upd_status V Ch Req overlay restore v_empty).

  (** * Definitions *)
  (* what Get loads from an applied-values map when nothing is inlined in the entry *)
  Definition loaded (m : V) : V := overlay v_empty m.
  Definition dstate_of (w : world) (t : N) : D := d_state (dev_of w t).
  (* the device of [t] holds what the applied values of its configuration stand for *)
  Definition agrees (w : world) (t : N) : Prop :=
    exists C, cfgs w !! t = Some C /\ abs_dev (dstate_of w t) = abs_app (aview C).

  (** the obligations of the pure layer (named, not assumed) *)
  Definition apply_sound : Prop :=
    forall i m va vw ch req d, payload i vw ch = Some req -> abs_dev d = abs_app va ->
      abs_dev (dev_apply d req) = abs_app (loaded (record_applied i m va vw ch)).
  (* a status update stores the loaded applied values again: what they stand for does not change, neither once the
     entry has been written (inline values cleared) ... *)
  Definition restore_sound : Prop :=
    forall inl m, abs_app (loaded (restore m (overlay inl m))) = abs_app (overlay inl m).
  (* ... nor between the map write and the entry write (inline values still there) *)
  Definition restore_cut_sound : Prop :=
    forall inl m, abs_app (overlay inl (restore m (overlay inl m))) = abs_app (overlay inl m).
  (* the commit writes the loaded applied values inline into the entry (the applied map is untouched) *)
  Definition inline_sound : Prop :=
    forall inl m, abs_app (overlay (overlay inl m) m) = abs_app (overlay inl m).
  Definition status_sound : Prop := restore_sound /\ restore_cut_sound /\ inline_sound.
  Definition resync_sound_empty : Prop :=
    forall va reqs, resync_payload va = map Some reqs -> abs_dev (fold_left dev_apply reqs d_empty) = abs_app va.
  Definition resync_sound_same : Prop :=
    forall va reqs d, resync_payload va = map Some reqs -> abs_dev d = abs_app va ->
      abs_dev (fold_left dev_apply reqs d) = abs_app va.
  (* sending the same request twice is as good as once (retry after a cut between the request and the status write) *)
  Definition apply_idem : Prop := forall d req, abs_dev (dev_apply (dev_apply d req) req) = abs_dev (dev_apply d req).
  (* a configuration to which nothing was applied stands for the empty device *)
  Definition empty_sound : Prop := abs_app (overlay v_empty v_empty) = abs_dev d_empty.

  (** * (a) Frame: the device changes only by OK-answered requests *)
  Definition ok_req (t : N) (e : eff) : option Req :=
    match e with
    | EDev (DevSet t' _ _ _ r COk) => if t' =? t then Some r else None
    | _ => None
    end.
  Fixpoint ok_reqs (t : N) (es : list eff) : list Req :=
    match es with
    | [] => []
    | e :: r => match ok_req t e with Some q => q :: ok_reqs t r | None => ok_reqs t r end
    end.

  Lemma ok_reqs_app t (a b : list eff) : ok_reqs t (a ++ b) = ok_reqs t a ++ ok_reqs t b.
  Proof. induction a as [|e r IH]; cbn; [reflexivity|]. destruct (ok_req t e); cbn; rewrite IH; reflexivity. Qed.

  Lemma ok_reqs_firstn_nil t (es : list eff) : forall k, ok_reqs t es = [] -> ok_reqs t (firstn k es) = [].
  Proof.
    induction es as [|e r IH]; intros k H; [rewrite firstn_nil; reflexivity|].
    destruct k as [|k]; [reflexivity|]. cbn in *. destruct (ok_req t e); [discriminate|]. apply IH. exact H.
  Qed.

  Lemma devs_eff (w : world) (e : eff) t :
    devs (apply_eff w e) !! t =
    match ok_req t e with
    | Some r => Some (mkDev (dev_apply (dstate_of w t) r)
                            (N.max (d_max (dev_of w t)) match e with EDev (DevSet _ _ term _ _ _) => term | _ => 0 end))
    | None => devs w !! t
    end.
  Proof.
    destruct e as [| | | | | | | | | [t' c term o r a]]; cbn; try reflexivity;
      repeat match goal with |- context [match cfgs w !! ?x with _ => _ end] => destruct (cfgs w !! x) end;
      repeat match goal with |- context [match props w !! ?x with _ => _ end] => destruct (props w !! x) end;
      repeat match goal with |- context [match rels w !! ?x with _ => _ end] => destruct (rels w !! x) end; try reflexivity.
    destruct a; try reflexivity. cbn.
    destruct (N.eqb_spec t' t) as [->|Hne]; [rewrite lookup_insert; reflexivity|rewrite lookup_insert_ne by exact Hne; reflexivity].
  Qed.

  Lemma dstate_eff (w : world) (e : eff) t :
    dstate_of (apply_eff w e) t = match ok_req t e with Some r => dev_apply (dstate_of w t) r | None => dstate_of w t end.
  Proof.
    unfold dstate_of at 1. unfold Proto2.dev_of. rewrite devs_eff. destruct (ok_req t e); reflexivity.
  Qed.

  (* the state of the device after an effect list: the fold of dev_apply over exactly the OK requests, in order *)
  Lemma dstate_fold (es : list eff) t : forall w : world,
    dstate_of (fold_left apply_eff es w) t = fold_left dev_apply (ok_reqs t es) (dstate_of w t).
  Proof.
    induction es as [|e r IH]; intros w; [reflexivity|]. cbn [fold_left ok_reqs]. rewrite IH, dstate_eff.
    destruct (ok_req t e); reflexivity.
  Qed.

  Lemma devs_fold_none (es : list eff) t : forall w : world,
    ok_reqs t es = [] -> devs (fold_left apply_eff es w) !! t = devs w !! t.
  Proof.
    induction es as [|e r IH]; intros w H; [reflexivity|]. cbn [fold_left ok_reqs] in *.
    destruct (ok_req t e) eqn:E; [discriminate|]. rewrite IH by exact H. rewrite devs_eff, E. reflexivity.
  Qed.

  Theorem device_changes_only_by_ok_requests (w : world) l t :
    devs (step w l) !! t <> devs w !! t ->
    l = LDevRestart t \/
    exists c k o, l = LRec c k o /\ ok_reqs t (firstn k (fst (reconcile o w c))) <> [].
  Proof.
    destruct l as [chs sy se|ri|c k o|c t0|c|c t0|t0 p|t0|t0]; cbn [Proto2.step]; try (intros H; exfalso; apply H; reflexivity).
    - intros H. right. exists c, k, o. split; [reflexivity|]. intros Hn. apply H. apply devs_fold_none. exact Hn.
    - destruct (conns w !! c); intros H; exfalso; apply H; reflexivity.
    - destruct (rels w !! c); intros H; exfalso; apply H; reflexivity.
    - intros H. left. destruct (decide (t0 = t)) as [->|Hne]; [reflexivity|].
      exfalso. apply H. cbn. rewrite lookup_insert_ne by exact Hne. reflexivity.
  Qed.

  Theorem device_state_after_invocation (w : world) c k o t :
    dstate_of (step w (LRec c k o)) t =
    fold_left dev_apply (ok_reqs t (firstn k (fst (reconcile o w c)))) (dstate_of w t).
  Proof. cbn [Proto2.step]. apply dstate_fold. Qed.

  Theorem restart_empties (w : world) t : dstate_of (step w (LDevRestart t)) t = d_empty.
  Proof. unfold dstate_of, Proto2.dev_of. cbn. rewrite lookup_insert. reflexivity. Qed.

  (** * (b) What an effect list does to the applied values of one configuration *)
  (* the two components of the applied view: values inlined in the entry, the applied path-value map *)
  Definition pair_of (C : config) : V * V := (c_ainline C, c_avalues C).
  Definition ov (p : V * V) : V := overlay p.1 p.2.
  Definition eff_on (t : N) (p : V * V) (e : eff) : V * V :=
    match e with
    | EPutCfg t' c => if t' =? t then (c_ainline c, p.2) else p
    | EPutAValues t' v => if t' =? t then (p.1, v) else p
    | _ => p
    end.

  Lemma aview_pair (C : config) : aview C = ov (pair_of C).
  Proof. reflexivity. Qed.

  Lemma pair_eff (w : world) (e : eff) t (C : config) :
    cfgs w !! t = Some C ->
    exists C', cfgs (apply_eff w e) !! t = Some C' /\ pair_of C' = eff_on t (pair_of C) e.
  Proof.
    intros HC. rewrite cfgs_apply_eff.
    destruct e as [| | |t0 c|t0 c|t0 v|t0 v| | |]; try (exists C; split; [exact HC|reflexivity]); cbn [eff_on].
    - destruct (cfgs w !! t0) eqn:E0; [exists C; split; [exact HC|reflexivity]|].
      destruct (decide (t0 = t)) as [->|Hne]; [congruence|]. rewrite lookup_insert_ne by exact Hne. exists C. auto.
    - destruct (N.eqb_spec t0 t) as [->|Hne].
      + rewrite HC, lookup_insert. eexists. split; [reflexivity|]. reflexivity.
      + destruct (cfgs w !! t0); [rewrite lookup_insert_ne by exact Hne|]; exists C; auto.
    - destruct (decide (t0 = t)) as [->|Hne].
      + rewrite HC, lookup_insert. eexists. split; [reflexivity|]. reflexivity.
      + destruct (cfgs w !! t0); [rewrite lookup_insert_ne by exact Hne|]; exists C; auto.
    - destruct (N.eqb_spec t0 t) as [->|Hne].
      + rewrite HC, lookup_insert. eexists. split; [reflexivity|]. reflexivity.
      + destruct (cfgs w !! t0); [rewrite lookup_insert_ne by exact Hne|]; exists C; auto.
  Qed.

  Lemma pair_fold (es : list eff) t : forall (w : world) (C : config),
    cfgs w !! t = Some C ->
    exists C', cfgs (fold_left apply_eff es w) !! t = Some C' /\ pair_of C' = fold_left (eff_on t) es (pair_of C).
  Proof.
    induction es as [|e r IH]; intros w C HC; [exists C; auto|]. cbn [fold_left].
    destruct (pair_eff w e t C HC) as (C1 & H1 & P1). destruct (IH _ _ H1) as (C' & H' & P'). exists C'. split; [exact H'|].
    rewrite P', P1. reflexivity.
  Qed.

  (* every prefix of [es], started from the pair [p], stands for [a] *)
  Fixpoint quiet (t : N) (a : A) (p : V * V) (es : list eff) : Prop :=
    match es with
    | [] => True
    | e :: r => abs_app (ov (eff_on t p e)) = a /\ quiet t a (eff_on t p e) r
    end.

  Lemma quiet_prefix t a (es : list eff) : forall p k,
    abs_app (ov p) = a -> quiet t a p es -> abs_app (ov (fold_left (eff_on t) (firstn k es) p)) = a.
  Proof.
    induction es as [|e r IH]; intros p k Hp Hq; [rewrite firstn_nil; exact Hp|].
    destruct k as [|k]; [exact Hp|]. cbn [firstn fold_left]. destruct Hq as [H1 H2]. apply IH; assumption.
  Qed.

  Lemma quiet_app t a (es1 es2 : list eff) : forall p,
    quiet t a p es1 -> quiet t a (fold_left (eff_on t) es1 p) es2 -> quiet t a p (es1 ++ es2).
  Proof.
    induction es1 as [|e r IH]; intros p H1 H2; [exact H2|]. cbn in *. destruct H1 as [Ha Hr]. split; [exact Ha|]. apply IH; assumption.
  Qed.

  (* effects that do not write the entry or the applied map of [t] *)
  Definition anv_neutral (t : N) (e : eff) : Prop :=
    match e with
    | EPutCfg t' _ | EPutAValues t' _ => t' <> t
    | _ => True
    end.
  Lemma anv_neutral_eff t p e : anv_neutral t e -> eff_on t p e = p.
  Proof.
    destruct e as [| | | |t0 c| |t0 v| | |]; cbn; try reflexivity; intros Hne;
      (destruct (N.eqb_spec t0 t); [contradiction|reflexivity]).
  Qed.
  Lemma neutral_fold t (es : list eff) p : Forall (anv_neutral t) es -> fold_left (eff_on t) es p = p.
  Proof.
    induction es as [|e r IH]; intros Hf; [reflexivity|]. inversion Hf; subst. cbn. rewrite anv_neutral_eff by assumption. auto.
  Qed.
  Lemma quiet_neutral t a p (es : list eff) : abs_app (ov p) = a -> Forall (anv_neutral t) es -> quiet t a p es.
  Proof.
    intros Hp. induction es as [|e r IH]; intros Hf; [exact I|]. inversion Hf as [|? ? He Hr]. cbn.
    rewrite anv_neutral_eff by exact He. split; [exact Hp|]. apply IH. exact Hr.
  Qed.

  (* a status update of the configuration the invocation has read *)
  Lemma quiet_upd_status t t' (C C' : config) :
    status_sound -> quiet t (abs_app (aview C)) (pair_of C) (upd_status t' C C').
  Proof.
    intros (R1 & R2 & R3). unfold Proto2.upd_status. cbn [quiet eff_on]. destruct (t' =? t); cbn.
    - split; [apply R2|]. split; [apply R1|exact I].
    - repeat split.
  Qed.

  Lemma upd_status_pair t (C C' : config) p :
    fold_left (eff_on t) (upd_status t C C') p = (v_empty, restore (c_avalues C) (aview C)).
  Proof. unfold Proto2.upd_status. cbn [fold_left eff_on]. rewrite !N.eqb_refl. reflexivity. Qed.

  (** * Quiet invocations: no OK-answered request to the target among the effects *)
  Ltac conc_link :=
    try match goal with H : _ = Some ?e |- _ => is_var e;
          repeat match type of H with context [match ?x with _ => _ end] => destruct x eqn:? end;
          try discriminate H; injection H as <- end.

  Lemma tp_only_neutral t (e : eff) : tp_only e -> anv_neutral t e.
  Proof. destruct e; cbn; auto; intros []. Qed.

  Lemma rec_tx_quiet (w : world) i t (C : config) :
    quiet t (abs_app (aview C)) (pair_of C) (fst (rec_tx w i)).
  Proof.
    apply quiet_neutral; [reflexivity|]. eapply Forall_impl; [exact (rec_tx_tp stamp w i)|]. intros e. apply tp_only_neutral.
  Qed.
  Lemma rec_tx_no_dev (w : world) i t : ok_reqs t (fst (rec_tx w i)) = [].
  Proof.
    pose proof (rec_tx_tp stamp w i) as Hf. induction Hf as [|e r He Hr IH]; [reflexivity|].
    cbn. destruct e; cbn in *; try exact IH; destruct He.
  Qed.

  Lemma rec_conn_quiet (w : world) c t (C : config) :
    quiet t (abs_app (aview C)) (pair_of C) (fst (rec_conn w c)).
  Proof.
    apply quiet_neutral; [reflexivity|]. unfold Proto2.rec_conn.
    destruct_matches; cbn [fst]; repeat first [apply List.Forall_nil | apply List.Forall_cons; [exact I|]].
  Qed.
  Lemma rec_conn_no_dev (w : world) c t : ok_reqs t (fst (rec_conn w c)) = [].
  Proof. unfold Proto2.rec_conn. destruct_matches; reflexivity. Qed.

  Lemma rec_master_quiet (o : oracle) (w : world) t' t (C : config) :
    status_sound -> cfgs w !! t = Some C -> quiet t (abs_app (aview C)) (pair_of C) (fst (rec_master o w t')).
  Proof.
    intros HS HC. unfold Proto2.rec_master.
    destruct (N.eqb_spec t' t) as [->|Hne].
    - rewrite HC. destruct_matches; cbn [fst]; first [exact I | apply quiet_upd_status; exact HS].
    - apply quiet_neutral; [reflexivity|]. unfold Proto2.upd_status.
      destruct_matches; cbn [fst]; repeat first [apply List.Forall_nil | apply List.Forall_cons; [first [exact I|exact Hne]|]].
  Qed.
  Lemma rec_master_no_dev (o : oracle) (w : world) t' t : ok_reqs t (fst (rec_master o w t')) = [].
  Proof. unfold Proto2.rec_master, Proto2.upd_status. destruct_matches; reflexivity. Qed.

  Lemma resync_effs_neutral_anv t0 m term a reqs t :
    Forall (anv_neutral t) (fst (@resync_effs V Ch Req t0 m term a reqs)).
  Proof.
    apply List.Forall_forall. intros e He. apply resync_effs_in in He. destruct He as (r & -> & _). exact I.
  Qed.

  Lemma rec_cfg_quiet (o : oracle) (w : world) t' t (C : config) :
    status_sound -> cfgs w !! t = Some C -> quiet t (abs_app (aview C)) (pair_of C) (fst (rec_cfg o w t')).
  Proof.
    intros HS HC. unfold Proto2.rec_cfg.
    destruct (N.eqb_spec t' t) as [->|Hne].
    - rewrite HC. destruct_matches; cbn [fst]; try first [exact I | apply quiet_upd_status; exact HS].
      all: match goal with E : resync_effs ?t0 ?m0 ?te0 ?a0 ?rq0 = (?es, _) |- _ =>
             pose proof (resync_effs_neutral_anv t0 m0 te0 a0 rq0 t0) as Hn; rewrite E in Hn; cbn [fst] in Hn end.
      all: first [ apply quiet_neutral; [reflexivity|exact Hn]
                 | apply quiet_app; [apply quiet_neutral; [reflexivity|exact Hn]|]; rewrite neutral_fold by exact Hn;
                   apply quiet_upd_status; exact HS ].
    - apply quiet_neutral; [reflexivity|]. unfold Proto2.upd_status.
      destruct_matches; cbn [fst]; repeat first [apply List.Forall_nil | apply List.Forall_cons; [first [exact I|exact Hne]|]].
      all: match goal with E : resync_effs ?t0 ?m0 ?te0 ?a0 ?rq0 = (?es, _) |- _ =>
             pose proof (resync_effs_neutral_anv t0 m0 te0 a0 rq0 t) as Hn; rewrite E in Hn; cbn [fst] in Hn end.
      all: first [ exact Hn
                 | apply Forall_app_2; [exact Hn|];
                   repeat first [apply List.Forall_nil | apply List.Forall_cons; [first [exact I|exact Hne]|]] ].
  Qed.

  Lemma rec_prop_quiet (o : oracle) (w : world) t' i t (C : config) :
    status_sound -> cfgs w !! t = Some C -> ok_reqs t (fst (rec_prop o w (t', i))) = [] ->
    quiet t (abs_app (aview C)) (pair_of C) (fst (rec_prop o w (t', i))).
  Proof.
    intros (R1 & R2 & R3) HC. unfold Proto2.rec_prop, Proto2.vfail, Proto2.upd_status.
    destruct (props w !! (t', i)) as [P|] eqn:HP; [|intros _; exact I].
    destruct (N.eqb_spec t' t) as [->|Hne].
    - rewrite HC. destruct_matches; cbn [fst app]; intros Hq; conc_link;
        cbn [ok_reqs ok_req] in Hq; rewrite ?N.eqb_refl in Hq; try discriminate Hq; clear Hq;
        cbn [quiet eff_on]; rewrite ?N.eqb_refl; unfold ov, pair_of, Proto2.aview; cbn;
        repeat split; first [apply R1 | apply R2 | apply R3 | reflexivity].
    - intros _. apply quiet_neutral; [reflexivity|].
      destruct_matches; cbn [fst app]; conc_link;
        repeat first [apply List.Forall_nil | apply List.Forall_cons; [first [exact I|exact Hne]|]].
  Qed.
End Converge.

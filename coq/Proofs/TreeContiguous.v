(* C18: a set of paths sorted bytewise IS the depth-first enumeration of a trie with pairwise distinct child elements:
   the paths that share leading elements (in particular the paths of one list entry, whose element text is the same when
   the keys are written in canonical order) are contiguous, and folding the sorted paths back (TreeSpec.trie_of) finds
   exactly that trie.  Needed: every path text is "/" e1 "/" e2 ... with non-empty elements that the tokenizer does not
   split, and no path's elements are a prefix of another's (no leaf above a leaf, no duplicates).  Both conditions are
   necessary (counterexamples at the end). *)
From Coq Require Import List Arith NArith Bool Lia Sorted.
From OC Require Import Base.Bytes Model.Tree Model.TreeSpec.
Import ListNotations.
Open Scope N_scope.

(* ------------------------------------------------------------------ 1. bytewise order: a common prefix is an interval *)
Lemma lex_prefix_interval (P : str) : forall a b c ra rc,
  leb_str a b = true -> leb_str b c = true -> a = P ++ ra -> c = P ++ rc -> exists rb, b = P ++ rb.
Proof.
  induction P as [|x P IH]; intros a b c ra rc Hab Hbc Ea Ec; [exists b; reflexivity|].
  subst a c. cbn [app] in *. destruct b as [|y b].
  - unfold leb_str in Hab. cbn in Hab. discriminate.
  - unfold leb_str in Hab, Hbc. cbn [ltb_str] in Hab, Hbc.
    apply negb_true_iff in Hab, Hbc. apply orb_false_iff in Hab, Hbc.
    destruct Hab as [A1 A2]. destruct Hbc as [B1 B2]. apply N.ltb_ge in A1, B1.
    assert (E : x = y) by lia. subst y. rewrite N.eqb_refl in A2, B2. cbn [andb] in A2, B2.
    destruct (IH (P ++ ra) b (P ++ rc) ra rc) as [rb ->]; try reflexivity.
    + unfold leb_str. rewrite A2. reflexivity.
    + unfold leb_str. rewrite B2. reflexivity.
    + exists rb. reflexivity.
Qed.

(* ------------------------------------------------------------------ 2. tries with distinct children; trie_of inverts dfs *)
Fixpoint good (t : trie) : Prop :=
  match t with
  | TLeaf _ => True
  | TNode cs =>
    cs <> [] /\ NoDup (map fst cs) /\
    (fix all (l : list (str * trie)) : Prop :=
       match l with [] => True | et :: l' => (let (_, c) := et in good c) /\ all l' end) cs
  end.

Lemma good_node cs : good (TNode cs) <-> cs <> [] /\ NoDup (map fst cs) /\ Forall (fun et => good (snd et)) cs.
Proof.
  cbn [good]. split; intros [H1 [H2 H3]]; (split; [exact H1|]); (split; [exact H2|]); clear H1 H2.
  - induction cs as [|[e c] cs IH]; [constructor|]. destruct H3 as [Hc H3]. constructor; [exact Hc | apply IH; exact H3].
  - induction cs as [|[e c] cs IH]; [exact I|]. inversion H3 as [|? ? Hc H3']; subst. split; [exact Hc | apply IH; exact H3'].
Qed.

Lemma trie_ind2 (P : trie -> Prop) :
  (forall v, P (TLeaf v)) -> (forall cs, Forall (fun et => P (snd et)) cs -> P (TNode cs)) -> forall t, P t.
Proof.
  intros HL HN. fix IH 1. intros [v|cs]; [apply HL|]. apply HN.
  induction cs as [|[e c] cs IHcs]; constructor; [apply IH | exact IHcs].
Qed.

Definition ins (t : trie) (p : list str * tv) : trie := tinsert (S (List.length (fst p))) (fst p) (snd p) t.
Definition pre1 (e : str) (p : list str * tv) : list str * tv := (e :: fst p, snd p).

Lemma trie_of_fold l : trie_of l = fold_left ins l (TNode []).
Proof. reflexivity. Qed.

Lemma dfs_cons e c cs : dfs (TNode ((e, c) :: cs)) = map (pre1 e) (dfs c) ++ dfs (TNode cs).
Proof. reflexivity. Qed.

Definition last_name_differs (cs0 : list (str * trie)) (e : str) : Prop :=
  match rev cs0 with (e', _) :: _ => e <> e' | [] => True end.

(* inserting e :: r under a node whose last child is not e opens a new child *)
Lemma ins_new cs0 e r v : last_name_differs cs0 e ->
  ins (TNode cs0) (e :: r, v) = TNode (cs0 ++ [(e, ins (TNode []) (r, v))]).
Proof.
  unfold last_name_differs, ins. cbn [fst snd List.length tinsert]. intros H.
  destruct (rev cs0) as [|[e' c'] before] eqn:R.
  - assert (E : cs0 = []) by (rewrite <- (rev_involutive cs0), R; reflexivity). subst cs0. reflexivity.
  - apply eqb_str_neq in H. rewrite H. reflexivity.
Qed.

(* ... and under a node whose last child is e it goes into that child *)
Lemma ins_same cs0 e c r v :
  ins (TNode (cs0 ++ [(e, c)])) (e :: r, v) = TNode (cs0 ++ [(e, ins c (r, v))]).
Proof.
  unfold ins. cbn [fst snd List.length tinsert]. rewrite rev_unit, eqb_str_refl, rev_involutive. reflexivity.
Qed.

Lemma block_fold cs0 e ps : forall c,
  fold_left ins (map (pre1 e) ps) (TNode (cs0 ++ [(e, c)])) = TNode (cs0 ++ [(e, fold_left ins ps c)]).
Proof.
  induction ps as [|[r v] ps IH]; intros c; [reflexivity|]. cbn [map fold_left].
  change (pre1 e (r, v)) with (e :: r, v). rewrite ins_same. apply IH.
Qed.

Lemma block_new cs0 e ps : ps <> [] -> last_name_differs cs0 e ->
  fold_left ins (map (pre1 e) ps) (TNode cs0) = TNode (cs0 ++ [(e, trie_of ps)]).
Proof.
  intros NE H. destruct ps as [|[r v] ps]; [congruence|]. cbn [map fold_left].
  change (pre1 e (r, v)) with (e :: r, v). rewrite (ins_new cs0 e r v H), block_fold. reflexivity.
Qed.

Lemma good_dfs_nonempty t : good t -> dfs t <> [].
Proof.
  induction t as [v|cs IH] using trie_ind2; intros G; [discriminate|].
  apply good_node in G. destruct G as [NE [_ GC]]. destruct cs as [|[e c] cs]; [congruence|].
  inversion IH as [|? ? IHc _]; subst. inversion GC as [|? ? Gc _]; subst. cbn [snd] in *.
  rewrite dfs_cons. specialize (IHc Gc). destruct (dfs c); [congruence | discriminate].
Qed.

Lemma fold_children cs :
  Forall (fun et => good (snd et) -> trie_of (dfs (snd et)) = snd et) cs ->
  Forall (fun et => good (snd et)) cs -> NoDup (map fst cs) ->
  forall cs0, match cs with (e1, _) :: _ => last_name_differs cs0 e1 | [] => True end ->
  fold_left ins (dfs (TNode cs)) (TNode cs0) = TNode (cs0 ++ cs).
Proof.
  induction cs as [|[e c] cs IH]; intros HI HG ND cs0 HL; [cbn; rewrite app_nil_r; reflexivity|].
  inversion HI as [|? ? HIc HI']; subst. inversion HG as [|? ? HGc HG']; subst. cbn [snd] in *.
  cbn [map] in ND. inversion ND as [|? ? Hn ND']; subst.
  rewrite dfs_cons, fold_left_app, (block_new cs0 e (dfs c) (good_dfs_nonempty c HGc) HL), (HIc HGc).
  rewrite (IH HI' HG' ND' (cs0 ++ [(e, c)])); [rewrite <- app_assoc; reflexivity|].
  destruct cs as [|[e2 c2] cs2]; [exact I|]. unfold last_name_differs. rewrite rev_unit.
  intros E. apply Hn. left. exact E.
Qed.

(* folding the depth-first enumeration of a good trie back gives the trie *)
Theorem trie_of_dfs t : good t -> trie_of (dfs t) = t.
Proof.
  induction t as [v|cs IH] using trie_ind2; intros G; [reflexivity|].
  apply good_node in G. destruct G as [NE [ND GC]].
  rewrite trie_of_fold, (fold_children cs IH GC ND []); [reflexivity|].
  destruct cs as [|[e1 c1] cs1]; exact I.
Qed.

(* ------------------------------------------------------------------ 3. prefix-free + contiguous = a depth-first enumeration *)
Definition is_pre (x y : list str) : Prop := exists r, y = x ++ r.

(* no path's elements are a prefix of another's (no duplicates, no leaf above a leaf) *)
Definition pfree (L : list (list str * tv)) : Prop :=
  forall l1 a l2 c l3, L = l1 ++ a :: l2 ++ c :: l3 -> ~ is_pre (fst a) (fst c) /\ ~ is_pre (fst c) (fst a).

(* whatever lies between two paths that share leading elements shares them too *)
Definition ctg (L : list (list str * tv)) : Prop :=
  forall l1 a l2 c l3 pre ra rc, L = l1 ++ a :: l2 ++ c :: l3 -> pre <> [] ->
    fst a = pre ++ ra -> fst c = pre ++ rc -> forall b, In b l2 -> is_pre pre (fst b).

Definition hd_is (e : str) (p : list str * tv) : bool :=
  match fst p with x :: _ => eqb_str x e | [] => false end.
Definition tl1 (p : list str * tv) : list str * tv := (tl (fst p), snd p).

Lemma hd_is_spec e p : hd_is e p = true <-> exists r, fst p = e :: r.
Proof.
  unfold hd_is. destruct (fst p) as [|x r]; [split; [discriminate | intros [r H]; discriminate]|].
  rewrite eqb_str_eq. split; [intros ->; exists r; reflexivity | intros [r' H]; congruence].
Qed.

Lemma pre1_tl1 e p : hd_is e p = true -> pre1 e (tl1 p) = p.
Proof. intros H. apply hd_is_spec in H. destruct H as [r H]. destruct p as [f v]. cbn in *. subst f. reflexivity. Qed.

Lemma span_hd e : forall L1, exists B R, L1 = B ++ R /\ Forall (fun p => hd_is e p = true) B /\
  match R with y :: _ => hd_is e y = false | [] => True end.
Proof.
  induction L1 as [|p L1 IH]; [exists [], []; repeat split; constructor|].
  destruct (hd_is e p) eqn:H.
  - destruct IH as [B [R [-> [FB HR]]]]. exists (p :: B), R. repeat split; [constructor; assumption | exact HR].
  - exists [], (p :: L1). repeat split; [constructor | exact H].
Qed.

Fixpoint msize (L : list (list str * tv)) : nat :=
  match L with [] => O | p :: L' => S (List.length (fst p)) + msize L' end.

Lemma msize_app A B : msize (A ++ B) = (msize A + msize B)%nat.
Proof. induction A as [|p A IH]; cbn; [reflexivity | rewrite IH; lia]. Qed.

Lemma msize_tl1 B : (msize (map tl1 B) <= msize B)%nat.
Proof.
  induction B as [|p B IH]; cbn; [lia|]. assert (List.length (tl (fst p)) <= List.length (fst p))%nat by (destruct (fst p); cbn; lia).
  lia.
Qed.

Lemma pfree_suffix A R : pfree (A ++ R) -> pfree R.
Proof. intros H l1 a l2 c l3 E. apply (H (A ++ l1) a l2 c l3). rewrite E, app_assoc. reflexivity. Qed.

Lemma ctg_suffix A R : ctg (A ++ R) -> ctg R.
Proof. intros H l1 a l2 c l3 pre ra rc E. apply (H (A ++ l1) a l2 c l3 pre ra rc). rewrite E, app_assoc. reflexivity. Qed.

Lemma block_decomp e G R l1 a l2 c l3 : G = l1 ++ a :: l2 ++ c :: l3 ->
  map (pre1 e) G ++ R = map (pre1 e) l1 ++ pre1 e a :: map (pre1 e) l2 ++ pre1 e c :: (map (pre1 e) l3 ++ R).
Proof. intros ->. rewrite !map_app. cbn [map]. rewrite !map_app. cbn [map]. rewrite <- !app_assoc. cbn [app]. rewrite <- !app_assoc. reflexivity. Qed.

Lemma pfree_block e G R : pfree (map (pre1 e) G ++ R) -> pfree G.
Proof.
  intros H l1 a l2 c l3 E. destruct (H _ _ _ _ _ (block_decomp e G R l1 a l2 c l3 E)) as [H1 H2].
  split; intros [r Hr]; [apply H1 | apply H2]; exists r; cbn [pre1 fst]; rewrite Hr; reflexivity.
Qed.

Lemma ctg_block e G R : ctg (map (pre1 e) G ++ R) -> ctg G.
Proof.
  intros H l1 a l2 c l3 pre ra rc E NP Ea Ec b Hb.
  destruct (H _ _ _ _ _ (e :: pre) ra rc (block_decomp e G R l1 a l2 c l3 E)) with (b := pre1 e b) as [r Hr].
  - discriminate.
  - cbn [pre1 fst]. rewrite Ea. reflexivity.
  - cbn [pre1 fst]. rewrite Ec. reflexivity.
  - apply in_map. exact Hb.
  - cbn [pre1 fst app] in Hr. injection Hr as Hr. exists r. exact Hr.
Qed.

Theorem grouped_is_dfs : forall n L, (msize L <= n)%nat ->
  (forall p, In p L -> fst p <> []) -> pfree L -> ctg L ->
  exists cs, NoDup (map fst cs) /\ Forall (fun et => good (snd et)) cs /\ dfs (TNode cs) = L /\
             (forall e0, In e0 (map fst cs) -> exists p, In p L /\ hd_is e0 p = true).
Proof.
  induction n as [|n IH]; intros L Hn NE PF CT.
  - destruct L as [|p L]; [|cbn in Hn; lia]. exists []. repeat split; try constructor. intros e0 [].
  - destruct L as [|a L1]; [exists []; repeat split; try constructor; intros e0 []|].
    destruct a as [fa v]. destruct fa as [|e r1]; [exfalso; apply (NE ([], v)); [left; reflexivity | reflexivity]|].
    destruct (span_hd e L1) as [B [R [-> [FB HR]]]]. rewrite Forall_forall in FB.
    set (a := (e :: r1, v)) in *.
    (* nothing after the block starts with e *)
    assert (noR : forall y, In y R -> hd_is e y = false).
    { destruct R as [|y0 R0]; [intros y []|]. intros y [<-|Hy]; [exact HR|].
      destruct (hd_is e y) eqn:Hy2; [exfalso | reflexivity].
      apply in_split in Hy. destruct Hy as [R1 [R2 ->]]. apply hd_is_spec in Hy2. destruct Hy2 as [ry Ey].
      assert (E : a :: B ++ y0 :: R1 ++ y :: R2 = [] ++ a :: (B ++ y0 :: R1) ++ y :: R2).
      { cbn [app]. rewrite <- app_assoc. reflexivity. }
      destruct (CT _ _ _ _ _ [e] r1 ry E) with (b := y0) as [r0 E0]; [discriminate | reflexivity | exact Ey | apply in_or_app; right; left; reflexivity|].
      assert (T : hd_is e y0 = true) by (apply hd_is_spec; exists r0; exact E0). congruence. }
    assert (PFR : pfree R) by (apply (pfree_suffix (a :: B)); exact PF).
    assert (CTR : ctg R) by (apply (ctg_suffix (a :: B)); exact CT).
    assert (NER : forall p, In p R -> fst p <> []) by (intros p Hp; apply NE; right; apply in_or_app; right; exact Hp).
    assert (SZ : msize (a :: B ++ R) = (S (S (List.length r1)) + msize B + msize R)%nat) by (cbn; rewrite msize_app; lia).
    destruct (IH R ltac:(lia) NER PFR CTR) as [cs' [ND' [GC' [DF' HD']]]].
    assert (Hne : ~ In e (map fst cs')).
    { intros HI. destruct (HD' e HI) as [p [Hp Hh]]. rewrite (noR p Hp) in Hh. discriminate. }
    destruct r1 as [|e2 r2].
    + (* a leaf: it is alone in its block *)
      assert (EB : B = []).
      { destruct B as [|p B']; [reflexivity|]. exfalso.
        assert (Hp : hd_is e p = true) by (apply FB; left; reflexivity). apply hd_is_spec in Hp. destruct Hp as [t Et].
        destruct (PF [] a [] p (B' ++ R) eq_refl) as [H1 _]. apply H1. exists t. rewrite Et. reflexivity. }
      subst B. exists ((e, TLeaf v) :: cs'). repeat split.
      * cbn [map fst]. constructor; assumption.
      * constructor; [exact I | exact GC'].
      * rewrite dfs_cons, DF'. reflexivity.
      * intros e0 [<-|HI]; [exists a; split; [left; reflexivity | apply hd_is_spec; exists []; reflexivity]|].
        destruct (HD' e0 HI) as [p [Hp Hh]]. exists p. split; [right; exact Hp | exact Hh].
    + (* a container or list entry: the tails of its block *)
      set (G := tl1 a :: map tl1 B).
      assert (EG : map (pre1 e) G = a :: B).
      { unfold G. cbn [map]. f_equal. rewrite map_map. rewrite <- (map_id B) at 2. apply map_ext_in.
        intros p Hp. apply pre1_tl1. apply FB. exact Hp. }
      assert (EL : a :: B ++ R = map (pre1 e) G ++ R) by (rewrite EG; reflexivity).
      assert (NEG : forall g, In g G -> fst g <> []).
      { intros g [<-|Hg]; [discriminate|]. apply in_map_iff in Hg. destruct Hg as [p [<- Hp]].
        assert (Hh : hd_is e p = true) by (apply FB; exact Hp). apply hd_is_spec in Hh. destruct Hh as [t Et].
        cbn [tl1 fst]. rewrite Et. cbn [tl]. intros ->.
        apply in_split in Hp. destruct Hp as [B1 [B2 ->]].
        assert (E : a :: (B1 ++ p :: B2) ++ R = [] ++ a :: B1 ++ p :: (B2 ++ R)).
        { cbn [app]. rewrite <- app_assoc. reflexivity. }
        destruct (PF _ _ _ _ _ E) as [_ H2]. apply H2. exists (e2 :: r2). rewrite Et. reflexivity. }
      assert (PFG : pfree G) by (apply (pfree_block e G R); rewrite <- EL; exact PF).
      assert (CTG : ctg G) by (apply (ctg_block e G R); rewrite <- EL; exact CT).
      assert (SG : (msize G <= S (S (List.length r2)) + msize B)%nat).
      { unfold G, a. cbn [msize tl1 fst tl List.length]. pose proof (msize_tl1 B). lia. }
      cbn [List.length] in SZ.
      destruct (IH G ltac:(lia) NEG PFG CTG) as [csG [NDG [GCG [DFG _]]]].
      assert (NG : csG <> []) by (intros ->; cbn in DFG; unfold G in DFG; discriminate).
      exists ((e, TNode csG) :: cs'). repeat split.
      * cbn [map fst]. constructor; assumption.
      * constructor; [apply good_node; auto | exact GC'].
      * rewrite dfs_cons, DFG, DF', EG. reflexivity.
      * intros e0 [<-|HI]; [exists a; split; [left; reflexivity | apply hd_is_spec; exists (e2 :: r2); reflexivity]|].
        destruct (HD' e0 HI) as [p [Hp Hh]]. exists p. split; [right; apply in_or_app; right; exact Hp | exact Hh].
Qed.

(* ------------------------------------------------------------------ 4. texts: the tokenizer on "/" e1 "/" e2 ... *)
(* the bracket / escape state of nextTokenIndex across an element; None = it would split inside *)
Fixpoint scan (inb esc : bool) (e : str) : option (bool * bool) :=
  match e with
  | [] => Some (inb, esc)
  | c :: e' =>
    if c =? c_lbr then scan true false e'
    else if c =? c_rbr then scan (if esc then inb else false) false e'
    else if c =? c_bslash then scan inb (negb esc) e'
    else if c =? c_slash then (if negb inb && negb esc then None else scan inb false e')
    else scan inb false e'
  end.

(* an element the tokenizer returns whole: not empty, no splitting '/', brackets closed and no pending escape at its end *)
Definition elem_okb (e : str) : bool :=
  match e with [] => false | _ => match scan false false e with Some (false, false) => true | _ => false end end.
Definition elem_ok (e : str) : Prop := elem_okb e = true.

Definition ptext (es : list str) : str := concat (map (fun e => c_slash :: e) es).

Lemma next_token_scan e : forall inb esc i X inb' esc',
  scan inb esc e = Some (inb', esc') ->
  next_token_go inb esc i (e ++ X) = next_token_go inb' esc' (i + List.length e) X.
Proof.
  induction e as [|c e IH]; intros inb esc i X inb' esc' H.
  - cbn in H. injection H as <- <-. cbn. rewrite Nat.add_0_r. reflexivity.
  - cbn [scan] in H. cbn [app next_token_go List.length]. rewrite Nat.add_succ_r.
    destruct (c =? c_lbr); [apply (IH _ _ (S i) X _ _ H)|].
    destruct (c =? c_rbr); [apply (IH _ _ (S i) X _ _ H)|].
    destruct (c =? c_bslash); [apply (IH _ _ (S i) X _ _ H)|].
    destruct (c =? c_slash); [|apply (IH _ _ (S i) X _ _ H)].
    destruct (negb inb && negb esc); [discriminate | apply (IH _ _ (S i) X _ _ H)].
Qed.

(* what may follow an element in a path text: nothing, or a '/' *)
Definition sstart (X : str) : Prop := X = [] \/ exists R, X = c_slash :: R.

Lemma elem_ok_scan e : elem_ok e -> e <> [] /\ scan false false e = Some (false, false).
Proof.
  unfold elem_ok, elem_okb. destruct e as [|c e]; [discriminate|]. intros H. split; [discriminate|].
  destruct (scan false false (c :: e)) as [[[|] [|]]|]; try discriminate. reflexivity.
Qed.

Lemma next_token_elem e X : elem_ok e -> sstart X -> next_token_index (e ++ X) = List.length e.
Proof.
  intros H S. destruct (elem_ok_scan e H) as [_ Hs]. unfold next_token_index.
  rewrite (next_token_scan e false false O X false false Hs). cbn [Nat.add].
  destruct S as [->|[R ->]]; reflexivity.
Qed.

Lemma ptext_cons e es : ptext (e :: es) = c_slash :: e ++ ptext es.
Proof. reflexivity. Qed.

Lemma ptext_app a b : ptext (a ++ b) = ptext a ++ ptext b.
Proof. unfold ptext. rewrite map_app, concat_app. reflexivity. Qed.

Lemma ptext_sstart es : sstart (ptext es).
Proof. destruct es as [|e es]; [left; reflexivity | right; exists (e ++ ptext es); reflexivity]. Qed.

Lemma firstn_len_app {A} (a b : list A) : firstn (List.length a) (a ++ b) = a.
Proof. induction a as [|x a IH]; cbn; [reflexivity | f_equal; exact IH]. Qed.

Lemma skipn_len_app {A} (a b : list A) : skipn (List.length a) (a ++ b) = b.
Proof. induction a as [|x a IH]; cbn; [reflexivity | exact IH]. Qed.

Lemma split_loop_S f p : p <> [] ->
  split_loop (S f) p = firstn (next_token_index p) p :: split_loop f (strip_slash (skipn (next_token_index p) p)).
Proof. destruct p; [congruence | reflexivity]. Qed.

Lemma split_loop_nil f : split_loop f [] = [].
Proof. destruct f; reflexivity. Qed.

Lemma split_loop_elems rest : forall e1 f, Forall elem_ok (e1 :: rest) ->
  (List.length (e1 ++ ptext rest) <= f)%nat -> split_loop f (e1 ++ ptext rest) = e1 :: rest.
Proof.
  induction rest as [|e2 rest IH]; intros e1 f F Hf; inversion F as [|? ? F1 F2]; subst;
    destruct (elem_ok_scan e1 F1) as [NE _].
  - assert (Hl : (1 <= List.length e1)%nat) by (destruct e1; [congruence | cbn; lia]).
    cbn [ptext map concat] in *. rewrite app_nil_r in *. destruct f as [|f]; [lia|].
    rewrite (split_loop_S f e1 NE).
    pose proof (next_token_elem e1 [] F1 (or_introl eq_refl)) as Hi. rewrite app_nil_r in Hi. rewrite Hi.
    rewrite <- (app_nil_r e1) at 2 4. rewrite firstn_len_app, skipn_len_app. cbn [strip_slash]. rewrite split_loop_nil. reflexivity.
  - rewrite ptext_cons in *. rewrite app_length in Hf. cbn [List.length] in Hf.
    assert (Hl : (1 <= List.length e1)%nat) by (destruct e1; [congruence | cbn; lia]).
    destruct f as [|f]; [lia|].
    assert (NP : e1 ++ c_slash :: e2 ++ ptext rest <> []) by (destruct e1; [congruence | discriminate]).
    rewrite (split_loop_S f _ NP).
    rewrite (next_token_elem e1 (c_slash :: e2 ++ ptext rest) F1 (or_intror (ex_intro _ _ eq_refl))).
    rewrite firstn_len_app, skipn_len_app. cbn [strip_slash]. rewrite N.eqb_refl. f_equal.
    apply IH; [exact F2 | lia].
Qed.

(* SplitPath gives the elements back *)
Theorem split_ptext es : es <> [] -> Forall elem_ok es -> split_path (ptext es) = es.
Proof.
  intros NE F. destruct es as [|e1 rest]; [congruence|]. unfold split_path. rewrite ptext_cons.
  cbn [strip_slash]. rewrite N.eqb_refl. apply split_loop_elems; [exact F | lia].
Qed.

Lemma first_token_unique e x Ye Yx : elem_ok e -> elem_ok x -> sstart Ye -> sstart Yx ->
  e ++ Ye = x ++ Yx -> e = x /\ Ye = Yx.
Proof.
  intros He Hx Se Sx E.
  pose proof (next_token_elem e Ye He Se) as H1. pose proof (next_token_elem x Yx Hx Sx) as H2. rewrite E in H1.
  assert (L : List.length e = List.length x) by congruence.
  assert (Ee : e = x).
  { rewrite <- (firstn_len_app e Ye), <- (firstn_len_app x Yx), E, L. reflexivity. }
  subst x. apply app_inv_head in E. auto.
Qed.

(* a text prefix that ends before a '/' is a prefix of the elements *)
Lemma text_prefix_elems pre : forall es R, Forall elem_ok es -> Forall elem_ok pre ->
  ptext es = ptext pre ++ c_slash :: R -> exists rest, es = pre ++ rest.
Proof.
  induction pre as [|x pre IH]; intros es R Fe Fp E; [exists es; reflexivity|].
  inversion Fp as [|? ? Fx Fp']; subst. destruct es as [|e es]; [cbn in E; discriminate|].
  inversion Fe as [|? ? Fe1 Fe']; subst. rewrite !ptext_cons in E. cbn [app] in E. injection E as E.
  rewrite <- app_assoc in E.
  destruct (first_token_unique e x (ptext es) (ptext pre ++ c_slash :: R) Fe1 Fx (ptext_sstart es)) as [-> E2].
  - destruct pre as [|y pre]; [right; exists R; reflexivity|]. right. rewrite ptext_cons. cbn [app]. eexists. reflexivity.
  - exact E.
  - destruct (IH es R Fe' Fp' E2) as [rest ->]. exists rest. reflexivity.
Qed.

(* ------------------------------------------------------------------ 5. sorted bytewise => contiguous => depth first *)
Definition text (p : list str * tv) : str := ptext (fst p).
Definition text_le (x y : list str * tv) : Prop := leb_str (text x) (text y) = true.

Lemma ssorted_app_r {A} (R : A -> A -> Prop) (X Y : list A) : StronglySorted R (X ++ Y) -> StronglySorted R Y.
Proof. induction X as [|x X IH]; [auto|]. cbn. intros H. inversion H; subst. apply IH. assumption. Qed.

Lemma ssorted_mid {A} (R : A -> A -> Prop) (X : list A) c Y : StronglySorted R (X ++ c :: Y) -> forall b, In b X -> R b c.
Proof.
  induction X as [|x X IH]; intros H b []; cbn in H; inversion H as [|? ? H1 H2]; subst.
  - rewrite Forall_forall in H2. apply H2. apply in_or_app. right. left. reflexivity.
  - apply IH; assumption.
Qed.

Theorem sorted_ctg L : (forall p, In p L -> Forall elem_ok (fst p)) -> pfree L -> StronglySorted text_le L -> ctg L.
Proof.
  intros OK PF SS l1 a l2 c l3 pre ra rc E NP Ea Ec b Hb. subst L.
  destruct (PF _ _ _ _ _ eq_refl) as [P1 P2].
  assert (Nra : ra <> []).
  { intros ->. rewrite app_nil_r in Ea. apply P1. exists rc. rewrite Ea. exact Ec. }
  assert (Nrc : rc <> []).
  { intros ->. rewrite app_nil_r in Ec. apply P2. exists ra. rewrite Ec. exact Ea. }
  pose proof (ssorted_app_r _ _ _ SS) as S1. inversion S1 as [|? ? S2 Fa]; subst.
  rewrite Forall_forall in Fa.
  assert (Lab : text_le a b) by (apply Fa; apply in_or_app; left; exact Hb).
  assert (Lbc : text_le b c) by (apply (ssorted_mid text_le l2 c l3 S2 b Hb)).
  assert (Ta : exists Ra, text a = (ptext pre ++ [c_slash]) ++ Ra).
  { unfold text. rewrite Ea, ptext_app. destruct ra as [|y ra]; [congruence|]. rewrite ptext_cons.
    exists (y ++ ptext ra). rewrite <- app_assoc. reflexivity. }
  assert (Tc : exists Rc, text c = (ptext pre ++ [c_slash]) ++ Rc).
  { unfold text. rewrite Ec, ptext_app. destruct rc as [|y rc]; [congruence|]. rewrite ptext_cons.
    exists (y ++ ptext rc). rewrite <- app_assoc. reflexivity. }
  destruct Ta as [Ra Ta]. destruct Tc as [Rc Tc].
  destruct (lex_prefix_interval (ptext pre ++ [c_slash]) (text a) (text b) (text c) Ra Rc Lab Lbc Ta Tc) as [Rb Tb].
  unfold text in Tb. rewrite <- app_assoc in Tb. cbn [app] in Tb.
  assert (Fpre : Forall elem_ok pre).
  { assert (Fa' : Forall elem_ok (fst a)) by (apply OK; apply in_or_app; right; left; reflexivity).
    rewrite Ea in Fa'. apply Forall_app in Fa'. apply Fa'. }
  assert (Fb : Forall elem_ok (fst b)).
  { apply OK. apply in_or_app. right. right. apply in_or_app. left. exact Hb. }
  apply (text_prefix_elems pre (fst b) Rb Fb Fpre Tb).
Qed.

(* the sorted paths are the depth-first enumeration of a trie with pairwise distinct children, and trie_of finds it *)
Theorem sorted_is_dfs L :
  (forall p, In p L -> fst p <> [] /\ Forall elem_ok (fst p)) -> pfree L -> StronglySorted text_le L ->
  exists cs, NoDup (map fst cs) /\ Forall (fun et => good (snd et)) cs /\ dfs (TNode cs) = L /\ trie_of L = TNode cs.
Proof.
  intros OK PF SS.
  destruct (grouped_is_dfs (msize L) L (le_n _) (fun p Hp => proj1 (OK p Hp)) PF
                           (sorted_ctg L (fun p Hp => proj2 (OK p Hp)) PF SS)) as [cs [ND [GC [DF _]]]].
  exists cs. split; [exact ND|]. split; [exact GC|]. split; [exact DF|].
  destruct cs as [|et cs'] eqn:Ecs; [cbn in DF; subst L; reflexivity|]. rewrite <- Ecs in *.
  rewrite <- DF. apply trie_of_dfs. apply good_node. split; [rewrite Ecs; discriminate | auto].
Qed.

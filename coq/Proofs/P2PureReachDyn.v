(* C04, reachability invariant of the instance, part 3: the DYNAMIC part - after every COMPLETE reconcile invocation,
   for every configuration: no live value beneath a tombstone in the stored committed map, the inlined committed values
   hold no key the map does not hold, and no live value beneath a tombstone in the loaded applied values
   (wf_pair of the inlined applied values and the stored applied map).  [Inv] = static + dynamic part; preserved by
   every environment label whose changes are well-formed and by every complete invocation. *)
From stdpp Require Import gmap.
From RecordUpdate Require Import RecordUpdate.
From Coq Require Import NArith Lia.
From OC Require Import Base.Bytes Model.P2Pure Model.Proto2 Model.P2Inst Proofs.P2Base Proofs.P2Phases Proofs.P2_Cursor Proofs.P2_Converge.
From OC Require Import Proofs.P2PureApplyDefs Proofs.P2PureApplyBase Proofs.P2PureApplySem Proofs.P2PureApplySound
     Proofs.P2PureApplyStatus Proofs.P2PureReachPure Proofs.P2PureReachInv Proofs.P2PureReachEff.
Open Scope N_scope.

Definition cfg_neutral (t : N) (e : Eff) : Prop :=
  match e with EPutCfg t' _ | EPutValues t' _ | EPutAValues t' _ => t' <> t | _ => True end.

Lemma cfg_neutral_on t (C : Cfg) (e : Eff) : cfg_neutral t e -> cfg_on t C e = C.
Proof.
  destruct e as [| | | |t0 c|t0 v|t0 v| | |]; cbn; try reflexivity; intros Hne; (destruct (N.eqb_spec t0 t); [contradiction|reflexivity]).
Qed.
Lemma cfg_neutral_fold t (es : list Eff) (C : Cfg) : Forall (cfg_neutral t) es -> fold_left (cfg_on t) es C = C.
Proof.
  induction es as [|e es IH]; intros Hf; [reflexivity|]. inversion Hf; subst. cbn. rewrite cfg_neutral_on by assumption. auto.
Qed.
Lemma tp_only_cfg_neutral t (e : Eff) : tp_only e -> cfg_neutral t e.
Proof. destruct e; cbn; auto; intros []. Qed.

Lemma wfk_of (m : cmap) : WF m -> wfk m = true.
Proof. apply wfk_WF. Qed.

Section Dyn.
  Context (Lf : N -> str -> Prop) (Lf_free : forall t p q, Lf t p -> Lf t q -> ~ Below p q).
  Notation SInv := (SInv Lf).

  (** * the pairs a complete invocation leaves behind *)
  Section OneCfg.
    Context (w : Wd) (HS : SInv w) (t : N) (C : Cfg) (HC : cfgs w !! t = Some C) (HD : dyn C).

    Lemma dc_wf : WF (c_values C) /\ WF (c_avalues C) /\ WF (c_inline C) /\ WF (c_ainline C).
    Proof. destruct (si_cfg Lf w HS t C HC) as ([H1 _] & [H2 _] & [H3 _] & [H4 _]). auto. Qed.

    Lemma dc_view_lookup k : plookup k (view overlay C) = plookup k (c_values C).
    Proof. destruct dc_wf as (H1 & _). destruct HD as (_ & D2 & _). apply overlay_keysub_lookup; assumption. Qed.

    Lemma dc_view_nlb : no_live_below (view overlay C) = true.
    Proof.
      destruct dc_wf as (H1 & _ & H3 & _). destruct HD as (D1 & _ & _).
      apply (nlb_ext (c_values C)); [exact H1|apply WF_overlay; assumption| |exact D1]. intros k. symmetry. apply dc_view_lookup.
    Qed.

    Lemma dc_keysub_view : keysub (view overlay C) (c_values C).
    Proof. intros k H. rewrite dc_view_lookup in H. exact H. Qed.

    Lemma dc_restore_nlb : no_live_below (overlay nil (restore (c_avalues C) (aview overlay C))) = true.
    Proof.
      destruct dc_wf as (_ & H2 & _ & H4). destruct (restore_wf (c_ainline C) (c_avalues C) (wfk_of _ H4) (wfk_of _ H2)) as (Hp & _).
      unfold wf_pair in Hp. apply andb_true_iff in Hp. apply Hp.
    Qed.

    Lemma dp_status : dynp (c_values C) (view overlay C) nil (restore (c_avalues C) (aview overlay C)).
    Proof. destruct HD as (D1 & _). split; [exact D1|]. split; [apply dc_keysub_view|apply dc_restore_nlb]. Qed.

    Section OneProp.
      Context (i : N) (P : Prop2) (HP : props w !! (t, i) = Some P).

      Lemma dc_keysub_touched : keysub (touched i (view overlay C) (rb_change nil P)) (c_values C).
      Proof.
        intros k H. apply dc_keysub_view. intros Hn. apply H. apply lookup_none. rewrite touched_keys. apply lookup_none. exact Hn.
      Qed.

      Lemma dc_wf_apply : wf_apply (c_ainline C) (c_avalues C) (rb_change nil P) = true.
      Proof.
        destruct dc_wf as (_ & H2 & _ & H4). destruct HD as (_ & _ & D3). destruct (rb_change_ok Lf w t i P HS HP) as [R1 R2].
        unfold wf_apply, wf_pair. rewrite (wfk_of _ H4), (wfk_of _ H2), D3. cbn. apply andb_true_iff. split; [apply wf_change_WFC; exact R2|].
        apply (cgood_idx_compat Lf w t); [exact HS| |exact R1]. apply (si_cfg Lf w HS t C HC).
      Qed.

      Lemma dp_apply ord :
        dynp (c_values C) (touched i (view overlay C) (rb_change nil P)) nil
             (record_applied ord i (c_avalues C) (aview overlay C) (view overlay C) (rb_change nil P)).
      Proof.
        destruct HD as (D1 & _). split; [exact D1|]. split; [apply dc_keysub_touched|].
        destruct (record_applied_wf ord i (c_ainline C) (c_avalues C) (view overlay C) (rb_change nil P) dc_wf_apply) as [Hp _].
        unfold wf_pair in Hp. apply andb_true_iff in Hp. apply Hp.
      Qed.

      Lemma dp_applyfail :
        dynp (c_values C) (touched i (view overlay C) (rb_change nil P)) nil (restore (c_avalues C) (aview overlay C)).
      Proof. destruct HD as (D1 & _). split; [exact D1|]. split; [apply dc_keysub_touched|apply dc_restore_nlb]. Qed.

      Lemma dp_commit ord :
        dynp (commit_merge ord i (c_values C) (view overlay C) (rb_change nil P)) nil (aview overlay C) (c_avalues C).
      Proof.
        destruct dc_wf as (H1 & H2 & H3 & H4). destruct HD as (D1 & D2 & D3). destruct (rb_change_ok Lf w t i P HS HP) as [R1 R2].
        split; [|split].
        - apply neb_nlb. apply (commit_merge_wf ord i (c_values C) (view overlay C) (rb_change nil P)); try assumption.
          + apply WF_overlay; assumption.
          + intros k e H. rewrite dc_view_lookup. exact H.
          + apply dc_view_nlb.
          + apply (cgood_idx_compat Lf w t); [exact HS| |exact R1]. apply (si_cfg Lf w HS t C HC).
        - intros k H. exfalso. apply H. reflexivity.
        - apply inline_no_live_below; assumption.
      Qed.
    End OneProp.
  End OneCfg.

  (** * one complete invocation, seen from one configuration that exists *)
  Local Opaque restore record_applied commit_merge touched overlay rollback_of candidate candidate_rb payload resync_payload stamp doc_ok.

  Ltac conc_link :=
    try match goal with H : _ = Some ?e |- _ => is_var e;
          repeat match type of H with context [match ?x with _ => _ end] => destruct x eqn:? end;
          try discriminate H; injection H as <- end.

  (* the configuration read by the invocation is the one of the lemma *)
  Ltac same_cfg HC :=
    repeat match goal with
           | E : _ = Some ?c |- _ =>
             lazymatch type of HC with _ = Some ?C =>
               lazymatch c with C => fail | _ => idtac end;
               lazymatch type of c with config => idtac | Cfg => idtac end;
               let Hq := fresh in
               assert (Hq : Some c = Some C) by (rewrite <- E; exact HC); injection Hq as ->
             end
           end.

  Ltac dyn_tac HS HC HD :=
    unfold dyn; cbn;
    first [ exact HD
          | eapply (dp_status _ HS _ _ HC HD)
          | eapply (dp_apply _ HS _ _ HC HD); eassumption
          | eapply (dp_applyfail _ HS _ _ HC HD); eassumption
          | eapply (dp_commit _ HS _ _ HC HD); eassumption ].

  Lemma rec_prop_dyn (o : oracle) (w : Wd) t' i t (C : Cfg) :
    SInv w -> cfgs w !! t = Some C -> dyn C ->
    dyn (fold_left (cfg_on t) (fst (p2_reconcile o w (CtlProp (t', i)))) C).
  Proof.
    intros HS HC HD. unfold p2_reconcile. cbn [Proto2.reconcile]. unfold Proto2.rec_prop, Proto2.vfail, Proto2.upd_status.
    match goal with |- context [match ?x with Some _ => _ | None => ([], RDone) end] => destruct x as [P|] eqn:HP end; [|exact HD].
    destruct (N.eqb_spec t' t) as [->|Hne].
    - destruct_matches; cbn [fst app]; conc_link; same_cfg HC; cbn [fold_left cfg_on]; rewrite ?N.eqb_refl; dyn_tac HS HC HD.
    - rewrite cfg_neutral_fold; [exact HD|].
      destruct_matches; cbn [fst app]; conc_link;
        repeat first [apply List.Forall_nil | apply List.Forall_cons; [first [exact I|exact Hne]|]].
  Qed.

  Lemma upd_status_dyn (w : Wd) t' t (C C0 C' : Cfg) :
    SInv w -> cfgs w !! t = Some C -> dyn C -> cfgs w !! t' = Some C0 ->
    dyn (fold_left (cfg_on t) (upd_status overlay restore nil t' C0 C' : list Eff) C).
  Proof.
    intros HS HC HD HC0. unfold Proto2.upd_status. cbn [fold_left cfg_on]. destruct (N.eqb_spec t' t) as [->|Hne]; [|exact HD].
    assert (C0 = C) as -> by congruence. unfold dyn. cbn. apply (dp_status w HS t C HC HD).
  Qed.

  Lemma devs_neutral t m term og a (rs : list req) (C : Cfg) t0 :
    fold_left (cfg_on t) (map (fun r => EDev (DevSet t0 m term og r a)) rs : list Eff) C = C.
  Proof. induction rs as [|r rs IH]; [reflexivity|]. cbn. exact IH. Qed.

  Lemma resync_neutral t t0 m term a reqs : Forall (cfg_neutral t) (fst (@resync_effs cmap cmap req t0 m term a reqs)).
  Proof. apply List.Forall_forall. intros e He. apply resync_effs_in in He. destruct He as (r & -> & _). exact I. Qed.

  Lemma fold_cfg_app t (a b : list Eff) (C : Cfg) : fold_left (cfg_on t) (a ++ b) C = fold_left (cfg_on t) b (fold_left (cfg_on t) a C).
  Proof. apply fold_left_app. Qed.

  Lemma rec_cfg_dyn (o : oracle) (w : Wd) t' t (C : Cfg) :
    SInv w -> cfgs w !! t = Some C -> dyn C ->
    dyn (fold_left (cfg_on t) (fst (p2_reconcile o w (CtlCfg t'))) C).
  Proof.
    intros HS HC HD. unfold p2_reconcile. cbn [Proto2.reconcile]. unfold Proto2.rec_cfg.
    destruct_matches; cbn [fst]; try exact HD; try (eapply upd_status_dyn; eassumption).
    all: match goal with E : resync_effs ?t0 ?m0 ?te0 ?a0 ?rq0 = (?es, _) |- _ =>
           pose proof (resync_neutral t t0 m0 te0 a0 rq0) as Hr; rewrite E in Hr; cbn [fst] in Hr end.
    all: match type of Hr with Forall _ ?l =>
           first [ rewrite (cfg_neutral_fold t l C Hr); exact HD
                 | rewrite fold_cfg_app, (cfg_neutral_fold t l C Hr); eapply upd_status_dyn; eassumption ] end.
  Qed.

  Lemma rec_master_dyn (o : oracle) (w : Wd) t' t (C : Cfg) :
    SInv w -> cfgs w !! t = Some C -> dyn C ->
    dyn (fold_left (cfg_on t) (fst (p2_reconcile o w (CtlMaster t'))) C).
  Proof.
    intros HS HC HD. unfold p2_reconcile. cbn [Proto2.reconcile]. unfold Proto2.rec_master.
    destruct_matches; cbn [fst]; try exact HD; eapply upd_status_dyn; eassumption.
  Qed.

  Theorem reconcile_dyn (o : oracle) (w : Wd) c t (C : Cfg) :
    SInv w -> cfgs w !! t = Some C -> dyn C -> dyn (fold_left (cfg_on t) (fst (p2_reconcile o w c)) C).
  Proof.
    intros HS HC HD. destruct c as [i|[t' i]|t'|t'|cc].
    - unfold p2_reconcile. cbn [Proto2.reconcile]. rewrite cfg_neutral_fold; [exact HD|].
      eapply Forall_impl; [apply rec_tx_tp|]. intros e. apply tp_only_cfg_neutral.
    - apply rec_prop_dyn; assumption.
    - apply rec_cfg_dyn; assumption.
    - apply rec_master_dyn; assumption.
    - unfold p2_reconcile. cbn [Proto2.reconcile]. unfold Proto2.rec_conn. destruct_matches; exact HD.
  Qed.
End Dyn.

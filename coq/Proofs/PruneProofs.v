(* tree.PrunePathMap(values, true) keeps every entry that has no tombstone among its boundary ancestors. *)
From Coq Require Import List NArith Bool Permutation.
From OC Require Import Base.Bytes Model.Merge Proofs.MergeProofs Proofs.TextPathProofs.
Import ListNotations.
Open Scope N_scope.

Definition kept (p : str) (values : cfgmap) : bool := map_has p (prune_path_map values true).

Lemma fold_set_has l : forall acc p,
  map_has p (fold_left (fun acc pv => map_set (pv_path pv) pv acc) l acc)
  = map_has p acc || existsb (fun pv => eqb_str p (pv_path pv)) l.
Proof.
  induction l as [|x l IH]; intros acc p; cbn [fold_left existsb]; [rewrite orb_false_r; reflexivity|].
  rewrite IH. unfold map_has. rewrite map_get_set.
  destruct (eqb_str p (pv_path x)); cbn; [rewrite orb_true_r; reflexivity|].
  reflexivity.
Qed.

Lemma mem_str_in s l : mem_str s l = true <-> In s l.
Proof.
  unfold mem_str. rewrite existsb_exists. split.
  - intros [x [HI E]]. apply eqb_str_eq in E. subst. exact HI.
  - intros HI. exists s. split; [exact HI | apply eqb_str_refl].
Qed.

(* a tombstone key of the map *)
Definition tomb (values : cfgmap) (t : str) : Prop := exists e, In (t, e) values /\ pv_deleted e = true.

Lemma is_below_deleted_elim values p :
  keys_ok values -> (forall t, tomb values t -> proper t) ->
  is_below_deleted p (map pv_path (filter pv_deleted (isort pv_leb (map snd values)))) = true ->
  exists t, tomb values t /\ In t (boundary_ancestors p).
Proof.
  intros KO PR H.
  set (D := map pv_path (filter pv_deleted (isort pv_leb (map snd values)))) in *.
  assert (HD : forall a, In a D -> tomb values a).
  { intros a HI. unfold D in HI. apply in_map_iff in HI. destruct HI as [e [<- HI]].
    apply filter_In in HI. destruct HI as [HI De].
    apply (Permutation_in _ (Permutation_sym (isort_perm pv_leb (map snd values)))) in HI.
    apply in_map_iff in HI. destruct HI as [[k e'] [E HI]]. cbn in E. subst e'.
    exists e. split; [|exact De]. rewrite <- (KO _ _ HI). exact HI. }
  unfold is_below_deleted in H. destruct D as [|d0 D'] eqn:ED; [discriminate|]. rewrite <- ED in *.
  apply orb_true_iff in H. destruct H as [H|H].
  - exfalso. apply andb_true_iff in H. destruct H as [_ H]. apply orb_true_iff in H.
    destruct H as [H|H]; apply mem_str_in in H; apply HD in H; apply PR in H; destruct H as [H1 H2]; congruence.
  - destruct p as [|c0 rest]; [discriminate|].
    apply existsb_exists in H. destruct H as [a [HI HM]]. apply mem_str_in in HM.
    exists a. split; [apply HD; exact HM|]. unfold boundary_ancestors. rewrite <- in_rev. exact HI.
Qed.

Lemma kept_intro values p pv :
  keys_ok values -> (forall t, tomb values t -> proper t) ->
  In (p, pv) values ->
  (forall t, tomb values t -> ~ In t (boundary_ancestors p)) ->
  kept p values = true.
Proof.
  intros KO PR HI HN. unfold kept, prune_path_map. rewrite fold_set_has. cbn [map_has map_get orb].
  apply existsb_exists. exists pv. split; [|rewrite (KO _ _ HI); apply eqb_str_refl].
  unfold prune_path_values. apply filter_In. split.
  - apply (Permutation_in _ (isort_perm pv_leb (map snd values))). apply in_map_iff. exists (p, pv). auto.
  - rewrite orb_true_r, andb_true_r. apply negb_true_iff.
    destruct (is_below_deleted (pv_path pv) _) eqn:E; [|reflexivity]. exfalso.
    destruct (is_below_deleted_elim values (pv_path pv) KO PR E) as [t [Ht HA]].
    rewrite <- (KO _ _ HI) in HA. exact (HN t Ht HA).
Qed.

From Coq Require Import List NArith Bool Lia.
From OC Require Import Base.Bytes Model.Rbac.
Import ListNotations.
Open Scope N_scope.

(* the property's wording: "at least one of the caller's groups is exactly one of the configured
   administrator groups" - groups are the ';'-separated non-empty pieces of the groups claim,
   administrator groups the ','-separated pieces of ADMINGROUPS *)
Definition caller_groups (groups : str) : list str := split_on c_semi groups.
Definition admin_groups (admin : str) : list str := split_on c_comma admin.

Definition permitted (admin groups : str) : Prop :=
  exists g, In g (caller_groups groups) /\ g <> [] /\ In g (admin_groups admin).

Lemma nonempty_true s : nonempty s = true <-> s <> [].
Proof. unfold nonempty. rewrite negb_true_iff. apply eqb_str_neq. Qed.

Lemma temporary_evaluate_spec admin groups :
  temporary_evaluate admin groups = true <-> permitted admin groups.
Proof.
  unfold temporary_evaluate, permitted, caller_groups, admin_groups.
  rewrite existsb_exists. split.
  - intros [g [Hin Hg]]. apply andb_true_iff in Hg as [Hne Hex].
    apply existsb_exists in Hex as [ag [Hag Heq]]. apply eqb_str_eq in Heq; subst ag.
    exists g. split; [exact Hin|]. split; [apply nonempty_true; exact Hne | exact Hag].
  - intros [g [Hin [Hne Hag]]]. exists g. split; [exact Hin|].
    apply andb_true_iff. split; [apply nonempty_true; exact Hne|].
    apply existsb_exists. exists g. split; [exact Hag | apply eqb_str_refl].
Qed.

(* a request with identity metadata passes the gate iff permitted *)
Lemma set_gate_identity admin m :
  has_identity m = true -> (set_gate admin m = true <-> permitted admin (md_groups m)).
Proof. unfold set_gate. intros ->. apply temporary_evaluate_spec. Qed.

(* callers with no groups are refused *)
Lemma no_groups_refused admin m :
  has_identity m = true -> md_groups m = [] -> set_gate admin m = false.
Proof.
  intros Hid Hg. unfold set_gate. rewrite Hid, Hg. reflexivity.
Qed.

(* the empty group never matches, whatever ADMINGROUPS is (even empty / unset) *)
Lemma only_empty_groups_refused admin groups :
  Forall (fun g => g = []) (caller_groups groups) -> temporary_evaluate admin groups = false.
Proof.
  intros H. destruct (temporary_evaluate admin groups) eqn:E; [|reflexivity].
  apply temporary_evaluate_spec in E as [g [Hin [Hne _]]].
  rewrite Forall_forall in H. elim Hne. apply H. exact Hin.
Qed.

(* groups that merely resemble an administrator group are refused: if no caller group
   equals an administrator group, nothing passes - substrings and superstrings included *)
Lemma resemblance_refused admin groups :
  (forall g, In g (caller_groups groups) -> ~ In g (admin_groups admin)) ->
  temporary_evaluate admin groups = false.
Proof.
  intros H. destruct (temporary_evaluate admin groups) eqn:E; [|reflexivity].
  apply temporary_evaluate_spec in E as [g [Hin [_ Hag]]]. elim (H g Hin Hag).
Qed.

(* listing: exactly the targets named by one of the caller's groups, or all for the ROC admin *)
Lemma report_targets_spec oidc override groups targets t :
  In t (report_targets oidc override groups targets) <->
  In t targets /\ (oidc = true -> In t groups \/ In (roc_group override) groups).
Proof.
  unfold report_targets. destruct oidc.
  - rewrite filter_In. split.
    + intros [Ht Hex]. split; [exact Ht|]. intros _.
      apply existsb_exists in Hex as [g [Hg Hor]]. apply orb_true_iff in Hor as [E|E];
        apply eqb_str_eq in E; subst; auto.
    + intros [Ht H]. split; [exact Ht|]. apply existsb_exists.
      destruct (H eq_refl) as [Hin|Hin].
      * exists t. split; [exact Hin|]. rewrite eqb_str_refl. reflexivity.
      * exists (roc_group override). split; [exact Hin|]. rewrite eqb_str_refl. apply orb_true_r.
  - split; [intros H; split; [exact H | discriminate] | intros [H _]; exact H].
Qed.

Lemma report_targets_order oidc override groups targets :
  exists keep, report_targets oidc override groups targets = filter keep targets.
Proof.
  unfold report_targets. destruct oidc; [eexists; reflexivity|].
  exists (fun _ => true). induction targets as [|t ts IH]; cbn; [reflexivity | f_equal; exact IH].
Qed.

(* non-vacuity: concrete requests meet the hypotheses on both sides *)
Example ex_admin : set_gate (B "AetherROCAdmin,EnterpriseAdmin")
                     {| md_name := B "alice"; md_pref := []; md_groups := B "users;EnterpriseAdmin" |} = true.
Proof. vm_compute. reflexivity. Qed.
Example ex_substring : set_gate (B "AetherROCAdmin,EnterpriseAdmin")
                     {| md_name := B "bob"; md_pref := []; md_groups := B "Admin;ROC;AetherROCAdmin2" |} = false.
Proof. vm_compute. reflexivity. Qed.
Example ex_nogroups : set_gate (B "AetherROCAdmin,EnterpriseAdmin")
                     {| md_name := B "bob"; md_pref := []; md_groups := [] |} = false.
Proof. vm_compute. reflexivity. Qed.
Example ex_anonymous : set_gate (B "AetherROCAdmin") {| md_name := []; md_pref := []; md_groups := [] |} = true.
Proof. vm_compute. reflexivity. Qed.
Example ex_list : report_targets true [] [B "t2"; B "x"] [B "t1"; B "t2"; B "t3"] = [B "t2"].
Proof. vm_compute. reflexivity. Qed.

(* Proofs about the handlers' wait loop and response (Model/Handler.v) over the GENERATED tables
   (Gen/Tables.v): the table facts below are re-proved against whatever the Go source says now. *)
From Coq Require Import List NArith Arith Bool Lia.
From OC Require Import Base.Bytes Model.Failure Model.Watch2 Model.Handler Gen.Tables Proofs.Watch2Proofs.
Import ListNotations.
Local Close Scope N_scope.
Local Open Scope nat_scope.

(* ------------------------------------------------------------------ small facts *)

Lemma failure_eqb_eq a b : failure_eqb a b = true -> a = b.
Proof. destruct a, b; cbn; intros H; try reflexivity; discriminate. Qed.

Lemma failure_opt_eqb_eq a b : failure_opt_eqb a b = true -> a = b.
Proof.
  destruct a as [x|], b as [y|]; cbn; intros H; try discriminate; [|reflexivity].
  apply failure_eqb_eq in H. congruence.
Qed.

Lemma last_map {X Y} (f : X -> Y) (l : list X) d : last (map f l) (f d) = f (last l d).
Proof.
  induction l as [|a l IH]; [reflexivity|].
  destruct l as [|b l]; [reflexivity|]. exact IH.
Qed.

Lemma last_in {X} (l : list X) d : l <> [] -> In (last l d) l.
Proof.
  induction l as [|a l IH]; intros Hne; [congruence|].
  destruct l as [|b l]; [left; reflexivity|]. right. apply IH. discriminate.
Qed.

(* a FAILED record stays: every later record, the last one included, is FAILED with the same failure *)
Lemma chain_failed_persists h s :
  chain_ok h = true -> In s h -> st_state s = FAILED ->
  st_state (last_status h) = FAILED /\ st_failure (last_status h) = st_failure s.
Proof.
  unfold last_status. revert s.
  induction h as [|a h IH]; intros s Hc Hin Hs; [contradiction|].
  destruct h as [|b h].
  - destruct Hin as [<- | []]. cbn. split; [exact Hs | reflexivity].
  - cbn [chain_ok] in Hc. apply andb_true_iff in Hc. destruct Hc as [Hab Hc].
    change (last (a :: b :: h) (mk_status PENDING None)) with (last (b :: h) (mk_status PENDING None)).
    destruct Hin as [<- | Hin]; [|apply IH; assumption].
    (* a is FAILED, so b is FAILED with the same failure *)
    unfold step_ok in Hab. rewrite Hs in Hab.
    destruct (st_state b) eqn:Eb; try discriminate.
    apply failure_opt_eqb_eq in Hab.
    destruct (IH b Hc (or_introl eq_refl) Eb) as [H1 H2].
    split; [exact H1 | congruence].
Qed.

(* ------------------------------------------------------------------ the loop, for any tables *)

Section Generic.
  Context (wok wfail : synchronicity -> tx_state -> bool)
          (fctor : failure_type -> err_ctor) (nctor : err_ctor).
  (* what the theorems need from the tables *)
  Context (T_terminal : forall sy st, terminal_state st = true -> wok sy st || wfail sy st = true).
  Context (T_ok : forall sy st, wok sy st = true -> awaited sy st = true).
  Context (T_fail : forall sy st, wok sy st = false -> wfail sy st = true -> st = FAILED).
  Context (T_status : forall f, lib_status (fctor f) = status_of f).
  Context (T_nil : lib_status nctor = G_Unknown).

  Let ev := on_event wok wfail fctor nctor.
  Let loop := wait_loop wok wfail fctor nctor.

  Lemma loop_not_waiting evs e : In e evs -> ev e <> Waiting -> loop evs <> Waiting.
  Proof.
    induction evs as [|a evs IH]; intros Hin Hne; [contradiction|].
    cbn. fold (ev a).
    destruct (ev a) eqn:Ea; try discriminate.
    destruct Hin as [-> | Hin]; [congruence | apply IH; assumption].
  Qed.

  Lemma loop_from_event evs r : loop evs = r -> r <> Waiting -> exists e, In e evs /\ ev e = r.
  Proof.
    induction evs as [|a evs IH]; intros Hl Hr; [cbn in Hl; congruence|].
    cbn in Hl. fold (ev a) in Hl.
    destruct (ev a) eqn:Ea.
    - destruct (IH Hl Hr) as [e [Hin He]]. exists e. split; [right; exact Hin | exact He].
    - exists a. split; [left; reflexivity | congruence].
    - exists a. split; [left; reflexivity | congruence].
  Qed.

  Lemma terminal_event_decides e : terminal_state (ev_state e) = true -> ev e <> Waiting.
  Proof.
    intros Ht. unfold ev, on_event.
    specialize (T_terminal (ev_sync e) (ev_state e) Ht).
    destruct (wok (ev_sync e) (ev_state e)); [discriminate|].
    cbn in T_terminal. rewrite T_terminal. discriminate.
  Qed.

  (* ANSWERS, general form: whatever subsequence of the history is delivered, in whatever order, as long
     as the final record is among the delivered events, the loop does not keep waiting *)
  Theorem loop_answers_general sy (h d : list tx_status) :
    terminal (last_status h) = true -> In (last_status h) d ->
    loop (events_of sy d) <> Waiting.
  Proof.
    intros Ht Hin.
    apply loop_not_waiting with (e := mk_event sy (st_state (last_status h)) (st_failure (last_status h))).
    - unfold events_of. apply in_map_iff. exists (last_status h). split; [reflexivity | exact Hin].
    - apply terminal_event_decides. exact Ht.
  Qed.

  Theorem loop_answers sy h j k :
    placement_ok h j k = true -> terminal (last_status h) = true ->
    loop (events_of sy (delivered h j k)) <> Waiting.
  Proof.
    intros Hp Ht. apply loop_answers_general with (h := h); [exact Ht|].
    unfold last_status. rewrite <- (delivered_last h j k _ Hp).
    apply last_in. apply delivered_nonempty. exact Hp.
  Qed.

  (* TRUTHFUL, success: only events of the history are delivered, and the success branch is taken only on
     an event in the awaited stage *)
  Theorem loop_truthful_ok_general sy (h d : list tx_status) :
    incl d h -> loop (events_of sy d) = Succeeded -> reached sy h = true.
  Proof.
    intros Hincl Hl.
    destruct (loop_from_event _ _ Hl ltac:(discriminate)) as [e [Hin He]].
    unfold events_of in Hin. apply in_map_iff in Hin. destruct Hin as [s [<- Hs]].
    unfold ev, on_event in He. cbn in He.
    destruct (wok sy (st_state s)) eqn:Ew.
    - unfold reached. apply existsb_exists. exists s. split; [apply Hincl; exact Hs | apply T_ok; exact Ew].
    - destruct (wfail sy (st_state s)); discriminate.
  Qed.

  (* TRUTHFUL, failure: the transaction is FAILED for good and the code is the one of the recorded class *)
  Theorem loop_truthful_err_general sy (h d : list tx_status) c :
    valid_history h = true -> incl d h -> loop (events_of sy d) = Failed_with c ->
    st_state (last_status h) = FAILED /\ c = status_of_failure (st_failure (last_status h)).
  Proof.
    intros Hv Hincl Hl.
    destruct (loop_from_event _ _ Hl ltac:(discriminate)) as [e [Hin He]].
    unfold events_of in Hin. apply in_map_iff in Hin. destruct Hin as [s [<- Hs]].
    unfold ev, on_event in He. cbn in He.
    destruct (wok sy (st_state s)) eqn:Ew; [discriminate|].
    destruct (wfail sy (st_state s)) eqn:Ef; [|discriminate].
    assert (Hst : st_state s = FAILED) by (eapply T_fail; eassumption).
    assert (Hc : chain_ok h = true) by (unfold valid_history in Hv; destruct h; [discriminate | exact Hv]).
    destruct (chain_failed_persists h s Hc (Hincl _ Hs) Hst) as [H1 H2].
    split; [exact H1|].
    rewrite H2. injection He as <-.
    destruct (st_failure s) as [f|]; cbn; [apply T_status | exact T_nil].
  Qed.

  Lemma delivered_incl' (h : list tx_status) j k : incl (delivered h j k) h.
  Proof. intros x Hx. eapply delivered_incl; exact Hx. Qed.

  Theorem loop_truthful_ok sy h j k :
    loop (events_of sy (delivered h j k)) = Succeeded -> reached sy h = true.
  Proof. apply loop_truthful_ok_general, delivered_incl'. Qed.

  Theorem loop_truthful_err sy h j k c :
    valid_history h = true -> loop (events_of sy (delivered h j k)) = Failed_with c ->
    st_state (last_status h) = FAILED /\ c = status_of_failure (st_failure (last_status h)).
  Proof. intros Hv. apply loop_truthful_err_general; [exact Hv | apply delivered_incl']. Qed.
End Generic.

(* ------------------------------------------------------------------ facts of the generated tables *)

(* Set *)
Lemma set_T_terminal sy st : terminal_state st = true -> set_wait_ok sy st || set_wait_failed sy st = true.
Proof. destruct sy, st; cbn; intros H; try reflexivity; discriminate. Qed.
Lemma set_T_ok sy st : set_wait_ok sy st = true -> awaited sy st = true.
Proof. destruct sy, st; cbn; intros H; try reflexivity; discriminate. Qed.
Lemma set_T_fail sy st : set_wait_ok sy st = false -> set_wait_failed sy st = true -> st = FAILED.
Proof. destruct sy, st; cbn; intros H1 H2; try reflexivity; discriminate. Qed.
Lemma set_T_status f : lib_status (set_failure_ctor f) = status_of f.
Proof. destruct f; reflexivity. Qed.
Lemma set_T_nil : lib_status set_nil_failure_ctor = G_Unknown.
Proof. reflexivity. Qed.

(* RollbackTransaction *)
Lemma rollback_T_terminal sy st : terminal_state st = true -> rollback_wait_ok sy st || rollback_wait_failed sy st = true.
Proof. destruct sy, st; cbn; intros H; try reflexivity; discriminate. Qed.
Lemma rollback_T_ok sy st : rollback_wait_ok sy st = true -> awaited sy st = true.
Proof. destruct sy, st; cbn; intros H; try reflexivity; discriminate. Qed.
Lemma rollback_T_fail sy st : rollback_wait_ok sy st = false -> rollback_wait_failed sy st = true -> st = FAILED.
Proof. destruct sy, st; cbn; intros H1 H2; try reflexivity; discriminate. Qed.
Lemma rollback_T_status f : lib_status (rollback_failure_ctor f) = status_of f.
Proof. destruct f; reflexivity. Qed.
Lemma rollback_T_nil : lib_status rollback_nil_failure_ctor = G_Unknown.
Proof. reflexivity. Qed.

(* the class can be read back from the code: distinct named classes never share a code *)
Lemma status_of_roundtrip f : In f named_failure_types -> class_of_code (status_of f) = Some f.
Proof. destruct f; cbn; intros H; try reflexivity; repeat (destruct H as [H|H]; [discriminate|]); contradiction. Qed.

Lemma roundtrip_table :
  (forall f, lib_status (set_failure_ctor f) = status_of f) /\
  (forall f, lib_status (rollback_failure_ctor f) = status_of f) /\
  lib_status set_nil_failure_ctor = G_Unknown /\
  lib_status rollback_nil_failure_ctor = G_Unknown /\
  (forall f, In f named_failure_types -> class_of_code (lib_status (set_failure_ctor f)) = Some f) /\
  (forall f, In f named_failure_types -> class_of_code (lib_status (rollback_failure_ctor f)) = Some f) /\
  (forall f, status_of f <> G_OK).
Proof.
  repeat split.
  - exact set_T_status.
  - exact rollback_T_status.
  - intros f Hf. rewrite set_T_status. apply status_of_roundtrip. exact Hf.
  - intros f Hf. rewrite rollback_T_status. apply status_of_roundtrip. exact Hf.
  - intros f. destruct f; discriminate.
Qed.

(* ------------------------------------------------------------------ Set and RollbackTransaction *)

Theorem set_answers sy h j k :
  placement_ok h j k = true -> terminal (last_status h) = true ->
  set_wait (events_of sy (delivered h j k)) <> Waiting.
Proof. apply loop_answers. exact set_T_terminal. Qed.

Theorem rollback_answers sy h j k :
  placement_ok h j k = true -> terminal (last_status h) = true ->
  rollback_wait (events_of sy (delivered h j k)) <> Waiting.
Proof. apply loop_answers. exact rollback_T_terminal. Qed.

Theorem answers :
  forall sy h j k, placement_ok h j k = true -> terminal (last_status h) = true ->
    set_wait (events_of sy (delivered h j k)) <> Waiting /\
    rollback_wait (events_of sy (delivered h j k)) <> Waiting.
Proof. intros. split; [apply set_answers | apply rollback_answers]; assumption. Qed.

(* also under any other delivery (lost, repeated or reordered events) that still hands over the final record *)
Theorem answers_any_delivery :
  forall sy h d, terminal (last_status h) = true -> In (last_status h) d ->
    set_wait (events_of sy d) <> Waiting /\ rollback_wait (events_of sy d) <> Waiting.
Proof.
  intros. split; [apply (loop_answers_general _ _ _ _ set_T_terminal) with (h := h)
                 | apply (loop_answers_general _ _ _ _ rollback_T_terminal) with (h := h)]; assumption.
Qed.

Theorem truthful :
  forall sy h j k,
    (set_wait (events_of sy (delivered h j k)) = Succeeded -> reached sy h = true) /\
    (rollback_wait (events_of sy (delivered h j k)) = Succeeded -> reached sy h = true) /\
    (forall c, valid_history h = true ->
       set_wait (events_of sy (delivered h j k)) = Failed_with c \/
       rollback_wait (events_of sy (delivered h j k)) = Failed_with c ->
       st_state (last_status h) = FAILED /\ c = status_of_failure (st_failure (last_status h))).
Proof.
  intros sy h j k. split; [|split].
  - apply loop_truthful_ok. exact set_T_ok.
  - apply loop_truthful_ok. exact rollback_T_ok.
  - intros c Hv [H|H].
    + eapply loop_truthful_err; [exact set_T_fail | exact set_T_status | exact set_T_nil | exact Hv | exact H].
    + eapply loop_truthful_err; [exact rollback_T_fail | exact rollback_T_status | exact rollback_T_nil | exact Hv | exact H].
Qed.

(* ------------------------------------------------------------------ whole handlers *)

Definition cm_parses (cm : change_map) : bool := forallb path_parses (cm_paths cm).

Lemma response_rows_some cm rows : response_rows cm = Some rows -> rows = rows_of cm.
Proof. unfold response_rows. destruct (forallb path_parses (cm_paths cm)); intros H; [congruence | discriminate]. Qed.

Lemma tx_lookup_create log id cm :
  tx_lookup (fst (tx_create log id cm)) (snd (tx_create log id cm)) = Some (id, cm).
Proof.
  unfold tx_create, tx_lookup. cbn [fst snd].
  rewrite Nat2N.id. rewrite nth_error_app2 by lia. rewrite Nat.sub_diag. reflexivity.
Qed.

(* the successful response lists exactly what the request changed, and its (id, index) are those under
   which that change map is stored in the log *)
Theorem response_exact log id cm evs r :
  snd (set_handler log id cm evs) = SetOk r ->
  resp_rows r = rows_of cm /\ resp_id r = id /\
  tx_lookup (fst (set_handler log id cm evs)) (resp_index r) = Some (id, cm).
Proof.
  unfold set_handler.
  pose proof (tx_lookup_create log id cm) as Hl.
  destruct (tx_create log id cm) as [log' index] eqn:Ec. cbn [fst snd] in *.
  destruct (set_wait evs); try discriminate.
  destruct (response_rows cm) as [rows|] eqn:Er; [|discriminate].
  intros [= <-]. cbn. apply response_rows_some in Er.
  repeat split; [exact Er | exact Hl].
Qed.

Theorem rollback_response_exact nlog id evs id' index :
  rollback_handler nlog id evs = RbOk id' index -> id' = id /\ index = N.of_nat (S nlog).
Proof. unfold rollback_handler. destruct (rollback_wait evs); intros H; try discriminate. injection H as <- <-. split; reflexivity. Qed.

Theorem set_handler_answers log id cm sy h j k :
  placement_ok h j k = true -> terminal (last_status h) = true ->
  snd (set_handler log id cm (events_of sy (delivered h j k))) <> SetWaiting.
Proof.
  intros Hp Ht. pose proof (set_answers sy h j k Hp Ht) as Hw.
  unfold set_handler. destruct (tx_create log id cm) as [log' index]. cbn [snd].
  destruct (set_wait (events_of sy (delivered h j k))); [congruence | | discriminate].
  destruct (response_rows cm); discriminate.
Qed.

Theorem rollback_handler_answers nlog id sy h j k :
  placement_ok h j k = true -> terminal (last_status h) = true ->
  rollback_handler nlog id (events_of sy (delivered h j k)) <> RbWaiting.
Proof.
  intros Hp Ht. pose proof (rollback_answers sy h j k Hp Ht) as Hw.
  unfold rollback_handler. destruct (rollback_wait (events_of sy (delivered h j k))); [congruence | discriminate | discriminate].
Qed.

Theorem handlers_answer : forall log nlog id cm sy h j k,
  placement_ok h j k = true -> terminal (last_status h) = true ->
  snd (set_handler log id cm (events_of sy (delivered h j k))) <> SetWaiting /\
  rollback_handler nlog id (events_of sy (delivered h j k)) <> RbWaiting.
Proof.
  intros. split; [apply set_handler_answers | apply rollback_handler_answers]; assumption.
Qed.

Theorem set_handler_truthful log id cm sy h j k :
  (forall r, snd (set_handler log id cm (events_of sy (delivered h j k))) = SetOk r -> reached sy h = true) /\
  (forall c, cm_parses cm = true -> valid_history h = true ->
     snd (set_handler log id cm (events_of sy (delivered h j k))) = SetErr c ->
     st_state (last_status h) = FAILED /\ c = status_of_failure (st_failure (last_status h))).
Proof.
  destruct (truthful sy h j k) as [Hok [_ Herr]].
  unfold set_handler. destruct (tx_create log id cm) as [log' index]. cbn [snd].
  split.
  - intros r. destruct (set_wait (events_of sy (delivered h j k))) eqn:Ew; try discriminate.
    intros _. apply Hok. reflexivity.
  - intros c Hp Hv. destruct (set_wait (events_of sy (delivered h j k))) eqn:Ew; try discriminate.
    + unfold response_rows. unfold cm_parses in Hp. rewrite Hp. discriminate.
    + intros [= <-]. apply Herr; [exact Hv | left; reflexivity].
Qed.

Theorem rollback_handler_truthful nlog id sy h j k :
  (forall i n, rollback_handler nlog id (events_of sy (delivered h j k)) = RbOk i n -> reached sy h = true) /\
  (forall c, valid_history h = true ->
     rollback_handler nlog id (events_of sy (delivered h j k)) = RbErr c ->
     st_state (last_status h) = FAILED /\ c = status_of_failure (st_failure (last_status h))).
Proof.
  destruct (truthful sy h j k) as [_ [Hok Herr]].
  unfold rollback_handler. split.
  - intros i n. destruct (rollback_wait (events_of sy (delivered h j k))) eqn:Ew; try discriminate.
    intros _. apply Hok. reflexivity.
  - intros c Hv. destruct (rollback_wait (events_of sy (delivered h j k))) eqn:Ew; try discriminate.
    intros [= <-]. apply Herr; [exact Hv | right; reflexivity].
Qed.

(* ------------------------------------------------------------------ the hypotheses are not vacuous *)

Definition ex_history : list tx_status :=
  [mk_status PENDING None; mk_status PENDING None; mk_status VALIDATED None; mk_status VALIDATED None;
   mk_status COMMITTED None; mk_status COMMITTED None; mk_status FAILED (Some F_UNAVAILABLE);
   mk_status FAILED (Some F_UNAVAILABLE)].

Example ex_history_valid :
  valid_history ex_history = true /\ terminal (last_status ex_history) = true /\
  placement_ok ex_history 2 5 = true /\
  (* stale events after the snapshot: replay of record 5, then records 3.. again *)
  map st_state (delivered ex_history 2 5) = [COMMITTED; VALIDATED; VALIDATED; COMMITTED; COMMITTED; FAILED; FAILED] /\
  set_wait (events_of ASYNCHRONOUS (delivered ex_history 2 5)) = Succeeded /\
  set_wait (events_of SYNCHRONOUS (delivered ex_history 2 5)) = Failed_with G_Unavailable /\
  set_wait (events_of ASYNCHRONOUS (delivered ex_history 0 8)) = Failed_with G_Unavailable.
Proof. vm_compute. repeat split. Qed.

Definition ex_cm : change_map :=
  [(B "t1", [(B "/a/b[k=v]/c", false); (B "/x", true)]); (B "t2", [(B "/y", false)])].

Example ex_cm_parses : cm_parses ex_cm = true /\
  rows_of ex_cm = [(B "t1", B "/a/b[k=v]/c", OpUpdate); (B "t1", B "/x", OpDelete); (B "t2", B "/y", OpUpdate)].
Proof. vm_compute. split; reflexivity. Qed.

(* Why [cm_parses] is needed: the handler also answers with a (plain, code Unknown) error when a path of
   its own change map does not parse while building the response, although the transaction succeeded.
   Paths that went through Set's request validation come from utils.StrPath and parse (property C16's
   round trip); this only documents the model's behaviour, it is not a reproduced defect. *)
Example set_err_unparsable_path_witness :
  let h := [mk_status PENDING None; mk_status APPLIED None] in
  snd (set_handler [] (B "id") [(B "t1", [(B "/a[", false)])] (events_of SYNCHRONOUS (delivered h 0 2))) = SetErr G_Unknown
  /\ st_state (last_status h) = APPLIED.
Proof. vm_compute. split; reflexivity. Qed.

(* Why the replay matters: a watcher registered after the last event was dispatched and whose replay read
   finds nothing (k = 0; the code logs the read error and goes on) is never told anything *)
Example no_replay_no_answer :
  let h := [mk_status PENDING None; mk_status APPLIED None] in
  set_wait (events_of SYNCHRONOUS (delivered h 2 0)) = Waiting.
Proof. reflexivity. Qed.

(* whole-log form: the id filter gives the watcher exactly its own transaction's events *)
Theorem answers_whole_log (log : list (str * tx_status)) tid sy j k :
  let h := project eqb_str tid log in
  j <= k -> k <= length log -> 1 <= length (project eqb_str tid (firstn k log)) ->
  terminal (last_status h) = true ->
  set_wait (events_of sy (log_delivered eqb_str log tid j k)) <> Waiting /\
  rollback_wait (events_of sy (log_delivered eqb_str log tid j k)) <> Waiting.
Proof.
  intros h Hjk Hk Hone Ht. rewrite log_delivered_project. fold h.
  apply answers; [|exact Ht].
  unfold placement_ok. rewrite !andb_true_iff, !Nat.leb_le. repeat split.
  - exact Hone.
  - unfold h. rewrite <- (firstn_skipn k log) at 2. rewrite project_app, app_length. lia.
  - apply project_firstn_mono. exact Hjk.
Qed.

(* two watchers on one transaction (the handler's and, say, admin WatchTransactions with that ID): the one
   that leaves takes only itself out of the store's registry, the handler's watch stays registered *)
Theorem second_watcher_leaves : forall (r : list (str * list nat)) t2 w2 t1 w1,
  w1 <> w2 ->
  (In w1 (watchers_of eqb_str (unregister eqb_str Nat.eqb r t2 w2) t1) <-> In w1 (watchers_of eqb_str r t1)).
Proof. exact (unregister_others_unaffected eqb_str Nat.eqb eqb_str_eq Nat.eqb_eq). Qed.

(* Proto3BlocksStep: every Reconcile call, stopped after any number of its store writes, keeps both layers of the
   frontier invariant (Inv of Proto3OrderBase and FInv of Proto3BlocksBase); hence the blocking rule for failed / aborted
   applies holds in every reachable world. *)
From Coq Require Import List NArith Bool Arith Lia.
From OC Require Import Model.Proto3 Spec.Tla3 Proofs.Proto3Proofs Proofs.Proto3OrderBase Proofs.Proto3OrderStepBase
  Proofs.Proto3OrderTx Proofs.Proto3OrderTxA Proofs.Proto3OrderCfg Proofs.Proto3OrderCfgC Proofs.Proto3OrderCfgA Proofs.Proto3OrderCfgA2
  Proofs.Proto3OrderCfgAC Proofs.Proto3OrderStep
  Proofs.Proto3BlocksBase Proofs.Proto3BlocksTx Proofs.Proto3BlocksTxA Proofs.Proto3BlocksTxA2 Proofs.Proto3BlocksCfg
  Proofs.Proto3BlocksCfgC Proofs.Proto3BlocksCfgR Proofs.Proto3BlocksCfgA.
Import ListNotations.
Open Scope N_scope.

Definition Inv2 (w : world) : Prop := Inv w /\ FInv (get_tx w) (cmc w) (apc w).

Record ST2 (w : world) (i : N) (t : txn) (c : config) : Prop :=
  { st2_inv : Inv2 w; st2_tx : get_tx w i = Some t; st2_cfg : w_cfg w = Some c }.

Lemma ST2_ST w i t c : ST2 w i t c -> ST w i t c.
Proof. intros [[H1 H1'] H2 H3]. constructor; assumption. Qed.

Lemma ST2_S w i t c : ST2 w i t c -> SInv (get_tx w) (nlen w) (c_cm c) (c_ap c).
Proof. intros S. exact (proj1 (ST_IA _ _ _ _ (ST2_ST _ _ _ _ S))). Qed.

Lemma ST2_F w i t c : ST2 w i t c -> FInv (get_tx w) (c_cm c) (c_ap c).
Proof. intros [[H1 H1'] H2 H3]. unfold cmc, apc in H1'. rewrite H3 in H1'. exact H1'. Qed.

Fixpoint okchain2 (o : oracle) (w : world) (effs : list eff) : Prop :=
  match effs with
  | [] => True
  | e :: r => Inv2 (apply_eff o w e) /\ okchain2 o (apply_eff o w e) r
  end.

Lemma run_effs_chain2 o effs : forall k w, Inv2 w -> okchain2 o w effs -> Inv2 (run_effs o k effs w).
Proof.
  induction effs as [|e r IH]; intros k w HI HC; cbn; [exact HI|].
  destruct HC as [H1 H2].
  destruct e as [i t evs | c cv av evs | el req code | ].
  - destruct k; [exact HI | apply IH; assumption].
  - destruct k; [exact HI | apply IH; assumption].
  - apply IH; assumption.
  - exact H1.
Qed.

Lemma chain_cfg2 o w i t c c' cv av evs r :
  ST2 w i t c ->
  IA (get_tx w) (nlen w) (c_cm c') (c_ap c') (w_hist w ++ evs) ->
  FInv (get_tx w) (c_cm c') (c_ap c') ->
  (ST2 (apply_eff o w (EPutCfg c' cv av evs)) i t (stored c' cv) -> okchain2 o (apply_eff o w (EPutCfg c' cv av evs)) r) ->
  okchain2 o w (EPutCfg c' cv av evs :: r).
Proof.
  intros [H1 H2 H3] HA HF K. cbn [okchain2].
  assert (HI : Inv2 (apply_eff o w (EPutCfg c' cv av evs))) by (split; [apply put_cfg_inv; exact HA | exact HF]).
  split; [exact HI|]. apply K. constructor; [exact HI | exact H2 | reflexivity].
Qed.

Lemma chain_tx2 o w i t c t' evs r :
  ST2 w i t c ->
  IA (updf (get_tx w) i t') (nlen w) (c_cm c) (c_ap c) (w_hist w ++ evs) ->
  FInv (updf (get_tx w) i t') (c_cm c) (c_ap c) ->
  (ST2 (apply_eff o w (EPutTx i t' evs)) i t' c -> okchain2 o (apply_eff o w (EPutTx i t' evs)) r) ->
  okchain2 o w (EPutTx i t' evs :: r).
Proof.
  intros [H1 H2 H3] HA HF K. cbn [okchain2].
  assert (HI : Inv2 (apply_eff o w (EPutTx i t' evs))).
  { split.
    - apply (put_tx_inv o w i t t' evs H2). unfold cmc, apc. rewrite H3. exact HA.
    - change (apply_eff o w (EPutTx i t' evs)) with (with_txs w (set_nth (N.to_nat (i - 1)) t' (w_txs w)) (w_hist w ++ evs)).
      eapply FInv_ext; [intros j; symmetry; apply get_tx_set with (t := t); exact H2|].
      unfold cmc, apc. cbn [w_cfg with_txs]. rewrite H3. exact HF. }
  split; [exact HI|]. apply K. constructor; [exact HI | apply (get_tx_put_tx_same o w i t t' evs H2) | exact H3].
Qed.

Lemma Inv2_dev o w el req code : Inv2 w -> Inv2 (apply_eff o w (EDev el req code)).
Proof. intros H. unfold apply_eff. destruct (code =? 0); exact H. Qed.

Lemma chain_dev2 o w i t c el req code r :
  ST2 w i t c ->
  (ST2 (apply_eff o w (EDev el req code)) i t c -> okchain2 o (apply_eff o w (EDev el req code)) r) ->
  okchain2 o w (EDev el req code :: r).
Proof.
  intros [H1 H2 H3] K. cbn [okchain2].
  assert (HI : Inv2 (apply_eff o w (EDev el req code))) by (apply Inv2_dev; exact H1).
  split; [exact HI|]. apply K. constructor; [exact HI | rewrite get_tx_dev; exact H2 | rewrite cfg_dev; exact H3].
Qed.

Lemma chain_panic2 o w : Inv2 w -> okchain2 o w [EPanic].
Proof. intros H. cbn [okchain2]. split; [exact H | exact I]. Qed.

(* the second-layer lemma of the kind of a write *)
Ltac use_F L S tx := eapply L with (t := tx); [apply (ST2_S _ _ _ _ S) | apply (ST2_F _ _ _ _ S) | apply (st2_tx _ _ _ _ S) | side .. ].
Ltac cfgF_kind S tx evs :=
  lazymatch evs with
  | [ev PhChange StCommit _ InProgress] => use_F F_cfg_C1 S tx
  | [ev PhChange StCommit _ Complete] => use_F F_cfg_C4 S tx
  | [ev PhRollback StCommit _ InProgress] => use_F F_cfg_R1 S tx
  | [ev PhRollback StCommit _ Complete] => use_F F_cfg_R2 S tx
  | [ev PhChange StApply _ InProgress] => use_F F_cfg_AC1 S tx
  | [ev PhChange StApply _ Complete] => use_F F_cfg_AC4 S tx
  | [ev PhRollback StApply _ InProgress] => use_F F_cfg_AR1 S tx
  | [ev PhRollback StApply _ Complete] => use_F F_cfg_AR4 S tx
  | [] => first [ use_F F_cfg_C5 S tx | use_F F_cfg_bump S tx | use_F F_cfg_AR3 S tx ]
  end.

Ltac txF_kind S tx t' :=
  lazymatch t' with
  | tx_set_rollback (set_cc _ InProgress) _ _ _ _ _ _ => use_F F_tx_C1' S tx
  | tx_set_change _ Complete _ _ _ _ => use_F F_tx_C2 S tx
  | tx_set_change _ Failed Canceled _ _ _ => use_F F_tx_C3 S tx
  | set_rc _ InProgress _ => use_F F_tx_R1' S tx
  | set_rc _ Complete _ => use_F F_tx_R3 S tx
  | set_ca _ InProgress _ => use_F F_tx_AC1' S tx
  | set_ca _ Aborted _ => use_F F_tx_abort S tx
  | set_ca _ Complete _ => use_F F_tx_AC2 S tx
  | set_ca _ Failed _ => use_F F_tx_AC3 S tx
  | set_ra _ InProgress _ => use_F F_tx_AR1' S tx
  | set_ra _ Complete _ => use_F F_tx_AR2 S tx
  | set_ra _ Failed _ => use_F F_tx_AR3 S tx
  end.

Ltac walk2 S t :=
  lazymatch goal with
  | |- okchain2 _ _ [] => exact I
  | |- okchain2 _ _ [EPanic] => apply chain_panic2; apply (st2_inv _ _ _ _ S)
  | |- okchain2 _ _ (EDev _ _ _ :: _) =>
      eapply chain_dev2; [exact S|]; let S' := fresh "S" in intros S'; facts (ST2_ST _ _ _ _ S') t; walk2 S' t
  | |- okchain2 _ _ (EPutCfg _ _ _ ?evs :: _) =>
      eapply chain_cfg2; [exact S | prjs; cfg_kind (ST2_ST _ _ _ _ S) t | prjs; cfgF_kind S t evs |];
      let S' := fresh "S" in intros S'; facts (ST2_ST _ _ _ _ S') t; walk2 S' t
  | |- okchain2 _ _ (EPutTx _ ?t' _ :: _) =>
      eapply chain_tx2; [exact S | prjs; tx_kind (ST2_ST _ _ _ _ S) t t' | prjs; txF_kind S t t' |];
      let S' := fresh "S" in intros S'; facts (ST2_ST _ _ _ _ S') t'; walk2 S' t'
  end.

Lemma commit_change_inv2 o w i t c r : ST2 w i t c ->
  commit_change o w i t c = Some r -> okchain2 o w (fst r).
Proof.
  intros S H.
  unfold commit_change in H. destruct (t_cc t) eqn:Ecc; try discriminate;
    revert H; break_match; intros H; inversion H; subst; clear H; cbn [fst]; unfold put_cfg; b2p; codes.
  all: try (pose proof (gate_commit_change_go _ _ ltac:(eassumption)) as Gt).
  all: facts (ST2_ST _ _ _ _ S) t; walk2 S t.
Qed.

Lemma commit_rollback_inv2 o w i t c r : ST2 w i t c ->
  commit_rollback o w i t c = Some r -> okchain2 o w (fst r).
Proof.
  intros S H.
  unfold commit_rollback in H. destruct (t_rc t) as [rcs|] eqn:Erc; [|discriminate].
  destruct rcs; try discriminate;
    revert H; break_match; intros H; inversion H; subst; clear H; cbn [fst]; unfold put_cfg; b2p; codes.
  all: try (match goal with G : gate_commit_rollback _ _ _ = GGo |- _ =>
              pose proof (gate_commit_rollback_go _ _ _ _ G (st2_tx _ _ _ _ S) ltac:(lia)) as Gt end).
  all: facts (ST2_ST _ _ _ _ S) t; walk2 S t.
Qed.

Lemma apply_change_inv2 o w i t c r : ST2 w i t c ->
  apply_change o w i t c = Some r -> okchain2 o w (fst r).
Proof.
  intros S H.
  unfold apply_change in H. destruct (st_eqb (t_cc t) Complete) eqn:Ecc; cbn [negb] in H; [|discriminate].
  destruct (t_ca t) eqn:Eca; try discriminate;
    revert H; break_match; intros H; inversion H; subst; clear H; cbn [fst]; unfold put_cfg; b2p; codes.
  all: try (match goal with G : gate_apply_change _ _ = GGo |- _ => pose proof (gate_apply_change_go _ _ G) as Gt end).
  all: facts (ST2_ST _ _ _ _ S) t; walk2 S t.
Qed.

Lemma apply_rollback_inv2 o w i t c r : ST2 w i t c ->
  apply_rollback o w i t c = Some r -> okchain2 o w (fst r).
Proof.
  intros S H.
  unfold apply_rollback in H. destruct (t_rc t) as [rcs|] eqn:Erc; [|discriminate].
  destruct rcs; try discriminate.
  destruct (t_ra t) as [ras|] eqn:Era; [|discriminate].
  destruct ras; try discriminate;
    revert H; break_match; intros H; inversion H; subst; clear H; cbn [fst]; unfold put_cfg; b2p; codes.
  all: try (match goal with G : gate_abort _ _ = GGo |- _ => pose proof (gate_abort_go _ _ G) as Gt end).
  all: facts (ST2_ST _ _ _ _ S) t; walk2 S t.
Qed.

Lemma rec_tx_inv2 o w i : Inv2 w -> okchain2 o w (fst (rec_tx o w i)).
Proof.
  intros HI. unfold rec_tx.
  destruct (get_tx w i) as [t|] eqn:Et; [|exact I].
  destruct (w_cfg w) as [c|] eqn:Ec; [|exact I].
  assert (S : ST2 w i t c) by (constructor; assumption).
  destruct (t_rb t); unfold orelse.
  - destruct (commit_rollback o w i t c) as [r|] eqn:E1; [eapply commit_rollback_inv2; eauto|].
    destruct (apply_rollback o w i t c) as [r|] eqn:E2; [eapply apply_rollback_inv2; eauto | exact I].
  - destruct (commit_change o w i t c) as [r|] eqn:E1; [eapply commit_change_inv2; eauto|].
    destruct (apply_change o w i t c) as [r|] eqn:E2; [eapply apply_change_inv2; eauto | exact I].
Qed.

Lemma neutral_chain2 o effs : forall w, Forall (neutral (cmc w) (apc w)) effs -> Inv2 w -> okchain2 o w effs.
Proof.
  induction effs as [|e r IH]; intros w F HI; [exact I|].
  inversion F as [|? ? He Fr]; subst. cbn [okchain2].
  destruct e as [i t evs | c' cv av evs | el req code | ]; cbn in He; try contradiction.
  - destruct evs; [|contradiction]. destruct He as [E1 E2].
    assert (HI' : Inv2 (apply_eff o w (EPutCfg c' cv av []))).
    { destruct HI as [H1 H2]. split.
      - apply put_cfg_inv. rewrite E1, E2, app_nil_r. exact H1.
      - change (FInv (get_tx w) (c_cm c') (c_ap c')). rewrite E1, E2. exact H2. }
    split; [exact HI'|]. apply IH; [|exact HI'].
    replace (cmc (apply_eff o w (EPutCfg c' cv av []))) with (cmc w) by (symmetry; exact E1).
    replace (apc (apply_eff o w (EPutCfg c' cv av []))) with (apc w) by (symmetry; exact E2).
    exact Fr.
  - assert (HI' : Inv2 (apply_eff o w (EDev el req code))) by (apply Inv2_dev; exact HI).
    split; [exact HI'|]. apply IH; [|exact HI'].
    unfold cmc, apc. rewrite cfg_dev. exact Fr.
Qed.

Lemma rec_cfg_inv2 o w : Inv2 w -> okchain2 o w (fst (rec_cfg o w)).
Proof.
  intros HI. destruct (w_cfg w) as [c|] eqn:Hc.
  - apply neutral_chain2; [|exact HI]. unfold cmc, apc. rewrite Hc. apply rec_cfg_neutral; exact Hc.
  - unfold rec_cfg. rewrite Hc. exact I.
Qed.

Lemma rec_master_inv2 o w : Inv2 w -> okchain2 o w (fst (rec_master o w)).
Proof.
  intros HI. destruct (w_cfg w) as [c|] eqn:Hc.
  - apply neutral_chain2; [|exact HI]. unfold cmc, apc. rewrite Hc. apply rec_master_neutral; exact Hc.
  - unfold rec_master. rewrite Hc. exact I.
Qed.

Lemma FInv_w0 : FInv (get_tx w0) (cmc w0) (apc w0).
Proof.
  constructor; intros;
    repeat match goal with H : get_tx w0 _ = Some _ |- _ => rewrite get_tx_w0 in H; discriminate H end;
    cbn in *; lia.
Qed.

Lemma step_inv2 w l : Inv2 w -> Inv2 (step w l).
Proof.
  intros HI. split; [apply step_inv; exact (proj1 HI)|].
  destruct HI as [HI HF]. unfold step. destruct (w_panicked w); [exact HF|].
  destruct l.
  - destruct (w_cfg w) eqn:Hc; [exact HF|].
    unfold cmc, apc in *. rewrite Hc in HF. cbn. exact HF.
  - change (upd w (w_txs w ++ [new_txn vs]) (w_cfg w) (w_pmap w) (w_target w) (w_rels w) (w_conns w) (w_dev w) (w_elect w))
      with (with_txs w (w_txs w ++ [new_txn vs]) (w_hist w)).
    eapply FInv_ext; [intros j; symmetry; apply get_tx_app|].
    eapply F_tx_append; [exact (proj1 HI) | exact HF | reflexivity].
  - destruct (get_tx w i) as [t|] eqn:Et; [|exact HF].
    match goal with |- FInv (get_tx (upd w (set_nth ?n ?t' (w_txs w)) _ _ _ _ _ _ _)) _ _ =>
      change (FInv (get_tx (with_txs w (set_nth n t' (w_txs w)) (w_hist w))) (cmc w) (apc w)); set (tn := t') end.
    eapply FInv_ext; [intros j; symmetry; apply get_tx_set with (t := t); exact Et|].
    eapply F_tx_Rb with (t := t); [exact (proj1 HI) | exact HF | exact Et | reflexivity].
  - exact (proj2 (run_effs_chain2 o _ k w (conj HI HF) (rec_tx_inv2 o w i (conj HI HF)))).
  - exact (proj2 (run_effs_chain2 o _ k w (conj HI HF) (rec_cfg_inv2 o w (conj HI HF)))).
  - exact (proj2 (run_effs_chain2 o _ k w (conj HI HF) (rec_master_inv2 o w (conj HI HF)))).
  - exact HF.
  - exact HF.
  - exact HF.
  - exact HF.
Qed.

Theorem Inv2_reach : forall w, reach w -> Inv2 w.
Proof. apply (reach_ind_inv Inv2); [split; [exact Inv_w0 | exact FInv_w0] | intros w l; apply step_inv2]. Qed.

(* ------------------------------------------------------------------ the blocking rule as Spec/Tla3 states it *)
Lemma st_in_code s l : st_in s l = existsb (fun x => st_code s =? st_code x) l.
Proof. reflexivity. Qed.

Lemma blocks_from_ok l :
  (forall p q t u, nth_error l p = Some t -> nth_error l q = Some u -> (p < q)%nat ->
     ca t = 3 \/ ca t = 5 -> ra t <> 2 -> ra t <> 5 -> ca u <> 1 /\ ca u <> 2) ->
  blocks_from l = true.
Proof.
  induction l as [|t r IH]; intros H; [reflexivity|]. cbn [blocks_from].
  rewrite IH by (intros p q t1 u1 H1 H2 L; apply (H (S p) (S q) t1 u1 H1 H2); lia).
  rewrite andb_true_r.
  destruct (st_in (t_ca t) [Failed; Aborted]) eqn:Ef; [|reflexivity]. cbn [negb orb].
  destruct (rolled_back t) eqn:Er; [reflexivity|]. cbn [orb].
  apply negb_true_iff. apply existsb_false_all. intros u Hu.
  apply In_nth_error in Hu. destruct Hu as [q Hq].
  assert (F : ca t = 3 \/ ca t = 5) by (destruct (t_ca t); cbn in Ef |- *; try discriminate; lia).
  assert (R : ra t <> 2 /\ ra t <> 5).
  { unfold rolled_back in Er. destruct (t_ra t) as [s|]; cbn; [|lia]. destruct s; cbn in Er |- *; try discriminate; lia. }
  destruct (H O (S q) t u eq_refl Hq ltac:(lia) F (proj1 R) (proj2 R)) as [X1 X2].
  destruct (t_ca u); cbn in X1, X2 |- *; try reflexivity; lia.
Qed.

Theorem failed_blocks_later_reach : forall w, reach w -> failed_blocks_later_ok w = true.
Proof.
  intros w Hw. destruct (Inv2_reach w Hw) as [_ HF].
  unfold failed_blocks_later_ok. apply blocks_from_ok.
  intros p q t u Hp Hq L F R1 R2.
  assert (Gp : get_tx w (N.of_nat (S p)) = Some t).
  { unfold get_tx. replace (N.of_nat (S p) =? 0) with false by (symmetry; apply N.eqb_neq; lia).
    replace (N.to_nat (N.of_nat (S p) - 1)) with p by lia. exact Hp. }
  assert (Gq : get_tx w (N.of_nat (S q)) = Some u).
  { unfold get_tx. replace (N.of_nat (S q) =? 0) with false by (symmetry; apply N.eqb_neq; lia).
    replace (N.to_nat (N.of_nat (S q) - 1)) with q by lia. exact Hq. }
  apply (fb _ _ _ HF _ t _ u Gp Gq F R1 R2). lia.
Qed.

(* The hypotheses of the implication theorems of Proofs/P2_Order.v and Proofs/P2_OrderStep.v are satisfiable on
   non-trivial reachable worlds of the executable instance Model/P2Inst.v (evaluated by vm_compute): one Set naming
   two targets, driven through initialisation, validation (accepted / rejected on the second target), commit. *)
From stdpp Require Import gmap.
From RecordUpdate Require Import RecordUpdate.
From Coq Require Import NArith.
From OC Require Import Base.Bytes Model.P2Pure Model.Proto2 Model.P2Inst.
Open Scope N_scope.

Definition o_acc : oracle := mkOracle true true COk 0 0.
Definition o_rej : oracle := mkOracle true false COk 0 0.
Definition o_noplug : oracle := mkOracle false true COk 0 0.
Definition ch1 : cmap := [(B "/a", mkPV (B "/a") (B "1") false 0)].
Definition ch2 : cmap := [(B "/b", mkPV (B "/b") (B "2") false 0)].
Definition tx (n : nat) : Label := LRec (CtlTx 1) n o_acc.
Definition pr (t : N) (o : oracle) : Label := LRec (CtlProp (t, 1)) 9 o.

(* 13 labels: the Set, transaction and proposals initialised, both proposals VALIDATING *)
Definition ls_validating : list Label :=
  [LChange [(1, ch1); (2, ch2)] true false; tx 9; tx 9;
   pr 1 o_acc; pr 1 o_acc; pr 1 o_acc; pr 2 o_acc; pr 2 o_acc; pr 2 o_acc;
   tx 9; tx 9; tx 9; tx 9].
Definition w_validating : Wd := Eval vm_compute in fold_left p2_step ls_validating p2_init.
(* target 2 rejected *)
Definition w_rejected : Wd := Eval vm_compute in fold_left p2_step [pr 1 o_acc; pr 2 o_rej] w_validating.
(* both accepted, transaction VALIDATED, COMMITTING, both proposals COMMITTING *)
Definition ls_committing : list Label := [pr 1 o_acc; pr 2 o_acc; tx 9; tx 9; tx 9; tx 9].
Definition w_validated : Wd := Eval vm_compute in fold_left p2_step [pr 1 o_acc; pr 2 o_acc; tx 9] w_validating.
Definition w_committing : Wd := Eval vm_compute in fold_left p2_step ls_committing w_validating.

Lemma reach_validating : w_validating = fold_left p2_step ls_validating p2_init.
Proof. vm_compute. reflexivity. Qed.
Lemma reach_rejected : w_rejected = fold_left p2_step (ls_validating ++ [pr 1 o_acc; pr 2 o_rej]) p2_init.
Proof. vm_compute. reflexivity. Qed.
Lemma reach_validated : w_validated = fold_left p2_step (ls_validating ++ [pr 1 o_acc; pr 2 o_acc; tx 9]) p2_init.
Proof. vm_compute. reflexivity. Qed.
Lemma reach_committing : w_committing = fold_left p2_step (ls_validating ++ ls_committing) p2_init.
Proof. vm_compute. reflexivity. Qed.

(* C05_validated_on_predecessor: a validation becomes done in the next step *)
Example ex_validated :
  exists P P', props w_validating !! (1, 1) = Some P /\ props (p2_step w_validating (pr 1 o_acc)) !! (1, 1) = Some P' /\ p_validate P' = Some Done /\ p_validate P <> Some Done.
Proof.
  eexists _, _. split; [vm_compute; reflexivity|]. split; [vm_compute; reflexivity|].
  split; [vm_compute; reflexivity|vm_compute; discriminate].
Qed.

(* C05_reject_or_no_plugin_fails / C05_reject_keeps_configurations: proposal (2,1) is VALIDATING on its predecessor *)
Example ex_reject_hyps :
  exists P C, props w_validating !! (2, 1) = Some P /\ cfgs w_validating !! 2 = Some C /\ p_apply P = None /\ p_abort P = None /\ p_commit P = None /\ p_validate P = Some Doing /\ negb (p_prev P =? 0) && negb (c_committed C =? p_prev P) = false /\ (o_plugin o_noplug = false \/ o_verdict o_noplug = false) /\ (o_plugin o_rej = false \/ o_verdict o_rej = false).
Proof.
  eexists _, _. split; [vm_compute; reflexivity|]. split; [vm_compute; reflexivity|].
  do 5 (split; [vm_compute; reflexivity|]). split; [left; reflexivity|right; reflexivity].
Qed.

(* C01_reject_never_commits / C05_rejected_never_alters: a reachable world with a rejected share *)
Example ex_rejected : exists P, props w_rejected !! (2, 1) = Some P /\ p_validate P = Some Failed.
Proof. eexists. split; [vm_compute; reflexivity|vm_compute; reflexivity]. Qed.

(* C01_agreement: a validated transaction listing two proposals *)
Example ex_agreement :
  exists T, txs w_validated !! 1 = Some T /\ t_props T = Some [1; 2] /\ t_validate T = Some Done.
Proof. eexists. split; [vm_compute; reflexivity|]. split; vm_compute; reflexivity. Qed.

(* C01_values_only_by_commit: the commit of proposal (1,1) changes the stored values of target 1 *)
Example ex_values_change :
  exists C C', cfgs w_committing !! 1 = Some C /\ cfgs (p2_step w_committing (pr 1 o_acc)) !! 1 = Some C' /\
               c_values C' <> c_values C.
Proof. eexists _, _. split; [vm_compute; reflexivity|]. split; [vm_compute; reflexivity|]. vm_compute. discriminate. Qed.

(* C01_all_or_none_at_fixpoint: an idle world - both proposals COMMITTED, the transaction APPLYING, no target entity:
   every reconciler of every existing record has nothing to do, for every oracle (reconcilers of absent records
   return no effect by their first match), and both listed proposals are COMMITTED *)
Definition w_idle : Wd :=
  Eval vm_compute in fold_left p2_step [pr 1 o_acc; pr 2 o_acc; tx 9; tx 9; tx 9; tx 9] w_committing.
Lemma reach_idle : w_idle = fold_left p2_step (ls_validating ++ ls_committing ++ [pr 1 o_acc; pr 2 o_acc; tx 9; tx 9; tx 9; tx 9]) p2_init.
Proof. vm_compute. reflexivity. Qed.
Example ex_idle_records : forall o,
  fst (p2_reconcile o w_idle (CtlTx 1)) = [] /\ fst (p2_reconcile o w_idle (CtlProp (1, 1))) = [] /\
  fst (p2_reconcile o w_idle (CtlProp (2, 1))) = [] /\ fst (p2_reconcile o w_idle (CtlCfg 1)) = [] /\
  fst (p2_reconcile o w_idle (CtlCfg 2)) = [] /\ fst (p2_reconcile o w_idle (CtlMaster 1)) = [] /\
  fst (p2_reconcile o w_idle (CtlMaster 2)) = [] /\
  (exists P Q T, props w_idle !! (1, 1) = Some P /\ props w_idle !! (2, 1) = Some Q /\ txs w_idle !! 1 = Some T /\
                 p_commit P = Some Done /\ p_commit Q = Some Done /\ t_apply T = Some Doing).
Proof.
  intros o. do 7 (split; [vm_compute; reflexivity|]).
  eexists _, _, _. do 3 (split; [vm_compute; reflexivity|]). repeat split; vm_compute; reflexivity.
Qed.

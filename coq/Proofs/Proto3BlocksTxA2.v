(* Proto3BlocksTxA2: the remaining transaction-record writes of applyChange / applyRollback preserve FInv (second layer of the frontier invariant, Proto3BlocksBase). *)
From Coq Require Import List NArith Bool Arith Lia.
From OC Require Import Model.Proto3 Spec.Tla3 Proofs.Proto3Proofs Proofs.Proto3OrderBase Proofs.Proto3BlocksBase.
Import ListNotations.
Open Scope N_scope.

Lemma F_tx_AC3 g n cm ap i t t' :
  SInv g n cm ap -> FInv g cm ap -> g i = Some t ->
  cc t = 2 ->
  ca t = 1 ->
  ~ (k_ordinal ap = t_cord t /\ k_revision ap = i) ->
  flds t' = (t_rb t, t_cc t, Failed, t_cord t, t_rc t, t_ra t, t_rord t, t_ridx t) ->
  FInv (updf g i t') cm ap.
Proof.
  intros HS HF Hi G1 G2 G3 F. getflds F.
  finv_by ltac:(split_upd; rwt t') HS HF g idtac.
Qed.

Lemma F_tx_AR1' g n cm ap i t t' :
  SInv g n cm ap -> FInv g cm ap -> g i = Some t ->
  rc t = 2 ->
  ra t = 0 ->
  k_ordinal ap + 1 = t_rord t ->
  k_target ap = t_ridx t ->
  flds t' = (t_rb t, t_cc t, t_ca t, t_cord t, t_rc t, Some InProgress, t_rord t, t_ridx t) ->
  FInv (updf g i t') cm ap.
Proof.
  intros HS HF Hi G1 G2 G3 G4 F. getflds F.
  finv_by ltac:(split_upd; rwt t') HS HF g idtac.
Qed.

Lemma F_tx_AR2 g n cm ap i t t' :
  SInv g n cm ap -> FInv g cm ap -> g i = Some t ->
  ra t = 1 ->
  flds t' = (t_rb t, t_cc t, t_ca t, t_cord t, t_rc t, Some Complete, t_rord t, t_ridx t) ->
  FInv (updf g i t') cm ap.
Proof.
  intros HS HF Hi G1 F. getflds F.
  finv_by ltac:(split_upd; rwt t') HS HF g idtac.
Qed.

Lemma F_tx_AR3 g n cm ap i t t' :
  SInv g n cm ap -> FInv g cm ap -> g i = Some t ->
  ra t = 1 ->
  flds t' = (t_rb t, t_cc t, t_ca t, t_cord t, t_rc t, Some Failed, t_rord t, t_ridx t) ->
  FInv (updf g i t') cm ap.
Proof.
  intros HS HF Hi G1 F. getflds F.
  finv_by ltac:(split_upd; rwt t') HS HF g idtac.
Qed.

(* reconcileCommit followed by the configuration store write (repaired code): what Get reads afterwards. *)
From Coq Require Import List NArith Bool Lia.
From OC Require Import Base.Bytes Model.Merge Model.CfgStore
     Proofs.MergeProofs Proofs.TextPathProofs Proofs.PruneProofs Proofs.StoreProofs.
Import ListNotations.
Open Scope N_scope.

(* ------------------------------------------------------------------ map_del, the ancestor-dropping fold *)
Lemma map_del_keys x k m : In x (map fst (map_del k m)) -> In x (map fst m).
Proof.
  induction m as [|[k0 v0] m IH]; cbn; [tauto|].
  destruct (eqb_str k k0); cbn; [intros H; right; apply IH; exact H|].
  intros [H|H]; [left; exact H | right; apply IH; exact H].
Qed.

Lemma nodup_map_del k m : nodup m -> nodup (map_del k m).
Proof.
  unfold nodup. induction m as [|[k0 v0] m IH]; cbn; intros ND; [constructor|].
  inversion ND as [|? ? Hn ND']; subst.
  destruct (eqb_str k k0); cbn; [apply IH; exact ND'|].
  constructor; [|apply IH; exact ND']. intros H. apply Hn. apply (map_del_keys _ _ _ H).
Qed.

Lemma keys_ok_map_del k m : keys_ok m -> keys_ok (map_del k m).
Proof.
  unfold keys_ok. induction m as [|[k0 v0] m IH]; cbn; intros KO k1 v1 HI; [destruct HI|].
  destruct (eqb_str k k0); cbn in HI.
  - apply IH; [intros k2 v2 H2; apply KO; right; exact H2 | exact HI].
  - destruct HI as [HI|HI]; [apply KO; left; exact HI|].
    apply IH; [intros k2 v2 H2; apply KO; right; exact H2 | exact HI].
Qed.

Definition not_tomb (m : cfgmap) (a : str) : Prop :=
  match map_get a m with Some e => pv_deleted e = false | None => True end.

Lemma drop_step_facts acc a :
  let r := drop_deleted_ancestor acc a in
  (nodup (fst acc) -> nodup (fst r)) /\ (keys_ok (fst acc) -> keys_ok (fst r)) /\
  (forall p v, map_get p (fst r) = Some v -> map_get p (fst acc) = Some v) /\
  (forall p, map_get p (fst r) = None -> map_get p (fst acc) = None \/ p = a) /\
  not_tomb (fst r) a /\
  (forall b, not_tomb (fst acc) b -> not_tomb (fst r) b).
Proof.
  unfold drop_deleted_ancestor, not_tomb.
  destruct (map_get a (fst acc)) as [e|] eqn:G; [destruct (pv_deleted e) eqn:D|]; cbn [fst].
  - repeat split.
    + apply nodup_map_del.
    + apply keys_ok_map_del.
    + intros p v H. rewrite map_get_del in H. destruct (eqb_str p a); [discriminate | exact H].
    + intros p H. rewrite map_get_del in H. deq p a; [right; reflexivity | left; exact H].
    + rewrite map_get_del, eqb_str_refl. exact I.
    + intros b H. rewrite map_get_del. destruct (eqb_str b a); [exact I | exact H].
  - repeat split; auto. rewrite G. exact D.
  - repeat split; auto. rewrite G. exact I.
Qed.

Lemma drop_fold_facts ancs : forall acc,
  let r := fold_left drop_deleted_ancestor ancs acc in
  (nodup (fst acc) -> nodup (fst r)) /\ (keys_ok (fst acc) -> keys_ok (fst r)) /\
  (forall p v, map_get p (fst r) = Some v -> map_get p (fst acc) = Some v) /\
  (forall p, map_get p (fst r) = None -> map_get p (fst acc) = None \/ In p ancs) /\
  (forall a, In a ancs -> not_tomb (fst r) a) /\
  (forall b, not_tomb (fst acc) b -> not_tomb (fst r) b).
Proof.
  induction ancs as [|a ancs IH]; intros acc; cbn [fold_left].
  - repeat split; auto. intros a [].
  - destruct (drop_step_facts acc a) as [S1 [S2 [S3 [S4 [S5 S6]]]]].
    destruct (IH (drop_deleted_ancestor acc a)) as [R1 [R2 [R3 [R4 [R5 R6]]]]].
    repeat split.
    + intros H. apply R1, S1, H.
    + intros H. apply R2, S2, H.
    + intros p v H. apply S3, R3, H.
    + intros p H. destruct (R4 p H) as [H'|H']; [|right; right; exact H'].
      destruct (S4 p H') as [H''|H'']; [left; exact H'' | right; left; symmetry; exact H''].
    + intros b [<-|H]; [apply R6, S5 | apply R5, H].
    + intros b H. apply R6, S6, H.
Qed.

Lemma ancestor_neq a x : In a (boundary_ancestors x) -> a <> x.
Proof.
  intros H E. subst a. apply in_ancestors_iff in H. destruct H as [_ [c [r [E _]]]].
  apply (f_equal (@length N)) in E. rewrite app_length in E. cbn in E. lia.
Qed.

(* ------------------------------------------------------------------ applyChangeToConfig, one value *)
Lemma apply_change_facts vals k u :
  let r := fst (apply_change_to_config vals k u) in
  (nodup vals -> nodup r) /\ (keys_ok vals -> k = pv_path u -> keys_ok r) /\
  (forall p v, map_get p r = Some v -> (p = k /\ v = u) \/ (p <> k /\ map_get p vals = Some v)) /\
  (forall p, map_get p r = None -> p <> k /\ (map_get p vals = None \/ In p (boundary_ancestors k))) /\
  (pv_deleted u = false -> forall a, In a (boundary_ancestors k) -> not_tomb r a) /\
  (forall b, b <> k -> not_tomb vals b -> not_tomb r b).
Proof.
  unfold apply_change_to_config. destruct (pv_deleted u) eqn:Du.
  - (* a deleted value (13d170a): the value is set, no ancestor is touched *)
    cbn [fst]. repeat split.
    + intros H. apply nodup_map_set, H.
    + intros H E. apply keys_ok_map_set; assumption.
    + intros p v H. rewrite map_get_set in H. deq p k; [left; injection H as <-; auto | right; auto].
    + rewrite map_get_set in H. deq p k; [discriminate | exact E].
    + rewrite map_get_set in H. destruct (eqb_str p k); [discriminate | left; exact H].
    + discriminate.
    + intros b Nb H. unfold not_tomb. rewrite map_get_set. apply eqb_str_neq in Nb. rewrite Nb. exact H.
  - destruct (drop_fold_facts (boundary_ancestors k) (map_set k u vals, None)) as [R1 [R2 [R3 [R4 [R5 R6]]]]].
    cbn [fst] in *. repeat split.
    + intros H. apply R1, nodup_map_set, H.
    + intros H E. apply R2, keys_ok_map_set; assumption.
    + intros p v H. apply R3 in H. rewrite map_get_set in H.
      deq p k; [left; injection H as <-; auto | right; auto].
    + apply R4 in H. destruct H as [H|H].
      * rewrite map_get_set in H. deq p k; [discriminate | exact E].
      * apply ancestor_neq. exact H.
    + apply R4 in H. destruct H as [H|H]; [|right; exact H].
      rewrite map_get_set in H. destruct (eqb_str p k); [discriminate | left; exact H].
    + intros _. exact R5.
    + intros b Nb H. apply R6. unfold not_tomb. rewrite map_get_set. apply eqb_str_neq in Nb. rewrite Nb. exact H.
Qed.

(* ------------------------------------------------------------------ the whole updated map *)
Lemma apply_all_cons vals k u upd :
  apply_all vals ((k, u) :: upd) = apply_all (fst (apply_change_to_config vals k u)) upd.
Proof. reflexivity. Qed.

Lemma apply_all_wf upd : forall vals, keys_ok upd -> nodup vals -> keys_ok vals ->
  nodup (apply_all vals upd) /\ keys_ok (apply_all vals upd).
Proof.
  induction upd as [|[k u] upd IH]; intros vals KU NV KV; [split; assumption|].
  rewrite apply_all_cons.
  destruct (apply_change_facts vals k u) as [A1 [A2 _]].
  apply IH.
  - intros k1 v1 H1. apply KU. right. exact H1.
  - apply A1, NV.
  - apply A2; [exact KV | apply KU; left; reflexivity].
Qed.

(* where an entry of the result comes from *)
Lemma apply_all_prov upd : forall vals p v, nodup upd ->
  map_get p (apply_all vals upd) = Some v ->
  map_get p upd = Some v \/ (map_get p upd = None /\ map_get p vals = Some v).
Proof.
  induction upd as [|[k u] upd IH]; intros vals p v ND H; [right; split; [reflexivity | exact H]|].
  rewrite apply_all_cons in H. unfold nodup in ND. cbn in ND. inversion ND as [|? ? Hn ND']; subst.
  destruct (apply_change_facts vals k u) as [_ [_ [A3 _]]].
  cbn [map_get]. destruct (IH _ p v ND' H) as [H1|[H1 H2]].
  - left. deq p k; [|exact H1]. exfalso. apply Hn. apply map_get_some_in in H1. apply (in_map fst) in H1. exact H1.
  - destruct (A3 p v H2) as [[-> ->]|[Np Hv]].
    + left. rewrite eqb_str_refl. reflexivity.
    + right. apply eqb_str_neq in Np. rewrite Np. split; assumption.
Qed.

(* a tombstone above a LIVE value of the updated map that the updated map itself does not name is gone
   (a deleted value leaves its ancestors alone, 13d170a) *)
Lemma apply_all_not_tomb_other upd : forall vals t, ~ In t (map fst upd) -> not_tomb vals t -> not_tomb (apply_all vals upd) t.
Proof.
  induction upd as [|[k u] upd IH]; intros vals t Hn H; [exact H|].
  rewrite apply_all_cons. cbn in Hn.
  destruct (apply_change_facts vals k u) as [_ [_ [_ [_ [_ A6]]]]].
  apply IH; [intros HI; apply Hn; right; exact HI|].
  apply A6; [intros E; apply Hn; left; symmetry; exact E | exact H].
Qed.

Lemma apply_all_clears upd : forall vals p v t, nodup upd ->
  In (p, v) upd -> pv_deleted v = false -> In t (boundary_ancestors p) -> ~ In t (map fst upd) ->
  not_tomb (apply_all vals upd) t.
Proof.
  induction upd as [|[k u] upd IH]; intros vals p v t ND HI Dv HA Hn; [destruct HI|].
  rewrite apply_all_cons. unfold nodup in ND. cbn in ND, Hn. inversion ND as [|? ? Hk ND']; subst.
  destruct (apply_change_facts vals k u) as [_ [_ [_ [_ [A5 _]]]]].
  destruct HI as [HI|HI].
  - injection HI as -> ->. apply apply_all_not_tomb_other; [intros H; apply Hn; right; exact H|].
    apply A5; [exact Dv | exact HA].
  - apply (IH _ p v t ND' HI Dv HA). intros H. apply Hn. right. exact H.
Qed.

(* a key that disappears was dropped as the ancestor of a key of the updated map *)
Lemma apply_all_dropped upd : forall vals p,
  map_get p (apply_all vals upd) = None -> map_get p vals <> None \/ In p (map fst upd) ->
  exists x, In x (map fst upd) /\ In p (boundary_ancestors x).
Proof.
  induction upd as [|[k u] upd IH]; intros vals p H HP.
  - cbn in H. destruct HP as [HP|[]]. congruence.
  - rewrite apply_all_cons in H.
    destruct (apply_change_facts vals k u) as [_ [_ [A3 [A4 _]]]].
    destruct (map_get p (fst (apply_change_to_config vals k u))) as [w|] eqn:G.
    + destruct (IH _ p H) as [x [Hx Ha]]; [left; congruence|]. exists x. split; [right; exact Hx | exact Ha].
    + destruct (A4 p G) as [Np [Hv|Ha]].
      * destruct HP as [HP|[HP|HP]]; [congruence | cbn in HP; congruence|].
        destruct (IH _ p H) as [x [Hx Ha]]; [right; exact HP|]. exists x. split; [right; exact Hx | exact Ha].
      * exists k. split; [left; reflexivity | exact Ha].
Qed.

(* ------------------------------------------------------------------ commit + store = sequential gNMI *)
Definition proper_keys (m : cfgmap) : Prop := forall k v, In (k, v) m -> proper k.

(* no live stored value lies beneath a stored tombstone (the store keeps this: see the theorem's corollary) *)
Definition clean (M : cfgmap) : Prop :=
  forall p t e, live M p <> None -> In (t, e) M -> pv_deleted e = true -> is_path_below p t = false.

(* a stored live value is a leaf: neither a stored path nor a path of the request lies beneath it *)
Definition leaf_ok (M ch : cfgmap) : Prop :=
  forall p q, live M p <> None -> In q (map fst M) \/ In q (map fst ch) -> is_path_below q p = false.

Definition fresh_index (idx : N) (M ch : cfgmap) : Prop :=
  (forall k c, In (k, c) ch -> pv_index c = idx) /\ (forall k e, In (k, e) M -> pv_index e <> idx).

Section Commit.
  Context (idx : N) (M ch : cfgmap).
  Context (KM : keys_ok M) (NM : nodup M) (PM : proper_keys M) (CM : clean M)
          (KC : keys_ok ch) (NC : nodup ch) (PC : proper_keys ch) (GC : no_overlap ch)
          (LF : leaf_ok M ch) (FI : fresh_index idx M ch).

  Let acc := fold_left (adc_step idx) ch ([], M).
  Let V' := commit_merge idx ch M.

  Lemma V'_unfold : V' = apply_all (snd acc) (fst acc).
  Proof. reflexivity. Qed.

  Let INV : adc_inv idx M ch acc := adc_invariant idx M KM NM ch KC NC GC.

  Lemma V'_wf : nodup V' /\ keys_ok V'.
  Proof.
    rewrite V'_unfold. apply apply_all_wf; [apply (ai_upd_ok _ _ _ _ INV) | apply (ai_st_nd _ _ _ _ INV) | apply (ai_st_ok _ _ _ _ INV)].
  Qed.

  (* every entry of the merged map: the request's own value, or a stored value marked deleted now, or an untouched stored entry *)
  Lemma V'_prov p v : map_get p V' = Some v ->
    (map_get p (fst acc) = Some v /\ (In (p, v) ch \/ (pv_deleted v = true /\ pv_index v = idx)))
    \/ (map_get p (fst acc) = None /\ map_get p M = Some v).
  Proof.
    intros H. rewrite V'_unfold in H.
    destruct (apply_all_prov _ _ _ _ (ai_nodup _ _ _ _ INV) H) as [H1|[H1 H2]].
    - left. split; [exact H1 | apply (ai_prov _ _ _ _ INV); exact H1].
    - right. split; [exact H1|]. rewrite <- (ai_miss _ _ _ _ INV p H1). exact H2.
  Qed.

  Lemma V'_index p v : map_get p V' = Some v -> map_get p M = Some v \/ pv_index v = idx.
  Proof.
    intros H. destruct (V'_prov p v H) as [[_ [HI|[_ HI]]]|[_ HM]].
    - right. apply (proj1 FI p v HI).
    - right. exact HI.
    - left. exact HM.
  Qed.

  Lemma V'_key_proper t e : map_get t V' = Some e -> proper t.
  Proof.
    intros H. destruct (V'_prov t e H) as [[H1 _]|[_ HM]].
    - assert (HN : map_get t (fst acc) <> None) by congruence.
      destruct (ai_dom _ _ _ _ INV t HN) as [HK|[kd [d [_ [_ [_ HV]]]]]].
      + apply in_map_iff in HK. destruct HK as [[k c] [E HK]]. cbn in E. subst k. apply (PC _ _ HK).
      + destruct (map_get t M) as [w|] eqn:G; [|congruence]. apply map_get_some_in in G. apply (PM _ _ G).
    - apply map_get_some_in in HM. apply (PM _ _ HM).
  Qed.

  (* a tombstone of the updated map is an own delete or a cascaded stored value: either way a delete d of the
     request has it at or beneath its path *)
  Lemma upd_tomb_under_delete t e : map_get t (fst acc) = Some e -> pv_deleted e = true ->
    exists kd d, In (kd, d) ch /\ pv_deleted d = true /\ (t = pv_path d \/ is_path_below t (pv_path d) = true).
  Proof.
    intros H De. assert (HN : map_get t (fst acc) <> None) by congruence.
    destruct (ai_dom _ _ _ _ INV t HN) as [HK|[kd [d [HI [Dd [Bd _]]]]]].
    - apply in_map_iff in HK. destruct HK as [[k c] [E HK]]. cbn in E. subst k.
      destruct (pv_deleted c) eqn:Dc.
      + exists t, c. split; [exact HK|]. split; [exact Dc|]. left. apply KC. exact HK.
      + rewrite (ai_own _ _ _ _ INV t c HK Dc) in H. injection H as <-. congruence.
    - exists kd, d. auto.
  Qed.

  Lemma live_kept p pv : map_get p V' = Some pv -> pv_deleted pv = false -> kept p V' = true.
  Proof.
    intros Hp Dp. destruct V'_wf as [NV KV].
    apply (kept_intro V' p pv KV).
    - intros t [e [HI _]]. apply (V'_key_proper t e). apply map_get_in; assumption.
    - apply map_get_some_in. exact Hp.
    - intros t [e [HI De]] HA.
      assert (Ht : map_get t V' = Some e) by (apply map_get_in; assumption).
      assert (Pt : proper t) by (apply (V'_key_proper t e Ht)).
      assert (Bt : is_path_below p t = true) by (apply (ancestor_below p t Pt); exact HA).
      destruct (V'_prov p pv Hp) as [[Hpu [HIp|[Dx _]]]|[Hpn HpM]]; [| congruence |].
      + (* p is an own update of the request *)
        destruct (V'_prov t e Ht) as [[Htu _]|[Htn HtM]].
        * destruct (upd_tomb_under_delete t e Htu De) as [kd [d [HId [Dd [Et|Bd]]]]].
          -- pose proof (GC p pv kd d HIp HId Dp Dd) as F. rewrite <- (KC _ _ HIp), <- Et in F. congruence.
          -- assert (Pd : proper (pv_path d)) by (rewrite <- (KC _ _ HId); apply (PC _ _ HId)).
             pose proof (below_trans p t (pv_path d) Pt Pd Bt Bd) as B.
             pose proof (GC p pv kd d HIp HId Dp Dd) as F. rewrite <- (KC _ _ HIp) in F. congruence.
        * (* an old tombstone the request does not name: dropped when p was applied *)
          assert (NT : not_tomb V' t).
          { rewrite V'_unfold. apply (apply_all_clears (fst acc) (snd acc) p pv t (ai_nodup _ _ _ _ INV)).
            - apply map_get_some_in. exact Hpu.
            - exact Dp.
            - exact HA.
            - intros HK. apply map_get_in_keys in HK. congruence. }
          unfold not_tomb in NT. rewrite Ht in NT. congruence.
      + (* p is an untouched stored live value *)
        assert (Lp : live M p <> None) by (unfold live; rewrite HpM; unfold live_of; rewrite Dp; discriminate).
        destruct (V'_prov t e Ht) as [[Htu _]|[Htn HtM]].
        * destruct (upd_tomb_under_delete t e Htu De) as [kd [d [HId [Dd H]]]].
          assert (Pd : proper (pv_path d)) by (rewrite <- (KC _ _ HId); apply (PC _ _ HId)).
          assert (B : is_path_below p (pv_path d) = true).
          { destruct H as [Et|Bd]; [rewrite <- Et; exact Bt | apply (below_trans p t (pv_path d) Pt Pd Bt Bd)]. }
          assert (HC : map_get p (fst acc) <> None).
          { apply (ai_hit _ _ _ _ INV). right. exists kd, d. repeat split; try assumption. congruence. }
          congruence.
        * apply map_get_some_in in HtM. pose proof (CM p t e Lp HtM De). congruence.
  Qed.

  Lemma gone_not_live p : map_get p V' = None -> live M p = None.
  Proof.
    intros H. destruct (live M p) eqn:L; [|reflexivity]. exfalso.
    assert (Lp : live M p <> None) by congruence.
    assert (HS : map_get p (snd acc) <> None).
    { intros E. apply (ai_st_dom _ _ _ _ INV) in E. unfold live in L. rewrite E in L. discriminate. }
    rewrite V'_unfold in H.
    destruct (apply_all_dropped _ _ _ H (or_introl HS)) as [x [Hx Ha]].
    assert (Pp : proper p).
    { unfold live in L. destruct (map_get p M) as [w|] eqn:G; [|discriminate]. apply map_get_some_in in G. apply (PM _ _ G). }
    assert (B : is_path_below x p = true) by (apply (ancestor_below x p Pp); exact Ha).
    assert (HX : In x (map fst M) \/ In x (map fst ch)).
    { apply map_get_in_keys in Hx. destruct (ai_dom _ _ _ _ INV x Hx) as [HK|[kd [d [_ [_ [_ HV]]]]]]; [right; exact HK|].
      left. destruct (map_get x M) as [w|] eqn:G; [|congruence]. apply map_get_some_in in G. apply (in_map fst) in G. exact G. }
    pose proof (LF p x Lp HX). congruence.
  Qed.

  (* the live leaves Get reads after the commit has been stored = one gNMI request applied to those before *)
  Theorem commit_store_refines p : live (persist_commit M idx ch) p = spec_live_fun M ch p.
  Proof.
    unfold persist_commit. fold V'. destruct V'_wf as [NV KV].
    rewrite (store_write_live M V' KV NV). rewrite <- (merge_refines_eq idx M ch KM NM KC NC GC p). fold V'.
    unfold live at 2.
    destruct (map_get p V') as [pv|] eqn:Hp; [|apply gone_not_live; exact Hp].
    unfold decision. rewrite <- (KV p pv (map_get_some_in _ _ _ Hp)).
    destruct (pv_deleted pv) eqn:Dp.
    - (* a tombstone: nothing live can result *)
      assert (LN : live_of pv = None) by (unfold live_of; rewrite Dp; reflexivity). rewrite LN.
      destruct (map_get p M) as [e|] eqn:GM.
      + destruct (kept p V'); cbn [negb]; [|reflexivity].
        destruct (pv_index pv =? pv_index e) eqn:EI; cbn [negb]; [|reflexivity].
        apply N.eqb_eq in EI. destruct (V'_index p pv Hp) as [HM|HI].
        * rewrite GM in HM. injection HM as ->. exact LN.
        * exfalso. apply map_get_some_in in GM. apply (proj2 FI p e GM). congruence.
      + destruct (kept p V'); reflexivity.
    - rewrite (live_kept p pv Hp Dp). cbn [negb].
      destruct (map_get p M) as [e|] eqn:GM; [|reflexivity].
      destruct (pv_index pv =? pv_index e) eqn:EI; cbn [negb]; [|reflexivity].
      apply N.eqb_eq in EI. destruct (V'_index p pv Hp) as [HM|HI].
      + rewrite GM in HM. injection HM as ->. reflexivity.
      + exfalso. apply map_get_some_in in GM. apply (proj2 FI p e GM). congruence.
  Qed.
End Commit.
